import Kitoken.Model.Basic
