/- Operation handlers of the line-protocol driver: each returns "<model answer> || <spec verdict>". -/
import Kitoken.Driver.Def
import Kitoken.Spec.Process
import Kitoken.Spec.Decoder
import Kitoken.Spec.Pieces
import Kitoken.Spec.UnigramCheck
import Kitoken.Spec.Split
import Kitoken.Spec.CharsMap
namespace Kitoken.Driver

open Kitoken Std

def parseDir : String → Option Direction
  | "L" => some .left
  | "R" => some .right
  | _ => none

def parseProcessing (s : String) : Option Processing :=
  match s.splitOn "." with
  | ["S", id, l, r] => do pure (.strip (UInt32.ofNat (← id.toNat?)) (← l.toNat?) (← r.toNat?))
  | ["C", id] => do pure (.collapse (UInt32.ofNat (← id.toNat?)))
  | ["P", id, n, st, d] => do pure (.pad (UInt32.ofNat (← id.toNat?)) (← n.toNat?) (← st.toNat?) (← parseDir d))
  | ["T", n, st, d] => do pure (.truncate (← n.toNat?) (← st.toNat?) (← parseDir d))
  | _ => none

def parseSteps (f : String → Option α) (s : String) : Option (List α) :=
  if s == "-" then some [] else (s.splitOn ",").mapM f

def showErr : Err → String
  | .invalidPiece b => s!"ERR piece {toHex b}"
  | .invalidToken i => s!"ERR token {i.toNat}"
  | .other t => s!"ERR {t}"

def showResIds : Res (List Id) → String
  | .ok ids => s!"OK {showIds ids}"
  | .err e => showErr e
  | .panic _ => "PANIC"

def showResBytes : Res Bytes → String
  | .ok b => s!"OK {toHex b}"
  | .err e => showErr e
  | .panic _ => "PANIC"

def showOutIds : Out (List Id) → String
  | .res r => showResIds r
  | .miss w => s!"MISS {w}"

def showOutBytes : Out Bytes → String
  | .res r => showResBytes r
  | .miss w => s!"MISS {w}"

/-- Parses an implementation answer of the form `OK <ids>` / `PANIC` / `ERR …`. -/
def parseImplIds (ws : List String) : Option (Res (List Id)) :=
  match ws with
  | ["OK", ids] => (parseIds ids).map .ok
  | ["PANIC"] => some (.panic "impl")
  | ["CRASH"] => some (.panic "crash")
  | ["ERR", "piece", b] => (parseHex b).map fun b => .err (.invalidPiece b)
  | ["ERR", "token", i] => i.toNat?.map fun i => .err (.invalidToken (UInt32.ofNat i))
  | _ => none

def parseImplBytes (ws : List String) : Option (Res Bytes) :=
  match ws with
  | ["OK", b] => (parseHex b).map .ok
  | ["PANIC"] => some (.panic "impl")
  | ["CRASH"] => some (.panic "crash")
  | ["ERR", "piece", b] => (parseHex b).map fun b => .err (.invalidPiece b)
  | ["ERR", "token", i] => i.toNat?.map fun i => .err (.invalidToken (UInt32.ofNat i))
  | _ => none

/-! ### C13: token steps and byte steps -/

def procVerdict (steps : List Processing) (ts : List Id) (impl : Res (List Id)) : String :=
  match impl with
  | .ok out =>
    if ts.isEmpty then (if out.isEmpty then "HOLDS" else "FAILS empty-input-changed")
    else match steps with
      | [] => if out == ts then "HOLDS" else "FAILS no-steps-changed"
      | [p] => if Spec.stepHolds p ts out then "HOLDS" else "FAILS step-effect"
      | _ => "HOLDS-NA"
  | _ => "FAILS not-total"

def handleProc (args : List String) (impl : List String) : String :=
  match args with
  | [steps, ids] =>
    match parseSteps parseProcessing steps, parseIds ids, parseImplIds impl with
    | some steps, some ts, some impl =>
      s!"{showResIds (configProcess steps ts)} || {procVerdict steps ts impl}"
    | _, _, _ => "BAD-OP"
  | _ => "BAD-OP"

def splitOracle (args : List String) : List String × List OracleEntry :=
  (args.filter (!isOracleWord ·), (args.filter isOracleWord).filterMap parseOracle)

def handleDecStep (args : List String) (impl : List String) : String :=
  let (args, tab) := splitOracle args
  match args with
  | [steps, text] =>
    match parseSteps parseDecoding steps, parseHex text, parseImplBytes impl with
    | some steps, some t, some impl =>
      let model := match configDecode (mkExt tab).dec steps t with
        | none => "MISS decode replace"
        | some r => showResBytes r
      let verdict := match impl with | .ok _ => "HOLDS-NA" | _ => "FAILS not-total"
      s!"{model} || {verdict}"
    | _, _, _ => "BAD-OP"
  | _ => "BAD-OP"

/-! ### definitions and the full pipeline -/

structure State where
  building : HashMap Nat DefBuild := {}
  toks : HashMap Nat (Tokenizer Float) := {}

def showInit : Except InitError (Tokenizer Float) → String
  | .ok _ => "OK"
  | .error .invalidScores => "ERR InvalidScores"
  | .error .invalidEncoder => "ERR InvalidEncoder"
  | .error .invalidSpecialEncoder => "ERR InvalidSpecialEncoder"
  | .error .invalidUtf8 => "ERR InvalidUtf8"
  | .error .invalidRegex => "ERR InvalidRegex"

def handleDef (st : State) (args : List String) : State × String :=
  match args with
  | slot :: rest =>
    match slot.toNat? with
    | none => (st, "BAD-OP")
    | some slot =>
      -- take the builder out of the map first so that its arrays are updated in place
      let b := st.building.getD slot {}
      let st := { st with building := st.building.erase slot }
      let upd (b' : Option DefBuild) : State × String :=
        match b' with
        | some b' => ({ st with building := st.building.insert slot b' }, "ACK")
        | none => (st, "BAD-OP")
      match rest with
      | ["NEW", kind, chars, maxw] =>
        upd (do pure { kind := kind, chars := ← parseBool chars, maxWordChars := ← maxw.toNat? })
      | ["V", id, hex, score] =>
        upd (do
          let i ← id.toNat?; let h ← parseHex hex
          -- move the arrays out of the record before pushing, so that they are unshared
          let vocab := b.vocab; let scores := b.scores
          let b := { b with vocab := #[], scores := #[] }
          let scores ← if score == "none" then some scores else score.toNat?.map fun s => scores.push (UInt32.ofNat s)
          pure { b with vocab := vocab.push (UInt32.ofNat i, h), scores := scores })
      | ["S", id, hex, kind, extract, score, ident] =>
        upd (do
          let i ← id.toNat?; let h ← parseHex hex; let k ← parseKind kind; let e ← parseBool extract
          let s ← score.toNat?
          let idn ← if ident == "none" then some none else (parseHex ident).map some
          let sp : SpecialDef := { id := UInt32.ofNat i, bytes := h, kind := k, ident := idn, score := UInt32.ofNat s, extract := e }
          pure { b with specials := b.specials.push sp })
      | ["XS", score] =>
        upd (do let s ← score.toNat?; pure { b with scores := b.scores.push (UInt32.ofNat s) })
      | ["FB", l] => upd (do pure { b with fallback := ← parseSteps parseFallback l })
      | ["N", e] => upd (do pure { b with norm := b.norm.push (← parseNormalization e) })
      | ["SP", e] => upd (do pure { b with split := b.split.push (← parseSplit e) })
      | ["PR", e] => upd (do pure { b with processing := b.processing.push (← parseProcessing e) })
      | ["DC", e] => upd (do pure { b with decoding := b.decoding.push (← parseDecoding e) })
      | ["TPL", pos, hex] =>
        upd (do
          let c ← parseHex hex; let n ← pos.toNat?; let p ← parsePosition n
          pure { b with templates := b.templates.push ⟨c, p⟩ })
      | ["END"] =>
        let r := Tokenizer.new b.toDefinition
        let st' := match r with
          | .ok tk => { st with toks := st.toks.insert slot tk, building := st.building.erase slot }
          | .error _ => { st with toks := st.toks.erase slot, building := st.building.erase slot }
        (st', s!"{showInit r} || HOLDS-NA")
      | _ => (st, "BAD-OP")
  | _ => (st, "BAD-OP")

def handleEnc (st : State) (args : List String) (_impl : List String) : String :=
  let (args, tab) := splitOracle args
  match args with
  | [slot, s, text] =>
    match slot.toNat?.bind (st.toks[·]?), parseBool s, parseHex text with
    | some tk, some s, some t =>
      s!"{showOutIds (tk.encode (mkExt tab) t s)} || HOLDS-NA"
    | _, _, _ => "BAD-OP"
  | _ => "BAD-OP"

/-- One pre-tokenized piece on a tokenizer without normalization, split and specials:
    model answer = the whole pipeline; verdict = the piece-level specification of the encoder kind. -/
def handlePiece (st : State) (args : List String) (impl : List String) : String :=
  let (args, tab) := splitOracle args
  match args with
  | [slot, s, text] =>
    match slot.toNat?.bind (st.toks[·]?), parseBool s, parseHex text with
    | some tk, some s, some t =>
      let model := showOutIds (tk.encode (mkExt tab) t s)
      let implStr := " ".intercalate impl
      let verdict :=
        if t.isEmpty then (if implStr == "OK -" then "HOLDS" else "FAILS empty")
        else match tk.encoder with
        | .bpe c =>
          let spec := showResIds (Spec.bpePieceSpec c t)
          if spec == implStr then "HOLDS" else s!"FAILS bpe-spec {spec}"
        | .wordpiece c =>
          let spec := showResIds (Spec.wordSpec c t)
          if spec == implStr then "HOLDS" else s!"FAILS greedy-spec {spec}"
        | .unigram c =>
          match parseImplIds impl with
          | some (.ok ids) =>
            (match Spec.uniCheck c tk.dec.vocab t ids with
              | .holds => "HOLDS"
              | .notApplicable _ => "HOLDS-NA"
              | .fails why => s!"FAILS {why}")
          | some (.err _) => "HOLDS-NA"
          | _ => "FAILS panic"
      s!"{model} || {verdict}"
    | _, _, _ => "BAD-OP"
  | _ => "BAD-OP"

def handleDec (st : State) (args : List String) (impl : List String) : String :=
  let (args, tab) := splitOracle args
  match args with
  | [slot, s, ids] =>
    match slot.toNat?.bind (st.toks[·]?), parseBool s, parseIds ids with
    | some tk, some s, some ids =>
      let verdict :=
        match parseImplBytes impl with
        | some (.panic _) => "FAILS panic"
        | some r =>
          -- C08: before clean-up the decoder must equal its specification; with no clean-up steps
          -- the implementation's answer itself is judged.
          if tk.config.decoding.isEmpty then
            (if showResBytes (Spec.decoderSpec tk.dec ids s) == showResBytes r then "HOLDS" else "FAILS decoder-spec")
          else "HOLDS-NA"
        | none => "NO-VERDICT"
      s!"{showOutBytes (tk.decode (mkExt tab) ids s)} || {verdict}"
    | _, _, _ => "BAD-OP"
  | _ => "BAD-OP"

/-- Decidable versions of the C10 predicates, for verdicts. -/
def orderedB (len : Nat) : Nat → Ranges → Bool
  | from_, [] => from_ ≤ len
  | from_, (s, e) :: rest => from_ ≤ s && s ≤ e && orderedB len e rest

def tilesB (len : Nat) : Nat → Ranges → Bool
  | from_, [] => from_ == len
  | from_, (s, e) :: rest => s == from_ && s ≤ e && tilesB len e rest

def alignedB (text : Bytes) (rs : Ranges) : Bool := rs.all fun (s, e) => isBoundary text s && isBoundary text e

/-- C10 verdict on the ranges the implementation returned for one split (or a chain). -/
def splitVerdict (ext : SplitExt) (steps : List Split) (t : Bytes) (out : Ranges) : String :=
  if !orderedB t.length 0 out then "FAILS not-ordered"
  else if !alignedB t out then "FAILS not-char-aligned"
  else match steps with
    | [.pattern p b] =>
      if t.isEmpty then (if out.isEmpty then "HOLDS" else "FAILS empty-text") else
      match splitPattern ext t p with
      | none => "HOLDS-NA"
      | some ms =>
        let expect : Ranges := match b with
          | .matches => ms
          | .remove => Spec.gapsSpec t.length 0 ms
          | .isolate => Spec.isolateSpec t.length 0 ms
          | .merge => Spec.isolateSpec t.length 0 (Spec.fuseAdjacent ms)
          | .mergeLeft => Spec.mergeLeftSpec t.length 0 ms
          | .mergeRight => Spec.mergeRightSpec t.length ms
        let tiling := match b with
          | .matches | .remove => true
          | _ => tilesB t.length 0 out
        if !tiling then "FAILS not-a-tiling"
        else if expect != out then "FAILS grouping"
        else "HOLDS"
    | _ => "HOLDS"

def handleSplit (args : List String) (impl : List String) : String :=
  let (args, tab) := splitOracle args
  match args with
  | [steps, text] =>
    match parseSteps parseSplit steps, parseHex text with
    | some steps, some t =>
      let ext := (mkExt tab).split
      let model := match configSplit ext steps t with
        | none => "MISS split"
        | some rs => s!"OK {showRanges rs}"
      let verdict := match impl with
        | ["OK", rs] => (match parseRanges rs with | some out => splitVerdict ext steps t out | none => "NO-VERDICT")
        | _ => "FAILS not-total"
      s!"{model} || {verdict}"
    | _, _ => "BAD-OP"
  | _ => "BAD-OP"

def handleNorm (args : List String) (_impl : List String) : String :=
  let (args, tab) := splitOracle args
  match args with
  | [steps, start, toEnd, text] =>
    match parseSteps parseNormalization steps, start.toNat?, parseBool toEnd, parseHex text with
    | some steps, some start, some toEnd, some t =>
      let model := match configNormalize (mkExt tab).norm steps ⟨start, toEnd⟩ t with
        | none => "MISS normalize"
        | some r => showResBytes r
      s!"{model} || HOLDS-NA"
    | _, _, _, _ => "BAD-OP"
  | _ => "BAD-OP"

end Kitoken.Driver

namespace Kitoken.Driver
open Kitoken Std

/-- `NORMS <slot> <start> <toEnd> <text>`: the slot's normalization steps on one segment. -/
def handleNormSlot (st : State) (args : List String) (_impl : List String) : String :=
  let (args, tab) := splitOracle args
  match args with
  | [slot, start, toEnd, text] =>
    match slot.toNat?.bind (st.toks[·]?), start.toNat?, parseBool toEnd, parseHex text with
    | some tk, some start, some toEnd, some t =>
      let ext := mkExt tab
      let model := match configNormalize ext.norm tk.config.normalization ⟨start, toEnd⟩ t with
        | none => "MISS normalize"
        | some r => showResBytes r
      -- C12 verdict when the slot's normalization is a character map alone
      let verdict :=
        match tk.config.normalization, ext.norm.graphemes t with
        | [.charsMap m], some gs =>
          let spec := s!"OK {toHex (Spec.normalizeSpec m t gs)}"
          let implStr := " ".intercalate _impl
          if t.isEmpty then "HOLDS-NA"
          else if implStr == spec then "HOLDS"
          else "FAILS charsmap-spec"
        | _, _ => "HOLDS-NA"
      s!"{model} || {verdict}"
    | _, _, _, _ => "BAD-OP"
  | _ => "BAD-OP"

def showArray (a : Array UInt32) : String := toHex (a.toList.flatMap CharsMap.wordLE)

/-- `CMAP_LOAD <blob>`: the blob loader. Verdict: the layout (size field, whole words, rest). -/
def handleCmapLoad (args : List String) (impl : List String) : String :=
  match args with
  | [blob] =>
    match parseHex blob with
    | some data =>
      let model := match CharsMap.load data with
        | .ok m => s!"OK {showArray m.array} {toHex m.normalized}"
        | .err _ => "ERR"
        | .panic _ => "PANIC"
      let verdict :=
        match impl with
        | ["PANIC"] => "FAILS panic"
        | ["ERR"] =>
          (match data with
            | a :: b :: c :: d :: rest => if (CharsMap.le32 a b c d).toNat ≤ rest.length then "FAILS rejected-well-formed-blob" else "HOLDS"
            | _ => "HOLDS")
        | ["OK", arr, norm] =>
          (match data, parseHex arr, parseHex norm with
            | a :: b :: c :: d :: rest, some arr, some norm =>
              let size := (CharsMap.le32 a b c d).toNat
              if size ≤ rest.length && arr == (rest.take (size / 4 * 4)) && norm == rest.drop size then "HOLDS"
              else "FAILS layout"
            | _, _, _ => "FAILS accepted-short-blob")
        | _ => "NO-VERDICT"
      s!"{model} || {verdict}"
    | none => "BAD-OP"
  | _ => "BAD-OP"

end Kitoken.Driver
