/- Operation handlers of the line-protocol driver: each returns "<model answer> || <spec verdict>". -/
import Kitoken.Driver.Def
import Kitoken.Spec.Process
import Kitoken.Spec.Decoder
import Kitoken.Spec.Pieces
import Kitoken.Spec.UnigramCheck
import Kitoken.Spec.Split
import Kitoken.Spec.CharsMap
import Kitoken.Spec.Normalize
import Kitoken.Spec.Compose
import Kitoken.Model.DefCodec
import Kitoken.Model.Export
import Kitoken.Spec.Keeps
import Kitoken.Model.Tiktoken
import Kitoken.Model.ConvertHf
import Kitoken.Model.ConvertSp
namespace Kitoken.Driver

open Kitoken Std

def parseDir : String → Option Direction
  | "L" => some .left
  | "R" => some .right
  | _ => none

def parseProcessing (s : String) : Option Processing :=
  match s.splitOn "." with
  | ["S", id, l, r] => do pure (.strip (UInt32.ofNat (← id.toNat?)) (← l.toNat?) (← r.toNat?))
  | ["C", id] => do pure (.collapse (UInt32.ofNat (← id.toNat?)))
  | ["P", id, n, st, d] => do pure (.pad (UInt32.ofNat (← id.toNat?)) (← n.toNat?) (← st.toNat?) (← parseDir d))
  | ["T", n, st, d] => do pure (.truncate (← n.toNat?) (← st.toNat?) (← parseDir d))
  | _ => none

def parseSteps (f : String → Option α) (s : String) : Option (List α) :=
  if s == "-" then some [] else (s.splitOn ",").mapM f

def showErr : Err → String
  | .invalidPiece b => s!"ERR piece {toHex b}"
  | .invalidToken i => s!"ERR token {i.toNat}"
  | .other t => s!"ERR {t}"

def showResIds : Res (List Id) → String
  | .ok ids => s!"OK {showIds ids}"
  | .err e => showErr e
  | .panic _ => "PANIC"

def showResBytes : Res Bytes → String
  | .ok b => s!"OK {toHex b}"
  | .err e => showErr e
  | .panic _ => "PANIC"

def showOutIds : Out (List Id) → String
  | .res r => showResIds r
  | .miss w => s!"MISS {w}"

def showOutBytes : Out Bytes → String
  | .res r => showResBytes r
  | .miss w => s!"MISS {w}"

/-- Parses an implementation answer of the form `OK <ids>` / `PANIC` / `ERR …`. -/
def parseImplIds (ws : List String) : Option (Res (List Id)) :=
  match ws with
  | ["OK", ids] => (parseIds ids).map .ok
  | ["PANIC"] => some (.panic "impl")
  | ["CRASH"] => some (.panic "crash")
  | ["ERR", "piece", b] => (parseHex b).map fun b => .err (.invalidPiece b)
  | ["ERR", "token", i] => i.toNat?.map fun i => .err (.invalidToken (UInt32.ofNat i))
  | _ => none

def parseImplBytes (ws : List String) : Option (Res Bytes) :=
  match ws with
  | ["OK", b] => (parseHex b).map .ok
  | ["PANIC"] => some (.panic "impl")
  | ["CRASH"] => some (.panic "crash")
  | ["ERR", "piece", b] => (parseHex b).map fun b => .err (.invalidPiece b)
  | ["ERR", "token", i] => i.toNat?.map fun i => .err (.invalidToken (UInt32.ofNat i))
  | _ => none

/-! ### C13: token steps and byte steps -/

def procVerdict (steps : List Processing) (ts : List Id) (impl : Res (List Id)) : String :=
  match impl with
  | .ok out =>
    if ts.isEmpty then (if out.isEmpty then "HOLDS" else "FAILS empty-input-changed")
    else match steps with
      | [] => if out == ts then "HOLDS" else "FAILS no-steps-changed"
      | [p] => if Spec.stepHolds p ts out then "HOLDS" else "FAILS step-effect"
      | _ =>
        -- a sequence is the composition of its steps, each with its documented effect (every step runs,
        -- also on a sequence that an earlier step emptied); the single steps are tied to their
        -- specifications by strip_spec, collapse_eq_spec, pad_spec and truncate_spec
        (match processSteps steps ts with
          | .ok expect => if expect == out then "HOLDS" else "FAILS sequence-not-composition"
          | _ => "HOLDS-NA")
  | _ => "FAILS not-total"

def handleProc (args : List String) (impl : List String) : String :=
  match args with
  | [steps, ids] =>
    match parseSteps parseProcessing steps, parseIds ids, parseImplIds impl with
    | some steps, some ts, some impl =>
      s!"{showResIds (configProcess steps ts)} || {procVerdict steps ts impl}"
    | _, _, _ => "BAD-OP"
  | _ => "BAD-OP"

def splitOracle (args : List String) : List String × List OracleEntry :=
  (args.filter (!isOracleWord ·), (args.filter isOracleWord).filterMap parseOracle)

/-- C13 verdict for a single byte step on valid UTF-8: the character-level specification
    (`decode_strip_chars`, `decode_extend_chars`, `decode_collapse_chars`, `decode_replace_literal`). -/
def decStepSpec (d : Decoding) (t : Bytes) : Option Bytes :=
  let cs := Utf8.chars t
  match d with
  | .extend c l r pad => some (Utf8.encodeChars (Spec.extendSpec c l r pad cs))
  | .strip c l r => some (Utf8.encodeChars (Spec.stripSpec c l r cs))
  | .collapse c => some (Utf8.encodeChars (collapseChars c false cs))
  | .replace (.char c) rep => some (replaceAll (Utf8.encodeChar c) rep t)
  | .replace (.string s) rep => some (replaceAll s rep t)
  | .replace (.regex _) _ => none

def decVerdict (steps : List Decoding) (t : Bytes) (impl : Res Bytes) : String :=
  match impl with
  | .ok out =>
    -- `Decoding::decode` on an empty text is the identity (the steps are not run)
    if t.isEmpty then (if out.isEmpty then "HOLDS" else "FAILS empty-text-changed")
    else match steps with
    | [] => if out == t then "HOLDS" else "FAILS no-steps-changed"
    | [d] =>
      if validUtf8 t then
        (match decStepSpec d t with
          | some e => if e == out then "HOLDS" else "FAILS step-effect"
          | none => "HOLDS-NA")
      else "HOLDS-NA"
    | _ =>
      -- a sequence is the composition of its steps in order: every configured step runs, also on a text that an
      -- earlier step emptied (only an EMPTY INPUT skips the steps); literal replacement on an intermediate empty
      -- text is left to the model tie
      if validUtf8 t then
        (match steps.foldlM (fun (cur : Bytes) d =>
            -- the character-level specification of a step speaks about valid UTF-8 only (a literal replacement
            -- with an empty pattern can produce invalid UTF-8 for the next step)
            if !validUtf8 cur then none else
            match d with
            | .replace _ _ => if cur.isEmpty then none else decStepSpec d cur
            | _ => decStepSpec d cur) t with
          | some e => if e == out then "HOLDS" else "FAILS sequence-not-composition"
          | none => "HOLDS-NA")
      else "HOLDS-NA"
  | _ => "FAILS not-total"

def handleDecStep (args : List String) (impl : List String) : String :=
  let (args, tab) := splitOracle args
  match args with
  | [steps, text] =>
    match parseSteps parseDecoding steps, parseHex text, parseImplBytes impl with
    | some steps, some t, some impl =>
      let model := match configDecode (mkExt tab).dec steps t with
        | none => "MISS decode replace"
        | some r => showResBytes r
      s!"{model} || {decVerdict steps t impl}"
    | _, _, _ => "BAD-OP"
  | _ => "BAD-OP"

/-! ### definitions and the full pipeline -/

structure State where
  building : HashMap Nat DefBuild := {}
  toks : HashMap Nat (Tokenizer Score) := {}
  /-- C15: the converted definition of a slot as far as the property speaks about it, and the source
      tokens an independent parser found (SRCT lines). -/
  convs : HashMap Nat Spec.Converted := {}
  srcs : HashMap Nat (Array Spec.SrcToken) := {}
  /-- C15: the parsed fields of a Tokenizers JSON source (HFA / HFV / HFM lines) -/
  hfAdded : HashMap Nat (Array Convert.AddedToken) := {}
  hfVocab : HashMap Nat (Array (Bytes × Nat × Nat)) := {}
  hfMerges : HashMap Nat (Array Bytes) := {}
  /-- C15: the parsed fields of a SentencePiece source (SPT / SPP lines) -/
  spTrainer : HashMap Nat Convert.Trainer := {}
  spPieces : HashMap Nat (Array Convert.Piece) := {}

def showInit : Except InitError (Tokenizer Score) → String
  | .ok _ => "OK"
  | .error .invalidScores => "ERR InvalidScores"
  | .error .invalidEncoder => "ERR InvalidEncoder"
  | .error .invalidSpecialEncoder => "ERR InvalidSpecialEncoder"
  | .error .invalidUtf8 => "ERR InvalidUtf8"
  | .error .invalidRegex => "ERR InvalidRegex"

def handleDef (st : State) (args : List String) : State × String :=
  match args with
  | slot :: rest =>
    match slot.toNat? with
    | none => (st, "BAD-OP")
    | some slot =>
      -- take the builder out of the map first so that its arrays are updated in place
      let b := st.building.getD slot {}
      let st := { st with building := st.building.erase slot }
      let upd (b' : Option DefBuild) : State × String :=
        match b' with
        | some b' => ({ st with building := st.building.insert slot b' }, "ACK")
        | none => (st, "BAD-OP")
      match rest with
      | ["NEW", kind, chars, maxw] =>
        upd (do pure { kind := kind, chars := ← parseBool chars, maxWordChars := ← maxw.toNat? })
      | ["V", id, hex, score] =>
        upd (do
          let i ← id.toNat?; let h ← parseHex hex
          -- move the arrays out of the record before pushing, so that they are unshared
          let vocab := b.vocab; let scores := b.scores
          let b := { b with vocab := #[], scores := #[] }
          let scores ← if score == "none" then some scores else score.toNat?.map fun s => scores.push (UInt32.ofNat s)
          pure { b with vocab := vocab.push (UInt32.ofNat i, h), scores := scores })
      | ["S", id, hex, kind, extract, score, ident] =>
        upd (do
          let i ← id.toNat?; let h ← parseHex hex; let k ← parseKind kind; let e ← parseBool extract
          let s ← score.toNat?
          let idn ← if ident == "none" then some none else (parseHex ident).map some
          let sp : SpecialDef := { id := UInt32.ofNat i, bytes := h, kind := k, ident := idn, score := UInt32.ofNat s, extract := e }
          pure { b with specials := b.specials.push sp })
      | ["XS", score] =>
        upd (do let s ← score.toNat?; pure { b with scores := b.scores.push (UInt32.ofNat s) })
      | ["FB", l] => upd (do pure { b with fallback := ← parseSteps parseFallback l })
      | ["N", e] => upd (do pure { b with norm := b.norm.push (← parseNormalization e) })
      | ["SP", e] => upd (do pure { b with split := b.split.push (← parseSplit e) })
      | ["PR", e] => upd (do pure { b with processing := b.processing.push (← parseProcessing e) })
      | ["DC", e] => upd (do pure { b with decoding := b.decoding.push (← parseDecoding e) })
      | ["TPL", pos, hex] =>
        upd (do
          let c ← parseHex hex; let n ← pos.toNat?; let p ← parsePosition n
          pure { b with templates := b.templates.push ⟨c, p⟩ })
      | ["END"] =>
        let r := Tokenizer.new b.toDefinition
        let conv : Spec.Converted := ⟨b.vocab.toList, b.scores.toList, b.specials.toList⟩
        let st := { st with convs := st.convs.insert slot conv }
        let st' := match r with
          | .ok tk => { st with toks := st.toks.insert slot tk, building := st.building.erase slot }
          | .error _ => { st with toks := st.toks.erase slot, building := st.building.erase slot }
        -- non-vacuity evidence for C18c: does this definition satisfy `LoadableWF` (evaluated as Booleans)?
        let d := b.toDefinition
        let rec normOk : Normalization → Bool
          | .append s | .prepend s => validUtf8 s
          | .replace (.string s) rep => validUtf8 s && validUtf8 rep
          | .replace _ rep => validUtf8 rep
          | .conditional _ inner => normOk inner
          | _ => true
        let splitOk : Split → Bool
          | .pattern (.string s) _ => validUtf8 s
          | _ => true
        let wf := d.specials.all (fun s => !s.bytes.isEmpty) && d.model.vocab.all (fun e => !e.2.isEmpty && e.1 != INVALID) &&
          decide (d.model.vocab.length ≤ MAXR) && d.config.normalization.all normOk && d.config.split.all splitOk
        (st', s!"{showInit r} || HOLDS-NA loadable-wf={if wf then 1 else 0}")
      | _ => (st, "BAD-OP")
  | _ => (st, "BAD-OP")

def handleEnc (st : State) (args : List String) (_impl : List String) : String :=
  let (args, tab) := splitOracle args
  match args with
  | [slot, s, text] =>
    match slot.toNat?.bind (st.toks[·]?), parseBool s, parseHex text with
    | some tk, some s, some t =>
      s!"{showOutIds (tk.encode (mkExt tab) t s)} || HOLDS-NA"
    | _, _, _ => "BAD-OP"
  | _ => "BAD-OP"

/-- One pre-tokenized piece on a tokenizer without normalization, split and specials:
    model answer = the whole pipeline; verdict = the piece-level specification of the encoder kind. -/
def handlePiece (st : State) (args : List String) (impl : List String) : String :=
  let (args, tab) := splitOracle args
  match args with
  | [slot, s, text] =>
    match slot.toNat?.bind (st.toks[·]?), parseBool s, parseHex text with
    | some tk, some s, some t =>
      let model := showOutIds (tk.encode (mkExt tab) t s)
      let implStr := " ".intercalate impl
      let verdict :=
        if t.isEmpty then (if implStr == "OK -" then "HOLDS" else "FAILS empty")
        else match tk.encoder with
        | .bpe c =>
          let spec := showResIds (Spec.bpePieceSpec c t)
          if spec == implStr then "HOLDS" else s!"FAILS bpe-spec {spec}"
        | .wordpiece c =>
          let spec := showResIds (Spec.wordSpec c t)
          if spec == implStr then "HOLDS" else s!"FAILS greedy-spec {spec}"
        | .unigram c =>
          match parseImplIds impl with
          | some (.ok ids) =>
            (match Spec.uniCheck c tk.dec.vocab t ids with
              | .holds => "HOLDS"
              | .notApplicable _ => "HOLDS-NA"
              | .fails why => s!"FAILS {why}")
          | some (.err _) =>
            -- C06: an error is a permitted outcome only when the head of the fallback list does not apply
            (match c.fallback.head?, c.unknown with
              | some .skip, _ => "FAILS error-despite-skip-fallback"
              | some .unknown, some _ => "FAILS error-despite-unknown-fallback"
              | _, _ =>
                -- down the list (`Bytes` continuing with its tail): an error needs a unit on which no entry applies
                if Spec.errPossiblePiece c t then "HOLDS-NA" else "FAILS error-despite-applicable-fallback")
          | _ => "FAILS panic"
      s!"{model} || {verdict}"
    | _, _, _ => "BAD-OP"
  | _ => "BAD-OP"

def handleDec (st : State) (args : List String) (impl : List String) : String :=
  let (args, tab) := splitOracle args
  match args with
  | [slot, s, ids] =>
    match slot.toNat?.bind (st.toks[·]?), parseBool s, parseIds ids with
    | some tk, some s, some ids =>
      let verdict :=
        match parseImplBytes impl with
        | some (.panic _) => "FAILS panic"
        | some r =>
          -- C08: before clean-up the decoder must equal its specification; with no clean-up steps
          -- the implementation's answer itself is judged.
          if tk.config.decoding.isEmpty then
            (if showResBytes (Spec.decoderSpec tk.dec ids s) == showResBytes r then "HOLDS" else "FAILS decoder-spec")
          else
            -- with clean-up steps: the steps' specification (C13) applied to the decoder's specification
            (match Spec.decoderSpec tk.dec ids s with
              | .ok raw =>
                (match decVerdict tk.config.decoding raw r with
                  | "HOLDS" => "HOLDS"
                  | "HOLDS-NA" => "HOLDS-NA"
                  | why => why ++ " (clean-up after decoding)")
              | other => if showResBytes other == showResBytes r then "HOLDS" else "FAILS decoder-spec")
        | none => "NO-VERDICT"
      s!"{showOutBytes (tk.decode (mkExt tab) ids s)} || {verdict}"
    | _, _, _ => "BAD-OP"
  | _ => "BAD-OP"

/-- Decidable versions of the C10 predicates, for verdicts. -/
def orderedB (len : Nat) : Nat → Ranges → Bool
  | from_, [] => from_ ≤ len
  | from_, (s, e) :: rest => from_ ≤ s && s ≤ e && orderedB len e rest

def tilesB (len : Nat) : Nat → Ranges → Bool
  | from_, [] => from_ == len
  | from_, (s, e) :: rest => s == from_ && s ≤ e && tilesB len e rest

def alignedB (text : Bytes) (rs : Ranges) : Bool := rs.all fun (s, e) => isBoundary text s && isBoundary text e

/-- What one split stage must return on `t` according to the gaps/matches specifications. -/
def specSplitOne (ext : SplitExt) (step : Split) (t : Bytes) : Option Ranges :=
  if t.isEmpty then some [] else
  match step with
  | .unicodeScript => step.split ext t      -- no independent specification: the model (proved ordered/aligned)
  | .pattern p b =>
    (splitPattern ext t p).map fun ms =>
      match b with
      | .matches => ms
      | .remove => Spec.gapsSpec t.length 0 ms
      | .isolate => Spec.isolateSpec t.length 0 ms
      | .merge => Spec.isolateSpec t.length 0 (Spec.fuseAdjacent ms)
      | .mergeLeft => Spec.mergeLeftSpec t.length 0 ms
      | .mergeRight => Spec.mergeRightSpec t.length ms

/-- A chain is the composition of its stages: every range of the previous stage is split by itself. -/
def specChain (ext : SplitExt) (t : Bytes) : List Split → Ranges → Option Ranges
  | [], rs => some rs
  | st :: rest, rs => do
    let next ← rs.foldlM (fun acc (s, e) => do
      let sub ← specSplitOne ext st (slice t s e)
      pure (acc ++ sub.map fun (a, b) => (a + s, b + s))) []
    specChain ext t rest next

/-- C10 verdict on the ranges the implementation returned for one split (or a chain). -/
def splitVerdict (ext : SplitExt) (steps : List Split) (t : Bytes) (out : Ranges) : String :=
  if !orderedB t.length 0 out then "FAILS not-ordered"
  else if !alignedB t out then "FAILS not-char-aligned"
  else if t.isEmpty then (if out.isEmpty then "HOLDS" else "FAILS empty-text")
  else match steps with
    | [.pattern _ b] =>
      let tiling := match b with
        | .matches | .remove => true
        | _ => tilesB t.length 0 out
      if !tiling then "FAILS not-a-tiling"
      else match specSplitOne ext steps.head! t with
        | none => "HOLDS-NA"
        | some expect => if expect != out then "FAILS grouping" else "HOLDS"
    | [] => if out == [(0, t.length)] then "HOLDS" else "FAILS no-split-changed"
    | _ =>
      match specChain ext t steps [(0, t.length)] with
      | none => "HOLDS-NA"
      | some expect => if expect != out then "FAILS chain-is-not-composition" else "HOLDS"

def handleSplit (args : List String) (impl : List String) : String :=
  let (args, tab) := splitOracle args
  match args with
  | [steps, text] =>
    match parseSteps parseSplit steps, parseHex text with
    | some steps, some t =>
      let ext := (mkExt tab).split
      let model := match configSplit ext steps t with
        | none => "MISS split"
        | some rs => s!"OK {showRanges rs}"
      let verdict := match impl with
        | ["OK", rs] => (match parseRanges rs with | some out => splitVerdict ext steps t out | none => "NO-VERDICT")
        | _ => "FAILS not-total"
      s!"{model} || {verdict}"
    | _, _ => "BAD-OP"
  | _ => "BAD-OP"

/-- C11 verdict for a single built-in step on valid UTF-8: the character-level specification. -/
def normStepSpec (n : Normalization) (pos : Position) (cs : List Char) : Option (List Char) :=
  match n with
  | .append s => some (cs ++ Utf8.chars s)
  | .prepend s => some (Utf8.chars s ++ cs)
  | .extend c l r pad => some (Spec.extendSpec c l r pad cs)
  | .strip c l r => some (Spec.stripSpec c l r cs)
  | .collapse c => some (collapseChars c false cs)
  | .replace (.char c) rep => some (replaceAll [c] (Utf8.chars rep) cs)
  | .replace (.string s) rep => some (replaceAll (Utf8.chars s) (Utf8.chars rep) cs)
  | .nmt => some (Spec.nmtSpecListed cs)
  | .conditional cond inner =>
    if (match cond with | .startOfText => pos.start == 0 | .endOfText => pos.toEnd)
    then normStepSpec inner pos cs else some cs
  | _ => none

def normVerdict (steps : List Normalization) (pos : Position) (t : Bytes) (impl : List String) : String :=
  match impl with
  | ["OK", out] =>
    match parseHex out with
    | none => "NO-VERDICT"
    | some out =>
      if !validUtf8 out then "FAILS invalid-utf8"
      else if t.isEmpty then (if out.isEmpty then "HOLDS" else "FAILS empty-text-changed")
      else match steps with
        | [] => if out == t then "HOLDS" else "FAILS no-steps-changed"
        | [n] =>
          (match normStepSpec n pos (Utf8.chars t) with
            | some cs => if Utf8.encodeChars cs == out then "HOLDS" else "FAILS step-effect"
            | none => "HOLDS-NA")
        | _ =>
          -- a sequence is the composition of its steps in order (every step runs, also on a text
          -- that an earlier step emptied)
          (match steps.foldlM (fun cs n => normStepSpec n pos cs) (Utf8.chars t) with
            | some cs => if Utf8.encodeChars cs == out then "HOLDS" else "FAILS sequence-not-composition"
            | none => "HOLDS-NA")
  | _ => "FAILS not-total"

def handleNorm (args : List String) (impl : List String) : String :=
  let (args, tab) := splitOracle args
  match args with
  | [steps, start, toEnd, text] =>
    match parseSteps parseNormalization steps, start.toNat?, parseBool toEnd, parseHex text with
    | some steps, some start, some toEnd, some t =>
      let model := match configNormalize (mkExt tab).norm steps ⟨start, toEnd⟩ t with
        | none => "MISS normalize"
        | some r => showResBytes r
      s!"{model} || {normVerdict steps ⟨start, toEnd⟩ t impl}"
    | _, _, _, _ => "BAD-OP"
  | _ => "BAD-OP"

end Kitoken.Driver

namespace Kitoken.Driver
open Kitoken Std

/-- `NORMS <slot> <start> <toEnd> <text>`: the slot's normalization steps on one segment. -/
def handleNormSlot (st : State) (args : List String) (_impl : List String) : String :=
  let (args, tab) := splitOracle args
  match args with
  | [slot, start, toEnd, text] =>
    match slot.toNat?.bind (st.toks[·]?), start.toNat?, parseBool toEnd, parseHex text with
    | some tk, some start, some toEnd, some t =>
      let ext := mkExt tab
      let model := match configNormalize ext.norm tk.config.normalization ⟨start, toEnd⟩ t with
        | none => "MISS normalize"
        | some r => showResBytes r
      -- C12 verdict when the slot's normalization is a character map alone
      let verdict :=
        match tk.config.normalization, ext.norm.graphemes t with
        | [.charsMap m], some gs =>
          let spec := s!"OK {toHex (Spec.normalizeSpec m t gs)}"
          let implStr := " ".intercalate _impl
          if t.isEmpty then "HOLDS-NA"
          else if implStr == spec then "HOLDS"
          else "FAILS charsmap-spec"
        | _, _ => "HOLDS-NA"
      s!"{model} || {verdict}"
    | _, _, _, _ => "BAD-OP"
  | _ => "BAD-OP"

def showArray (a : Array UInt32) : String := toHex (a.toList.flatMap CharsMap.wordLE)

/-- `CMAP_LOAD <blob>`: the blob loader. Verdict: the layout (size field, whole words, rest). -/
def handleCmapLoad (args : List String) (impl : List String) : String :=
  match args with
  | [blob] =>
    match parseHex blob with
    | some data =>
      let model := match CharsMap.load data with
        | .ok m => s!"OK {showArray m.array} {toHex m.normalized}"
        | .err _ => "ERR"
        | .panic _ => "PANIC"
      let verdict :=
        match impl with
        | ["PANIC"] => "FAILS panic"
        | ["ERR"] =>
          (match data with
            | a :: b :: c :: d :: rest => if (CharsMap.le32 a b c d).toNat ≤ rest.length then "FAILS rejected-well-formed-blob" else "HOLDS"
            | _ => "HOLDS")
        | ["OK", arr, norm] =>
          (match data, parseHex arr, parseHex norm with
            | a :: b :: c :: d :: rest, some arr, some norm =>
              let size := (CharsMap.le32 a b c d).toNat
              if size ≤ rest.length && arr == (rest.take (size / 4 * 4)) && norm == rest.drop size then "HOLDS"
              else "FAILS layout"
            | _, _, _ => "FAILS accepted-short-blob")
        | _ => "NO-VERDICT"
      s!"{model} || {verdict}"
    | none => "BAD-OP"
  | _ => "BAD-OP"

end Kitoken.Driver

namespace Kitoken.Driver
open Kitoken Std

/-- Bytes an id stands for when spelling text back: vocabulary bytes, or the special token's text. -/
def spellId (tk : Tokenizer Score) (t : Id) : Option Bytes :=
  match tk.dec.vocab t with
  | some b => some b
  | none => (tk.dec.special t).map (·.1)

def encoderUnknown (tk : Tokenizer Score) : Option Id :=
  match tk.encoder with
  | .bpe c => c.unknown
  | .unigram c => c.unknown
  | .wordpiece c => c.unknown

def encoderFallback (tk : Tokenizer Score) : List Fallback :=
  match tk.encoder with
  | .bpe c => c.fallback
  | .unigram c => c.fallback
  | .wordpiece c => c.fallback

def bytesSubseq : Bytes → Bytes → Bool
  | [], _ => true
  | _ :: _, [] => false
  | x :: xs, y :: ys => if x == y then bytesSubseq xs ys else bytesSubseq (x :: xs) ys

/-- What the encoder input must spell (C02): ordinary parts' texts (plus the end-of-word suffix for BPE)
    and special parts' texts, in order. -/
def expectedSpelling (tk : Tokenizer Score) (ps : List TextPart) : Bytes :=
  let eow : Bytes := match tk.encoder with | .bpe c => c.eow.getD [] | _ => []
  ps.flatMap fun p => if p.special != INVALID then p.text else p.text ++ eow

/-- Spelling of the ids; WordPiece continuation entries lose their prefix, and words are not separated. -/
def spelledBy (tk : Tokenizer Score) (ids : List Id) : Option Bytes :=
  let pre := tk.dec.subwordPrefix
  ids.foldl (fun acc t =>
    match acc, spellId tk t with
    | some a, some b =>
      let b := if (tk.dec.vocab t).isSome && !pre.isEmpty && startsWith b pre then b.drop pre.length else b
      some (a ++ b)
    | _, _ => none) (some [])

/-- Piece-level specification by encoder kind (what one ordinary part yields by itself). -/
def pieceSpecOf (tk : Tokenizer Score) (text : Bytes) : Res (List Id) :=
  match tk.encoder with
  | .bpe c => Spec.bpePieceSpec c text
  | .unigram c =>
    (match Unigram.encodeUnigram c c.fallback text [] [] (Utf8.charStarts text) with
      | .ok (_, ids) => .ok ids | .err e => .err e | .panic p => .panic p)
  | .wordpiece c => WordPiece.encodeWord c text

/-- C02 with unknown ids in the output: one ordinary part. Every vocabulary id must spell the next
    bytes; the unknown id stands for exactly one unit (character, or byte in byte mode), and that unit
    must not be a vocabulary entry by itself ("an encodable stretch is never replaced"). -/
def alignPart (tokOf : Id → Option Bytes) (inVocab : Bytes → Bool) (unitLen : Bytes → Nat) (unk : Id) :
    Bytes → List Id → Except String (List Id)
  | rest, [] => if rest.isEmpty then .ok [] else .error "spelling-short"
  | rest, i :: ids =>
    if rest.isEmpty then .ok (i :: ids)
    else if i == unk then
      let n := max 1 (unitLen rest)
      if inVocab (rest.take n) then .error "encodable-unit-replaced-by-unknown"
      else alignPart tokOf inVocab unitLen unk (rest.drop n) ids
    else match tokOf i with
      | none => .error "unknown-id-in-output"
      | some b =>
        if startsWith rest b then alignPart tokOf inVocab unitLen unk (rest.drop b.length) ids
        else .error "spelling"

def alignParts (tk : Tokenizer Score) (inVocab : Bytes → Bool) (unitLen : Bytes → Nat) (unk : Id) :
    List TextPart → List Id → Except String Unit
  | [], ids => if ids.isEmpty then .ok () else .error "spelling-extra-ids"
  | p :: ps, ids =>
    if p.special != INVALID then
      match ids with
      | i :: ids => if i == p.special then alignParts tk inVocab unitLen unk ps ids else .error "special-part-id"
      | [] => .error "spelling-short"
    else
      match alignPart tk.dec.vocab inVocab unitLen unk p.text ids with
      | .ok ids => alignParts tk inVocab unitLen unk ps ids
      | .error e => .error e

/-- The alignment applies when the unknown id is unambiguous and stands for one unit: Unigram, or BPE
    without an end-of-word suffix, with `Unknown` at the head of the fallback list. -/
def unknownAlignment (tk : Tokenizer Score) (ps : List TextPart) (ids : List Id) : Option String :=
  let charLen (b : Bytes) : Nat := (Utf8.decodeOne b).2
  let run (u : Id) (inVocab : Bytes → Bool) (unitLen : Bytes → Nat) : Option String :=
    if (tk.dec.vocab u).isSome then none
    else match alignParts tk inVocab unitLen u ps ids with
      | .ok () => some "HOLDS"
      | .error e => some s!"FAILS {e}"
  match tk.encoder with
  | .unigram c =>
    (match c.fallback.head?, c.unknown with
      | some .unknown, some u => run u (fun b => (c.tok b).isSome) charLen
      | _, _ => none)
  | .bpe c =>
    (match c.fallback.head?, c.unknown, c.eow with
      | some .unknown, some u, none => run u (fun b => (c.tok b).isSome) (if c.chars then charLen else fun _ => 1)
      | _, _, _ => none)
  | .wordpiece c =>
    -- the unknown id stands for a whole word: it may only replace a word that the greedy longest-match
    -- specification (C05) cannot encode
    let expected := ps.mapM fun (p : TextPart) =>
      if p.special != INVALID then some [p.special]
      else match Spec.wordSpec c p.text with
        | .ok e => some e
        | _ => none
    match expected with
    | some l => some (if l.flatten == ids then "HOLDS" else "FAILS encodable-word-replaced-or-misspelled")
    | none => none

def padIds (tk : Tokenizer Score) : List Id :=
  tk.config.processing.filterMap fun | .pad id _ _ _ => some id | _ => none

/-- Verdicts of the pipeline-level properties on what the implementation returned. `which` selects
    the property: "2" spelling, "7" specials, "9" independence, "18" no crash. -/
def encVerdict (which : String) (tk : Tokenizer Score) (ext : Ext) (t : Bytes) (s : Bool) (impl : List String) : String :=
  match parseImplIds impl with
  | none => "NO-VERDICT"
  | some (.panic _) => "FAILS panic"
  | some (.err _) => if which == "18" then "HOLDS" else "HOLDS-NA"
  | some (.ok ids) =>
    if which == "18" then "HOLDS" else
    match tk.parts ext t s with
    | .res (.ok ps) =>
      if which == "2" then
        -- no fallback arm that hides text: no unknown id in the output and no Skip/Bytes at the head
        let fbHead := (encoderFallback tk).head?
        let unk := encoderUnknown tk
        if !tk.config.processing.isEmpty then "HOLDS-NA"
        else if (match unk with | some u => ids.contains u | none => false) then
          (unknownAlignment tk ps ids).getD "HOLDS-NA"
        else if fbHead == some .skip || fbHead == some .bytes then
          -- still judged when nothing was skipped / byte-encoded: spelling equality is sufficient evidence.
          -- Byte fallback keeps every byte in text order: without `Skip` anywhere in the list the ids spell the
          -- text; with `Skip` further down they spell a subsequence of it.
          (match spelledBy tk ids with
            | some b =>
              let want := expectedSpelling tk ps
              if b == want then "HOLDS"
              else if fbHead == some .bytes then
                (if (encoderFallback tk).contains .skip then (if bytesSubseq b want then "HOLDS-NA" else "FAILS byte-fallback-misspells")
                 else "FAILS byte-fallback-misspells")
              else "HOLDS-NA"
            | none => "FAILS unknown-id-in-output")
        else
          (match spelledBy tk ids with
            | some b => if b == expectedSpelling tk ps then "HOLDS" else "FAILS spelling"
            | none => "FAILS unknown-id-in-output")
      else if which == "7" then
        let isVocab (i : Id) : Bool := (tk.dec.vocab i).isSome
        let controlIds := (tk.specials.filter (·.kind == .control)).map (·.id)
        let pads := padIds tk
        let leaked := ids.filter fun i => controlIds.contains i && !isVocab i && encoderUnknown tk != some i && !pads.contains i
        if !s && !leaked.isEmpty then "FAILS control-id-with-specials-off"
        else
          -- the recognized specials, in order, must appear as exactly their ids (atomic)
          let expected := (ps.filter (·.special != INVALID)).map (·.special)
          let specialIds := tk.specials.map (·.id)
          let got := ids.filter fun i => specialIds.contains i && !isVocab i && encoderUnknown tk != some i && !pads.contains i
          if !tk.config.processing.isEmpty then "HOLDS-NA"
          else if expected.filter (fun i => !isVocab i && encoderUnknown tk != some i) != got then "FAILS specials-sequence"
          else
            -- the unknown token's id can also come from the fallback, so it is counted instead of aligned:
            -- every recognized occurrence of the unknown special (recognized in both modes) yields its id
            match encoderUnknown tk with
            | some u =>
              if isVocab u then "HOLDS"
              else if (ids.filter (· == u)).length < (expected.filter (· == u)).length then "FAILS unknown-special-not-recognized"
              else "HOLDS"
            | none => "HOLDS"
      else if which == "9" then
        let spec := Spec.seqRes (ps.map (Spec.perPart (pieceSpecOf tk)))
        (match spec with
          | .ok enc =>
            (match configProcess tk.config.processing enc with
              | .ok out => if out == ids then "HOLDS" else "FAILS not-composition"
              | _ => "FAILS process")
          | _ => "FAILS piece-error-but-ok")
      else "HOLDS-NA"
    | _ => "HOLDS-NA"

def handleEncV (which : String) (st : State) (args : List String) (impl : List String) : String :=
  let (args, tab) := splitOracle args
  match args with
  | [slot, s, text] =>
    match slot.toNat?.bind (st.toks[·]?), parseBool s, parseHex text with
    | some tk, some s, some t =>
      let ext := mkExt tab
      s!"{showOutIds (tk.encode ext t s)} || {encVerdict which tk ext t s impl}"
    | _, _, _ => "BAD-OP"
  | _ => "BAD-OP"

/-- `RT <slot> <s> <text> :: OK <ids> <decoded>`: encode then decode with the same flag (C01). -/
def handleRoundTrip (st : State) (args : List String) (impl : List String) : String :=
  let (args, tab) := splitOracle args
  match args with
  | [slot, s, text] =>
    match slot.toNat?.bind (st.toks[·]?), parseBool s, parseHex text with
    | some tk, some s, some t =>
      let ext := mkExt tab
      let model :=
        match tk.encode ext t s with
        | .res (.ok ids) =>
          (match tk.decode ext ids s with
            | .res (.ok b) => s!"OK {showIds ids} {toHex b}"
            | .res (.err e) => showErr e
            | .res (.panic _) => "PANIC"
            | .miss w => s!"MISS {w}")
        | .res (.err e) => showErr e
        | .res (.panic _) => "PANIC"
        | .miss w => s!"MISS {w}"
      -- expected: the concatenation of the first-pass parts (normalized segments and special texts,
      -- control tokens only when rendered), passed through the decode clean-up
      let verdict :=
        match impl with
        | ["OK", _, dec] =>
          (match parseHex dec, tk.stageA ext t s with
            | some dec, .res (.ok ps) =>
              let raw : Bytes := ps.flatMap fun (p : TextPart) => p.text
              (match configDecode ext.dec tk.config.decoding raw with
                | some (.ok expect) =>
                  if dec == expect then (if tk.config.normalization.isEmpty && dec != t then "FAILS identity-roundtrip" else "HOLDS")
                  else
                    -- is the difference exactly the declared `Collapse` of adjacent copies of a special id
                    -- (known finding F21)? then say so, so that any other loss is still reported as such
                    let collapseIds : List Id := tk.config.processing.filterMap fun (p : Processing) => match p with | .collapse id => some id | _ => none
                    let rec dedup : List TextPart → List TextPart
                      | a :: b :: rest =>
                        if a.special != INVALID && a.special == b.special && collapseIds.contains a.special
                        then dedup (b :: rest) else a :: dedup (b :: rest)
                      | l => l
                    let raw' : Bytes := (dedup ps).flatMap fun (p : TextPart) => p.text
                    (match configDecode ext.dec tk.config.decoding raw' with
                      | some (.ok expect') =>
                        if dec == expect' then "FAILS roundtrip-adjacent-special-collapsed" else "FAILS roundtrip"
                      | _ => "FAILS roundtrip")
                | _ => "HOLDS-NA")
            | _, _ => "NO-VERDICT")
        | ["PANIC"] => "FAILS panic"
        | _ => "FAILS not-total"
      s!"{model} || {verdict}"
    | _, _, _ => "BAD-OP"
  | _ => "BAD-OP"

/-- `REC <slot> <s> <text> <recorded ids> <recorded output> :: OK <ids> <decoded>` (C16): the model
    and the implementation on a recorded reference input; both are judged against the record. -/
def handleRec (st : State) (args : List String) (impl : List String) : String :=
  let (args, tab) := splitOracle args
  match args with
  | [slot, s, text, wantIds, wantOut] =>
    match slot.toNat?.bind (st.toks[·]?), parseBool s, parseHex text, parseIds wantIds, parseHex wantOut with
    | some tk, some s, some t, some wantIds, some wantOut =>
      let ext := mkExt tab
      let (model, modelOk) :=
        match tk.encode ext t s with
        | .res (.ok ids) =>
          (match tk.decode ext ids s with
            | .res (.ok b) => (s!"OK {showIds ids} {toHex b}", ids == wantIds && b == wantOut)
            | .res (.err _) => ("ERR decode", false)
            | .res (.panic _) => ("PANIC", false)
            | .miss w => (s!"MISS {w}", true))
        | .res (.err _) => ("ERR encode", false)
        | .res (.panic _) => ("PANIC", false)
        | .miss w => (s!"MISS {w}", true)
      let verdict :=
        match impl with
        | ["OK", ids, dec] =>
          (match parseIds ids, parseHex dec with
            | some ids, some dec =>
              if ids != wantIds then "FAILS recorded-ids"
              else if dec != wantOut then "FAILS recorded-output"
              else if !modelOk then "FAILS model-differs-from-record"
              else "HOLDS"
            | _, _ => "NO-VERDICT")
        | _ => "FAILS reference-input-rejected"
      s!"{model} || {verdict}"
    | _, _, _, _, _ => "BAD-OP"
  | _ => "BAD-OP"

/-! ### C15: converters -/

def parseSrcKind : String → Option (Option SpecialKind)
  | "-" => some none
  | "U" => some (some .unknown)
  | "C" => some (some .control)
  | "P" => some (some .priority)
  | _ => none

def parseOptNat (s : String) : Option (Option Nat) := if s == "-" then some none else s.toNat?.map some

/-- `SRCT <slot> <id> <bytes> <unused> <score bits|-> <priority|-> <kind|->`: one source token. -/
def handleSrcT (st : State) (args : List String) : State × String :=
  match args with
  | [slot, id, bytes, unused, score, prio, kind] =>
    match slot.toNat?, id.toNat?, parseHex bytes, parseBool unused, parseOptNat score, parseOptNat prio, parseSrcKind kind with
    | some slot, some id, some bytes, some unused, some score, some prio, some kind =>
      let arr := st.srcs.getD slot #[]
      let st := { st with srcs := st.srcs.erase slot }
      let t : Spec.SrcToken := { id := UInt32.ofNat id, bytes := bytes, unused := unused, score := score.map UInt32.ofNat, prio := prio, special := kind }
      ({ st with srcs := st.srcs.insert slot (arr.push t) }, "ACK")
    | _, _, _, _, _, _, _ => (st, "BAD-OP")
  | _ => (st, "BAD-OP")

def showTok (id : Id) (b : Bytes) : String := s!"id={id.toNat},bytes={toHex b}"

/-- The same decision as `Spec.keepsCheck` with hash maps instead of list scans (needed for 100k-entry
    vocabularies); on small sources the driver evaluates both and reports a difference. Returns the first
    offending token. -/
def keepsFast (src : Array Spec.SrcToken) (c : Spec.Converted) : Option String :=
  let entries := c.entries
  let entrySet : HashSet (Id × Bytes) := entries.foldl (fun m e => m.insert e) {}
  let byBytes : HashMap Bytes (List Id) := entries.foldl (fun m e => m.insert e.2 (e.1 :: m.getD e.2 [])) {}
  let srcOrdById : HashMap Id (List Bytes) :=
    src.foldl (fun m t => if t.special.isNone then m.insert t.id (t.bytes :: m.getD t.id []) else m) {}
  let srcMap : HashMap (Id × Bytes) Spec.SrcToken := src.foldl (fun m t => if m.contains (t.id, t.bytes) then m else m.insert (t.id, t.bytes) t) {}
  let lost := src.find? fun t =>
    match t.special with
    | none => !(t.unused || entrySet.contains (t.id, t.bytes) || (byBytes.getD t.bytes []).any (· != t.id))
    | some k => !(c.specials.any fun sp => sp.kind == k &&
        ((sp.id == t.id && (sp.bytes == t.bytes || k == .unknown)) ||
         (sp.bytes == t.bytes && (srcOrdById.getD t.id []).any (· != t.bytes))))
  -- two specials of the result may share an id only if two special source tokens already did (F24)
  let srcSpecialIds := src.toList.filterMap fun t => if t.special.isSome then some t.id else none
  let srcShared (i : Id) : Bool := (srcSpecialIds.filter (· == i)).length > 1
  let rec firstShared : List SpecialDef → Option SpecialDef
    | [] => none
    | sp :: rest =>
      -- (the id u32::MAX marks a disabled special — SentencePiece ids of -1 — and is not an id in use)
      if sp.id != INVALID && rest.any (fun o => o.id == sp.id && o.bytes != sp.bytes) && !srcShared sp.id then some sp
      else firstShared rest
  match lost with
  | some t => some s!"source-token-not-kept {showTok t.id t.bytes}{if t.special.isSome then ",special" else ""}"
  | none =>
    match firstShared c.specials with
    | some sp => some s!"specials-share-an-id {showTok sp.id sp.bytes}"
    | none =>
    let unusedIds : HashSet Id := src.foldl (fun m t => if t.unused then m.insert t.id else m) {}
    match c.vocab.find? fun e => !(srcMap.contains e || unusedIds.contains e.1) with
    | some e => some s!"entry-not-in-source {showTok e.1 e.2}"
    | none =>
      -- the defined priorities are non-decreasing along the vocabulary
      let prios := c.vocab.filterMap fun e => (srcMap[e]?).bind (·.prio)
      let rec sortedNat : List Nat → Bool
        | a :: b :: rest => a ≤ b && sortedNat (b :: rest)
        | _ => true
      if !sortedNat prios then some "vocabulary-not-in-merge-priority-order"
      else
        let badScore := if c.scores.isEmpty then none else
          (c.vocab.zip c.scores).find? fun (e, sc) =>
            match srcMap[e]? with
            | some t => !(t.score.isNone || t.score == some sc)
            | none => false
        match badScore with
        | some (e, _) => some s!"score-changed {showTok e.1 e.2}"
        | none => none

/-- `KEEPS <slot> <format> :: OK`: the C15 verdict on the implementation's conversion of a source. -/
def handleKeeps (st : State) (args : List String) (impl : List String) : String :=
  match args with
  | [slot, _fmt] =>
    match slot.toNat?.bind (st.convs[·]?), slot.toNat?.map (st.srcs.getD · #[]) with
    | some c, some src =>
      let fast := keepsFast src c
      let verdict :=
        match impl with
        | ["OK"] =>
          (match fast with
            | some why => s!"FAILS {why}"
            | none =>
              -- cross-check of the fast evaluation against the proved checker on small sources
              if src.size ≤ 2000 && c.vocab.length ≤ 2000 && !Spec.keepsCheck src.toList c then "FAILS keepsCheck-disagrees-with-fast-evaluation"
              else "HOLDS")
        | _ => "FAILS converted-definition-does-not-initialize"
      s!"SKIP || {verdict}"
    | _, _ => "BAD-OP"
  | _ => "BAD-OP"

def sameSpecials (a b : List SpecialDef) : Bool := a == b

/-- `HFA <slot> <id> <content> <special> <normalized>` / `HFV <slot> <text> <id> <score bits>` / `HFM <slot> <text>`. -/
def handleHfLine (st : State) (kind : String) (args : List String) : State × String :=
  match kind, args with
  | "HFA", [slot, id, content, special, normalized] =>
    (match slot.toNat?, id.toNat?, parseHex content, parseBool special, parseBool normalized with
      | some slot, some id, some c, some sp, some n =>
        let arr := st.hfAdded.getD slot #[]
        let st := { st with hfAdded := st.hfAdded.erase slot }
        ({ st with hfAdded := st.hfAdded.insert slot (arr.push ⟨UInt32.ofNat id, c, sp, n⟩) }, "ACK")
      | _, _, _, _, _ => (st, "BAD-OP"))
  | "HFV", [slot, text, id, score] =>
    (match slot.toNat?, parseHex text, id.toNat?, score.toNat? with
      | some slot, some t, some id, some sc =>
        let arr := st.hfVocab.getD slot #[]
        let st := { st with hfVocab := st.hfVocab.erase slot }
        ({ st with hfVocab := st.hfVocab.insert slot (arr.push (t, id, sc)) }, "ACK")
      | _, _, _, _ => (st, "BAD-OP"))
  | "HFM", [slot, text] =>
    (match slot.toNat?, parseHex text with
      | some slot, some t =>
        let arr := st.hfMerges.getD slot #[]
        let st := { st with hfMerges := st.hfMerges.erase slot }
        ({ st with hfMerges := st.hfMerges.insert slot (arr.push t) }, "ACK")
      | _, _ => (st, "BAD-OP"))
  | _, _ => (st, "BAD-OP")

def parsePieceType : String → Option Convert.PieceType
  | "N" => some .normal | "U" => some .unknown | "C" => some .control
  | "D" => some .userDefined | "X" => some .unused | "B" => some .byte
  | _ => none

/-- `SPT <slot> <unk id> <bos id> <eos id> <pad id> <unk piece> <bos piece> <eos piece> <pad piece> <unk surface> <bpe>`
    and `SPP <slot> <text | ~> <score bits> <type>`. -/
def handleSpLine (st : State) (kind : String) (args : List String) : State × String :=
  match kind, args with
  | "SPT", [slot, u, b, e, p, up, bp, ep, pp, us, bpe] =>
    (match slot.toNat?, u.toNat?, b.toNat?, e.toNat?, p.toNat?, parseHex up, parseHex bp, parseHex ep, parseHex pp, parseHex us, parseBool bpe with
      | some slot, some u, some b, some e, some p, some up, some bp, some ep, some pp, some us, some bpe =>
        let t : Convert.Trainer := ⟨UInt32.ofNat u, UInt32.ofNat b, UInt32.ofNat e, UInt32.ofNat p, up, bp, ep, pp, us, bpe⟩
        ({ st with spTrainer := st.spTrainer.insert slot t }, "ACK")
      | _, _, _, _, _, _, _, _, _, _, _ => (st, "BAD-OP"))
  | "SPP", [slot, text, score, ty] =>
    (match slot.toNat?, (if text == "~" then some none else (parseHex text).map some), score.toNat?, parsePieceType ty with
      | some slot, some text, some score, some ty =>
        let arr := st.spPieces.getD slot #[]
        let st := { st with spPieces := st.spPieces.erase slot }
        let pc : Convert.Piece := ⟨text, UInt32.ofNat score, ty⟩
        ({ st with spPieces := st.spPieces.insert slot (arr.push pc) }, "ACK")
      | _, _, _, _ => (st, "BAD-OP"))
  | _, _ => (st, "BAD-OP")

/-- `CONVSP <slot> :: OK | ERR`: the Lean model of the SentencePiece converter's vocabulary path against the
    implementation's result in the slot. -/
def handleConvSp (st : State) (args : List String) : String :=
  match args with
  | [slot] =>
    match slot.toNat? with
    | some slot =>
      (match Convert.convertSp st.spTrainer[slot]? (st.spPieces.getD slot #[]).toList id id, st.convs[slot]? with
        | .ok o, some c =>
          let what := if o.vocab != c.vocab then "DIFF vocabulary"
            else if !o.scores.isEmpty && o.scores != c.scores then "DIFF scores"
            else if !sameSpecials o.specials c.specials then "DIFF specials" else "OK"
          s!"{what} || HOLDS-NA"
        | .error _, _ => "ERR || HOLDS-NA"
        | .ok _, none => "OK-NO-SLOT || HOLDS-NA")
    | none => "BAD-OP"
  | _ => "BAD-OP"

/-- `CONVHF <slot> <bpe|unigram|wordpiece> <unknown: token hex / id / -> <byteChars> <byteRunes> :: OK`: the Lean model of
    the converter's vocabulary path on the parsed source against the implementation's result in the slot. -/
def handleConvHf (st : State) (args : List String) : String :=
  match args with
  | [slot, kind, unk, bc, br] =>
    match slot.toNat?, parseBool bc, parseBool br with
    | some slot, some bc, some br =>
      let added := (st.hfAdded.getD slot #[]).toList
      let vocab := (st.hfVocab.getD slot #[]).toList
      let merges := (st.hfMerges.getD slot #[]).toList
      let res : Option (Except Convert.HfError Convert.HfOut) :=
        match kind with
        | "bpe" =>
          let u := if unk == "-" then some none else (parseHex unk).map some
          u.map fun u => Convert.convertHfBpe (vocab.map fun (t, id, _) => (t, UInt32.ofNat id)) merges added u bc br id id
        | "unigram" =>
          let u := if unk == "-" then some none else unk.toNat?.map fun n => some (UInt32.ofNat n)
          u.map fun u => Convert.convertHfUnigram (vocab.map fun (t, _, sc) => (t, UInt32.ofNat sc)) added u br bc id id
        | "wordpiece" =>
          (parseHex unk).map fun u => Convert.convertHfWordPiece (vocab.map fun (t, id, _) => (t, UInt32.ofNat id)) added u bc br id id
        | _ => none
      (match res, st.convs[slot]? with
        | some (.ok o), some c =>
          let what := if o.vocab != c.vocab then "DIFF vocabulary"
            else if !o.scores.isEmpty && o.scores != c.scores then "DIFF scores"
            else if !sameSpecials o.specials c.specials then "DIFF specials" else "OK"
          s!"{what} || HOLDS-NA"
        | some (.error _), _ => "ERR || HOLDS-NA"
        | _, _ => "BAD-OP")
    | _, _, _ => "BAD-OP"
  | _ => "BAD-OP"

/-- `CONVTT <slot> :: OK`: the model's `convertTiktoken` on the source lines equals the implementation's result. -/
def handleConvTT (st : State) (args : List String) : String :=
  match args with
  | [slot] =>
    match slot.toNat?.bind (st.convs[·]?), slot.toNat?.map (st.srcs.getD · #[]) with
    | some c, some src =>
      let out := Convert.convertTiktoken (src.toList.map fun t => (t.bytes, t.id))
      let ok := out.vocab == c.vocab && sameSpecials out.specials c.specials
      s!"{if ok then "OK" else "DIFF"} || HOLDS-NA"
    | _, _ => "BAD-OP"
  | _ => "BAD-OP"

/-- `CONVTK <slot> <version> <numSpecial|-> <vocabSize|-> <rank:bytes,...> :: OK | ERR`: `convertTekken`. -/
def handleConvTK (st : State) (args : List String) : String :=
  match args with
  | [slot, version, ns, vs, entries] =>
    let parsed : Option (List (Nat × Bytes)) :=
      if entries == "-" then some [] else
      (entries.splitOn ",").mapM fun e =>
        match e.splitOn ":" with
        | [r, b] => do let r ← r.toNat?; let b ← parseHex b; pure (r, b)
        | _ => none
    match slot.toNat?, parseHex version, parseOptNat ns, parseOptNat vs, parsed with
    | some slot, some version, some ns, some vs, some vocab =>
      (match Convert.convertTekken (String.fromUTF8! ⟨version.toArray⟩) ns vs vocab with
        | .error _ => "ERR || HOLDS-NA"
        | .ok out =>
          (match st.convs[slot]? with
            | some c => s!"{if out.vocab == c.vocab && sameSpecials out.specials c.specials then "OK" else "DIFF"} || HOLDS-NA"
            | none => "OK-NO-SLOT || HOLDS-NA"))
    | _, _, _, _, _ => "BAD-OP"
  | _ => "BAD-OP"

def fnv64 (data : List UInt8) : UInt64 :=
  data.foldl (fun h b => (h ^^^ b.toUInt64) * 0x100000001b3) 0xcbf29ce484222325

def hex16 (n : UInt64) : String :=
  let ds := Nat.toDigits 16 n.toNat
  String.ofList (List.replicate (16 - ds.length) '0' ++ ds)

/-- Listing of a conversion result: `id:hex;` per vocabulary entry, `|`, `id:hex;` per special. -/
def convListing (o : Convert.ConvOut) : String :=
  String.join (o.vocab.map fun (i, b) => s!"{i.toNat}:{toHex b};") ++ "|" ++
  String.join (o.specials.map fun sp => s!"{sp.id.toNat}:{toHex sp.bytes};")

/-- `LOADTT <data> :: OK <entries> <digest of the listing> | ERR`: the Tiktoken loader from raw bytes. -/
def handleLoadTT (args : List String) : String :=
  match args with
  | [hex] =>
    match parseHex hex with
    | some data =>
      (match Convert.loadTiktoken data with
        | some o => s!"OK {o.vocab.length} {hex16 (fnv64 (convListing o).toUTF8.toList)} || HOLDS-NA"
        | none => "ERR || HOLDS-NA")
    | none => "BAD-OP"
  | _ => "BAD-OP"

/-- `BYTETAB <256 code points> :: OK`: the placeholder characters the implementation maps to bytes 0..255. -/
def handleByteTab (args : List String) : String :=
  match args with
  | [cps] =>
    match (cps.splitOn ",").mapM (·.toNat?) with
    | some l => s!"{if l == Convert.byteTable then "OK" else "DIFF"} || HOLDS-NA"
    | none => "BAD-OP"
  | _ => "BAD-OP"

/-- `BYTEPIECE <text> :: OK <byte> | ERR`: `<0xNN>` parsing. -/
def handleBytePiece (args : List String) : String :=
  match args with
  | [t] =>
    match parseHex t with
    | some t => (match Convert.parseBytePiece t with | some b => s!"OK {b.toNat} || HOLDS-NA" | none => "ERR || HOLDS-NA")
    | none => "BAD-OP"
  | _ => "BAD-OP"

end Kitoken.Driver

namespace Kitoken.Driver
open Kitoken Std

def regexOracle (tab : List OracleEntry) : Bytes → Option Bool := fun p =>
  (tab.find? fun e => e.kind == "regex_new" && e.param == p).map fun e => e.output == [1]

/-- `DESER <bytes>`: read a native file and write it back (`to_vec (from_slice bytes)`). -/
def handleDeser (args : List String) (impl : List String) : String :=
  let (args, tab) := splitOracle args
  match args with
  | [hex] =>
    match parseHex hex with
    | some bs =>
      let model := match DefCodec.fromSlice (regexOracle tab) bs with
        | some d => s!"OK {toHex (DefCodec.toVec d)}"
        | none => "ERR"
      -- C14 verdict: a file that the implementation accepts must re-serialize to bytes that read
      -- back to the same bytes again (idempotence of the round trip), judged with the model codec
      let verdict := match impl with
        | ["OK", out] =>
          (match parseHex out with
            | some o =>
              (match DefCodec.fromSlice (regexOracle tab) o with
                | some d' => if DefCodec.toVec d' == o then "HOLDS" else "FAILS reserialize-differs"
                | none => "FAILS own-output-unreadable")
            | none => "NO-VERDICT")
        | ["ERR"] => "HOLDS"
        | _ => "FAILS panic"
      s!"{model} || {verdict}"
    | none => "BAD-OP"
  | _ => "BAD-OP"

def idPerm {α : Type} (l : List α) : List α := l

/-- `TODEF <bytes>`: load a native file, build the tokenizer, export its definition, serialize. -/
def handleToDef (args : List String) (impl : List String) : String :=
  let (args, tab) := splitOracle args
  match args with
  | [hex] =>
    match parseHex hex with
    | some bs =>
      let model := match DefCodec.fromSlice (regexOracle tab) bs with
        | none => "ERR deser"
        | some d =>
          match Tokenizer.new d with
          | .error _ => "ERR init"
          | .ok _ =>
            match exportDefinition d idPerm idPerm with
            | .ok d' => s!"OK {toHex (DefCodec.toVec d')}"
            | .err _ => "ERR export"
            | .panic _ => "PANIC"
      -- C14: exporting the definition of a tokenizer built from a canonically ordered definition
      -- returns that definition. "Canonically ordered" is judged by the specification's own order
      -- (the export model leaves the definition unchanged).
      let canonicalInput : Bool :=
        match DefCodec.fromSlice (regexOracle tab) bs with
        | some d =>
          (match Tokenizer.new d, exportDefinition d idPerm idPerm with
            | .ok _, .ok d' => DefCodec.toVec d' == bs
            | _, _ => false)
        | none => false
      let verdict := match impl with
        | "PANIC" :: _ => "FAILS panic"
        | ["OK", out] => if canonicalInput then (if parseHex out == some bs then "HOLDS" else "FAILS export-changes-canonical-definition") else "HOLDS-NA"
        | _ => if canonicalInput then "FAILS canonical-definition-rejected" else "HOLDS-NA"
      s!"{model} || {verdict}"
    | none => "BAD-OP"
  | _ => "BAD-OP"

end Kitoken.Driver

namespace Kitoken.Driver
open Kitoken Std

/-- `INITB <bytes>`: native load = `from_slice` (native branch) then `Kitoken::new`. -/
def handleInitB (args : List String) (impl : List String) : String :=
  let (args, tab) := splitOracle args
  match args with
  | [hex] =>
    match parseHex hex with
    | some bs =>
      let model := match DefCodec.fromSlice (regexOracle tab) bs with
        | none => "ERR deser"
        | some d => showInit (Tokenizer.new d)
      let verdict := match impl with
        | "PANIC" :: _ => "FAILS panic"
        | "CRASH" :: _ => "FAILS crash"
        | _ => "HOLDS"
      s!"{model} || {verdict}"
    | none => "BAD-OP"
  | _ => "BAD-OP"

end Kitoken.Driver
