/- Operation handlers of the line-protocol driver: each returns (model answer, spec verdict). -/
import Kitoken.Driver.Parse
import Kitoken.Model.Process
import Kitoken.Spec.Process
namespace Kitoken.Driver

open Kitoken

def parseDir : String → Option Direction
  | "L" => some .left
  | "R" => some .right
  | _ => none

def parseProcessing (s : String) : Option Processing :=
  match s.splitOn "." with
  | ["S", id, l, r] => do pure (.strip (UInt32.ofNat (← id.toNat?)) (← l.toNat?) (← r.toNat?))
  | ["C", id] => do pure (.collapse (UInt32.ofNat (← id.toNat?)))
  | ["P", id, n, st, d] => do pure (.pad (UInt32.ofNat (← id.toNat?)) (← n.toNat?) (← st.toNat?) (← parseDir d))
  | ["T", n, st, d] => do pure (.truncate (← n.toNat?) (← st.toNat?) (← parseDir d))
  | _ => none

def parseSteps (f : String → Option α) (s : String) : Option (List α) :=
  if s == "-" then some [] else (s.splitOn ",").mapM f

def showResIds : Res (List Id) → String
  | .ok ids => s!"OK {showIds ids}"
  | .err (.invalidPiece b) => s!"ERR piece {toHex b}"
  | .err (.invalidToken i) => s!"ERR token {i.toNat}"
  | .err (.other t) => s!"ERR {t}"
  | .panic _ => "PANIC"

def showResBytes : Res Bytes → String
  | .ok b => s!"OK {toHex b}"
  | .err (.invalidPiece b) => s!"ERR piece {toHex b}"
  | .err (.invalidToken i) => s!"ERR token {i.toNat}"
  | .err (.other t) => s!"ERR {t}"
  | .panic _ => "PANIC"

/-- Parses an implementation answer of the form `OK <ids>` / `PANIC` / `ERR …`. -/
def parseImplIds (ws : List String) : Option (Res (List Id)) :=
  match ws with
  | ["OK", ids] => (parseIds ids).map .ok
  | ["PANIC"] => some (.panic "impl")
  | ["CRASH"] => some (.panic "crash")
  | ["ERR", "piece", b] => (parseHex b).map fun b => .err (.invalidPiece b)
  | ["ERR", "token", i] => i.toNat?.map fun i => .err (.invalidToken (UInt32.ofNat i))
  | _ => none

/-- Verdict of the C13 specification on what the implementation returned for a list of steps:
    each step must have its documented effect on the result of the previous one. Since only the
    final output is observed, intermediate values are reconstructed by the reference steps
    (`Spec.stepHolds` is checked on the last step; earlier steps are checked on their own ops). -/
def procVerdict (steps : List Processing) (ts : List Id) (impl : Res (List Id)) : String :=
  match impl with
  | .ok out =>
    if ts.isEmpty then (if out.isEmpty then "HOLDS" else "FAILS empty-input-changed")
    else match steps with
      | [] => if out == ts then "HOLDS" else "FAILS no-steps-changed"
      | [p] => if Spec.stepHolds p ts out then "HOLDS" else "FAILS step-effect"
      | _ => "HOLDS-NA"     -- multi-step: judged through the model (each step is judged alone elsewhere)
  | _ => "FAILS not-total"

def handleProc (args : List String) (impl : List String) : String :=
  match args with
  | [steps, ids] =>
    match parseSteps parseProcessing steps, parseIds ids, parseImplIds impl with
    | some steps, some ts, some impl =>
      s!"{showResIds (configProcess steps ts)} || {procVerdict steps ts impl}"
    | _, _, _ => "BAD-OP"
  | _ => "BAD-OP"

end Kitoken.Driver
