/- Parsing of definitions, configuration steps and oracle tables sent by the harness. -/
import Kitoken.Driver.Parse
import Kitoken.Model.Init
namespace Kitoken.Driver

open Kitoken Std

def parseChar (s : String) : Option Char := s.toNat?.map Char.ofNat
def parseBool (s : String) : Option Bool := match s with | "0" => some false | "1" => some true | _ => none

def parsePattern (s : String) : Option ReplacePattern :=
  match s.toList with
  | 'c' :: rest => (parseChar (String.ofList rest)).map .char
  | 's' :: rest => (parseHex (String.ofList rest)).map .string
  | 'r' :: rest => (parseHex (String.ofList rest)).map fun b => .regex (String.fromUTF8! ⟨b.toArray⟩)
  | _ => none

def parseSplitPattern (s : String) : Option SplitPattern :=
  (parsePattern s).map fun
    | .char c => .char c
    | .string b => .string b
    | .regex p => .regex p

def parseDecoding (s : String) : Option Decoding :=
  match s.splitOn "." with
  | ["EX", c, l, r, p] => do pure (.extend (← parseChar c) (← l.toNat?) (← r.toNat?) (← parseBool p))
  | ["ST", c, l, r] => do pure (.strip (← parseChar c) (← l.toNat?) (← r.toNat?))
  | ["CO", c] => do pure (.collapse (← parseChar c))
  | ["RP", p, rep] => do pure (.replace (← parsePattern p) (← parseHex rep))
  | _ => none

def parseWords (b : Bytes) : Array UInt32 := (CharsMap.wordsLE b).toArray

partial def parseNormalization (s : String) : Option Normalization :=
  if s.startsWith "CND~S~" then (parseNormalization (s.drop 6).toString).map (.conditional .startOfText)
  else if s.startsWith "CND~E~" then (parseNormalization (s.drop 6).toString).map (.conditional .endOfText)
  else
  match s.splitOn "." with
  | ["U", "NFC"] => some (.unicode .nfc)
  | ["U", "NFD"] => some (.unicode .nfd)
  | ["U", "NFKC"] => some (.unicode .nfkc)
  | ["U", "NFKD"] => some (.unicode .nfkd)
  | ["NMT"] => some .nmt
  | ["CF", u] => (parseBool u).map .caseFold
  | ["AP", h] => (parseHex h).map .append
  | ["PP", h] => (parseHex h).map .prepend
  | ["EX", c, l, r, p] => do pure (.extend (← parseChar c) (← l.toNat?) (← r.toNat?) (← parseBool p))
  | ["ST", c, l, r] => do pure (.strip (← parseChar c) (← l.toNat?) (← r.toNat?))
  | ["CO", c] => do pure (.collapse (← parseChar c))
  | ["RP", p, rep] => do pure (.replace (← parsePattern p) (← parseHex rep))
  | ["CM", arr, norm] => do pure (.charsMap { array := parseWords (← parseHex arr), normalized := ← parseHex norm })
  | _ => none

def parseBehavior : String → Option SplitBehavior
  | "MA" => some .matches | "RE" => some .remove | "IS" => some .isolate
  | "ME" => some .merge | "ML" => some .mergeLeft | "MR" => some .mergeRight | _ => none

def parseSplit (s : String) : Option Split :=
  match s.splitOn "." with
  | ["US"] => some .unicodeScript
  | ["P", p, b] => do pure (.pattern (← parseSplitPattern p) (← parseBehavior b))
  | _ => none

def parseFallback : String → Option Fallback
  | "S" => some .skip | "U" => some .unknown | "B" => some .bytes | _ => none

def parsePosition (n : Nat) : Option InsertionPosition :=
  [InsertionPosition.wordStart, .wordContinuation, .wordEnd, .sequenceStart, .sequenceContinuation,
   .sequenceEnd, .subSequenceStart, .subSequenceContinuation, .subSequenceEnd][n]?

def parseKind : String → Option SpecialKind
  | "U" => some .unknown | "C" => some .control | "P" => some .priority | _ => none

/-! ### oracle tables -/

structure OracleEntry where
  kind : String
  param : Bytes
  input : Bytes
  output : Bytes

def parseOracle (w : String) : Option OracleEntry :=
  match w.splitOn ":" with
  | ["ORA", k, p, i, o] => do pure { kind := k, param := ← parseHex p, input := ← parseHex i, output := ← parseHex o }
  | _ => none

def isOracleWord (w : String) : Bool := w.startsWith "ORA:"

def rangesOfLE (b : Bytes) : Ranges :=
  let ws := CharsMap.wordsLE b
  let rec go : List UInt32 → Ranges
    | a :: b :: t => (a.toNat, b.toNat) :: go t
    | _ => []
  go ws

def strBytes (s : String) : Bytes := s.toUTF8.toList

def lookup (tab : List OracleEntry) (kind : String) (param input : Bytes) : Option Bytes :=
  (tab.find? fun e => e.kind == kind && e.param == param && e.input == input).map (·.output)

def schemeName : UnicodeScheme → String
  | .nfc => "NFC" | .nfd => "NFD" | .nfkc => "NFKC" | .nfkd => "NFKD"

def pairsOf : Bytes → List (Bool × Nat)
  | a :: b :: t => (a != 0, b.toNat) :: pairsOf t
  | _ => []

def mkExt (tab : List OracleEntry) : Ext :=
  let rep := fun (p : String) (r t : Bytes) => lookup tab "replace_all" (strBytes p ++ [0] ++ r) t
  { norm := {
      unicode := fun s t => lookup tab "unicode" (strBytes (schemeName s)) t
      caseFold := fun u t => lookup tab "casefold" (strBytes (if u then "upper" else "lower")) t
      replaceAll := rep
      graphemes := fun t => (lookup tab "graphemes" [] t).map rangesOfLE }
    split := {
      findIter := fun p t => (lookup tab "find_iter" (strBytes p) t).map rangesOfLE
      scripts := fun t => (lookup tab "script" [] t).map pairsOf }
    dec := { replaceAll := rep } }

/-! ### definitions under construction -/

structure DefBuild where
  kind : String := "bpe"
  chars : Bool := false
  maxWordChars : Nat := 0
  vocab : Array (Id × Bytes) := #[]
  scores : Array UInt32 := #[]
  specials : Array SpecialDef := #[]
  fallback : List Fallback := []
  norm : Array Normalization := #[]
  split : Array Split := #[]
  processing : Array Processing := #[]
  decoding : Array Decoding := #[]
  templates : Array Template := #[]

def DefBuild.toDefinition (b : DefBuild) : Definition :=
  { model := match b.kind with
      | "unigram" => .unigram b.vocab.toList b.scores.toList
      | "wordpiece" => .wordPiece b.vocab.toList b.maxWordChars
      | _ => .bytePair b.vocab.toList b.chars
    specials := b.specials.toList
    config := { fallback := b.fallback, normalization := b.norm.toList, split := b.split.toList,
                processing := b.processing.toList, decoding := b.decoding.toList, templates := b.templates.toList } }

end Kitoken.Driver
