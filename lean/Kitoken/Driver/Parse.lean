/- Line-protocol parsing helpers for the driver (core Lean only). -/
import Kitoken.Model.Basic
namespace Kitoken.Driver

open Kitoken

def hexVal (c : Char) : Option Nat :=
  if '0' ≤ c ∧ c ≤ '9' then some (c.toNat - '0'.toNat)
  else if 'a' ≤ c ∧ c ≤ 'f' then some (c.toNat - 'a'.toNat + 10)
  else if 'A' ≤ c ∧ c ≤ 'F' then some (c.toNat - 'A'.toNat + 10)
  else none

/-- Hex string to bytes; `-` is the empty string. -/
def parseHex (s : String) : Option Bytes :=
  if s == "-" then some [] else
  let rec go : List Char → List UInt8 → Option Bytes
    | [], acc => some acc.reverse
    | [_], _ => none
    | a :: b :: t, acc =>
      match hexVal a, hexVal b with
      | some x, some y => go t (UInt8.ofNat (x * 16 + y) :: acc)
      | _, _ => none
  go s.toList []

def hexDigit (n : Nat) : Char :=
  if n < 10 then Char.ofNat ('0'.toNat + n) else Char.ofNat ('a'.toNat + n - 10)

def toHex (b : Bytes) : String :=
  if b.isEmpty then "-" else
  String.ofList (b.flatMap fun x => [hexDigit (x.toNat / 16), hexDigit (x.toNat % 16)])

/-- Comma separated naturals; `-` is the empty list. -/
def parseNats (s : String) : Option (List Nat) :=
  if s == "-" then some [] else (s.splitOn ",").mapM String.toNat?

def parseIds (s : String) : Option (List Id) := (parseNats s).map (·.map UInt32.ofNat)

def showNats (l : List Nat) : String :=
  if l.isEmpty then "-" else ",".intercalate (l.map toString)

def showIds (l : List Id) : String := showNats (l.map (·.toNat))

def showRanges (l : List (Nat × Nat)) : String :=
  if l.isEmpty then "-" else ",".intercalate (l.map fun (a, b) => s!"{a}:{b}")

def parseRanges (s : String) : Option (List (Nat × Nat)) :=
  if s == "-" then some [] else
  (s.splitOn ",").mapM fun p =>
    match p.splitOn ":" with
    | [a, b] => do pure (← a.toNat?, ← b.toNat?)
    | _ => none

end Kitoken.Driver
