/- Every property theorem module (built by tools/setup.sh so that the per-property checks start warm). -/
import Kitoken.Theorems.C01
import Kitoken.Theorems.C02
import Kitoken.Theorems.C03
import Kitoken.Theorems.C04
import Kitoken.Theorems.C05
import Kitoken.Theorems.C06
import Kitoken.Theorems.C07
import Kitoken.Theorems.C08
import Kitoken.Theorems.C09
import Kitoken.Theorems.C10
import Kitoken.Theorems.C11
import Kitoken.Theorems.C12
import Kitoken.Theorems.C13
import Kitoken.Theorems.C14
import Kitoken.Theorems.C17
import Kitoken.Theorems.C18
import Kitoken.Theorems.C19
