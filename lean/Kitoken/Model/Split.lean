/-
  Model of src/config/split.rs and `Configuration::split` (src/config.rs).
  Regex matching and Unicode script lookup are external (oracle parameters).
-/
import Kitoken.Model.Utf8
import Kitoken.Model.Bytes
namespace Kitoken

open Utf8

inductive SplitBehavior where
  | matches | remove | isolate | merge | mergeLeft | mergeRight
  deriving Repr, DecidableEq, Inhabited

inductive SplitPattern where
  | char (c : Char)
  | string (s : Bytes)
  | regex (pattern : String)
  deriving Repr, DecidableEq, Inhabited

inductive Split where
  | pattern (p : SplitPattern) (b : SplitBehavior)
  | unicodeScript
  deriving Repr, DecidableEq, Inhabited

abbrev Ranges := List (Nat × Nat)

/-- External calls of the split stage: `none` = not in the oracle table. -/
structure SplitExt where
  findIter : (pattern : String) → (text : Bytes) → Option Ranges
  /-- per character of the text: (is `Script::Common`, script code) -/
  scripts : (text : Bytes) → Option (List (Bool × Nat))

/-- `split_pattern` (after the F1 repair: a multi-byte character match spans the whole character). -/
def splitPattern (ext : SplitExt) (text : Bytes) : SplitPattern → Option Ranges
  | .char c =>
    let needle := encodeChar c
    some ((findAll needle text).map fun a => (a, a + needle.length))
  | .string s =>
    -- after the F15 repair: only matches on character boundaries (matters for the empty pattern)
    some (((findAll s text).filter (isBoundary text)).map fun a => (a, a + s.length))
  | .regex p => ext.findIter p text

/-- `split_pattern` for a string before the F15 repair: an empty pattern matched inside characters. -/
def splitPatternStringOld (text : Bytes) (s : Bytes) : Ranges :=
  (findAll s text).map fun a => (a, a + s.length)

/-- `split_pattern` for a character before the repair: multi-byte characters gave 1-byte matches. -/
def splitPatternCharOld (text : Bytes) (c : Char) : Ranges :=
  (findAll (encodeChar c) text).map fun a => (a, a + 1)

/-- `invert`: the gaps between matches (fold with `last`, then the tail gap). -/
def invertGo : Nat → Ranges → Ranges
  | _, [] => []
  | last, (s, e) :: ms => if s ≠ last then (last, s) :: invertGo e ms else invertGo e ms

def lastEnd : Nat → Ranges → Nat
  | last, [] => last
  | _, (_, e) :: ms => lastEnd e ms

def invert (ms : Ranges) (len : Nat) : Ranges :=
  let last := lastEnd 0 ms
  invertGo 0 ms ++ (if last < len then [(last, len)] else [])

/-- `expand`: matches and the gaps between them. -/
def expandGo : Nat → Ranges → Ranges
  | _, [] => []
  | last, (s, e) :: ms =>
    if s ≠ last then (last, s) :: (s, e) :: expandGo e ms else (s, e) :: expandGo e ms

def expand (ms : Ranges) (len : Nat) : Ranges :=
  let last := lastEnd 0 ms
  expandGo 0 ms ++ (if last < len then [(last, len)] else [])

/-- `merge`: consecutive matches (start = previous end) are joined; `acc` is kept reversed. -/
def mergeGo : Nat → Ranges → Ranges → Ranges
  | _, acc, [] => acc.reverse
  | last, acc, (s, e) :: ms =>
    match acc with
    | (ps, _) :: accTail =>
      if s = last then mergeGo e ((ps, e) :: accTail) ms else mergeGo e ((s, e) :: acc) ms
    | [] => mergeGo e [(s, e)] ms

def merge (ms : Ranges) : Ranges := mergeGo 0 [] ms

/-- `merge_left`: a match after a gap absorbs the gap. -/
def mergeLeftGo : Nat → Ranges → Ranges
  | _, [] => []
  | last, (s, e) :: ms =>
    if s ≠ last then (last, e) :: mergeLeftGo e ms else (s, e) :: mergeLeftGo e ms

def mergeLeft (ms : Ranges) (len : Nat) : Ranges :=
  let last := lastEnd 0 ms
  mergeLeftGo 0 ms ++ (if last < len then [(last, len)] else [])

/-- `merge_right`: a match before a gap absorbs the gap (`acc` reversed). -/
def mergeRightGo : Nat → Ranges → Ranges → Ranges
  | _, acc, [] => acc.reverse
  | last, acc, (s, e) :: ms =>
    match acc with
    | (ps, pe) :: accTail =>
      if s ≠ last then mergeRightGo e ((s, e) :: (ps, s) :: accTail) ms
      else mergeRightGo e ((s, e) :: (ps, pe) :: accTail) ms
    | [] => mergeRightGo e [(s, e)] ms

def setLastEnd (len : Nat) : Ranges → Ranges
  | [] => []
  | [(s, _)] => [(s, len)]
  | r :: rs => r :: setLastEnd len rs

def mergeRight (ms : Ranges) (len : Nat) : Ranges :=
  if ms.isEmpty then [(0, len)]
  else
    let out := mergeRightGo 0 [] ms
    let last := lastEnd 0 ms
    let out := if last < len then setLastEnd len out else out
    match out with
    | (s0, e0) :: rest => if s0 ≠ 0 then (0, s0) :: (s0, e0) :: rest else out
    | [] => out

/-- `split_unicode_script`: ranges of maximal runs with one non-Common script
    (Common characters join the surrounding run). -/
def scriptGo : (prev : Option Nat) → (last : Nat) → List (Nat × Bool × Nat) → Ranges × Nat
  | _, last, [] => ([], last)
  | prev, last, (i, common, script) :: cs =>
    if common then scriptGo prev last cs
    else
      match prev with
      | some p =>
        if script ≠ p then
          let (r, l) := scriptGo (some script) i cs
          ((last, i) :: r, l)
        else scriptGo (some script) last cs
      | none => scriptGo (some script) last cs

def splitUnicodeScript (text : Bytes) (scripts : List (Bool × Nat)) : Ranges :=
  let starts := charStarts text
  let (r, last) := scriptGo none 0 (starts.zip scripts |>.map fun (i, c, s) => (i, c, s))
  r ++ (if last < text.length then [(last, text.length)] else [])

/-- `Split::split`. -/
def Split.split (ext : SplitExt) (sp : Split) (text : Bytes) : Option Ranges :=
  if text.isEmpty then some [] else
  match sp with
  | .unicodeScript => (ext.scripts text).map (splitUnicodeScript text)
  | .pattern p b =>
    (splitPattern ext text p).map fun ms =>
      match b with
      | .matches => ms
      | .remove => invert ms text.length
      | .isolate => expand ms text.length
      | .merge => expand (merge ms) text.length
      | .mergeLeft => mergeLeft ms text.length
      | .mergeRight => mergeRight ms text.length

/-- One stage of the chain: split every current range, rebasing the offsets. -/
def splitStage (ext : SplitExt) (sp : Split) (text : Bytes) : Ranges → Option Ranges
  | [] => some []
  | (s, e) :: rs => do
    let sub ← sp.split ext (slice text s e)
    let rest ← splitStage ext sp text rs
    pure (sub.map (fun (a, b) => (a + s, b + s)) ++ rest)

def splitChain (ext : SplitExt) (text : Bytes) : List Split → Ranges → Option Ranges
  | [], rs => some rs
  | sp :: sps, rs => do
    let rs' ← splitStage ext sp text rs
    splitChain ext text sps rs'

/-- `Configuration::split` with its three shortcuts. -/
def configSplit (ext : SplitExt) (splits : List Split) (text : Bytes) : Option Ranges :=
  if text.isEmpty then some []
  else match splits with
    | [] => some [(0, text.length)]
    | [sp] => sp.split ext text
    | _ => splitChain ext text splits [(0, text.length)]

end Kitoken
