/-
  Small, data-free library behaviour used by the code, modelled directly:
  `memmem::find_iter` (leftmost non-overlapping occurrences, empty needle matches everywhere),
  bstr's `replace`, `starts_with`.
-/
import Kitoken.Model.Basic
namespace Kitoken

/-- `hay.starts_with(needle)`. -/
def startsWith [BEq α] : List α → List α → Bool
  | _, [] => true
  | [], _ :: _ => false
  | h :: hs, n :: ns => h == n && startsWith hs ns

/-- Start offsets of the leftmost non-overlapping occurrences of a non-empty `needle`
    (`memchr::memmem::find_iter`), offsets relative to `pos`. -/
def findAllFrom [BEq α] (needle : List α) (pos : Nat) (hay : List α) : List Nat :=
  match hay with
  | [] => []
  | h :: t =>
    if _h : 0 < needle.length ∧ startsWith (h :: t) needle = true then
      pos :: findAllFrom needle (pos + needle.length) ((h :: t).drop needle.length)
    else findAllFrom needle (pos + 1) t
termination_by hay.length
decreasing_by
  all_goals simp only [List.length_drop, List.length_cons]
  all_goals omega

/-- `memmem::find_iter(hay, needle)`: an empty needle matches at every offset `0..=len`. -/
def findAll [BEq α] (needle hay : List α) : List Nat :=
  if needle.isEmpty then List.range (hay.length + 1) else findAllFrom needle 0 hay

/-- Replace every leftmost non-overlapping occurrence of a non-empty `needle`. -/
def replaceFrom [BEq α] (needle rep : List α) (hay : List α) : List α :=
  match hay with
  | [] => []
  | h :: t =>
    if _h : 0 < needle.length ∧ startsWith (h :: t) needle = true then
      rep ++ replaceFrom needle rep ((h :: t).drop needle.length)
    else h :: replaceFrom needle rep t
termination_by hay.length
decreasing_by
  all_goals simp only [List.length_drop, List.length_cons]
  all_goals omega

/-- bstr `ByteSlice::replace` / `str::replace` on units of type `α` (bytes for bstr, chars for `str`):
    with an empty needle the replacement is inserted before every unit and at the end. -/
def replaceAll [BEq α] (needle rep hay : List α) : List α :=
  if needle.isEmpty then hay.flatMap (fun x => rep ++ [x]) ++ rep else replaceFrom needle rep hay

end Kitoken
