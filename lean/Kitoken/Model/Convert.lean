/-
  Converters (C15): the parts that are logic rather than parsing.

  * the byte-level placeholder table of the Tokenizers converter (`build_byte_encoder_decoder`) and
    its inverse;
  * `<0xNN>` byte pieces (SentencePiece / Tokenizers byte fallback);
  * `convert_tiktoken` and `convert_tekken` after the external parsers (base64, serde_json) have
    produced their entries: vocabulary, ids, special tokens, order;
  * the format auto-detection chain of `Definition::from_slice`.
-/
import Kitoken.Model.Init
import Kitoken.Model.Export
namespace Kitoken.Convert

open Kitoken

/-! ### byte-level placeholders -/

/-- Bytes that stand for themselves (as the character with the same code): `'!'..='~'`, `'¡'..='¬'`, `'®'..='ÿ'`. -/
def isDirect (b : Nat) : Bool :=
  (33 ≤ b && b ≤ 126) || (161 ≤ b && b ≤ 172) || (174 ≤ b && b ≤ 255)

/-- `build_byte_encoder_decoder`: the remaining bytes get the code points 256, 257, … in increasing
    byte order. `go b utc` lists the code points for bytes `b, b+1, …, 255`. -/
def tableFrom : (fuel : Nat) → (b utc : Nat) → List Nat
  | 0, _, _ => []
  | fuel + 1, b, utc => if isDirect b then b :: tableFrom fuel (b + 1) utc else (256 + utc) :: tableFrom fuel (b + 1) (utc + 1)

/-- Code point of the placeholder character of byte `i` is `byteTable[i]`. -/
def byteTable : List Nat := tableFrom 256 0 0

def encodeByteChar (b : UInt8) : Nat := byteTable.getD b.toNat 0

/-- The decoder map: code point → byte. -/
def decodeByteChar (cp : Nat) : Option UInt8 :=
  (byteTable.findIdx? (· == cp)).map fun i => UInt8.ofNat i

/-- Undo the placeholder spelling of a vocabulary entry (`None`: a character outside the table). -/
def decodeByteChars (cps : List Nat) : Option Bytes := cps.mapM decodeByteChar

def encodeByteChars (bs : Bytes) : List Nat := bs.map encodeByteChar

/-! ### `<0xNN>` pieces -/

def hexVal (c : UInt8) : Option Nat :=
  if 48 ≤ c && c ≤ 57 then some (c.toNat - 48)
  else if 65 ≤ c && c ≤ 70 then some (c.toNat - 55)
  else if 97 ≤ c && c ≤ 102 then some (c.toNat - 87)
  else none

/-- Two ASCII hexadecimal digits (after the F23 repair; `from_str_radix` alone also accepted a `+` sign,
    `hexPairOld`). -/
def hexPair (h l : UInt8) : Option Nat :=
  match hexVal h, hexVal l with
  | some a, some b => some (16 * a + b)
  | _, _ => none

def hexPairOld (h l : UInt8) : Option Nat :=
  match hexVal h, hexVal l with
  | some a, some b => some (16 * a + b)
  | none, some b => if h == 43 then some b else none
  | _, _ => none

/-- `text.get(3..5)` then `u32::from_str_radix(_, 16)` then `as u8` (SentencePiece BYTE pieces, the repaired
    converter): the two bytes at offsets 3 and 4 are read as a hexadecimal number. -/
def parseBytePiece (text : Bytes) : Option UInt8 :=
  match text.drop 3 with
  | h :: l :: _ => (hexPair h l).map UInt8.ofNat
  | _ => none

def hexDigit (n : Nat) : UInt8 := if n < 10 then UInt8.ofNat (48 + n) else UInt8.ofNat (55 + n)

/-- The canonical spelling `<0xNN>` (upper-case hex). -/
def bytePiece (b : UInt8) : Bytes := [60, 48, 120, hexDigit (b.toNat / 16), hexDigit (b.toNat % 16), 62]

/-! ### Tiktoken -/

structure ConvOut where
  vocab : List (Id × Bytes)
  specials : List SpecialDef
  deriving Inhabited

def f32OfNat (i : Nat) : UInt32 := (Float32.ofNat i).toBits

def mkControl (i : Nat) (text : String) (id : Nat) (extract : Bool) (ident : Option String := none) : SpecialDef :=
  { id := UInt32.ofNat id, bytes := text.toUTF8.toList, kind := .control, ident := ident.map (·.toUTF8.toList),
    score := f32OfNat i, extract := extract }

def tiktokenSpecialTable (n : Nat) : List (String × Nat) :=
  if n ≥ 199990 then [("<|endoftext|>", 199999), ("<|endofprompt|>", 200018)]
  else if n ≥ 100000 then
    [("<|endoftext|>", 100257), ("<|fim_prefix|>", 100258), ("<|fim_middle|>", 100259), ("<|fim_suffix|>", 100260),
     ("<|endofprompt|>", 100276), ("<|im_start|>", 100264), ("<|im_end|>", 100265)]
  else [("<|endoftext|>", 50256), ("<|fim_prefix|>", 50281), ("<|fim_middle|>", 50282), ("<|fim_suffix|>", 50283)]

/-- `convert_tiktoken` on the parsed lines `(token bytes, id)`, in file order. -/
def convertTiktoken (entries : List (Bytes × Id)) : ConvOut :=
  { vocab := entries.map fun (b, i) => (i, b),
    specials := ((tiktokenSpecialTable entries.length).zipIdx.map fun ((s, t), i) => mkControl i s t true).mergeSort specialLe }

/-! ### Tekken -/

inductive ConvError where
  | unsupportedVersion | tooManyTokens | tooManyPieces | tooFewTokens | rankOutOfRange
  deriving Repr, DecidableEq

def tekkenNamed : List (String × Option String × Bool) :=
  [("<unk>", some "unk", false), ("<s>", some "bos", false), ("</s>", some "eos", false), ("[INST]", none, true),
   ("[/INST]", none, true), ("[AVAILABLE_TOOLS]", none, true), ("[/AVAILABLE_TOOLS]", none, true),
   ("[TOOL_RESULTS]", none, true), ("[/TOOL_RESULTS]", none, true), ("[TOOL_CALLS]", none, true),
   ("<pad>", some "pad", false), ("[PREFIX]", none, true), ("[MIDDLE]", none, true), ("[SUFFIX]", none, true)]

/-- The special tokens before sorting: the fourteen named ones (the first is the unknown token), then
    `<SPECIAL_i>` up to `specialsLen`. -/
def tekkenSpecials (specialsLen : Nat) : List SpecialDef :=
  let named := tekkenNamed.zipIdx.map fun ((s, d, e), i) =>
    { mkControl i s i e d with kind := if i = 0 then SpecialKind.unknown else SpecialKind.control }
  let extra := (List.range' named.length (specialsLen - named.length)).map fun i =>
    mkControl i s!"<SPECIAL_{i}>" i true
  named ++ extra

/-- `convert_tekken` after JSON parsing: `version`, the optional `default_num_special_tokens` and
    `default_vocab_size`, and the vocabulary as `(rank, bytes)` in file order. -/
def convertTekken (version : String) (numSpecial vocabSize : Option Nat) (vocab : List (Nat × Bytes)) :
    Except ConvError ConvOut :=
  if version != "v3" then .error .unsupportedVersion else
  let specialsLen := numSpecial.getD tekkenNamed.length
  let vocabLen := vocabSize.getD vocab.length
  if vocabLen > vocab.length + specialsLen then .error .tooManyTokens
  else if vocabLen ≥ 4294967295 ∨ specialsLen ≥ 4294967295 then .error .tooManyPieces
  else
    let specials := tekkenSpecials specialsLen
    if vocabLen < specials.length then .error .tooFewTokens
    else
      let taken := vocab.take (vocabLen - specials.length)
      if taken.any (fun (r, _) => r ≥ 4294967296 ∨ r + specials.length ≥ 4294967296) then .error .rankOutOfRange
      else
        .ok { vocab := (taken.map fun (r, b) => (UInt32.ofNat (r + specials.length), b)).mergeSort (fun a b => a.1 ≤ b.1),
              specials := specials.mergeSort specialLe }

/-! ### format auto-detection -/

/-- `Definition::from_slice` with `convert-detect`: the first loader in the chain that accepts the data.
    The chain is native, tiktoken, sentencepiece, tokenizers, tekken. -/
def detect {α : Type} (chain : List (Bytes → Option α)) (data : Bytes) : Option α :=
  chain.findSome? fun f => f data

end Kitoken.Convert
