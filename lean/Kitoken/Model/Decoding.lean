/-
  Model of src/config/decoding.rs (byte-level clean-up after decoding) and `Configuration::decode`.
  Text is arbitrary bytes; characters are read with bstr's lossy decoder (Kitoken.Utf8).
-/
import Kitoken.Model.Utf8
import Kitoken.Model.Bytes
namespace Kitoken

open Utf8

inductive ReplacePattern where
  | char (c : Char)
  | string (s : Bytes)
  | regex (pattern : String)
  deriving Repr, DecidableEq, Inhabited

/-- `Decoding` (variant order = serde order). -/
inductive Decoding where
  | extend (c : Char) (left right : Nat) (pad : Bool)
  | strip (c : Char) (left right : Nat)
  | collapse (c : Char)
  | replace (pattern : ReplacePattern) (replacement : Bytes)
  deriving Repr, DecidableEq, Inhabited

/-- External regex engine for `Replace` with a regex pattern: `none` = not in the oracle table. -/
structure DecodeExt where
  replaceAll : (pattern : String) → (replacement : Bytes) → (text : Bytes) → Option Bytes

/-- `iter.take(n).take_while(|c| c == ch).count()`. -/
def countWhileEq (ch : Char) : Nat → List Char → Nat
  | 0, _ => 0
  | _ + 1, [] => 0
  | n + 1, c :: cs => if c = ch then countWhileEq ch n cs + 1 else 0

def repeatBytes (b : Bytes) (n : Nat) : Bytes := (List.replicate n b).flatten

def decodeExtend (ch : Char) (left right : Nat) (pad : Bool) (text : Bytes) : Bytes :=
  let buffer := encodeChar ch
  let text₁ :=
    if left > 0 then
      let l := if pad then left - countWhileEq ch left (chars text) else left
      repeatBytes buffer l ++ text
    else text
  if right > 0 then
    let r := if pad then right - countWhileEq ch right ((charsRev text₁).map (·.1)) else right
    text₁ ++ repeatBytes buffer r
  else text₁

/-- Bytes covered by the leading run of genuine encodings of `ch`, at most `n` of them
    (a lossily decoded invalid byte is U+FFFD but its span is not `len_utf8` bytes: F11). -/
def stripCount (ch : Char) : Nat → List (Char × Nat) → Nat
  | 0, _ => 0
  | _ + 1, [] => 0
  | n + 1, (c, size) :: cs =>
    if c = ch ∧ size = ch.utf8Size then stripCount ch n cs + ch.utf8Size else 0

def decodeStrip (ch : Char) (left right : Nat) (text : Bytes) : Res Bytes :=
  let fwd := (charIndices text).map fun (s, e, c) => (c, e - s)
  let sliceStart := stripCount ch left fwd
  let rest := text.drop sliceStart
  let sliceEnd := stripCount ch right (charsRev rest)
  if sliceStart > text.length then .panic "decode_strip: drain(..slice_start)"
  else if sliceEnd > rest.length then .panic "decode_strip: drain(len - slice_end..)"
  else .ok (rest.take (rest.length - sliceEnd))

/-- `decode_strip` before the F11 repair: every matching character counts `len_utf8` bytes. -/
def stripCountOld (ch : Char) : Nat → List (Char × Nat) → Nat
  | 0, _ => 0
  | _ + 1, [] => 0
  | n + 1, (c, _) :: cs => if c = ch then stripCountOld ch n cs + ch.utf8Size else 0

def decodeStripOld (ch : Char) (left right : Nat) (text : Bytes) : Res Bytes :=
  let fwd := (charIndices text).map fun (s, e, c) => (c, e - s)
  let sliceStart := stripCountOld ch left fwd
  if sliceStart > text.length then .panic "decode_strip: text[slice_start..]" else
  let rest := text.drop sliceStart
  let sliceEnd := stripCountOld ch right (charsRev rest)
  if sliceEnd > rest.length then .panic "decode_strip: drain(len - slice_end..)"
  else .ok (rest.take (rest.length - sliceEnd))

/-- The `filter` closure of `decode_collapse` / `normalize_collapse`: drop a copy of `ch` that
    directly follows a kept-or-dropped copy of `ch`. -/
def collapseChars (ch : Char) : Bool → List Char → List Char
  | _, [] => []
  | lastWasCh, c :: cs =>
    if c = ch then
      if lastWasCh then collapseChars ch true cs else c :: collapseChars ch true cs
    else c :: collapseChars ch false cs

def decodeCollapse (ch : Char) (text : Bytes) : Bytes :=
  encodeChars (collapseChars ch false (chars text))

/-- `to_str_lossy`: invalid sequences become U+FFFD. -/
def toStrLossy (text : Bytes) : Bytes := encodeChars (chars text)

def decodeReplace (ext : DecodeExt) (p : ReplacePattern) (rep : Bytes) (text : Bytes) : Option Bytes :=
  match p with
  | .char c => some (replaceAll (encodeChar c) rep text)
  | .string s => some (replaceAll s rep text)
  | .regex pat => ext.replaceAll pat rep (toStrLossy text)

/-- One step; `none` = oracle miss (the model asked for an external call that was not recorded). -/
def Decoding.decode (ext : DecodeExt) : Decoding → Bytes → Option (Res Bytes)
  | .extend c l r pad, t => some (.ok (decodeExtend c l r pad t))
  | .strip c l r, t => some (decodeStrip c l r t)
  | .collapse c, t => some (.ok (decodeCollapse c t))
  | .replace p rep, t => (decodeReplace ext p rep t).map .ok

def decodeSteps (ext : DecodeExt) : List Decoding → Bytes → Option (Res Bytes)
  | [], t => some (.ok t)
  | d :: ds, t =>
    match d.decode ext t with
    | none => none
    | some (.ok t') => decodeSteps ext ds t'
    | some (.err e) => some (.err e)
    | some (.panic p) => some (.panic p)

/-- `Configuration::decode`: nothing happens on empty output. -/
def configDecode (ext : DecodeExt) (steps : List Decoding) (t : Bytes) : Option (Res Bytes) :=
  if t.isEmpty then some (.ok t) else decodeSteps ext steps t

end Kitoken
