/-
  The wire format of a `Definition` (src/definition.rs, src/vocab.rs, src/config*.rs, src/charsmap.rs,
  src/regex.rs with serde derives, postcard encoding; `MAGIC ‖ VERSION ‖ body`), written with the
  combinators of Kitoken.Model.Codec. The `shape` of `definitionCodec` is compared, by a theorem, with
  the layout the translator extracts from the Rust source on every run (Generated/Layout.lean).
-/
import Kitoken.Model.Codec
import Kitoken.Model.Init
import Kitoken.Generated.Consts
namespace Kitoken.DefCodec

open Kitoken Kitoken.Codec

/-- Unit-only enum: variant index only. -/
def unitEnum (name : String) (names : List String) (tagOf : α → Nat) (ofTag : Nat → Option α) : Codec α :=
  Codec.enum name names tagOf (fun _ => []) (fun t r => (ofTag t).map fun x => (x, r))

/-- `u32` parameters are natural numbers in the model (no overflow in the modelled arithmetic);
    they are encodable when below 2^32. -/
def nat32 : Codec Nat := Codec.varU32

def fallback : Codec Fallback :=
  unitEnum "Fallback" ["Skip", "Unknown", "Bytes"]
    (fun | .skip => 0 | .unknown => 1 | .bytes => 2)
    (fun | 0 => some .skip | 1 => some .unknown | 2 => some .bytes | _ => none)

def insertionPosition : Codec InsertionPosition :=
  unitEnum "InsertionPosition"
    ["WordStart", "WordContinuation", "WordEnd", "SequenceStart", "SequenceContinuation", "SequenceEnd",
     "SubSequenceStart", "SubSequenceContinuation", "SubSequenceEnd"]
    (fun | .wordStart => 0 | .wordContinuation => 1 | .wordEnd => 2 | .sequenceStart => 3
         | .sequenceContinuation => 4 | .sequenceEnd => 5 | .subSequenceStart => 6
         | .subSequenceContinuation => 7 | .subSequenceEnd => 8)
    (fun | 0 => some .wordStart | 1 => some .wordContinuation | 2 => some .wordEnd | 3 => some .sequenceStart
         | 4 => some .sequenceContinuation | 5 => some .sequenceEnd | 6 => some .subSequenceStart
         | 7 => some .subSequenceContinuation | 8 => some .subSequenceEnd | _ => none)

def specialKind : Codec SpecialKind :=
  unitEnum "SpecialTokenKind" ["Unknown", "Control", "Priority"]
    (fun | .unknown => 0 | .control => 1 | .priority => 2)
    (fun | 0 => some .unknown | 1 => some .control | 2 => some .priority | _ => none)

def unicodeScheme : Codec UnicodeScheme :=
  unitEnum "UnicodeNormalization" ["NFC", "NFD", "NFKC", "NFKD"]
    (fun | .nfc => 0 | .nfd => 1 | .nfkc => 2 | .nfkd => 3)
    (fun | 0 => some .nfc | 1 => some .nfd | 2 => some .nfkc | 3 => some .nfkd | _ => none)

def normCondition : Codec NormCondition :=
  unitEnum "NormalizationCondition" ["StartOfText", "EndOfText"]
    (fun | .startOfText => 0 | .endOfText => 1)
    (fun | 0 => some .startOfText | 1 => some .endOfText | _ => none)

def splitBehavior : Codec SplitBehavior :=
  unitEnum "SplitBehavior" ["Match", "Remove", "Isolate", "Merge", "MergeLeft", "MergeRight"]
    (fun | .matches => 0 | .remove => 1 | .isolate => 2 | .merge => 3 | .mergeLeft => 4 | .mergeRight => 5)
    (fun | 0 => some .matches | 1 => some .remove | 2 => some .isolate | 3 => some .merge
         | 4 => some .mergeLeft | 5 => some .mergeRight | _ => none)

def direction : Codec Direction :=
  unitEnum "ProcessingDirection" ["Left", "Right"]
    (fun | .left => 0 | .right => 1)
    (fun | 0 => some .left | 1 => some .right | _ => none)

/-- `Regex`: serialized as its pattern string; deserialization compiles the pattern, which is external:
    `regexOk pattern = some true/false` is the recorded outcome of `Regex::new`, `none` = not recorded. -/
def regex (regexOk : Bytes → Option Bool) : Codec String where
  enc := fun p => Codec.str.enc p.toUTF8.toList
  dec := fun bs => do
    let (b, r) ← Codec.str.dec bs
    match regexOk b with
    | some true => some (String.fromUTF8! ⟨b.toArray⟩, r)
    | _ => none
  shape := "str"

/-- The three pattern enums (`NormalizationReplacePattern`, `DecodingReplacePattern`, `SplitPattern`)
    share their layout: Character(char), String(String), Regex(Regex). -/
def replacePattern (name : String) (regexOk : Bytes → Option Bool) : Codec ReplacePattern :=
  Codec.enum name ["Character(char)", "String(str)", "Regex(str)"]
    (fun | .char _ => 0 | .string _ => 1 | .regex _ => 2)
    (fun | .char c => Codec.char.enc c | .string s => Codec.str.enc s | .regex p => (regex regexOk).enc p)
    (fun t r => match t with
      | 0 => (Codec.char.dec r).map fun (c, r') => (.char c, r')
      | 1 => (Codec.str.dec r).map fun (s, r') => (.string s, r')
      | 2 => ((regex regexOk).dec r).map fun (p, r') => (.regex p, r')
      | _ => none)

def splitPattern (regexOk : Bytes → Option Bool) : Codec SplitPattern :=
  Codec.iso (replacePattern "SplitPattern" regexOk)
    (fun | .char c => .char c | .string s => .string s | .regex p => .regex p)
    (fun | .char c => .char c | .string s => .string s | .regex p => .regex p)

def charsMap : Codec CharsMap :=
  Codec.struct "CharsMap" <|
    Codec.iso (Codec.pair (Codec.field "array" (Codec.seq Codec.u32)) (Codec.field "normalized" Codec.bytes))
      (fun (a, n) => { array := a.toArray, normalized := n })
      (fun m => (m.array.toList, m.normalized))

/-- `Normalization`; the one recursive type (`Conditional` holds a boxed `Normalization`).
    The decoder takes fuel (the input length suffices). -/
def encNormalization (regexOk : Bytes → Option Bool) : Normalization → Bytes
  | .unicode s => encVarint 0 ++ unicodeScheme.enc s
  | .nmt => encVarint 1
  | .caseFold u => encVarint 2 ++ Codec.bool.enc u
  | .append s => encVarint 3 ++ Codec.str.enc s
  | .prepend s => encVarint 4 ++ Codec.str.enc s
  | .extend c l r p => encVarint 5 ++ Codec.char.enc c ++ nat32.enc l ++ nat32.enc r ++ Codec.bool.enc p
  | .strip c l r => encVarint 6 ++ Codec.char.enc c ++ nat32.enc l ++ nat32.enc r
  | .collapse c => encVarint 7 ++ Codec.char.enc c
  | .replace p rep => encVarint 8 ++ (replacePattern "NormalizationReplacePattern" regexOk).enc p ++ Codec.str.enc rep
  | .charsMap m => encVarint 9 ++ charsMap.enc m
  | .conditional cond inner => encVarint 10 ++ normCondition.enc cond ++ encNormalization regexOk inner

def decNormalization (regexOk : Bytes → Option Bool) : (fuel : Nat) → Bytes → Option (Normalization × Bytes)
  | 0, _ => none
  | fuel + 1, bs => do
    let (t, r) ← decVarint 5 15 5 0 0 bs
    match t with
    | 0 => (unicodeScheme.dec r).map fun (s, r') => (.unicode s, r')
    | 1 => some (.nmt, r)
    | 2 => (Codec.bool.dec r).map fun (u, r') => (.caseFold u, r')
    | 3 => (Codec.str.dec r).map fun (s, r') => (.append s, r')
    | 4 => (Codec.str.dec r).map fun (s, r') => (.prepend s, r')
    | 5 => do
      let (c, r₁) ← Codec.char.dec r
      let (l, r₂) ← nat32.dec r₁
      let (rt, r₃) ← nat32.dec r₂
      let (p, r₄) ← Codec.bool.dec r₃
      pure (.extend c l rt p, r₄)
    | 6 => do
      let (c, r₁) ← Codec.char.dec r
      let (l, r₂) ← nat32.dec r₁
      let (rt, r₃) ← nat32.dec r₂
      pure (.strip c l rt, r₃)
    | 7 => (Codec.char.dec r).map fun (c, r') => (.collapse c, r')
    | 8 => do
      let (p, r₁) ← (replacePattern "NormalizationReplacePattern" regexOk).dec r
      let (rep, r₂) ← Codec.str.dec r₁
      pure (.replace p rep, r₂)
    | 9 => (charsMap.dec r).map fun (m, r') => (.charsMap m, r')
    | 10 => do
      let (cond, r₁) ← normCondition.dec r
      let (inner, r₂) ← decNormalization regexOk fuel r₁
      pure (.conditional cond inner, r₂)
    | _ => none

def normalization (regexOk : Bytes → Option Bool) : Codec Normalization where
  enc := encNormalization regexOk
  dec := fun bs => decNormalization regexOk (bs.length + 1) bs
  shape := "enum Normalization{Unicode{scheme:" ++ unicodeScheme.shape ++ "},NMT,CaseFold{upper:bool},Append{append:str}," ++
    "Prepend{prepend:str},Extend{character:char,left:u32,right:u32,pad:bool},Strip{character:char,left:u32,right:u32}," ++
    "Collapse{character:char},Replace{pattern:" ++ (replacePattern "NormalizationReplacePattern" regexOk).shape ++
    ",replacement:str},CharsMap{map:" ++ charsMap.shape ++ "},Conditional{condition:" ++ normCondition.shape ++
    ",normalization:@Normalization}}"

def split (regexOk : Bytes → Option Bool) : Codec Split :=
  Codec.enum "Split"
    ["Pattern{pattern:" ++ (splitPattern regexOk).shape ++ ",behavior:" ++ splitBehavior.shape ++ "}", "UnicodeScript"]
    (fun | .pattern _ _ => 0 | .unicodeScript => 1)
    (fun | .pattern p b => (splitPattern regexOk).enc p ++ splitBehavior.enc b | .unicodeScript => [])
    (fun t r => match t with
      | 0 => do
        let (p, r₁) ← (splitPattern regexOk).dec r
        let (b, r₂) ← splitBehavior.dec r₁
        pure (.pattern p b, r₂)
      | 1 => some (.unicodeScript, r)
      | _ => none)

def processing : Codec Processing :=
  Codec.enum "Processing"
    ["Strip{id:u32,left:u32,right:u32}", "Collapse{id:u32}",
     "Pad{id:u32,length:u32,stride:u32,direction:" ++ direction.shape ++ "}",
     "Truncate{length:u32,stride:u32,direction:" ++ direction.shape ++ "}"]
    (fun | .strip .. => 0 | .collapse _ => 1 | .pad .. => 2 | .truncate .. => 3)
    (fun | .strip id l r => Codec.u32.enc id ++ nat32.enc l ++ nat32.enc r
         | .collapse id => Codec.u32.enc id
         | .pad id n s d => Codec.u32.enc id ++ nat32.enc n ++ nat32.enc s ++ direction.enc d
         | .truncate n s d => nat32.enc n ++ nat32.enc s ++ direction.enc d)
    (fun t r => match t with
      | 0 => do
        let (id, r₁) ← Codec.u32.dec r
        let (l, r₂) ← nat32.dec r₁
        let (rt, r₃) ← nat32.dec r₂
        pure (.strip id l rt, r₃)
      | 1 => (Codec.u32.dec r).map fun (id, r') => (.collapse id, r')
      | 2 => do
        let (id, r₁) ← Codec.u32.dec r
        let (n, r₂) ← nat32.dec r₁
        let (s, r₃) ← nat32.dec r₂
        let (d, r₄) ← direction.dec r₃
        pure (.pad id n s d, r₄)
      | 3 => do
        let (n, r₁) ← nat32.dec r
        let (s, r₂) ← nat32.dec r₁
        let (d, r₃) ← direction.dec r₂
        pure (.truncate n s d, r₃)
      | _ => none)

def decoding (regexOk : Bytes → Option Bool) : Codec Decoding :=
  Codec.enum "Decoding"
    ["Extend{character:char,left:u32,right:u32,pad:bool}", "Strip{character:char,left:u32,right:u32}",
     "Collapse{character:char}",
     "Replace{pattern:" ++ (replacePattern "DecodingReplacePattern" regexOk).shape ++ ",replacement:str}"]
    (fun | .extend .. => 0 | .strip .. => 1 | .collapse _ => 2 | .replace .. => 3)
    (fun | .extend c l r p => Codec.char.enc c ++ nat32.enc l ++ nat32.enc r ++ Codec.bool.enc p
         | .strip c l r => Codec.char.enc c ++ nat32.enc l ++ nat32.enc r
         | .collapse c => Codec.char.enc c
         | .replace p rep => (replacePattern "DecodingReplacePattern" regexOk).enc p ++ Codec.str.enc rep)
    (fun t r => match t with
      | 0 => do
        let (c, r₁) ← Codec.char.dec r
        let (l, r₂) ← nat32.dec r₁
        let (rt, r₃) ← nat32.dec r₂
        let (p, r₄) ← Codec.bool.dec r₃
        pure (.extend c l rt p, r₄)
      | 1 => do
        let (c, r₁) ← Codec.char.dec r
        let (l, r₂) ← nat32.dec r₁
        let (rt, r₃) ← nat32.dec r₂
        pure (.strip c l rt, r₃)
      | 2 => (Codec.char.dec r).map fun (c, r') => (.collapse c, r')
      | 3 => do
        let (p, r₁) ← (replacePattern "DecodingReplacePattern" regexOk).dec r
        let (rep, r₂) ← Codec.str.dec r₁
        pure (.replace p rep, r₂)
      | _ => none)

def template : Codec Template :=
  Codec.struct "Template" <|
    Codec.iso (Codec.pair (Codec.field "content" Codec.str) (Codec.field "position" insertionPosition))
      (fun (c, p) => { content := c, position := p }) (fun t => (t.content, t.position))

def token : Codec (Id × Bytes) :=
  Codec.struct "Token" <| Codec.pair (Codec.field "id" Codec.u32) (Codec.field "bytes" Codec.bytes)

def specialToken : Codec SpecialDef :=
  Codec.struct "SpecialToken" <|
    Codec.iso
      (Codec.pair (Codec.field "id" Codec.u32) <| Codec.pair (Codec.field "bytes" Codec.bytes) <|
       Codec.pair (Codec.field "kind" specialKind) <| Codec.pair (Codec.field "ident" (Codec.option Codec.str)) <|
       Codec.pair (Codec.field "score" Codec.f32bits) (Codec.field "extract" Codec.bool))
      (fun (id, b, k, i, s, e) => { id := id, bytes := b, kind := k, ident := i, score := s, extract := e })
      (fun t => (t.id, t.bytes, t.kind, t.ident, t.score, t.extract))

def model : Codec ModelDef :=
  Codec.enum "Model"
    ["BytePair{vocab:seq(" ++ token.shape ++ "),chars:bool}",
     "Unigram{vocab:seq(" ++ token.shape ++ "),scores:seq(f32)}",
     "WordPiece{vocab:seq(" ++ token.shape ++ "),max_word_chars:u32}"]
    (fun | .bytePair .. => 0 | .unigram .. => 1 | .wordPiece .. => 2)
    (fun | .bytePair v c => (Codec.seq token).enc v ++ Codec.bool.enc c
         | .unigram v s => (Codec.seq token).enc v ++ (Codec.seq Codec.f32bits).enc s
         | .wordPiece v m => (Codec.seq token).enc v ++ nat32.enc m)
    (fun t r => match t with
      | 0 => do
        let (v, r₁) ← (Codec.seq token).dec r
        let (c, r₂) ← Codec.bool.dec r₁
        pure (.bytePair v c, r₂)
      | 1 => do
        let (v, r₁) ← (Codec.seq token).dec r
        let (s, r₂) ← (Codec.seq Codec.f32bits).dec r₁
        pure (.unigram v s, r₂)
      | 2 => do
        let (v, r₁) ← (Codec.seq token).dec r
        let (m, r₂) ← nat32.dec r₁
        pure (.wordPiece v m, r₂)
      | _ => none)

def metadata : Codec Metadata :=
  Codec.struct "Metadata" <|
    Codec.iso
      (Codec.pair (Codec.field "version" Codec.str) <| Codec.pair (Codec.field "source" Codec.str)
        (Codec.field "meta" (Codec.seq (Codec.tuple (Codec.pair Codec.str Codec.str)))))
      (fun (v, s, m) => { version := v, source := s, entries := m }) (fun m => (m.version, m.source, m.entries))

def configuration (regexOk : Bytes → Option Bool) : Codec ConfigDef :=
  Codec.struct "Configuration" <|
    Codec.iso
      (Codec.pair (Codec.field "fallback" (Codec.seq fallback)) <|
       Codec.pair (Codec.field "normalization" (Codec.seq (normalization regexOk))) <|
       Codec.pair (Codec.field "split" (Codec.seq (split regexOk))) <|
       Codec.pair (Codec.field "processing" (Codec.seq processing)) <|
       Codec.pair (Codec.field "decoding" (Codec.seq (decoding regexOk)))
                  (Codec.field "templates" (Codec.seq template)))
      (fun (f, n, s, p, d, t) => { fallback := f, normalization := n, split := s, processing := p, decoding := d, templates := t })
      (fun c => (c.fallback, c.normalization, c.split, c.processing, c.decoding, c.templates))

def definition (regexOk : Bytes → Option Bool) : Codec Definition :=
  Codec.struct "Definition" <|
    Codec.iso
      (Codec.pair (Codec.field "meta" metadata) <| Codec.pair (Codec.field "model" model) <|
       Codec.pair (Codec.field "specials" (Codec.seq specialToken)) (Codec.field "config" (configuration regexOk)))
      (fun (m, mo, s, c) => { metadata := m, model := mo, specials := s, config := c })
      (fun d => (d.metadata, d.model, d.specials, d.config))

/-- `Definition::to_vec`: magic, version, postcard body. -/
def toVec (d : Definition) : Bytes :=
  Generated.MAGIC ++ Generated.VERSION ++ (definition (fun _ => some true)).enc d

/-- The native branch of `Definition::from_slice`: size, magic and version checks, then the body
    (bytes after the value are ignored by postcard). -/
def fromSlice (regexOk : Bytes → Option Bool) (bs : Bytes) : Option Definition :=
  let m := Generated.MAGIC
  let v := Generated.VERSION
  if bs.length < m.length + v.length then none
  else if bs.take m.length != m then none
  else if (bs.drop m.length).take v.length != v then none
  else ((definition regexOk).dec (bs.drop (m.length + v.length))).map (·.1)

end Kitoken.DefCodec
