/-
  Call histories on one shared tokenizer (C19).

  `Kitoken::encode` / `decode` take `&self`; the tokenizer value has no interior mutability (the
  translator checks that the crate's sources contain no `Cell`, `RefCell`, `Mutex`, atomics or
  `thread_local!` outside the verification hooks, and exactly one lazily initialised static, the NMT
  whitespace regex in a `OnceBox`). The session state below is therefore everything a call can leave
  behind: whether that static has been initialised, and (as ghost state) how many calls were made.
  The initialised value is a constant of the program, so a call's answer is `answer tk ext call`
  whatever the state.
-/
import Kitoken.Model.Pipeline
namespace Kitoken

inductive Call where
  | encode (text : Bytes) (specials : Bool)
  | decode (ids : List Id) (specials : Bool)
  deriving Repr

inductive Answer where
  | ids (o : Out (List Id))
  | bytes (o : Out Bytes)
  deriving Repr

/-- What an isolated call returns. -/
def answer {S : Type} [Cost S] [Inhabited S] (tk : Tokenizer S) (ext : Ext) : Call → Answer
  | .encode t s => .ids (tk.encode ext t s)
  | .decode ids s => .bytes (tk.decode ext ids s)

structure Session where
  /-- `NMT_REGEX_SPACE`: `none` until the first NMT normalization on any thread. -/
  nmtRegex : Option Unit := none
  /-- ghost: number of calls made so far -/
  calls : Nat := 0

namespace Session

def step {S : Type} [Cost S] [Inhabited S] (tk : Tokenizer S) (ext : Ext) (s : Session) (c : Call) : Session × Answer :=
  ({ nmtRegex := some (), calls := s.calls + 1 }, answer tk ext c)

/-- Answers of a history of calls, in order, starting from state `s`. -/
def run {S : Type} [Cost S] [Inhabited S] (tk : Tokenizer S) (ext : Ext) : Session → List Call → List Answer
  | _, [] => []
  | s, c :: cs => (step tk ext s c).2 :: run tk ext (step tk ext s c).1 cs

end Session
end Kitoken
