/-
  Model of src/config/processing.rs (token post-processing) and `Configuration::process`.
  Every Rust panic site (drain / truncate ranges, unsigned subtraction) is an explicit `Res.panic`.
-/
import Kitoken.Model.Basic
namespace Kitoken

inductive Direction where
  | left | right
  deriving Repr, DecidableEq, Inhabited

/-- `Processing` (variant order = serde order). Numeric parameters are `u32` in the source. -/
inductive Processing where
  | strip (id : Id) (left right : Nat)
  | collapse (id : Id)
  | pad (id : Id) (length stride : Nat) (dir : Direction)
  | truncate (length stride : Nat) (dir : Direction)
  deriving Repr, DecidableEq, Inhabited

/-- Number of leading elements equal to `id`, at most `n`
    (the `for … { if c != id || left == 0 { break }; slice_start += 1; left -= 1 }` loop). -/
def countLeading (id : Id) : Nat → List Id → Nat
  | 0, _ => 0
  | _ + 1, [] => 0
  | n + 1, t :: ts => if t = id then countLeading id n ts + 1 else 0

/-- `process_strip` after the F2 repair: the trailing run is counted in `tokens[slice_start..]`. -/
def processStrip (id : Id) (left right : Nat) (ts : List Id) : Res (List Id) :=
  let sliceStart := countLeading id left ts
  let sliceEnd := countLeading id right (ts.drop sliceStart).reverse
  let ts₁ := ts.drop sliceStart                      -- tokens.drain(..slice_start)
  if sliceEnd > ts₁.length then .panic "process_strip: drain(len - slice_end..)"
  else .ok (ts₁.take (ts₁.length - sliceEnd))        -- tokens.drain(len - slice_end..)

/-- `process_strip` before the repair (trailing run counted over the whole sequence). -/
def processStripOld (id : Id) (left right : Nat) (ts : List Id) : Res (List Id) :=
  let sliceStart := countLeading id left ts
  let sliceEnd := countLeading id right ts.reverse
  let ts₁ := ts.drop sliceStart
  if sliceEnd > ts₁.length then .panic "process_strip: drain(len - slice_end..)"
  else .ok (ts₁.take (ts₁.length - sliceEnd))

/-- `process_collapse`: `retain` with `last` updated on every element, kept or not. -/
def collapseAux (id : Id) : Option Id → List Id → List Id
  | _, [] => []
  | last, t :: ts =>
    if last = some t ∧ t = id then collapseAux id (some t) ts
    else t :: collapseAux id (some t) ts

def processCollapse (id : Id) (ts : List Id) : List Id := collapseAux id none ts

/-- Rounding used by both Pad and Truncate: `d` rounded up to a multiple of `stride` (if `stride > 0`). -/
def roundUp (d stride : Nat) : Nat :=
  if stride > 0 ∧ d % stride > 0 then d + (stride - d % stride) else d

def processPad (id : Id) (length stride : Nat) (dir : Direction) (ts : List Id) : List Id :=
  let len := ts.length
  if len ≥ length then ts
  else
    let amount := roundUp (length - len) stride
    match dir with
    | .left => List.replicate amount id ++ ts
    | .right => ts ++ List.replicate amount id

/-- `process_truncate` after the F3 repair (`amount.min(len)`). -/
def processTruncate (length stride : Nat) (dir : Direction) (ts : List Id) : Res (List Id) :=
  let len := ts.length
  if len ≤ length then .ok ts
  else
    let amount := min (roundUp (len - length) stride) len
    match dir with
    | .left => if amount > len then .panic "process_truncate: drain(0..amount)" else .ok (ts.drop amount)
    | .right => if amount > len then .panic "process_truncate: len - amount" else .ok (ts.take (len - amount))

/-- `process_truncate` before the repair. -/
def processTruncateOld (length stride : Nat) (dir : Direction) (ts : List Id) : Res (List Id) :=
  let len := ts.length
  if len ≤ length then .ok ts
  else
    let amount := roundUp (len - length) stride
    match dir with
    | .left => if amount > len then .panic "process_truncate: drain(0..amount)" else .ok (ts.drop amount)
    | .right => if amount > len then .panic "process_truncate: len - amount" else .ok (ts.take (len - amount))

def Processing.process : Processing → List Id → Res (List Id)
  | .strip id l r, ts => processStrip id l r ts
  | .collapse id, ts => .ok (processCollapse id ts)
  | .pad id len stride dir, ts => .ok (processPad id len stride dir ts)
  | .truncate len stride dir, ts => processTruncate len stride dir ts

/-- Steps in order (`for processing in &self.processing`). -/
def processSteps : List Processing → List Id → Res (List Id)
  | [], ts => .ok ts
  | p :: ps, ts => (p.process ts).bind (processSteps ps)

/-- `Configuration::process`: nothing happens on an empty sequence. -/
def configProcess (steps : List Processing) (ts : List Id) : Res (List Id) :=
  if ts.isEmpty then .ok ts else processSteps steps ts

end Kitoken
