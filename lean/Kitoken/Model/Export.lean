/-
  Model of `Encoder::model` (src/encoder/*.rs) and `Kitoken::to_definition` (src/definition.rs):
  the definition a tokenizer exports. Hash-map iteration order is an explicit parameter: the entries
  arrive in an arbitrary permutation and are then sorted with a stable sort.
-/
import Kitoken.Model.Init
namespace Kitoken

/-- Total order key of a non-NaN `f32` given by its bits (−0 and +0 coincide, as `partial_cmp` says). -/
def f32Key (bits : UInt32) : Int :=
  let mag : Int := (bits.toNat % 2 ^ 31 : Nat)
  if bits.toNat ≥ 2 ^ 31 then -mag else mag

/-- Lexicographic comparison of byte strings (`Vec<u8>: Ord`). -/
def bytesLe : Bytes → Bytes → Bool
  | [], _ => true
  | _ :: _, [] => false
  | a :: as, b :: bs => a < b || (a == b && bytesLe as bs)

def kindRank : SpecialKind → Nat
  | .unknown => 0 | .control => 1 | .priority => 2

/-- `impl Ord for SpecialToken` after the F12 repair: kind, score (`partial_cmp`, incomparable = equal),
    id, bytes. -/
def specialLe (a b : SpecialDef) : Bool :=
  if kindRank a.kind != kindRank b.kind then kindRank a.kind < kindRank b.kind
  else
    let sa := f32Key a.score
    let sb := f32Key b.score
    let comparable := !f32IsNaN a.score && !f32IsNaN b.score
    if comparable && sa != sb then sa < sb
    else if a.id != b.id then a.id < b.id
    else bytesLe a.bytes b.bytes

/-- The order before the repair: ties on (kind, score, id) were left to the hash order. -/
def specialLeOld (a b : SpecialDef) : Bool :=
  if kindRank a.kind != kindRank b.kind then kindRank a.kind < kindRank b.kind
  else
    let sa := f32Key a.score
    let sb := f32Key b.score
    let comparable := !f32IsNaN a.score && !f32IsNaN b.score
    if comparable && sa != sb then sa < sb
    else a.id ≤ b.id

/-- `BytePair::model`: sort by (rank, id); the rank of an entry is its index in the original vocabulary. -/
def exportBpe (orig : List (Id × Bytes)) (arrived : List (Id × Bytes)) : List (Id × Bytes) :=
  let rankOf (b : Bytes) : Nat := (orig.findIdx? (fun t => t.2 == b)).getD orig.length
  arrived.mergeSort fun x y => rankOf x.2 < rankOf y.2 || (rankOf x.2 == rankOf y.2 && x.1 ≤ y.1)

/-- Order of the Unigram export: score, then id, then bytes (the bytes since the F26 repair: two entries with
    equal score and id used to compare equal, and their order came from the hash map). -/
def uniExportLe (x y : (Id × Bytes) × UInt32) : Bool :=
  f32Key x.2 < f32Key y.2 ||
    (f32Key x.2 == f32Key y.2 && (x.1.1 < y.1.1 || (x.1.1 == y.1.1 && bytesLe x.1.2 y.1.2)))

/-- `Unigram::model`: sort by (score, id, bytes); `partial_cmp(..).unwrap()` panics on NaN. -/
def exportUnigram (arrived : List ((Id × Bytes) × UInt32)) : Res (List ((Id × Bytes) × UInt32)) :=
  if arrived.any (fun e => f32IsNaN e.2) ∧ arrived.length > 1 then .panic "Unigram::model: partial_cmp unwrap"
  else .ok (arrived.mergeSort uniExportLe)

/-- `WordPiece::model`: sort by (id, bytes) over the word-initial entries and the re-prefixed continuations. -/
def exportWordPiece (arrived : List (Id × Bytes)) : List (Id × Bytes) :=
  arrived.mergeSort fun x y => x.1 < y.1 || (x.1 == y.1 && bytesLe x.2 y.2)

/-- `Kitoken::to_definition` for a tokenizer built from `d`, with the iteration orders of the
    vocabulary maps (`pv`, `pvs`) given as reorderings. Configuration and metadata are cloned; the specials are
    returned in the order the tokenizer was built with (after the F25 repair the tokenizer keeps the list as given;
    before it they came out of a hash map and were re-sorted with `specialLe`, which changed the split priority of
    a definition listed in any other order). -/
def exportDefinition (d : Definition) (pv : List (Id × Bytes) → List (Id × Bytes))
    (pvs : List ((Id × Bytes) × UInt32) → List ((Id × Bytes) × UInt32)) : Res Definition :=
  match d.model with
  | .bytePair vocab chars =>
    .ok { d with model := .bytePair (exportBpe vocab (pv vocab)) chars }
  | .unigram vocab scores =>
    match exportUnigram (pvs (vocab.zip scores)) with
    | .ok sorted => .ok { d with model := .unigram (sorted.map (·.1)) (sorted.map (·.2)) }
    | .err e => .err e
    | .panic p => .panic p
  | .wordPiece vocab maxw =>
    .ok { d with model := .wordPiece (exportWordPiece (pv vocab)) maxw }

end Kitoken
