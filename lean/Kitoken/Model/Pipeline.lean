/-
  Model of `Kitoken::encode` / `Kitoken::decode` (src/lib.rs): special-token extraction before
  normalization, per-segment normalization, second pass for the remaining special tokens,
  pre-tokenization split, the encoder, token post-processing; decoder plus byte clean-up.
  Every `str` slice taken with externally computed indices is an explicit panic site.
-/
import Kitoken.Model.Bpe
import Kitoken.Model.Unigram
import Kitoken.Model.WordPiece
import Kitoken.Model.Decoder
import Kitoken.Model.Normalize
import Kitoken.Model.Split
import Kitoken.Model.Process
namespace Kitoken

open Utf8

inductive SpecialKind where
  | unknown | control | priority
  deriving Repr, DecidableEq, Inhabited

structure Special where
  id : Id
  bytes : Bytes
  kind : SpecialKind
  extract : Bool
  deriving Repr, DecidableEq, Inhabited

inductive EncoderModel (S : Type) where
  | bpe (c : BpeCtx)
  | unigram (c : UniCtx S)
  | wordpiece (c : WpCtx)

structure Config where
  normalization : List Normalization
  split : List Split
  processing : List Processing
  decoding : List Decoding

structure Tokenizer (S : Type) where
  encoder : EncoderModel S
  dec : DecCtx
  specials : List Special
  config : Config

/-- All external calls of the pipeline. -/
structure Ext where
  norm : NormExt
  split : SplitExt
  dec : DecodeExt

/-- Outcome with a third possibility: the model needed an external result that was not recorded. -/
inductive Out (α : Type) where
  | res (r : Res α)
  | miss (what : String)
  deriving Repr

/-- `&text[a..b]` for a `str`: panics outside bounds or off a character boundary. -/
def strSlice (text : Bytes) (a b : Nat) : Res Bytes :=
  if a ≤ b ∧ b ≤ text.length ∧ isBoundary text a ∧ isBoundary text b then .ok (slice text a b)
  else .panic "str slice"

/-- Leftmost-first scan for an alternation of literals (`a|b|c` built from escaped special strings):
    at the leftmost position where some alternative matches, the first alternative in list order
    wins; scanning continues after the match. Empty alternatives never match here (excluded by the
    well-formedness hypothesis of C07; see DESIGN.md). -/
def scanLiteralsFrom (alts : List Bytes) (pos : Nat) (text : Bytes) : Ranges :=
  match text with
  | [] => []
  | b :: t =>
    match alts.find? (fun a => !a.isEmpty && startsWith (b :: t) a) with
    | some a =>
      if _h : 0 < a.length then
        (pos, pos + a.length) :: scanLiteralsFrom alts (pos + a.length) ((b :: t).drop a.length)
      else scanLiteralsFrom alts (pos + 1) t
    | none => scanLiteralsFrom alts (pos + 1) t
termination_by text.length
decreasing_by
  all_goals simp only [List.length_drop, List.length_cons]
  all_goals omega

def scanLiterals (alts : List Bytes) (text : Bytes) : Ranges := scanLiteralsFrom alts 0 text

namespace Tokenizer

variable {S : Type}

def extractAlts (tk : Tokenizer S) : List Bytes := (tk.specials.filter (·.extract)).map (·.bytes)
def specialAlts (tk : Tokenizer S) : List Bytes := (tk.specials.filter (!·.extract)).map (·.bytes)

/-- `self.specials[bytes]` (hash-map index: panics on a missing key). -/
def lookupSpecial (tk : Tokenizer S) (b : Bytes) : Res Special :=
  match tk.specials.find? (·.bytes == b) with
  | some s => .ok s
  | none => .panic "specials[..]: key not found"

def admitted (encodeSpecials : Bool) (s : Special) : Bool :=
  s.kind != .control || encodeSpecials

/-- `self.config.normalize(&mut text, range)` on a segment. -/
def normSegment (tk : Tokenizer S) (ext : Ext) (seg : Bytes) (pos : Position) : Out Bytes :=
  match configNormalize ext.norm tk.config.normalization pos seg with
  | none => .miss "normalize"
  | some r => .res r

/-- Stage A loop (`while posit < text.len()` over the extracted matches). -/
def stageAGo (tk : Tokenizer S) (ext : Ext) (text : Bytes) (enc : Bool) :
    (ms : Ranges) → (posit : Nat) → (acc : List TextPart) → Out (List TextPart)
  | [], posit, acc =>
    if posit < text.length then
      match normSegment tk ext (text.drop posit) ⟨posit, true⟩ with
      | .res (.ok t) => .res (.ok (acc ++ [⟨t, INVALID⟩]))
      | .res (.err e) => .res (.err e)
      | .res (.panic p) => .res (.panic p)
      | .miss w => .miss w
    else .res (.ok acc)
  | (a, b) :: ms, posit, acc =>
    if posit < text.length then
      let before : Out (List TextPart) :=
        if a > posit then
          match strSlice text posit a with
          | .ok seg =>
            match normSegment tk ext seg ⟨posit, false⟩ with
            | .res (.ok t) => .res (.ok (acc ++ [⟨t, INVALID⟩]))
            | .res (.err e) => .res (.err e)
            | .res (.panic p) => .res (.panic p)
            | .miss w => .miss w
          | .err e => .res (.err e)
          | .panic p => .res (.panic p)
        else .res (.ok acc)
      match before with
      | .res (.ok acc) =>
        match strSlice text a b with
        | .ok stext =>
          match tk.lookupSpecial stext with
          | .ok sp =>
            stageAGo tk ext text enc ms b (acc ++ [⟨stext, if admitted enc sp then sp.id else INVALID⟩])
          | .err e => .res (.err e)
          | .panic p => .res (.panic p)
        | .err e => .res (.err e)
        | .panic p => .res (.panic p)
      | other => other
    else .res (.ok acc)

def stageA (tk : Tokenizer S) (ext : Ext) (text : Bytes) (enc : Bool) : Out (List TextPart) :=
  let ms := if tk.extractAlts.all (·.isEmpty) then [] else scanLiterals tk.extractAlts text
  stageAGo tk ext text enc ms 0 []

/-- The pieces of one stretch of ordinary text: `config.split`, empty ranges dropped. -/
def splitPieces (tk : Tokenizer S) (ext : Ext) (ptext : Bytes) (posit stop : Nat) : Out (List TextPart) :=
  match strSlice ptext posit stop with
  | .ok seg =>
    match configSplit ext.split tk.config.split seg with
    | none => .miss "split"
    | some rs =>
      let step (acc : Res (List TextPart)) (r : Nat × Nat) : Res (List TextPart) :=
        match acc with
        | .ok ps =>
          if r.2 > r.1 then
            match strSlice ptext (posit + r.1) (posit + r.2) with
            | .ok t => .ok (ps ++ [⟨t, INVALID⟩])
            | .err e => .err e
            | .panic p => .panic p
          else .ok ps
        | other => other
      .res (rs.foldl step (.ok []))
  | .err e => .res (.err e)
  | .panic p => .res (.panic p)

/-- Stage B loop for one ordinary part. `ms` are the admitted non-extracted special matches. -/
def stageBGo (tk : Tokenizer S) (ext : Ext) (ptext : Bytes) :
    (ms : List (Nat × Nat × Id)) → (posit : Nat) → (acc : List TextPart) → Out (List TextPart)
  | [], posit, acc =>
    if posit < ptext.length then
      match splitPieces tk ext ptext posit ptext.length with
      | .res (.ok ps) => .res (.ok (acc ++ ps))
      | other => other
    else .res (.ok acc)
  | (a, b, id) :: ms, posit, acc =>
    if posit < ptext.length then
      let before : Out (List TextPart) :=
        if a > posit then
          match splitPieces tk ext ptext posit a with
          | .res (.ok ps) => .res (.ok (acc ++ ps))
          | other => other
        else .res (.ok acc)
      match before with
      | .res (.ok acc) =>
        match strSlice ptext a b with
        | .ok stext => stageBGo tk ext ptext ms b (acc ++ [⟨stext, id⟩])
        | .err e => .res (.err e)
        | .panic p => .res (.panic p)
      | other => other
    else .res (.ok acc)

/-- The admitted special matches of the second pass (`find_iter … map … filter`). -/
def secondPassMatches (tk : Tokenizer S) (enc : Bool) (ptext : Bytes) : Res (List (Nat × Nat × Id)) :=
  if tk.specialAlts.all (·.isEmpty) then .ok []
  else
    (scanLiterals tk.specialAlts ptext).foldl (fun acc (a, b) =>
      match acc with
      | .ok l =>
        match tk.lookupSpecial (slice ptext a b) with
        | .ok sp => if admitted enc sp then .ok (l ++ [(a, b, sp.id)]) else .ok l
        | .err e => .err e
        | .panic p => .panic p
      | other => other) (.ok [])

def stageB (tk : Tokenizer S) (ext : Ext) (enc : Bool) : List TextPart → List TextPart → Out (List TextPart)
  | [], acc => .res (.ok acc)
  | p :: ps, acc =>
    if p.special != INVALID then stageB tk ext enc ps (acc ++ [p])
    else
      match secondPassMatches tk enc p.text with
      | .ok ms =>
        match stageBGo tk ext p.text ms 0 acc with
        | .res (.ok acc') => stageB tk ext enc ps acc'
        | other => other
      | .err e => .res (.err e)
      | .panic q => .res (.panic q)

def runEncoder [Cost S] [Inhabited S] (tk : Tokenizer S) (parts : List TextPart) : Res (List Id) :=
  match tk.encoder with
  | .bpe c => Bpe.encode c parts
  | .unigram c => Unigram.encode c parts
  | .wordpiece c => WordPiece.encode c parts

/-- The parts handed to the encoder (both passes). -/
def parts (tk : Tokenizer S) (ext : Ext) (text : Bytes) (enc : Bool) : Out (List TextPart) :=
  match stageA tk ext text enc with
  | .res (.ok a) => stageB tk ext enc a []
  | other => other

/-- `Kitoken::encode`. -/
def encode [Cost S] [Inhabited S] (tk : Tokenizer S) (ext : Ext) (text : Bytes) (enc : Bool) : Out (List Id) :=
  match tk.parts ext text enc with
  | .res (.ok ps) =>
    match runEncoder tk ps with
    | .ok ids => .res (configProcess tk.config.processing ids)
    | .err e => .res (.err e)
    | .panic p => .res (.panic p)
  | .res (.err e) => .res (.err e)
  | .res (.panic p) => .res (.panic p)
  | .miss w => .miss w

/-- `Kitoken::decode`. -/
def decode (tk : Tokenizer S) (ext : Ext) (tokens : List Id) (decodeSpecials : Bool) : Out Bytes :=
  match Decoder.decode tk.dec tokens decodeSpecials with
  | .ok bytes =>
    match configDecode ext.dec tk.config.decoding bytes with
    | none => .miss "decode replace"
    | some r => .res r
  | .err e => .res (.err e)
  | .panic p => .res (.panic p)

end Tokenizer
end Kitoken
