/-
  Model of src/charsmap.rs: the SentencePiece precompiled character map (double-array trie +
  NUL-separated replacement strings), its blob loader, common-prefix search and normalization.
  After the F4 (loader slice) and F14 (checked indexing) repairs.
-/
import Kitoken.Model.Utf8
namespace Kitoken

open Utf8

structure CharsMap where
  array : Array UInt32
  normalized : Bytes
  deriving Repr, DecidableEq, Inhabited

namespace CharsMap

/-- `UnitExt` for `u32` (64-bit `usize` arithmetic; no overflow is possible: 22 bits shifted by ≤ 8). -/
def unitValue (u : UInt32) : Nat := u.toNat % 2 ^ 31
def unitLabel (u : UInt32) : Nat := u.toNat &&& (2 ^ 31 ||| 0xFF)
def unitOffset (u : UInt32) : Nat := (u.toNat >>> 10) <<< ((u.toNat &&& 2 ^ 9) >>> 6)
def unitHasLeaf (u : UInt32) : Bool := (u.toNat >>> 8) &&& 1 == 1

/-- The loop of `prefix` over the key bytes; `posit` is the current trie position, `i` the number of
    bytes consumed so far. Collects (key length, value) for every key that is a prefix of the input. -/
def prefixGo (m : CharsMap) : (key : Bytes) → (posit : Nat) → (i : Nat) → (acc : List (Nat × Nat)) → List (Nat × Nat)
  | [], _, _, acc => acc.reverse
  | c :: cs, posit, i, acc =>
    if c == 0 then acc.reverse
    else
      let posit := posit ^^^ c.toNat
      match m.array[posit]? with
      | none => acc.reverse
      | some unit =>
        if unitLabel unit != c.toNat then acc.reverse
        else
          let posit := posit ^^^ unitOffset unit
          if unitHasLeaf unit then
            match m.array[posit]? with
            | none => acc.reverse
            | some leaf => prefixGo m cs posit (i + 1) ((i + 1, unitValue leaf) :: acc)
          else prefixGo m cs posit (i + 1) acc

/-- `CharsMap::prefix`: (length, value) of all keys that are prefixes of `key`, shortest first. -/
def «prefix» (m : CharsMap) (key : Bytes) : List (Nat × Nat) :=
  match m.array[0]? with
  | none => []
  | some unit => prefixGo m key (0 ^^^ unitOffset unit) 0 []

/-- Index of the first NUL at or after `start` (or the length). -/
def scanNul (bs : Bytes) (start : Nat) : Nat :=
  start + ((bs.drop start).takeWhile (· != 0)).length

/-- `CharsMap::transform` after the F16 repair: the replacement of the longest key that is a prefix of
    the chunk, with the key's length; nothing if that length is not a character boundary of the chunk
    or the value points outside the replacement table. -/
def transform (m : CharsMap) (chunk : Bytes) : Option (Nat × Bytes) :=
  match (m.prefix chunk).getLast? with
  | none => none
  | some (len, start) =>
    if !isBoundary chunk len then none
    else
      let stop := scanNul m.normalized start
      if start ≤ stop ∧ stop ≤ m.normalized.length then some (len, slice m.normalized start stop) else none

/-- The `while let Some(c) = rest.chars().next()` loop over one grapheme: replace the longest key at
    the current position, otherwise keep one character. `fuel` bounds the iterations (each consumes
    at least one byte). -/
def normalizeRest (m : CharsMap) : (fuel : Nat) → Bytes → Bytes
  | 0, _ => []
  | _, [] => []
  | fuel + 1, b :: t =>
    let rest := b :: t
    match m.transform rest with
    | some (len, t') => encodeChars (chars t') ++ normalizeRest m fuel (rest.drop len)
    | none =>
      let r := decodeOne rest
      encodeChar (r.1.getD REPLACEMENT) ++ normalizeRest m fuel (rest.drop r.2)

def normalizeGrapheme (m : CharsMap) (g : Bytes) : Bytes := normalizeRest m (g.length + 1) g

/-- `CharsMap::normalize` given the grapheme boundaries of the text (external: bstr segmentation). -/
def normalize (m : CharsMap) (text : Bytes) (graphemes : List (Nat × Nat)) : Bytes :=
  graphemes.flatMap fun (s, e) => normalizeGrapheme m (slice text s e)

/-- `transform`/`normalize` before the F16 repair: the *shortest* prefix key replaced the whole
    grapheme (when shorter than `limit` bytes), otherwise characters were looked up one by one. -/
def transformOld (m : CharsMap) (chunk : Bytes) : Option Bytes :=
  match m.prefix chunk with
  | [] => none
  | (_, start) :: _ =>
    let stop := scanNul m.normalized start
    if start ≤ stop ∧ stop ≤ m.normalized.length then some (slice m.normalized start stop) else none

def normalizeCharsOld (m : CharsMap) : List (Nat × Nat × Char) → Bytes → Bytes
  | [], _ => []
  | (s, _, c) :: rest, g =>
    (match transformOld m (slice g s (s + c.utf8Size)) with
      | some t => encodeChars (chars t)
      | none => encodeChar c) ++ normalizeCharsOld m rest g

def normalizeOld (m : CharsMap) (limit : Nat) (text : Bytes) (graphemes : List (Nat × Nat)) : Bytes :=
  graphemes.flatMap fun (s, e) =>
    let g := slice text s e
    match (if g.length < limit then transformOld m g else none) with
    | some t => encodeChars (chars t)
    | none => normalizeCharsOld m (charIndices g) g

/-- Little-endian u32 from four bytes. -/
def le32 (a b c d : UInt8) : UInt32 :=
  a.toUInt32 ||| (b.toUInt32 <<< 8) ||| (c.toUInt32 <<< 16) ||| (d.toUInt32 <<< 24)

/-- `chunks_exact(4)` decoded as little-endian words (a trailing partial chunk is dropped). -/
def wordsLE : Bytes → List UInt32
  | a :: b :: c :: d :: rest => le32 a b c d :: wordsLE rest
  | _ => []

/-- `TryFrom<&[u8]> for CharsMap` after the F4 repair (`data[4..4 + size]`). -/
def load (data : Bytes) : Res CharsMap :=
  match data with
  | a :: b :: c :: d :: rest =>
    let size := (le32 a b c d).toNat
    if data.length < 4 + size then .err (.other "CharsMap data too short")
    else .ok { array := (wordsLE (rest.take size)).toArray, normalized := rest.drop size }
  | _ => .err (.other "CharsMap data too short")

/-- The loader before the repair: `data[4..size]` (panics when `size < 4`, drops the last unit). -/
def loadOld (data : Bytes) : Res CharsMap :=
  match data with
  | a :: b :: c :: d :: rest =>
    let size := (le32 a b c d).toNat
    if data.length < 4 + size then .err (.other "CharsMap data too short")
    else if size < 4 then .panic "charsmap: data[4..size]"
    else .ok { array := (wordsLE (rest.take (size - 4))).toArray, normalized := rest.drop size }
  | _ => .err (.other "CharsMap data too short")

/-- The SentencePiece blob layout: size (LE u32, in bytes), trie units (LE u32 each), replacement strings. -/
def wordLE (u : UInt32) : Bytes :=
  [u.toUInt8, (u >>> 8).toUInt8, (u >>> 16).toUInt8, (u >>> 24).toUInt8]

def toBlob (m : CharsMap) : Bytes :=
  wordLE (UInt32.ofNat (4 * m.array.size)) ++ m.array.toList.flatMap wordLE ++ m.normalized

end CharsMap
end Kitoken
