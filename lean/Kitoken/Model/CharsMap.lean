/-
  Model of src/charsmap.rs: the SentencePiece precompiled character map (double-array trie +
  NUL-separated replacement strings), its blob loader, common-prefix search and normalization.
  After the F4 (loader slice) and F14 (checked indexing) repairs.
-/
import Kitoken.Model.Utf8
namespace Kitoken

open Utf8

structure CharsMap where
  array : Array UInt32
  normalized : Bytes
  deriving Repr, DecidableEq, Inhabited

namespace CharsMap

/-- `UnitExt` for `u32` (64-bit `usize` arithmetic; no overflow is possible: 22 bits shifted by ≤ 8). -/
def unitValue (u : UInt32) : Nat := u.toNat % 2 ^ 31
def unitLabel (u : UInt32) : Nat := u.toNat &&& (2 ^ 31 ||| 0xFF)
def unitOffset (u : UInt32) : Nat := (u.toNat >>> 10) <<< ((u.toNat &&& 2 ^ 9) >>> 6)
def unitHasLeaf (u : UInt32) : Bool := (u.toNat >>> 8) &&& 1 == 1

/-- The loop of `prefix` over the key bytes; `posit` is the current trie position. -/
def prefixGo (m : CharsMap) : (key : Bytes) → (posit : Nat) → (acc : List Nat) → List Nat
  | [], _, acc => acc.reverse
  | c :: cs, posit, acc =>
    if c == 0 then acc.reverse
    else
      let posit := posit ^^^ c.toNat
      match m.array[posit]? with
      | none => acc.reverse
      | some unit =>
        if unitLabel unit != c.toNat then acc.reverse
        else
          let posit := posit ^^^ unitOffset unit
          if unitHasLeaf unit then
            match m.array[posit]? with
            | none => acc.reverse
            | some leaf => prefixGo m cs posit (unitValue leaf :: acc)
          else prefixGo m cs posit acc

/-- `CharsMap::prefix`: values of all keys that are prefixes of `key`, shortest first. -/
def «prefix» (m : CharsMap) (key : Bytes) : List Nat :=
  match m.array[0]? with
  | none => []
  | some unit => prefixGo m key (0 ^^^ unitOffset unit) []

/-- Index of the first NUL at or after `start` (or the length). -/
def scanNul (bs : Bytes) (start : Nat) : Nat :=
  start + ((bs.drop start).takeWhile (· != 0)).length

/-- `CharsMap::transform`: replacement of the first (shortest) matching prefix. -/
def transform (m : CharsMap) (chunk : Bytes) : Option Bytes :=
  match m.prefix chunk with
  | [] => none
  | start :: _ =>
    let stop := scanNul m.normalized start
    if start ≤ stop ∧ stop ≤ m.normalized.length then some (slice m.normalized start stop) else none

/-- Per-character part of `normalize` for one grapheme. -/
def normalizeChars (m : CharsMap) : List (Nat × Nat × Char) → Bytes → Bytes
  | [], _ => []
  | (s, _, c) :: rest, g =>
    let part := slice g s (s + c.utf8Size)
    (match m.transform part with
      | some t => encodeChars (chars t)
      | none => encodeChar c) ++ normalizeChars m rest g

def normalizeGrapheme (m : CharsMap) (limit : Nat) (g : Bytes) : Bytes :=
  match (if g.length < limit then m.transform g else none) with
  | some t => encodeChars (chars t)
  | none => normalizeChars m (charIndices g) g

/-- `CharsMap::normalize` given the grapheme boundaries of the text (external: bstr segmentation). -/
def normalize (m : CharsMap) (limit : Nat) (text : Bytes) (graphemes : List (Nat × Nat)) : Bytes :=
  graphemes.flatMap fun (s, e) => normalizeGrapheme m limit (slice text s e)

/-- Little-endian u32 from four bytes. -/
def le32 (a b c d : UInt8) : UInt32 :=
  a.toUInt32 ||| (b.toUInt32 <<< 8) ||| (c.toUInt32 <<< 16) ||| (d.toUInt32 <<< 24)

/-- `chunks_exact(4)` decoded as little-endian words (a trailing partial chunk is dropped). -/
def wordsLE : Bytes → List UInt32
  | a :: b :: c :: d :: rest => le32 a b c d :: wordsLE rest
  | _ => []

/-- `TryFrom<&[u8]> for CharsMap` after the F4 repair (`data[4..4 + size]`). -/
def load (data : Bytes) : Res CharsMap :=
  match data with
  | a :: b :: c :: d :: rest =>
    let size := (le32 a b c d).toNat
    if data.length < 4 + size then .err (.other "CharsMap data too short")
    else .ok { array := (wordsLE (rest.take size)).toArray, normalized := rest.drop size }
  | _ => .err (.other "CharsMap data too short")

/-- The loader before the repair: `data[4..size]` (panics when `size < 4`, drops the last unit). -/
def loadOld (data : Bytes) : Res CharsMap :=
  match data with
  | a :: b :: c :: d :: rest =>
    let size := (le32 a b c d).toNat
    if data.length < 4 + size then .err (.other "CharsMap data too short")
    else if size < 4 then .panic "charsmap: data[4..size]"
    else .ok { array := (wordsLE (rest.take (size - 4))).toArray, normalized := rest.drop size }
  | _ => .err (.other "CharsMap data too short")

/-- The SentencePiece blob layout: size (LE u32, in bytes), trie units (LE u32 each), replacement strings. -/
def wordLE (u : UInt32) : Bytes :=
  [u.toUInt8, (u >>> 8).toUInt8, (u >>> 16).toUInt8, (u >>> 24).toUInt8]

def toBlob (m : CharsMap) : Bytes :=
  wordLE (UInt32.ofNat (4 * m.array.size)) ++ m.array.toList.flatMap wordLE ++ m.normalized

end CharsMap
end Kitoken
