/-
  The vocabulary path of `convert_sentencepiece_model` (src/convert/sentencepiece.rs) after protobuf parsing
  (C15): special tokens from the trainer spec and from the pieces, byte pieces, duplicates, the order of the
  byte-pair and unigram vocabularies. Hash maps are lists whose iteration order is a parameter (`pv`, `ps`),
  keys inserted twice keep the last value.
-/
import Kitoken.Model.ConvertHf
namespace Kitoken.Convert

open Kitoken

inductive PieceType where
  | normal | unknown | control | userDefined | unused | byte
  deriving Repr, DecidableEq, Inhabited

/-- `ModelProto.pieces[i]`: text (optional in the protobuf), score bits, type. -/
structure Piece where
  text : Option Bytes
  score : UInt32
  type : PieceType
  deriving Repr, DecidableEq, Inhabited

/-- The fields of `TrainerSpec` the converter reads; ids are `i32` cast to `u32` (`-1` = disabled = `u32::MAX`). -/
structure Trainer where
  unkId : Id
  bosId : Id
  eosId : Id
  padId : Id
  unkPiece : Bytes
  bosPiece : Bytes
  eosPiece : Bytes
  padPiece : Bytes
  unkSurface : Bytes
  bpe : Bool
  deriving Repr, Inhabited

inductive SpError where
  | noText (index : Nat) | nanScore (index : Nat) | notBytePiece (index : Nat) | tooManyPieces
  deriving Repr, DecidableEq

def mkIdent (s : String) : Option Bytes := some s.toUTF8.toList

/-- The four specials of the trainer spec, in insertion order, keyed by their piece text. -/
def trainerSpecials (t : Trainer) : List (Bytes × SpecialDef) :=
  [(t.unkPiece, { id := t.unkId, bytes := t.unkSurface, kind := .unknown, ident := mkIdent "unk", score := f32OfNat 0, extract := false }),
   (t.bosPiece, { id := t.bosId, bytes := t.bosPiece, kind := .control, ident := mkIdent "bos", score := f32OfNat 0, extract := false }),
   (t.eosPiece, { id := t.eosId, bytes := t.eosPiece, kind := .control, ident := mkIdent "eos", score := f32OfNat 0, extract := false }),
   (t.padPiece, { id := t.padId, bytes := t.padPiece, kind := .control, ident := mkIdent "pad", score := f32OfNat 0, extract := false })]

/-- A vocabulary entry while the pieces are read: bytes -> (index, score, is a byte piece). -/
abbrev SpEntry := Bytes × (Nat × UInt32 × Bool)

structure SpState where
  specials : List (Bytes × SpecialDef)     -- insertions in order (a later one for the same key wins)
  vocab : List SpEntry                      -- insertions in order (a later one for the same key wins)
  unkId : Option Id

/-- Current value of a key in a list of insertions. -/
def lookupLast {β : Type} (l : List (Bytes × β)) (k : Bytes) : Option β :=
  (l.reverse.find? fun e => e.1 == k).map (·.2)

/-- One iteration of the loop over the pieces. -/
def spStep (st : SpState) (index : Nat) (p : Piece) : Except SpError SpState :=
  match p.text with
  | none => .error (.noText index)
  | some text =>
    if f32IsNaN p.score then .error (.nanScore index) else
    let bytes? : Option Bytes := if p.type == .byte then (parseBytePiece text).map fun b => [b] else some text
    match bytes? with
    | none => .error (.notBytePiece index)
    | some bytes =>
      let idx : Id := UInt32.ofNat index
      match p.type with
      | .unknown =>
        let sp : SpecialDef :=
          { id := idx, bytes := bytes, kind := .unknown, ident := mkIdent "unk", score := f32OfNat index, extract := false }
        if st.unkId.isSome && st.unkId != some idx then .ok st
        else if st.unkId.isNone then .ok { st with specials := st.specials ++ [(bytes, sp)], unkId := some idx }
        else .ok st
      | .unused => .ok st
      | .control | .userDefined =>
        let sp : SpecialDef :=
          { id := idx, bytes := bytes, kind := if p.type == .control then .control else .priority, ident := none,
            score := f32OfNat index, extract := false }
        .ok { st with specials := st.specials ++ [(bytes, sp)] }
      | _ =>
        match lookupLast st.vocab bytes with
        | some (_, _, existingByte) =>
          if p.type == .byte && !existingByte then .ok st
          else .ok { st with vocab := st.vocab ++ [(bytes, (index, p.score, p.type == .byte))] }
        | none => .ok { st with vocab := st.vocab ++ [(bytes, (index, p.score, p.type == .byte))] }

def spLoop : SpState → Nat → List Piece → Except SpError SpState
  | st, _, [] => .ok st
  | st, i, p :: ps =>
    match spStep st i p with
    | .error e => .error e
    | .ok st' => spLoop st' (i + 1) ps

/-- `special.score = 1.0 / (special.score + 1.0)` in `f32`. -/
def invScore (bits : UInt32) : UInt32 :=
  ((1.0 : Float32) / (Float32.ofBits bits + 1.0)).toBits

/-- Does the token have a split into two vocabulary entries (`create_merges`)? -/
def hasMerge (keys : List Bytes) (text : Bytes) : Bool :=
  (List.range' 1 (text.length - 1)).any fun k => keys.contains (text.take k) && keys.contains (text.drop k)

/-- Order of the byte-pair vocabulary: tokens that have a split first, by score descending then id; the others by id. -/
def spBpeLe (merge : Id → Option UInt32) (a b : Id × Bytes) : Bool :=
  match merge a.1, merge b.1 with
  | some x, some y => if f32Key x == f32Key y then a.1 ≤ b.1 else f32Key y < f32Key x
  | some _, none => true
  | none, some _ => false
  | none, none => a.1 ≤ b.1

/-- The vocabulary path: `trainer` is `none` when the model has no trainer spec (then the model is Unigram). -/
def convertSp (trainer : Option Trainer) (pieces : List Piece)
    (pv : List SpEntry → List SpEntry) (ps : List SpecialDef → List SpecialDef) : Except SpError HfOut :=
  if pieces.length > 4294967295 then .error .tooManyPieces else
  let st0 : SpState := match trainer with
    | some t => { specials := trainerSpecials t, vocab := [], unkId := some t.unkId }
    | none => { specials := [], vocab := [], unkId := none }
  match spLoop st0 0 pieces with
  | .error e => .error e
  | .ok st =>
    let specials := (ps ((lastWins st.specials).map fun e => { e.2 with score := invScore e.2.score })).mergeSort specialLe
    let entries := pv (lastWins st.vocab)
    if (trainer.map (·.bpe)).getD false then
      let keys := entries.map (·.1)
      let merge (id : Id) : Option UInt32 :=
        (entries.find? fun e => UInt32.ofNat e.2.1 == id && hasMerge keys e.1).map (·.2.2.1)
      .ok { vocab := (entries.map fun e => (UInt32.ofNat e.2.1, e.1)).mergeSort (spBpeLe merge), specials := specials }
    else
      let sorted := (entries.map fun e => ((e.1, e.2.1), e.2.2.1)).mergeSort uniLe
      .ok { vocab := sorted.map fun e => (UInt32.ofNat e.1.2, e.1.1), scores := sorted.map (·.2), specials := specials }

end Kitoken.Convert
