/-
  The postcard wire format as codec combinators (src/serialization.rs uses `postcard` with serde
  derives). Every codec carries a textual `shape` describing its layout (types, field and variant
  names in order); the translator regenerates the same description from the Rust source.
  Facts mirrored from postcard 1.1.3 (tied by correspondence): LEB128 varints for u32 / usize
  (decoder accepts non-canonical encodings up to the maximal byte count, the last byte bounded),
  bool and option tags must be 0 or 1, strings must be valid UTF-8, a char is a string of one
  character, enum variants are varint(u32) indices, f32 is 4 little-endian bytes.
-/
import Kitoken.Model.Utf8
namespace Kitoken

structure Codec (α : Type) where
  enc : α → Bytes
  dec : Bytes → Option (α × Bytes)
  shape : String

/-- The codec law: decoding what was encoded (followed by anything) gives the value back and leaves
    the rest untouched. The decoder may accept more than the encoder's image. -/
def Codec.Lawful (c : Codec α) : Prop := ∀ x r, c.dec (c.enc x ++ r) = some (x, r)

namespace Codec

/-! ### varints -/

/-- LEB128 encoding of a natural number. -/
def encVarint (n : Nat) : Bytes :=
  if h : n < 128 then [UInt8.ofNat n] else UInt8.ofNat (n % 128 + 128) :: encVarint (n / 128)
termination_by n
decreasing_by omega

/-- LEB128 decoding with postcard's limits: at most `maxBytes` bytes; the last permitted byte must
    not exceed `lastMax` (so that the value fits the type). Returns the value and the rest. -/
def decVarint (maxBytes lastMax : Nat) : (fuel : Nat) → (shift : Nat) → (acc : Nat) → Bytes → Option (Nat × Bytes)
  | 0, _, _, _ => none
  | _, _, _, [] => none
  | fuel + 1, shift, acc, b :: rest =>
    let isLast := fuel + 1 == 1        -- this is the `maxBytes`-th byte
    if b.toNat < 128 then
      if isLast && b.toNat > lastMax then none else some (acc + b.toNat * 2 ^ shift, rest)
    else
      if isLast then none
      else decVarint maxBytes lastMax fuel (shift + 7) (acc + (b.toNat - 128) * 2 ^ shift) rest

def varU32 : Codec Nat where
  enc := encVarint
  dec := fun bs => decVarint 5 15 5 0 0 bs
  shape := "u32"

def varUsize : Codec Nat where
  enc := encVarint
  dec := fun bs => decVarint 10 1 10 0 0 bs
  shape := "usize"

/-- `u32` values as `UInt32`. -/
def u32 : Codec UInt32 where
  enc := fun x => encVarint x.toNat
  dec := fun bs => (decVarint 5 15 5 0 0 bs).map fun (n, r) => (UInt32.ofNat n, r)
  shape := "u32"

/-! ### fixed-size scalars -/

def bool : Codec Bool where
  enc := fun b => [if b then 1 else 0]
  dec := fun
    | 0 :: r => some (false, r)
    | 1 :: r => some (true, r)
    | _ => none
  shape := "bool"

/-- `f32` by its bit pattern: 4 little-endian bytes. -/
def f32bits : Codec UInt32 where
  enc := fun u => [u.toUInt8, (u >>> 8).toUInt8, (u >>> 16).toUInt8, (u >>> 24).toUInt8]
  dec := fun
    | a :: b :: c :: d :: r =>
      some (a.toUInt32 ||| (b.toUInt32 <<< 8) ||| (c.toUInt32 <<< 16) ||| (d.toUInt32 <<< 24), r)
    | _ => none
  shape := "f32"

/-! ### sequences -/

def takeN : Nat → Bytes → Option (Bytes × Bytes)
  | 0, r => some ([], r)
  | _ + 1, [] => none
  | n + 1, b :: r => (takeN n r).map fun (x, y) => (b :: x, y)

/-- `Vec<u8>` / byte strings: length then raw bytes. -/
def bytes : Codec Bytes where
  enc := fun b => encVarint b.length ++ b
  dec := fun bs => do
    let (n, r) ← decVarint 10 1 10 0 0 bs
    takeN n r
  shape := "bytes"

/-- `String`: length, then bytes that must be valid UTF-8. -/
def str : Codec Bytes where
  enc := fun b => encVarint b.length ++ b
  dec := fun bs => do
    let (n, r) ← decVarint 10 1 10 0 0 bs
    let (s, r') ← takeN n r
    if validUtf8 s then some (s, r') else none
  shape := "str"

/-- `char`: serialized as a string holding the character; the decoder (postcard `deserialize_char`)
    accepts any valid UTF-8 string of at most 4 bytes and takes its first character. -/
def char : Codec Char where
  enc := fun c => encVarint (Utf8.encodeChar c).length ++ Utf8.encodeChar c
  dec := fun bs => do
    let (n, r) ← decVarint 10 1 10 0 0 bs
    if n > 4 then none else
    let (s, r') ← takeN n r
    if !validUtf8 s then none else
    match Utf8.decodeOne s with
    | (some c, _) => some (c, r')
    | _ => none
  shape := "char"

def decList (d : Bytes → Option (α × Bytes)) : Nat → Bytes → Option (List α × Bytes)
  | 0, r => some ([], r)
  | n + 1, r => do
    let (x, r₁) ← d r
    let (xs, r₂) ← decList d n r₁
    pure (x :: xs, r₂)

/-- `Vec<T>`: length then the elements. -/
def seq (c : Codec α) : Codec (List α) where
  enc := fun l => encVarint l.length ++ l.flatMap c.enc
  dec := fun bs => do
    let (n, r) ← decVarint 10 1 10 0 0 bs
    -- postcard does not pre-allocate `n`; a length larger than what follows fails on the first missing element
    decList c.dec n r
  shape := "seq(" ++ c.shape ++ ")"

/-- `Option<T>`: tag 0, or tag 1 followed by the value. -/
def option (c : Codec α) : Codec (Option α) where
  enc := fun
    | none => [0]
    | some x => 1 :: c.enc x
  dec := fun
    | 0 :: r => some (none, r)
    | 1 :: r => (c.dec r).map fun (x, r') => (some x, r')
    | _ => none
  shape := "opt(" ++ c.shape ++ ")"

/-! ### products, sums, renaming -/

/-- Two consecutive values (struct fields / tuple elements are simply concatenated). -/
def pair (a : Codec α) (b : Codec β) : Codec (α × β) where
  enc := fun (x, y) => a.enc x ++ b.enc y
  dec := fun bs => do
    let (x, r) ← a.dec bs
    let (y, r') ← b.dec r
    pure ((x, y), r')
  shape := a.shape ++ "," ++ b.shape

def unit : Codec Unit where
  enc := fun _ => []
  dec := fun r => some ((), r)
  shape := ""

/-- Transport along a bijection given by two functions (`back (to x) = x` is what lawfulness needs). -/
def iso (c : Codec α) (to : α → β) (back : β → α) : Codec β where
  enc := fun y => c.enc (back y)
  dec := fun bs => (c.dec bs).map fun (x, r) => (to x, r)
  shape := c.shape

/-- Names a field: `name:shape`. -/
def field (name : String) (c : Codec α) : Codec α := { c with shape := name ++ ":" ++ c.shape }

/-- Wraps the fields of a struct: `struct Name{…}`. -/
def struct (name : String) (c : Codec α) : Codec α := { c with shape := "struct " ++ name ++ "{" ++ c.shape ++ "}" }

/-- A two-element tuple `(A, B)`. -/
def tuple (c : Codec α) : Codec α := { c with shape := "tuple(" ++ c.shape ++ ")" }

/-- An enum: the variant index as varint(u32), then the variant's fields. `tagOf` picks the index,
    `encV` / `decV` handle the payload per index; `shapes` lists the variants in order. -/
def enum (name : String) (shapes : List String) (tagOf : α → Nat) (encV : α → Bytes)
    (decV : Nat → Bytes → Option (α × Bytes)) : Codec α where
  enc := fun x => encVarint (tagOf x) ++ encV x
  dec := fun bs => do
    let (t, r) ← decVarint 5 15 5 0 0 bs
    decV t r
  shape := "enum " ++ name ++ "{" ++ ",".intercalate shapes ++ "}"

end Codec
end Kitoken
