/-
  The Tiktoken loader from raw bytes (C15, C17): line splitting, base64 (standard alphabet, canonical
  padding required, no trailing bits — `general_purpose::PAD`), decimal ids, then `convertTiktoken`.
-/
import Kitoken.Model.Convert
namespace Kitoken.Convert

open Kitoken

/-! ### lines -/

/-- `data.split(|u| *u == b'\n')`. -/
def splitOn (sep : UInt8) : Bytes → List Bytes
  | [] => [[]]
  | b :: rest =>
    if b == sep then [] :: splitOn sep rest
    else match splitOn sep rest with
      | l :: ls => (b :: l) :: ls
      | [] => [[b]]

/-- `trim_with(|u| u == '\r')`: carriage returns off both ends. -/
def trimCR (l : Bytes) : Bytes :=
  ((l.dropWhile (· == 13)).reverse.dropWhile (· == 13)).reverse

def lines (data : Bytes) : List Bytes :=
  ((splitOn 10 data).map trimCR).filter (!·.isEmpty)

/-- `split_once_str(" ")`: at the first space. -/
def splitOnceSpace : Bytes → Option (Bytes × Bytes)
  | [] => none
  | b :: rest =>
    if b == 32 then some ([], rest)
    else (splitOnceSpace rest).map fun (l, r) => (b :: l, r)

/-! ### base64 -/

def b64Val (c : UInt8) : Option Nat :=
  if 65 ≤ c && c ≤ 90 then some (c.toNat - 65)
  else if 97 ≤ c && c ≤ 122 then some (c.toNat - 71)
  else if 48 ≤ c && c ≤ 57 then some (c.toNat + 4)
  else if c == 43 then some 62
  else if c == 47 then some 63
  else none

def b64Char (n : Nat) : UInt8 :=
  if n < 26 then UInt8.ofNat (65 + n)
  else if n < 52 then UInt8.ofNat (71 + n)
  else if n < 62 then UInt8.ofNat (n - 4)
  else if n = 62 then 43 else 47

/-- Standard base64 with canonical padding required and no trailing bits allowed. -/
def base64Decode : Bytes → Option Bytes
  | [] => some []
  | [a, b, 61, 61] =>
    match b64Val a, b64Val b with
    | some x, some y => if y % 16 == 0 then some [UInt8.ofNat (x * 4 + y / 16)] else none
    | _, _ => none
  | [a, b, c, 61] =>
    match b64Val a, b64Val b, b64Val c with
    | some x, some y, some z =>
      if z % 4 == 0 then some [UInt8.ofNat (x * 4 + y / 16), UInt8.ofNat (y % 16 * 16 + z / 4)] else none
    | _, _, _ => none
  | a :: b :: c :: d :: rest =>
    match b64Val a, b64Val b, b64Val c, b64Val d, base64Decode rest with
    | some x, some y, some z, some w, some tail =>
      some (UInt8.ofNat (x * 4 + y / 16) :: UInt8.ofNat (y % 16 * 16 + z / 4) :: UInt8.ofNat (z % 4 * 64 + w) :: tail)
    | _, _, _, _, _ => none
  | _ => none

def base64Encode : Bytes → Bytes
  | [] => []
  | [a] => [b64Char (a.toNat / 4), b64Char (a.toNat % 4 * 16), 61, 61]
  | [a, b] => [b64Char (a.toNat / 4), b64Char (a.toNat % 4 * 16 + b.toNat / 16), b64Char (b.toNat % 16 * 4), 61]
  | a :: b :: c :: rest =>
    b64Char (a.toNat / 4) :: b64Char (a.toNat % 4 * 16 + b.toNat / 16) :: b64Char (b.toNat % 16 * 4 + c.toNat / 64) ::
      b64Char (c.toNat % 64) :: base64Encode rest

/-! ### decimal ids -/

def digitsVal : Bytes → Nat → Option Nat
  | [], acc => some acc
  | c :: rest, acc => if 48 ≤ c && c ≤ 57 then digitsVal rest (acc * 10 + (c.toNat - 48)) else none

/-- `str::parse::<u32>()`: an optional `+`, at least one digit, no overflow. -/
def parseU32 (s : Bytes) : Option UInt32 :=
  let ds := match s with | 43 :: rest => rest | _ => s
  if ds.isEmpty then none
  else match digitsVal ds 0 with
    | some n => if n < 4294967296 then some (UInt32.ofNat n) else none
    | none => none

/-! ### the loader -/

def parseLine (l : Bytes) : Option (Bytes × Id) :=
  match splitOnceSpace l with
  | none => none
  | some (tok, num) =>
    match base64Decode tok, (if validUtf8 num then parseU32 num else none) with
    | some b, some i => some (b, i)
    | _, _ => none

def parseTiktoken (data : Bytes) : Option (List (Bytes × Id)) := (lines data).mapM parseLine

/-- `convert_tiktoken` from raw bytes (the split regex is a constant of the converter and always compiles). -/
def loadTiktoken (data : Bytes) : Option ConvOut := (parseTiktoken data).map convertTiktoken

/-- The canonical text of a vocabulary: one `base64 SP decimal LF` line per entry. -/
def natDigits (n : Nat) : Bytes := (Nat.toDigits 10 n).map fun c => UInt8.ofNat c.toNat

def renderLine (e : Bytes × Id) : Bytes := base64Encode e.1 ++ [32] ++ natDigits e.2.toNat ++ [10]

def renderTiktoken (entries : List (Bytes × Id)) : Bytes := entries.flatMap renderLine

end Kitoken.Convert
