/-
  Model of tokenizer construction: `Kitoken::new`, `BytePair::new`, `Unigram::new`, `WordPiece::new`,
  `Decoder::new` (after the F8 repair). Hash maps are `Std.HashMap`; later insertions overwrite
  earlier ones, as `collect()` into a hashbrown map does.
-/
import Std.Data.HashMap
import Kitoken.Model.Pipeline
namespace Kitoken

open Std

/-- Template positions in the order of `InsertionPosition` (serde variant order). -/
inductive InsertionPosition where
  | wordStart | wordContinuation | wordEnd | sequenceStart | sequenceContinuation | sequenceEnd
  | subSequenceStart | subSequenceContinuation | subSequenceEnd
  deriving Repr, DecidableEq, Inhabited

structure Template where
  content : Bytes
  position : InsertionPosition
  deriving Repr, DecidableEq, Inhabited

/-- `Model` of a definition; scores travel as their `f32` bit patterns. -/
inductive ModelDef where
  | bytePair (vocab : List (Id × Bytes)) (chars : Bool)
  | unigram (vocab : List (Id × Bytes)) (scores : List UInt32)
  | wordPiece (vocab : List (Id × Bytes)) (maxWordChars : Nat)
  deriving Repr, Inhabited

/-- Special token as stored in a definition (all six fields). -/
structure SpecialDef where
  id : Id
  bytes : Bytes
  kind : SpecialKind
  ident : Option Bytes
  score : UInt32
  extract : Bool
  deriving Repr, DecidableEq, Inhabited

structure ConfigDef where
  fallback : List Fallback
  normalization : List Normalization
  split : List Split
  processing : List Processing
  decoding : List Decoding
  templates : List Template
  deriving Inhabited

/-- `Metadata` (strings as UTF-8 bytes). -/
structure Metadata where
  version : Bytes
  source : Bytes
  entries : List (Bytes × Bytes)
  deriving Repr, DecidableEq, Inhabited

structure Definition where
  metadata : Metadata := ⟨[], [], []⟩
  model : ModelDef
  specials : List SpecialDef
  config : ConfigDef
  deriving Inhabited

inductive InitError where
  | invalidScores | invalidEncoder | invalidSpecialEncoder | invalidUtf8 | invalidRegex
  deriving Repr, DecidableEq, Inhabited

def ModelDef.vocab : ModelDef → List (Id × Bytes)
  | .bytePair v _ => v
  | .unigram v _ => v
  | .wordPiece v _ => v

def maxLen (ks : List Bytes) : Nat := max ((ks.map List.length).foldl max 0) 1
def minLen (ks : List Bytes) : Nat :=
  match ks with
  | [] => 1
  | k :: rest => max (rest.foldl (fun m x => min m x.length) k.length) 1

def firstTemplate (ts : List Template) (p : InsertionPosition) : Option Bytes :=
  (ts.find? (·.position == p)).map (·.content)

def unknownOf (specials : List SpecialDef) : Option Id :=
  (specials.find? (·.kind == .unknown)).map (·.id)

/-- `Decoder::new`. -/
def mkDecoder (vocab : List (Id × Bytes)) (specials : List SpecialDef) (cfg : ConfigDef) : DecCtx :=
  let vm : HashMap Id Bytes := vocab.foldl (fun m (i, b) => m.insert i b) {}
  let sm : HashMap Id (Bytes × Bool) := specials.foldl (fun m s => m.insert s.id (s.bytes, s.kind == .control)) {}
  { vocab := fun i => vm[i]?, special := fun i => sm[i]?,
    subwordPrefix := (firstTemplate cfg.templates .wordContinuation).getD [] }

def f32ToFloat (bits : UInt32) : Float := (Float32.ofBits bits).toFloat

/-- The cost type of the real code: an `f64` score with the `broken` flag. -/
abbrev Score := Tainted Float

instance : Cost Float where
  zero := 0.0
  big := Float.ofNat Generated.UNIGRAM_SENTINEL
  sub := fun a b => a - b
  le := fun a b => a ≤ b

/-- Is this `f32` bit pattern a NaN? -/
def f32IsNaN (bits : UInt32) : Bool :=
  bits.toNat % 2 ^ 31 > 0x7F800000

/-- The encoder part of `Kitoken::new`. -/
def mkEncoder (d : Definition) : Except InitError (EncoderModel Score) :=
  let unknown := unknownOf d.specials
  match d.model with
  | .bytePair vocab chars =>
    let ranks : HashMap Bytes Nat := (vocab.zipIdx).foldl (fun m ((_, b), i) => m.insert b i) {}
    let vm : HashMap Bytes Id := vocab.foldl (fun m (i, b) => m.insert b i) {}
    if vocab.length != vm.size then .error .invalidEncoder
    else
      let keys := vm.keys
      .ok (.bpe { tok := fun b => vm[b]?, rank := fun b => ranks[b]?, unknown := unknown,
                  eow := firstTemplate d.config.templates .wordEnd, chars := chars,
                  fallback := d.config.fallback, maxTok := maxLen keys, minTok := minLen keys })
  | .unigram vocab scores =>
    -- a NaN score is rejected (F27 repair: the export sorts by score with `partial_cmp(..).unwrap()`)
    if vocab.length != scores.length || scores.any f32IsNaN then .error .invalidScores
    else
      let vm : HashMap Bytes (Id × Score) :=
        (vocab.zip scores).foldl (fun m ((i, b), s) => m.insert b (i, ⟨false, f32ToFloat s⟩)) {}
      if vocab.length != vm.size then .error .invalidEncoder
      else
        let keys := vm.keys
        .ok (.unigram { tok := fun b => vm[b]?, unknown := unknown, fallback := d.config.fallback,
                        maxTok := maxLen keys, minTok := minLen keys })
  | .wordPiece vocab maxWordChars =>
    let pre := firstTemplate d.config.templates .wordContinuation
    let startL : List (Id × Bytes) :=
      match pre with
      | some p => vocab.filter (fun x => !startsWith x.2 p)
      | none => vocab
    let contL : List (Id × Bytes) :=
      match pre with
      | some p => (vocab.filter (fun x => startsWith x.2 p)).map fun x => (x.1, x.2.drop p.length)
      | none => []
    let sm : HashMap Bytes Id := startL.foldl (fun m (i, b) => m.insert b i) {}
    let cm : HashMap Bytes Id := contL.foldl (fun m (i, b) => m.insert b i) {}
    let keys := sm.keys
    .ok (.wordpiece { start := fun b => sm[b]?, cont := fun b => cm[b]?, unknown := unknown,
                      fallback := d.config.fallback, maxWordChars := maxWordChars,
                      maxTok := maxLen keys, minTok := minLen keys })

/-- `Kitoken::new` (regex compilation of configured patterns is external and not modelled here:
    definitions reaching the driver were already accepted by the real constructor or are reported
    by it as `InvalidRegex`). Order of checks as in the code: special texts must be UTF-8 (both
    regexes), then the encoder, then duplicate special texts. -/
def Tokenizer.new (d : Definition) : Except InitError (Tokenizer Score) :=
  if !(d.specials.all fun s => validUtf8 s.bytes) then .error .invalidUtf8
  else
    match mkEncoder d with
    | .error e => .error e
    | .ok enc =>
      let byBytes : HashMap Bytes Unit := d.specials.foldl (fun m s => m.insert s.bytes ()) {}
      if d.specials.length != byBytes.size then .error .invalidSpecialEncoder
      else
        .ok { encoder := enc
              dec := mkDecoder d.model.vocab d.specials d.config
              specials := d.specials.map fun s => { id := s.id, bytes := s.bytes, kind := s.kind, extract := s.extract }
              config := { normalization := d.config.normalization, split := d.config.split,
                          processing := d.config.processing, decoding := d.config.decoding } }

end Kitoken
