/-
  Model of src/encoder/unigram.rs after the F5/F8/F13 repairs: Viterbi over character boundaries on a
  shared scratch buffer, back-walk, reversal, fallback recursion. Generic over the cost type so that
  the optimality theorem does not depend on floating point.
-/
import Kitoken.Model.Utf8
import Kitoken.Generated.Consts
namespace Kitoken

open Utf8

/-- Cost arithmetic used by `merge_parts` (`f64` in the code). -/
class Cost (S : Type) where
  zero : S                 -- 0.0
  big : S                  -- the 1000000.0 restart value
  sub : S → S → S          -- buffer[sub_start].score - token.score as f64
  le : S → S → Bool        -- score <= buffer[sub_end].score

/-- A cost together with the flag `broken` of `SizedPart` (the F13 repair): whether the path crosses a
    position that no vocabulary entry reaches. The code compares `(broken, score)` lexicographically;
    the restart value of an unreachable position is `(true, 1000000.0)`. -/
structure Tainted (S : Type) where
  broken : Bool
  val : S
  deriving Repr, Inhabited

instance {S : Type} [Cost S] : Cost (Tainted S) where
  zero := ⟨false, Cost.zero⟩
  big := ⟨true, Cost.big⟩
  -- `buffer[sub_start].score - token.score`, `broken` copied from the predecessor
  sub a b := ⟨a.broken, Cost.sub a.val b.val⟩
  -- `(broken, score) <= (buffer[sub_end].broken, buffer[sub_end].score)` on tuples
  le a b := (!a.broken && b.broken) || (a.broken == b.broken && Cost.le a.val b.val)

structure SizedPart (S : Type) where
  start : Nat
  width : Nat
  score : S
  token : Id

structure UniCtx (S : Type) where
  tok : Bytes → Option (Id × S)
  unknown : Option Id
  fallback : List Fallback
  maxTok : Nat
  minTok : Nat

namespace Unigram

variable {S : Type} [Cost S] [Inhabited S]

instance : Inhabited (SizedPart S) := ⟨⟨0, 1, Cost.zero, INVALID⟩⟩

/-- Inner loop of `merge_parts`: `for sub_start in (start..sub_end).rev()`; `k` counts down from
    `sub_end - 1` to `start`, `cur` is `buffer[sub_end]` being updated. -/
def innerLoop (c : UniCtx S) (piece : Bytes) (buffer : List (SizedPart S)) (start subEnd : Nat)
    (endStart : Nat) : (n : Nat) → SizedPart S → SizedPart S
  | 0, cur => cur
  | n + 1, cur =>
    -- sub_start = start + n  (n + 1 candidates remain: start + n, …, start)
    let subStart := start + n
    let ps := buffer.getD subStart default
    if endStart - ps.start > c.maxTok then cur
    else
      match c.tok (slice piece ps.start endStart) with
      | some (id, tokScore) =>
        let score := Cost.sub ps.score tokScore
        if cur.token == INVALID || Cost.le score cur.score then
          innerLoop c piece buffer start subEnd endStart n
            { cur with score := score, width := subEnd - subStart, token := id }
        else innerLoop c piece buffer start subEnd endStart n cur
      | none => innerLoop c piece buffer start subEnd endStart n cur

/-- Outer loop of `merge_parts`: `for sub_end in start + 1..end`. -/
def outerLoop (c : UniCtx S) (piece : Bytes) (start : Nat) :
    (subEnds : List Nat) → List (SizedPart S) → List (SizedPart S)
  | [], buffer => buffer
  | subEnd :: rest, buffer =>
    let cur := { (buffer.getD subEnd default) with score := Cost.big }
    let cur := innerLoop c piece buffer start subEnd cur.start (subEnd - start) cur
    outerLoop c piece start rest (buffer.set subEnd cur)

/-- `merge_parts(piece, buffer, vocab, start, max_token_bytes)`. -/
def mergeParts (c : UniCtx S) (piece : Bytes) (buffer : List (SizedPart S)) (start : Nat) : List (SizedPart S) :=
  outerLoop c piece start (List.range' (start + 1) (buffer.length - (start + 1))) buffer

abbrev Scratch (S : Type) := List (SizedPart S) × List Id

abbrev UniFn (S : Type) := Bytes → List (SizedPart S) → List Id → List Nat → Res (Scratch S)

/-- Back-walk `while sub_end > start`; tokens are appended in reverse text order. -/
def backWalk (c : UniCtx S) (fb : List Fallback) (byteRec : Option (UniFn S)) (piece : Bytes)
    (start : Nat) : (fuel : Nat) → (subEnd : Nat) → List (SizedPart S) → List Id → Res (Scratch S)
  | 0, _, buffer, result => .ok (buffer, result)
  | fuel + 1, subEnd, buffer, result =>
    if subEnd > start then
      let node := buffer.getD subEnd default
      if node.token == INVALID then
        let part := slice piece (buffer.getD (subEnd - 1) default).start node.start
        let r : Res (Scratch S) :=
          match byteRec with
          | some rec =>
            match rec part buffer result (List.range part.length) with
            | .ok (buffer', result') =>
              -- result[inner_start..].reverse()
              .ok (buffer', result'.take result.length ++ (result'.drop result.length).reverse)
            | other => other
          | none =>
            match fb.head?, c.unknown with
            | some .unknown, some u => .ok (buffer, result ++ [u])
            | some .skip, _ => .ok (buffer, result)
            | _, _ => .err (.invalidPiece part)
        match r with
        | .ok (buffer', result') =>
          if node.width > subEnd then .panic "encode_unigram: sub_end -= width"
          else backWalk c fb byteRec piece start fuel (subEnd - node.width) buffer' result'
        | other => other
      else
        if node.width > subEnd then .panic "encode_unigram: sub_end -= width"
        else backWalk c fb byteRec piece start fuel (subEnd - node.width) buffer (result ++ [node.token])
    else .ok (buffer, result)

def encodeUnigramBody (c : UniCtx S) (fb : List Fallback) (byteRec : Option (UniFn S)) : UniFn S :=
  fun piece buffer result indices =>
    let start := buffer.length
    let fresh : Nat → SizedPart S := fun i => { start := i, width := 1, score := Cost.zero, token := INVALID }
    let buffer := buffer ++ indices.map fresh ++ [fresh piece.length]
    let buffer := mergeParts c piece buffer start
    let subEnd := buffer.length - 1
    match backWalk c fb byteRec piece start (subEnd - start + 1) subEnd buffer result with
    | .ok (buffer', result') =>
      -- result[result_start..].reverse()
      .ok (buffer', result'.take result.length ++ (result'.drop result.length).reverse)
    | other => other

/-- `encode_unigram`: fallback list consumed head-first by the byte-level recursion. -/
def encodeUnigram (c : UniCtx S) : List Fallback → UniFn S
  | [] => encodeUnigramBody c [] none
  | .bytes :: tail => encodeUnigramBody c (.bytes :: tail) (some (encodeUnigram c tail))
  | .unknown :: tail => encodeUnigramBody c (.unknown :: tail) none
  | .skip :: tail => encodeUnigramBody c (.skip :: tail) none

/-- `encode_chars`: the scratch buffer is cleared after every part. -/
def encodeParts (c : UniCtx S) : List TextPart → List Id → Res (List Id)
  | [], result => .ok result
  | p :: ps, result =>
    if p.special != INVALID then encodeParts c ps (result ++ [p.special])
    else
      match encodeUnigram c c.fallback p.text [] result (charStarts p.text) with
      | .ok (_, result') => encodeParts c ps result'
      | .err e => .err e
      | .panic t => .panic t

def encode (c : UniCtx S) (parts : List TextPart) : Res (List Id) := encodeParts c parts []

end Unigram
end Kitoken
