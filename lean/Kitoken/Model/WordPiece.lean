/-
  Model of src/encoder/wordpiece.rs (after the F8 repair): greedy longest-match-first over
  character boundaries with whole-word rollback.
-/
import Kitoken.Model.Utf8
namespace Kitoken

open Utf8

structure WpCtx where
  start : Bytes → Option Id            -- word-initial entries
  cont : Bytes → Option Id             -- continuation entries, stored without the prefix
  unknown : Option Id
  fallback : List Fallback
  maxWordChars : Nat
  maxTok : Nat
  minTok : Nat

namespace WordPiece

/-- What a failing word yields: `[unknown]`, nothing, or the error with `payload`
    (`fallback.peek()`: only the head of the list is consulted; `Bytes` is not supported here). -/
def failWord (c : WpCtx) (payload : Bytes) : Res (List Id) :=
  match c.fallback.head?, c.unknown with
  | some .unknown, some u => .ok [u]
  | some .skip, _ => .ok []
  | _, _ => .err (.invalidPiece payload)

/-- Candidate ends tried at one position, in the order of the code's `inner` iterator:
    the end of the text, the ends of the remaining characters from last to first, the end of the
    current character. -/
def candidateEnds (len : Nat) (curEnd : Nat) (remaining : List (Nat × Nat)) : List Nat :=
  len :: (remaining.map (·.2)).reverse ++ [curEnd]

/-- First candidate end whose slice is in the map. -/
def firstMatch (lookup : Bytes → Option Id) (bytes : Bytes) (start : Nat) : List Nat → Option (Id × Nat)
  | [] => none
  | e :: es =>
    match lookup (slice bytes start e) with
    | some t => some (t, e)
    | none => firstMatch lookup bytes start es

/-- `merge_parts`: `indices` are the remaining `(start, end)` character spans; `acc` the tokens of
    this word so far (the code pushes to `result` and truncates to `init` on failure). -/
def mergeParts (c : WpCtx) (bytes : Bytes) : (indices : List (Nat × Nat)) → (first : Bool) → (upto : Nat) →
    (acc : List Id) → Res (List Id)
  | [], _, _, acc => .ok acc
  | (s, e) :: rest, first, upto, acc =>
    if s < upto then mergeParts c bytes rest first upto acc
    else
      match firstMatch (if first then c.start else c.cont) bytes s (candidateEnds bytes.length e rest) with
      | some (t, e') =>
        if e' ≤ s then failWord c (bytes.drop s)     -- `until <= start`: no progress (empty match)
        else mergeParts c bytes rest false e' (acc ++ [t])
      | none => failWord c (bytes.drop s)

/-- `encode_wordpiece` for one word: the tokens to append to the result. -/
def encodeWord (c : WpCtx) (bytes : Bytes) : Res (List Id) :=
  let indices := (charIndices bytes).map fun (s, e, _) => (s, e)
  if bytes.length < c.minTok ∨ (c.maxWordChars > 0 ∧ indices.length > c.maxWordChars) then
    failWord c bytes
  else mergeParts c bytes indices true 0 []

def encodeParts (c : WpCtx) : List TextPart → List Id → Res (List Id)
  | [], result => .ok result
  | p :: ps, result =>
    if p.special != INVALID then encodeParts c ps (result ++ [p.special])
    else
      match encodeWord c p.text with
      | .ok ids => encodeParts c ps (result ++ ids)
      | .err e => .err e
      | .panic t => .panic t

def encode (c : WpCtx) (parts : List TextPart) : Res (List Id) := encodeParts c parts []

end WordPiece
end Kitoken
