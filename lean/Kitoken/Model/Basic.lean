/-
  Basic vocabulary of the kitoken model: bytes, ids, results with explicit panic outcomes.
  Core Lean only (no Mathlib, no Std) so that the driver links as a `lean_exe`.
-/
namespace Kitoken

abbrev Bytes := List UInt8
abbrev Id := UInt32

/-- `Token::INVALID` (src/vocab.rs). Re-checked against the source by `Generated/Consts.lean`. -/
def INVALID : Id := 0xFFFFFFFF

/-- Error values of the modelled API (payload kept where the property speaks about it). -/
inductive Err where
  | invalidPiece (b : Bytes)      -- EncodeError::InvalidPiece
  | invalidToken (i : Id)         -- DecodeError::InvalidToken
  | other (tag : String)          -- initialization / conversion / deserialization errors
  deriving Repr, DecidableEq, Inhabited

/-- Outcome of a modelled Rust function: value, error value, or panic (never a silent default). -/
inductive Res (α : Type) where
  | ok (a : α)
  | err (e : Err)
  | panic (tag : String)
  deriving Repr, Inhabited, DecidableEq

namespace Res

def isPanic : Res α → Bool
  | panic _ => true
  | _ => false

def isOk : Res α → Bool
  | ok _ => true
  | _ => false

@[inline] def bind (r : Res α) (f : α → Res β) : Res β :=
  match r with
  | ok a => f a
  | err e => err e
  | panic t => panic t

@[inline] def map (f : α → β) (r : Res α) : Res β :=
  match r with
  | ok a => ok (f a)
  | err e => err e
  | panic t => panic t

instance : Monad Res where
  pure := ok
  bind := bind

@[simp] theorem bind_ok (a : α) (f : α → Res β) : (ok a).bind f = f a := rfl
@[simp] theorem bind_err (e : Err) (f : α → Res β) : (err e : Res α).bind f = err e := rfl
@[simp] theorem bind_panic (t : String) (f : α → Res β) : (panic t : Res α).bind f = panic t := rfl

end Res

/-- Fallback entries (src/config.rs `Fallback`; order of constructors = serde variant order). -/
inductive Fallback where
  | skip | unknown | bytes
  deriving Repr, DecidableEq, Inhabited

/-- A part of the text handed to an encoder: `special = INVALID` means ordinary text. -/
structure TextPart where
  text : Bytes
  special : Id
  deriving Repr, DecidableEq, Inhabited

/-- Slice `l[a..b)` (Rust `&l[a..b]` when `a ≤ b ≤ len`; callers guard the bounds). -/
def slice (l : List α) (a b : Nat) : List α := (l.drop a).take (b - a)

@[simp] theorem slice_length_le (l : List α) (a b : Nat) : (slice l a b).length ≤ b - a := by
  simp [slice]; omega

theorem slice_length (l : List α) (a b : Nat) (h : b ≤ l.length) :
    (slice l a b).length = b - a := by
  simp [slice]; omega

end Kitoken
