/-
  Model of src/encoder/bytepair.rs after the F6/F7/F8 repairs: linear strategy with cached ranks on
  a shared scratch buffer (offset `start`), heap strategy (live nodes in text order; selection =
  minimum by (rank, start)), whole-piece shortcut, strategy switch, fallback recursion.
-/
import Kitoken.Model.Utf8
import Kitoken.Generated.Consts
namespace Kitoken

open Utf8

/-- `TokenRank::MAX`. -/
def MAXR : Nat := 0xFFFFFFFF

structure RankedPart where
  start : Nat
  rank : Nat
  deriving Repr, DecidableEq, Inhabited

structure BpeCtx where
  tok : Bytes → Option Id
  rank : Bytes → Option Nat
  unknown : Option Id
  eow : Option Bytes
  chars : Bool
  fallback : List Fallback
  maxTok : Nat
  minTok : Nat

namespace Bpe

def rankOf (c : BpeCtx) (b : Bytes) : Nat := (c.rank b).getD MAXR

/-- `get_rank(piece, parts, start, end, ranks)`. -/
def getRank (c : BpeCtx) (piece : Bytes) (parts : List RankedPart) (s e : Nat) : Nat :=
  if e < parts.length then
    rankOf c (slice piece (parts.getD s default).start (parts.getD e default).start)
  else MAXR

def setRank (parts : List RankedPart) (i r : Nat) : List RankedPart :=
  parts.set i { (parts.getD i default) with rank := r }

@[simp] theorem setRank_length (parts : List RankedPart) (i r : Nat) :
    (setRank parts i r).length = parts.length := by simp [setRank]

/-- Scan `j ∈ [from, stop)` for the leftmost strictly smallest rank, starting from `(m, i)`. -/
def scanMin (parts : List RankedPart) : (j stop m i : Nat) → Nat × Nat
  | j, stop, m, i =>
    if j < stop then
      let r := (parts.getD j default).rank
      if r < m then scanMin parts (j + 1) stop r j else scanMin parts (j + 1) stop m i
    else (m, i)
termination_by j stop _ _ => stop - j

/-- First loop of `merge_bpe_parts`: `parts[j].rank = get_rank(j, j + 2)` for `j ∈ [start, len - 1)`. -/
def initRanks (c : BpeCtx) (piece : Bytes) (parts : List RankedPart) : (j stop : Nat) → List RankedPart
  | j, stop =>
    if j < stop then initRanks c piece (setRank parts j (getRank c piece parts j (j + 2))) (j + 1) stop
    else parts
termination_by j stop => stop - j

/-- The `while min_score != MAX` loop. -/
def mergeLoop (c : BpeCtx) (piece : Bytes) (start : Nat) (parts : List RankedPart) (m i : Nat) :
    List RankedPart :=
  if h : m ≠ MAXR ∧ i + 1 < parts.length then -- (second conjunct always holds; kept for termination)
    let p₁ := if i > start then setRank parts (i - 1) (getRank c piece parts (i - 1) (i + 2)) else parts
    let p₂ := setRank p₁ i (getRank c piece p₁ i (i + 3))
    let p₃ := p₂.eraseIdx (i + 1)
    let (m', i') := scanMin p₃ start (p₃.length - 1) MAXR i
    mergeLoop c piece start p₃ m' i'
  else parts
termination_by parts.length
decreasing_by
  have h2 := h.2
  simp only [List.length_eraseIdx, setRank_length]
  split
  · simp only [setRank_length]; split <;> omega
  · omega

/-- `merge_bpe_parts(piece, parts, start, ranks)`. -/
def mergeBpeParts (c : BpeCtx) (piece : Bytes) (parts : List RankedPart) (start : Nat) : List RankedPart :=
  if parts.length ≤ start + 1 then parts
  else
    let p := initRanks c piece parts start (parts.length - 1)
    let (m, i) := scanMin p start (p.length - 1) MAXR start
    mergeLoop c piece start p m i

/-- What happens to a final segment that is not a vocabulary entry, apart from the byte-level
    recursion: `some ids` to append, or the error. -/
def fallbackNoBytes (c : BpeCtx) (fb : List Fallback) (seg : Bytes) : Res (List Id) :=
  match fb.head?, c.unknown with
  | some .unknown, some u => .ok [u]
  | some .skip, _ => .ok []
  | _, _ => .err (.invalidPiece seg)

abbrev Scratch := List RankedPart × List Id

/-- The type of `encode_pairs` once the context and fallback list are fixed:
    piece, buffer, result, unit start indices, suffixed. -/
abbrev PairsFn := Bytes → List RankedPart → List Id → List Nat → Bool → Res Scratch

/-- Emission loop `for i in start..end` of `encode_pairs`; `is` enumerates `start..end`, `stop = end`.
    `byteRec` is the byte-level re-encoding (present iff the head of the fallback list is `Bytes`). -/
def emitLinear (c : BpeCtx) (fb : List Fallback) (byteRec : Option PairsFn) (piece : Bytes)
    (suffixed : Bool) (stop : Nat) : (is : List Nat) → List RankedPart → List Id → Res Scratch
  | [], buffer, result => .ok (buffer, result)
  | i :: is, buffer, result =>
    let seg := slice piece (buffer.getD i default).start (buffer.getD (i + 1) default).start
    match c.tok seg with
    | some t => emitLinear c fb byteRec piece suffixed stop is buffer (result ++ [t])
    | none =>
      match byteRec with
      | some rec =>
        let suffixed' := suffixed && (i + 1 == stop)
        let eowLen := match c.eow with | some e => if suffixed' then e.length else 0 | none => 0
        if eowLen > seg.length then .panic "encode_pairs: piece.len() - end_of_word.len()"
        else
          match rec seg buffer result (List.range (seg.length - eowLen)) suffixed' with
          | .ok (buffer', result') => emitLinear c fb byteRec piece suffixed stop is buffer' result'
          | .err e => .err e
          | .panic p => .panic p
      | none =>
        match fallbackNoBytes c fb seg with
        | .ok ids => emitLinear c fb byteRec piece suffixed stop is buffer (result ++ ids)
        | .err e => .err e
        | .panic p => .panic p

/-- Body of `encode_pairs` for a given fallback list and byte-level recursion. -/
def encodePairsBody (c : BpeCtx) (fb : List Fallback) (byteRec : Option PairsFn) : PairsFn :=
  fun piece buffer result indices suffixed =>
    let start := buffer.length
    let buffer := buffer ++ indices.map (fun i => { start := i, rank := MAXR }) ++
      [{ start := piece.length, rank := MAXR }]
    let buffer := mergeBpeParts c piece buffer start
    let stop := buffer.length - 1
    emitLinear c fb byteRec piece suffixed stop (List.range' start (stop - start)) buffer result

/-- `encode_pairs(piece, buffer, result, indices, fallback, suffixed)`: the fallback list is consumed
    head-first; the byte-level recursion gets the tail, so the depth is bounded by its length. -/
def encodePairs (c : BpeCtx) : List Fallback → PairsFn
  | [] => encodePairsBody c [] none
  | .bytes :: tail => encodePairsBody c (.bytes :: tail) (some (encodePairs c tail))
  | .unknown :: tail => encodePairsBody c (.unknown :: tail) none
  | .skip :: tail => encodePairsBody c (.skip :: tail) none

/-! ### heap strategy -/

structure LinkedPart where
  start : Nat
  width : Nat
  rank : Nat
  deriving Repr, DecidableEq, Inhabited

/-- Initial heap contents from the units `(start, width)`: the last unit extends to the end of the
    piece; the rank of a node is that of the node joined with its successor's declared width. -/
def heapInit (c : BpeCtx) (piece : Bytes) : List (Nat × Nat) → List LinkedPart
  | [] => []
  | [(i, _)] => [{ start := i, width := piece.length - i, rank := MAXR }]
  | (i, w) :: (j, n) :: rest =>
    { start := i, width := w, rank := rankOf c (slice piece i (i + w + n)) } :: heapInit c piece ((j, n) :: rest)

/-- Index of the minimum by `(rank, start)` (`heap.peek()`); `none` on an empty heap. -/
def heapMin : List LinkedPart → Option Nat
  | [] => none
  | p :: ps =>
    let rec go (best : LinkedPart) (bi : Nat) : List LinkedPart → Nat → Nat
      | [], _ => bi
      | q :: qs, k =>
        if q.rank < best.rank ∨ (q.rank = best.rank ∧ q.start < best.start) then go q k qs (k + 1)
        else go best bi qs (k + 1)
    some (go p 0 ps 1)

/-- One iteration of `merge_bpe_parts_heap` at node index `k` (which has a successor). -/
def heapStep (c : BpeCtx) (piece : Bytes) (nodes : List LinkedPart) (k : Nat) : List LinkedPart :=
  let part := nodes.getD k default
  let next := nodes.getD (k + 1) default
  let nodes := nodes.eraseIdx (k + 1)
  let width := part.width + next.width
  let rank :=
    match nodes[k + 1]? with
    | some after => rankOf c (slice piece part.start (after.start + after.width))
    | none => MAXR
  let nodes :=
    if k > 0 then
      let prior := nodes.getD (k - 1) default
      nodes.set (k - 1) { prior with rank := rankOf c (slice piece prior.start (part.start + width)) }
    else nodes
  nodes.set k { part with width := width, rank := rank }

/-- `merge_bpe_parts_heap`. -/
def heapLoop (c : BpeCtx) (piece : Bytes) (nodes : List LinkedPart) : List LinkedPart :=
  if _h : nodes.length > 1 then
    match heapMin nodes with
    | none => nodes
    | some k =>
      if (nodes.getD k default).rank = MAXR ∨ ¬ (k + 1 < nodes.length) then nodes
      else heapLoop c piece (heapStep c piece nodes k)
  else nodes
termination_by nodes.length
decreasing_by
  simp only [heapStep, List.length_set]
  split <;> simp only [List.length_set, List.length_eraseIdx] <;> split <;> omega

/-- Emission loop of `encode_pairs_heap` (`while e <= prior`), nodes in text order. -/
def emitHeap (c : BpeCtx) (fb : List Fallback) (byteRec : Option PairsFn) (piece : Bytes)
    (suffixed : Bool) : List LinkedPart → List RankedPart → List Id → Res Scratch
  | [], buffer, result => .ok (buffer, result)
  | part :: rest, buffer, result =>
    let seg := slice piece part.start (part.start + part.width)
    match c.tok seg with
    | some t => emitHeap c fb byteRec piece suffixed rest buffer (result ++ [t])
    | none =>
      match byteRec with
      | some rec =>
        let suffixed' := suffixed && rest.isEmpty
        let eowLen := match c.eow with | some e => if suffixed' then e.length else 0 | none => 0
        if eowLen > seg.length then .panic "encode_pairs_heap: piece.len() - end_of_word.len()"
        else
          match rec seg buffer result (List.range (seg.length - eowLen)) suffixed' with
          | .ok (buffer', result') => emitHeap c fb byteRec piece suffixed rest buffer' result'
          | .err e => .err e
          | .panic p => .panic p
      | none =>
        match fallbackNoBytes c fb seg with
        | .ok ids => emitHeap c fb byteRec piece suffixed rest buffer (result ++ ids)
        | .err e => .err e
        | .panic p => .panic p

/-- `encode_pairs_heap(piece, buffer, result, indices, fallback, suffixed)`; the byte-level
    re-encoding uses the linear `encode_pairs` with the tail of the fallback list. -/
def encodePairsHeap (c : BpeCtx) (fb : List Fallback) (piece : Bytes) (buffer : List RankedPart)
    (result : List Id) (units : List (Nat × Nat)) (suffixed : Bool) : Res Scratch :=
  let nodes := heapLoop c piece (heapInit c piece units)
  let byteRec := match fb with | .bytes :: tail => some (encodePairs c tail) | _ => none
  emitHeap c fb byteRec piece suffixed nodes buffer result

/-! ### per-part drivers -/

def LIMIT : Nat := Generated.ENCODE_LINEAR_LIMIT

/-- The strategy switch (`len > ENCODE_LINEAR_LIMIT`; comparison and constant regenerated from the source). -/
def useHeap (n : Nat) : Bool :=
  if Generated.HEAP_IF_STRICTLY_GREATER then n > LIMIT else n ≥ LIMIT

def eowLen (c : BpeCtx) : Nat := match c.eow with | some e => e.length | none => 0

/-- The part of `encode_bytes` / `encode_chars` for one non-special part whose text already carries
    the end-of-word suffix. Returns the scratch buffer as the code leaves it. -/
def encodePart (c : BpeCtx) (part : Bytes) (buffer : List RankedPart) (result : List Id) : Res Scratch :=
  let shortcut := if part.length ≤ c.maxTok ∧ part.length ≥ c.minTok then c.tok part else none
  match shortcut with
  | some t => .ok (buffer, result ++ [t])
  | none =>
    let e := eowLen c
    if e > part.length then .panic "encode: part.len() - end_of_word_len" else
    let body := part.length - e
    if c.chars then
      -- encode_chars: units are the characters of the text without the suffix; the scratch buffer is not cleared
      let cis := charIndices (part.take body)
      let units := cis.map fun (s, _, ch) => (s, ch.utf8Size)
      let units := match units.getLast? with
        | some (s, w) => units.dropLast ++ [(s, w + e)]
        | none => units
      if useHeap units.length then encodePairsHeap c c.fallback part buffer result units c.eow.isSome
      else encodePairs c c.fallback part buffer result (units.map (·.1)) c.eow.isSome
    else
      -- encode_bytes: units are single bytes; buffer.clear() afterwards
      let r :=
        if useHeap part.length then
          encodePairsHeap c c.fallback part buffer result
            ((List.range body).map fun i => (i, if i + 1 == body then 1 + e else 1)) c.eow.isSome
        else encodePairs c c.fallback part buffer result (List.range body) c.eow.isSome
      match r with
      | .ok (_, result') => .ok ([], result')
      | other => other

/-- The loop over the parts. -/
def encodeParts (c : BpeCtx) : List TextPart → List RankedPart → List Id → Res (List Id)
  | [], _, result => .ok result
  | p :: ps, buffer, result =>
    if p.special != INVALID then encodeParts c ps buffer (result ++ [p.special])
    else
      match encodePart c p.text buffer result with
      | .ok (buffer', result') => encodeParts c ps buffer' result'
      | .err e => .err e
      | .panic t => .panic t

/-- `BytePair::encode`: append the end-of-word suffix to every ordinary part, then encode. -/
def encode (c : BpeCtx) (parts : List TextPart) : Res (List Id) :=
  let parts := match c.eow with
    | some e => parts.map fun p => if p.special == INVALID then { p with text := p.text ++ e } else p
    | none => parts
  encodeParts c parts [] []

end Bpe
end Kitoken
