/-
  Model of src/decoder.rs: id -> bytes lookup, control filter, direct and prefix-aware concatenation.
-/
import Kitoken.Model.Bytes
namespace Kitoken

/-- What `Decoder::new` builds: vocabulary map, special map (bytes, is-control), continuation prefix. -/
structure DecCtx where
  vocab : Id → Option Bytes
  special : Id → Option (Bytes × Bool)
  subwordPrefix : Bytes              -- empty = no prefix configured

/-- `decode_direct`: loop over the tokens, appending to `result`. -/
def decodeDirect (c : DecCtx) (decodeSpecials : Bool) : List Id → Bytes → Res Bytes
  | [], acc => .ok acc
  | t :: ts, acc =>
    match c.vocab t with
    | some b => decodeDirect c decodeSpecials ts (acc ++ b)
    | none =>
      match c.special t with
      | some (b, isControl) =>
        if !isControl || decodeSpecials then decodeDirect c decodeSpecials ts (acc ++ b)
        else decodeDirect c decodeSpecials ts acc
      | none => .err (.invalidToken t)

/-- `decode_with_prefix`. -/
def decodeWithPrefix (c : DecCtx) (decodeSpecials : Bool) : List Id → Bytes → Res Bytes
  | [], acc => .ok acc
  | t :: ts, acc =>
    match c.vocab t with
    | some b =>
      let acc₁ := if !acc.isEmpty && !startsWith b c.subwordPrefix then acc ++ [32] else acc
      decodeWithPrefix c decodeSpecials ts (acc₁ ++ b)
    | none =>
      match c.special t with
      | some (b, isControl) =>
        let acc₁ := if !acc.isEmpty then acc ++ [32] else acc
        if !isControl || decodeSpecials then decodeWithPrefix c decodeSpecials ts (acc₁ ++ b)
        else decodeWithPrefix c decodeSpecials ts acc₁
      | none => .err (.invalidToken t)

/-- `Decoder::decode`. -/
def Decoder.decode (c : DecCtx) (tokens : List Id) (decodeSpecials : Bool) : Res Bytes :=
  if !c.subwordPrefix.isEmpty then decodeWithPrefix c decodeSpecials tokens []
  else decodeDirect c decodeSpecials tokens []

end Kitoken
