/-
  The Python binding (packages/python/src/lib.rs) as a wrapper around the core pipeline (C20).

  Every method releases the GIL, calls the core function, maps a library error to `ValueError(display)`
  and a value to a Python object. A Rust panic reaches Python as pyo3's `PanicException` (a
  `BaseException`), or aborts the interpreter in the release profile: `crash`.
-/
import Kitoken.Model.Pipeline
namespace Kitoken.Binding

open Kitoken

/-- What the Python caller observes. -/
inductive Py (α : Type) where
  | value (a : α)
  | raises (e : Err)
  | crash (msg : String)
  | miss (what : String)
  deriving Repr

def ofOut {α : Type} : Out α → Py α
  | .res (.ok a) => .value a
  | .res (.err e) => .raises e
  | .res (.panic p) => .crash p
  | .miss w => .miss w

variable {S : Type} [Cost S] [Inhabited S]

/-- `encode(text, encode_specials=False)`: `encode_specials.unwrap_or(false)`. -/
def encode (tk : Tokenizer S) (ext : Ext) (text : Bytes) (flag : Option Bool) : Py (List Id) :=
  ofOut (tk.encode ext text (flag.getD false))

/-- `decode(tokens, decode_specials=False)`. -/
def decode (tk : Tokenizer S) (ext : Ext) (ids : List Id) (flag : Option Bool) : Py Bytes :=
  ofOut (tk.decode ext ids (flag.getD false))

/-- `iter().map(f).collect::<Result<Vec<_>, _>>()`: the results in order, or the first failure; the
    elements after a failure are not evaluated. -/
def collect {α β : Type} (f : α → Py β) : List α → Py (List β)
  | [] => .value []
  | x :: xs =>
    match f x with
    | .value b =>
      (match collect f xs with
        | .value bs => .value (b :: bs)
        | .raises e => .raises e
        | .crash m => .crash m
        | .miss w => .miss w)
    | .raises e => .raises e
    | .crash m => .crash m
    | .miss w => .miss w

/-- `encode_all(texts, encode_specials=False)`. -/
def encodeAll (tk : Tokenizer S) (ext : Ext) (texts : List Bytes) (flag : Option Bool) : Py (List (List Id)) :=
  collect (fun t => encode tk ext t flag) texts

/-- `decode_all(tokens, decode_specials=False)`. -/
def decodeAll (tk : Tokenizer S) (ext : Ext) (seqs : List (List Id)) (flag : Option Bool) : Py (List Bytes) :=
  collect (fun s => decode tk ext s flag) seqs

end Kitoken.Binding
