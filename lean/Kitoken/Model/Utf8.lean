/-
  UTF-8 decoding as the code uses it: `bstr`'s lossy decoder (forward `decode`, backward
  `decode_last`) — invalid input yields U+FFFD and consumes the maximal valid prefix (at least
  one byte). On valid UTF-8 this is ordinary decoding. Core Lean only.
-/
import Kitoken.Model.Basic
namespace Kitoken.Utf8

open Kitoken

def REPLACEMENT : Char := Char.ofNat 0xFFFD

@[inline] def isCont (b : UInt8) : Bool := 0x80 ≤ b && b ≤ 0xBF

/-- Valid range of the second byte given the first (Unicode table 3-7). -/
def secondOk (b0 b1 : UInt8) : Bool :=
  if b0 == 0xE0 then 0xA0 ≤ b1 && b1 ≤ 0xBF
  else if b0 == 0xED then 0x80 ≤ b1 && b1 ≤ 0x9F
  else if b0 == 0xF0 then 0x90 ≤ b1 && b1 ≤ 0xBF
  else if b0 == 0xF4 then 0x80 ≤ b1 && b1 ≤ 0x8F
  else isCont b1

/-- `bstr::decode_utf8`: `(some c, n)` for a valid scalar of `n` bytes at the front,
    `(none, n)` for an invalid sequence where `n ≥ 1` bytes are to be skipped, `(none, 0)` on empty input. -/
def decodeOne : Bytes → Option Char × Nat
  | [] => (none, 0)
  | b0 :: rest =>
    if b0 ≤ 0x7F then (some (Char.ofNat b0.toNat), 1)
    else if 0xC2 ≤ b0 && b0 ≤ 0xDF then
      match rest with
      | b1 :: _ =>
        if isCont b1 then (some (Char.ofNat ((b0.toNat - 0xC0) * 64 + (b1.toNat - 0x80))), 2) else (none, 1)
      | [] => (none, 1)
    else if 0xE0 ≤ b0 && b0 ≤ 0xEF then
      match rest with
      | b1 :: rest2 =>
        if secondOk b0 b1 then
          match rest2 with
          | b2 :: _ =>
            if isCont b2 then
              (some (Char.ofNat ((b0.toNat - 0xE0) * 4096 + (b1.toNat - 0x80) * 64 + (b2.toNat - 0x80))), 3)
            else (none, 2)
          | [] => (none, 2)
        else (none, 1)
      | [] => (none, 1)
    else if 0xF0 ≤ b0 && b0 ≤ 0xF4 then
      match rest with
      | b1 :: rest2 =>
        if secondOk b0 b1 then
          match rest2 with
          | b2 :: rest3 =>
            if isCont b2 then
              match rest3 with
              | b3 :: _ =>
                if isCont b3 then
                  (some (Char.ofNat ((b0.toNat - 0xF0) * 262144 + (b1.toNat - 0x80) * 4096 +
                    (b2.toNat - 0x80) * 64 + (b3.toNat - 0x80))), 4)
                else (none, 3)
              | [] => (none, 3)
            else (none, 2)
          | [] => (none, 2)
        else (none, 1)
      | [] => (none, 1)
    else (none, 1)

theorem decodeOne_pos (b : UInt8) (bs : Bytes) : 0 < (decodeOne (b :: bs)).2 := by
  simp only [decodeOne]
  repeat' split
  all_goals simp

theorem decodeOne_le (bs : Bytes) : (decodeOne bs).2 ≤ bs.length := by
  unfold decodeOne
  repeat' split
  all_goals simp

/-- Lossy characters with their byte spans: `bstr`'s `char_indices()` (start, end, char). -/
def charIndicesFrom (pos : Nat) (bs : Bytes) : List (Nat × Nat × Char) :=
  match _h : bs with
  | [] => []
  | b :: t =>
    let r := decodeOne (b :: t)
    (pos, pos + r.2, r.1.getD REPLACEMENT) :: charIndicesFrom (pos + r.2) ((b :: t).drop r.2)
termination_by bs.length
decreasing_by
  have := decodeOne_pos b t
  simp only [List.length_drop, List.length_cons]
  omega

def charIndices (bs : Bytes) : List (Nat × Nat × Char) := charIndicesFrom 0 bs

/-- `bstr`'s `chars()`. -/
def chars (bs : Bytes) : List Char := (charIndices bs).map (·.2.2)

/-- Start offsets of the characters (what the encoders use as unit boundaries). -/
def charStarts (bs : Bytes) : List Nat := (charIndices bs).map (·.1)

@[inline] def isLeadingOrInvalid (b : UInt8) : Bool := (b &&& 0xC0) != 0x80

/-- Scan back from the end for at most 3 more bytes while the byte is a continuation byte
    (the `while start > limit && !is_leading_or_invalid_utf8_byte(slice[start])` loop). -/
def lastStart (bs : Bytes) : Nat :=
  let n := bs.length
  let limit := n - 4
  let rec go (fuel start : Nat) : Nat :=
    match fuel with
    | 0 => start
    | fuel + 1 =>
      if start > limit && !isLeadingOrInvalid (bs.getD start 0) then go fuel (start - 1) else start
  go 4 (n - 1)

/-- `bstr::decode_last_utf8`. -/
def decodeLast (bs : Bytes) : Option Char × Nat :=
  if bs.isEmpty then (none, 0)
  else
    let start := lastStart bs
    let r := decodeOne (bs.drop start)
    if start + r.2 != bs.length then (none, 1) else r

theorem lastStart_lt (bs : Bytes) (h : bs ≠ []) : lastStart bs < bs.length := by
  unfold lastStart
  have hn : 0 < bs.length := List.length_pos_iff.mpr h
  have : ∀ fuel start, start < bs.length → lastStart.go bs (bs.length - 4) fuel start < bs.length := by
    intro fuel
    induction fuel with
    | zero => intro s hs; simpa [lastStart.go]
    | succ f ih =>
      intro s hs
      simp only [lastStart.go]
      split
      · exact ih _ (by omega)
      · exact hs
  exact this 4 _ (by omega)

theorem decodeLast_pos (bs : Bytes) (h : bs ≠ []) : 0 < (decodeLast bs).2 := by
  unfold decodeLast
  have hne : bs.isEmpty = false := by cases bs <;> simp_all
  rw [hne]
  simp only [Bool.false_eq_true, if_false]
  split
  · simp
  · have hlt := lastStart_lt bs h
    match hd : bs.drop (lastStart bs) with
    | [] =>
      have := congrArg List.length hd
      simp at this; omega
    | b :: t => exact decodeOne_pos b t

theorem decodeLast_le (bs : Bytes) : (decodeLast bs).2 ≤ bs.length := by
  unfold decodeLast
  by_cases h : bs.isEmpty = true
  · simp [h]
  · have hne : bs ≠ [] := by intro hh; simp [hh] at h
    have hn : 0 < bs.length := List.length_pos_iff.mpr hne
    have hd := decodeOne_le (bs.drop (lastStart bs))
    simp only [List.length_drop] at hd
    simp only [h]
    by_cases h2 : (lastStart bs + (decodeOne (List.drop (lastStart bs) bs)).snd != List.length bs) = true
    · simp only [h2]; simp; omega
    · simp only [h2]; simp; omega

/-- Characters from the back with the number of bytes each consumed: `chars().rev()` / `char_indices().rev()`. -/
def charsRev (bs : Bytes) : List (Char × Nat) :=
  if h : bs = [] then []
  else
    let r := decodeLast bs
    (r.1.getD REPLACEMENT, r.2) :: charsRev (bs.take (bs.length - r.2))
termination_by bs.length
decreasing_by
  have := decodeLast_pos bs h
  have hn : 0 < bs.length := List.length_pos_iff.mpr h
  simp only [List.length_take]
  omega

/-- UTF-8 encoding of a character (core's `String.utf8EncodeChar`). -/
def encodeChar (c : Char) : Bytes := String.utf8EncodeChar c

def encodeChars (cs : List Char) : Bytes := cs.flatMap encodeChar

end Kitoken.Utf8

namespace Kitoken

/-- `str::is_char_boundary` on valid UTF-8. -/
def isBoundary (text : Bytes) (i : Nat) : Bool :=
  i == 0 || i == text.length || (i < text.length && (text.getD i 0 &&& 0xC0) != 0x80)

/-- Valid UTF-8 check (`core::str::from_utf8`): every lossy-decoded character is genuine. -/
def validUtf8 (b : Bytes) : Bool :=
  let rec go (fuel : Nat) (b : Bytes) : Bool :=
    match fuel, b with
    | _, [] => true
    | 0, _ => false
    | fuel + 1, x :: xs =>
      match Utf8.decodeOne (x :: xs) with
      | (some _, n) => go fuel ((x :: xs).drop n)
      | (none, _) => false
  go b.length b

end Kitoken
