/-
  The vocabulary path of `convert_tokenizers` (src/convert/tokenizers.rs) after JSON parsing (C15, C19):
  added tokens -> specials, removal of added tokens from the vocabulary, the three model kinds (order,
  scores, repair of colliding special ids), undoing byte-level placeholders and `<0xNN>` spellings,
  removal of duplicates (with the F22 repair: unigram scores follow the vocabulary).

  Hash maps are modelled as lists whose order is unknown: every place where the code iterates a
  `HashMap` takes a reordering function (`pv`, `ps`) that may be any permutation. Keys inserted twice
  keep the last value (`lastWins`).
-/
import Kitoken.Model.Convert
namespace Kitoken.Convert

open Kitoken

/-- `added_tokens[i]`. -/
structure AddedToken where
  id : Id
  content : Bytes
  special : Bool
  normalized : Bool
  deriving Repr, DecidableEq, Inhabited

/-- Entries of a map built by successive `insert`s, as a list without duplicate keys: for a key inserted
    more than once the last value stays (at the position of its last insertion). -/
def lastWins {α β : Type} [BEq α] : List (α × β) → List (α × β)
  | [] => []
  | (k, v) :: rest => if rest.any (fun e => e.1 == k) then lastWins rest else (k, v) :: lastWins rest

def lowerAscii (b : UInt8) : UInt8 := if 65 ≤ b && b ≤ 90 then b + 32 else b

/-- The `ident` of a control token: `[xyz]` / `<xyz>` of total length 5 or 6 gives the lower-cased inside,
    `<startoftext>` gives `sot`, `<endoftext>` gives `eot`. -/
def controlIdent (content : Bytes) : Option Bytes :=
  let bracketed := (content.head? == some 91 && content.getLast? == some 93) ||
                   (content.head? == some 60 && content.getLast? == some 62)
  if bracketed then
    if content.length == 5 || content.length == 6 then some (((content.drop 1).take (content.length - 2)).map lowerAscii)
    else if content == "<startoftext>".toUTF8.toList then some "sot".toUTF8.toList
    else if content == "<endoftext>".toUTF8.toList then some "eot".toUTF8.toList
    else none
  else none

/-- One entry of `get_specials`: kind, ident, score = position in `added_tokens`, `extract = !normalized`. -/
def mkSpecial (unkToken : Option Bytes) (unkId : Option Id) (i : Nat) (a : AddedToken) : SpecialDef :=
  let kind : SpecialKind :=
    if unkId == some a.id || unkToken == some a.content then .unknown
    else if a.special then .control else .priority
  { id := a.id, bytes := a.content, kind := kind,
    ident := match kind with
      | .unknown => some "unk".toUTF8.toList
      | .control => controlIdent a.content
      | .priority => none
    score := f32OfNat i, extract := !a.normalized }

/-- `get_specials`: a map keyed by the content bytes. -/
def getSpecials (added : List AddedToken) (unkToken : Option Bytes) (unkId : Option Id) : List (Bytes × SpecialDef) :=
  lastWins (added.zipIdx.map fun (a, i) => (a.content, mkSpecial unkToken unkId i a))

/-! ### post steps shared by the three kinds -/

/-- Decoded code points of a token text (`token.chars()`, lossy). -/
def codePoints (b : Bytes) : List Char := Utf8.chars b

/-- `replace_byte_chars`: every character that is a placeholder becomes its byte, any other character keeps
    its UTF-8 bytes. -/
def replaceByteChars (b : Bytes) : Bytes :=
  (codePoints b).flatMap fun c =>
    match decodeByteChar c.toNat with
    | some byte => [byte]
    | none => Utf8.encodeChar c

/-- Is this the six-byte spelling `<0x..>`, and which byte does `from_str_radix(_, 16)` read from it?
    (`none`: not a rune — also when the two middle bytes are not valid UTF-8, which they can be after the
    placeholder replacement; the pre-repair code panicked there, F18.) -/
def runeOf (b : Bytes) : Option UInt8 :=
  if b.length == 6 && b.take 3 == [60, 48, 120] && b.getLast? == some 62 then
    match b.drop 3 with
    | h :: l :: _ => if validUtf8 [h, l] then (hexPair h l).map UInt8.ofNat else none
    | _ => none
  else none

/-- `replace_byte_runes`: a rune whose byte is already a token (of the vocabulary as it is before this step) is
    dropped, any other rune becomes its byte under its own id. -/
def replaceByteRunes (vocab : List (Id × Bytes)) : List (Id × Bytes) :=
  vocab.filterMap fun (id, b) =>
    match runeOf b with
    | some byte => if vocab.any (fun e => e.2 == [byte]) then none else some (id, [byte])
    | none => some (id, b)

/-- `deduplicate`: the first token with given bytes stays. -/
def dedupFirst : List (Id × Bytes) → List Bytes → List (Id × Bytes)
  | [], _ => []
  | (id, b) :: rest, seen => if seen.contains b then dedupFirst rest seen else (id, b) :: dedupFirst rest (b :: seen)

def postSteps (byteChars byteRunes : Bool) (vocab : List (Id × Bytes)) : List (Id × Bytes) :=
  let v1 := if byteChars then vocab.map fun (id, b) => (id, replaceByteChars b) else vocab
  let v2 := if byteRunes then replaceByteRunes v1 else v1
  dedupFirst v2 []

/-! ### BPE -/

inductive HfError where
  | unknownNotInSpecials | noFreeId
  deriving Repr, DecidableEq

/-- Order of the byte-pair vocabulary: tokens produced by a merge first, by merge index then id; the others
    after them by id. `rank` is the merge index of a token text. -/
def bpeLe (rank : Bytes → Option Nat) (a b : Id × Bytes) : Bool :=
  match rank a.2, rank b.2 with
  | some x, some y => if x == y then a.1 ≤ b.1 else x < y
  | some _, none => true
  | none, some _ => false
  | none, none => a.1 ≤ b.1

/-- "Fix special tokens with invalid IDs": in the sorted order of the specials, a special whose id belongs to
    a different vocabulary token gets the next id above everything handed out so far (`maxId` starts at the largest
    id of the vocabulary and of the specials; before the F24 repair only of the vocabulary, so that a new id could be
    the id of another special). -/
def repairIds (vocab : List (Id × Bytes)) : List SpecialDef → (maxId : Nat) → Except HfError (List SpecialDef)
  | [], _ => .ok []
  | sp :: rest, maxId =>
    -- `vocab_rev` is a map id -> bytes built from the vocabulary in order: the last entry with that id
    match (vocab.reverse.find? fun e => e.1 == sp.id) with
    | some (_, b) =>
      if b != sp.bytes then
        if maxId + 1 ≥ 4294967296 then .error .noFreeId
        else (repairIds vocab rest (maxId + 1)).map fun l => { sp with id := UInt32.ofNat (maxId + 1) } :: l
      else (repairIds vocab rest maxId).map (sp :: ·)
    | none => (repairIds vocab rest maxId).map (sp :: ·)

structure HfOut where
  vocab : List (Id × Bytes)
  scores : List UInt32 := []
  specials : List SpecialDef
  deriving Inhabited

/-- The `BPE` arm: `vocab` and `merges` are the JSON entries in file order, `pv` / `ps` the iteration
    orders of the two hash maps. -/
def convertHfBpe (vocab : List (Bytes × Id)) (merges : List Bytes) (added : List AddedToken) (unkToken : Option Bytes)
    (byteChars byteRunes : Bool)
    (pv : List (Id × Bytes) → List (Id × Bytes)) (ps : List SpecialDef → List SpecialDef) : Except HfError HfOut :=
  let specialsMap := getSpecials added unkToken none
  let vocabMap := (lastWins vocab).filter fun e => !(specialsMap.any fun s => s.1 == e.1)
  if (match unkToken with | some u => !(specialsMap.any fun s => s.1 == u) | none => false) then .error .unknownNotInSpecials
  else
    let rankMap := lastWins (merges.zipIdx)
    let rank (b : Bytes) : Option Nat := (rankMap.find? fun e => e.1 == b).map (·.2)
    let sorted := (pv (vocabMap.map fun (b, id) => (id, b))).mergeSort (bpeLe rank)
    let specials := (ps (specialsMap.map (·.2))).mergeSort specialLe
    -- after the F24 repair: above every id in use, by the vocabulary or by another special
    let maxId := ((sorted.map (·.1.toNat)) ++ (specials.map (·.id.toNat))).foldl max 0
    match repairIds sorted specials maxId with
    | .error e => .error e
    | .ok specials' => .ok { vocab := postSteps byteChars byteRunes sorted, specials := specials' }

/-! ### Unigram -/

/-- Order of the unigram vocabulary: score (as a number), then position in the source list. -/
def uniLe (a b : (Bytes × Nat) × UInt32) : Bool :=
  if f32Key a.2 == f32Key b.2 then a.1.2 ≤ b.1.2 else f32Key a.2 < f32Key b.2

/-- The `Unigram` arm. `vocab` = `(text, score bits)` in file order (the id of a piece is its position);
    scores are finite or infinite, never NaN (JSON has no NaN). After the post steps the scores are rebuilt from
    the tokens that remain (F22). -/
def convertHfUnigram (vocab : List (Bytes × UInt32)) (added : List AddedToken) (unkId : Option Id) (byteRunes byteChars : Bool)
    (pv : List ((Bytes × Nat) × UInt32) → List ((Bytes × Nat) × UInt32)) (ps : List SpecialDef → List SpecialDef) :
    Except HfError HfOut :=
  let specialsMap := getSpecials added none unkId
  let entries : List (Bytes × (Nat × UInt32)) := lastWins (vocab.zipIdx.map fun ((b, s), i) => (b, (i, s)))
  let vocabMap := entries.filter fun e => !(specialsMap.any fun s => s.1 == e.1)
  if (match unkId with | some u => !(specialsMap.any fun s => s.2.id == u) | none => false) then .error .unknownNotInSpecials
  else
    let sorted := (pv (vocabMap.map fun (b, (i, s)) => ((b, i), s))).mergeSort uniLe
    let toks : List (Id × Bytes) := sorted.map fun ((b, i), _) => (UInt32.ofNat i, b)
    let scoreOf (id : Id) : UInt32 := ((sorted.reverse.find? fun e => UInt32.ofNat e.1.2 == id).map (·.2)).getD 0
    let out := postSteps byteChars byteRunes toks
    .ok { vocab := out, scores := out.map fun e => scoreOf e.1, specials := (ps (specialsMap.map (·.2))).mergeSort specialLe }

/-! ### WordPiece -/

def wpLe (a b : Id × Bytes) : Bool := if a.1 == b.1 then bytesLe a.2 b.2 else a.1 < b.1

def convertHfWordPiece (vocab : List (Bytes × Id)) (added : List AddedToken) (unkToken : Bytes) (byteChars byteRunes : Bool)
    (pv : List (Id × Bytes) → List (Id × Bytes)) (ps : List SpecialDef → List SpecialDef) : Except HfError HfOut :=
  let specialsMap := getSpecials added (some unkToken) none
  let vocabMap := (lastWins vocab).filter fun e => !(specialsMap.any fun s => s.1 == e.1)
  if !(specialsMap.any fun s => s.1 == unkToken) then .error .unknownNotInSpecials
  else
    let sorted := (pv (vocabMap.map fun (b, id) => (id, b))).mergeSort wpLe
    .ok { vocab := postSteps byteChars byteRunes sorted, specials := (ps (specialsMap.map (·.2))).mergeSort specialLe }

end Kitoken.Convert
