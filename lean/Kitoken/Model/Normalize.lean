/-
  Model of src/config/normalization.rs and `Configuration::normalize`.
  Text is the UTF-8 bytes of a Rust `String`. Unicode normal forms, case mapping, regex replacement
  and grapheme segmentation are external (oracle parameters); NMT's character lists are generated
  from the source (`Generated/Nmt.lean`).
-/
import Kitoken.Model.Decoding
import Kitoken.Model.CharsMap
import Kitoken.Generated.Nmt
import Kitoken.Generated.Consts
namespace Kitoken

open Utf8

inductive UnicodeScheme where
  | nfc | nfd | nfkc | nfkd
  deriving Repr, DecidableEq, Inhabited

inductive NormCondition where
  | startOfText | endOfText
  deriving Repr, DecidableEq, Inhabited

/-- `Normalization` (variant order = serde order). -/
inductive Normalization where
  | unicode (scheme : UnicodeScheme)
  | nmt
  | caseFold (upper : Bool)
  | append (s : Bytes)
  | prepend (s : Bytes)
  | extend (c : Char) (left right : Nat) (pad : Bool)
  | strip (c : Char) (left right : Nat)
  | collapse (c : Char)
  | replace (pattern : ReplacePattern) (replacement : Bytes)
  | charsMap (map : CharsMap)
  | conditional (cond : NormCondition) (inner : Normalization)
  deriving Repr, Inhabited

/-- External calls of the normalization stage: `none` = not in the oracle table. -/
structure NormExt where
  unicode : UnicodeScheme → Bytes → Option Bytes
  caseFold : (upper : Bool) → Bytes → Option Bytes
  replaceAll : (pattern : String) → (replacement : Bytes) → (text : Bytes) → Option Bytes
  graphemes : Bytes → Option (List (Nat × Nat))

/-- Position of a segment in the whole input: start offset, and whether it extends to the end
    of the text (`position.end == usize::MAX`). -/
structure Position where
  start : Nat
  toEnd : Bool
  deriving Repr, DecidableEq, Inhabited

def inRanges (rs : List (Nat × Nat)) (n : Nat) : Bool := rs.any fun (lo, hi) => lo ≤ n && n ≤ hi

/-- `normalize_nmt`: drop the removed set, then blank the second set (a one-character class regex). -/
def normalizeNmt (text : Bytes) : Bytes :=
  let kept := (chars text).filter fun c => !inRanges Generated.NMT_REMOVED c.toNat
  kept.flatMap fun c => if inRanges Generated.NMT_BLANKED c.toNat then Generated.NMT_REPLACEMENT else encodeChar c

/-- `normalize_strip`: like the byte-level strip, on a valid string every character spans `len_utf8`. -/
def normalizeStrip (ch : Char) (left right : Nat) (text : Bytes) : Res Bytes :=
  decodeStrip ch left right text

/-- `str::replace` with a char or `&str` pattern works on characters (an empty pattern matches at
    every character boundary). -/
def normalizeReplaceLiteral (pat rep text : Bytes) : Bytes :=
  encodeChars (replaceAll (chars pat) (chars rep) (chars text))

def Normalization.normalize (ext : NormExt) : Normalization → Position → Bytes → Option (Res Bytes)
  | .unicode s, _, t => (ext.unicode s t).map .ok
  | .nmt, _, t => some (.ok (normalizeNmt t))
  | .caseFold u, _, t => (ext.caseFold u t).map .ok
  | .append s, _, t => some (.ok (t ++ s))
  | .prepend s, _, t => some (.ok (s ++ t))
  | .extend c l r pad, _, t => some (.ok (decodeExtend c l r pad t))
  | .strip c l r, _, t => some (normalizeStrip c l r t)
  | .collapse c, _, t => some (.ok (decodeCollapse c t))
  | .replace (.char c) rep, _, t => some (.ok (normalizeReplaceLiteral (encodeChar c) rep t))
  | .replace (.string s) rep, _, t => some (.ok (normalizeReplaceLiteral s rep t))
  | .replace (.regex p) rep, _, t => (ext.replaceAll p rep t).map .ok
  | .charsMap m, _, t => (ext.graphemes t).map fun gs => .ok (m.normalize t gs)
  | .conditional cond inner, pos, t =>
    if (match cond with
        | .startOfText => pos.start == 0
        | .endOfText => pos.toEnd) then inner.normalize ext pos t
    else some (.ok t)

def normalizeSteps (ext : NormExt) (pos : Position) : List Normalization → Bytes → Option (Res Bytes)
  | [], t => some (.ok t)
  | n :: ns, t =>
    match n.normalize ext pos t with
    | none => none
    | some (.ok t') => normalizeSteps ext pos ns t'
    | some (.err e) => some (.err e)
    | some (.panic p) => some (.panic p)

/-- `Configuration::normalize`: early return on empty text; note that later steps still run when an
    earlier step empties the text (the check is only at the start). -/
def configNormalize (ext : NormExt) (steps : List Normalization) (pos : Position) (t : Bytes) :
    Option (Res Bytes) :=
  if t.isEmpty then some (.ok t) else normalizeSteps ext pos steps t

end Kitoken
