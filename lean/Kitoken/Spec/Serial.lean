/-
  Specification side of C14: which definitions are representable on the wire, and which are canonical.
-/
import Kitoken.Model.DefCodec
import Kitoken.Model.Export
namespace Kitoken.Spec

open Kitoken

def natOk (n : Nat) : Prop := n < 2 ^ 32

def patternOk (ok : Bytes → Option Bool) : ReplacePattern → Prop
  | .char _ => True
  | .string s => validUtf8 s = true
  | .regex p => ok p.toUTF8.toList = some true

def normOk (ok : Bytes → Option Bool) : Normalization → Prop
  | .append s | .prepend s => validUtf8 s = true
  | .extend _ l r _ | .strip _ l r => natOk l ∧ natOk r
  | .replace p rep => patternOk ok p ∧ validUtf8 rep = true
  | .charsMap _ => True
  | .conditional _ inner => normOk ok inner
  | _ => True

def splitOk (ok : Bytes → Option Bool) : Split → Prop
  | .pattern (.string s) _ => validUtf8 s = true
  | .pattern (.regex p) _ => ok p.toUTF8.toList = some true
  | _ => True

def processingOk : Processing → Prop
  | .strip _ l r => natOk l ∧ natOk r
  | .pad _ n s _ | .truncate n s _ => natOk n ∧ natOk s
  | .collapse _ => True

def decodingOk (ok : Bytes → Option Bool) : Decoding → Prop
  | .extend _ l r _ | .strip _ l r => natOk l ∧ natOk r
  | .replace p rep => patternOk ok p ∧ validUtf8 rep = true
  | .collapse _ => True

/-- A definition that exists as a Rust value: `u32` fields fit, strings are valid UTF-8, regex
    patterns compile (`ok`), and it fits in memory (its serialization is shorter than 2^64 bytes). -/
structure Representable (ok : Bytes → Option Bool) (d : Definition) : Prop where
  version : validUtf8 d.metadata.version = true
  source : validUtf8 d.metadata.source = true
  entries : ∀ e ∈ d.metadata.entries, validUtf8 e.1 = true ∧ validUtf8 e.2 = true
  maxWord : ∀ v m, d.model = .wordPiece v m → natOk m
  idents : ∀ s ∈ d.specials, ∀ i, s.ident = some i → validUtf8 i = true
  norm : ∀ n ∈ d.config.normalization, normOk ok n
  split : ∀ s ∈ d.config.split, splitOk ok s
  processing : ∀ p ∈ d.config.processing, processingOk p
  decoding : ∀ x ∈ d.config.decoding, decodingOk ok x
  templates : ∀ t ∈ d.config.templates, validUtf8 t.content = true
  small : ((DefCodec.definition ok).enc d).length < 2 ^ 64

/-- Canonical order: what `to_definition` produces — BPE in any order without duplicate byte strings,
    Unigram strictly increasing by (score, id, bytes) without NaN, WordPiece strictly increasing by
    (id, bytes), specials strictly increasing in their order. -/
def strictlySorted (le : α → α → Bool) (l : List α) : Prop :=
  List.Pairwise (fun a b => le a b = true ∧ le b a = false) l

structure Canonical (d : Definition) : Prop where
  specials : strictlySorted specialLe d.specials
  model : match d.model with
    | .bytePair vocab _ => List.Pairwise (fun a b : Id × Bytes => a.2 ≠ b.2) vocab
    | .unigram vocab scores => vocab.length = scores.length ∧ (∀ s ∈ scores, f32IsNaN s = false) ∧
        strictlySorted uniExportLe (vocab.zip scores)
    | .wordPiece vocab _ => strictlySorted (fun x y : Id × Bytes => x.1 < y.1 || (x.1 == y.1 && bytesLe x.2 y.2)) vocab

end Kitoken.Spec
