/-
  Specification for C08: decoding is the in-order concatenation of the byte strings of the ids.
  No accumulators, no loops over mutable buffers.
-/
import Kitoken.Model.Decoder
namespace Kitoken.Spec

open Kitoken

/-- The bytes an id contributes, or `none` if it is neither a vocabulary entry nor a special token.
    A vocabulary entry wins over a special token with the same id; control tokens contribute nothing
    unless special decoding is on. -/
def bytesOf (c : DecCtx) (ds : Bool) (t : Id) : Option Bytes :=
  match c.vocab t with
  | some b => some b
  | none =>
    match c.special t with
    | some (b, isControl) => some (if !isControl || ds then b else [])
    | none => none

/-- First id that has no bytes. -/
def firstInvalid (c : DecCtx) (ds : Bool) : List Id → Option Id
  | [] => none
  | t :: ts => if (bytesOf c ds t).isSome then firstInvalid c ds ts else some t

/-- Direct decoding: concatenation, or the first invalid id. -/
def decodeSpec (c : DecCtx) (ds : Bool) (ts : List Id) : Res Bytes :=
  match firstInvalid c ds ts with
  | some t => .err (.invalidToken t)
  | none => .ok (ts.flatMap fun t => (bytesOf c ds t).getD [])

/-- Whether a space is put before the id's bytes when something was already written:
    before every vocabulary token that does not start with the prefix, and before every special token
    (even a filtered control token). -/
def spaceBefore (c : DecCtx) (t : Id) : Bool :=
  match c.vocab t with
  | some b => !startsWith b c.subwordPrefix
  | none => true

/-- Prefix mode: each id contributes an optional space (only if output so far is non-empty) and its bytes. -/
def prefixSpecFrom (c : DecCtx) (ds : Bool) : List Id → Bytes → Bytes
  | [], acc => acc
  | t :: ts, acc =>
    let sp : Bytes := if !acc.isEmpty && spaceBefore c t then [32] else []
    prefixSpecFrom c ds ts (acc ++ sp ++ (bytesOf c ds t).getD [])

def decodePrefixSpec (c : DecCtx) (ds : Bool) (ts : List Id) : Res Bytes :=
  match firstInvalid c ds ts with
  | some t => .err (.invalidToken t)
  | none => .ok (prefixSpecFrom c ds ts [])

def decoderSpec (c : DecCtx) (ts : List Id) (ds : Bool) : Res Bytes :=
  if c.subwordPrefix.isEmpty then decodeSpec c ds ts else decodePrefixSpec c ds ts

end Kitoken.Spec
