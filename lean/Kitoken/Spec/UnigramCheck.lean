/-
  Executable checker for C04 used for SPEC verdicts: an independent dynamic program over the unit
  boundaries (no sentinel, no pruning, no scratch buffer) and a judgement of the ids returned by
  the implementation.
-/
import Kitoken.Spec.Unigram
namespace Kitoken.Spec

open Kitoken Kitoken.Utf8

variable {S : Type} [Cost S] [Inhabited S]

/-- For every boundary index `j`: the minimal and maximal cost over all segmentations of the
    prefix ending there (`none` if the prefix cannot be segmented). -/
def dpTableFrom (base : S) (tok : Bytes → Option (Id × S)) (piece : Bytes) (bounds : Array Nat) : Array (Option (S × S)) := Id.run do
  let mut tab : Array (Option (S × S)) := #[some (base, base)]
  for j in [1:bounds.size] do
    let mut best : Option (S × S) := none
    for i in [0:j] do
      match tab[i]! with
      | none => pure ()
      | some (lo, hi) =>
        match tok (slice piece bounds[i]! bounds[j]!) with
        | none => pure ()
        | some (_, sc) =>
          let lo' := Cost.sub lo sc
          let hi' := Cost.sub hi sc
          best := match best with
            | none => some (lo', hi')
            | some (a, b) => some (if Cost.le lo' a then lo' else a, if Cost.le b hi' then hi' else b)
    tab := tab.push best
  return tab

def dpTable (tok : Bytes → Option (Id × S)) (piece : Bytes) (bounds : Array Nat) : Array (Option (S × S)) :=
  dpTableFrom Cost.zero tok piece bounds

inductive UniVerdict where
  | holds
  | notApplicable (why : String)
  | fails (why : String)

/-- Judges `ids` (what the implementation returned for `piece`). `bytesOf` maps a vocabulary id to
    its bytes. -/
def uniCheck (c : UniCtx S) (bytesOf : Id → Option Bytes) (piece : Bytes) (ids : List Id) : UniVerdict :=
  let bounds := (charStarts piece ++ [piece.length]).toArray
  let tab := dpTable c.tok piece bounds
  let scoresGrow := true
  match tab[bounds.size - 1]! with
  | some (opt, _) =>
    -- segmentable: ids must be a segmentation along the boundaries with minimal cost
    let rec walk (pos : Nat) (acc : S) : List Id → Option S
      | [] => if pos == piece.length then some acc else none
      | t :: ts =>
        match bytesOf t with
        | none => none
        | some b =>
          if b.isEmpty then none else
          match c.tok b with
          | some (t', sc) =>
            if t' == t && slice piece pos (pos + b.length) == b && bounds.contains (pos + b.length)
            then walk (pos + b.length) (Cost.sub acc sc) ts else none
          | none => none
    match walk 0 Cost.zero ids with
    | some cst => if Cost.le cst opt then .holds else
        (if tab.any (fun e => match e with | some (_, hi) => Cost.le Cost.big hi | none => false)
         then .fails "outside-bounded-cost not-optimal" else .fails "not-optimal")
    | none =>
      if tab.any (fun e => match e with | some (_, hi) => Cost.le Cost.big hi | none => false) && scoresGrow
      then .fails "outside-bounded-cost not-a-segmentation"
      else .fails "segmentable-but-not-a-segmentation"
  | none =>
    -- not segmentable: with an unknown token, check the walk left to right
    match c.fallback.head?, c.unknown with
    | some .unknown, some u =>
      let endsHere (e : Nat) : Bool := bounds.any fun s => s < e && (c.tok (slice piece s e)).isSome
      let nextBound (pos : Nat) : Nat := (bounds.toList.find? (· > pos)).getD piece.length
      -- a maximal run of vocabulary tokens between two unknown ids (or the piece's ends) must itself be a
      -- cheapest segmentation of the text it covers, measured from the value the run starts with: zero at the
      -- beginning of the piece, the restart value after an unreachable position (`unigram_stretch_optimal`;
      -- "encodable neighbours are unaffected", C06)
      let stretchOk (a b : Nat) (cst : S) : Bool :=
        if a == b then true else
        let sub := slice piece a b
        let sb := (charStarts sub ++ [sub.length]).toArray
        match (dpTableFrom (if a == 0 then Cost.zero else Cost.big) c.tok sub sb)[sb.size - 1]! with
        | some (opt, _) => Cost.le cst opt
        | none => false
      let rec walkU (fuel pos start : Nat) (acc : S) : List Id → Option String
        | [] => if pos != piece.length then some "walkU" else if stretchOk start pos acc then none else some "stretch-after-unknown-not-optimal"
        | t :: ts =>
          match fuel with
          | 0 => some "walkU"
          | fuel + 1 =>
            if t == u then
              let e := nextBound pos
              if !(bounds.contains pos && !endsHere e) then some "walkU"
              else if !stretchOk start pos acc then some "stretch-before-unknown-not-optimal"
              else walkU fuel e e Cost.big ts
            else
              match bytesOf t with
              | some b =>
                (match c.tok b with
                 | some (_, sc) =>
                   if !b.isEmpty && slice piece pos (pos + b.length) == b && bounds.contains (pos + b.length)
                   then walkU fuel (pos + b.length) start (Cost.sub acc sc) ts else some "walkU"
                 | none => some "walkU")
              | none => some "walkU"
      match walkU (ids.length + 1) 0 0 Cost.zero ids with
      | none => .holds
      | some why => .fails why
    | some .bytes, _ =>
      -- byte fallback: when every returned id is a vocabulary id, the ids spell the piece, bytes in text order
      -- (C04: "every returned non-unknown token still matches the text at its position")
      let spelled := ids.foldl (fun acc t => match acc, bytesOf t with
        | some a, some b => some (a ++ b) | _, _ => none) (some [])
      -- with `Skip` further down the list bytes may have been dropped: then the ids spell a subsequence
      let rec isSubseq : Bytes → Bytes → Bool
        | [], _ => true
        | _ :: _, [] => false
        | x :: xs, y :: ys => if x == y then isSubseq xs ys else isSubseq (x :: xs) ys
      match spelled with
      | some b =>
        if c.fallback.contains .skip then (if isSubseq b piece then .holds else .fails "byte-fallback-misspells-the-piece")
        else if b == piece then .holds else .fails "byte-fallback-misspells-the-piece"
      | none => .notApplicable "an id outside the vocabulary in the output"
    | _, _ => .notApplicable "no unknown fallback"

/-- C06, error answers: a necessary condition for an error on the bytes `x` of a hole under the fallback list
    `fb`. The error of a Unigram encoding comes from a hole of some walk (`unigram_follows_chain`): with an empty
    list every hole fails; `Unknown` fails only without an unknown token; `Skip` never fails; `Bytes` re-encodes
    `x` byte by byte with the tail of the list, which can only fail at a byte at whose end no vocabulary entry
    (inside `x`) ends, and only if the tail fails on that byte. -/
def errPossible (c : UniCtx S) : List Fallback → Bytes → Bool
  | [], _ => true
  | .unknown :: _, _ => c.unknown.isNone
  | .skip :: _, _ => false
  | .bytes :: tail, x =>
    (List.range x.length).any fun i =>
      let e := i + 1
      !((List.range e).any fun s => (c.tok (slice x s e)).isSome) && errPossible c tail (slice x i e)

/-- An error answer for `piece` is possible only if some unit (character) at whose end no vocabulary entry ends
    can fail under the list. -/
def errPossiblePiece (c : UniCtx S) (piece : Bytes) : Bool :=
  let bounds := charStarts piece ++ [piece.length]
  (bounds.zip (bounds.drop 1)).any fun (a, e) =>
    !(bounds.any fun s => s < e && (c.tok (slice piece s e)).isSome) && errPossible c c.fallback (slice piece a e)

end Kitoken.Spec
