/-
  Executable checker for C04 used for SPEC verdicts: an independent dynamic program over the unit
  boundaries (no sentinel, no pruning, no scratch buffer) and a judgement of the ids returned by
  the implementation.
-/
import Kitoken.Spec.Unigram
namespace Kitoken.Spec

open Kitoken Kitoken.Utf8

variable {S : Type} [Cost S] [Inhabited S]

/-- For every boundary index `j`: the minimal and maximal cost over all segmentations of the
    prefix ending there (`none` if the prefix cannot be segmented). -/
def dpTable (tok : Bytes → Option (Id × S)) (piece : Bytes) (bounds : Array Nat) : Array (Option (S × S)) := Id.run do
  let mut tab : Array (Option (S × S)) := #[some (Cost.zero, Cost.zero)]
  for j in [1:bounds.size] do
    let mut best : Option (S × S) := none
    for i in [0:j] do
      match tab[i]! with
      | none => pure ()
      | some (lo, hi) =>
        match tok (slice piece bounds[i]! bounds[j]!) with
        | none => pure ()
        | some (_, sc) =>
          let lo' := Cost.sub lo sc
          let hi' := Cost.sub hi sc
          best := match best with
            | none => some (lo', hi')
            | some (a, b) => some (if Cost.le lo' a then lo' else a, if Cost.le b hi' then hi' else b)
    tab := tab.push best
  return tab

inductive UniVerdict where
  | holds
  | notApplicable (why : String)
  | fails (why : String)

/-- Judges `ids` (what the implementation returned for `piece`). `bytesOf` maps a vocabulary id to
    its bytes. -/
def uniCheck (c : UniCtx S) (bytesOf : Id → Option Bytes) (piece : Bytes) (ids : List Id) : UniVerdict :=
  let bounds := (charStarts piece ++ [piece.length]).toArray
  let tab := dpTable c.tok piece bounds
  let scoresGrow := true
  match tab[bounds.size - 1]! with
  | some (opt, _) =>
    -- segmentable: ids must be a segmentation along the boundaries with minimal cost
    let rec walk (pos : Nat) (acc : S) : List Id → Option S
      | [] => if pos == piece.length then some acc else none
      | t :: ts =>
        match bytesOf t with
        | none => none
        | some b =>
          if b.isEmpty then none else
          match c.tok b with
          | some (t', sc) =>
            if t' == t && slice piece pos (pos + b.length) == b && bounds.contains (pos + b.length)
            then walk (pos + b.length) (Cost.sub acc sc) ts else none
          | none => none
    match walk 0 Cost.zero ids with
    | some cst => if Cost.le cst opt then .holds else
        (if tab.any (fun e => match e with | some (_, hi) => Cost.le Cost.big hi | none => false)
         then .fails "outside-bounded-cost not-optimal" else .fails "not-optimal")
    | none =>
      if tab.any (fun e => match e with | some (_, hi) => Cost.le Cost.big hi | none => false) && scoresGrow
      then .fails "outside-bounded-cost not-a-segmentation"
      else .fails "segmentable-but-not-a-segmentation"
  | none =>
    -- not segmentable: with an unknown token, check the walk left to right
    match c.fallback.head?, c.unknown with
    | some .unknown, some u =>
      let endsHere (e : Nat) : Bool := bounds.any fun s => s < e && (c.tok (slice piece s e)).isSome
      let nextBound (pos : Nat) : Nat := (bounds.toList.find? (· > pos)).getD piece.length
      let rec walkU (fuel pos : Nat) : List Id → Bool
        | [] => pos == piece.length
        | t :: ts =>
          match fuel with
          | 0 => false
          | fuel + 1 =>
            if t == u then
              let e := nextBound pos
              bounds.contains pos && !endsHere e && walkU fuel e ts
            else
              match bytesOf t with
              | some b => !b.isEmpty && (c.tok b).isSome && slice piece pos (pos + b.length) == b &&
                  bounds.contains (pos + b.length) && walkU fuel (pos + b.length) ts
              | none => false
      if walkU (ids.length + 1) 0 ids then .holds else .fails "walkU"
    | _, _ => .notApplicable "no unknown fallback"

end Kitoken.Spec
