/-
  Specification for C12: exact-match lookup in the double array, keys that are prefixes of a chunk,
  and what normalization must do with them.
-/
import Kitoken.Model.CharsMap
namespace Kitoken.Spec

open Kitoken Kitoken.CharsMap

/-- Walks the whole key from trie position `posit`; the position after the last byte and the last
    unit, or `none` if some byte has no transition (or the walk leaves the array). -/
def walkKey (m : CharsMap) : (key : Bytes) → (posit : Nat) → (unit : UInt32) → Option (Nat × UInt32)
  | [], posit, unit => some (posit, unit)
  | c :: cs, posit, _ =>
    let posit := posit ^^^ c.toNat
    match m.array[posit]? with
    | none => none
    | some unit =>
      if unitLabel unit != c.toNat then none
      else walkKey m cs (posit ^^^ unitOffset unit) unit

/-- Exact-match lookup: the value stored for `key` (non-empty, without NUL bytes), if `key` is a key of the map. -/
def lookupExact (m : CharsMap) (key : Bytes) : Option Nat :=
  match m.array[0]? with
  | none => none
  | some root =>
    if key.isEmpty then none else
    match walkKey m key (0 ^^^ unitOffset root) root with
    | some (posit, unit) =>
      if unitHasLeaf unit then (m.array[posit]?).map unitValue else none
    | none => none

/-- The values of all non-empty prefixes of `key` that are keys of the map, shortest first. -/
def prefixValues (m : CharsMap) (key : Bytes) : List Nat :=
  (List.range' 1 key.length).filterMap fun n => lookupExact m (key.take n)

/-- Well-formed map: every transition and every leaf the walk can reach lies inside the array.
    (The shipped maps are well-formed; after the F14 repair the code is total without it.) -/
def NoNul (key : Bytes) : Prop := ∀ b ∈ key, b ≠ 0

end Kitoken.Spec
