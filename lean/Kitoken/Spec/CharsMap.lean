/-
  Specification for C12: exact-match lookup in the double array, keys that are prefixes of a chunk,
  and what normalization must do with them.
-/
import Kitoken.Model.CharsMap
namespace Kitoken.Spec

open Kitoken Kitoken.CharsMap

/-- Walks the whole key from trie position `posit`; the position after the last byte and the last
    unit, or `none` if some byte has no transition (or the walk leaves the array). -/
def walkKey (m : CharsMap) : (key : Bytes) → (posit : Nat) → (unit : UInt32) → Option (Nat × UInt32)
  | [], posit, unit => some (posit, unit)
  | c :: cs, posit, _ =>
    let posit := posit ^^^ c.toNat
    match m.array[posit]? with
    | none => none
    | some unit =>
      if unitLabel unit != c.toNat then none
      else walkKey m cs (posit ^^^ unitOffset unit) unit

/-- Exact-match lookup: the value stored for `key` (non-empty, without NUL bytes), if `key` is a key of the map. -/
def lookupExact (m : CharsMap) (key : Bytes) : Option Nat :=
  match m.array[0]? with
  | none => none
  | some root =>
    if key.isEmpty then none else
    match walkKey m key (0 ^^^ unitOffset root) root with
    | some (posit, unit) =>
      if unitHasLeaf unit then (m.array[posit]?).map unitValue else none
    | none => none

/-- The values of all non-empty prefixes of `key` that are keys of the map, shortest first. -/
def prefixValues (m : CharsMap) (key : Bytes) : List (Nat × Nat) :=
  (List.range' 1 key.length).filterMap fun n => (lookupExact m (key.take n)).map fun v => (n, v)

/-- The chunk contains no NUL byte (the search stops at one). -/
def NoNul (key : Bytes) : Prop := ∀ b ∈ key, b ≠ 0

/-- The longest non-empty prefix of `rest` that is a key of the map: (its length, its value). -/
def longestKey (m : CharsMap) (rest : Bytes) : Option (Nat × Nat) :=
  (List.range' 1 rest.length).reverse.findSome? fun n => (lookupExact m (rest.take n)).map fun v => (n, v)

/-- The replacement string stored at offset `v` (up to the next NUL), if `v` is inside the table. -/
def replacementAt (m : CharsMap) (v : Nat) : Option Bytes :=
  let stop := scanNul m.normalized v
  if v ≤ stop ∧ stop ≤ m.normalized.length then some (slice m.normalized v stop) else none

/-- An occurrence of a key counts only if it ends on a character boundary of the text and its
    replacement lies inside the table. -/
def keyOccurrence (m : CharsMap) (rest : Bytes) : Option (Nat × Bytes) :=
  match longestKey m rest with
  | some (n, v) => if isBoundary rest n then (replacementAt m v).map fun r => (n, r) else none
  | none => none

/-- C12's reading of "replaces exactly the sequences the map defines and leaves every other character
    unchanged", inside one grapheme: repeatedly replace the longest key that is a prefix of what is
    left, otherwise keep one character (SentencePiece's leftmost-longest rule). -/
def specGrapheme (m : CharsMap) : (fuel : Nat) → Bytes → Bytes
  | 0, _ => []
  | _, [] => []
  | fuel + 1, b :: t =>
    let g := b :: t
    match keyOccurrence m g with
    | some (n, r) => Utf8.encodeChars (Utf8.chars r) ++ specGrapheme m fuel (g.drop n)
    | none =>
      let d := Utf8.decodeOne g
      Utf8.encodeChar (d.1.getD Utf8.REPLACEMENT) ++ specGrapheme m fuel (g.drop d.2)

def normalizeSpec (m : CharsMap) (text : Bytes) (graphemes : List (Nat × Nat)) : Bytes :=
  graphemes.flatMap fun (s, e) => specGrapheme m (e - s + 1) (slice text s e)

end Kitoken.Spec
