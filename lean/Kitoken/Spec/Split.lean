/-
  Specification for C10: what each split behaviour returns, described through matches and the gaps
  between them (no folds with mutable `last`).
-/
import Kitoken.Model.Split
namespace Kitoken.Spec

open Kitoken

/-- Matches as the pattern stage delivers them: ordered, non-overlapping, within the text
    (empty matches allowed): `0 ≤ s₁ ≤ e₁ ≤ s₂ ≤ e₂ ≤ … ≤ len`. -/
def Chain (len : Nat) : (from_ : Nat) → Ranges → Prop
  | from_, [] => from_ ≤ len
  | from_, (s, e) :: rest => from_ ≤ s ∧ s ≤ e ∧ Chain len e rest

/-- The ranges tile `[from_, len)`: first starts at `from_`, each starts where the previous ended, the
    last ends at `len`. -/
def Tiles (len : Nat) : (from_ : Nat) → Ranges → Prop
  | from_, [] => from_ = len
  | from_, (s, e) :: rest => s = from_ ∧ s ≤ e ∧ Tiles len e rest

/-- Ordered, non-overlapping, in bounds (what every behaviour must return). -/
def Ordered (len : Nat) : (from_ : Nat) → Ranges → Prop
  | from_, [] => from_ ≤ len
  | from_, (s, e) :: rest => from_ ≤ s ∧ s ≤ e ∧ Ordered len e rest

/-- The non-empty gaps between matches, including the leading and trailing one. -/
def gapsSpec (len : Nat) : (from_ : Nat) → Ranges → Ranges
  | from_, [] => if from_ < len then [(from_, len)] else []
  | from_, (s, e) :: rest => (if from_ ≠ s then [(from_, s)] else []) ++ gapsSpec len e rest

/-- Isolate: every match by itself, every non-empty gap by itself, in text order. -/
def isolateSpec (len : Nat) : (from_ : Nat) → Ranges → Ranges
  | from_, [] => if from_ < len then [(from_, len)] else []
  | from_, (s, e) :: rest => (if from_ ≠ s then [(from_, s)] else []) ++ (s, e) :: isolateSpec len e rest

/-- Merge: adjacent matches (next starts where the previous ended) are first fused into one. -/
def fuseAdjacent : Ranges → Ranges
  | [] => []
  | [r] => [r]
  | (s, e) :: (s', e') :: rest => if s' = e then fuseAdjacent ((s, e') :: rest) else (s, e) :: fuseAdjacent ((s', e') :: rest)
termination_by l => l.length

/-- MergeLeft: a match that follows a non-empty gap absorbs that gap; other matches stay alone;
    a trailing gap stays alone. -/
def mergeLeftSpec (len : Nat) : (from_ : Nat) → Ranges → Ranges
  | from_, [] => if from_ < len then [(from_, len)] else []
  | from_, (_, e) :: rest => (from_, e) :: mergeLeftSpec len e rest

/-- Every boundary of the output is 0, `len`, or a boundary of some match. -/
def boundariesOf (ms : Ranges) (len : Nat) : List Nat := 0 :: len :: ms.flatMap fun (s, e) => [s, e]

end Kitoken.Spec

namespace Kitoken.Spec

open Kitoken

/-- MergeRight: every match absorbs the gap that follows it; a leading gap stays alone. -/
def mergeRightTail (len : Nat) : Ranges → Ranges
  | [] => []
  | [(s, _)] => [(s, len)]
  | (s, _) :: (s', e') :: rest => (s, s') :: mergeRightTail len ((s', e') :: rest)

def mergeRightSpec (len : Nat) (ms : Ranges) : Ranges :=
  match ms with
  | [] => [(0, len)]
  | (s, e) :: rest => (if s ≠ 0 then [(0, s)] else []) ++ mergeRightTail len ((s, e) :: rest)

/-- What the regex engine is assumed to deliver (validated at run time on every recorded call):
    matches form a chain within the text. -/
def MatchesSane (ext : SplitExt) : Prop :=
  ∀ p t ms, ext.findIter p t = some ms → Chain t.length 0 ms

end Kitoken.Spec
