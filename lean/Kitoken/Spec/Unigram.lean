/-
  Specification for C04: a segmentation of the piece into vocabulary entries along the unit
  (character) boundaries, its cost as the same left-to-right fold the code computes, optimality.
-/
import Kitoken.Model.Unigram
namespace Kitoken.Spec

open Kitoken

variable {S : Type} [Cost S]

/-- One element of a segmentation: the bytes, the id and the score of a vocabulary entry. -/
structure Entry (S : Type) where
  bytes : Bytes
  id : Id
  score : S

/-- Boundaries of the units of a piece: `0 = b₀ < b₁ < … < bₙ = len` (character starts plus the length). -/
def UnitBounds (len : Nat) : List Nat → Prop
  | [] => False
  | [a] => a = len
  | a :: b :: rest => a < b ∧ UnitBounds len (b :: rest)

/-- `seg` is a segmentation of `piece[from..to)` into vocabulary entries whose ends all lie on the
    given boundaries. -/
def IsSegFrom (tok : Bytes → Option (Id × S)) (piece : Bytes) (bounds : List Nat) :
    (start stop : Nat) → List (Entry S) → Prop
  | start, stop, [] => start = stop
  | start, stop, e :: rest =>
    ∃ mid, mid ∈ bounds ∧ start < mid ∧ mid ≤ stop ∧ e.bytes = slice piece start mid ∧
      (∃ sc, tok e.bytes = some (e.id, sc) ∧ sc = e.score) ∧ IsSegFrom tok piece bounds mid stop rest

/-- The cost of a segmentation as the code accumulates it: start from `zero`, subtract each
    entry's score in text order. -/
def cost (seg : List (Entry S)) : S := seg.foldl (fun acc e => Cost.sub acc e.score) Cost.zero

/-- Laws of the cost arithmetic that the optimality proof uses (true of `f64` without NaN,
    because IEEE subtraction is monotone; true of `Int`). -/
class LawfulCost (S : Type) [Cost S] : Prop where
  le_refl : ∀ a : S, Cost.le a a = true
  le_trans : ∀ a b c : S, Cost.le a b = true → Cost.le b c = true → Cost.le a c = true
  le_total : ∀ a b : S, Cost.le a b = true ∨ Cost.le b a = true
  sub_mono : ∀ a b s : S, Cost.le a b = true → Cost.le (Cost.sub a s) (Cost.sub b s) = true

/-- The region in which the 1e6 restart value of the code is harmless (see DESIGN.md §7 F13):
    every vocabulary score makes costs grow (scores ≤ 0), and every partial segmentation of the
    piece costs strictly less than the restart value. -/
structure BoundedCost (tok : Bytes → Option (Id × S)) (piece : Bytes) (bounds : List Nat) : Prop where
  grows : ∀ b id sc (a : S), tok b = some (id, sc) → Cost.le a (Cost.sub a sc) = true
  below_big : ∀ stop seg, IsSegFrom tok piece bounds 0 stop seg → Cost.le Cost.big (cost seg) = false

/-- What the back-walk emits, in text order: a vocabulary entry covering a stretch of units, or one
    unit at whose end no vocabulary entry ends (handled by the fallback). -/
inductive Item where
  | entry (bytes : Bytes) (id : Id)
  | hole (bytes : Bytes)

def Item.bytes : Item → Bytes
  | .entry b _ => b
  | .hole b => b

end Kitoken.Spec

namespace Kitoken.Spec

open Kitoken

variable {S : Type} [Cost S] [Inhabited S]

/-- The back-walk as a relation: entries match the text at their span and are vocabulary entries;
    a hole is exactly one unit such that no vocabulary entry ends at its end. -/
def IsWalk (tok : Bytes → Option (Id × S)) (piece : Bytes) (bounds : List Nat) :
    (start stop : Nat) → List Item → Prop
  | start, stop, [] => start = stop
  | start, stop, .entry b id :: rest =>
    ∃ mid, mid ∈ bounds ∧ start < mid ∧ mid ≤ stop ∧ b = slice piece start mid ∧
      (∃ sc, tok b = some (id, sc)) ∧ IsWalk tok piece bounds mid stop rest
  | start, stop, .hole b :: rest =>
    ∃ mid, mid ∈ bounds ∧ start < mid ∧ mid ≤ stop ∧ b = slice piece start mid ∧
      (∀ x ∈ bounds, ¬ (start < x ∧ x < mid)) ∧
      (∀ s ∈ bounds, s < mid → tok (slice piece s mid) = none) ∧ IsWalk tok piece bounds mid stop rest

/-- What the fallback list turns a hole into: the byte-level re-encoding (head `Bytes`, continuing
    with the tail of the list), the unknown token if one is defined (head `Unknown`), nothing (head
    `Skip`), otherwise the error carrying the bytes. -/
def renderHole (c : UniCtx S) (fb : List Fallback) (b : Bytes) : Res (List Id) :=
  match fb with
  | .bytes :: tail =>
    match Unigram.encodeUnigram c tail b [] [] (List.range b.length) with
    | .ok (_, ids) => .ok ids
    | .err e => .err e
    | .panic p => .panic p
  | .unknown :: _ => match c.unknown with | some u => .ok [u] | none => .err (.invalidPiece b)
  | .skip :: _ => .ok []
  | [] => .err (.invalidPiece b)

/-- Rendering of a walk. The code walks right to left, so when several holes fail the error of the
    rightmost one is returned; no partial result accompanies an error. -/
def renderWalk (c : UniCtx S) (fb : List Fallback) : List Item → Res (List Id)
  | [] => .ok []
  | item :: rest =>
    match renderWalk c fb rest with
    | .ok tail =>
      match item with
      | .entry _ id => .ok (id :: tail)
      | .hole b =>
        match renderHole c fb b with
        | .ok ids => .ok (ids ++ tail)
        | .err e => .err e
        | .panic p => .panic p
    | .err e => .err e
    | .panic p => .panic p

/-- Cost of a run of walk entries, accumulated from `base` the way the code does (the score of the entry's
    bytes is subtracted; a hole, which a run of entries does not contain, would leave the cost unchanged). -/
def runCost (tok : Bytes → Option (Id × S)) (base : S) (run : List Item) : S :=
  run.foldl (fun acc it =>
    match it with
    | .entry b _ => (match tok b with | some (_, sc) => Cost.sub acc sc | none => acc)
    | .hole _ => acc) base

/-- Cost of a segmentation accumulated from `base` (`cost seg = segCostFrom Cost.zero seg`). -/
def segCostFrom (base : S) (seg : List (Entry S)) : S := seg.foldl (fun acc e => Cost.sub acc e.score) base

/-- A run of walk items without holes. -/
def AllEntries (run : List Item) : Prop := ∀ it ∈ run, ∃ b id, it = Item.entry b id

instance : Cost Int where
  zero := 0
  big := 1000000
  sub := fun a b => a - b
  le := fun a b => decide (a ≤ b)

instance : LawfulCost Int where
  le_refl := by intro a; simp [Cost.le]
  le_trans := by intro a b c h1 h2; simp [Cost.le] at *; omega
  le_total := by intro a b; simp [Cost.le]; omega
  sub_mono := by intro a b s h; simp [Cost.le, Cost.sub] at *; omega

/-- The laws carry over to the repaired cost type (F13): `(broken, score)` compared lexicographically. -/
instance {S : Type} [Cost S] [LawfulCost S] : LawfulCost (Tainted S) where
  le_refl := by
    intro a
    show ((!a.broken && a.broken) || (a.broken == a.broken && Cost.le a.val a.val)) = true
    simp [LawfulCost.le_refl]
  le_trans := by
    intro a b c h1 h2
    have h1' : ((!a.broken && b.broken) || (a.broken == b.broken && Cost.le a.val b.val)) = true := h1
    have h2' : ((!b.broken && c.broken) || (b.broken == c.broken && Cost.le b.val c.val)) = true := h2
    show ((!a.broken && c.broken) || (a.broken == c.broken && Cost.le a.val c.val)) = true
    cases ha : a.broken <;> cases hb : b.broken <;> cases hc : c.broken <;>
      simp [ha, hb, hc] at h1' h2' ⊢
    all_goals exact LawfulCost.le_trans _ _ _ h1' h2'
  le_total := by
    intro a b
    show ((!a.broken && b.broken) || (a.broken == b.broken && Cost.le a.val b.val)) = true ∨
      ((!b.broken && a.broken) || (b.broken == a.broken && Cost.le b.val a.val)) = true
    cases ha : a.broken <;> cases hb : b.broken <;> simp
    all_goals exact LawfulCost.le_total _ _
  sub_mono := by
    intro a b s h
    have h' : ((!a.broken && b.broken) || (a.broken == b.broken && Cost.le a.val b.val)) = true := h
    show ((!a.broken && b.broken) ||
      (a.broken == b.broken && Cost.le (Cost.sub a.val s.val) (Cost.sub b.val s.val))) = true
    cases ha : a.broken <;> cases hb : b.broken <;> simp [ha, hb] at h' ⊢
    all_goals exact LawfulCost.sub_mono _ _ _ h'

end Kitoken.Spec
