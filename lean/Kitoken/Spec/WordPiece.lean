/-
  Specification for C05: greedy longest-match-first over the character boundaries of a word,
  word-initial entries at the start, continuation entries afterwards; any failure fails the whole word.
-/
import Kitoken.Model.WordPiece
namespace Kitoken.Spec

open Kitoken Kitoken.Utf8

/-- The longest vocabulary match starting at `pos`: the largest boundary `e > pos` (from `ends`, which
    is increasing) such that `bytes[pos..e)` is in the map. -/
def longestMatch (lookup : Bytes → Option Id) (bytes : Bytes) (pos : Nat) (ends : List Nat) : Option (Id × Nat) :=
  ((ends.filter (· > pos)).reverse).findSome? fun e => (lookup (slice bytes pos e)).map fun t => (t, e)

/-- Greedy tokenization from `pos`; `Except.error p` = no entry matches at position `p`.
    `fuel` bounds the number of steps (each step advances to a strictly larger boundary). -/
def greedy (c : WpCtx) (bytes : Bytes) (ends : List Nat) : (fuel : Nat) → (pos : Nat) → (first : Bool) →
    Except Nat (List Id)
  | 0, _, _ => .ok []
  | fuel + 1, pos, first =>
    if pos ≥ bytes.length then .ok []
    else
      match longestMatch (if first then c.start else c.cont) bytes pos ends with
      | some (t, e) =>
        match greedy c bytes ends fuel e false with
        | .ok ts => .ok (t :: ts)
        | .error p => .error p
      | none => .error pos

/-- Character end offsets of a word (lossy decoding as in the code; for a valid word: its character boundaries). -/
def charEnds (bytes : Bytes) : List Nat := (charIndices bytes).map (·.2.1)

/-- The whole-word specification. -/
def wordSpec (c : WpCtx) (bytes : Bytes) : Res (List Id) :=
  let ends := charEnds bytes
  if bytes.length < c.minTok ∨ (c.maxWordChars > 0 ∧ ends.length > c.maxWordChars) then
    WordPiece.failWord c bytes
  else
    match greedy c bytes ends (ends.length + 1) 0 true with
    | .ok ts => .ok ts
    | .error p => WordPiece.failWord c (bytes.drop p)

end Kitoken.Spec
