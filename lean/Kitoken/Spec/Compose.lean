/-
  Specification shared by C02/C06/C09: the encoding of a list of parts is the in-order concatenation
  of what each part yields by itself (first error wins, no partial result).
-/
import Kitoken.Spec.Pieces
namespace Kitoken.Spec

open Kitoken

/-- In-order concatenation of per-part results; the first error (or panic) in order wins. -/
def seqRes : List (Res (List Id)) → Res (List Id)
  | [] => .ok []
  | r :: rs =>
    match r with
    | .ok ids =>
      match seqRes rs with
      | .ok more => .ok (ids ++ more)
      | other => other
    | other => other

/-- A recognized special token is exactly its id; ordinary text is encoded by `piece`. -/
def perPart (piece : Bytes → Res (List Id)) (p : TextPart) : Res (List Id) :=
  if p.special != INVALID then .ok [p.special] else piece p.text

/-- Well-formed BPE context: ranks are `u32` values (`TokenRank = u32`), and the length bounds
    computed by the constructor cover every key. -/
structure BpeWF (c : BpeCtx) : Prop where
  ranks_u32 : ∀ b, Bpe.rankOf c b ≤ MAXR
  keys_bounded : ∀ b i, c.tok b = some i → c.minTok ≤ b.length ∧ b.length ≤ c.maxTok

end Kitoken.Spec
