/-
  Character-level specification of the normalization / byte clean-up steps (C11, C13): what each step
  does to the list of characters of a valid UTF-8 text. No bytes, no splices.
-/
import Kitoken.Model.Normalize
namespace Kitoken.Spec

open Kitoken

/-- Number of leading copies of `x`, at most `n`. -/
def leadingCount [DecidableEq α] (x : α) : Nat → List α → Nat
  | 0, _ => 0
  | _ + 1, [] => 0
  | n + 1, c :: cs => if c = x then leadingCount x n cs + 1 else 0

/-- Strip: at most `left` leading and at most `right` trailing copies of `ch` are removed, as many as
    there are (the trailing run is counted in what is left after the leading run). -/
def stripSpec (ch : Char) (left right : Nat) (cs : List Char) : List Char :=
  let a := leadingCount ch left cs
  let rest := cs.drop a
  let b := leadingCount ch right rest.reverse
  rest.take (rest.length - b)

/-- Extend: `left` copies are put in front and `right` copies behind; with `pad`, copies already
    present at that end (among the first `left` / last `right` characters, counted as a run from the
    end) are discounted. The right-hand count looks at the text after the left extension. -/
def extendSpec (ch : Char) (left right : Nat) (pad : Bool) (cs : List Char) : List Char :=
  let l := if pad then left - leadingCount ch left cs else left
  let cs₁ := if left > 0 then List.replicate l ch ++ cs else cs
  let r := if pad then right - leadingCount ch right cs₁.reverse else right
  if right > 0 then cs₁ ++ List.replicate r ch else cs₁

/-- No two adjacent copies of `ch`. -/
def NoAdjChar (ch : Char) : List Char → Prop
  | [] => True
  | [_] => True
  | a :: b :: t => ¬(a = ch ∧ b = ch) ∧ NoAdjChar ch (b :: t)

/-- NMT: the removed set disappears, the blanked set becomes a space, everything else is unchanged. -/
def nmtSpec (cs : List Char) : List Char :=
  (cs.filter fun c => !inRanges Generated.NMT_REMOVED c.toNat).map fun c =>
    if inRanges Generated.NMT_BLANKED c.toNat then ' ' else c

end Kitoken.Spec
