/-
  Character-level specification of the normalization / byte clean-up steps (C11, C13): what each step
  does to the list of characters of a valid UTF-8 text. No bytes, no splices.
-/
import Kitoken.Model.Normalize
namespace Kitoken.Spec

open Kitoken

/-- Number of leading copies of `x`, at most `n`. -/
def leadingCount [DecidableEq α] (x : α) : Nat → List α → Nat
  | 0, _ => 0
  | _ + 1, [] => 0
  | n + 1, c :: cs => if c = x then leadingCount x n cs + 1 else 0

/-- Strip: at most `left` leading and at most `right` trailing copies of `ch` are removed, as many as
    there are (the trailing run is counted in what is left after the leading run). -/
def stripSpec (ch : Char) (left right : Nat) (cs : List Char) : List Char :=
  let a := leadingCount ch left cs
  let rest := cs.drop a
  let b := leadingCount ch right rest.reverse
  rest.take (rest.length - b)

/-- Extend: `left` copies are put in front and `right` copies behind; with `pad`, copies already
    present at that end (among the first `left` / last `right` characters, counted as a run from the
    end) are discounted. The right-hand count looks at the text after the left extension. -/
def extendSpec (ch : Char) (left right : Nat) (pad : Bool) (cs : List Char) : List Char :=
  let l := if pad then left - leadingCount ch left cs else left
  let cs₁ := if left > 0 then List.replicate l ch ++ cs else cs
  let r := if pad then right - leadingCount ch right cs₁.reverse else right
  if right > 0 then cs₁ ++ List.replicate r ch else cs₁

/-- No two adjacent copies of `ch`. -/
def NoAdjChar (ch : Char) : List Char → Prop
  | [] => True
  | [_] => True
  | a :: b :: t => ¬(a = ch ∧ b = ch) ∧ NoAdjChar ch (b :: t)

/-- NMT: the removed set disappears, the blanked set becomes a space, everything else is unchanged. -/
def nmtSpec (cs : List Char) : List Char :=
  (cs.filter fun c => !inRanges Generated.NMT_REMOVED c.toNat).map fun c =>
    if inRanges Generated.NMT_BLANKED c.toNat then ' ' else c

/-- The sets NMT lists, written out here (C11: "NMT removes or blanks exactly its listed control and format
    characters"): removed U+0001–0008, U+000B, U+000E–001F, U+007F, U+008F, U+009F; blanked U+0000, U+000A, U+000C,
    U+000D, U+1680, U+200B–200F, U+2028, U+2029, U+2581, U+FEFF, U+FFFD. The tables regenerated from the source are
    compared with these by `C11.nmt_tables_listed`; the driver judges the implementation against these. -/
def NMT_REMOVED_LISTED : List (Nat × Nat) := [(1, 8), (14, 31), (11, 11), (127, 127), (143, 143), (159, 159)]
def NMT_BLANKED_LISTED : List (Nat × Nat) :=
  [(0, 0), (10, 10), (12, 12), (13, 13), (5760, 5760), (8203, 8207), (8232, 8232), (8233, 8233), (9601, 9601),
   (65279, 65279), (65533, 65533)]

def nmtSpecListed (cs : List Char) : List Char :=
  (cs.filter fun c => !inRanges NMT_REMOVED_LISTED c.toNat).map fun c =>
    if inRanges NMT_BLANKED_LISTED c.toNat then ' ' else c

end Kitoken.Spec
