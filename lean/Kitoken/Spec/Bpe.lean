/-
  Specification for C03: canonical BPE = repeatedly merge the leftmost adjacent pair whose
  concatenation has the best (smallest) rank, until no adjacent pair is a vocabulary entry.
  No buffers, caches, heaps or indices.
-/
import Kitoken.Model.Bpe
namespace Kitoken.Spec

open Kitoken

/-- Rank of the concatenation of two adjacent segments (`MAXR` = not a vocabulary entry). -/
def pairRank (rk : Bytes → Nat) (a b : Bytes) : Nat := rk (a ++ b)

/-- Leftmost position with the smallest pair rank among the adjacent pairs of `segs`,
    together with that rank; `none` if there is no adjacent pair. -/
def bestPair (rk : Bytes → Nat) : List Bytes → Option (Nat × Nat)
  | a :: b :: rest =>
    let r := pairRank rk a b
    match bestPair rk (b :: rest) with
    | some (i, r') => if r' < r then some (i + 1, r') else some (0, r)
    | none => some (0, r)
  | _ => none

/-- Merge the segments at positions `i` and `i + 1`. -/
def mergeAt : Nat → List Bytes → List Bytes
  | 0, a :: b :: rest => (a ++ b) :: rest
  | i + 1, a :: rest => a :: mergeAt i rest
  | _, l => l

theorem mergeAt_length_lt (i : Nat) (l : List Bytes) (h : i + 1 < l.length) :
    (mergeAt i l).length < l.length := by
  induction i generalizing l with
  | zero =>
    match l, h with
    | a :: b :: rest, _ => simp [mergeAt]
  | succ n ih =>
    match l, h with
    | a :: rest, h =>
      simp only [mergeAt, List.length_cons]
      have := ih rest (by simpa using h)
      omega

theorem bestPair_lt (rk : Bytes → Nat) (l : List Bytes) (i r : Nat) (h : bestPair rk l = some (i, r)) :
    i + 1 < l.length := by
  induction l generalizing i r with
  | nil => simp [bestPair] at h
  | cons a t ih =>
    match t, ih, h with
    | [], _, h => simp [bestPair] at h
    | b :: rest, ih, h =>
      simp only [bestPair] at h
      split at h
      · rename_i j r' hb
        split at h
        · injection h with h; injection h with h1 h2; subst h1
          have := ih j r' hb
          simp only [List.length_cons] at this ⊢; omega
        · injection h with h; injection h with h1 h2; subst h1; simp
      · injection h with h; injection h with h1 h2; subst h1; simp

/-- Canonical BPE on a list of segments. -/
def bpeSpec (rk : Bytes → Nat) (segs : List Bytes) : List Bytes :=
  match h : bestPair rk segs with
  | none => segs
  | some (i, r) => if r = MAXR then segs else bpeSpec rk (mergeAt i segs)
termination_by segs.length
decreasing_by exact mergeAt_length_lt i segs (bestPair_lt rk segs i r h)

/-- Segments of `piece` delimited by consecutive boundaries. -/
def segsOfStarts (piece : Bytes) : List Nat → List Bytes
  | a :: b :: rest => slice piece a b :: segsOfStarts piece (b :: rest)
  | _ => []

/-- Well-formed boundaries: start at 0, strictly increase, end at the length of the piece. -/
def Boundaries (len : Nat) : List Nat → Prop
  | [] => False
  | [a] => a = len
  | a :: b :: rest => a < b ∧ Boundaries len (b :: rest)

/-- Well-formed heap units `(start, width)`: consecutive (`start + width` = next start, except that the
    last unit extends to the end of the piece, possibly beyond its declared width). -/
def UnitsWF (len : Nat) : List (Nat × Nat) → Prop
  | [] => False
  | [(s, w)] => 0 < w ∧ s + w = len
  | (s, w) :: (s', w') :: rest => 0 < w ∧ s + w = s' ∧ UnitsWF len ((s', w') :: rest)

def unitStarts (len : Nat) (us : List (Nat × Nat)) : List Nat := us.map (·.1) ++ [len]

end Kitoken.Spec
