/-
  Specification of the two passes of `Kitoken::encode` (C07, C09, C01, C18): the text is cut at the
  special-token matches; each stretch between matches is handled by itself.
-/
import Kitoken.Model.Pipeline
import Kitoken.Spec.Compose
namespace Kitoken.Spec

open Kitoken

/-- Pieces of a text cut at matches: a non-empty stretch of ordinary text `[start, stop)` (with the
    flag "reaches the end of the text"), or a match. -/
inductive Cut where
  | gap (start stop : Nat) (toEnd : Bool)
  | hit (start stop : Nat)
  deriving Repr, DecidableEq

/-- Cuts of `[from_, len)` at the matches `ms` (in order): every match, and every non-empty gap
    before, between and after them. Nothing after the last match if it ends the text. -/
def cuts (len : Nat) : (from_ : Nat) → Ranges → List Cut
  | from_, [] => if from_ < len then [.gap from_ len true] else []
  | from_, (a, b) :: ms =>
    if from_ < len then
      (if a > from_ then [.gap from_ a false] else []) ++ .hit a b :: cuts len b ms
    else []

variable {S : Type}

/-- First pass, by cuts: a gap is normalized with its own text and position only; a hit is the special
    token found there (its id if admitted in this mode, otherwise ordinary text). -/
def stageAPart (tk : Tokenizer S) (ext : Ext) (text : Bytes) (enc : Bool) : Cut → Out (List TextPart)
  | .gap s e toEnd =>
    match tk.normSegment ext (slice text s e) ⟨s, toEnd⟩ with
    | .res (.ok t) => .res (.ok [⟨t, INVALID⟩])
    | .res (.err e) => .res (.err e)
    | .res (.panic p) => .res (.panic p)
    | .miss w => .miss w
  | .hit a b =>
    match tk.lookupSpecial (slice text a b) with
    | .ok sp => .res (.ok [⟨slice text a b, if Tokenizer.admitted enc sp then sp.id else INVALID⟩])
    | .err e => .res (.err e)
    | .panic p => .res (.panic p)

/-- In-order concatenation of `Out` results (first failure wins). -/
def seqOut : List (Out (List TextPart)) → Out (List TextPart)
  | [] => .res (.ok [])
  | o :: os =>
    match o with
    | .res (.ok ps) =>
      (match seqOut os with
        | .res (.ok qs) => .res (.ok (ps ++ qs))
        | other => other)
    | other => other

def stageASpec (tk : Tokenizer S) (ext : Ext) (text : Bytes) (enc : Bool) : Out (List TextPart) :=
  let ms := if tk.extractAlts.all (·.isEmpty) then [] else scanLiterals tk.extractAlts text
  seqOut ((cuts text.length 0 ms).map (stageAPart tk ext text enc))

/-- All ranges lie on character boundaries of `text`. -/
def Aligned (text : Bytes) (rs : Ranges) : Prop :=
  ∀ r ∈ rs, isBoundary text r.1 = true ∧ isBoundary text r.2 = true

/-- A special token list is well-formed for scanning: non-empty, pairwise distinct, valid UTF-8 texts
    (what `Kitoken::new` enforces, plus non-emptiness). -/
structure SpecialsWF (specials : List Special) : Prop where
  nonempty : ∀ s ∈ specials, s.bytes ≠ []
  distinct : List.Pairwise (fun a b : Special => a.bytes ≠ b.bytes) specials
  utf8 : ∀ s ∈ specials, validUtf8 s.bytes = true

end Kitoken.Spec

namespace Kitoken.Spec

open Kitoken

variable {S : Type}

/-- The second-pass matches with the special token found at each, before the mode filter. -/
def secondPassAll (tk : Tokenizer S) (ptext : Bytes) : List (Nat × Nat × Special) :=
  (scanLiterals tk.specialAlts ptext).filterMap fun (a, b) =>
    (tk.specials.find? (·.bytes == slice ptext a b)).map fun sp => (a, b, sp)

/-- Second pass for one ordinary part, by cuts: gaps are split into pieces, hits are special parts. -/
def stageBPart (tk : Tokenizer S) (ext : Ext) (ptext : Bytes) (ids : List (Nat × Nat × Id)) : Cut → Out (List TextPart)
  | .gap s e _ => tk.splitPieces ext ptext s e
  | .hit a b =>
    match ids.find? (fun m => m.1 == a && m.2.1 == b) with
    | some m => .res (.ok [⟨slice ptext a b, m.2.2⟩])
    | none => .res (.panic "unreachable")

def stageBSpecPart (tk : Tokenizer S) (ext : Ext) (enc : Bool) (p : TextPart) : Out (List TextPart) :=
  if p.special != INVALID then .res (.ok [p])
  else
    let ms := ((secondPassAll tk p.text).filter fun m => Tokenizer.admitted enc m.2.2).map fun m => (m.1, m.2.1, m.2.2.id)
    seqOut ((cuts p.text.length 0 (ms.map fun m => (m.1, m.2.1))).map (stageBPart tk ext p.text ms))

def stageBSpec (tk : Tokenizer S) (ext : Ext) (enc : Bool) (parts : List TextPart) : Out (List TextPart) :=
  seqOut (parts.map (stageBSpecPart tk ext enc))

end Kitoken.Spec
