/-
  Specification side of C15 for the Tokenizers converter's vocabulary path.
-/
import Kitoken.Model.ConvertHf
namespace Kitoken.Spec

open Kitoken Kitoken.Convert

/-- The true byte content of a vocabulary token: placeholder characters undone (ByteLevel), then the
    `<0xNN>` spelling undone (byte fallback). -/
def trueBytes (byteChars byteRunes : Bool) (b : Bytes) : Bytes :=
  let b1 := if byteChars then replaceByteChars b else b
  if byteRunes then (match runeOf b1 with | some byte => [byte] | none => b1) else b1

/-- No two tokens share an id. -/
def DistinctIds (vocab : List (Id × Bytes)) : Prop := (vocab.map (·.1)).Nodup

end Kitoken.Spec
