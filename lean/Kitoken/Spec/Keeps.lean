/-
  Specification side of C15: what a converter has to keep.
-/
import Kitoken.Model.Convert
namespace Kitoken.Spec

open Kitoken Kitoken.Convert

/-- One token of a source file as an independent parser sees it: its source id, its true byte content
    (placeholder and `<0xNN>` spellings undone), whether the source marks it unused, its score bits
    (unigram), its merge priority (byte-pair: smaller merges first) and, for special / added tokens, the kind. -/
structure SrcToken where
  id : Id
  bytes : Bytes
  unused : Bool := false
  score : Option UInt32 := none
  prio : Option Nat := none
  special : Option SpecialKind := none
  deriving Repr, DecidableEq, Inhabited

/-- The converted definition, as far as C15 speaks about it. -/
structure Converted where
  vocab : List (Id × Bytes)
  scores : List UInt32 := []
  specials : List SpecialDef
  deriving Inhabited

def Converted.entries (c : Converted) : List (Id × Bytes) := c.vocab ++ c.specials.map fun s => (s.id, s.bytes)

/-- An ordinary source token is kept under its id with its bytes — as a vocabulary entry, or as a special
    when an added token has the same text — unless it is unused or its bytes duplicate those of another
    kept entry. -/
def keptOrdinary (c : Converted) (s : SrcToken) : Bool :=
  s.unused || c.entries.contains (s.id, s.bytes) || c.entries.any fun e => e.2 == s.bytes && e.1 != s.id

/-- A special source token is a special of the result with its id and kind ("keeps special/added tokens
    as specials with their ids and kinds"; the text of the unknown token may be replaced by the surface
    form the source library prints for it), or — the only permitted id change — with its bytes and kind
    under a new id when its id belongs to a different vocabulary token of the source. -/
def keptSpecial (src : List SrcToken) (c : Converted) (s : SrcToken) (k : SpecialKind) : Bool :=
  c.specials.any fun sp => sp.kind == k &&
    ((sp.id == s.id && (sp.bytes == s.bytes || k == .unknown)) ||
     (sp.bytes == s.bytes && src.any fun v => v.special.isNone && v.id == s.id && v.bytes != s.bytes))

/-- Nothing is invented: every vocabulary entry of the result is a source token (for a source token
    about which nothing is claimed — unused, malformed — only the id is compared). -/
def fromSource (src : List SrcToken) (e : Id × Bytes) : Bool :=
  src.any fun s => s.id == e.1 && (s.bytes == e.2 || s.unused)

/-- Byte-pair vocabularies are ordered by the source's merge priority. -/
def prioOf (src : List SrcToken) (e : Id × Bytes) : Option Nat :=
  (src.find? fun s => s.id == e.1 && s.bytes == e.2).bind (·.prio)

def orderedByPriority (src : List SrcToken) : List (Id × Bytes) → Bool
  | [] => true
  | e :: rest =>
    (match prioOf src e with
      | some p => rest.all fun f => match prioOf src f with | some q => p ≤ q | none => true
      | none => true) && orderedByPriority src rest

/-- Unigram scores are kept bit for bit. -/
def scoresKept (src : List SrcToken) (c : Converted) : Bool :=
  c.scores.isEmpty || (c.vocab.zip c.scores).all fun (e, sc) =>
    match src.find? fun s => s.id == e.1 && s.bytes == e.2 with
    | some s => s.score.isNone || s.score == some sc
    | none => true

/-- The decidable form of the property, evaluated by the driver on every converted source. -/
def keepsCheck (src : List SrcToken) (c : Converted) : Bool :=
  (src.all fun s => match s.special with | none => keptOrdinary c s | some k => keptSpecial src c s k) &&
  c.vocab.all (fromSource src) && orderedByPriority src c.vocab && scoresKept src c

/-- The property as a proposition. -/
structure Keeps (src : List SrcToken) (c : Converted) : Prop where
  ordinary : ∀ s ∈ src, s.special = none → s.unused = false →
    (s.id, s.bytes) ∈ c.entries ∨ ∃ e ∈ c.entries, e.2 = s.bytes ∧ e.1 ≠ s.id
  special : ∀ s ∈ src, ∀ k, s.special = some k →
    ∃ sp ∈ c.specials, sp.kind = k ∧
      ((sp.id = s.id ∧ (sp.bytes = s.bytes ∨ k = .unknown)) ∨
       (sp.bytes = s.bytes ∧ ∃ v ∈ src, v.special = none ∧ v.id = s.id ∧ v.bytes ≠ s.bytes))
  noInvention : ∀ e ∈ c.vocab, ∃ s ∈ src, s.id = e.1 ∧ (s.bytes = e.2 ∨ s.unused = true)

end Kitoken.Spec
