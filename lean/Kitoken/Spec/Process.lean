/-
  Declarative checkers for C13 (token steps): given the input and what the implementation
  returned, decide whether the documented effect holds. Written without reference to the model
  functions, so that a verdict is independent of the model.
-/
import Kitoken.Model.Process
namespace Kitoken.Spec

open Kitoken

def anyUpTo (n : Nat) (p : Nat → Bool) : Bool := (List.range (n + 1)).any p

/-- Strip: `ts = id^a ++ out ++ id^b` with `a ≤ l`, `b ≤ r`, and both maximal. -/
def stripHolds (id : Id) (l r : Nat) (ts out : List Id) : Bool :=
  anyUpTo ts.length fun a => anyUpTo ts.length fun b =>
    a ≤ l && b ≤ r && ts == List.replicate a id ++ out ++ List.replicate b id &&
    (a ≥ l || (out ++ List.replicate b id).head? != some id) &&
    (b ≥ r || out.getLast? != some id)

/-- Collapse: reference "every maximal run of id becomes one id". -/
def collapseRef (id : Id) : List Id → List Id
  | [] => []
  | [a] => [a]
  | a :: b :: t => if a = id ∧ b = id then collapseRef id (b :: t) else a :: collapseRef id (b :: t)

def padHolds (id : Id) (n s : Nat) (d : Direction) (ts out : List Id) : Bool :=
  if n ≤ ts.length then out == ts
  else
    let k := out.length - ts.length
    (match d with
      | .left => out == List.replicate k id ++ ts
      | .right => out == ts ++ List.replicate k id) &&
    n ≤ out.length && (if s = 0 then out.length == n else out.length < n + s && k % s == 0)

def truncateHolds (n s : Nat) (d : Direction) (ts out : List Id) : Bool :=
  if ts.length ≤ n then out == ts
  else
    let k := ts.length - out.length
    out.length ≤ n &&
    (match d with
      | .left => out == ts.drop k
      | .right => out == ts.take (ts.length - k)) &&
    (s = 0 && out.length == n || s > 0 && (k == ts.length || (k % s == 0 && k < ts.length - n + s)))

def stepHolds (p : Processing) (ts out : List Id) : Bool :=
  match p with
  | .strip id l r => stripHolds id l r ts out
  | .collapse id => out == collapseRef id ts
  | .pad id n s d => padHolds id n s d ts out
  | .truncate n s d => truncateHolds n s d ts out

end Kitoken.Spec
