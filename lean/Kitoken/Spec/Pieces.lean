/-
  Piece-level specifications used for SPEC verdicts and in the theorems of C02/C03/C04/C05/C06:
  what one pre-tokenized piece must be encoded to, stated without buffers or indices.
-/
import Kitoken.Spec.Bpe
import Kitoken.Spec.Unigram
import Kitoken.Spec.WordPiece
namespace Kitoken.Spec

open Kitoken Kitoken.Utf8

/-! ### BPE with the fallback chain (C03, C06) -/

/-- Unit byte strings of a BPE piece that already carries its end-of-word suffix:
    single bytes (byte mode) or characters (character mode); the last unit owns the suffix. -/
def bpeUnits (chars : Bool) (eowLen : Nat) (piece : Bytes) : List Bytes :=
  let body := piece.length - eowLen
  let starts := if chars then charStarts (piece.take body) else List.range body
  segsOfStarts piece (starts ++ [piece.length])

/-- What the first entry of the fallback list prescribes for an unencodable stretch, apart from
    byte-level re-encoding: the unknown token if one is defined, nothing for `Skip`, otherwise the
    error carrying the bytes. -/
def fallbackLeaf (unknown : Option Id) (fb : List Fallback) (seg : Bytes) : Res (List Id) :=
  match fb with
  | .unknown :: _ => (match unknown with | some u => .ok [u] | none => .err (.invalidPiece seg))
  | .skip :: _ => .ok []
  | _ => .err (.invalidPiece seg)

/-- Tokens for the final segments: a vocabulary entry is its token; otherwise the fallback applies
    to exactly that segment. `byteRec suffixed units` re-encodes from single bytes (present iff the
    head of the list is `Bytes`). Only the last segment of a suffixed piece carries the suffix.
    The first failing segment (in text order) determines the error; no partial result. -/
def emitSegments (c : BpeCtx) (fb : List Fallback) (byteRec : Option (Bool → List Bytes → Res (List Id)))
    (suffixed : Bool) : List Bytes → Res (List Id)
  | [] => .ok []
  | seg :: rest =>
    let here : Res (List Id) :=
      match c.tok seg with
      | some t => .ok [t]
      | none =>
        match byteRec with
        | some rec =>
          let suffixed' := suffixed && rest.isEmpty
          let e := if suffixed' then (match c.eow with | some e => e.length | none => 0) else 0
          if e > seg.length then .panic "suffix longer than segment"
          else rec suffixed' (segsOfStarts seg (List.range (seg.length - e) ++ [seg.length]))
        | none => fallbackLeaf c.unknown fb seg
    match here with
    | .ok ids =>
      match emitSegments c fb byteRec suffixed rest with
      | .ok more => .ok (ids ++ more)
      | other => other
    | other => other

/-- C03 + C06 for one list of units: canonical merge, then tokens / fallback per final segment. -/
def bpeSegments (c : BpeCtx) : List Fallback → Bool → List Bytes → Res (List Id)
  | [], suffixed, units => emitSegments c [] none suffixed (bpeSpec (Bpe.rankOf c) units)
  | .bytes :: tail, suffixed, units =>
    emitSegments c (.bytes :: tail) (some (bpeSegments c tail)) suffixed (bpeSpec (Bpe.rankOf c) units)
  | .unknown :: tail, suffixed, units =>
    emitSegments c (.unknown :: tail) none suffixed (bpeSpec (Bpe.rankOf c) units)
  | .skip :: tail, suffixed, units =>
    emitSegments c (.skip :: tail) none suffixed (bpeSpec (Bpe.rankOf c) units)

/-- One BPE piece (text without the suffix): a piece that — with its suffix — is a vocabulary entry
    is that single token; otherwise the canonical merge of its units. -/
def bpePieceSpec (c : BpeCtx) (text : Bytes) : Res (List Id) :=
  let piece := text ++ (c.eow.getD [])
  match c.tok piece with
  | some t => .ok [t]
  | none => bpeSegments c c.fallback c.eow.isSome (bpeUnits c.chars (c.eow.getD []).length piece)

end Kitoken.Spec
