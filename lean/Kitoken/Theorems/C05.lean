/-
  C05 — WordPiece encoding is greedy longest-match-first with whole-word unknown.
  Property theorems only; helper lemmas live in Kitoken/Proofs/WordPieceLemmas.lean.
-/
import Kitoken.Proofs.WordPieceLemmas
namespace Kitoken.C05

open Kitoken Kitoken.WordPiece Kitoken.Spec

/-- The encoder's loop (with its `until` / `first` bookkeeping and duplicated last candidate) equals the
    greedy specification, for every vocabulary split, prefix handling, limit, fallback and word
    (valid UTF-8 or not). -/
theorem wordpiece_eq_greedy (c : WpCtx) (bytes : Bytes) : encodeWord c bytes = wordSpec c bytes :=
  Kitoken.Proofs.WordPiece.encodeWord_eq_spec c bytes

/-- Any failure is atomic: the result for a word is either the complete greedy encoding, or exactly
    what the fallback prescribes for a failed word (one unknown id, nothing, or an error) — never a
    partial encoding followed by something else. -/
theorem failure_is_atomic (c : WpCtx) (bytes : Bytes) :
    (∃ ts, greedy c bytes (charEnds bytes) ((charEnds bytes).length + 1) 0 true = .ok ts ∧
        encodeWord c bytes = .ok ts) ∨
    (∃ payload, encodeWord c bytes = failWord c payload) :=
  Kitoken.Proofs.WordPiece.failure_is_atomic c bytes

/-- A failed word yields exactly one unknown id, nothing, or an error with a payload. -/
theorem failWord_shape (c : WpCtx) (payload : Bytes) :
    failWord c payload = .ok [] ∨ (∃ u, c.unknown = some u ∧ failWord c payload = .ok [u]) ∨
      failWord c payload = .err (.invalidPiece payload) :=
  Kitoken.Proofs.WordPiece.failWord_shape c payload

/-- The guards: a word shorter than every word-initial entry, or longer than the configured
    maximum number of characters (when that limit is non-zero), fails as a whole. -/
theorem guards (c : WpCtx) (bytes : Bytes)
    (h : bytes.length < c.minTok ∨ (c.maxWordChars > 0 ∧ (charEnds bytes).length > c.maxWordChars)) :
    encodeWord c bytes = failWord c bytes :=
  Kitoken.Proofs.WordPiece.guards c bytes h

/-- A successful greedy encoding spells the word: the matched slices tile `bytes[pos..)` in order,
    the first one is a word-initial entry and the others are continuation entries. -/
theorem greedy_spells (c : WpCtx) (bytes : Bytes) (ends : List Nat) (fuel pos : Nat) (first : Bool)
    (ts : List Id) (hf : bytes.length - pos < fuel ∨ pos ≥ bytes.length)
    (hends : ∀ e ∈ ends, e ≤ bytes.length)
    (h : greedy c bytes ends fuel pos first = .ok ts) :
    ∃ cuts : List Nat, cuts.length = ts.length ∧
      List.Pairwise (· < ·) (pos :: cuts) ∧ (pos < bytes.length → (pos :: cuts).getLast? = some bytes.length) ∧
      (pos ≥ bytes.length → ts = []) ∧
      ∀ k (hk : k < ts.length),
        (if k = 0 ∧ first then c.start else c.cont)
          (slice bytes ((pos :: cuts).getD k 0) (cuts.getD k 0)) = some ts[k] :=
  Kitoken.Proofs.WordPiece.greedy_spells c bytes ends fuel pos first ts hf hends h

end Kitoken.C05
