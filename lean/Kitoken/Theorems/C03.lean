/-
  C03 — BPE applies the canonical lowest-rank-first merge order at any piece length.
  Property theorems only; helper lemmas live in Kitoken/Proofs/BpeLemmas.lean.
-/
import Kitoken.Proofs.BpeLemmas
namespace Kitoken.C03

open Kitoken Kitoken.Bpe Kitoken.Spec

/-- Fresh scratch entries for the unit boundaries `starts` (all ranks still `MAXR`). -/
def freshParts (starts : List Nat) : List RankedPart := starts.map fun s => { start := s, rank := MAXR }

/- ORIGINAL STATEMENT (FALSE as written; kept for reference):

   theorem linear_eq_spec (c : BpeCtx) (piece : Bytes) (pre : List RankedPart) (starts : List Nat)
       (h : Boundaries piece.length starts) :
       ∃ parts, mergeBpeParts c piece (pre ++ freshParts starts) pre.length = pre ++ parts ∧
         segsOfStarts piece (parts.map (·.start)) = bpeSpec (rankOf c) (segsOfStarts piece starts)

   Counterexample: `BpeCtx.rank : Bytes → Option Nat` may return a rank above `MAXR = u32::MAX` (impossible
   for the Rust `TokenRank = u32`, but not excluded by the model's type). With
   `c.rank = fun _ => some (MAXR + 1)`, `piece = [1, 2]`, `starts = [0, 1, 2]`, `pre = []`:
   the code starts its minimum scan at `MAXR`, never selects a rank `≥ MAXR` and leaves `[[1], [2]]`, whereas
   `bpeSpec` stops only on `r = MAXR` and so merges to `[[1, 2]]` (checked with `#eval`; machine-checked refutation:
   `Kitoken.Proofs.Bpe.linear_eq_spec_unrestricted_false`).
   Minimal repair: all ranks are `≤ MAXR` (hypothesis `hr`). Without `hr` the code still equals the
   specification for the ranks clamped at `MAXR` (`Kitoken.Proofs.Bpe.linear_gen`). -/

/-- Linear strategy: on a scratch buffer that already holds `pre` (entries of earlier pieces), merging the
    units of this piece leaves `pre` untouched and yields boundaries whose segments are exactly the
    canonical BPE merge of the units — for every vocabulary/rank function with ranks in the `u32` range,
    every piece and every unit boundary list (bytes or characters, last unit carrying the end-of-word suffix). -/
theorem linear_eq_spec_partial (c : BpeCtx) (piece : Bytes) (pre : List RankedPart) (starts : List Nat)
    (hr : ∀ b, rankOf c b ≤ MAXR)
    (h : Boundaries piece.length starts) :
    ∃ parts, mergeBpeParts c piece (pre ++ freshParts starts) pre.length = pre ++ parts ∧
      segsOfStarts piece (parts.map (·.start)) = bpeSpec (rankOf c) (segsOfStarts piece starts) :=
  Kitoken.Proofs.Bpe.linear_eq_spec_partial c piece pre starts hr h

/- ORIGINAL STATEMENT (FALSE as written, same reason as `linear_eq_spec`; kept for reference):

   theorem heap_eq_spec (c : BpeCtx) (piece : Bytes) (us : List (Nat × Nat)) (h : UnitsWF piece.length us) :
       (heapLoop c piece (heapInit c piece us)).map (fun n => slice piece n.start (n.start + n.width)) =
         bpeSpec (rankOf c) (segsOfStarts piece (unitStarts piece.length us))

   Counterexample: `c.rank = fun _ => some (MAXR + 1)`, `piece = [1, 2]`, `us = [(0, 1), (1, 1)]`:
   the heap minimum is the last node (rank `MAXR`), the loop stops with `[[1], [2]]`; `bpeSpec` gives `[[1, 2]]`
   (checked with `#eval`; refutation: `Kitoken.Proofs.Bpe.heap_eq_spec_unrestricted_false`).
   Minimal repair: hypothesis `hr`. Without it: `Kitoken.Proofs.Bpe.heap_gen`. -/

/-- Heap strategy: the surviving nodes, in text order, are the canonical BPE merge of the units
    (ranks in the `u32` range). -/
theorem heap_eq_spec_partial (c : BpeCtx) (piece : Bytes) (us : List (Nat × Nat))
    (hr : ∀ b, rankOf c b ≤ MAXR) (h : UnitsWF piece.length us) :
    (heapLoop c piece (heapInit c piece us)).map (fun n => slice piece n.start (n.start + n.width)) =
      bpeSpec (rankOf c) (segsOfStarts piece (unitStarts piece.length us)) :=
  Kitoken.Proofs.Bpe.heap_eq_spec_partial c piece us hr h

/-- The result does not depend on which strategy the piece length selects (no assumption on the ranks:
    both strategies ignore ranks `≥ MAXR` in the same way). -/
theorem strategy_independent (c : BpeCtx) (piece : Bytes) (us : List (Nat × Nat))
    (h : UnitsWF piece.length us) (pre : List RankedPart) :
    ∃ parts, mergeBpeParts c piece (pre ++ freshParts (unitStarts piece.length us)) pre.length = pre ++ parts ∧
      segsOfStarts piece (parts.map (·.start)) =
        (heapLoop c piece (heapInit c piece us)).map (fun n => slice piece n.start (n.start + n.width)) :=
  Kitoken.Proofs.Bpe.strategy_independent c piece us h pre

/-- Whole-piece shortcut: a piece (with its suffix) that is a vocabulary entry is that single token,
    provided the length bounds computed by the constructor cover every key. -/
theorem shortcut_iff (c : BpeCtx) (part : Bytes) (t : Id) (buffer : List RankedPart) (result : List Id)
    (hk : ∀ b i, c.tok b = some i → c.minTok ≤ b.length ∧ b.length ≤ c.maxTok)
    (ht : c.tok part = some t) :
    encodePart c part buffer result = .ok (buffer, result ++ [t]) :=
  Kitoken.Proofs.Bpe.shortcut c part t buffer result hk ht

/-- Canonical BPE never has a mergeable adjacent pair left, and it only ever concatenates
    adjacent segments (the concatenation of all segments is unchanged). -/
theorem spec_fixpoint (rk : Bytes → Nat) (segs : List Bytes) :
    (∀ i r, bestPair rk (bpeSpec rk segs) = some (i, r) → r = MAXR) ∧
    (bpeSpec rk segs).flatten = segs.flatten :=
  Kitoken.Proofs.Bpe.spec_fixpoint rk segs

end Kitoken.C03
