/-
  C15 (continued) — the vocabulary path of the Tokenizers converter (BPE, Unigram, WordPiece), for every
  parsed source and every iteration order of its hash maps.
  Property theorems only; helper lemmas live in Kitoken/Proofs/ConvertHfLemmas.lean.
-/
import Kitoken.Proofs.ConvertHfLemmas
namespace Kitoken.C15

open Kitoken Kitoken.Spec Kitoken.Convert

/-! ### undoing spellings and removing duplicates (`postSteps`) -/

/-- Every token's true byte content is the content of a kept token: nothing is lost except duplicates. -/
theorem postSteps_keeps (bc br : Bool) (vocab : List (Id × Bytes)) :
    ∀ e ∈ vocab, ∃ e' ∈ postSteps bc br vocab, e'.2 = trueBytes bc br e.2 :=
  Kitoken.Proofs.ConvertHf.postSteps_keeps bc br vocab

/-- Nothing is invented: every kept token is a source token under its own id with its true bytes. -/
theorem postSteps_no_invention (bc br : Bool) (vocab : List (Id × Bytes)) :
    ∀ e' ∈ postSteps bc br vocab, ∃ e ∈ vocab, e'.1 = e.1 ∧ e'.2 = trueBytes bc br e.2 :=
  Kitoken.Proofs.ConvertHf.postSteps_no_invention bc br vocab

/-- No two kept tokens have the same bytes (what the encoder constructors require), and the order of the kept
    tokens is the order they had. -/
theorem postSteps_nodup (bc br : Bool) (vocab : List (Id × Bytes)) :
    ((postSteps bc br vocab).map (·.2)).Nodup ∧ ((postSteps bc br vocab).map (·.1)).Sublist (vocab.map (·.1)) :=
  Kitoken.Proofs.ConvertHf.postSteps_nodup bc br vocab

/-! ### repair of colliding special ids -/

/-- The repair changes ids only: order, bytes, kinds, identifiers, scores and flags stay. A special keeps its id
    unless that id belongs to a vocabulary token with different bytes; a changed id lies above every vocabulary id
    and above the ids handed out before it. -/
theorem repairIds_spec (vocab : List (Id × Bytes)) (specials out : List SpecialDef) (maxId : Nat)
    (hmax : ∀ e ∈ vocab, e.1.toNat ≤ maxId)
    (h : repairIds vocab specials maxId = .ok out) :
    out.map (fun s => (s.bytes, s.kind, s.ident, s.score, s.extract)) =
      specials.map (fun s => (s.bytes, s.kind, s.ident, s.score, s.extract)) ∧
    ∀ i (hi : i < specials.length) (ho : i < out.length),
      ((∀ e ∈ vocab, e.1 = specials[i].id → e.2 = specials[i].bytes) → out[i].id = specials[i].id) ∧
      (out[i].id = specials[i].id ∨
        (maxId < out[i].id.toNat ∧ ∃ e ∈ vocab, e.1 = specials[i].id ∧ e.2 ≠ specials[i].bytes)) :=
  Kitoken.Proofs.ConvertHf.repairIds_spec vocab specials out maxId hmax h

/-- The ids that the repair changed are pairwise different, lie above `maxId` and differ from every vocabulary id.
    (Nothing is said about the ids of specials the repair left alone: an untouched special may already carry an
    id above the vocabulary, also one that the repair hands out — see the examples before
    `Kitoken.Proofs.ConvertHf.repairIds_fresh`.) -/
theorem repairIds_fresh (vocab : List (Id × Bytes)) (specials out : List SpecialDef) (maxId : Nat)
    (hmax : ∀ e ∈ vocab, e.1.toNat ≤ maxId)
    (h : repairIds vocab specials maxId = .ok out) :
    (((specials.zip out).filter (fun p => p.1.id != p.2.id)).map (·.2.id)).Nodup ∧
    ∀ x ∈ ((specials.zip out).filter (fun p => p.1.id != p.2.id)).map (·.2.id),
      maxId < x.toNat ∧ ∀ e ∈ vocab, e.1 ≠ x :=
  Kitoken.Proofs.ConvertHf.repairIds_fresh vocab specials out maxId hmax h

/-- With the starting value of the repaired code (above every special id as well, F24) a new id is above every id
    any special had: it cannot be the id of another special. With the old starting value (the vocabulary only) it
    could: see the two counterexamples before `Kitoken.Proofs.ConvertHf.repairIds_fresh` — found when the first
    version of `repairIds_fresh` turned out to be unprovable. -/
theorem repairIds_above_specials (vocab : List (Id × Bytes)) (specials out : List SpecialDef) (maxId : Nat)
    (hmax : ∀ e ∈ vocab, e.1.toNat ≤ maxId) (hsp : ∀ s ∈ specials, s.id.toNat ≤ maxId)
    (h : repairIds vocab specials maxId = .ok out) :
    ∀ i (hi : i < specials.length) (ho : i < out.length),
      out[i].id = specials[i].id ∨ ∀ s ∈ specials, s.id.toNat < out[i].id.toNat := by
  intro i hi ho
  rcases ((repairIds_spec vocab specials out maxId hmax h).2 i hi ho).2 with h1 | ⟨h1, _⟩
  · exact Or.inl h1
  · exact Or.inr fun s hs => Nat.lt_of_le_of_lt (hsp s hs) h1

/-! ### independence of hash iteration order (also used by C19) -/

/-- Unigram: pieces are ordered by (score, position); positions are unique, so the result is the same for every
    iteration order of the two hash maps. -/
theorem hf_unigram_order_independent (vocab : List (Bytes × UInt32)) (added : List AddedToken) (unkId : Option Id)
    (br bc : Bool)
    (pv pv' : List ((Bytes × Nat) × UInt32) → List ((Bytes × Nat) × UInt32)) (hpv : ∀ l, (pv l).Perm l) (hpv' : ∀ l, (pv' l).Perm l)
    (ps ps' : List SpecialDef → List SpecialDef) (hps : ∀ l, (ps l).Perm l) (hps' : ∀ l, (ps' l).Perm l)
    (hsc : ∀ e ∈ vocab, f32IsNaN e.2 = false) :
    (convertHfUnigram vocab added unkId br bc pv ps).map (fun o => (o.vocab, o.scores, o.specials)) =
    (convertHfUnigram vocab added unkId br bc pv' ps').map (fun o => (o.vocab, o.scores, o.specials)) :=
  Kitoken.Proofs.ConvertHf.hf_unigram_order_independent vocab added unkId br bc pv pv' hpv hpv' ps ps' hps hps' hsc

/-- Byte-pair: tokens are ordered by (merge index, id); when no two ordinary tokens share an id the result is
    the same for every iteration order — including the ids handed to colliding specials (the repair walks the
    specials in their sorted order). -/
theorem hf_bpe_order_independent (vocab : List (Bytes × Id)) (merges : List Bytes) (added : List AddedToken)
    (unkToken : Option Bytes) (bc br : Bool)
    (pv pv' : List (Id × Bytes) → List (Id × Bytes)) (hpv : ∀ l, (pv l).Perm l) (hpv' : ∀ l, (pv' l).Perm l)
    (ps ps' : List SpecialDef → List SpecialDef) (hps : ∀ l, (ps l).Perm l) (hps' : ∀ l, (ps' l).Perm l)
    (hids : DistinctIds ((lastWins vocab).map fun e => (e.2, e.1))) :
    (convertHfBpe vocab merges added unkToken bc br pv ps).map (fun o => (o.vocab, o.specials)) =
    (convertHfBpe vocab merges added unkToken bc br pv' ps').map (fun o => (o.vocab, o.specials)) :=
  Kitoken.Proofs.ConvertHf.hf_bpe_order_independent vocab merges added unkToken bc br pv pv' hpv hpv' ps ps' hps hps' hids

/-! ### Unigram scores follow the vocabulary (F22) -/

/-- The score list is as long as the vocabulary, and the score at each position is the source score of the piece
    whose id stands there. -/
theorem hf_unigram_scores_aligned (vocab : List (Bytes × UInt32)) (added : List AddedToken) (unkId : Option Id)
    (br bc : Bool) (pv : List ((Bytes × Nat) × UInt32) → List ((Bytes × Nat) × UInt32)) (hpv : ∀ l, (pv l).Perm l)
    (ps : List SpecialDef → List SpecialDef) (out : HfOut)
    (h : convertHfUnigram vocab added unkId br bc pv ps = .ok out) (hn : vocab.length < 4294967296) :
    out.scores.length = out.vocab.length ∧
    ∀ i (hi : i < out.vocab.length) (hs : i < out.scores.length),
      ∃ b, vocab[(out.vocab[i]).1.toNat]? = some (b, out.scores[i]) :=
  Kitoken.Proofs.ConvertHf.hf_unigram_scores_aligned vocab added unkId br bc pv hpv ps out h hn

end Kitoken.C15
