/-
  C15 (continued) — the Tiktoken converter from raw bytes: text format, base64, decimal ids.
  Property theorems only; helper lemmas live in Kitoken/Proofs/TiktokenLemmas.lean.
-/
import Kitoken.Proofs.TiktokenLemmas
namespace Kitoken.C15

open Kitoken Kitoken.Convert

/-- Base64 as the converter reads it inverts the standard encoding of every byte string. -/
theorem base64_roundtrip (bs : Bytes) : base64Decode (base64Encode bs) = some bs :=
  Kitoken.Proofs.Tiktoken.base64_roundtrip bs

/-- The reader accepts only canonical encodings (padding required, no stray bits): whatever it accepts
    is the encoding of what it returns, so two different texts never denote the same token bytes. -/
theorem base64_decode_canonical (s bs : Bytes) (h : base64Decode s = some bs) : base64Encode bs = s :=
  Kitoken.Proofs.Tiktoken.base64_decode_canonical s bs h

/-- Every id below 2^32 written in decimal is read back as itself. -/
theorem parseU32_digits (n : Nat) (h : n < 4294967296) : parseU32 (natDigits n) = some (UInt32.ofNat n) :=
  Kitoken.Proofs.Tiktoken.parseU32_digits n h

/-- Ids that do not fit 32 bits are rejected, not wrapped. -/
theorem parseU32_overflow_rejected (n : Nat) (h : 4294967296 ≤ n) : parseU32 (natDigits n) = none :=
  Kitoken.Proofs.Tiktoken.parseU32_overflow_rejected n h

/-- The text of a vocabulary (one `base64 SP id LF` line per entry) is read back entry for entry. -/
theorem parseTiktoken_render (entries : List (Bytes × Id)) : parseTiktoken (renderTiktoken entries) = some entries :=
  Kitoken.Proofs.Tiktoken.parseTiktoken_render entries

/-- End to end: converting the text of a vocabulary keeps every token under its id with its bytes, in
    file order (= merge priority). -/
theorem tiktoken_text_keeps (entries : List (Bytes × Id)) :
    (loadTiktoken (renderTiktoken entries)).map (·.vocab) = some (entries.map fun e => (e.2, e.1)) :=
  Kitoken.Proofs.Tiktoken.tiktoken_text_keeps entries

/-- Blank lines and carriage returns carry nothing: every line handed to the parser is non-empty and free of
    line feeds, and has no carriage return at either end. -/
theorem lines_clean (data : Bytes) : ∀ l ∈ lines data, l ≠ [] ∧ (10 : UInt8) ∉ l ∧ l.head? ≠ some 13 ∧ l.getLast? ≠ some 13 :=
  Kitoken.Proofs.Tiktoken.lines_clean data

end Kitoken.C15
