/-
  C01 — decoding an encoding returns the original text on byte-complete tokenizers.
  Property theorems only; helper lemmas live in Kitoken/Proofs/RoundTripLemmas.lean.
-/
import Kitoken.Proofs.RoundTripLemmas
namespace Kitoken.C01

open Kitoken Kitoken.Spec Kitoken.Utf8

/-! ### the declared normalization and the decode clean-up are inverse (whitespace marker) -/

/-- SentencePiece shape: normalization `[Replace " " m, Extend m 1 0]`, clean-up `[Strip m 1 0, Replace m " "]`:
    for every text that does not contain the marker itself, clean-up after normalization is the identity. -/
theorem spm_marker_inverse (next : NormExt) (dext : DecodeExt) (pos : Position) (m : Char) (cs : List Char)
    (hm : m ∉ cs) (hsp : m ≠ ' ') :
    ∃ t, normalizeSteps next pos [.replace (.string [32]) (encodeChar m), .extend m 1 0 false] (encodeChars cs) = some (.ok t) ∧
      decodeSteps dext [.strip m 1 0, .replace (.char m) [32]] t = some (.ok (encodeChars cs)) :=
  Kitoken.Proofs.RoundTrip.spm_marker_inverse next dext pos m cs hm hsp

/-- Tokenizers-library shape: normalization `[Prepend m, Replace " " m]`, clean-up `[Replace m " ", Strip ' ' 1 0]`. -/
theorem hf_marker_inverse (next : NormExt) (dext : DecodeExt) (pos : Position) (m : Char) (cs : List Char)
    (hm : m ∉ cs) (hsp : m ≠ ' ') :
    ∃ t, normalizeSteps next pos [.prepend (encodeChar m), .replace (.string [32]) (encodeChar m)] (encodeChars cs) = some (.ok t) ∧
      decodeSteps dext [.replace (.char m) [32], .strip ' ' 1 0] t = some (.ok (encodeChars cs)) :=
  Kitoken.Proofs.RoundTrip.hf_marker_inverse next dext pos m cs hm hsp

/-! ### byte-level BPE: the tokens decode to exactly the parts -/

/-- Byte-complete byte-level BPE with its decoder: every single byte is a token, merge ranks only exist
    for vocabulary entries, the decoder's vocabulary map inverts the encoder's, no suffix / prefix. -/
structure ByteCompleteBpe (c : BpeCtx) (dec : DecCtx) : Prop where
  wf : BpeWF c
  bytes : ∀ b : UInt8, (c.tok [b]).isSome = true
  byteMode : c.chars = false
  noSuffix : c.eow = none
  rank_vocab : ∀ s, (c.rank s).isSome = true → (c.tok s).isSome = true
  inv : ∀ s t, c.tok s = some t → dec.vocab t = some s
  noPrefix : dec.subwordPrefix = []

/-- In a byte-complete vocabulary every final segment of the canonical merge is a vocabulary entry,
    so no fallback arm is reachable — whatever the fallback list. -/
theorem no_fallback_reachable (c : BpeCtx) (dec : DecCtx) (h : ByteCompleteBpe c dec) (piece : Bytes) :
    ∀ seg ∈ bpeSpec (Bpe.rankOf c) (bpeUnits false 0 piece), (c.tok seg).isSome = true :=
  Kitoken.Proofs.RoundTrip.no_fallback_reachable c dec h.wf h.bytes h.rank_vocab piece

/-- Encoding a list of parts and decoding the result (special rendering on) gives back exactly the
    texts of the parts, in order: specials as their own text, ordinary pieces byte for byte. -/
theorem bpe_roundtrip_parts (c : BpeCtx) (dec : DecCtx) (h : ByteCompleteBpe c dec) (parts : List TextPart)
    (hne : ∀ p ∈ parts, p.special = INVALID → p.text ≠ [])
    (hsp : ∀ p ∈ parts, p.special ≠ INVALID → dec.vocab p.special = none ∧ ∃ ctl, dec.special p.special = some (p.text, ctl)) :
    ∃ ids, Bpe.encode c parts = .ok ids ∧
      decodeDirect dec true ids [] = .ok (parts.flatMap fun p => p.text) :=
  Kitoken.Proofs.RoundTrip.bpe_roundtrip_parts c dec h.wf h.bytes h.byteMode h.noSuffix h.rank_vocab h.inv parts hne hsp

/-! ### the second pass loses no text when the split tiles -/

/-- If pre-tokenization tiles every stretch it is given (Isolate / Merge / MergeLeft / MergeRight or no
    split — C10) on character boundaries, the texts of the parts handed to the encoder concatenate to
    the texts of the first-pass parts: nothing is lost, duplicated or reordered between the passes. -/
theorem second_pass_preserves_text {S : Type} (tk : Tokenizer S) (ext : Ext) (enc : Bool) (parts out : List TextPart)
    (htile : ∀ seg rs, configSplit ext.split tk.config.split seg = some rs →
      Tiles seg.length 0 rs ∧ Aligned seg rs)
    (hv : ∀ p ∈ parts, p.special = INVALID → ∃ cs, p.text = encodeChars cs)
    (hw : SpecialsWF tk.specials)
    (h : tk.stageB ext enc parts [] = .res (.ok out)) :
    (out.flatMap fun p => p.text) = (parts.flatMap fun p => p.text) :=
  Kitoken.Proofs.RoundTrip.second_pass_preserves_text tk ext enc parts out htile hv hw h

end Kitoken.C01
