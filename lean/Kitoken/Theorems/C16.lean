/-
  C16 — converted reference models reproduce the recorded outputs; the three Llama 2 sources agree.
  Property theorems only; helper lemmas live in Kitoken/Proofs/SourcesLemmas.lean.

  The first half of the property quantifies over a finite recorded table (22 convertible reference
  models x three corpora). It is decided by evaluation, not by a theorem: the check runs the
  implementation and the compiled Lean model on every recorded input and compares both with the
  record (REC ops; DESIGN.md §6 C16). A kernel proof by `decide` over 30k-250k-entry vocabularies is
  out of reach. The second half quantifies over all texts; the theorems below carry the part of it
  that is a fact about the pipeline rather than about one vocabulary.
-/
import Kitoken.Proofs.SourcesLemmas
namespace Kitoken.C16

open Kitoken Kitoken.Utf8

/-- A tokenizer does not depend on its definition's metadata: two definitions with the same model,
    special tokens and configuration (the SentencePiece-converted Llama 2 and the shipped native file
    are such a pair; the check compares them field by field on every run) build the same tokenizer —
    hence encode and decode every input identically, with no exception for special-token strings. -/
theorem same_definition_same_tokenizer (d d' : Definition) (hm : d.model = d'.model)
    (hs : d.specials = d'.specials) (hc : d.config = d'.config) : Tokenizer.new d = Tokenizer.new d' :=
  Kitoken.Proofs.Sources.new_ignores_metadata d d' hm hs hc

theorem same_definition_same_encoding (d d' : Definition) (hm : d.model = d'.model)
    (hs : d.specials = d'.specials) (hc : d.config = d'.config) (tk tk' : Tokenizer Score)
    (h : Tokenizer.new d = .ok tk) (h' : Tokenizer.new d' = .ok tk') (ext : Ext) (text : Bytes) (s : Bool) :
    tk.encode ext text s = tk'.encode ext text s := by
  rw [same_definition_same_tokenizer d d' hm hs hc, h'] at h
  injection h with h; subst h; rfl

/-- The SentencePiece-style and the Tokenizers-style whitespace-marker normalizations (Llama 2 from
    its `.model` and from its JSON; the JSON's pattern is the regex `" "`, taken here as the literal it
    denotes) produce the same normalized text for every input. -/
theorem marker_normalizations_agree (next : NormExt) (pos : Position) (m : Char) (cs : List Char) (hsp : m ≠ ' ') :
    normalizeSteps next pos [.replace (.string [32]) (encodeChar m), .extend m 1 0 false] (encodeChars cs) =
    normalizeSteps next pos [.prepend (encodeChar m), .replace (.string [32]) (encodeChar m)] (encodeChars cs) := by
  rw [Kitoken.Proofs.Sources.spm_norm, Kitoken.Proofs.Sources.hf_norm next pos m cs hsp]

/-- The hypothesis is met by the marker in use. -/
example : (Char.ofNat 0x2581) ≠ ' ' := by decide

end Kitoken.C16
