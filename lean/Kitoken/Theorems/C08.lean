/-
  C08 — decoding maps ids to bytes in order, filters control tokens, rejects unknown ids.
-/
import Kitoken.Spec.Decoder
namespace Kitoken.C08

open Kitoken Kitoken.Spec

/-! ### helper facts (local to this file; all about the model loop with an accumulator) -/

private theorem direct_acc (c : DecCtx) (ds : Bool) (ts : List Id) (acc : Bytes) :
    decodeDirect c ds ts acc =
      match firstInvalid c ds ts with
      | some t => .err (.invalidToken t)
      | none => .ok (acc ++ ts.flatMap fun t => (bytesOf c ds t).getD []) := by
  induction ts generalizing acc with
  | nil => simp [decodeDirect, firstInvalid]
  | cons t ts ih =>
    simp only [decodeDirect, firstInvalid, List.flatMap_cons]
    cases hv : c.vocab t with
    | some b =>
      have hb : bytesOf c ds t = some b := by simp [bytesOf, hv]
      simp only [hb, Option.isSome_some, if_true, Option.getD_some]
      rw [ih]
      cases firstInvalid c ds ts <;> simp
    | none =>
      cases hs : c.special t with
      | none =>
        have hb : bytesOf c ds t = none := by simp [bytesOf, hv, hs]
        simp [hb]
      | some p =>
        obtain ⟨b, isControl⟩ := p
        by_cases hk : (!isControl || ds) = true
        · have hb : bytesOf c ds t = some b := by simp [bytesOf, hv, hs, hk]
          simp only [hb, hk, Option.isSome_some, if_true, Option.getD_some]
          rw [ih]
          cases firstInvalid c ds ts <;> simp
        · have hb : bytesOf c ds t = some [] := by simp [bytesOf, hv, hs, hk]
          have hk' : (!isControl || ds) = false := by simpa using hk
          simp only [hb, hk', Option.isSome_some, if_true, Option.getD_some, Bool.false_eq_true, if_false]
          rw [ih]
          cases firstInvalid c ds ts <;> simp

private theorem prefix_acc (c : DecCtx) (ds : Bool) (ts : List Id) (acc : Bytes) :
    decodeWithPrefix c ds ts acc =
      match firstInvalid c ds ts with
      | some t => .err (.invalidToken t)
      | none => .ok (prefixSpecFrom c ds ts acc) := by
  induction ts generalizing acc with
  | nil => simp [decodeWithPrefix, firstInvalid, prefixSpecFrom]
  | cons t ts ih =>
    simp only [decodeWithPrefix, firstInvalid, prefixSpecFrom]
    cases hv : c.vocab t with
    | some b =>
      have hb : bytesOf c ds t = some b := by simp [bytesOf, hv]
      have hsp : spaceBefore c t = !startsWith b c.subwordPrefix := by simp [spaceBefore, hv]
      simp only [hb, hsp, Option.isSome_some, if_true, Option.getD_some]
      rw [ih]
      cases firstInvalid c ds ts with
      | some _ => rfl
      | none =>
        by_cases h1 : (!acc.isEmpty && !startsWith b c.subwordPrefix) = true <;> simp [h1]
    | none =>
      have hsp : spaceBefore c t = true := by simp [spaceBefore, hv]
      cases hs : c.special t with
      | none =>
        have hb : bytesOf c ds t = none := by simp [bytesOf, hv, hs]
        simp [hb]
      | some p =>
        obtain ⟨b, isControl⟩ := p
        by_cases hk : (!isControl || ds) = true
        · have hb : bytesOf c ds t = some b := by simp [bytesOf, hv, hs, hk]
          simp only [hb, hk, hsp, Option.isSome_some, if_true, Option.getD_some, Bool.and_true]
          rw [ih]
          cases firstInvalid c ds ts with
          | some _ => rfl
          | none => by_cases h1 : (!acc.isEmpty) = true <;> simp [h1]
        · have hb : bytesOf c ds t = some [] := by simp [bytesOf, hv, hs, hk]
          have hk' : (!isControl || ds) = false := by simpa using hk
          simp only [hb, hk', hsp, Option.isSome_some, if_true, Option.getD_some, Bool.and_true, Bool.false_eq_true, if_false]
          rw [ih]
          cases firstInvalid c ds ts with
          | some _ => rfl
          | none => by_cases h1 : (!acc.isEmpty) = true <;> simp [h1]

/-! ### property theorems -/

/-- Without a continuation prefix decoding is the in-order concatenation of the ids' byte strings,
    or an error naming the first id that is neither in the vocabulary nor a special token. -/
theorem decode_direct_eq_flatMap (c : DecCtx) (ds : Bool) (ts : List Id) :
    decodeDirect c ds ts [] = decodeSpec c ds ts := by
  rw [direct_acc]; unfold decodeSpec
  cases firstInvalid c ds ts <;> simp

/-- With a continuation prefix the output is characterized exactly by the spacing rule. -/
theorem prefix_spacing (c : DecCtx) (ds : Bool) (ts : List Id) :
    decodeWithPrefix c ds ts [] = decodePrefixSpec c ds ts := by
  rw [prefix_acc]; rfl

/-- The decoder equals its specification in both modes. -/
theorem decoder_eq_spec (c : DecCtx) (ts : List Id) (ds : Bool) :
    Decoder.decode c ts ds = decoderSpec c ts ds := by
  unfold Decoder.decode decoderSpec
  by_cases h : c.subwordPrefix.isEmpty = true
  · simp only [h, Bool.not_true, Bool.false_eq_true, if_false, if_true]; exact decode_direct_eq_flatMap c ds ts
  · simp only [h, Bool.not_false, Bool.not_eq_true] at *
    simp only [h, if_true, Bool.false_eq_true, if_false]; exact prefix_spacing c ds ts

/-- No id sequence panics: the result is always bytes or a decode error. -/
theorem decode_total (c : DecCtx) (ts : List Id) (ds : Bool) : (Decoder.decode c ts ds).isPanic = false := by
  rw [decoder_eq_spec]; unfold decoderSpec decodeSpec decodePrefixSpec
  split <;> split <;> rfl

/-- An error names the first invalid id, and an error occurs exactly when there is one. -/
theorem decode_error_first_invalid (c : DecCtx) (ts : List Id) (ds : Bool) :
    (∀ e, Decoder.decode c ts ds = .err e → firstInvalid c ds ts = some (match e with | .invalidToken t => t | _ => 0) ∧
        ∃ t, e = .invalidToken t) ∧
    (∀ t, firstInvalid c ds ts = some t → Decoder.decode c ts ds = .err (.invalidToken t)) := by
  rw [decoder_eq_spec]; unfold decoderSpec decodeSpec decodePrefixSpec
  constructor
  · intro e he
    split at he <;> split at he <;> first
      | (injection he with he; subst he; rename_i t ht; exact ⟨ht, t, rfl⟩)
      | cases he
  · intro t ht
    split <;> simp [ht]

/-- `firstInvalid` really is the first id without bytes: everything before it has bytes. -/
theorem firstInvalid_spec (c : DecCtx) (ds : Bool) (ts : List Id) (t : Id)
    (h : firstInvalid c ds ts = some t) :
    ∃ pre post, ts = pre ++ t :: post ∧ (∀ x ∈ pre, (bytesOf c ds x).isSome) ∧ bytesOf c ds t = none := by
  induction ts with
  | nil => simp [firstInvalid] at h
  | cons a as ih =>
    simp only [firstInvalid] at h
    split at h
    · rename_i ha
      obtain ⟨pre, post, h1, h2, h3⟩ := ih h
      exact ⟨a :: pre, post, by simp [h1], by
        intro x hx
        rcases List.mem_cons.mp hx with rfl | hx
        · exact ha
        · exact h2 x hx, h3⟩
    · rename_i ha
      injection h with h; subst h
      exact ⟨[], as, rfl, by simp, by simpa using ha⟩

/-- Homomorphism (no prefix, before clean-up): decoding a concatenation is the concatenation of decodings. -/
theorem decode_append (c : DecCtx) (ds : Bool) (a b : List Id) (x y : Bytes)
    (ha : decodeDirect c ds a [] = .ok x) (hb : decodeDirect c ds b [] = .ok y) :
    decodeDirect c ds (a ++ b) [] = .ok (x ++ y) := by
  rw [direct_acc] at ha hb ⊢
  have hfi : ∀ l₁ l₂, firstInvalid c ds (l₁ ++ l₂) =
      match firstInvalid c ds l₁ with | some t => some t | none => firstInvalid c ds l₂ := by
    intro l₁ l₂
    induction l₁ with
    | nil => simp [firstInvalid]
    | cons h t ih => simp only [List.cons_append, firstInvalid]; split <;> simp [ih]
  rw [hfi]
  cases h1 : firstInvalid c ds a with
  | some t => simp [h1] at ha
  | none =>
    cases h2 : firstInvalid c ds b with
    | some t => simp [h2] at hb
    | none =>
      simp only [h1, h2] at ha hb ⊢
      injection ha with ha; injection hb with hb
      simp only [List.nil_append] at ha hb
      simp [List.flatMap_append, ha, hb]

/-- …and if either part fails, so does the whole (with the first failing id). -/
theorem decode_append_err (c : DecCtx) (ds : Bool) (a b : List Id) (t : Id)
    (ha : decodeDirect c ds a [] = .err (.invalidToken t)) :
    decodeDirect c ds (a ++ b) [] = .err (.invalidToken t) := by
  rw [direct_acc] at ha ⊢
  have hfi : ∀ l₁ l₂, firstInvalid c ds (l₁ ++ l₂) =
      match firstInvalid c ds l₁ with | some t => some t | none => firstInvalid c ds l₂ := by
    intro l₁ l₂
    induction l₁ with
    | nil => simp [firstInvalid]
    | cons h t ih => simp only [List.cons_append, firstInvalid]; split <;> simp [ih]
  rw [hfi]
  cases h1 : firstInvalid c ds a with
  | some u => simp only [h1] at ha ⊢; exact ha
  | none => simp [h1] at ha

/-- Control tokens contribute bytes iff special decoding is on; other specials always do;
    a vocabulary entry shadows a special token with the same id. -/
theorem control_filtered_iff (c : DecCtx) (ds : Bool) (t : Id) (b : Bytes) (isControl : Bool)
    (hv : c.vocab t = none) (hs : c.special t = some (b, isControl)) :
    bytesOf c ds t = some (if isControl && !ds then [] else b) := by
  unfold bytesOf; rw [hv, hs]; cases isControl <;> cases ds <;> rfl

theorem vocab_shadows_special (c : DecCtx) (ds : Bool) (t : Id) (b : Bytes) (hv : c.vocab t = some b) :
    bytesOf c ds t = some b := by
  unfold bytesOf; rw [hv]

/-- Non-vacuity: a small decoder with a vocabulary entry, a control token and a priority token. -/
def exCtx : DecCtx where
  vocab := fun t => if t = 1 then some [104, 105] else if t = 2 then some [35, 35, 33] else none
  special := fun t => if t = 7 then some ([60, 115, 62], true) else if t = 8 then some ([60, 112, 62], false) else none
  subwordPrefix := []

example : Decoder.decode exCtx [1, 7, 8, 2] false = .ok [104, 105, 60, 112, 62, 35, 35, 33] := by decide
example : Decoder.decode exCtx [1, 7, 8, 2] true = .ok [104, 105, 60, 115, 62, 60, 112, 62, 35, 35, 33] := by decide
example : Decoder.decode exCtx [1, 9, 10] true = .err (.invalidToken 9) := by decide
example : Decoder.decode { exCtx with subwordPrefix := [35, 35] } [1, 1, 2, 7, 8] false =
    .ok [104, 105, 32, 104, 105, 35, 35, 33, 32, 32, 60, 112, 62] := by decide

end Kitoken.C08
