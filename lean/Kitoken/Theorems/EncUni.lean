/-
  Part-level theorems for the Unigram encoder, shared by C02, C06, C09, C18.
  Helper lemmas live in Kitoken/Proofs/UnigramEncodeLemmas.lean.
-/
import Kitoken.Proofs.UnigramEncodeLemmas
namespace Kitoken.EncUni

open Kitoken Kitoken.Unigram Kitoken.Spec Kitoken.Utf8

variable {S : Type} [Cost S] [Inhabited S]

/-- What one piece yields by itself: the encoder on fresh scratch buffers. -/
def uniPieceSpec (c : UniCtx S) (text : Bytes) : Res (List Id) :=
  match encodeUnigram c c.fallback text [] [] (charStarts text) with
  | .ok (_, ids) => .ok ids
  | .err e => .err e
  | .panic p => .panic p

/-- Vocabulary facts established by the constructor. -/
structure UniWF (c : UniCtx S) : Prop where
  ids_valid : ∀ b id sc, c.tok b = some (id, sc) → id ≠ INVALID
  keys_bounded : ∀ b id sc, c.tok b = some (id, sc) → b.length ≤ c.maxTok

/-- The boundaries the encoder uses for a piece (character starts plus the length) are well-formed unit
    bounds, for every byte string (valid UTF-8 or not). -/
theorem charStarts_bounds (text : Bytes) :
    UnitBounds text.length (charStarts text ++ [text.length]) ∧
      (charStarts text ++ [text.length]).head? = some 0 :=
  Kitoken.Proofs.UnigramEncode.charStarts_bounds text

/-- C09 for Unigram: the encoding of a list of parts is the in-order concatenation of the encodings
    of the parts taken alone; nothing carries over between parts. -/
theorem unigram_encode_eq_flatMap (c : UniCtx S) (parts : List TextPart) :
    Unigram.encode c parts = seqRes (parts.map (perPart (uniPieceSpec c))) :=
  Kitoken.Proofs.UnigramEncode.encode_eq_flatMap c parts

/-- The Unigram encoder never panics (the `sub_end -= width` underflow site is unreachable), for
    every fallback list, piece and cost type. -/
theorem unigram_no_panic (c : UniCtx S) (hw : UniWF c) (parts : List TextPart) :
    (Unigram.encode c parts).isPanic = false :=
  Kitoken.Proofs.UnigramEncode.no_panic c hw.ids_valid hw.keys_bounded parts

/-- A walk covers the piece: the byte strings of its items concatenate to the piece, in order. -/
theorem walk_covers (tok : Bytes → Option (Id × S)) (piece : Bytes) (bounds : List Nat) (start stop : Nat)
    (items : List Item) (hs : start ≤ stop) (hstop : stop ≤ piece.length)
    (h : IsWalk tok piece bounds start stop items) :
    (items.map Item.bytes).flatten = slice piece start stop :=
  Kitoken.Proofs.UnigramEncode.walk_covers tok piece bounds start stop items hs hstop h

/-- C02 for Unigram (no fallback fired): if the walk has no hole, the tokens, mapped back through any
    left inverse of the vocabulary map, spell the piece. -/
theorem unigram_spelling (c : UniCtx S) (fb : List Fallback) (inv : Id → Option Bytes)
    (hinv : ∀ b id sc, c.tok b = some (id, sc) → inv id = some b)
    (piece : Bytes) (bounds : List Nat) (items : List Item) (ids : List Id)
    (hw : IsWalk c.tok piece bounds 0 piece.length items)
    (hno : ∀ it ∈ items, ∃ b id, it = .entry b id)
    (h : renderWalk c fb items = .ok ids) :
    (ids.map fun t => (inv t).getD []).flatten = piece :=
  Kitoken.Proofs.UnigramEncode.spelling c fb inv hinv piece bounds items ids hw hno h

end Kitoken.EncUni
