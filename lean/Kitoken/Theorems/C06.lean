/-
  C06 — unencodable text follows the configured fallback chain, in order.
  The specification of the chain is `Spec.emitSegments` / `Spec.bpeSegments` (BPE), `Spec.renderWalk` /
  `Spec.renderHole` (Unigram) and `WordPiece.failWord` (WordPiece): the head of the list is consulted;
  `Bytes` re-encodes exactly the unencodable stretch from its single bytes in their original order and
  hands the tail of the list to that re-encoding; `Unknown` applies only if an unknown token is
  defined; `Skip` drops the stretch; anything else is the error carrying the offending bytes.
-/
import Kitoken.Theorems.EncBpe
import Kitoken.Theorems.EncUni
import Kitoken.Theorems.C04
import Kitoken.Theorems.C05
namespace Kitoken.C06

open Kitoken Kitoken.Spec

/-! ### the leaf cases of the chain -/

/-- What the head of the list does to an unencodable stretch when it is not `Bytes` (BPE):
    `Unknown` gives the unknown token only if one is defined, `Skip` drops the stretch, every other
    situation (empty list, `Unknown` without an unknown token, `Bytes` where no byte level exists) is
    the error that carries exactly the offending bytes. -/
theorem leaf_cases (unknown : Option Id) (fb : List Fallback) (seg : Bytes) :
    (∃ tail u, fb = .unknown :: tail ∧ unknown = some u ∧ fallbackLeaf unknown fb seg = .ok [u]) ∨
    (∃ tail, fb = .skip :: tail ∧ fallbackLeaf unknown fb seg = .ok []) ∨
    (fallbackLeaf unknown fb seg = .err (.invalidPiece seg) ∧
      (fb = [] ∨ (∃ tail, fb = .unknown :: tail ∧ unknown = none) ∨ ∃ tail, fb = .bytes :: tail)) := by
  unfold fallbackLeaf
  match fb, unknown with
  | [], _ => exact Or.inr (Or.inr ⟨rfl, Or.inl rfl⟩)
  | .unknown :: tail, some u => exact Or.inl ⟨tail, u, rfl, rfl, rfl⟩
  | .unknown :: tail, none => exact Or.inr (Or.inr ⟨rfl, Or.inr (Or.inl ⟨tail, rfl, rfl⟩)⟩)
  | .skip :: tail, _ => exact Or.inr (Or.inl ⟨tail, rfl, rfl⟩)
  | .bytes :: tail, _ => exact Or.inr (Or.inr ⟨rfl, Or.inr (Or.inr ⟨tail, rfl⟩)⟩)

/-- The same for Unigram holes, including the byte level: `Bytes` re-encodes the hole's bytes
    `0, 1, …, n-1` in that order with the tail of the list. -/
theorem hole_cases {S : Type} [Cost S] [Inhabited S] (c : UniCtx S) (fb : List Fallback) (b : Bytes) :
    (∃ tail, fb = .bytes :: tail ∧
        renderHole c fb b = (match Unigram.encodeUnigram c tail b [] [] (List.range b.length) with
          | .ok (_, ids) => .ok ids | .err e => .err e | .panic p => .panic p)) ∨
    (∃ tail u, fb = .unknown :: tail ∧ c.unknown = some u ∧ renderHole c fb b = .ok [u]) ∨
    (∃ tail, fb = .skip :: tail ∧ renderHole c fb b = .ok []) ∨
    (renderHole c fb b = .err (.invalidPiece b) ∧ (fb = [] ∨ ∃ tail, fb = .unknown :: tail ∧ c.unknown = none)) := by
  unfold renderHole
  cases hu : c.unknown with
  | none =>
    match fb with
    | [] => exact Or.inr (Or.inr (Or.inr ⟨rfl, Or.inl rfl⟩))
    | .bytes :: tail => exact Or.inl ⟨tail, rfl, rfl⟩
    | .unknown :: tail => exact Or.inr (Or.inr (Or.inr ⟨rfl, Or.inr ⟨tail, rfl, rfl⟩⟩))
    | .skip :: tail => exact Or.inr (Or.inr (Or.inl ⟨tail, rfl, rfl⟩))
  | some u =>
    match fb with
    | [] => exact Or.inr (Or.inr (Or.inr ⟨rfl, Or.inl rfl⟩))
    | .bytes :: tail => exact Or.inl ⟨tail, rfl, rfl⟩
    | .unknown :: tail => exact Or.inr (Or.inl ⟨tail, u, rfl, rfl, rfl⟩)
    | .skip :: tail => exact Or.inr (Or.inr (Or.inl ⟨tail, rfl, rfl⟩))

/-! ### the encoders follow the chain -/

/-- BPE, short pieces: the tokens appended are the chain applied to exactly the final segments that
    are not vocabulary entries; encodable neighbours keep their tokens; an error carries the same
    bytes and no partial result. (`Spec.bpeSegments` spells the chain out.) -/
theorem bpe_follows_chain (c : BpeCtx) (hr : ∀ b, Bpe.rankOf c b ≤ MAXR) (fb : List Fallback) (piece : Bytes)
    (pre : List RankedPart) (res : List Id) (indices : List Nat) (suffixed : Bool)
    (hb : Boundaries piece.length (indices ++ [piece.length])) :
    match bpeSegments c fb suffixed (segsOfStarts piece (indices ++ [piece.length])) with
    | .ok ids => ∃ buf, Bpe.encodePairs c fb piece pre res indices suffixed = .ok (buf, res ++ ids) ∧
                   buf.take pre.length = pre
    | .err e => Bpe.encodePairs c fb piece pre res indices suffixed = .err e
    | .panic _ => ∃ q, Bpe.encodePairs c fb piece pre res indices suffixed = .panic q :=
  EncBpe.encodePairs_eq_spec c hr fb piece pre res indices suffixed hb

/-- BPE, long pieces (heap strategy): the same chain. -/
theorem bpe_heap_follows_chain (c : BpeCtx) (hr : ∀ b, Bpe.rankOf c b ≤ MAXR) (fb : List Fallback) (piece : Bytes)
    (pre : List RankedPart) (res : List Id) (us : List (Nat × Nat)) (suffixed : Bool)
    (hu : UnitsWF piece.length us) :
    match bpeSegments c fb suffixed (segsOfStarts piece (unitStarts piece.length us)) with
    | .ok ids => ∃ buf, Bpe.encodePairsHeap c fb piece pre res us suffixed = .ok (buf, res ++ ids) ∧
                   buf.take pre.length = pre
    | .err e => Bpe.encodePairsHeap c fb piece pre res us suffixed = .err e
    | .panic _ => ∃ q, Bpe.encodePairsHeap c fb piece pre res us suffixed = .panic q :=
  EncBpe.encodePairsHeap_eq_spec c hr fb piece pre res us suffixed hu

/-- Unigram: the result is the rendering of a walk whose holes are exactly the characters at whose end
    no vocabulary entry ends; each hole goes through the chain (`hole_cases`), bytes in order. -/
theorem unigram_follows_chain {S : Type} [Cost S] [Inhabited S] (c : UniCtx S) (fb : List Fallback) (piece : Bytes)
    (indices : List Nat) (pre : List (SizedPart S)) (res0 : List Id)
    (hb : UnitBounds piece.length (indices ++ [piece.length]))
    (h0 : (indices ++ [piece.length]).head? = some 0)
    (hid : ∀ b id sc, c.tok b = some (id, sc) → id ≠ INVALID)
    (hmax : ∀ b id sc, c.tok b = some (id, sc) → b.length ≤ c.maxTok) :
    ∃ items, IsWalk c.tok piece (indices ++ [piece.length]) 0 piece.length items ∧
      (match renderWalk c fb items with
        | .ok ids => ∃ buffer', Unigram.encodeUnigram c fb piece pre res0 indices = .ok (buffer', res0 ++ ids) ∧
                       buffer'.take pre.length = pre
        | .err e => Unigram.encodeUnigram c fb piece pre res0 indices = .err e
        | .panic p => Unigram.encodeUnigram c fb piece pre res0 indices = .panic p) :=
  C04.unigram_walk c fb piece indices pre res0 hb h0 hid hmax

/-- WordPiece: a word either is encoded completely or yields exactly what the chain prescribes for
    the whole word (one unknown id if defined, nothing for `Skip`, otherwise the error). -/
theorem wordpiece_follows_chain (c : WpCtx) (bytes : Bytes) :
    (∃ ts, greedy c bytes (charEnds bytes) ((charEnds bytes).length + 1) 0 true = .ok ts ∧
        WordPiece.encodeWord c bytes = .ok ts) ∨
    (∃ payload, WordPiece.encodeWord c bytes = WordPiece.failWord c payload ∧
      (WordPiece.failWord c payload = .ok [] ∨ (∃ u, c.unknown = some u ∧ WordPiece.failWord c payload = .ok [u]) ∨
        WordPiece.failWord c payload = .err (.invalidPiece payload))) := by
  rcases C05.failure_is_atomic c bytes with h | ⟨payload, h⟩
  · exact Or.inl h
  · exact Or.inr ⟨payload, h, C05.failWord_shape c payload⟩

/-! ### no panic on any fallback list -/

theorem bpe_no_panic (c : BpeCtx) (hw : BpeWF c) (parts : List TextPart)
    (hne : ∀ p ∈ parts, p.special = INVALID → p.text ≠ []) : (Bpe.encode c parts).isPanic = false :=
  EncBpe.bpe_no_panic c hw parts hne

theorem unigram_no_panic {S : Type} [Cost S] [Inhabited S] (c : UniCtx S) (hw : EncUni.UniWF c) (parts : List TextPart) :
    (Unigram.encode c parts).isPanic = false :=
  EncUni.unigram_no_panic c hw parts

theorem wordpiece_no_panic (c : WpCtx) (parts : List TextPart) : (WordPiece.encode c parts).isPanic = false := by
  rw [EncBpe.wordpiece_encode_eq_flatMap]
  induction parts with
  | nil => rfl
  | cons p ps ih =>
    simp only [List.map_cons, seqRes]
    have hp : (perPart (WordPiece.encodeWord c) p).isPanic = false := by
      unfold perPart
      split
      · rfl
      · rcases wordpiece_follows_chain c p.text with ⟨ts, _, h⟩ | ⟨payload, h, hs⟩
        · rw [h]; rfl
        · rw [h]; rcases hs with h1 | ⟨u, _, h1⟩ | h1 <;> rw [h1] <;> rfl
    match hq : perPart (WordPiece.encodeWord c) p with
    | .ok ids =>
      simp only []
      match hr : seqRes (List.map (perPart (WordPiece.encodeWord c)) ps) with
      | .ok more => rfl
      | .err e => rfl
      | .panic q => rw [hr] at ih; exact absurd ih (by simp [Res.isPanic])
    | .err e => rfl
    | .panic q => rw [hq] at hp; exact absurd hp (by simp [Res.isPanic])

end Kitoken.C06
