/-
  C15 (continued) — the vocabulary path of the SentencePiece converter, for every parsed model and every
  iteration order of its hash maps.
  Property theorems only; helper lemmas live in Kitoken/Proofs/ConvertSpLemmas.lean.
-/
import Kitoken.Proofs.ConvertSpLemmas
namespace Kitoken.C15

open Kitoken Kitoken.Spec Kitoken.Convert

/-! `pieceBytes p` — the true bytes of an ordinary piece: its text, or the byte its `<0xNN>` spelling stands for — is
    `Kitoken.Convert.pieceBytes`, defined at the top of Kitoken/Proofs/ConvertSpLemmas.lean (the lemmas mention it). -/

/-- Every ordinary piece (normal or byte) is kept — the vocabulary has an entry with its bytes (under its own index,
    or under the index of another piece with the same bytes: the permitted omission) — … -/
theorem sp_keeps_pieces (trainer : Option Trainer) (pieces : List Piece)
    (pv : List SpEntry → List SpEntry) (hpv : ∀ l, (pv l).Perm l) (ps : List SpecialDef → List SpecialDef)
    (out : HfOut) (h : convertSp trainer pieces pv ps = .ok out) :
    ∀ i (hi : i < pieces.length), (pieces[i].type = .normal ∨ pieces[i].type = .byte) →
      ∃ b, pieceBytes pieces[i] = some b ∧ ∃ e ∈ out.vocab, e.2 = b :=
  Kitoken.Proofs.ConvertSp.sp_keeps_pieces trainer pieces pv hpv ps out h

/-- … and nothing is invented: every vocabulary entry is an ordinary piece under its own index with its true bytes,
    and no two entries have the same bytes or the same id. -/
theorem sp_no_invention (trainer : Option Trainer) (pieces : List Piece)
    (pv : List SpEntry → List SpEntry) (hpv : ∀ l, (pv l).Perm l) (ps : List SpecialDef → List SpecialDef)
    (out : HfOut) (h : convertSp trainer pieces pv ps = .ok out) :
    (∀ e ∈ out.vocab, ∃ i, ∃ hi : i < pieces.length, e.1 = UInt32.ofNat i ∧
        (pieces[i].type = .normal ∨ pieces[i].type = .byte) ∧ pieceBytes pieces[i] = some e.2) ∧
    (out.vocab.map (·.2)).Nodup ∧ (out.vocab.map (·.1)).Nodup :=
  Kitoken.Proofs.ConvertSp.sp_no_invention trainer pieces pv hpv ps out h

/-- Unused pieces never reach the vocabulary or the specials under their index … (the permitted omission). -/
theorem sp_unused_dropped (trainer : Option Trainer) (pieces : List Piece)
    (pv : List SpEntry → List SpEntry) (hpv : ∀ l, (pv l).Perm l) (ps : List SpecialDef → List SpecialDef)
    (out : HfOut) (h : convertSp trainer pieces pv ps = .ok out) :
    ∀ i (hi : i < pieces.length), pieces[i].type = .unused → ∀ e ∈ out.vocab, e.1 ≠ UInt32.ofNat i :=
  Kitoken.Proofs.ConvertSp.sp_unused_dropped trainer pieces pv hpv ps out h

/-- Control and user-defined pieces are specials with their index as id and their kind (the last piece wins when two
    such pieces have the same text). -/
theorem sp_special_pieces (trainer : Option Trainer) (pieces : List Piece)
    (pv : List SpEntry → List SpEntry) (ps : List SpecialDef → List SpecialDef) (hps : ∀ l, (ps l).Perm l)
    (out : HfOut) (h : convertSp trainer pieces pv ps = .ok out) :
    ∀ i (hi : i < pieces.length) (t : Bytes), pieces[i].text = some t →
      (pieces[i].type = .control ∨ pieces[i].type = .userDefined) →
      (∀ j (hj : j < pieces.length), i < j → pieces[j].text = some t →
        ¬ (pieces[j].type = .control ∨ pieces[j].type = .userDefined ∨ pieces[j].type = .unknown)) →
      ∃ sp ∈ out.specials, sp.id = UInt32.ofNat i ∧ sp.bytes = t ∧
        sp.kind = (if pieces[i].type = .control then SpecialKind.control else SpecialKind.priority) :=
  Kitoken.Proofs.ConvertSp.sp_special_pieces trainer pieces pv ps hps out h

/-- Unigram: the score list is parallel to the vocabulary and carries each piece's own score. -/
theorem sp_unigram_scores (trainer : Option Trainer) (pieces : List Piece)
    (pv : List SpEntry → List SpEntry) (hpv : ∀ l, (pv l).Perm l) (ps : List SpecialDef → List SpecialDef)
    (out : HfOut) (h : convertSp trainer pieces pv ps = .ok out) (hu : (trainer.map (·.bpe)).getD false = false) :
    out.scores.length = out.vocab.length ∧
    ∀ k (hk : k < out.vocab.length) (hs : k < out.scores.length),
      ∃ i, ∃ hi : i < pieces.length, out.vocab[k].1 = UInt32.ofNat i ∧ out.scores[k] = pieces[i].score :=
  Kitoken.Proofs.ConvertSp.sp_unigram_scores trainer pieces pv hpv ps out h hu

/-- The vocabulary (and the scores) do not depend on the iteration order of the vocabulary map. -/
theorem sp_vocab_order_independent (trainer : Option Trainer) (pieces : List Piece)
    (pv pv' : List SpEntry → List SpEntry) (hpv : ∀ l, (pv l).Perm l) (hpv' : ∀ l, (pv' l).Perm l)
    (ps : List SpecialDef → List SpecialDef) :
    (convertSp trainer pieces pv ps).map (fun o => (o.vocab, o.scores)) =
    (convertSp trainer pieces pv' ps).map (fun o => (o.vocab, o.scores)) :=
  Kitoken.Proofs.ConvertSp.sp_vocab_order_independent trainer pieces pv pv' hpv hpv' ps

end Kitoken.C15
