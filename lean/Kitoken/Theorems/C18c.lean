/-
  C18 (continued) — from "the constructor accepted the definition" to the hypotheses of `encode_never_panics`.
  Property theorems only; helper lemmas live in Kitoken/Proofs/LoadedLemmas.lean.
-/
import Kitoken.Proofs.LoadedLemmas
import Kitoken.Theorems.C18
namespace Kitoken.C18

open Kitoken Kitoken.Spec

/- `LoadableWF` is defined, unchanged, in Kitoken/Proofs/LoadedLemmas.lean (namespace `Kitoken.C18`), because the
   lemma's statement mentions it and that file cannot import this one:

   What a definition from a well-formed source satisfies beyond what `Kitoken::new` checks itself: no empty
   special or vocabulary text, no vocabulary id equal to the reserved value `u32::MAX`, fewer than 2^32 entries
   (any definition that fits in memory), and configuration strings that are valid UTF-8 (they are Rust `String`s). -/

/-- A tokenizer that the constructor accepted is well-formed in the sense of the totality theorems: special texts
    are non-empty, pairwise different and valid UTF-8 (the constructor checks the last two), and the encoder's
    lookup tables are consistent with their length bounds and rank range. -/
theorem loaded_tokenizer_wf (d : Definition) (tk : Tokenizer Score) (h : Tokenizer.new d = .ok tk) (hd : LoadableWF d) :
    SpecialsWF tk.specials ∧
    (match tk.encoder with
      | .bpe c => BpeWF c
      | .unigram c => EncUni.UniWF c
      | .wordpiece _ => True) ∧
    (∀ n ∈ tk.config.normalization, NormLiteralsValid n) ∧ (∀ s ∈ tk.config.split, SplitLiteralsValid s) :=
  Kitoken.Proofs.Loaded.loaded_tokenizer_wf d tk h hd

/-- THE PROPERTY as stated: for every tokenizer that loaded successfully from a well-formed source, every valid UTF-8
    text and sane external libraries, encoding returns tokens or an encode error and never panics. -/
theorem loaded_tokenizer_never_panics (d : Definition) (tk : Tokenizer Score) (h : Tokenizer.new d = .ok tk)
    (hd : LoadableWF d) (ext : Ext) (hx : ExtSane ext) (cs : List Char) (enc : Bool) (r : Res (List Id))
    (he : tk.encode ext (Utf8.encodeChars cs) enc = .res r) : r.isPanic = false := by
  obtain ⟨hw, hwf, hn, hs⟩ := loaded_tokenizer_wf d tk h hd
  -- the two statements use different (definitionally equal) auxiliary matchers; case analysis reduces both
  refine encode_never_panics tk hw ?_ ext hx hn hs cs enc r he
  revert hwf
  generalize tk.encoder = e
  cases e <;> exact id

end Kitoken.C18
