/-
  C06, continuation — "encodable neighbours are unaffected" for Unigram.
  Property theorem only; it is `Kitoken.C04.unigram_stretch_optimal` (Theorems/C04b.lean) read for this property.
-/
import Kitoken.Theorems.C04b
namespace Kitoken.C06

open Kitoken Kitoken.Unigram Kitoken.Spec

variable {S : Type} [Cost S] [Inhabited S]

/-- A hole (a unit at whose end no vocabulary entry ends, handed to the fallback chain) does not change the
    encoding of its encodable neighbours: the run of entries before the first hole, between two holes and after the
    last hole is in each case a cheapest segmentation of exactly the text it covers, whatever lies on the other
    side of the holes. -/
theorem unigram_neighbours_unaffected [LawfulCost S] (c : UniCtx S) (fb : List Fallback) (piece : Bytes)
    (indices : List Nat) (pre : List (SizedPart S)) (res0 : List Id)
    (hb : UnitBounds piece.length (indices ++ [piece.length]))
    (h0 : (indices ++ [piece.length]).head? = some 0)
    (hid : ∀ b id sc, c.tok b = some (id, sc) → id ≠ INVALID)
    (hmax : ∀ b id sc, c.tok b = some (id, sc) → b.length ≤ c.maxTok) :
    ∃ items, IsWalk c.tok piece (indices ++ [piece.length]) 0 piece.length items ∧
      (match renderWalk c fb items with
        | .ok ids => ∃ buffer', encodeUnigram c fb piece pre res0 indices = .ok (buffer', res0 ++ ids) ∧
                       buffer'.take pre.length = pre
        | .err e => encodeUnigram c fb piece pre res0 indices = .err e
        | .panic p => encodeUnigram c fb piece pre res0 indices = .panic p) ∧
      ∀ (A R C : List Item), items = A ++ R ++ C → AllEntries R →
        (A = [] ∨ ∃ A' h, A = A' ++ [Item.hole h]) →
        ∀ s', IsSegFrom c.tok piece (indices ++ [piece.length])
            (A.flatMap Item.bytes).length ((A ++ R).flatMap Item.bytes).length s' →
          Cost.le (runCost c.tok (if A.isEmpty then Cost.zero else Cost.big) R)
                  (segCostFrom (if A.isEmpty then Cost.zero else Cost.big) s') = true :=
  Kitoken.C04.unigram_stretch_optimal c fb piece indices pre res0 hb h0 hid hmax

end Kitoken.C06
