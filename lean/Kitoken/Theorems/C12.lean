/-
  C12 — precompiled character-map normalization applies exactly the map, everywhere.
  Property theorems only; helper lemmas live in Kitoken/Proofs/CharsMapLemmas.lean.
-/
import Kitoken.Proofs.CharsMapLemmas
namespace Kitoken.C12

open Kitoken Kitoken.CharsMap Kitoken.Spec Kitoken.Utf8

/-- Loading a map from its serialized blob preserves all of its entries: every trie unit (including
    the very last one) and the replacement table. Holds after the F4 repair. -/
theorem load_roundtrip (m : CharsMap) (h : 4 * m.array.size < 2 ^ 32) : load (toBlob m) = .ok m :=
  Kitoken.Proofs.CharsMap.load_roundtrip m h

/-- The loader is total: every byte string gives a map or an error, never a panic. -/
theorem load_total (data : Bytes) : (load data).isPanic = false :=
  Kitoken.Proofs.CharsMap.load_total data

/-- What the loader returns is determined by the blob layout: size field, that many bytes of trie
    (whole 4-byte words), the rest is the replacement table. -/
theorem load_layout (data : Bytes) (m : CharsMap) (h : load data = .ok m) :
    ∃ a b c d rest, data = a :: b :: c :: d :: rest ∧ (le32 a b c d).toNat ≤ rest.length ∧
      m.array.toList = wordsLE (rest.take (le32 a b c d).toNat) ∧ m.normalized = rest.drop (le32 a b c d).toNat :=
  Kitoken.Proofs.CharsMap.load_layout data m h

/-- Common-prefix search returns exactly the values of those prefixes of the chunk that are keys of
    the map (exact-match lookup), shortest first — for every map, well-formed or not. -/
theorem prefix_eq_keys (m : CharsMap) (key : Bytes) (h : NoNul key) :
    m.prefix key = prefixValues m key :=
  Kitoken.Proofs.CharsMap.prefix_eq_keys m key h

/-- A chunk none of whose prefixes is a key of the map is left alone. -/
theorem transform_none_of_no_key (m : CharsMap) (chunk : Bytes) (h : NoNul chunk)
    (hk : ∀ n, 1 ≤ n → n ≤ chunk.length → lookupExact m (chunk.take n) = none) :
    m.transform chunk = none :=
  Kitoken.Proofs.CharsMap.transform_none_of_no_key m chunk h hk

/-- Characters the map does not mention are unchanged, everywhere: if no prefix of any grapheme and
    no character of the text is a key of the map, normalization returns the text itself — for every
    text (valid UTF-8) and every segmentation into graphemes that tiles it on character boundaries. -/
theorem normalize_untouched (m : CharsMap) (limit : Nat) (gs : List (List Char))
    (hg : ∀ g ∈ gs, g ≠ [] ∧ NoNul (encodeChars g))
    (hk : ∀ g ∈ gs, ∀ n, 1 ≤ n → n ≤ (encodeChars g).length → lookupExact m ((encodeChars g).take n) = none) :
    let text := encodeChars gs.flatten
    let bounds := (gs.foldl (fun (acc : List (Nat × Nat) × Nat) g =>
      (acc.1 ++ [(acc.2, acc.2 + (encodeChars g).length)], acc.2 + (encodeChars g).length)) ([], 0)).1
    m.normalize limit text bounds = text :=
  Kitoken.Proofs.CharsMap.normalize_untouched m limit gs hg hk

/-- A single character that is a key of the map (and is a grapheme by itself) is replaced by exactly
    the map's replacement string for it (read up to the next NUL). -/
theorem normalize_single_key (m : CharsMap) (limit : Nat) (c : Char) (v : Nat)
    (hl : (encodeChar c).length < limit) (hn : NoNul (encodeChar c))
    (hv : (prefixValues m (encodeChar c)).head? = some v)
    (hb : v ≤ scanNul m.normalized v ∧ scanNul m.normalized v ≤ m.normalized.length) :
    m.normalize limit (encodeChar c) [(0, (encodeChar c).length)] =
      encodeChars (chars (slice m.normalized v (scanNul m.normalized v))) :=
  Kitoken.Proofs.CharsMap.normalize_single_key m limit c v hl hn hv hb

end Kitoken.C12
