/-
  C12 — precompiled character-map normalization applies exactly the map, everywhere.
  Property theorems only; helper lemmas live in Kitoken/Proofs/CharsMapLemmas.lean.
  The model is the code after the F4, F14 and F16 repairs (the pre-repair variants `loadOld`,
  `normalizeOld` stay in the model file for the witnesses).
-/
import Kitoken.Proofs.CharsMapLemmas
namespace Kitoken.C12

open Kitoken Kitoken.CharsMap Kitoken.Spec Kitoken.Utf8

/-- Leaves in range: every unit with the leaf flag has its leaf inside the array (true of every map
    written by SentencePiece's builder; malformed maps are covered by `prefix_sound` and totality). -/
def LeavesInRange (m : CharsMap) : Prop :=
  ∀ p unit, m.array[p]? = some unit → unitHasLeaf unit = true → p ^^^ unitOffset unit < m.array.size

/-- Loading a map from its serialized blob preserves all of its entries: every trie unit (including
    the very last one) and the replacement table. Holds after the F4 repair. -/
theorem load_roundtrip (m : CharsMap) (h : 4 * m.array.size < 2 ^ 32) : load (toBlob m) = .ok m :=
  Kitoken.Proofs.CharsMap.load_roundtrip m h

/-- The loader is total: every byte string gives a map or an error, never a panic. -/
theorem load_total (data : Bytes) : (load data).isPanic = false :=
  Kitoken.Proofs.CharsMap.load_total data

/-- What the loader returns is determined by the blob layout: size field, that many bytes of trie
    (whole 4-byte words), the rest is the replacement table. -/
theorem load_layout (data : Bytes) (m : CharsMap) (h : load data = .ok m) :
    ∃ a b c d rest, data = a :: b :: c :: d :: rest ∧ (le32 a b c d).toNat ≤ rest.length ∧
      m.array.toList = wordsLE (rest.take (le32 a b c d).toNat) ∧ m.normalized = rest.drop (le32 a b c d).toNat :=
  Kitoken.Proofs.CharsMap.load_layout data m h

/- ORIGINAL STATEMENT (FALSE for malformed maps, kept for the record; counterexample `cexPrefix` in the
   proofs file: a leaf flag whose leaf index is outside the array stops the search although a longer
   prefix re-enters the array):
     theorem prefix_eq_keys (m : CharsMap) (key : Bytes) (h : NoNul key) : m.prefix key = prefixValues m key -/

/-- Common-prefix search returns exactly (length, value) of those prefixes of the chunk that are keys
    of the map (exact-match lookup), shortest first. -/
theorem prefix_eq_keys_partial (m : CharsMap) (hwf : LeavesInRange m) (key : Bytes) (h : NoNul key) :
    m.prefix key = prefixValues m key :=
  Kitoken.Proofs.CharsMap.prefix_eq_keys m hwf key h

/-- For every map, well-formed or not, and every chunk: common-prefix search returns an initial
    segment of the true list of prefix keys — it may stop early but never invents or reorders. -/
theorem prefix_sound (m : CharsMap) (key : Bytes) : m.prefix key <+: prefixValues m key :=
  Kitoken.Proofs.CharsMap.prefix_sound m key

/-- The lookup at one position is the specification's key occurrence: the longest key that is a
    prefix of what is left, provided it ends on a character boundary and its replacement lies inside
    the table. -/
theorem transform_eq_occurrence (m : CharsMap) (hwf : LeavesInRange m) (chunk : Bytes) (h : NoNul chunk) :
    m.transform chunk = keyOccurrence m chunk :=
  Kitoken.Proofs.CharsMap.transform_eq_occurrence m hwf chunk h

/-- THE PROPERTY: normalization replaces exactly the sequences the map defines (leftmost-longest
    within each grapheme) with the map's replacement and leaves every other character unchanged —
    for every text and every grapheme segmentation. Holds after the F16 repair. -/
theorem normalize_eq_spec (m : CharsMap) (hwf : LeavesInRange m) (text : Bytes) (gs : List (Nat × Nat))
    (hn : NoNul text) : m.normalize text gs = normalizeSpec m text gs :=
  Kitoken.Proofs.CharsMap.normalize_eq_spec m hwf text gs hn

/-- Characters the map does not mention are unchanged, everywhere: if no key of the map starts at any
    character position of the text, normalization returns the text itself — for every valid UTF-8
    text and every segmentation into graphemes on character boundaries; no hypothesis on the map. -/
theorem normalize_untouched (m : CharsMap) (gs : List (List Char))
    (hk : ∀ g ∈ gs, ∀ (pre suf : List Char), g = pre ++ suf → suf ≠ [] →
      ∀ n, 1 ≤ n → n ≤ (encodeChars suf).length → lookupExact m ((encodeChars suf).take n) = none) :
    let text := encodeChars gs.flatten
    let bounds := (gs.foldl (fun (acc : List (Nat × Nat) × Nat) g =>
      (acc.1 ++ [(acc.2, acc.2 + (encodeChars g).length)], acc.2 + (encodeChars g).length)) ([], 0)).1
    m.normalize text bounds = text :=
  Kitoken.Proofs.CharsMap.normalize_untouched m gs hk

/-- A key followed by characters the map does not mention: the key is replaced by the map's
    replacement string and the following characters are kept (this is what the pre-repair code got
    wrong: it dropped them, see `old_drops_following_characters`). -/
theorem normalize_key_then_rest (m : CharsMap) (hwf : LeavesInRange m) (k rest : List Char) (v : Nat) (r : Bytes)
    (hk : k ≠ []) (hnul : NoNul (encodeChars (k ++ rest)))
    (hkey : longestKey m (encodeChars (k ++ rest)) = some ((encodeChars k).length, v))
    (hr : replacementAt m v = some r)
    (hrest : ∀ (pre suf : List Char), rest = pre ++ suf → suf ≠ [] →
      ∀ n, 1 ≤ n → n ≤ (encodeChars suf).length → lookupExact m ((encodeChars suf).take n) = none) :
    m.normalize (encodeChars (k ++ rest)) [(0, (encodeChars (k ++ rest)).length)] =
      encodeChars (chars r) ++ encodeChars rest :=
  Kitoken.Proofs.CharsMap.normalize_key_then_rest m hwf k rest v r hk hnul hkey hr hrest

end Kitoken.C12
