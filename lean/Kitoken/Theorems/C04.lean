/-
  C04 — Unigram encoding is a maximum-score segmentation.
  Property theorems only; helper lemmas live in Kitoken/Proofs/UnigramLemmas.lean.
-/
import Kitoken.Proofs.UnigramLemmas
namespace Kitoken.C04

open Kitoken Kitoken.Unigram Kitoken.Spec

variable {S : Type} [Cost S] [Inhabited S]

/-- Structure of every Unigram encoding (segmentable or not), for every cost type, vocabulary,
    fallback list and scratch-buffer prefix: the result is the rendering of a walk over the piece in
    which every vocabulary token matches the text at its span and a hole is a single unit at whose end
    no vocabulary entry ends; the scratch prefix and the earlier results are untouched. -/
theorem unigram_walk (c : UniCtx S) (fb : List Fallback) (piece : Bytes) (indices : List Nat)
    (pre : List (SizedPart S)) (res0 : List Id)
    (hb : UnitBounds piece.length (indices ++ [piece.length]))
    (h0 : (indices ++ [piece.length]).head? = some 0)
    (hid : ∀ b id sc, c.tok b = some (id, sc) → id ≠ INVALID)
    (hmax : ∀ b id sc, c.tok b = some (id, sc) → b.length ≤ c.maxTok) :
    ∃ items, IsWalk c.tok piece (indices ++ [piece.length]) 0 piece.length items ∧
      (match renderWalk c fb items with
        | .ok ids => ∃ buffer', encodeUnigram c fb piece pre res0 indices = .ok (buffer', res0 ++ ids) ∧
                       buffer'.take pre.length = pre
        | .err e => encodeUnigram c fb piece pre res0 indices = .err e
        | .panic p => encodeUnigram c fb piece pre res0 indices = .panic p) :=
  Kitoken.Proofs.Unigram.unigram_walk c fb piece indices pre res0 hb h0 hid hmax

/-- Optimality, proved in the region where the 1e6 restart value is harmless (`BoundedCost`; the code
    violates the unrestricted statement, see `sentinel_counterexample` and DESIGN.md §7 F13):
    if the piece can be segmented into vocabulary entries, the tokens returned are such a segmentation
    and its cost is minimal (total score maximal) among all of them. -/
theorem viterbi_optimal_partial [LawfulCost S] (c : UniCtx S) (fb : List Fallback) (piece : Bytes)
    (indices : List Nat) (pre : List (SizedPart S)) (res0 : List Id)
    (hb : UnitBounds piece.length (indices ++ [piece.length]))
    (h0 : (indices ++ [piece.length]).head? = some 0)
    (hid : ∀ b id sc, c.tok b = some (id, sc) → id ≠ INVALID)
    (hmax : ∀ b id sc, c.tok b = some (id, sc) → b.length ≤ c.maxTok)
    (hbc : BoundedCost c.tok piece (indices ++ [piece.length]))
    (seg0 : List (Entry S)) (hseg : IsSegFrom c.tok piece (indices ++ [piece.length]) 0 piece.length seg0) :
    ∃ seg buffer', IsSegFrom c.tok piece (indices ++ [piece.length]) 0 piece.length seg ∧
      encodeUnigram c fb piece pre res0 indices = .ok (buffer', res0 ++ seg.map (·.id)) ∧
      ∀ s', IsSegFrom c.tok piece (indices ++ [piece.length]) 0 piece.length s' →
        Cost.le (cost seg) (cost s') = true :=
  Kitoken.Proofs.Unigram.viterbi_optimal_partial c fb piece indices pre res0 hb h0 hid hmax hbc seg0 hseg

end Kitoken.C04
