/-
  C04 — Unigram encoding is a maximum-score segmentation.
  Property theorems only; helper lemmas live in Kitoken/Proofs/UnigramLemmas.lean.
-/
import Kitoken.Proofs.UnigramLemmas
namespace Kitoken.C04

open Kitoken Kitoken.Unigram Kitoken.Spec

variable {S : Type} [Cost S] [Inhabited S]

/-- Structure of every Unigram encoding (segmentable or not), for every cost type, vocabulary,
    fallback list and scratch-buffer prefix: the result is the rendering of a walk over the piece in
    which every vocabulary token matches the text at its span and a hole is a single unit at whose end
    no vocabulary entry ends; the scratch prefix and the earlier results are untouched. -/
theorem unigram_walk (c : UniCtx S) (fb : List Fallback) (piece : Bytes) (indices : List Nat)
    (pre : List (SizedPart S)) (res0 : List Id)
    (hb : UnitBounds piece.length (indices ++ [piece.length]))
    (h0 : (indices ++ [piece.length]).head? = some 0)
    (hid : ∀ b id sc, c.tok b = some (id, sc) → id ≠ INVALID)
    (hmax : ∀ b id sc, c.tok b = some (id, sc) → b.length ≤ c.maxTok) :
    ∃ items, IsWalk c.tok piece (indices ++ [piece.length]) 0 piece.length items ∧
      (match renderWalk c fb items with
        | .ok ids => ∃ buffer', encodeUnigram c fb piece pre res0 indices = .ok (buffer', res0 ++ ids) ∧
                       buffer'.take pre.length = pre
        | .err e => encodeUnigram c fb piece pre res0 indices = .err e
        | .panic p => encodeUnigram c fb piece pre res0 indices = .panic p) :=
  Kitoken.Proofs.Unigram.unigram_walk c fb piece indices pre res0 hb h0 hid hmax

/-- Optimality for a plain cost type (the code before the F13 repair), proved in the region where the 1e6
    restart value is harmless (`BoundedCost`; the pre-repair code violates the unrestricted statement, see
    `sentinel_counterexample` and DESIGN.md §7 F13). Kept because it documents exactly what the repair
    removed; the property itself is `viterbi_optimal` below:
    if the piece can be segmented into vocabulary entries, the tokens returned are such a segmentation
    and its cost is minimal (total score maximal) among all of them. -/
theorem viterbi_optimal_partial [LawfulCost S] (c : UniCtx S) (fb : List Fallback) (piece : Bytes)
    (indices : List Nat) (pre : List (SizedPart S)) (res0 : List Id)
    (hb : UnitBounds piece.length (indices ++ [piece.length]))
    (h0 : (indices ++ [piece.length]).head? = some 0)
    (hid : ∀ b id sc, c.tok b = some (id, sc) → id ≠ INVALID)
    (hmax : ∀ b id sc, c.tok b = some (id, sc) → b.length ≤ c.maxTok)
    (hbc : BoundedCost c.tok piece (indices ++ [piece.length]))
    (seg0 : List (Entry S)) (hseg : IsSegFrom c.tok piece (indices ++ [piece.length]) 0 piece.length seg0) :
    ∃ seg buffer', IsSegFrom c.tok piece (indices ++ [piece.length]) 0 piece.length seg ∧
      encodeUnigram c fb piece pre res0 indices = .ok (buffer', res0 ++ seg.map (·.id)) ∧
      ∀ s', IsSegFrom c.tok piece (indices ++ [piece.length]) 0 piece.length s' →
        Cost.le (cost seg) (cost s') = true :=
  Kitoken.Proofs.Unigram.viterbi_optimal_partial c fb piece indices pre res0 hb h0 hid hmax hbc seg0 hseg

/-- THE PROPERTY for the code as repaired (F13): the cost of a node is its score together with the flag
    `broken` (`Tainted S`), compared lexicographically. With that, no bound on the costs is needed: for
    every vocabulary, scores of either sign, every piece that can be segmented into vocabulary entries
    along its unit boundaries and every scratch-buffer prefix, the tokens returned are such a
    segmentation and none has a smaller cost (= a larger total score). -/
theorem viterbi_optimal [LawfulCost S] (c : UniCtx (Tainted S)) (fb : List Fallback) (piece : Bytes)
    (indices : List Nat) (pre : List (SizedPart (Tainted S))) (res0 : List Id)
    (hb : UnitBounds piece.length (indices ++ [piece.length]))
    (h0 : (indices ++ [piece.length]).head? = some 0)
    (hid : ∀ b id sc, c.tok b = some (id, sc) → id ≠ INVALID)
    (hmax : ∀ b id sc, c.tok b = some (id, sc) → b.length ≤ c.maxTok)
    (seg0 : List (Entry (Tainted S))) (hseg : IsSegFrom c.tok piece (indices ++ [piece.length]) 0 piece.length seg0) :
    ∃ seg buffer', IsSegFrom c.tok piece (indices ++ [piece.length]) 0 piece.length seg ∧
      encodeUnigram c fb piece pre res0 indices = .ok (buffer', res0 ++ seg.map (·.id)) ∧
      ∀ s', IsSegFrom c.tok piece (indices ++ [piece.length]) 0 piece.length s' →
        Cost.le (cost seg) (cost s') = true :=
  Kitoken.Proofs.Unigram.viterbi_optimal c fb piece indices pre res0 hb h0 hid hmax seg0 hseg

omit [Inhabited S] in
/-- The cost of a segmentation is never `broken`, and between such costs the order is the order of the
    scores: "minimal cost" in `viterbi_optimal` means what it should. -/
theorem cost_unbroken (seg : List (Entry (Tainted S))) :
    (cost seg).broken = false ∧ (cost seg).val = seg.foldl (fun acc e => Cost.sub acc e.score.val) Cost.zero :=
  Kitoken.Proofs.Unigram.cost_unbroken seg

/-- The former counterexample (vocabulary a: -400000, xyz: -1, yz: -1; piece "aaaxyz") under the repaired
    comparison: the genuine segmentation wins. -/
example : Kitoken.Proofs.Unigram.Examples.outIdsT
    (encodeUnigram Kitoken.Proofs.Unigram.Examples.ctxST [.unknown] Kitoken.Proofs.Unigram.Examples.pieceS [] [] [0, 1, 2, 3, 4, 5]) =
    some [0, 0, 0, 1] := Kitoken.Proofs.Unigram.Examples.repaired_example

end Kitoken.C04
