/-
  C07 — control tokens cannot be injected; special tokens are recognized atomically.
  Property theorems only; helper lemmas live in Kitoken/Proofs/PipelineLemmas.lean.
-/
import Kitoken.Proofs.PipelineLemmas
namespace Kitoken.C07

open Kitoken Kitoken.Spec Kitoken.Utf8

variable {S : Type}

/-! ### the scan for special-token strings (alternation of escaped literals) -/

/-- Matches are ordered, non-overlapping and inside the text. -/
theorem scan_chain (alts : List Bytes) (text : Bytes) : Chain text.length 0 (scanLiterals alts text) :=
  Kitoken.Proofs.Pipeline.scan_chain alts text

/-- Leftmost-first: between the previous match and this one no alternative matches anywhere, and at
    the match position the first alternative (in the given priority order) that matches is taken. -/
theorem scan_leftmost_first (alts : List Bytes) (text : Bytes) (pre : Ranges) (a b : Nat) (post : Ranges)
    (h : scanLiterals alts text = pre ++ (a, b) :: post) :
    let p := (pre.getLast?.map (·.2)).getD 0
    (∀ k, p ≤ k → k < a → ∀ alt ∈ alts, alt ≠ [] → startsWith (text.drop k) alt = false) ∧
    alts.find? (fun x => !x.isEmpty && startsWith (text.drop a) x) = some (slice text a b) :=
  Kitoken.Proofs.Pipeline.scan_leftmost_first alts text pre a b post h

/-- After the last match no alternative matches any more. -/
theorem scan_complete (alts : List Bytes) (text : Bytes) :
    let p := ((scanLiterals alts text).getLast?.map (·.2)).getD 0
    ∀ k, p ≤ k → k < text.length → ∀ alt ∈ alts, alt ≠ [] → startsWith (text.drop k) alt = false :=
  Kitoken.Proofs.Pipeline.scan_complete alts text

/-- On valid UTF-8 with valid, non-empty special texts every match lies on character boundaries. -/
theorem scan_aligned (alts : List (List Char)) (cs : List Char) (hne : ∀ a ∈ alts, a ≠ []) :
    Aligned (encodeChars cs) (scanLiterals (alts.map encodeChars) (encodeChars cs)) :=
  Kitoken.Proofs.Pipeline.scan_aligned alts cs hne

/-! ### first pass (extracted specials, before normalization) -/

/-- The first pass is the cut-wise specification: the text on either side of an extracted special
    token is normalized by itself (own text, own position) — nothing of one side reaches the other. -/
theorem stageA_eq_spec (tk : Tokenizer S) (hw : SpecialsWF tk.specials) (ext : Ext) (cs : List Char) (enc : Bool) :
    tk.stageA ext (encodeChars cs) enc = stageASpec tk ext (encodeChars cs) enc :=
  Kitoken.Proofs.Pipeline.stageA_eq_spec tk hw ext cs enc

/-- With special-token encoding off, no part produced by the first pass carries the id of a control token. -/
theorem stageA_no_control_when_off (tk : Tokenizer S) (ext : Ext) (text : Bytes) (ps : List TextPart)
    (h : tk.stageA ext text false = .res (.ok ps)) :
    ∀ p ∈ ps, p.special ≠ INVALID →
      ∃ s ∈ tk.specials, s.kind ≠ .control ∧ s.id = p.special ∧ s.bytes = p.text :=
  Kitoken.Proofs.Pipeline.stageA_no_control tk ext text ps h

/-- In either mode a part that carries a special id is exactly that special token's text (atomicity:
    it is a part by itself; the encoders map it to its id alone, see C09). -/
theorem stageA_special_atomic (tk : Tokenizer S) (ext : Ext) (text : Bytes) (enc : Bool) (ps : List TextPart)
    (h : tk.stageA ext text enc = .res (.ok ps)) :
    ∀ p ∈ ps, p.special ≠ INVALID → ∃ s ∈ tk.specials, s.id = p.special ∧ s.bytes = p.text ∧ Tokenizer.admitted enc s :=
  Kitoken.Proofs.Pipeline.stageA_special_atomic tk ext text enc ps h

/-! ### second pass (remaining specials, after normalization) -/

/-- The matches admitted in the second pass with encoding off are those admitted with encoding on
    minus the control tokens: unknown- and priority-kind specials are recognized in both modes. -/
theorem second_pass_mode_independent (tk : Tokenizer S) (ptext : Bytes) :
    ((secondPassAll tk ptext).filter fun m => Tokenizer.admitted false m.2.2) =
      ((secondPassAll tk ptext).filter fun m => Tokenizer.admitted true m.2.2).filter fun m => m.2.2.kind != .control :=
  Kitoken.Proofs.Pipeline.second_pass_mode_independent tk ptext

theorem secondPassMatches_eq (tk : Tokenizer S) (hw : SpecialsWF tk.specials) (enc : Bool) (ptext : Bytes) :
    tk.secondPassMatches enc ptext =
      .ok (((secondPassAll tk ptext).filter fun m => Tokenizer.admitted enc m.2.2).map fun m => (m.1, m.2.1, m.2.2.id)) :=
  Kitoken.Proofs.Pipeline.secondPassMatches_eq tk hw enc ptext

/-- The second pass is the cut-wise specification: special parts pass through untouched; in an
    ordinary part each admitted match becomes a part by itself and each stretch between matches is
    pre-tokenized by itself. -/
theorem stageB_eq_spec (tk : Tokenizer S) (hw : SpecialsWF tk.specials) (ext : Ext) (enc : Bool) (parts : List TextPart)
    (hv : ∀ p ∈ parts, p.special = INVALID → ∃ cs, p.text = encodeChars cs) :
    tk.stageB ext enc parts [] = stageBSpec tk ext enc parts :=
  Kitoken.Proofs.Pipeline.stageB_eq_spec tk hw ext enc parts hv

/-- With special-token encoding off, no part handed to the encoder carries the id of a control token. -/
theorem parts_no_control_when_off (tk : Tokenizer S) (ext : Ext) (text : Bytes) (ps : List TextPart)
    (h : tk.parts ext text false = .res (.ok ps)) :
    ∀ p ∈ ps, p.special ≠ INVALID → ∃ s ∈ tk.specials, s.kind ≠ .control ∧ s.id = p.special :=
  Kitoken.Proofs.Pipeline.parts_no_control tk ext text ps h

/-! ### token post-processing -/

/-- Post-processing only removes tokens or inserts the id configured in a `Pad` step: every id in the
    final output was produced by the encoder or is a pad id. -/
theorem process_ids_provenance (steps : List Processing) (ts out : List Id) (h : configProcess steps ts = .ok out) :
    ∀ id ∈ out, id ∈ ts ∨ ∃ n s d, Processing.pad id n s d ∈ steps :=
  Kitoken.Proofs.Pipeline.process_ids_provenance steps ts out h

end Kitoken.C07
