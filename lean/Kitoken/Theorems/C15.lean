/-
  C15 — converters keep every source token, id, score and priority; auto-detection agrees.
  Property theorems only; helper lemmas live in Kitoken/Proofs/ConvertLemmas.lean.

  Modelled and proved: the byte-level placeholder table and its inverse, `<0xNN>` pieces, the Tiktoken and
  Tekken converters after parsing, the detection chain, and the soundness of the decidable checker
  `keepsCheck` that the driver evaluates on every converted source (all four formats) against an
  independent parse of the source. The SentencePiece and Tokenizers converters themselves (protobuf /
  JSON parsing, normalizer and pre-tokenizer translation, merge reconstruction) are not modelled: for
  them the property is decided per source by `keepsCheck` on the implementation's output (level: partial).
-/
import Kitoken.Proofs.ConvertLemmas
import Kitoken.Theorems.C15b
import Kitoken.Theorems.C15c
import Kitoken.Theorems.C15d
namespace Kitoken.C15

open Kitoken Kitoken.Spec Kitoken.Convert

/-! ### byte-level placeholders (Tokenizers `ByteLevel`) -/

theorem byteTable_length : byteTable.length = 256 := Kitoken.Proofs.Convert.byteTable_length

/-- No two bytes share a placeholder character. -/
theorem byteTable_nodup : byteTable.Nodup := Kitoken.Proofs.Convert.byteTable_nodup

/-- Printable bytes stand for themselves. -/
theorem direct_bytes (b : UInt8) (h : isDirect b.toNat = true) : encodeByteChar b = b.toNat :=
  Kitoken.Proofs.Convert.direct_bytes b h

/-- Undoing the placeholder spelling gives back the true byte, for every byte … -/
theorem decode_encode_byteChar (b : UInt8) : decodeByteChar (encodeByteChar b) = some b :=
  Kitoken.Proofs.Convert.decode_encode_byteChar b

/-- … and every byte string. -/
theorem decodeByteChars_encode (bs : Bytes) : decodeByteChars (encodeByteChars bs) = some bs :=
  Kitoken.Proofs.Convert.decodeByteChars_encode bs

/-- A character outside the table is not silently mapped to some byte. -/
theorem decodeByteChar_sound (cp : Nat) (b : UInt8) (h : decodeByteChar cp = some b) : encodeByteChar b = cp :=
  Kitoken.Proofs.Convert.decodeByteChar_sound cp b h

/-! ### `<0xNN>` pieces -/

theorem parse_bytePiece (b : UInt8) : parseBytePiece (bytePiece b) = some b :=
  Kitoken.Proofs.Convert.parse_bytePiece b

theorem parse_short_rejected (t : Bytes) (h : t.length < 5) : parseBytePiece t = none :=
  Kitoken.Proofs.Convert.parse_short_rejected t h

/-! ### Tiktoken -/

/-- Every line of the source is a vocabulary entry with its id and bytes, in file order (= merge priority). -/
theorem tiktoken_vocab (entries : List (Bytes × Id)) :
    (convertTiktoken entries).vocab = entries.map fun e => (e.2, e.1) :=
  Kitoken.Proofs.Convert.tiktoken_vocab entries

theorem tiktoken_keeps (entries : List (Bytes × Id)) :
    Keeps (entries.zipIdx.map fun (e, k) => { id := e.2, bytes := e.1, prio := some k })
      { vocab := (convertTiktoken entries).vocab, specials := (convertTiktoken entries).specials } :=
  Kitoken.Proofs.Convert.tiktoken_keeps entries

/-! ### Tekken -/

/-- Every source token inside the declared vocabulary size is kept under `rank + number of specials`. -/
theorem tekken_keeps_tokens (version : String) (ns vs : Option Nat) (vocab : List (Nat × Bytes)) (out : ConvOut)
    (h : convertTekken version ns vs vocab = .ok out) :
    ∀ e ∈ vocab.take (vs.getD vocab.length - (tekkenSpecials (ns.getD tekkenNamed.length)).length),
      (UInt32.ofNat (e.1 + (tekkenSpecials (ns.getD tekkenNamed.length)).length), e.2) ∈ out.vocab :=
  Kitoken.Proofs.Convert.tekken_keeps_tokens version ns vs vocab out h

/-- Nothing is invented: every vocabulary entry comes from a source token. -/
theorem tekken_no_invention (version : String) (ns vs : Option Nat) (vocab : List (Nat × Bytes)) (out : ConvOut)
    (h : convertTekken version ns vs vocab = .ok out) :
    ∀ v ∈ out.vocab, ∃ e ∈ vocab, v = (UInt32.ofNat (e.1 + (tekkenSpecials (ns.getD tekkenNamed.length)).length), e.2) :=
  Kitoken.Proofs.Convert.tekken_no_invention version ns vs vocab out h

/-- The vocabulary is in id order, i.e. in rank = merge priority order. -/
theorem tekken_vocab_sorted (version : String) (ns vs : Option Nat) (vocab : List (Nat × Bytes)) (out : ConvOut)
    (h : convertTekken version ns vs vocab = .ok out) : out.vocab.Pairwise fun a b => a.1 ≤ b.1 :=
  Kitoken.Proofs.Convert.tekken_vocab_sorted version ns vs vocab out h

/-- Special ids and vocabulary ids never collide: specials are below, vocabulary at or above the number of specials. -/
theorem tekken_ids_disjoint (version : String) (ns vs : Option Nat) (vocab : List (Nat × Bytes)) (out : ConvOut)
    (h : convertTekken version ns vs vocab = .ok out) :
    (∀ s ∈ out.specials, s.id.toNat < (tekkenSpecials (ns.getD tekkenNamed.length)).length) ∧
    (∀ v ∈ out.vocab, (tekkenSpecials (ns.getD tekkenNamed.length)).length ≤ v.1.toNat) :=
  Kitoken.Proofs.Convert.tekken_ids_disjoint version ns vs vocab out h

/-- Example: the hypotheses are satisfiable (a three-token source with the default 14 specials and the
    declared vocabulary size 17 = 14 specials + 3 tokens). -/
example : ∃ out, convertTekken "v3" none (some 17) [(0, [97]), (1, [98]), (2, [97, 98])] = .ok out := ⟨_, rfl⟩

/-- Without a declared size the vocabulary size defaults to the number of source tokens, and a source with
    fewer tokens than specials is rejected (`vocab_len.checked_sub(specials.len())` in the Rust code). -/
theorem tekken_small_undeclared_rejected :
    convertTekken "v3" none none [(0, [97]), (1, [98]), (2, [97, 98])] = .error .tooFewTokens :=
  Kitoken.Proofs.Convert.tekken_small_undeclared_rejected

/-! ### the checker that the driver evaluates on every converted source -/

theorem keepsCheck_sound (src : List SrcToken) (c : Converted) (h : keepsCheck src c = true) : Keeps src c :=
  Kitoken.Proofs.Convert.keepsCheck_sound src c h

/-! ### auto-detection -/

/-- A native file is never mistaken for a foreign one: the native loader is first in the chain. -/
theorem detect_native_first {α : Type} (native : Bytes → Option α) (rest : List (Bytes → Option α)) (data : Bytes) (d : α)
    (h : native data = some d) : detect (native :: rest) data = some d :=
  Kitoken.Proofs.Convert.detect_native_first native rest data d h

/-- Auto-detection gives what the explicit converter gives exactly when the loaders earlier in the chain
    reject the data (the check observes this condition on every source). -/
theorem detect_eq_explicit {α : Type} (pre post : List (Bytes → Option α)) (f : Bytes → Option α) (data : Bytes) (d : α)
    (hpre : ∀ g ∈ pre, g data = none) (h : f data = some d) : detect (pre ++ f :: post) data = some d :=
  Kitoken.Proofs.Convert.detect_eq_explicit pre post f data d hpre h

theorem detect_none_iff {α : Type} (chain : List (Bytes → Option α)) (data : Bytes) :
    detect chain data = none ↔ ∀ f ∈ chain, f data = none :=
  Kitoken.Proofs.Convert.detect_none_iff chain data

end Kitoken.C15
