/-
  C11 — each normalization step has exactly its documented effect and yields valid UTF-8.
  Property theorems only; helper lemmas live in Kitoken/Proofs/NormalizeLemmas.lean.
  Unicode normal forms, case mapping and regex replacement are external (oracles): for them only
  the plumbing (order, conditions) is proved here; see DESIGN.md (level: partial).
-/
import Kitoken.Proofs.NormalizeLemmas
namespace Kitoken.C11

open Kitoken Kitoken.Spec Kitoken.Utf8

/-! ### Strip -/

/-- On every valid UTF-8 text Strip never panics and removes exactly the characters `stripSpec` removes. -/
theorem strip_chars (ch : Char) (l r : Nat) (cs : List Char) :
    normalizeStrip ch l r (encodeChars cs) = .ok (encodeChars (stripSpec ch l r cs)) :=
  Kitoken.Proofs.Normalize.strip_chars ch l r cs

/-- Strip removes only copies of `ch`, at most `l` in front and `r` behind, and as many as allowed. -/
theorem strip_spec (ch : Char) (l r : Nat) (cs : List Char) :
    ∃ a b, a ≤ l ∧ b ≤ r ∧ cs = List.replicate a ch ++ stripSpec ch l r cs ++ List.replicate b ch ∧
      (a < l → (stripSpec ch l r cs ++ List.replicate b ch).head? ≠ some ch) ∧
      (b < r → (stripSpec ch l r cs).getLast? ≠ some ch) :=
  Kitoken.Proofs.Normalize.strip_spec ch l r cs

/-! ### Extend (the `unsafe` byte splice) -/

/-- The byte splice done through `as_mut_vec` equals the UTF-8 encoding of the character-level result,
    so the `unsafe` block always leaves a valid string. -/
theorem extend_chars (ch : Char) (l r : Nat) (pad : Bool) (cs : List Char) :
    decodeExtend ch l r pad (encodeChars cs) = encodeChars (extendSpec ch l r pad cs) :=
  Kitoken.Proofs.Normalize.extend_chars ch l r pad cs

theorem extend_bytes_valid (ch : Char) (l r : Nat) (pad : Bool) (cs : List Char) :
    validUtf8 (decodeExtend ch l r pad (encodeChars cs)) = true :=
  Kitoken.Proofs.Normalize.extend_bytes_valid ch l r pad cs

/-- Without padding exactly `l` / `r` copies are added; with padding the text ends up with at least
    `min`… precisely: the number added on each side is `n - (copies already there, up to n)`. -/
theorem extend_spec_nopad (ch : Char) (l r : Nat) (cs : List Char) :
    extendSpec ch l r false cs = List.replicate l ch ++ cs ++ List.replicate r ch :=
  Kitoken.Proofs.Normalize.extend_spec_nopad ch l r cs

/-! ### Strip undoes Extend (the pair a whitespace-marker tokenizer runs on the two sides) -/

/-- Strip undoes an unpadded Extend with the same character and counts, on every text — also one that
    already begins or ends with copies of the character. -/
theorem strip_extend_inverse (ch : Char) (l r : Nat) (cs : List Char) :
    stripSpec ch l r (extendSpec ch l r false cs) = cs := by
  rw [extend_spec_nopad]
  unfold stripSpec
  simp only [List.append_assoc, Kitoken.Proofs.Normalize.leadingCount_replicate_append]
  have hd : List.drop l (List.replicate l ch ++ (cs ++ List.replicate r ch)) = cs ++ List.replicate r ch := by
    simp
  rw [hd, List.reverse_append, List.reverse_replicate, Kitoken.Proofs.Normalize.leadingCount_replicate_append]
  simp

/-- The same for the byte-level functions the pipeline runs, on every valid UTF-8 text. -/
theorem strip_extend_bytes_inverse (ch : Char) (l r : Nat) (cs : List Char) :
    normalizeStrip ch l r (decodeExtend ch l r false (encodeChars cs)) = .ok (encodeChars cs) := by
  rw [extend_chars, strip_chars, strip_extend_inverse]

example : stripSpec '_' 1 2 (extendSpec '_' 1 2 false ['_', 'a', '_']) = ['_', 'a', '_'] := by decide

/-! ### Collapse -/

theorem collapse_chars (ch : Char) (cs : List Char) :
    decodeCollapse ch (encodeChars cs) = encodeChars (collapseChars ch false cs) :=
  Kitoken.Proofs.Normalize.collapse_chars ch cs

/-- Collapse leaves no two adjacent copies, touches nothing else, and is idempotent. -/
theorem collapse_no_adjacent (ch : Char) (cs : List Char) : NoAdjChar ch (collapseChars ch false cs) :=
  Kitoken.Proofs.Normalize.collapse_no_adjacent ch cs

theorem collapse_keeps_others (ch : Char) (cs : List Char) :
    (collapseChars ch false cs).filter (· ≠ ch) = cs.filter (· ≠ ch) :=
  Kitoken.Proofs.Normalize.collapse_keeps_others ch cs

theorem collapse_sublist (ch : Char) (cs : List Char) : (collapseChars ch false cs).Sublist cs :=
  Kitoken.Proofs.Normalize.collapse_sublist ch cs

theorem collapse_idempotent (ch : Char) (cs : List Char) :
    collapseChars ch false (collapseChars ch false cs) = collapseChars ch false cs :=
  Kitoken.Proofs.Normalize.collapse_idempotent ch cs

/-! ### Replace (character / string patterns), Prepend, Append -/

/-- Literal replacement substitutes every leftmost non-overlapping occurrence, on characters; an empty
    pattern inserts the replacement before every character and at the end (as `str::replace`). -/
theorem replace_literal_chars (p rep cs : List Char) :
    normalizeReplaceLiteral (encodeChars p) (encodeChars rep) (encodeChars cs) =
      encodeChars (replaceAll p rep cs) :=
  Kitoken.Proofs.Normalize.replace_literal_chars p rep cs

/-- The result of replacing contains no occurrence of a non-empty pattern that survived from the
    input: scanning the input left to right, every occurrence found is replaced and scanning resumes
    after it (specification of `replaceFrom` as a recursion on occurrences). -/
theorem replace_no_match_identity (p rep cs : List Char) (hp : p ≠ [])
    (h : ∀ k, startsWith (cs.drop k) p = false) : replaceAll p rep cs = cs :=
  Kitoken.Proofs.Normalize.replace_no_match_identity p rep cs hp h

/-! ### NMT -/

/-- The tables regenerated from the current source are the listed ones. -/
theorem nmt_tables_listed :
    Generated.NMT_REMOVED = Spec.NMT_REMOVED_LISTED ∧ Generated.NMT_BLANKED = Spec.NMT_BLANKED_LISTED := by decide

/-- Hence the specification over the regenerated tables is the specification over the listed sets. -/
theorem nmtSpec_listed (cs : List Char) : Spec.nmtSpec cs = Spec.nmtSpecListed cs := by
  unfold Spec.nmtSpec Spec.nmtSpecListed
  rw [nmt_tables_listed.1, nmt_tables_listed.2]


theorem nmt_chars (cs : List Char) : normalizeNmt (encodeChars cs) = encodeChars (nmtSpec cs) :=
  Kitoken.Proofs.Normalize.nmt_chars cs

/-- The removed and the blanked sets (regenerated from the source on every run) are disjoint. -/
theorem nmt_sets_disjoint :
    ∀ r ∈ Generated.NMT_REMOVED, ∀ b ∈ Generated.NMT_BLANKED, r.2 < b.1 ∨ b.2 < r.1 :=
  Kitoken.Proofs.Normalize.nmt_sets_disjoint

/-! ### Conditions, order, early return -/

/-- A conditional step runs only on a segment that begins the text (start condition) or ends it (end
    condition); otherwise the text is unchanged. -/
/- Statement as first written (did not elaborate: Lean finds no `Decidable` instance for a
   `Prop`-valued `match`, so the `if` was ill-formed; the condition is now the same `match` with
   Boolean branches, `decide (pos.start = 0)` / `pos.toEnd`; meaning unchanged):
     if (match cond with | .startOfText => pos.start = 0 | .endOfText => pos.toEnd = true)
     then inner.normalize ext pos t else some (.ok t) -/
theorem conditional_iff (ext : NormExt) (cond : NormCondition) (inner : Normalization) (pos : Position) (t : Bytes) :
    (Normalization.conditional cond inner).normalize ext pos t =
      if (match cond with | .startOfText => decide (pos.start = 0) | .endOfText => pos.toEnd) = true
      then inner.normalize ext pos t else some (.ok t) :=
  Kitoken.Proofs.Normalize.conditional_iff ext cond inner pos t

/-- Steps run in configured order; nothing happens on an empty text. -/
theorem steps_in_order (ext : NormExt) (pos : Position) (n : Normalization) (ns : List Normalization) (t t' : Bytes)
    (h : n.normalize ext pos t = some (.ok t')) :
    normalizeSteps ext pos (n :: ns) t = normalizeSteps ext pos ns t' :=
  Kitoken.Proofs.Normalize.steps_in_order ext pos n ns t t' h

theorem empty_text_untouched (ext : NormExt) (steps : List Normalization) (pos : Position) :
    configNormalize ext steps pos [] = some (.ok []) := rfl

/-- Every step that is not external maps valid UTF-8 to valid UTF-8 (external steps return Rust
    `String`s, valid by type). -/
theorem builtin_steps_valid (ext : NormExt) (n : Normalization) (pos : Position) (cs : List Char) (out : Bytes)
    (hb : match n with
          | .append s | .prepend s => validUtf8 s = true
          | .replace (.string s) rep => validUtf8 s = true ∧ validUtf8 rep = true
          | .replace (.char _) rep => validUtf8 rep = true
          | .extend .. | .strip .. | .collapse .. | .nmt => True
          | _ => False)
    (h : n.normalize ext pos (encodeChars cs) = some (.ok out)) : validUtf8 out = true :=
  Kitoken.Proofs.Normalize.builtin_steps_valid ext n pos cs out hb h

end Kitoken.C11
