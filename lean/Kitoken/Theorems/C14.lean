/-
  C14 — definitions survive serialization and tokenizer <-> definition round trips.
  Property theorems only; helper lemmas live in Kitoken/Proofs/CodecLemmas.lean.
-/
import Kitoken.Proofs.CodecLemmas
import Kitoken.Generated.Layout
namespace Kitoken.C14

open Kitoken Kitoken.Spec Kitoken.DefCodec

/-- The layout of the hand-written wire-format model (types, field and variant names, in order) is
    literally the layout that the translator extracts from the serde derives of the current Rust
    source. A reordered field, a new variant, a changed type or a new serde attribute breaks this
    theorem (or the extraction). -/
theorem layout_matches_source :
    (definition (fun _ => some true)).shape = Generated.DEFINITION_SHAPE := by decide +kernel

/-- The layout does not depend on the regex oracle. -/
theorem shape_oracle_independent (ok : Bytes → Option Bool) :
    (definition ok).shape = (definition (fun _ => some true)).shape :=
  Kitoken.Proofs.Codec.definition_shape ok _

/-- Binary round trip: every representable definition, written and read back (with anything after it),
    is identical in every field — including special-token identifiers, scores (bit for bit, so NaN,
    −0, subnormals and infinities too) and extraction flags. -/
theorem definition_roundtrip (ok : Bytes → Option Bool) (d : Definition) (h : Representable ok d) (rest : Bytes) :
    (definition ok).dec ((definition ok).enc d ++ rest) = some (d, rest) :=
  Kitoken.Proofs.Codec.definition_roundtrip ok d h rest

/-- `from_slice (to_vec d) = d` through magic and version. -/
theorem fromSlice_toVec (d : Definition) (h : Representable (fun _ => some true) d) :
    fromSlice (fun _ => some true) (toVec d) = some d :=
  Kitoken.Proofs.Codec.fromSlice_toVec d h

/-- Re-serializing what was read gives the same bytes. -/
theorem reserialize_same_bytes (d d' : Definition) (h : Representable (fun _ => some true) d)
    (hr : fromSlice (fun _ => some true) (toVec d) = some d') : toVec d' = toVec d := by
  rw [fromSlice_toVec d h] at hr
  injection hr with hr; subst hr; rfl

/-- Files with a wrong size, magic or version are rejected. -/
theorem fromSlice_checks (ok : Bytes → Option Bool) (bs : Bytes)
    (h : bs.length < Generated.MAGIC.length + Generated.VERSION.length ∨ bs.take Generated.MAGIC.length ≠ Generated.MAGIC ∨
         (bs.drop Generated.MAGIC.length).take Generated.VERSION.length ≠ Generated.VERSION) :
    fromSlice ok bs = none :=
  Kitoken.Proofs.Codec.fromSlice_checks ok bs h

/-- Exporting the definition of a tokenizer built from a canonically ordered definition returns that
    definition, whatever order the hash maps iterate in (`pv`, `pvs` are arbitrary reorderings). -/
theorem export_canonical (d : Definition) (hc : Canonical d)
    (pv : List (Id × Bytes) → List (Id × Bytes)) (hpv : ∀ l, (pv l).Perm l)
    (pvs : List ((Id × Bytes) × UInt32) → List ((Id × Bytes) × UInt32)) (hpvs : ∀ l, (pvs l).Perm l) :
    exportDefinition d pv pvs = .ok d :=
  Kitoken.Proofs.Codec.export_canonical d hc pv hpv pvs hpvs

/-- The export does not depend on hash iteration order when the sort keys are total on the entries
    (used by C19): two arbitrary reorderings give the same result for a canonical definition. -/
theorem export_order_independent (d : Definition) (hc : Canonical d)
    (pv pv' : List (Id × Bytes) → List (Id × Bytes)) (hpv : ∀ l, (pv l).Perm l) (hpv' : ∀ l, (pv' l).Perm l)
    (pvs pvs' : List ((Id × Bytes) × UInt32) → List ((Id × Bytes) × UInt32)) (hpvs : ∀ l, (pvs l).Perm l) (hpvs' : ∀ l, (pvs' l).Perm l) :
    exportDefinition d pv pvs = exportDefinition d pv' pvs' := by
  rw [export_canonical d hc pv hpv pvs hpvs, export_canonical d hc pv' hpv' pvs' hpvs']

/-- "A tokenizer rebuilt from its own exported definition encodes like the original", the part that the F25 repair
    restored: for EVERY definition — also one whose specials are not listed in the order `specialLe` would give
    them — the export returns the specials in the listed order (which is the split priority and decides which
    unknown-kind special the encoders use), with the same configuration and metadata. -/
theorem export_keeps_specials (d d' : Definition)
    (pv : List (Id × Bytes) → List (Id × Bytes))
    (pvs : List ((Id × Bytes) × UInt32) → List ((Id × Bytes) × UInt32))
    (h : exportDefinition d pv pvs = .ok d') :
    d'.specials = d.specials ∧ d'.config = d.config ∧ d'.metadata = d.metadata :=
  Kitoken.Proofs.Codec.export_keeps_specials d d' pv pvs h

/-- Every tokenizer that `Kitoken::new` builds can export its definition: no panic and no error, for every
    iteration order (after the F27 repair, which rejects a NaN unigram score at construction; before it the export of
    such a tokenizer panicked in `partial_cmp(..).unwrap()`). -/
theorem export_ok_of_init (d : Definition) (tk : Tokenizer Score) (h : Tokenizer.new d = .ok tk)
    (pv : List (Id × Bytes) → List (Id × Bytes))
    (pvs : List ((Id × Bytes) × UInt32) → List ((Id × Bytes) × UInt32)) (hpvs : ∀ l, (pvs l).Perm l) :
    ∃ d', exportDefinition d pv pvs = .ok d' :=
  Kitoken.Proofs.Codec.export_ok_of_init d tk h pv pvs hpvs

end Kitoken.C14
