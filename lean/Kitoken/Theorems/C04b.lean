/-
  C04 / C06, continuation — the encodable stretches around unreachable positions.
  Property theorem only; the proof is in Kitoken/Proofs/UnigramStretch.lean.
-/
import Kitoken.Proofs.UnigramStretch
namespace Kitoken.C04

open Kitoken Kitoken.Unigram Kitoken.Spec

variable {S : Type} [Cost S] [Inhabited S]

/-- "Encodable neighbours are unaffected" for Unigram (C06), and optimality beyond the fully segmentable case
    (C04): in the walk that every Unigram encoding renders (`unigram_walk`), every run of vocabulary entries that
    starts at the beginning of the piece or directly after a hole is a cheapest segmentation of the text it
    covers — cheapest as the code measures it, accumulating from the value the run starts with (`Cost.zero` at the
    beginning of the piece, the restart value `Cost.big` after a hole). A hole therefore never changes which of
    two segmentations of the text after it wins, for every cost type with monotone subtraction. -/
theorem unigram_stretch_optimal [LawfulCost S] (c : UniCtx S) (fb : List Fallback) (piece : Bytes)
    (indices : List Nat) (pre : List (SizedPart S)) (res0 : List Id)
    (hb : UnitBounds piece.length (indices ++ [piece.length]))
    (h0 : (indices ++ [piece.length]).head? = some 0)
    (hid : ∀ b id sc, c.tok b = some (id, sc) → id ≠ INVALID)
    (hmax : ∀ b id sc, c.tok b = some (id, sc) → b.length ≤ c.maxTok) :
    ∃ items, IsWalk c.tok piece (indices ++ [piece.length]) 0 piece.length items ∧
      (match renderWalk c fb items with
        | .ok ids => ∃ buffer', encodeUnigram c fb piece pre res0 indices = .ok (buffer', res0 ++ ids) ∧
                       buffer'.take pre.length = pre
        | .err e => encodeUnigram c fb piece pre res0 indices = .err e
        | .panic p => encodeUnigram c fb piece pre res0 indices = .panic p) ∧
      ∀ (A R C : List Item), items = A ++ R ++ C → AllEntries R →
        (A = [] ∨ ∃ A' h, A = A' ++ [Item.hole h]) →
        ∀ s', IsSegFrom c.tok piece (indices ++ [piece.length])
            (A.flatMap Item.bytes).length ((A ++ R).flatMap Item.bytes).length s' →
          Cost.le (runCost c.tok (if A.isEmpty then Cost.zero else Cost.big) R)
                  (segCostFrom (if A.isEmpty then Cost.zero else Cost.big) s') = true :=
  Kitoken.Proofs.UnigramStretch.unigram_stretch_optimal c fb piece indices pre res0 hb h0 hid hmax

/-- Non-vacuity: vocabulary b: -1, c: -1, bc: -3 and the piece "Xbc" under `[Unknown]`: the walk is
    hole X, b, c (ids 9, 0, 1), the run after the hole is b, c, and "bc" is the other segmentation of its text. -/
example : Kitoken.Proofs.UnigramStretch.Examples.outIds
    (encodeUnigram Kitoken.Proofs.UnigramStretch.Examples.ctxX [.unknown] [88, 98, 99] [] [] [0, 1, 2]) = some [9, 0, 1] :=
  Kitoken.Proofs.UnigramStretch.Examples.stretch_example

end Kitoken.C04
