/-
  C20 — the Python binding returns exactly what the core library returns.
  Property theorems only.

  `Model/Binding.lean` is the wrapper as written in packages/python/src/lib.rs: flag defaults, error
  mapping, batch collection. The theorems say that this wrapper adds nothing: single calls are the core
  call with the flag defaulting to off, batch calls are the list of single calls (or the first error in
  order), and a crash of the binding can only be a panic of the core, which C18 excludes for well-formed
  tokenizers. The correspondence runs the real extension module under CPython on every shipped model
  through every constructor and compares each answer with the core library's and with the Lean model's.
  pyo3's argument conversion, the GIL handling and serde_pyobject are outside the model (level: partial).
-/
import Kitoken.Model.Binding
import Kitoken.Theorems.C18
namespace Kitoken.C20

open Kitoken Kitoken.Binding

variable {S : Type} [Cost S] [Inhabited S]

/-- Special handling is off by default. -/
theorem encode_default_off (tk : Tokenizer S) (ext : Ext) (text : Bytes) :
    encode tk ext text none = encode tk ext text (some false) := rfl

theorem decode_default_off (tk : Tokenizer S) (ext : Ext) (ids : List Id) :
    decode tk ext ids none = decode tk ext ids (some false) := rfl

/-- A single call returns exactly the core result: a value for a value, an exception carrying the
    library error for an error. -/
theorem encode_transparent (tk : Tokenizer S) (ext : Ext) (text : Bytes) (s : Bool) :
    encode tk ext text (some s) = ofOut (tk.encode ext text s) := rfl

theorem decode_transparent (tk : Tokenizer S) (ext : Ext) (ids : List Id) (s : Bool) :
    decode tk ext ids (some s) = ofOut (tk.decode ext ids s) := rfl

theorem encode_value_iff (tk : Tokenizer S) (ext : Ext) (text : Bytes) (s : Bool) (out : List Id) :
    encode tk ext text (some s) = .value out ↔ tk.encode ext text s = .res (.ok out) := by
  unfold encode ofOut
  simp only [Option.getD_some]
  split <;> simp_all

theorem encode_raises_iff (tk : Tokenizer S) (ext : Ext) (text : Bytes) (s : Bool) (e : Err) :
    encode tk ext text (some s) = .raises e ↔ tk.encode ext text s = .res (.err e) := by
  unfold encode ofOut
  simp only [Option.getD_some]
  split <;> simp_all

/-- A batch call returns the list of what the single calls return, when all of them return values. -/
theorem collect_values {α β : Type} (f : α → Py β) (xs : List α) (bs : List β) :
    collect f xs = .value bs ↔ xs.map f = bs.map .value := by
  induction xs generalizing bs with
  | nil => cases bs <;> simp [collect]
  | cons x xs ih =>
    cases bs with
    | nil =>
      simp only [collect, List.map_cons, List.map_nil]
      cases hf : f x <;> simp
      cases hc : collect f xs <;> simp
    | cons b bs =>
      simp only [collect, List.map_cons, List.cons.injEq]
      cases hf : f x with
      | value b' =>
        cases hc : collect f xs with
        | value bs' =>
          have := ih bs'
          simp only [hc, true_iff] at this
          constructor
          · intro h; injection h with h; injection h with h1 h2; subst h1 h2; exact ⟨rfl, this⟩
          · intro ⟨h1, h2⟩; injection h1 with h1; subst h1
            have := (ih bs).2 h2; rw [hc] at this; injection this with this; subst this; rfl
        | raises e => simp; intro _ h; have := (ih bs).2 h; rw [hc] at this; cases this
        | crash m => simp; intro _ h; have := (ih bs).2 h; rw [hc] at this; cases this
        | miss w => simp; intro _ h; have := (ih bs).2 h; rw [hc] at this; cases this
      | raises e => simp
      | crash m => simp
      | miss w => simp

theorem encode_all_eq_singles (tk : Tokenizer S) (ext : Ext) (texts : List Bytes) (flag : Option Bool) (outs : List (List Id)) :
    encodeAll tk ext texts flag = .value outs ↔ texts.map (fun t => encode tk ext t flag) = outs.map .value :=
  collect_values _ texts outs

theorem decode_all_eq_singles (tk : Tokenizer S) (ext : Ext) (seqs : List (List Id)) (flag : Option Bool) (outs : List Bytes) :
    decodeAll tk ext seqs flag = .value outs ↔ seqs.map (fun s => decode tk ext s flag) = outs.map .value :=
  collect_values _ seqs outs

/-- A batch call with a failing element raises that element's error, the first one in order. -/
theorem collect_first_error {α β : Type} (f : α → Py β) (pre post : List α) (x : α) (e : Err)
    (hpre : ∀ y ∈ pre, ∃ b, f y = .value b) (hx : f x = .raises e) :
    collect f (pre ++ x :: post) = .raises e := by
  induction pre with
  | nil => simp [collect, hx]
  | cons y ys ih =>
    obtain ⟨b, hb⟩ := hpre y (by simp)
    have := ih (fun z hz => hpre z (by simp [hz]))
    simp [collect, hb, this]

/-- The binding crashes only if the core panics; on a well-formed tokenizer, valid UTF-8 text (a Python
    `str` without lone surrogates, which the argument conversion rejects) and sane external libraries
    it never does (C18). -/
theorem encode_never_crashes (tk : Tokenizer S) (hw : Spec.SpecialsWF tk.specials)
    (hwf : match tk.encoder with
           | .bpe c => Spec.BpeWF c
           | .unigram c => EncUni.UniWF c
           | .wordpiece _ => True)
    (ext : Ext) (hx : C18.ExtSane ext)
    (hn : ∀ n ∈ tk.config.normalization, C18.NormLiteralsValid n)
    (hs : ∀ s ∈ tk.config.split, C18.SplitLiteralsValid s)
    (cs : List Char) (flag : Option Bool) (m : String) :
    encode tk ext (Utf8.encodeChars cs) flag ≠ .crash m := by
  intro h
  unfold encode at h
  cases hres : tk.encode ext (Utf8.encodeChars cs) (flag.getD false) with
  | miss w => rw [hres] at h; cases h
  | res r =>
    have := C18.encode_never_panics tk hw hwf ext hx hn hs cs (flag.getD false) r hres
    rw [hres] at h
    cases r <;> simp_all [ofOut, Res.isPanic]

theorem decode_never_crashes (tk : Tokenizer S) (ext : Ext) (ids : List Id) (flag : Option Bool) (m : String) :
    decode tk ext ids flag ≠ .crash m := by
  intro h
  unfold decode at h
  cases hres : tk.decode ext ids (flag.getD false) with
  | miss w => rw [hres] at h; cases h
  | res r =>
    have := C18.decode_never_panics tk ext ids (flag.getD false) r hres
    rw [hres] at h
    cases r <;> simp_all [ofOut, Res.isPanic]

end Kitoken.C20
