/-
  C18 — encoding and decoding never crash on a successfully loaded tokenizer.
  Composition of the totality results of the parts: decoder (C08), byte clean-up (C13), encoders
  (C06), token post-processing (C13), first/second pass (C07), split (C10), normalization (C11).
-/
import Kitoken.Theorems.C06
import Kitoken.Theorems.C07
import Kitoken.Theorems.C08
import Kitoken.Theorems.C13
import Kitoken.Theorems.C18b
namespace Kitoken.C18

open Kitoken Kitoken.Spec

/-- Decoding any id sequence on any tokenizer returns bytes or a decode error — never a panic —
    whatever the external regex engine returns for clean-up steps. -/
theorem decode_never_panics {S : Type} (tk : Tokenizer S) (ext : Ext) (ids : List Id) (ds : Bool) (r : Res Bytes)
    (h : tk.decode ext ids ds = .res r) : r.isPanic = false := by
  unfold Tokenizer.decode at h
  have hd := C08.decode_total tk.dec ids ds
  cases hdec : Decoder.decode tk.dec ids ds with
  | ok bytes =>
    rw [hdec] at h
    simp only [] at h
    cases hc : configDecode ext.dec tk.config.decoding bytes with
    | none => rw [hc] at h; cases h
    | some r' =>
      rw [hc] at h
      injection h with h; subst h
      exact C13.decode_steps_total ext.dec tk.config.decoding bytes r' hc
  | err e => rw [hdec] at h; injection h with h; subst h; rfl
  | panic p => rw [hdec] at hd; simp [Res.isPanic] at hd

/-- Token post-processing never panics, so an encoding that got through the encoder is returned. -/
theorem process_never_panics (steps : List Processing) (ts : List Id) : (configProcess steps ts).isPanic = false := by
  obtain ⟨out, h⟩ := C13.process_total steps ts
  rw [h]; rfl

/-- The three encoders never panic on well-formed contexts (every fallback list, every piece). -/
theorem encoder_never_panics {S : Type} [Cost S] [Inhabited S] (tk : Tokenizer S) (parts : List TextPart)
    (hne : ∀ p ∈ parts, p.special = INVALID → p.text ≠ [])
    (hwf : match tk.encoder with
           | .bpe c => BpeWF c
           | .unigram c => EncUni.UniWF c
           | .wordpiece _ => True) :
    (Tokenizer.runEncoder tk parts).isPanic = false := by
  unfold Tokenizer.runEncoder
  split
  · rename_i c hc; rw [hc] at hwf; exact C06.bpe_no_panic c hwf parts hne
  · rename_i c hc; rw [hc] at hwf; exact C06.unigram_no_panic c hwf parts
  · rename_i c hc; exact C06.wordpiece_no_panic c parts

/-- Given parts, the rest of `encode` never panics. -/
theorem encode_after_parts_never_panics {S : Type} [Cost S] [Inhabited S] (tk : Tokenizer S) (ext : Ext) (text : Bytes)
    (enc : Bool) (ps : List TextPart) (hp : tk.parts ext text enc = .res (.ok ps))
    (hne : ∀ p ∈ ps, p.special = INVALID → p.text ≠ [])
    (hwf : match tk.encoder with
           | .bpe c => BpeWF c
           | .unigram c => EncUni.UniWF c
           | .wordpiece _ => True)
    (r : Res (List Id)) (h : tk.encode ext text enc = .res r) : r.isPanic = false := by
  unfold Tokenizer.encode at h
  rw [hp] at h
  simp only [] at h
  have he := encoder_never_panics tk ps hne hwf
  cases hr : Tokenizer.runEncoder tk ps with
  | ok ids => rw [hr] at h; injection h with h; subst h; exact process_never_panics _ _
  | err e => rw [hr] at h; injection h with h; subst h; rfl
  | panic p => rw [hr] at he; simp [Res.isPanic] at he

/-- THE PROPERTY (encode side): for every well-formed tokenizer, every valid UTF-8 text and sane
    external libraries, `encode` returns tokens or an encode error — never a panic — and every text
    slice it takes is on a character boundary (an off-boundary slice is a panic in the model). -/
theorem encode_never_panics {S : Type} [Cost S] [Inhabited S] (tk : Tokenizer S) (hw : SpecialsWF tk.specials)
    (hwf : match tk.encoder with
           | .bpe c => BpeWF c
           | .unigram c => EncUni.UniWF c
           | .wordpiece _ => True)
    (ext : Ext) (hx : ExtSane ext)
    (hn : ∀ n ∈ tk.config.normalization, NormLiteralsValid n)
    (hs : ∀ s ∈ tk.config.split, SplitLiteralsValid s)
    (cs : List Char) (enc : Bool) (r : Res (List Id))
    (h : tk.encode ext (Utf8.encodeChars cs) enc = .res r) : r.isPanic = false := by
  cases hp : tk.parts ext (Utf8.encodeChars cs) enc with
  | miss w => unfold Tokenizer.encode at h; rw [hp] at h; cases h
  | res rp =>
    obtain ⟨ps, hps, hne⟩ := parts_total tk hw ext hx hn hs cs enc rp hp
    subst hps
    exact encode_after_parts_never_panics tk ext _ enc ps hp (fun p hp' hi => (hne p hp' hi).1) hwf r h

end Kitoken.C18
