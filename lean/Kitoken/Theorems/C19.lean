/-
  C19 — encoding is pure and thread-safe; conversion and serialization are deterministic.
  Property theorems only.

  The model of the pipeline is a function of tokenizer, external-library tables and input, and the
  session state (`Model/Session.lean`) is all the state a call can leave behind. The theorems state
  what that means for histories and interleavings. They are short because the model has no state to
  speak of; what makes them say something about the code is (a) the translator's check that the crate
  has no interior mutability beyond the one lazily initialised static, and (b) the correspondence:
  the implementation's answers obtained inside call histories, under 2–16 threads on one shared
  tokenizer, in fresh processes and in the build without CPU dispatch are compared with `answer`.
  Data races, memory ordering and the internals of the regex engine's caches are runtime behaviour the
  model cannot exhibit (level: partial).
-/
import Kitoken.Model.Session
import Kitoken.Generated.State
import Kitoken.Theorems.C14
namespace Kitoken.C19

open Kitoken Kitoken.Session

variable {S : Type} [Cost S] [Inhabited S]

/-- The session model lists every site in the current source through which a call could leave state
    behind (regenerated from /repo on every run): one lazily initialised static, nothing else. A new
    cache, counter, lock or thread-local breaks this theorem, and the model has to be extended first. -/
theorem state_sites_match :
    Generated.STATE_SITES = ["src/config/normalization.rs:OnceBox:1"] := by decide

/-- Repeated calls and calls after any history return what an isolated call returns: the answers of a
    history are the isolated answers, from every starting state. -/
theorem history_independent (tk : Tokenizer S) (ext : Ext) (s : Session) (calls : List Call) :
    run tk ext s calls = calls.map (answer tk ext) := by
  induction calls generalizing s with
  | nil => rfl
  | cons c cs ih => simp [run, step, ih]

/-- The state a history leaves behind does not matter to what follows. -/
theorem prefix_irrelevant (tk : Tokenizer S) (ext : Ext) (s : Session) (before after : List Call) :
    (run tk ext s (before ++ after)).drop before.length = run tk ext {} after := by
  simp [history_independent]

/-- Any ordering of a corpus gives the same answer for each text. -/
theorem order_irrelevant (tk : Tokenizer S) (ext : Ext) (s s' : Session) (calls calls' : List Call)
    (h : calls.Perm calls') : (run tk ext s calls).Perm (run tk ext s' calls') := by
  simp only [history_independent]; exact h.map _

/-- Interleavings: in any merged history of calls tagged with the thread that issued them, the answers
    received by thread `t` are exactly those of its own calls issued alone. -/
theorem interleaving_invariant (tk : Tokenizer S) (ext : Ext) (s : Session) (merged : List (Nat × Call)) (t : Nat) :
    (((merged.map (·.1)).zip (run tk ext s (merged.map (·.2)))).filter (·.1 == t)).map (·.2) =
      run tk ext {} ((merged.filter (·.1 == t)).map (·.2)) := by
  simp only [history_independent]
  induction merged with
  | nil => rfl
  | cons m ms ih =>
    simp only [List.map_cons, List.zip_cons_cons, List.filter_cons]
    split <;> simp_all

/-- The lazily initialised static is set by the first call and never changes afterwards. -/
theorem static_initialised_once (tk : Tokenizer S) (ext : Ext) (s : Session) (c : Call) :
    (step tk ext s c).1.nmtRegex = some () := rfl

/-- Serialization is a function of the definition, and exporting a definition from a tokenizer does
    not depend on the iteration order of its hash maps (C14 `export_order_independent`). -/
theorem export_deterministic (d : Definition) (hc : Spec.Canonical d)
    (pv pv' : List (Id × Bytes) → List (Id × Bytes)) (hpv : ∀ l, (pv l).Perm l) (hpv' : ∀ l, (pv' l).Perm l)
    (pvs pvs' : List ((Id × Bytes) × UInt32) → List ((Id × Bytes) × UInt32)) (hpvs : ∀ l, (pvs l).Perm l) (hpvs' : ∀ l, (pvs' l).Perm l) :
    exportDefinition d pv pvs = exportDefinition d pv' pvs' :=
  C14.export_order_independent d hc pv pv' hpv hpv' pvs pvs' hpvs hpvs'

end Kitoken.C19
