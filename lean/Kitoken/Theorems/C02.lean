/-
  C02 — tokens spell out the normalized input: nothing lost, invented or reordered.
  Encoder level: every final segment of a piece is accounted for, in order, by its own vocabulary
  token or by what the fallback makes of exactly that segment; the segments concatenate to the piece.
-/
import Kitoken.Theorems.EncBpe
import Kitoken.Theorems.EncUni
import Kitoken.Theorems.C04
import Kitoken.Theorems.C05
namespace Kitoken.C02

open Kitoken Kitoken.Spec

/-- What one final segment contributes (the `here` of `Spec.emitSegments`). -/
def hereOf (c : BpeCtx) (fb : List Fallback) (byteRec : Option (Bool → List Bytes → Res (List Id)))
    (suffixed : Bool) (seg : Bytes) (rest : List Bytes) : Res (List Id) :=
  match c.tok seg with
  | some t => .ok [t]
  | none =>
    match byteRec with
    | some rec =>
      let suffixed' := suffixed && rest.isEmpty
      let e := if suffixed' then (match c.eow with | some e => e.length | none => 0) else 0
      if e > seg.length then .panic "suffix longer than segment"
      else rec suffixed' (segsOfStarts seg (List.range (seg.length - e) ++ [seg.length]))
    | none => fallbackLeaf c.unknown fb seg

theorem emitSegments_cons (c : BpeCtx) (fb : List Fallback) (byteRec : Option (Bool → List Bytes → Res (List Id)))
    (suffixed : Bool) (seg : Bytes) (rest : List Bytes) :
    emitSegments c fb byteRec suffixed (seg :: rest) =
      match hereOf c fb byteRec suffixed seg rest with
      | .ok ids =>
        (match emitSegments c fb byteRec suffixed rest with
          | .ok more => .ok (ids ++ more)
          | other => other)
      | other => other := by
  simp only [emitSegments, hereOf]
  rfl

/-- BPE: the tokens are the in-order concatenation of per-segment outputs over the canonical
    segmentation, whose segments concatenate to the units; a segment that is a vocabulary entry
    contributes exactly its own token. -/
theorem bpe_accounting (c : BpeCtx) (fb : List Fallback) (byteRec : Option (Bool → List Bytes → Res (List Id)))
    (suffixed : Bool) (segs : List Bytes) (ids : List Id)
    (h : emitSegments c fb byteRec suffixed segs = .ok ids) :
    ∃ outs : List (List Id), outs.length = segs.length ∧ ids = outs.flatten ∧
      ∀ k (hk : k < segs.length) t, c.tok segs[k] = some t → outs[k]? = some [t] := by
  induction segs generalizing ids with
  | nil =>
    simp only [emitSegments] at h
    injection h with h; subst h
    exact ⟨[], rfl, rfl, fun k hk => absurd hk (by simp)⟩
  | cons seg rest ih =>
    rw [emitSegments_cons] at h
    cases hhere : hereOf c fb byteRec suffixed seg rest with
    | err e => rw [hhere] at h; simp at h
    | panic p => rw [hhere] at h; simp at h
    | ok here =>
      rw [hhere] at h
      simp only [] at h
      cases hmore : emitSegments c fb byteRec suffixed rest with
      | err e => rw [hmore] at h; simp at h
      | panic p => rw [hmore] at h; simp at h
      | ok more =>
        rw [hmore] at h
        simp only [] at h
        injection h with h; subst h
        obtain ⟨outs, hl, hf, hk⟩ := ih more hmore
        refine ⟨here :: outs, by simp [hl], by simp [hf], ?_⟩
        intro k hk' t ht
        cases k with
        | zero =>
          simp only [List.getElem_cons_zero] at ht
          simp only [hereOf, ht] at hhere
          injection hhere with hhere; subst hhere; rfl
        | succ k =>
          simp only [List.getElem_cons_succ] at ht
          simpa using hk k (by simpa using hk') t ht

/-- The canonical segmentation only concatenates adjacent units: the final segments spell the piece. -/
theorem bpe_segments_cover (rk : Bytes → Nat) (units : List Bytes) :
    (bpeSpec rk units).flatten = units.flatten :=
  (C03_spec_fixpoint rk units).2
where
  C03_spec_fixpoint (rk : Bytes → Nat) (segs : List Bytes) :=
    Kitoken.Proofs.Bpe.spec_fixpoint rk segs

/-- BPE without fallback: the tokens spell the piece (with its suffix) exactly. -/
theorem bpe_spelling (c : BpeCtx) (inv : Id → Option Bytes) (hinv : ∀ b t, c.tok b = some t → inv t = some b)
    (fb : List Fallback) (suffixed : Bool) (units : List Bytes) (ids : List Id)
    (hall : ∀ seg ∈ bpeSpec (Bpe.rankOf c) units, (c.tok seg).isSome)
    (h : bpeSegments c fb suffixed units = .ok ids) :
    (ids.map fun t => (inv t).getD []).flatten = units.flatten :=
  EncBpe.bpe_spelling c inv hinv fb suffixed units ids hall h

/-- Unigram: the walk that the result renders covers the piece in order; entries match the text at
    their span, holes are single characters. -/
theorem unigram_accounting {S : Type} [Cost S] [Inhabited S] (c : UniCtx S) (fb : List Fallback) (piece : Bytes)
    (indices : List Nat) (pre : List (SizedPart S)) (res0 : List Id)
    (hb : UnitBounds piece.length (indices ++ [piece.length]))
    (h0 : (indices ++ [piece.length]).head? = some 0)
    (hid : ∀ b id sc, c.tok b = some (id, sc) → id ≠ INVALID)
    (hmax : ∀ b id sc, c.tok b = some (id, sc) → b.length ≤ c.maxTok) :
    ∃ items, (items.map Item.bytes).flatten = piece ∧
      IsWalk c.tok piece (indices ++ [piece.length]) 0 piece.length items ∧
      (match renderWalk c fb items with
        | .ok ids => ∃ buffer', Unigram.encodeUnigram c fb piece pre res0 indices = .ok (buffer', res0 ++ ids)
        | .err e => Unigram.encodeUnigram c fb piece pre res0 indices = .err e
        | .panic p => Unigram.encodeUnigram c fb piece pre res0 indices = .panic p) := by
  obtain ⟨items, hw, hr⟩ := C04.unigram_walk c fb piece indices pre res0 hb h0 hid hmax
  refine ⟨items, ?_, hw, ?_⟩
  · have := EncUni.walk_covers c.tok piece _ 0 piece.length items (Nat.zero_le _) (Nat.le_refl _) hw
    simpa [slice] using this
  · cases hrw : renderWalk c fb items with
    | ok ids => rw [hrw] at hr; obtain ⟨b, h1, _⟩ := hr; exact ⟨b, h1⟩
    | err e => rw [hrw] at hr; exact hr
    | panic p => rw [hrw] at hr; exact hr

/-- Unigram without holes: the tokens spell the piece exactly. -/
theorem unigram_spelling {S : Type} [Cost S] [Inhabited S] (c : UniCtx S) (fb : List Fallback) (inv : Id → Option Bytes)
    (hinv : ∀ b id sc, c.tok b = some (id, sc) → inv id = some b)
    (piece : Bytes) (bounds : List Nat) (items : List Item) (ids : List Id)
    (hw : IsWalk c.tok piece bounds 0 piece.length items)
    (hno : ∀ it ∈ items, ∃ b id, it = .entry b id)
    (h : renderWalk c fb items = .ok ids) :
    (ids.map fun t => (inv t).getD []).flatten = piece :=
  EncUni.unigram_spelling c fb inv hinv piece bounds items ids hw hno h

/-- WordPiece: a successful encoding tiles the word with word-initial / continuation entries; a failed
    word yields only what the fallback prescribes for the whole word (never a partial spelling). -/
theorem wordpiece_spelling (c : WpCtx) (bytes : Bytes) (ts : List Id)
    (h : greedy c bytes (charEnds bytes) ((charEnds bytes).length + 1) 0 true = .ok ts)
    (hends : ∀ e ∈ charEnds bytes, e ≤ bytes.length) (hfuel : bytes.length < (charEnds bytes).length + 1 ∨ bytes.length = 0) :
    ∃ cuts : List Nat, cuts.length = ts.length ∧ List.Pairwise (· < ·) (0 :: cuts) ∧
      (0 < bytes.length → (0 :: cuts).getLast? = some bytes.length) ∧
      ∀ k (hk : k < ts.length),
        (if k = 0 then c.start else c.cont) (slice bytes ((0 :: cuts).getD k 0) (cuts.getD k 0)) = some ts[k] := by
  have := C05.greedy_spells c bytes (charEnds bytes) ((charEnds bytes).length + 1) 0 true ts
    (by rcases hfuel with h1 | h1 <;> omega) hends h
  obtain ⟨cuts, h1, h2, h3, _, h5⟩ := this
  refine ⟨cuts, h1, h2, h3, ?_⟩
  intro k hk
  have := h5 k hk
  simpa using this

end Kitoken.C02
