/-
  C09 — pre-tokenization boundaries are hard: pieces are encoded independently.
  The encoding of a list of parts is the in-order concatenation (`Spec.seqRes`) of what each part
  yields by itself (`Spec.perPart`): a recognized special token is exactly its id; an ordinary piece
  is encoded by a function of its text alone — whatever the scratch buffers held before, whatever the
  position in the input, whatever was encoded earlier.
-/
import Kitoken.Theorems.EncBpe
import Kitoken.Theorems.EncUni
namespace Kitoken.C09

open Kitoken Kitoken.Spec

/-- BPE (byte and character mode, both merge strategies, un-cleared scratch buffer in character mode,
    fallback recursion on the shared buffer). `hv`: parts are Rust `str`s, i.e. valid UTF-8 (needed only
    for long pieces in character mode, where the code takes character widths from the decoder). -/
theorem bpe_parts_independent (c : BpeCtx) (hw : BpeWF c) (parts : List TextPart)
    (hne : ∀ p ∈ parts, p.special = INVALID → p.text ≠ [])
    (hv : ∀ p ∈ parts, p.special = INVALID → c.chars = true →
      Bpe.useHeap (Utf8.charIndices p.text).length = true → validUtf8 p.text = true) :
    (match seqRes (parts.map (perPart (bpePieceSpec c))) with
     | .ok ids => Bpe.encode c parts = .ok ids
     | .err e => Bpe.encode c parts = .err e
     | .panic _ => ∃ q, Bpe.encode c parts = .panic q) :=
  EncBpe.bpe_encode_eq_flatMap_partial c hw parts hne hv

/-- Unigram (scratch buffer shared with the byte-fallback recursion, result reversal in place). -/
theorem unigram_parts_independent {S : Type} [Cost S] [Inhabited S] (c : UniCtx S) (parts : List TextPart) :
    Unigram.encode c parts = seqRes (parts.map (perPart (EncUni.uniPieceSpec c))) :=
  EncUni.unigram_encode_eq_flatMap c parts

/-- WordPiece. -/
theorem wordpiece_parts_independent (c : WpCtx) (parts : List TextPart) :
    WordPiece.encode c parts = seqRes (parts.map (perPart (WordPiece.encodeWord c))) :=
  EncBpe.wordpiece_encode_eq_flatMap c parts

/-- Concatenation of part lists: encoding `ps ++ qs` is encoding `ps` then `qs` — no token spans two
    pieces and nothing carries over (stated on the specification side, which the three theorems above
    equate with the encoders). -/
theorem seqRes_append (rs ss : List (Res (List Id))) :
    seqRes (rs ++ ss) =
      match seqRes rs with
      | .ok a => (match seqRes ss with | .ok b => .ok (a ++ b) | other => other)
      | other => other := by
  induction rs with
  | nil =>
    simp only [List.nil_append, seqRes]
    cases seqRes ss <;> simp
  | cons r rs ih =>
    simp only [List.cons_append, seqRes]
    cases r with
    | ok ids =>
      simp only []
      rw [ih]
      cases seqRes rs with
      | ok a =>
        simp only []
        cases seqRes ss <;> simp [List.append_assoc]
      | err e => rfl
      | panic p => rfl
    | err e => rfl
    | panic p => rfl

/-- A special part contributes exactly its id, alone (atomicity, used by C07). -/
theorem special_part_alone (piece : Bytes → Res (List Id)) (p : TextPart) (h : p.special ≠ INVALID) :
    perPart piece p = .ok [p.special] := by
  unfold perPart
  have : (p.special != INVALID) = true := by simpa using h
  rw [this]; rfl

/-- The whole pipeline is the composition: parts (both passes), encoder, token post-processing. -/
theorem pipeline_eq_composition {S : Type} [Cost S] [Inhabited S] (tk : Tokenizer S) (ext : Ext) (text : Bytes)
    (enc : Bool) (ps : List TextPart) (hp : tk.parts ext text enc = .res (.ok ps)) :
    tk.encode ext text enc =
      match Tokenizer.runEncoder tk ps with
      | .ok ids => .res (configProcess tk.config.processing ids)
      | .err e => .res (.err e)
      | .panic p => .res (.panic p) := by
  unfold Tokenizer.encode
  rw [hp]
  rfl

end Kitoken.C09
