/-
  C18 (continued) — the two passes of `encode` never panic and hand non-empty pieces to the encoder.
  Kept in a separate file while the proofs are developed; imported by C18.lean once they exist.
  Helper lemmas live in Kitoken/Proofs/TotalityLemmas.lean.
-/
import Kitoken.Proofs.TotalityLemmas
namespace Kitoken.C18

open Kitoken Kitoken.Spec Kitoken.Utf8

/- `ExtSane` (what is assumed of the external libraries), `NormLiteralsValid` and `SplitLiteralsValid`
   (configuration literals are valid UTF-8) are defined, unchanged, in
   Kitoken/Proofs/TotalityLemmas.lean (namespace `Kitoken.C18`), because the proofs need them and
   that file cannot import this one. -/

/-- Normalization of valid UTF-8 never panics and yields valid UTF-8 (built-in steps proved, external
    steps by `ExtSane`). -/
theorem normalize_total (ext : Ext) (hx : ExtSane ext) (steps : List Normalization)
    (hl : ∀ n ∈ steps, NormLiteralsValid n) (pos : Position) (cs : List Char) (r : Res Bytes)
    (h : configNormalize ext.norm steps pos (encodeChars cs) = some r) :
    ∃ out, r = .ok out ∧ validUtf8 out = true :=
  Kitoken.Proofs.Totality.normalize_total ext hx steps hl pos cs r h

/-- Every split of valid UTF-8 returns ordered ranges on character boundaries (literal patterns proved
    in C10, regex patterns by `ExtSane`, Unicode script from character starts). -/
theorem split_aligned (ext : Ext) (hx : ExtSane ext) (splits : List Split) (hl : ∀ s ∈ splits, SplitLiteralsValid s)
    (cs : List Char) (rs : Ranges) (h : configSplit ext.split splits (encodeChars cs) = some rs) :
    Ordered (encodeChars cs).length 0 rs ∧ Aligned (encodeChars cs) rs :=
  Kitoken.Proofs.Totality.split_aligned ext hx splits hl cs rs h

/-- Both passes together: on every valid UTF-8 text, a well-formed tokenizer and sane external
    libraries, building the parts never panics, every text slice is on a character boundary, and
    every ordinary part handed to the encoder is a non-empty valid UTF-8 string. -/
theorem parts_total {S : Type} (tk : Tokenizer S) (hw : SpecialsWF tk.specials) (ext : Ext) (hx : ExtSane ext)
    (hn : ∀ n ∈ tk.config.normalization, NormLiteralsValid n)
    (hs : ∀ s ∈ tk.config.split, SplitLiteralsValid s)
    (cs : List Char) (enc : Bool) (r : Res (List TextPart))
    (h : tk.parts ext (encodeChars cs) enc = .res r) :
    ∃ ps, r = .ok ps ∧ ∀ p ∈ ps, (p.special = INVALID → p.text ≠ [] ∧ validUtf8 p.text = true) :=
  Kitoken.Proofs.Totality.parts_total tk hw ext hx hn hs cs enc r h

end Kitoken.C18
