/-
  C13 — token post-processing steps match their documentation and are total.
  Property theorems only; helper lemmas live in Kitoken/Proofs/ProcessLemmas.lean.
-/
import Kitoken.Proofs.ProcessLemmas
import Kitoken.Proofs.NormalizeLemmas
namespace Kitoken.C13

open Kitoken

/-! ### Strip -/

/-- Strip never panics (holds after the F2 repair; see `strip_old_panics`). -/
theorem strip_total (id : Id) (l r : Nat) (ts : List Id) :
    ∃ out, processStrip id l r ts = .ok out := by
  unfold processStrip
  have h := countLeading_le_length id r (ts.drop (countLeading id l ts)).reverse
  simp only [List.length_reverse] at h
  simp only []
  split
  · omega
  · exact ⟨_, rfl⟩

/-- Strip removes only copies of `id`, at most `l` from the front and `r` from the back, and it
    removes as many as allowed (maximality). This determines the result uniquely. -/
theorem strip_spec (id : Id) (l r : Nat) (ts out : List Id)
    (h : processStrip id l r ts = .ok out) :
    ∃ a b, a ≤ l ∧ b ≤ r ∧ ts = List.replicate a id ++ out ++ List.replicate b id ∧
      (a < l → (out ++ List.replicate b id).head? ≠ some id) ∧
      (b < r → out.getLast? ≠ some id) := by
  unfold processStrip at h
  simp only [] at h
  split at h
  · cases h
  · rename_i hle
    injection h with h
    subst h
    refine ⟨countLeading id l ts, countLeading id r (ts.drop (countLeading id l ts)).reverse,
      countLeading_le _ _ _, countLeading_le _ _ _, ?_, ?_, ?_⟩
    · -- decomposition
      have h1 := countLeading_prefix id l ts
      have h2 := countLeading_prefix id r (ts.drop (countLeading id l ts)).reverse
      generalize countLeading id l ts = a at *
      generalize hb : countLeading id r (List.drop a ts).reverse = b at *
      have hlen : b ≤ (List.drop a ts).length := by omega
      have h3 : (List.drop a ts).drop ((List.drop a ts).length - b) = List.replicate b id := by
        have := congrArg List.reverse h2
        rw [List.reverse_replicate] at this
        rw [← this, List.take_reverse, List.reverse_reverse]
      calc ts = ts.take a ++ ts.drop a := (List.take_append_drop a ts).symm
        _ = List.replicate a id ++ ((List.drop a ts).take ((List.drop a ts).length - b) ++
              (List.drop a ts).drop ((List.drop a ts).length - b)) := by
              rw [h1, List.take_append_drop]
        _ = _ := by rw [h3, List.append_assoc]
    · -- front maximality
      intro hlt
      have hmax := countLeading_maximal id l ts hlt
      have h2 := countLeading_prefix id r (ts.drop (countLeading id l ts)).reverse
      generalize countLeading id l ts = a at *
      generalize hb : countLeading id r (List.drop a ts).reverse = b at *
      have h3 : (List.drop a ts).drop ((List.drop a ts).length - b) = List.replicate b id := by
        have := congrArg List.reverse h2
        rw [List.reverse_replicate] at this
        rw [← this, List.take_reverse, List.reverse_reverse]
      rw [← h3, List.take_append_drop]
      exact hmax
    · -- back maximality
      intro hlt
      have hmax := countLeading_maximal id r (ts.drop (countLeading id l ts)).reverse hlt
      generalize countLeading id l ts = a at *
      generalize hb : countLeading id r (List.drop a ts).reverse = b at *
      rw [List.drop_reverse, List.head?_reverse] at hmax
      exact hmax

/-- Non-vacuity and the pre-repair witness: the old variant panics on `[1,1]`, the repaired one does not. -/
example : (processStripOld 1 2 2 [1, 1]).isPanic = true := by decide
example : processStrip 1 2 2 [1, 1] = .ok [] := by decide
example : processStrip 1 1 1 [1, 1, 2, 2, 3, 3, 3, 4, 4, 4, 1] = .ok [1, 2, 2, 3, 3, 3, 4, 4, 4] := by decide


/-! ### Collapse -/

/-- Collapse replaces every maximal run of `id` by a single `id` and touches nothing else. -/
theorem collapse_eq_spec (id : Id) (ts : List Id) : processCollapse id ts = collapseSpec id ts :=
  processCollapse_eq_spec id ts

/-- Collapse only removes tokens (the result is a subsequence, order kept). -/
theorem collapse_sublist (id : Id) (ts : List Id) : (processCollapse id ts).Sublist ts := by
  rw [processCollapse_eq_spec]; exact collapseSpec_sublist id ts

/-- Collapse removes repeats of that id only: all other tokens survive, in order. -/
theorem collapse_keeps_others (id : Id) (ts : List Id) :
    (processCollapse id ts).filter (· ≠ id) = ts.filter (· ≠ id) := by
  rw [processCollapse_eq_spec]; exact collapseSpec_filter id ts

/-- After Collapse no two adjacent tokens are both `id`. -/
theorem collapse_no_adjacent (id : Id) (ts : List Id) : NoAdj id (processCollapse id ts) := by
  rw [processCollapse_eq_spec]; exact collapseSpec_noAdj id ts

/-- Collapse is idempotent. -/
theorem collapse_idempotent (id : Id) (ts : List Id) :
    processCollapse id (processCollapse id ts) = processCollapse id ts := by
  rw [processCollapse_eq_spec id (processCollapse id ts)]
  exact collapseSpec_of_noAdj id _ (collapse_no_adjacent id ts)

example : processCollapse 3 [1, 1, 2, 2, 3, 3, 3, 4, 4, 4, 4] = [1, 1, 2, 2, 3, 4, 4, 4, 4] := by decide

/-! ### Pad -/

/-- Pad leaves sequences that already reach the target length unchanged. -/
theorem pad_noop (id : Id) (n s : Nat) (d : Direction) (ts : List Id) (h : n ≤ ts.length) :
    processPad id n s d ts = ts := by
  unfold processPad; simp [h]

/-- Pad adds only copies of `id`, only on the given side; the result reaches the target length,
    overshoots by less than one stride, and the amount added is a multiple of the stride. -/
theorem pad_spec (id : Id) (n s : Nat) (d : Direction) (ts : List Id) (h : ts.length < n) :
    ∃ k, (processPad id n s d ts = match d with
            | .left => List.replicate k id ++ ts
            | .right => ts ++ List.replicate k id) ∧
         n ≤ ts.length + k ∧ (s = 0 → ts.length + k = n) ∧
         (0 < s → ts.length + k < n + s ∧ k % s = 0) := by
  refine ⟨roundUp (n - ts.length) s, ?_, ?_, ?_, ?_⟩
  · unfold processPad
    have : ¬ ts.length ≥ n := by omega
    simp only [this, if_false]
    cases d <;> rfl
  · have := roundUp_ge (n - ts.length) s; omega
  · intro hs; subst hs; rw [roundUp_zero_stride]; omega
  · intro hs
    exact ⟨by have := roundUp_lt (n - ts.length) s hs; omega, roundUp_mod _ _ hs⟩

example : processPad 0 5 2 .left [1, 2, 3] = [0, 0, 1, 2, 3] := by decide
example : processPad 0 5 2 .right [1, 2, 3] = [1, 2, 3, 0, 0] := by decide

/-! ### Truncate -/

/-- Truncate never panics (holds after the F3 repair; see the `Old` witness below). -/
theorem truncate_total (n s : Nat) (d : Direction) (ts : List Id) :
    ∃ out, processTruncate n s d ts = .ok out := by
  unfold processTruncate
  simp only []
  split
  · exact ⟨_, rfl⟩
  · have hmin : min (roundUp (ts.length - n) s) ts.length ≤ ts.length := Nat.min_le_right _ _
    cases d <;> simp only [] <;> split <;> first | omega | exact ⟨_, rfl⟩

/-- Truncate removes tokens only from the given side, never leaves more than the target length,
    leaves short sequences alone, and removes a whole number of strides unless that would
    exceed the sequence. -/
theorem truncate_spec (n s : Nat) (d : Direction) (ts out : List Id)
    (h : processTruncate n s d ts = .ok out) :
    out.length ≤ n ∧
    (ts.length ≤ n → out = ts) ∧
    (∃ k, k ≤ ts.length ∧ out = (match d with | .left => ts.drop k | .right => ts.take (ts.length - k)) ∧
          (n < ts.length → ts.length - n ≤ k ∧ (0 < s → k = ts.length ∨ (k % s = 0 ∧ k < ts.length - n + s)))) := by
  unfold processTruncate at h
  simp only [] at h
  split at h
  · rename_i hle
    injection h with h; subst h
    refine ⟨hle, fun _ => rfl, 0, Nat.zero_le _, ?_, fun hh => by omega⟩
    cases d <;> simp
  · rename_i hgt
    have hge := roundUp_ge (ts.length - n) s
    generalize hk : min (roundUp (ts.length - n) s) ts.length = k at h
    have hk1 : k ≤ ts.length := by omega
    have hk2 : ts.length - n ≤ k := by omega
    have hk3 : 0 < s → k = ts.length ∨ (k % s = 0 ∧ k < ts.length - n + s) := by
      intro hs
      have h1 := roundUp_lt (ts.length - n) s hs
      have h2 := roundUp_mod (ts.length - n) s hs
      by_cases hc : roundUp (ts.length - n) s ≤ ts.length
      · right; rw [Nat.min_eq_left hc] at hk; subst hk; exact ⟨h2, h1⟩
      · left; rw [Nat.min_eq_right (by omega)] at hk; exact hk.symm
    cases d <;> simp only [] at h <;> split at h <;> first | omega | skip
    · injection h with h; subst h
      refine ⟨by simp; omega, fun hh => by omega, k, hk1, rfl, fun _ => ⟨hk2, hk3⟩⟩
    · injection h with h; subst h
      refine ⟨by simp; omega, fun hh => by omega, k, hk1, rfl, fun _ => ⟨hk2, hk3⟩⟩

example : (processTruncateOld 2 4 .left [1, 2, 3]).isPanic = true := by decide
example : processTruncate 2 4 .left [1, 2, 3] = .ok [] := by decide
example : processTruncate 5 2 .left [1, 2, 3, 4, 5, 6, 7, 8, 9, 10] = .ok [7, 8, 9, 10] := by decide
example : processTruncate 5 2 .right [1, 2, 3, 4, 5, 6, 7, 8, 9, 10] = .ok [1, 2, 3, 4] := by decide

/-! ### Idempotence and the fixed-length idiom (corollaries of the specifications above) -/

/-- Padding twice with the same parameters is padding once. -/
theorem pad_idempotent (id : Id) (n s : Nat) (d : Direction) (ts : List Id) :
    processPad id n s d (processPad id n s d ts) = processPad id n s d ts := by
  by_cases h : n ≤ ts.length
  · rw [pad_noop id n s d ts h, pad_noop id n s d ts h]
  · obtain ⟨k, hk, hn, _, _⟩ := pad_spec id n s d ts (by omega)
    apply pad_noop
    rw [hk]; cases d <;> simp <;> omega

/-- Truncating twice with the same parameters is truncating once. -/
theorem truncate_idempotent (n s : Nat) (d : Direction) (ts out : List Id)
    (h : processTruncate n s d ts = .ok out) : processTruncate n s d out = .ok out := by
  have hl := (truncate_spec n s d ts out h).1
  unfold processTruncate
  simp [hl]

/-- The fixed-length idiom: pad to `n`, then truncate to `n`, both with stride 0, always yields exactly `n` tokens. -/
theorem pad_then_truncate_length (id : Id) (n : Nat) (d d' : Direction) (ts out : List Id)
    (h : processTruncate n 0 d' (processPad id n 0 d ts) = .ok out) : out.length = n := by
  by_cases hle : n ≤ ts.length
  · rw [pad_noop id n 0 d ts hle] at h
    obtain ⟨hlen, _, k, hk, hout, hrest⟩ := truncate_spec n 0 d' ts out h
    by_cases heq : ts.length = n
    · have := (truncate_spec n 0 d' ts out h).2.1 (by omega); subst this; exact heq
    · unfold processTruncate at h
      simp only [] at h
      have hgt : ¬ ts.length ≤ n := by omega
      simp only [hgt, if_false, roundUp_zero_stride] at h
      have hmin : min (ts.length - n) ts.length = ts.length - n := by omega
      rw [hmin] at h
      cases d' <;> simp only [] at h <;> split at h <;> first | omega | skip
      · injection h with h; subst h; simp; omega
      · injection h with h; subst h; simp; omega
  · obtain ⟨k, hk, hn, hz, _⟩ := pad_spec id n 0 d ts (by omega)
    have hkn := hz rfl
    have hlen : (processPad id n 0 d ts).length = n := by
      rw [hk]; cases d <;> simp <;> omega
    have := (truncate_spec n 0 d' _ out h).2.1 (by omega)
    subst this; exact hlen

example : processTruncate 4 0 .right (processPad 0 4 0 .left [1, 2]) = .ok [0, 0, 1, 2] := by decide
example : processTruncate 4 0 .right (processPad 0 4 0 .left [1, 2, 3, 4, 5, 6]) = .ok [1, 2, 3, 4] := by decide
/-! ### The configured sequence of steps -/

theorem processSteps_total (steps : List Processing) (ts : List Id) :
    ∃ out, processSteps steps ts = .ok out := by
  induction steps generalizing ts with
  | nil => exact ⟨_, rfl⟩
  | cons p ps ih =>
    simp only [processSteps]
    have : ∃ o, p.process ts = .ok o := by
      cases p with
      | strip id l r => exact strip_total id l r ts
      | collapse id => exact ⟨_, rfl⟩
      | pad id n s d => exact ⟨_, rfl⟩
      | truncate n s d => exact truncate_total n s d ts
    obtain ⟨o, ho⟩ := this
    rw [ho]
    exact ih o

/-- Token post-processing is total: every step list on every sequence returns a sequence. -/
theorem process_total (steps : List Processing) (ts : List Id) :
    ∃ out, configProcess steps ts = .ok out := by
  unfold configProcess
  split
  · exact ⟨_, rfl⟩
  · exact processSteps_total steps ts

/-- Steps run in the configured order, and an empty sequence is returned unchanged. -/
theorem process_order (p : Processing) (ps : List Processing) (ts : List Id) (h : ts ≠ []) :
    configProcess (p :: ps) ts = (p.process ts).bind (processSteps ps) := by
  unfold configProcess
  cases ts with
  | nil => exact absurd rfl h
  | cons a t => rfl

theorem process_empty (steps : List Processing) : configProcess steps [] = .ok [] := rfl

/-! ### Byte clean-up steps applied after decoding (src/config/decoding.rs) -/

open Kitoken.Spec Kitoken.Utf8 in
/-- Strip never panics on arbitrary bytes, valid UTF-8 or not (holds after the F11 repair: an invalid
    byte decodes lossily to U+FFFD but is not counted as that character). -/
theorem decode_strip_total (ch : Char) (l r : Nat) (text : Bytes) : (decodeStrip ch l r text).isPanic = false :=
  Kitoken.Proofs.Normalize.decodeStrip_total ch l r text

/-- No sequence of byte clean-up steps panics on any byte string (regex replacement is external and
    returns a string or is absent from the oracle table). -/
theorem decode_steps_total (ext : DecodeExt) (steps : List Decoding) (text : Bytes) (r : Res Bytes)
    (h : configDecode ext steps text = some r) : r.isPanic = false :=
  Kitoken.Proofs.Normalize.configDecode_total ext steps text r h

open Kitoken.Spec Kitoken.Utf8 in
/-- On valid UTF-8 the byte steps have exactly their documented character-level effect. -/
theorem decode_strip_chars (ch : Char) (l r : Nat) (cs : List Char) :
    decodeStrip ch l r (encodeChars cs) = .ok (encodeChars (stripSpec ch l r cs)) :=
  Kitoken.Proofs.Normalize.strip_chars ch l r cs

open Kitoken.Spec Kitoken.Utf8 in
theorem decode_extend_chars (ch : Char) (l r : Nat) (pad : Bool) (cs : List Char) :
    decodeExtend ch l r pad (encodeChars cs) = encodeChars (extendSpec ch l r pad cs) :=
  Kitoken.Proofs.Normalize.extend_chars ch l r pad cs

open Kitoken.Spec Kitoken.Utf8 in
theorem decode_collapse_chars (ch : Char) (cs : List Char) :
    decodeCollapse ch (encodeChars cs) = encodeChars (collapseChars ch false cs) :=
  Kitoken.Proofs.Normalize.collapse_chars ch cs

/-- Literal replacement on bytes: every leftmost non-overlapping occurrence (an empty pattern matches
    between all bytes, as bstr's `replace`). -/
theorem decode_replace_literal (ext : DecodeExt) (s rep text : Bytes) :
    decodeReplace ext (.string s) rep text = some (replaceAll s rep text) := rfl

/-- The pre-repair Strip panics on an invalid byte when stripping U+FFFD; the repaired one does not. -/
example : (decodeStripOld (Char.ofNat 0xFFFD) 1 0 [0xFF]).isPanic = true :=
  Kitoken.Proofs.Normalize.decodeStripOld_panics

end Kitoken.C13
