/-
  Piece- and part-level theorems for the BPE and WordPiece encoders, shared by C02, C03, C06, C09:
  the encoders with their scratch buffers, strategy switch, shortcut and fallback recursion equal the
  buffer-free specifications of Kitoken.Spec.Pieces / Kitoken.Spec.Compose.
  Helper lemmas live in Kitoken/Proofs/BpeEncodeLemmas.lean.
-/
import Kitoken.Proofs.BpeEncodeLemmas
namespace Kitoken.EncBpe

open Kitoken Kitoken.Bpe Kitoken.Spec

/-- Linear strategy incl. emission and fallback recursion: for every fallback list, on a scratch buffer
    holding `pre` and a result holding `res`, the tokens appended are exactly the specification's tokens
    for the units; `pre` and `res` are untouched; errors coincide and carry the same bytes. -/
theorem encodePairs_eq_spec (c : BpeCtx) (hr : ∀ b, rankOf c b ≤ MAXR) (fb : List Fallback) (piece : Bytes)
    (pre : List RankedPart) (res : List Id) (indices : List Nat) (suffixed : Bool)
    (hb : Boundaries piece.length (indices ++ [piece.length])) :
    match bpeSegments c fb suffixed (segsOfStarts piece (indices ++ [piece.length])) with
    | .ok ids => ∃ buf, encodePairs c fb piece pre res indices suffixed = .ok (buf, res ++ ids) ∧
                   buf.take pre.length = pre
    | .err e => encodePairs c fb piece pre res indices suffixed = .err e
    | .panic _ => ∃ q, encodePairs c fb piece pre res indices suffixed = .panic q :=
  Kitoken.Proofs.BpeEncode.encodePairs_eq_spec c hr fb piece pre res indices suffixed hb

/-- Heap strategy incl. emission and fallback recursion: same specification. -/
theorem encodePairsHeap_eq_spec (c : BpeCtx) (hr : ∀ b, rankOf c b ≤ MAXR) (fb : List Fallback) (piece : Bytes)
    (pre : List RankedPart) (res : List Id) (us : List (Nat × Nat)) (suffixed : Bool)
    (hu : UnitsWF piece.length us) :
    match bpeSegments c fb suffixed (segsOfStarts piece (unitStarts piece.length us)) with
    | .ok ids => ∃ buf, encodePairsHeap c fb piece pre res us suffixed = .ok (buf, res ++ ids) ∧
                   buf.take pre.length = pre
    | .err e => encodePairsHeap c fb piece pre res us suffixed = .err e
    | .panic _ => ∃ q, encodePairsHeap c fb piece pre res us suffixed = .panic q :=
  Kitoken.Proofs.BpeEncode.encodePairsHeap_eq_spec c hr fb piece pre res us suffixed hu

/- ORIGINAL STATEMENT (FALSE as written; kept for reference):

   theorem encodePart_eq_spec (c : BpeCtx) (hw : BpeWF c) (text : Bytes) (htext : text ≠ [])
       (buffer : List RankedPart) (res : List Id) :
       match bpePieceSpec c text with
       | .ok ids => ∃ buf, encodePart c (text ++ c.eow.getD []) buffer res = .ok (buf, res ++ ids)
       | .err e => encodePart c (text ++ c.eow.getD []) buffer res = .err e
       | .panic _ => ∃ q, encodePart c (text ++ c.eow.getD []) buffer res = .panic q

   Counterexample (character mode, heap strategy, text that is not valid UTF-8): `encode_chars` declares the
   unit widths as `ch.len_utf8()` of the lossily decoded character; an invalid byte decodes to U+FFFD
   (`len_utf8 = 3`) but consumes 1–3 bytes, so the heap nodes get widths that overlap their successors
   (the linear strategy only uses the unit starts and is not affected). With
     c = { tok := fun _ => none, rank := fun _ => none, unknown := none, eow := none, chars := true,
           fallback := [], maxTok := 0, minTok := 0 }          -- `BpeWF c` holds
     text = List.replicate 193 0xFF                            -- 193 > ENCODE_LINEAR_LIMIT = 192
   `bpePieceSpec c text = .err (.invalidPiece [255])` but
   `encodePart c text [] [] = .err (.invalidPiece [255, 255, 255])` (checked with `#eval`; with 192 bytes
   both give `[255]`). With `tok := fun b => if b = [255, 255, 255] then some 7 else none`,
   `fallback := [.skip]`, `minTok = maxTok = 3` the specification yields `.ok []` and the model `.ok` of
   191 tokens `7` (the "spelling" would be 573 bytes for a 193-byte text).
   Machine-checked refutation: `Kitoken.Proofs.BpeEncode.encodePart_eq_spec_unrestricted_false`.
   Minimal repair: hypothesis `hv` — in character mode, a text long enough for the heap strategy is valid
   UTF-8 (always the case for Rust `&str` input that was not cut inside a character). -/

/-- One part (short or long, byte or character mode, with or without suffix): what is appended to the
    result is `bpePieceSpec` of the part's text, whatever the scratch buffer held before. In character
    mode with the heap strategy the text must be valid UTF-8. -/
theorem encodePart_eq_spec_partial (c : BpeCtx) (hw : BpeWF c) (text : Bytes) (htext : text ≠ [])
    (hv : c.chars = true → useHeap (Utf8.charIndices text).length = true → validUtf8 text = true)
    (buffer : List RankedPart) (res : List Id) :
    match bpePieceSpec c text with
    | .ok ids => ∃ buf, encodePart c (text ++ c.eow.getD []) buffer res = .ok (buf, res ++ ids)
    | .err e => encodePart c (text ++ c.eow.getD []) buffer res = .err e
    | .panic _ => ∃ q, encodePart c (text ++ c.eow.getD []) buffer res = .panic q :=
  Kitoken.Proofs.BpeEncode.encodePart_eq_spec_partial c hw text htext hv buffer res

/- ORIGINAL STATEMENT (FALSE as written, same counterexample with `parts = [{ text, special := INVALID }]`,
   machine-checked refutation `Kitoken.Proofs.BpeEncode.encode_eq_flatMap_unrestricted_false`;
   kept for reference):

   theorem bpe_encode_eq_flatMap (c : BpeCtx) (hw : BpeWF c) (parts : List TextPart)
       (hne : ∀ p ∈ parts, p.special = INVALID → p.text ≠ []) :
       (match seqRes (parts.map (perPart (bpePieceSpec c))) with
        | .ok ids => Bpe.encode c parts = .ok ids
        | .err e => Bpe.encode c parts = .err e
        | .panic _ => ∃ q, Bpe.encode c parts = .panic q)

   Minimal repair: hypothesis `hv` as in `encodePart_eq_spec_partial`, for every ordinary part. -/

/-- C09 for BPE: the encoding of a list of parts is the in-order concatenation of the encodings of the
    parts taken alone (recognized specials are their ids); nothing carries over between parts. -/
theorem bpe_encode_eq_flatMap_partial (c : BpeCtx) (hw : BpeWF c) (parts : List TextPart)
    (hne : ∀ p ∈ parts, p.special = INVALID → p.text ≠ [])
    (hv : ∀ p ∈ parts, p.special = INVALID → c.chars = true →
      useHeap (Utf8.charIndices p.text).length = true → validUtf8 p.text = true) :
    (match seqRes (parts.map (perPart (bpePieceSpec c))) with
     | .ok ids => Bpe.encode c parts = .ok ids
     | .err e => Bpe.encode c parts = .err e
     | .panic _ => ∃ q, Bpe.encode c parts = .panic q) :=
  Kitoken.Proofs.BpeEncode.encode_eq_flatMap_partial c hw parts hne hv

/-- C09 for WordPiece. -/
theorem wordpiece_encode_eq_flatMap (c : WpCtx) (parts : List TextPart) :
    WordPiece.encode c parts = seqRes (parts.map (perPart (WordPiece.encodeWord c))) :=
  Kitoken.Proofs.BpeEncode.wordpiece_encode_eq_flatMap c parts

/-- No panic: with well-formed context the BPE encoder never panics (the suffix subtraction sites
    repaired in F7 are unreachable) — also on text that is not valid UTF-8. -/
theorem bpe_no_panic (c : BpeCtx) (hw : BpeWF c) (parts : List TextPart)
    (hne : ∀ p ∈ parts, p.special = INVALID → p.text ≠ []) :
    (Bpe.encode c parts).isPanic = false :=
  Kitoken.Proofs.BpeEncode.bpe_no_panic c hw parts hne

/-- C02 for BPE (no fallback fired): if every final segment is a vocabulary entry, the tokens, mapped
    back through any left inverse of the vocabulary map, spell the piece with its suffix. -/
theorem bpe_spelling (c : BpeCtx) (inv : Id → Option Bytes) (hinv : ∀ b t, c.tok b = some t → inv t = some b)
    (fb : List Fallback) (suffixed : Bool) (units : List Bytes) (ids : List Id)
    (hall : ∀ seg ∈ bpeSpec (rankOf c) units, (c.tok seg).isSome)
    (h : bpeSegments c fb suffixed units = .ok ids) :
    (ids.map fun t => (inv t).getD []).flatten = units.flatten :=
  Kitoken.Proofs.BpeEncode.bpe_spelling c inv hinv fb suffixed units ids hall h

end Kitoken.EncBpe
