/-
  C10 — every split yields ordered, in-bounds ranges with the documented grouping.
  Property theorems only; helper lemmas live in Kitoken/Proofs/SplitLemmas.lean.
-/
import Kitoken.Proofs.SplitLemmas
import Kitoken.Proofs.Utf8Lemmas2
namespace Kitoken.C10

open Kitoken Kitoken.Spec

/-! ### grouping: each behaviour equals its description through matches and gaps (for every match list) -/

theorem remove_eq_gaps (ms : Ranges) (len : Nat) : invert ms len = gapsSpec len 0 ms :=
  Kitoken.Proofs.Split.invert_eq ms len

theorem isolate_grouping (ms : Ranges) (len : Nat) : expand ms len = isolateSpec len 0 ms :=
  Kitoken.Proofs.Split.expand_eq ms len

theorem merge_grouping (ms : Ranges) (len : Nat) :
    expand (merge ms) len = isolateSpec len 0 (fuseAdjacent ms) :=
  Kitoken.Proofs.Split.merge_eq ms len

theorem mergeLeft_grouping (ms : Ranges) (len : Nat) : mergeLeft ms len = mergeLeftSpec len 0 ms :=
  Kitoken.Proofs.Split.mergeLeft_eq ms len

theorem mergeRight_grouping (ms : Ranges) (len : Nat) (h : Chain len 0 ms) :
    mergeRight ms len = mergeRightSpec len ms :=
  Kitoken.Proofs.Split.mergeRight_eq ms len h

/-! ### tiling and order -/

/-- Isolate, Merge, MergeLeft and MergeRight tile the whole text exactly. -/
theorem isolate_tiles (ms : Ranges) (len : Nat) (h : Chain len 0 ms) : Tiles len 0 (expand ms len) :=
  Kitoken.Proofs.Split.expand_tiles ms len h

theorem merge_tiles (ms : Ranges) (len : Nat) (h : Chain len 0 ms) : Tiles len 0 (expand (merge ms) len) :=
  Kitoken.Proofs.Split.merge_tiles ms len h

theorem mergeLeft_tiles (ms : Ranges) (len : Nat) (h : Chain len 0 ms) : Tiles len 0 (mergeLeft ms len) :=
  Kitoken.Proofs.Split.mergeLeft_tiles ms len h

theorem mergeRight_tiles (ms : Ranges) (len : Nat) (h : Chain len 0 ms) : Tiles len 0 (mergeRight ms len) :=
  Kitoken.Proofs.Split.mergeRight_tiles ms len h

/-- Remove returns ordered, non-overlapping, in-bounds ranges (and Match returns the matches themselves). -/
theorem remove_ordered (ms : Ranges) (len : Nat) (h : Chain len 0 ms) : Ordered len 0 (invert ms len) :=
  Kitoken.Proofs.Split.invert_ordered ms len h

/-- A tiling is in particular ordered, non-overlapping and in bounds. -/
theorem tiles_ordered (rs : Ranges) (len from_ : Nat) (h : Tiles len from_ rs) : Ordered len from_ rs :=
  Kitoken.Proofs.Split.tiles_ordered rs len from_ h

/-! ### tilings reconstruct the text -/

/-- The bytes a list of ranges selects from a text, in order. -/
def selected (text : Bytes) (rs : Ranges) : Bytes :=
  rs.flatMap (fun r => (text.drop r.1).take (r.2 - r.1))

theorem tiles_select_from (text : Bytes) (rs : Ranges) (from_ : Nat) (h : Tiles text.length from_ rs) :
    selected text rs = text.drop from_ := by
  induction rs generalizing from_ with
  | nil =>
    simp only [Tiles] at h
    subst h; simp [selected]
  | cons r rest ih =>
    obtain ⟨s, e⟩ := r
    simp only [Tiles] at h
    obtain ⟨hs, hse, hrest⟩ := h
    subst hs
    have := ih e hrest
    simp only [selected, List.flatMap_cons] at this ⊢
    rw [this]
    have he : e = s + (e - s) := by omega
    conv => rhs; rw [← List.take_append_drop (e - s) (List.drop s text)]
    rw [List.drop_drop]
    congr 2

/-- A tiling loses and duplicates nothing: the selected bytes are the text. -/
theorem tiles_reconstruct (text : Bytes) (rs : Ranges) (h : Tiles text.length 0 rs) : selected text rs = text := by
  simpa using tiles_select_from text rs 0 h
/-- Hence the four keeping behaviours (Isolate, Merge, MergeLeft, MergeRight) lose and duplicate no byte
    of the text, for every well-formed match list. -/
theorem keeping_behaviours_reconstruct (text : Bytes) (ms : Ranges) (h : Chain text.length 0 ms) :
    selected text (expand ms text.length) = text ∧ selected text (expand (merge ms) text.length) = text ∧
    selected text (mergeLeft ms text.length) = text ∧ selected text (mergeRight ms text.length) = text :=
  ⟨tiles_reconstruct _ _ (isolate_tiles ms _ h), tiles_reconstruct _ _ (merge_tiles ms _ h),
   tiles_reconstruct _ _ (mergeLeft_tiles ms _ h), tiles_reconstruct _ _ (mergeRight_tiles ms _ h)⟩

example : selected [1, 2, 3, 4, 5] [(0, 2), (2, 2), (2, 5)] = [1, 2, 3, 4, 5] := by decide

/- Original statement, FALSE as written: for an empty text `Split.split` answers `some []` without
   consulting the pattern stage, so with `ext.findIter = fun _ _ => none`, `p = .regex ""`, `text = []`
   the hypothesis holds (`out = []`) while `splitPattern ext text p = none`.

theorem boundaries_subset (ext : SplitExt) (p : SplitPattern) (b : SplitBehavior) (text : Bytes) (out : Ranges)
    (h : (Split.pattern p b).split ext text = some out) :
    ∃ ms, splitPattern ext text p = some ms ∧
      ∀ r ∈ out, r.1 ∈ boundariesOf ms text.length ∧ r.2 ∈ boundariesOf ms text.length
-/

/-- Every boundary of every behaviour's output is 0, the text length or a match boundary, so
    character alignment of the matches is inherited by the output. (Hypothesis `text ≠ []` added,
    see above; for the empty text the output is empty, `split_empty_text`.) -/
theorem boundaries_subset_partial (ext : SplitExt) (p : SplitPattern) (b : SplitBehavior) (text : Bytes)
    (out : Ranges) (hne : text ≠ []) (h : (Split.pattern p b).split ext text = some out) :
    ∃ ms, splitPattern ext text p = some ms ∧
      ∀ r ∈ out, r.1 ∈ boundariesOf ms text.length ∧ r.2 ∈ boundariesOf ms text.length :=
  Kitoken.Proofs.Split.boundaries_subset_partial ext p b text out hne h

/-- The case excluded above: every split of the empty text returns no ranges. -/
theorem split_empty_text (ext : SplitExt) (sp : Split) (out : Ranges) (h : sp.split ext [] = some out) :
    out = [] :=
  Kitoken.Proofs.Split.split_empty ext sp out h

/-! ### literal patterns -/

/-- Literal (character / string) matches form a chain: leftmost, non-overlapping, in bounds. -/
theorem literal_matches_chain (needle text : Bytes) :
    Chain text.length 0 ((findAll needle text).map fun a => (a, a + needle.length)) :=
  Kitoken.Proofs.Split.findAll_chain needle text

/-- A character pattern and the string pattern with the same text give identical results on every
    valid UTF-8 text (holds after the F1 repair; the old 1-byte variant differs, see the example below).
    The character-boundary filter of string patterns (F15 repair) removes nothing here because matches
    of a non-empty literal in valid UTF-8 are always aligned. -/
theorem char_eq_string (ext : SplitExt) (c : Char) (h : List Char) :
    splitPattern ext (Utf8.encodeChars h) (.char c) =
      splitPattern ext (Utf8.encodeChars h) (.string (Utf8.encodeChar c)) := by
  simp only [splitPattern]
  have hal := Utf8.findAll_aligned [c] h (by simp)
  simp only [Utf8.encodeChars_singleton] at hal
  rw [List.filter_eq_self.mpr (fun o ho => (hal o ho).1)]

/-- Every match of a string pattern — including the empty pattern — lies on character boundaries of a
    valid UTF-8 text (after the F15 repair; before it the empty pattern matched inside characters). -/
theorem string_matches_aligned (ext : SplitExt) (n h : List Char) (ms : Ranges)
    (hm : splitPattern ext (Utf8.encodeChars h) (.string (Utf8.encodeChars n)) = some ms) :
    ∀ r ∈ ms, isBoundary (Utf8.encodeChars h) r.1 = true ∧ isBoundary (Utf8.encodeChars h) r.2 = true := by
  simp only [splitPattern, Option.some.injEq] at hm
  subst hm
  intro r hr
  simp only [List.mem_map, List.mem_filter] at hr
  obtain ⟨o, ⟨ho, hb⟩, rfl⟩ := hr
  refine ⟨hb, ?_⟩
  by_cases hn : n = []
  · subst hn; simpa [Utf8.encodeChars] using hb
  · exact (Utf8.findAll_aligned n h hn o ho).2

/-- Non-vacuity: the old 1-byte character match differs from the repaired one on the 3-byte
    character '▁' (E2 96 81) in "a▁b". -/
example (ext : SplitExt) :
    splitPatternCharOld [0x61, 0xE2, 0x96, 0x81, 0x62] '▁' = [(1, 2)] ∧
    splitPattern ext [0x61, 0xE2, 0x96, 0x81, 0x62] (.char '▁') = some [(1, 4)] := by
  have enc : Utf8.encodeChar '▁' = [0xE2, 0x96, 0x81] := by decide
  simp [splitPatternCharOld, splitPattern, enc, findAll, findAllFrom, startsWith]

/-- Non-vacuity: the six behaviours on matches `[(3,4),(7,8),(8,9)]` in a text of 12 bytes
    (Match returns the matches themselves). -/
example :
    invert [(3,4),(7,8),(8,9)] 12 = [(0,3),(4,7),(9,12)] ∧
    expand [(3,4),(7,8),(8,9)] 12 = [(0,3),(3,4),(4,7),(7,8),(8,9),(9,12)] ∧
    expand (merge [(3,4),(7,8),(8,9)]) 12 = [(0,3),(3,4),(4,7),(7,9),(9,12)] ∧
    mergeLeft [(3,4),(7,8),(8,9)] 12 = [(0,4),(4,8),(8,9),(9,12)] ∧
    mergeRight [(3,4),(7,8),(8,9)] 12 = [(0,3),(3,7),(7,8),(8,12)] ∧
    Chain 12 0 [(3,4),(7,8),(8,9)] := by
  refine ⟨by decide, by decide, by decide, by decide, by decide, by simp [Chain]⟩

/-! ### one split stage and chains -/

/-- Every single split returns ordered, non-overlapping, in-bounds ranges, given that regex
    matches are sane. (Unicode-script splitting included.) -/
theorem split_ordered (ext : SplitExt) (hs : MatchesSane ext) (sp : Split) (text : Bytes) (out : Ranges)
    (h : sp.split ext text = some out) : Ordered text.length 0 out :=
  Kitoken.Proofs.Split.split_ordered ext hs sp text out h

/-- A chain of splits refines the previous stage: ranges stay ordered and each lies inside a range of
    the stage before. -/
theorem chain_refines (ext : SplitExt) (hs : MatchesSane ext) (sp : Split) (text : Bytes) (rs out : Ranges)
    (hrs : Ordered text.length 0 rs) (h : splitStage ext sp text rs = some out) :
    Ordered text.length 0 out ∧ ∀ r ∈ out, ∃ p ∈ rs, p.1 ≤ r.1 ∧ r.2 ≤ p.2 :=
  Kitoken.Proofs.Split.stage_refines ext hs sp text rs out hrs h

/-- `Configuration::split` (with its shortcuts) returns ordered, in-bounds ranges. -/
theorem config_split_ordered (ext : SplitExt) (hs : MatchesSane ext) (splits : List Split) (text : Bytes)
    (out : Ranges) (h : configSplit ext splits text = some out) : Ordered text.length 0 out :=
  Kitoken.Proofs.Split.config_ordered ext hs splits text out h

end Kitoken.C10
