/-
  C17 — loading arbitrary bytes returns a tokenizer or an error, never a crash.
  Property theorems only; helper lemmas live in Kitoken/Proofs/LoadLemmas.lean.

  What is modelled: the native file format (`Definition::from_slice`, native branch: size, magic and
  version checks, postcard body), tokenizer construction (`Kitoken::new`, C18's `Tokenizer.new`) and the
  SentencePiece character-map blob loader (`CharsMap::try_from`). In the model a panic is a value
  (`Res.panic`) wherever the Rust code indexes, slices or subtracts; the decoders of the wire format
  are total functions into `Option` whose only way to read input is to take it off the front of the
  remaining bytes. The theorems below say what that buys for *every* byte string:
  the loaders never reach a panic value, never read past the input, never produce more elements than
  there are input bytes (a huge declared length is an error, not an allocation), and reject every
  proper truncation of a valid file. The foreign-format parsers (protobuf, JSON, base64 text) are
  external libraries and are explored on the implementation only (LOADF ops); see DESIGN.md.
-/
import Kitoken.Proofs.LoadLemmas
namespace Kitoken.C17

open Kitoken Kitoken.Spec Kitoken.DefCodec Kitoken.CharsMap

/-! ### character-map blobs -/

/-- The blob loader is total: no byte string reaches a panic (the pre-repair loader did, F4). -/
theorem charsmap_load_total (data : Bytes) : (load data).isPanic = false :=
  Kitoken.Proofs.Load.charsmap_load_total data

/-- Undersized blobs (fewer than four bytes) are an error. -/
theorem charsmap_undersized_rejected (data : Bytes) (h : data.length < 4) : ∃ e, load data = .err e :=
  Kitoken.Proofs.Load.charsmap_undersized_rejected data h

/-- A size field larger than the data is an error. -/
theorem charsmap_size_field_checked (a b c d : UInt8) (rest : Bytes) (h : rest.length < (le32 a b c d).toNat) :
    ∃ e, load (a :: b :: c :: d :: rest) = .err e :=
  Kitoken.Proofs.Load.charsmap_size_field_checked a b c d rest h

/-- What is loaded lies within the blob: four bytes per trie unit plus the replacement strings never
    exceed the data. -/
theorem charsmap_load_within (data : Bytes) (m : CharsMap) (h : load data = .ok m) :
    4 * m.array.size + m.normalized.length ≤ data.length :=
  Kitoken.Proofs.Load.charsmap_load_within data m h

/-- The pre-repair loader panics on a four-byte blob (the property's example). -/
example : (loadOld [0, 0, 0, 0]).isPanic = true := by decide

/-! ### native files -/

/-- Decoding a definition body only ever takes bytes off the front: what is left is a suffix of the
    input (no read past the end, whatever lengths the data declares). -/
theorem native_dec_within_input (ok : Bytes → Option Bool) (bs rest : Bytes) (d : Definition)
    (h : (definition ok).dec bs = some (d, rest)) : rest <:+ bs :=
  Kitoken.Proofs.Load.definition_dec_suffix ok bs rest d h

/-- Declared sizes are bounded by the data: a decoded definition has no more vocabulary entries and
    special tokens than the body has bytes (a huge declared length is an error, not an allocation). -/
theorem native_sizes_bounded (ok : Bytes → Option Bool) (bs rest : Bytes) (d : Definition)
    (h : (definition ok).dec bs = some (d, rest)) :
    d.model.vocab.length + d.specials.length ≤ bs.length :=
  Kitoken.Proofs.Load.definition_sizes_bounded ok bs rest d h

/-- Every proper prefix of a valid native file is rejected (every prefix-truncation class): it is not
    read as a different definition. -/
theorem native_truncation_rejected (d : Definition) (h : Representable (fun _ => some true) d) (n : Nat)
    (hn : n < (toVec d).length) : fromSlice (fun _ => some true) ((toVec d).take n) = none :=
  Kitoken.Proofs.Load.truncation_rejected d h n hn

/-- Wrong size, magic or version is rejected before the body is looked at. -/
theorem native_header_checked (ok : Bytes → Option Bool) (bs : Bytes)
    (h : bs.length < Generated.MAGIC.length + Generated.VERSION.length ∨ bs.take Generated.MAGIC.length ≠ Generated.MAGIC ∨
         (bs.drop Generated.MAGIC.length).take Generated.VERSION.length ≠ Generated.VERSION) :
    fromSlice ok bs = none :=
  Kitoken.Proofs.Codec.fromSlice_checks ok bs h

/-- A body with a split regex that the regex engine rejects is rejected as a whole (invalid regexes):
    `ok` is the engine's verdict, the file was written by an engine that accepted everything. -/
theorem native_invalid_regex_rejected (ok : Bytes → Option Bool) (d : Definition) (rest : Bytes)
    (h : Representable (fun _ => some true) d) (p : String) (b : SplitBehavior)
    (hp : Split.pattern (.regex p) b ∈ d.config.split) (hbad : ok p.toUTF8.toList ≠ some true) :
    (definition ok).dec ((definition (fun _ => some true)).enc d ++ rest) = none :=
  Kitoken.Proofs.Load.invalid_regex_rejected ok d rest h p b hp hbad

/-- The empty file and the bare header are rejected. -/
example : fromSlice (fun _ => some true) [] = none := by decide
example : fromSlice (fun _ => some true) (Generated.MAGIC ++ Generated.VERSION) = none := by decide

end Kitoken.C17
