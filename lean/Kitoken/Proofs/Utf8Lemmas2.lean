/-
  UTF-8 lemmas about `validUtf8` (Init), `isBoundary` (Pipeline) and `findAll` (Bytes).
-/
import Kitoken.Model.Init
import Kitoken.Proofs.Utf8Lemmas
namespace Kitoken.Utf8

open Kitoken

/-! ## `validUtf8` -/

theorem validUtf8_go_encodeChars (cs : List Char) (fuel : Nat) (h : (encodeChars cs).length ≤ fuel) :
    validUtf8.go fuel (encodeChars cs) = true := by
  induction cs generalizing fuel with
  | nil => cases fuel <;> simp [validUtf8.go]
  | cons c cs ih =>
    rw [encodeChars_cons] at h ⊢
    have hd := decodeOne_encodeChar_append c (encodeChars cs)
    have hlen := encodeChar_length c
    have hpos := utf8Size_pos' c
    match hm : encodeChar c ++ encodeChars cs, fuel with
    | [], _ =>
      have := encodeChar_ne_nil c
      simp at hm; exact absurd hm.1 this
    | x :: xs, 0 =>
      rw [hm] at h; simp at h
    | x :: xs, fuel + 1 =>
      rw [hm] at hd
      simp only [validUtf8.go, hd]
      rw [← hm, ← hlen, List.drop_left]
      apply ih
      rw [hm] at h
      have : (x :: xs).length = (encodeChar c).length + (encodeChars cs).length := by
        rw [← hm, List.length_append]
      simp only [List.length_cons] at h this
      omega

theorem validUtf8_encodeChars (cs : List Char) : validUtf8 (encodeChars cs) = true := by
  unfold validUtf8
  exact validUtf8_go_encodeChars cs _ (Nat.le_refl _)

theorem exists_chars_of_validUtf8_go (fuel : Nat) (b : Bytes) (h : validUtf8.go fuel b = true) :
    ∃ cs, b = encodeChars cs := by
  induction fuel generalizing b with
  | zero =>
    cases b with
    | nil => exact ⟨[], rfl⟩
    | cons x xs => simp [validUtf8.go] at h
  | succ fuel ih =>
    cases b with
    | nil => exact ⟨[], rfl⟩
    | cons x xs =>
      simp only [validUtf8.go] at h
      match hd : decodeOne (x :: xs) with
      | (none, n) => rw [hd] at h; simp at h
      | (some c, n) =>
        rw [hd] at h
        simp only at h
        obtain ⟨cs, hcs⟩ := ih _ h
        have := (decodeOne_some _ _ _ hd).1
        refine ⟨c :: cs, ?_⟩
        rw [encodeChars_cons, ← hcs]
        exact this

theorem exists_chars_of_validUtf8 (b : Bytes) (h : validUtf8 b = true) : ∃ cs, b = encodeChars cs :=
  exists_chars_of_validUtf8_go _ b h

/-! ## `isBoundary` -/

theorem isBoundary_iff (text : Bytes) (i : Nat) :
    isBoundary text i = true ↔
      i = 0 ∨ i = text.length ∨ (i < text.length ∧ isCont (text.getD i 0) = false) := by
  simp [isBoundary, leading_eq_not_isCont, or_assoc]

theorem isBoundary_encodeChars (a b : List Char) :
    isBoundary (encodeChars (a ++ b)) (encodeChars a).length = true := by
  rw [isBoundary_iff, encodeChars_append]
  cases b with
  | nil => right; left; simp
  | cons c b =>
    right; right
    obtain ⟨b0, t, he, h0, _, _, _⟩ := encodeChar_shape c
    rw [encodeChars_cons, he]
    constructor
    · simp
    · simp [List.getD_eq_getElem?_getD, h0]

theorem isBoundary_append_ge (p t : Bytes) (i : Nat) (hi : p.length ≤ i)
    (hb : isBoundary (p ++ t) i = true) : isBoundary t (i - p.length) = true := by
  rw [isBoundary_iff] at hb ⊢
  rcases hb with h | h | ⟨h1, h2⟩
  · left; omega
  · right; left; simp at h; omega
  · right; right
    simp only [List.length_append] at h1
    refine ⟨by omega, ?_⟩
    rw [List.getD_eq_getElem?_getD, List.getElem?_append_right hi] at h2
    rw [List.getD_eq_getElem?_getD]; exact h2

theorem boundary_split (cs : List Char) (i : Nat) (h : isBoundary (encodeChars cs) i = true)
    (hi : i ≤ (encodeChars cs).length) : ∃ a b, cs = a ++ b ∧ (encodeChars a).length = i := by
  induction cs generalizing i with
  | nil => simp at hi; subst hi; exact ⟨[], [], rfl, rfl⟩
  | cons c cs ih =>
    by_cases h0 : i = 0
    · subst h0; exact ⟨[], c :: cs, rfl, rfl⟩
    · obtain ⟨b0, t, he, hb0, ht, hlen, _⟩ := encodeChar_shape c
      have hsz := encodeChar_length c
      rw [encodeChars_cons] at h hi
      by_cases hk : i < (encodeChar c).length
      · exfalso
        rw [isBoundary_iff] at h
        rcases h with h | h | ⟨_, h⟩
        · exact h0 h
        · simp only [List.length_append] at h; omega
        · rw [he] at h hk
          simp only [List.length_cons] at hk
          have hget : ((b0 :: t ++ encodeChars cs).getD i 0) = t[i - 1]'(by omega) := by
            obtain ⟨j, rfl⟩ : ∃ j, i = j + 1 := ⟨i - 1, by omega⟩
            have hj : j < t.length := by omega
            simp [List.getD_eq_getElem?_getD, List.getElem?_append_left hj, List.getElem?_eq_getElem hj]
          rw [hget, ht _ (List.getElem_mem _)] at h
          exact absurd h (by simp)
      · have hge : (encodeChar c).length ≤ i := Nat.le_of_not_lt hk
        have hb := isBoundary_append_ge _ _ i hge h
        simp only [List.length_append] at hi
        obtain ⟨a, b, hab, hl⟩ := ih _ hb (by omega)
        refine ⟨c :: a, b, by rw [hab]; rfl, ?_⟩
        rw [encodeChars_cons, List.length_append, hl]; omega

/-! ## Self-synchronisation: literal matches of whole-character needles are character aligned -/

theorem startsWith_iff [BEq α] [LawfulBEq α] (a b : List α) :
    startsWith a b = true ↔ ∃ r, a = b ++ r := by
  induction b generalizing a with
  | nil => cases a <;> simp [startsWith]
  | cons y ys ih =>
    cases a with
    | nil => simp [startsWith]
    | cons x xs =>
      simp only [startsWith, Bool.and_eq_true, beq_iff_eq, ih, List.cons_append, List.cons.injEq]
      constructor
      · rintro ⟨rfl, r, rfl⟩; exact ⟨r, rfl, rfl⟩
      · rintro ⟨r, rfl, rfl⟩; exact ⟨rfl, r, rfl⟩

theorem mem_findAllFrom [BEq α] (needle : List α) (pos : Nat) (hay : List α) (o : Nat)
    (h : o ∈ findAllFrom needle pos hay) :
    pos ≤ o ∧ o - pos < hay.length ∧ startsWith (hay.drop (o - pos)) needle = true := by
  fun_induction findAllFrom needle pos hay with
  | case1 pos => simp at h
  | case2 pos x t hc ih =>
    simp only [List.mem_cons] at h
    rcases h with rfl | h
    · simp [hc.2]
    · obtain ⟨h1, h2, h3⟩ := ih h
      simp only [List.length_drop, List.drop_drop] at h2 h3
      have e : needle.length + (o - (pos + needle.length)) = o - pos := by omega
      rw [e] at h3
      exact ⟨by omega, by omega, h3⟩
  | case3 pos x t hc ih =>
    obtain ⟨h1, h2, h3⟩ := ih h
    have e : o - pos = (o - (pos + 1)) + 1 := by omega
    rw [e]
    simp only [List.drop_succ_cons, List.length_cons]
    exact ⟨by omega, by omega, h3⟩

theorem encodeChars_prefix (n b : List Char) (r : Bytes) (h : encodeChars n ++ r = encodeChars b) :
    ∃ b', b = n ++ b' := by
  induction n generalizing b with
  | nil => exact ⟨b, rfl⟩
  | cons c n ih =>
    cases b with
    | nil =>
      rw [encodeChars_cons] at h
      have := encodeChar_ne_nil c
      simp at h; exact absurd h.1 this
    | cons d b =>
      rw [encodeChars_cons, encodeChars_cons, List.append_assoc] at h
      have h1 := decodeOne_encodeChar_append c (encodeChars n ++ r)
      have h2 := decodeOne_encodeChar_append d (encodeChars b)
      rw [h, h2] at h1
      simp only [Prod.mk.injEq, Option.some.injEq] at h1
      obtain ⟨rfl, _⟩ := h1
      have := List.append_cancel_left h
      obtain ⟨b', rfl⟩ := ih _ this
      exact ⟨b', rfl⟩

theorem findAll_aligned (n h : List Char) (hn : n ≠ []) :
    ∀ o ∈ findAll (encodeChars n) (encodeChars h),
      isBoundary (encodeChars h) o = true ∧
      isBoundary (encodeChars h) (o + (encodeChars n).length) = true := by
  intro o ho
  obtain ⟨c, n', rfl⟩ : ∃ c n', n = c :: n' := by
    cases n with
    | nil => exact absurd rfl hn
    | cons c n' => exact ⟨c, n', rfl⟩
  obtain ⟨b0, t, he, hb0, _, _, _⟩ := encodeChar_shape c
  have hN : encodeChars (c :: n') = b0 :: (t ++ encodeChars n') := by
    rw [encodeChars_cons, he]; rfl
  have hne : (encodeChars (c :: n')).isEmpty = false := by rw [hN]; rfl
  unfold findAll at ho
  rw [hne] at ho
  simp only [Bool.false_eq_true, if_false] at ho
  obtain ⟨_, h2, h3⟩ := mem_findAllFrom _ _ _ _ ho
  simp only [Nat.sub_zero] at h2 h3
  rw [startsWith_iff] at h3
  obtain ⟨r, hr⟩ := h3
  have hb1 : isBoundary (encodeChars h) o = true := by
    rw [isBoundary_iff]
    right; right
    refine ⟨h2, ?_⟩
    have : (encodeChars h).getD o 0 = b0 := by
      have := congrArg (fun l => l.getD 0 0) hr
      simp only [hN] at this
      simpa [List.getD_eq_getElem?_getD] using this
    rw [this, hb0]
  obtain ⟨a, b, hab, hl⟩ := boundary_split _ _ hb1 (Nat.le_of_lt h2)
  subst hab
  rw [encodeChars_append, ← hl, List.drop_left] at hr
  obtain ⟨b', rfl⟩ := encodeChars_prefix _ _ _ hr.symm
  refine ⟨hb1, ?_⟩
  have := isBoundary_encodeChars (a ++ c :: n') b'
  rw [encodeChars_append a, List.length_append, hl, List.append_assoc] at this
  exact this

end Kitoken.Utf8
