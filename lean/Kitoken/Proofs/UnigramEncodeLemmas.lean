/-
  Helper lemmas for the part-level Unigram theorems (Kitoken/Theorems/EncUni.lean).

  Part 1  unit bounds: character starts plus the length, `List.range n ++ [n]`.
  Part 2  `encodeParts` is the in-order concatenation of per-piece runs on fresh scratch buffers.
  Part 3  no panic: `renderWalk` never panics, hence (by `unigram_walk`) neither does the encoder.
  Part 4  a walk covers the piece; without holes the tokens spell the piece.
  Core Lean only.
-/
import Kitoken.Proofs.UnigramLemmas
import Kitoken.Spec.Compose
namespace Kitoken.Proofs.UnigramEncode

open Kitoken Kitoken.Unigram Kitoken.Spec Kitoken.Utf8 Kitoken.Proofs.Unigram

variable {S : Type} [Cost S] [Inhabited S]

set_option linter.unusedSectionVars false
set_option linter.unusedVariables false

/-! ## Part 1: unit bounds -/

/-- Prepending a smaller boundary keeps `UnitBounds`. -/
theorem unitBounds_cons {len a b : Nat} {l : List Nat} (hh : l.head? = some b) (hab : a < b)
    (hl : UnitBounds len l) : UnitBounds len (a :: l) := by
  cases l with
  | nil => simp at hh
  | cons x rest =>
    simp only [List.head?_cons, Option.some.injEq] at hh
    subst hh
    exact ⟨hab, hl⟩

theorem charIndicesFrom_cons (pos : Nat) (b : UInt8) (t : Bytes) :
    charIndicesFrom pos (b :: t) =
      (pos, pos + (decodeOne (b :: t)).2, (decodeOne (b :: t)).1.getD REPLACEMENT) ::
        charIndicesFrom (pos + (decodeOne (b :: t)).2) ((b :: t).drop (decodeOne (b :: t)).2) := by
  rw [charIndicesFrom]

/-- The starts followed by the end position begin with the start position. -/
theorem starts_head (pos : Nat) (bs : Bytes) :
    ((charIndicesFrom pos bs).map (·.1) ++ [pos + bs.length]).head? = some pos := by
  cases bs with
  | nil => rw [charIndicesFrom]; simp
  | cons b t => rw [charIndicesFrom_cons]; simp

theorem starts_bounds (pos : Nat) (bs : Bytes) : ∀ L, L = pos + bs.length →
    UnitBounds L ((charIndicesFrom pos bs).map (·.1) ++ [L]) := by
  fun_induction charIndicesFrom pos bs with
  | case1 pos => intro L hL; simp [UnitBounds, hL]
  | case2 pos b t r ih =>
    intro L hL
    have h1 : 0 < r.2 := decodeOne_pos b t
    have h2 : r.2 ≤ (b :: t).length := decodeOne_le (b :: t)
    have hlen : L = pos + r.2 + ((b :: t).drop r.2).length := by
      simp only [List.length_drop]; omega
    have hh := starts_head (pos + r.2) ((b :: t).drop r.2)
    rw [← hlen] at hh
    simp only [List.map_cons, List.cons_append]
    exact unitBounds_cons hh (by omega) (ih L hlen)

theorem charStarts_bounds (text : Bytes) :
    UnitBounds text.length (charStarts text ++ [text.length]) ∧
      (charStarts text ++ [text.length]).head? = some 0 := by
  refine ⟨?_, ?_⟩
  · exact starts_bounds 0 text text.length (by omega)
  · have := starts_head 0 text
    rw [Nat.zero_add] at this
    exact this

theorem range'_bounds (k : Nat) : ∀ s, UnitBounds (s + k) (List.range' s k ++ [s + k]) ∧
    (List.range' s k ++ [s + k]).head? = some s := by
  induction k with
  | zero => intro s; simp [UnitBounds]
  | succ k ih =>
    intro s
    obtain ⟨h1, h2⟩ := ih (s + 1)
    have e : s + 1 + k = s + (k + 1) := by omega
    rw [e] at h1 h2
    refine ⟨?_, by simp [List.range'_succ]⟩
    simp only [List.range'_succ, List.cons_append]
    exact unitBounds_cons h2 (by omega) h1

theorem range_bounds (n : Nat) : UnitBounds n (List.range n ++ [n]) ∧
    (List.range n ++ [n]).head? = some 0 := by
  have := range'_bounds n 0
  simpa [List.range_eq_range'] using this

/-! ## Part 2: parts are encoded independently -/

/-- What one piece yields by itself: the encoder on fresh scratch buffers
    (same body as `Kitoken.EncUni.uniPieceSpec`). -/
def uniPieceSpec (c : UniCtx S) (text : Bytes) : Res (List Id) :=
  match encodeUnigram c c.fallback text [] [] (charStarts text) with
  | .ok (_, ids) => .ok ids
  | .err e => .err e
  | .panic p => .panic p

theorem encodeParts_eq (c : UniCtx S) (ps : List TextPart) : ∀ res : List Id,
    encodeParts c ps res =
      match seqRes (ps.map (perPart (uniPieceSpec c))) with
      | .ok ids => .ok (res ++ ids)
      | .err e => .err e
      | .panic p => .panic p := by
  induction ps with
  | nil => intro res; simp [encodeParts, seqRes]
  | cons p ps ih =>
    intro res
    simp only [encodeParts, List.map_cons, seqRes, perPart]
    by_cases hsp : (p.special != INVALID) = true
    · simp only [hsp, if_true, ih]
      cases seqRes (ps.map (perPart (uniPieceSpec c))) <;> simp
    · simp only [hsp, Bool.false_eq_true, if_false]
      rw [encodeUnigram_offs c c.fallback p.text [] res (charStarts p.text)]
      have hu : uniPieceSpec c p.text =
          match encodeUnigram c c.fallback p.text [] [] (charStarts p.text) with
          | .ok (_, ids) => .ok ids
          | .err e => .err e
          | .panic p => .panic p := rfl
      rw [hu]
      cases encodeUnigram c c.fallback p.text [] [] (charStarts p.text) with
      | ok a =>
        obtain ⟨buf, ids⟩ := a
        simp only [lift, ih]
        cases seqRes (ps.map (perPart (uniPieceSpec c))) <;> simp
      | err e => simp [lift]
      | panic t => simp [lift]

theorem encode_eq_flatMap (c : UniCtx S) (parts : List TextPart) :
    Unigram.encode c parts = seqRes (parts.map (perPart (uniPieceSpec c))) := by
  unfold Unigram.encode
  rw [encodeParts_eq]
  cases seqRes (parts.map (perPart (uniPieceSpec c))) <;> simp

/-! ## Part 3: no panic -/

theorem renderWalk_noPanic (c : UniCtx S) (fb : List Fallback)
    (hH : ∀ b, (renderHole c fb b).isPanic = false) (items : List Item) :
    (renderWalk c fb items).isPanic = false := by
  induction items with
  | nil => rfl
  | cons it rest ih =>
    simp only [renderWalk]
    cases hr : renderWalk c fb rest with
    | ok tail =>
      cases it with
      | entry b id => rfl
      | hole b =>
        simp only
        have := hH b
        cases hh : renderHole c fb b with
        | ok ids => rfl
        | err e => rfl
        | panic p => rw [hh] at this; cases this
    | err e => rfl
    | panic p => rw [hr] at ih; cases ih

/-- The piece-level encoder never panics on well-formed unit bounds. -/
theorem encodeUnigram_noPanic (c : UniCtx S)
    (hid : ∀ b id sc, c.tok b = some (id, sc) → id ≠ INVALID)
    (hmax : ∀ b id sc, c.tok b = some (id, sc) → b.length ≤ c.maxTok)
    (fb : List Fallback) : ∀ (piece : Bytes) (indices : List Nat) (pre : List (SizedPart S))
      (res0 : List Id),
      UnitBounds piece.length (indices ++ [piece.length]) →
      (indices ++ [piece.length]).head? = some 0 →
      (encodeUnigram c fb piece pre res0 indices).isPanic = false := by
  induction fb with
  | nil =>
    intro piece indices pre res0 hb h0
    obtain ⟨items, _, hr⟩ := unigram_walk c [] piece indices pre res0 hb h0 hid hmax
    have hnp := renderWalk_noPanic c [] (fun b => rfl) items
    cases hrw : renderWalk c [] items with
    | ok ids => rw [hrw] at hr; obtain ⟨buf, h1, _⟩ := hr; rw [h1]; rfl
    | err e => rw [hrw] at hr; simp only at hr; rw [hr]; rfl
    | panic p => rw [hrw] at hnp; cases hnp
  | cons a tail ih =>
    intro piece indices pre res0 hb h0
    obtain ⟨items, _, hr⟩ := unigram_walk c (a :: tail) piece indices pre res0 hb h0 hid hmax
    have hH : ∀ b, (renderHole c (a :: tail) b).isPanic = false := by
      intro b
      cases a with
      | skip => rfl
      | unknown => simp only [renderHole]; cases c.unknown <;> rfl
      | bytes =>
        simp only [renderHole]
        have := ih b (List.range b.length) [] [] (range_bounds b.length).1 (range_bounds b.length).2
        cases hh : encodeUnigram c tail b [] [] (List.range b.length) with
        | ok a => rfl
        | err e => rfl
        | panic p => rw [hh] at this; cases this
    have hnp := renderWalk_noPanic c (a :: tail) hH items
    cases hrw : renderWalk c (a :: tail) items with
    | ok ids => rw [hrw] at hr; obtain ⟨buf, h1, _⟩ := hr; rw [h1]; rfl
    | err e => rw [hrw] at hr; simp only at hr; rw [hr]; rfl
    | panic p => rw [hrw] at hnp; cases hnp

theorem encodeParts_noPanic (c : UniCtx S)
    (hid : ∀ b id sc, c.tok b = some (id, sc) → id ≠ INVALID)
    (hmax : ∀ b id sc, c.tok b = some (id, sc) → b.length ≤ c.maxTok)
    (ps : List TextPart) : ∀ res : List Id, (encodeParts c ps res).isPanic = false := by
  induction ps with
  | nil => intro res; rfl
  | cons p ps ih =>
    intro res
    simp only [encodeParts]
    split
    · exact ih _
    · have hb := charStarts_bounds p.text
      have := encodeUnigram_noPanic c hid hmax c.fallback p.text (charStarts p.text) [] res hb.1 hb.2
      cases hh : encodeUnigram c c.fallback p.text [] res (charStarts p.text) with
      | ok a => exact ih _
      | err e => rfl
      | panic t => rw [hh] at this; cases this

/-- The Unigram encoder never panics. The two hypotheses are the fields of `Kitoken.EncUni.UniWF`. -/
theorem no_panic (c : UniCtx S)
    (hid : ∀ b id sc, c.tok b = some (id, sc) → id ≠ INVALID)
    (hmax : ∀ b id sc, c.tok b = some (id, sc) → b.length ≤ c.maxTok)
    (parts : List TextPart) : (Unigram.encode c parts).isPanic = false :=
  encodeParts_noPanic c hid hmax parts []

/-! ## Part 4: coverage and spelling -/

theorem slice_append {α} (l : List α) (a b d : Nat) (h1 : a ≤ b) (h2 : b ≤ d) :
    slice l a b ++ slice l b d = slice l a d := by
  unfold slice
  have e1 : d - a = (b - a) + (d - b) := by omega
  have e2 : l.drop b = (l.drop a).drop (b - a) := by
    rw [List.drop_drop]; congr 1; omega
  rw [e1, e2, List.take_add]

theorem walk_covers (tok : Bytes → Option (Id × S)) (piece : Bytes) (bounds : List Nat)
    (start stop : Nat) (items : List Item) (hs : start ≤ stop) (hstop : stop ≤ piece.length)
    (h : IsWalk tok piece bounds start stop items) :
    (items.map Item.bytes).flatten = slice piece start stop := by
  induction items generalizing start with
  | nil =>
    simp only [IsWalk] at h
    subst h
    simp [slice]
  | cons it rest ih =>
    cases it with
    | entry b id =>
      simp only [IsWalk] at h
      obtain ⟨mid, _, q2, q3, q4, _, q6⟩ := h
      simp only [List.map_cons, List.flatten_cons, Item.bytes, ih mid q3 q6, q4]
      exact slice_append piece start mid stop (Nat.le_of_lt q2) q3
    | hole b =>
      simp only [IsWalk] at h
      obtain ⟨mid, _, q2, q3, q4, _, _, q7⟩ := h
      simp only [List.map_cons, List.flatten_cons, Item.bytes, ih mid q3 q7, q4]
      exact slice_append piece start mid stop (Nat.le_of_lt q2) q3

/-- Without holes the rendering is the list of ids, and a left inverse of the vocabulary map sends
    them back to the items' bytes. -/
theorem render_entries (c : UniCtx S) (fb : List Fallback) (inv : Id → Option Bytes)
    (hinv : ∀ b id sc, c.tok b = some (id, sc) → inv id = some b)
    (piece : Bytes) (bounds : List Nat) (stop : Nat) (items : List Item) :
    ∀ (start : Nat) (ids : List Id), IsWalk c.tok piece bounds start stop items →
      (∀ it ∈ items, ∃ b id, it = .entry b id) → renderWalk c fb items = .ok ids →
      (ids.map fun t => (inv t).getD []).flatten = (items.map Item.bytes).flatten := by
  induction items with
  | nil =>
    intro start ids _ _ h
    simp only [renderWalk, Res.ok.injEq] at h
    subst h; rfl
  | cons it rest ih =>
    intro start ids hw hno h
    obtain ⟨b, id, rfl⟩ := hno it (by simp)
    simp only [IsWalk] at hw
    obtain ⟨mid, _, _, _, _, ⟨sc, q5⟩, q6⟩ := hw
    simp only [renderWalk] at h
    cases hr : renderWalk c fb rest with
    | ok tail =>
      rw [hr] at h
      simp only [Res.ok.injEq] at h
      subst h
      have := ih mid tail q6 (fun it hit => hno it (List.mem_cons_of_mem _ hit)) hr
      simp only [List.map_cons, List.flatten_cons, this, hinv b id sc q5, Option.getD_some,
        Item.bytes]
    | err e => rw [hr] at h; cases h
    | panic p => rw [hr] at h; cases h

theorem spelling (c : UniCtx S) (fb : List Fallback) (inv : Id → Option Bytes)
    (hinv : ∀ b id sc, c.tok b = some (id, sc) → inv id = some b)
    (piece : Bytes) (bounds : List Nat) (items : List Item) (ids : List Id)
    (hw : IsWalk c.tok piece bounds 0 piece.length items)
    (hno : ∀ it ∈ items, ∃ b id, it = .entry b id)
    (h : renderWalk c fb items = .ok ids) :
    (ids.map fun t => (inv t).getD []).flatten = piece := by
  rw [render_entries c fb inv hinv piece bounds piece.length items 0 ids hw hno h,
    walk_covers c.tok piece bounds 0 piece.length items (Nat.zero_le _) (Nat.le_refl _) hw]
  simp [slice]

end Kitoken.Proofs.UnigramEncode
