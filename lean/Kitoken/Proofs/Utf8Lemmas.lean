/-
  Lemmas relating the model's lossy UTF-8 decoder (`Kitoken.Model.Utf8`) to core's encoder
  `String.utf8EncodeChar`.
-/
import Kitoken.Model.Utf8
namespace Kitoken.Utf8

open Kitoken

/-! ## Basic facts about `encodeChar` -/

theorem encodeChar_length (c : Char) : (encodeChar c).length = c.utf8Size := by
  simp [encodeChar]

theorem char_valid_nat (c : Char) :
    c.val.toNat < 0xD800 ∨ (0xDFFF < c.val.toNat ∧ c.val.toNat < 0x110000) := c.valid

theorem char_ofNat_val (c : Char) : Char.ofNat c.val.toNat = c := Char.ofNat_toNat c

/-- Nat-level description of the encoder, by size class. -/
theorem encodeChar_cases (c : Char) :
    (c.val.toNat ≤ 0x7f ∧ c.utf8Size = 1 ∧ encodeChar c = [UInt8.ofNat c.val.toNat]) ∨
    (0x7f < c.val.toNat ∧ c.val.toNat ≤ 0x7ff ∧ c.utf8Size = 2 ∧
      encodeChar c = [UInt8.ofNat (c.val.toNat / 64 % 0x20 + 0xc0),
                      UInt8.ofNat (c.val.toNat % 0x40 + 0x80)]) ∨
    (0x7ff < c.val.toNat ∧ c.val.toNat ≤ 0xffff ∧ c.utf8Size = 3 ∧
      encodeChar c = [UInt8.ofNat (c.val.toNat / 4096 % 0x10 + 0xe0),
                      UInt8.ofNat (c.val.toNat / 64 % 0x40 + 0x80),
                      UInt8.ofNat (c.val.toNat % 0x40 + 0x80)]) ∨
    (0xffff < c.val.toNat ∧ c.utf8Size = 4 ∧
      encodeChar c = [UInt8.ofNat (c.val.toNat / 262144 % 0x08 + 0xf0),
                      UInt8.ofNat (c.val.toNat / 4096 % 0x40 + 0x80),
                      UInt8.ofNat (c.val.toNat / 64 % 0x40 + 0x80),
                      UInt8.ofNat (c.val.toNat % 0x40 + 0x80)]) := by
  have hsz : c.utf8Size = (encodeChar c).length := (encodeChar_length c).symm
  rw [hsz]
  unfold encodeChar String.utf8EncodeChar
  simp only []
  by_cases h1 : c.val.toNat ≤ 0x7f
  · left; rw [if_pos h1]; exact ⟨h1, rfl, rfl⟩
  · rw [if_neg h1]
    by_cases h2 : c.val.toNat ≤ 0x7ff
    · right; left; rw [if_pos h2]; exact ⟨by omega, h2, rfl, rfl⟩
    · rw [if_neg h2]
      by_cases h3 : c.val.toNat ≤ 0xffff
      · right; right; left; rw [if_pos h3]; exact ⟨by omega, h3, rfl, rfl⟩
      · right; right; right; rw [if_neg h3]; exact ⟨by omega, rfl, rfl⟩

/-! ## Nat-level view of the byte predicates -/

theorem isCont_iff (b : UInt8) : isCont b = true ↔ 0x80 ≤ b.toNat ∧ b.toNat ≤ 0xBF := by
  simp [isCont, UInt8.le_iff_toNat_le]

theorem secondOk_iff (b0 b1 : UInt8) : secondOk b0 b1 = true ↔
    (0x80 ≤ b1.toNat ∧ b1.toNat ≤ 0xBF ∧ (b0.toNat = 0xE0 → 0xA0 ≤ b1.toNat) ∧
      (b0.toNat = 0xED → b1.toNat ≤ 0x9F) ∧ (b0.toNat = 0xF0 → 0x90 ≤ b1.toNat) ∧
      (b0.toNat = 0xF4 → b1.toNat ≤ 0x8F)) := by
  unfold secondOk
  simp only [beq_iff_eq, ← UInt8.toNat_inj, UInt8.le_iff_toNat_le, isCont, UInt8.reduceToNat]
  split
  · simp; omega
  · split
    · simp; omega
    · split
      · simp; omega
      · split
        · simp; omega
        · simp; omega

/-! ## `decodeOne` on well-formed sequences (Nat-level hypotheses) -/

theorem decodeOne_one (b0 : UInt8) (r : Bytes) (h : b0.toNat ≤ 0x7F) :
    decodeOne (b0 :: r) = (some (Char.ofNat b0.toNat), 1) := by
  have : b0 ≤ 0x7F := by simpa [UInt8.le_iff_toNat_le] using h
  simp [decodeOne, this]

theorem decodeOne_two (b0 b1 : UInt8) (r : Bytes) (h0 : 0xC2 ≤ b0.toNat) (h0' : b0.toNat ≤ 0xDF)
    (h1 : isCont b1 = true) :
    decodeOne (b0 :: b1 :: r) =
      (some (Char.ofNat ((b0.toNat - 0xC0) * 64 + (b1.toNat - 0x80))), 2) := by
  have e1 : ¬ b0 ≤ 0x7F := by simp [UInt8.le_iff_toNat_le]; omega
  have e2 : (0xC2 ≤ b0 && b0 ≤ 0xDF) = true := by simp [UInt8.le_iff_toNat_le]; omega
  simp [decodeOne, e1, e2, h1]

theorem decodeOne_three (b0 b1 b2 : UInt8) (r : Bytes) (h0 : 0xE0 ≤ b0.toNat) (h0' : b0.toNat ≤ 0xEF)
    (h1 : secondOk b0 b1 = true) (h2 : isCont b2 = true) :
    decodeOne (b0 :: b1 :: b2 :: r) =
      (some (Char.ofNat ((b0.toNat - 0xE0) * 4096 + (b1.toNat - 0x80) * 64 + (b2.toNat - 0x80))), 3) := by
  have e1 : ¬ b0 ≤ 0x7F := by simp [UInt8.le_iff_toNat_le]; omega
  have e2 : (0xC2 ≤ b0 && b0 ≤ 0xDF) = false := by simp [UInt8.le_iff_toNat_le]; omega
  have e3 : (0xE0 ≤ b0 && b0 ≤ 0xEF) = true := by simp [UInt8.le_iff_toNat_le]; omega
  simp [decodeOne, e1, e2, e3, h1, h2]

theorem decodeOne_four (b0 b1 b2 b3 : UInt8) (r : Bytes) (h0 : 0xF0 ≤ b0.toNat) (h0' : b0.toNat ≤ 0xF4)
    (h1 : secondOk b0 b1 = true) (h2 : isCont b2 = true) (h3 : isCont b3 = true) :
    decodeOne (b0 :: b1 :: b2 :: b3 :: r) =
      (some (Char.ofNat ((b0.toNat - 0xF0) * 262144 + (b1.toNat - 0x80) * 4096 +
        (b2.toNat - 0x80) * 64 + (b3.toNat - 0x80))), 4) := by
  have e1 : ¬ b0 ≤ 0x7F := by simp [UInt8.le_iff_toNat_le]; omega
  have e2 : (0xC2 ≤ b0 && b0 ≤ 0xDF) = false := by simp [UInt8.le_iff_toNat_le]; omega
  have e3 : (0xE0 ≤ b0 && b0 ≤ 0xEF) = false := by simp [UInt8.le_iff_toNat_le]; omega
  have e4 : (0xF0 ≤ b0 && b0 ≤ 0xF4) = true := by simp [UInt8.le_iff_toNat_le]; omega
  simp [decodeOne, e1, e2, e3, e4, h1, h2, h3]

/-! ## The decoder inverts the encoder -/

theorem toNat_ofNat_lt (n : Nat) (h : n < 256) : (UInt8.ofNat n).toNat = n := by
  simp [UInt8.toNat_ofNat']; omega

theorem decodeOne_encodeChar_append (c : Char) (r : Bytes) :
    decodeOne (encodeChar c ++ r) = (some c, c.utf8Size) := by
  have hv := char_valid_nat c
  have hc := char_ofNat_val c
  rcases encodeChar_cases c with ⟨h1, hs, he⟩ | ⟨h1, h2, hs, he⟩ | ⟨h1, h2, hs, he⟩ | ⟨h1, hs, he⟩
  · rw [he, hs, List.cons_append, List.nil_append, decodeOne_one _ _ (by rw [toNat_ofNat_lt _ (by omega)]; exact h1),
      toNat_ofNat_lt _ (by omega), hc]
  · rw [he, hs]
    simp only [List.cons_append, List.nil_append]
    rw [decodeOne_two _ _ _ (by rw [toNat_ofNat_lt _ (by omega)]; omega)
      (by rw [toNat_ofNat_lt _ (by omega)]; omega)
      (by rw [isCont_iff, toNat_ofNat_lt _ (by omega)]; omega)]
    rw [toNat_ofNat_lt _ (by omega), toNat_ofNat_lt _ (by omega)]
    have : (c.val.toNat / 64 % 32 + 192 - 192) * 64 + (c.val.toNat % 64 + 128 - 128) = c.val.toNat := by omega
    rw [this, hc]
  · rw [he, hs]
    simp only [List.cons_append, List.nil_append]
    rw [decodeOne_three _ _ _ _ (by rw [toNat_ofNat_lt _ (by omega)]; omega)
      (by rw [toNat_ofNat_lt _ (by omega)]; omega)
      (by rw [secondOk_iff, toNat_ofNat_lt _ (by omega), toNat_ofNat_lt _ (by omega)]; omega)
      (by rw [isCont_iff, toNat_ofNat_lt _ (by omega)]; omega)]
    rw [toNat_ofNat_lt _ (by omega), toNat_ofNat_lt _ (by omega), toNat_ofNat_lt _ (by omega)]
    have : (c.val.toNat / 4096 % 16 + 224 - 224) * 4096 + (c.val.toNat / 64 % 64 + 128 - 128) * 64 +
        (c.val.toNat % 64 + 128 - 128) = c.val.toNat := by omega
    rw [this, hc]
  · rw [he, hs]
    simp only [List.cons_append, List.nil_append]
    rw [decodeOne_four _ _ _ _ _ (by rw [toNat_ofNat_lt _ (by omega)]; omega)
      (by rw [toNat_ofNat_lt _ (by omega)]; omega)
      (by rw [secondOk_iff, toNat_ofNat_lt _ (by omega), toNat_ofNat_lt _ (by omega)]; omega)
      (by rw [isCont_iff, toNat_ofNat_lt _ (by omega)]; omega)
      (by rw [isCont_iff, toNat_ofNat_lt _ (by omega)]; omega)]
    rw [toNat_ofNat_lt _ (by omega), toNat_ofNat_lt _ (by omega), toNat_ofNat_lt _ (by omega),
      toNat_ofNat_lt _ (by omega)]
    have : (c.val.toNat / 262144 % 8 + 240 - 240) * 262144 + (c.val.toNat / 4096 % 64 + 128 - 128) * 4096 +
        (c.val.toNat / 64 % 64 + 128 - 128) * 64 + (c.val.toNat % 64 + 128 - 128) = c.val.toNat := by omega
    rw [this, hc]

/-! ## `encodeChars`, `charIndices`, `chars` -/

@[simp] theorem encodeChars_nil : encodeChars [] = [] := rfl

theorem encodeChars_cons (c : Char) (cs : List Char) :
    encodeChars (c :: cs) = encodeChar c ++ encodeChars cs := by
  simp [encodeChars]

theorem encodeChars_append (a b : List Char) :
    encodeChars (a ++ b) = encodeChars a ++ encodeChars b := by
  simp [encodeChars]

theorem encodeChars_singleton (c : Char) : encodeChars [c] = encodeChar c := by
  simp [encodeChars]

theorem encodeChar_ne_nil (c : Char) : encodeChar c ≠ [] := String.utf8EncodeChar_ne_nil

theorem utf8Size_pos' (c : Char) : 0 < c.utf8Size := c.utf8Size_pos

theorem charIndicesFrom_nil (pos : Nat) : charIndicesFrom pos [] = [] := by
  simp [charIndicesFrom]

theorem charIndicesFrom_cons (pos : Nat) (b : UInt8) (t : Bytes) :
    charIndicesFrom pos (b :: t) =
      (pos, pos + (decodeOne (b :: t)).2, (decodeOne (b :: t)).1.getD REPLACEMENT) ::
        charIndicesFrom (pos + (decodeOne (b :: t)).2) ((b :: t).drop (decodeOne (b :: t)).2) := by
  rw [charIndicesFrom]

theorem charIndicesFrom_encodeChar_append (c : Char) (r : Bytes) (pos : Nat) :
    charIndicesFrom pos (encodeChar c ++ r) =
      (pos, pos + c.utf8Size, c) :: charIndicesFrom (pos + c.utf8Size) r := by
  have hd := decodeOne_encodeChar_append c r
  match h : encodeChar c ++ r with
  | [] =>
    have := encodeChar_ne_nil c
    simp at h; exact absurd h.1 this
  | b :: t =>
    rw [h] at hd
    rw [charIndicesFrom_cons, hd]
    simp only [Option.getD_some]
    rw [← h, ← encodeChar_length c, List.drop_left]

theorem charIndices_encodeChars_cons (c : Char) (cs : List Char) (pos : Nat) :
    charIndicesFrom pos (encodeChars (c :: cs)) =
      (pos, pos + c.utf8Size, c) :: charIndicesFrom (pos + c.utf8Size) (encodeChars cs) := by
  rw [encodeChars_cons, charIndicesFrom_encodeChar_append]

theorem charIndicesFrom_encodeChars_map (cs : List Char) (pos : Nat) :
    (charIndicesFrom pos (encodeChars cs)).map (·.2.2) = cs := by
  induction cs generalizing pos with
  | nil => simp [charIndicesFrom_nil]
  | cons c cs ih => rw [charIndices_encodeChars_cons, List.map_cons, ih]

theorem chars_encodeChars (cs : List Char) : chars (encodeChars cs) = cs := by
  unfold chars charIndices
  exact charIndicesFrom_encodeChars_map cs 0

/-! ## Soundness of `decodeOne`: a decoded scalar re-encodes to the consumed bytes -/

theorem decodeOne_some_shape (bs : Bytes) (c : Char) (n : Nat) (h : decodeOne bs = (some c, n)) :
    (∃ b0 r, bs = b0 :: r ∧ b0.toNat ≤ 0x7F ∧ c = Char.ofNat b0.toNat ∧ n = 1) ∨
    (∃ b0 b1 r, bs = b0 :: b1 :: r ∧ 0xC2 ≤ b0.toNat ∧ b0.toNat ≤ 0xDF ∧ isCont b1 = true ∧
      c = Char.ofNat ((b0.toNat - 0xC0) * 64 + (b1.toNat - 0x80)) ∧ n = 2) ∨
    (∃ b0 b1 b2 r, bs = b0 :: b1 :: b2 :: r ∧ 0xE0 ≤ b0.toNat ∧ b0.toNat ≤ 0xEF ∧
      secondOk b0 b1 = true ∧ isCont b2 = true ∧
      c = Char.ofNat ((b0.toNat - 0xE0) * 4096 + (b1.toNat - 0x80) * 64 + (b2.toNat - 0x80)) ∧ n = 3) ∨
    (∃ b0 b1 b2 b3 r, bs = b0 :: b1 :: b2 :: b3 :: r ∧ 0xF0 ≤ b0.toNat ∧ b0.toNat ≤ 0xF4 ∧
      secondOk b0 b1 = true ∧ isCont b2 = true ∧ isCont b3 = true ∧
      c = Char.ofNat ((b0.toNat - 0xF0) * 262144 + (b1.toNat - 0x80) * 4096 +
        (b2.toNat - 0x80) * 64 + (b3.toNat - 0x80)) ∧ n = 4) := by
  unfold decodeOne at h
  repeat' split at h
  all_goals first | (simp at h; done) | skip
  · rename_i b0 r h0
    simp only [Prod.mk.injEq, Option.some.injEq] at h
    left
    exact ⟨b0, r, rfl, by simpa [UInt8.le_iff_toNat_le] using h0, h.1.symm, h.2.symm⟩
  · rename_i b0 _ h0 _ b1 r h1
    simp only [Prod.mk.injEq, Option.some.injEq] at h
    simp [UInt8.le_iff_toNat_le] at h0
    right; left
    exact ⟨b0, b1, r, rfl, h0.1, h0.2, h1, h.1.symm, h.2.symm⟩
  · rename_i b0 _ _ h0 _ b1 h1 _ b2 r h2
    simp only [Prod.mk.injEq, Option.some.injEq] at h
    simp [UInt8.le_iff_toNat_le] at h0
    right; right; left
    exact ⟨b0, b1, b2, r, rfl, h0.1, h0.2, h1, h2, h.1.symm, h.2.symm⟩
  · rename_i b0 _ _ _ h0 _ b1 h1 _ b2 h2 _ b3 r h3
    simp only [Prod.mk.injEq, Option.some.injEq] at h
    simp [UInt8.le_iff_toNat_le] at h0
    right; right; right
    exact ⟨b0, b1, b2, b3, r, rfl, h0.1, h0.2, h1, h2, h3, h.1.symm, h.2.symm⟩

theorem val_ofNat_valid (n : Nat) (h : n.isValidChar) : (Char.ofNat n).val.toNat = n := by
  rw [Char.ofNat, dif_pos h]
  rfl

theorem ofNat_eq_of_toNat (n : Nat) (b : UInt8) (h : n = b.toNat) : UInt8.ofNat n = b := by
  subst h; simp

theorem encodeChar_ofNat_one (b0 : UInt8) (h : b0.toNat ≤ 0x7F) :
    encodeChar (Char.ofNat b0.toNat) = [b0] ∧ (Char.ofNat b0.toNat).utf8Size = 1 := by
  have hv := val_ofNat_valid b0.toNat (by left; omega)
  rcases encodeChar_cases (Char.ofNat b0.toNat) with ⟨h1, hs, he⟩ | ⟨h1, h2, hs, he⟩ | ⟨h1, h2, hs, he⟩ | ⟨h1, hs, he⟩
  · rw [he, hv]; exact ⟨by rw [ofNat_eq_of_toNat _ b0 rfl], hs⟩
  all_goals (rw [hv] at h1; omega)

theorem encodeChar_ofNat_two (b0 b1 : UInt8) (h0 : 0xC2 ≤ b0.toNat) (h0' : b0.toNat ≤ 0xDF)
    (h1 : isCont b1 = true) :
    encodeChar (Char.ofNat ((b0.toNat - 0xC0) * 64 + (b1.toNat - 0x80))) = [b0, b1] ∧
    (Char.ofNat ((b0.toNat - 0xC0) * 64 + (b1.toNat - 0x80))).utf8Size = 2 := by
  rw [isCont_iff] at h1
  generalize hvv : (b0.toNat - 0xC0) * 64 + (b1.toNat - 0x80) = v
  have hv := val_ofNat_valid v (by left; omega)
  rcases encodeChar_cases (Char.ofNat v) with ⟨h1, hs, he⟩ | ⟨h1, h2, hs, he⟩ | ⟨h1, h2, hs, he⟩ | ⟨h1, hs, he⟩
  · rw [hv] at h1; omega
  · rw [he, hv]
    exact ⟨by rw [ofNat_eq_of_toNat _ b0 (by omega), ofNat_eq_of_toNat _ b1 (by omega)], hs⟩
  all_goals (rw [hv] at h1; omega)

theorem encodeChar_ofNat_three (b0 b1 b2 : UInt8) (h0 : 0xE0 ≤ b0.toNat) (h0' : b0.toNat ≤ 0xEF)
    (h1 : secondOk b0 b1 = true) (h2 : isCont b2 = true) :
    encodeChar (Char.ofNat ((b0.toNat - 0xE0) * 4096 + (b1.toNat - 0x80) * 64 + (b2.toNat - 0x80))) = [b0, b1, b2] ∧
    (Char.ofNat ((b0.toNat - 0xE0) * 4096 + (b1.toNat - 0x80) * 64 + (b2.toNat - 0x80))).utf8Size = 3 := by
  rw [isCont_iff] at h2
  rw [secondOk_iff] at h1
  generalize hvv : (b0.toNat - 0xE0) * 4096 + (b1.toNat - 0x80) * 64 + (b2.toNat - 0x80) = v
  have hvalid : v.isValidChar := by
    by_cases hd : v < 0xD800
    · left; exact hd
    · right; omega
  have hv := val_ofNat_valid v hvalid
  rcases encodeChar_cases (Char.ofNat v) with ⟨h1, hs, he⟩ | ⟨h1, h2, hs, he⟩ | ⟨h1, h2, hs, he⟩ | ⟨h1, hs, he⟩
  · rw [hv] at h1; omega
  · rw [hv] at h2; omega
  · rw [he, hv]
    exact ⟨by rw [ofNat_eq_of_toNat _ b0 (by omega), ofNat_eq_of_toNat _ b1 (by omega),
      ofNat_eq_of_toNat _ b2 (by omega)], hs⟩
  · rw [hv] at h1; omega

theorem encodeChar_ofNat_four (b0 b1 b2 b3 : UInt8) (h0 : 0xF0 ≤ b0.toNat) (h0' : b0.toNat ≤ 0xF4)
    (h1 : secondOk b0 b1 = true) (h2 : isCont b2 = true) (h3 : isCont b3 = true) :
    encodeChar (Char.ofNat ((b0.toNat - 0xF0) * 262144 + (b1.toNat - 0x80) * 4096 +
        (b2.toNat - 0x80) * 64 + (b3.toNat - 0x80))) = [b0, b1, b2, b3] ∧
    (Char.ofNat ((b0.toNat - 0xF0) * 262144 + (b1.toNat - 0x80) * 4096 +
        (b2.toNat - 0x80) * 64 + (b3.toNat - 0x80))).utf8Size = 4 := by
  rw [isCont_iff] at h2 h3
  rw [secondOk_iff] at h1
  generalize hvv : (b0.toNat - 0xF0) * 262144 + (b1.toNat - 0x80) * 4096 +
        (b2.toNat - 0x80) * 64 + (b3.toNat - 0x80) = v
  have hvalid : v.isValidChar := by right; omega
  have hv := val_ofNat_valid v hvalid
  rcases encodeChar_cases (Char.ofNat v) with ⟨h1, hs, he⟩ | ⟨h1, h2, hs, he⟩ | ⟨h1, h2, hs, he⟩ | ⟨h1, hs, he⟩
  · rw [hv] at h1; omega
  · rw [hv] at h2; omega
  · rw [hv] at h2; omega
  · rw [he, hv]
    exact ⟨by rw [ofNat_eq_of_toNat _ b0 (by omega), ofNat_eq_of_toNat _ b1 (by omega),
      ofNat_eq_of_toNat _ b2 (by omega), ofNat_eq_of_toNat _ b3 (by omega)], hs⟩

theorem decodeOne_some (bs : Bytes) (c : Char) (n : Nat) (h : decodeOne bs = (some c, n)) :
    bs = encodeChar c ++ bs.drop n ∧ n = c.utf8Size := by
  rcases decodeOne_some_shape bs c n h with ⟨b0, r, hb, h0, hc, hn⟩ |
    ⟨b0, b1, r, hb, h0, h0', h1, hc, hn⟩ | ⟨b0, b1, b2, r, hb, h0, h0', h1, h2, hc, hn⟩ |
    ⟨b0, b1, b2, b3, r, hb, h0, h0', h1, h2, h3, hc, hn⟩
  · have := encodeChar_ofNat_one b0 h0
    rw [hc, hn, hb, this.1, this.2]; simp
  · have := encodeChar_ofNat_two b0 b1 h0 h0' h1
    rw [hc, hn, hb, this.1, this.2]; simp
  · have := encodeChar_ofNat_three b0 b1 b2 h0 h0' h1 h2
    rw [hc, hn, hb, this.1, this.2]; simp
  · have := encodeChar_ofNat_four b0 b1 b2 b3 h0 h0' h1 h2 h3
    rw [hc, hn, hb, this.1, this.2]; simp

/-! ## Byte classes of an encoded character -/

set_option maxRecDepth 100000 in
theorem leading_eq_not_isCont_aux :
    ∀ n : Fin 256, (((UInt8.ofNat n.val) &&& 0xC0) != 0x80) = !isCont (UInt8.ofNat n.val) := by
  decide

theorem leading_eq_not_isCont (b : UInt8) : ((b &&& 0xC0) != 0x80) = !isCont b := by
  have := leading_eq_not_isCont_aux ⟨b.toNat, b.toNat_lt⟩
  simpa using this

theorem isLeadingOrInvalid_eq (b : UInt8) : isLeadingOrInvalid b = !isCont b :=
  leading_eq_not_isCont b

theorem isCont_ofNat (n : Nat) (h : n < 256) : isCont (UInt8.ofNat n) = true ↔ 0x80 ≤ n ∧ n ≤ 0xBF := by
  rw [isCont_iff, toNat_ofNat_lt n h]

theorem isCont_ofNat_false (n : Nat) (h : n < 256) (h' : n < 0x80 ∨ 0xBF < n) :
    isCont (UInt8.ofNat n) = false := by
  cases hc : isCont (UInt8.ofNat n) with
  | false => rfl
  | true => rw [isCont_ofNat n h] at hc; omega

/-- An encoded character is a non-continuation byte followed by `utf8Size - 1` continuation bytes. -/
theorem encodeChar_shape (c : Char) :
    ∃ b0 t, encodeChar c = b0 :: t ∧ isCont b0 = false ∧ (∀ b ∈ t, isCont b = true) ∧
      t.length + 1 = c.utf8Size ∧ t.length ≤ 3 := by
  rcases encodeChar_cases c with ⟨h1, hs, he⟩ | ⟨h1, h2, hs, he⟩ | ⟨h1, h2, hs, he⟩ | ⟨h1, hs, he⟩
  · refine ⟨_, _, he, isCont_ofNat_false _ (by omega) (by omega), by simp, by simp [hs], by simp⟩
  · refine ⟨_, _, he, isCont_ofNat_false _ (by omega) (by omega), ?_, by simp [hs], by simp⟩
    intro b hb
    simp only [List.mem_cons, List.not_mem_nil, or_false] at hb
    subst hb; exact (isCont_ofNat _ (by omega)).2 (by omega)
  · refine ⟨_, _, he, isCont_ofNat_false _ (by omega) (by omega), ?_, by simp [hs], by simp⟩
    intro b hb
    simp only [List.mem_cons, List.not_mem_nil, or_false] at hb
    rcases hb with hb | hb <;> (subst hb; exact (isCont_ofNat _ (by omega)).2 (by omega))
  · have hv := char_valid_nat c
    refine ⟨_, _, he, isCont_ofNat_false _ (by omega) (by omega), ?_, by simp [hs], by simp⟩
    intro b hb
    simp only [List.mem_cons, List.not_mem_nil, or_false] at hb
    rcases hb with hb | hb | hb <;> (subst hb; exact (isCont_ofNat _ (by omega)).2 (by omega))

/-! ## Backward decoding -/

theorem lastStart_go_aux (p t : Bytes) (b0 : UInt8) (hb0 : isCont b0 = false)
    (ht : ∀ b ∈ t, isCont b = true) (ht3 : t.length ≤ 3) :
    ∀ (j fuel : Nat), j ≤ fuel → j ≤ t.length →
      lastStart.go (p ++ b0 :: t) ((p ++ b0 :: t).length - 4) fuel (p.length + j) = p.length := by
  intro j
  induction j with
  | zero =>
    intro fuel _ _
    cases fuel with
    | zero => simp [lastStart.go]
    | succ f =>
      simp [lastStart.go, isLeadingOrInvalid_eq, List.getD_eq_getElem?_getD, hb0]
  | succ j ih =>
    intro fuel hf hj
    cases fuel with
    | zero => omega
    | succ f =>
      have hget : (p ++ b0 :: t).getD (p.length + (j + 1)) 0 = t[j]'(by omega) := by
        have hj' : j < t.length := by omega
        simp [List.getD_eq_getElem?_getD, List.getElem?_append_right, List.getElem?_eq_getElem hj']
      have hc : isCont (t[j]'(by omega)) = true := ht _ (List.getElem_mem _)
      have hlim : p.length + (j + 1) > (p ++ b0 :: t).length - 4 := by
        simp only [List.length_append, List.length_cons]; omega
      simp only [lastStart.go, hget, isLeadingOrInvalid_eq, hc, hlim, decide_true, Bool.not_true,
        Bool.not_false, Bool.and_self, if_true]
      have : p.length + (j + 1) - 1 = p.length + j := by omega
      rw [this]
      exact ih f (by omega) (by omega)

theorem lastStart_append_encodeChar (p : Bytes) (c : Char) :
    lastStart (p ++ encodeChar c) = p.length := by
  obtain ⟨b0, t, he, hb0, ht, _, ht3⟩ := encodeChar_shape c
  rw [he]
  unfold lastStart
  have := lastStart_go_aux p t b0 hb0 ht ht3 t.length 4 (by omega) (Nat.le_refl _)
  have hn : (p ++ b0 :: t).length - 1 = p.length + t.length := by
    simp only [List.length_append, List.length_cons]; omega
  simp only [hn]
  exact this

theorem decodeLast_append_encodeChar' (p : Bytes) (c : Char) :
    decodeLast (p ++ encodeChar c) = (some c, c.utf8Size) := by
  have hne : (p ++ encodeChar c).isEmpty = false := by
    have := encodeChar_ne_nil c
    cases h : encodeChar c with
    | nil => exact absurd h this
    | cons x xs => simp
  have hd : decodeOne (encodeChar c) = (some c, c.utf8Size) := by
    simpa using decodeOne_encodeChar_append c []
  unfold decodeLast
  rw [hne]
  simp only [Bool.false_eq_true, if_false, lastStart_append_encodeChar, List.drop_left, hd]
  simp [encodeChar_length]

theorem decodeLast_append_encodeChar (pre : List Char) (c : Char) :
    decodeLast (encodeChars pre ++ encodeChar c) = (some c, c.utf8Size) :=
  decodeLast_append_encodeChar' _ c

theorem charsRev_nil : charsRev [] = [] := by
  rw [charsRev]; simp

theorem charsRev_append_encodeChar (p : Bytes) (c : Char) :
    charsRev (p ++ encodeChar c) = (c, c.utf8Size) :: charsRev p := by
  have hne : p ++ encodeChar c ≠ [] := by
    have := encodeChar_ne_nil c
    simp [this]
  rw [charsRev, dif_neg hne]
  simp only [decodeLast_append_encodeChar', Option.getD_some]
  have : (p ++ encodeChar c).length - c.utf8Size = p.length := by
    simp [encodeChar_length]
  rw [this, List.take_left]

theorem charsRev_encodeChars_reverse (l : List Char) :
    charsRev (encodeChars l.reverse) = l.map (fun c => (c, c.utf8Size)) := by
  induction l with
  | nil => simp [charsRev_nil]
  | cons c l ih =>
    rw [List.reverse_cons, encodeChars_append, encodeChars_singleton, charsRev_append_encodeChar, ih]
    rfl

theorem charsRev_encodeChars (cs : List Char) :
    charsRev (encodeChars cs) = cs.reverse.map (fun c => (c, c.utf8Size)) := by
  have := charsRev_encodeChars_reverse cs.reverse
  rwa [List.reverse_reverse] at this

end Kitoken.Utf8
