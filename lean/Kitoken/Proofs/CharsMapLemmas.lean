/-
  Lemmas for C12 (precompiled character map, model after the F4, F14 and F16 repairs): blob loader
  round trip / totality / layout; common-prefix search versus exact-match lookup; one lookup
  (`transform`) versus the specification's key occurrence; normalization versus its specification;
  untouched text; a key followed by untouched text. Core Lean only.

  `prefix_eq_keys` needs the leaf-in-range hypothesis (counterexample `cexPrefix` below, checked by
  `decide`); `prefix_sound` (initial segment) holds for every map. The hypothesis is stated as the
  explicit ∀-formula (`Kitoken.C12.LeavesInRange` unfolds to it); `leavesInRange` decides it.
-/
import Kitoken.Spec.CharsMap
import Kitoken.Proofs.Utf8Lemmas2
namespace Kitoken.Proofs.CharsMap

open Kitoken Kitoken.CharsMap Kitoken.Spec Kitoken.Utf8

/-! ## Loader -/

theorem le32_wordLE (u : UInt32) :
    le32 u.toUInt8 (u >>> 8).toUInt8 (u >>> 16).toUInt8 (u >>> 24).toUInt8 = u := by
  unfold le32
  apply UInt32.eq_of_toBitVec_eq
  simp only [UInt32.toBitVec_or, UInt32.toBitVec_shiftLeft, UInt8.toBitVec_toUInt32, UInt32.toBitVec_toUInt8, UInt32.toBitVec_shiftRight]
  ext i hi
  simp
  by_cases h1 : i < 8
  · have h2 : i < 16 := by omega
    have h3 : i < 24 := by omega
    simp [h1, h2, h3, BitVec.getLsbD_eq_getElem hi]
  · by_cases h2 : i < 16
    · have : 8 + (i - 8) = i := by omega
      have h3 : i < 24 := by omega
      have h4 : i - 8 < 8 := by omega
      simp [h1, h2, h3, h4, this, BitVec.getLsbD_eq_getElem hi]
    · by_cases h3 : i < 24
      · have : 16 + (i - 16) = i := by omega
        have h4 : ¬ i - 8 < 8 := by omega
        have h5 : i - 16 < 8 := by omega
        simp [h1, h2, h3, h4, h5, this, BitVec.getLsbD_eq_getElem hi]
      · have : 24 + (i - 24) = i := by omega
        have h4 : ¬ i - 8 < 8 := by omega
        have h5 : ¬ i - 16 < 8 := by omega
        have h6 : i - 24 < 8 := by omega
        simp [h1, h2, h3, h4, h5, h6, this, BitVec.getLsbD_eq_getElem hi]

theorem wordsLE_flatMap (us : List UInt32) (rest : Bytes) (h : rest.length < 4) :
    wordsLE (us.flatMap wordLE ++ rest) = us := by
  induction us with
  | nil =>
    match rest, h with
    | [], _ => simp [wordsLE]
    | [_], _ => simp [wordsLE]
    | [_, _], _ => simp [wordsLE]
    | [_, _, _], _ => simp [wordsLE]
  | cons u us ih =>
    simp only [List.flatMap_cons, wordLE, List.cons_append, List.nil_append, wordsLE, le32_wordLE]
    rw [ih]

theorem flatMap_wordLE_length (us : List UInt32) : (us.flatMap wordLE).length = 4 * us.length := by
  induction us with
  | nil => rfl
  | cons u us ih => simp [List.flatMap_cons, wordLE, ih]; omega

theorem load_wordLE_append (u : UInt32) (rest : Bytes) :
    load (wordLE u ++ rest) =
      if rest.length < u.toNat then .err (.other "CharsMap data too short")
      else .ok { array := (wordsLE (rest.take u.toNat)).toArray, normalized := rest.drop u.toNat } := by
  simp only [wordLE, List.cons_append, List.nil_append, load, le32_wordLE, List.length_cons]
  by_cases h : rest.length < u.toNat
  · have : rest.length + 1 + 1 + 1 + 1 < 4 + u.toNat := by omega
    simp [h, this]
  · have : ¬ rest.length + 1 + 1 + 1 + 1 < 4 + u.toNat := by omega
    simp [h, this]

theorem load_roundtrip (m : CharsMap) (h : 4 * m.array.size < 2 ^ 32) : load (toBlob m) = .ok m := by
  have hn : (UInt32.ofNat (4 * m.array.size)).toNat = 4 * m.array.size := by
    rw [UInt32.toNat_ofNat']; exact Nat.mod_eq_of_lt h
  have hl : (m.array.toList.flatMap wordLE).length = 4 * m.array.size := by
    rw [flatMap_wordLE_length, Array.length_toList]
  unfold toBlob
  rw [List.append_assoc, load_wordLE_append, hn]
  have h1 : ¬ (m.array.toList.flatMap wordLE ++ m.normalized).length < 4 * m.array.size := by
    rw [List.length_append, hl]; omega
  rw [if_neg h1, List.take_left' hl, List.drop_left' hl]
  have := wordsLE_flatMap m.array.toList [] (by simp)
  rw [List.append_nil] at this
  rw [this]

theorem load_total (data : Bytes) : (load data).isPanic = false := by
  unfold load
  split
  · dsimp only
    split <;> rfl
  · rfl

theorem load_layout (data : Bytes) (m : CharsMap) (h : load data = .ok m) :
    ∃ a b c d rest, data = a :: b :: c :: d :: rest ∧ (le32 a b c d).toNat ≤ rest.length ∧
      m.array.toList = wordsLE (rest.take (le32 a b c d).toNat) ∧ m.normalized = rest.drop (le32 a b c d).toNat := by
  unfold load at h
  split at h
  · rename_i a b c d rest
    refine ⟨a, b, c, d, rest, rfl, ?_⟩
    dsimp only at h
    split at h
    · cases h
    · rename_i hlt
      simp only [List.length_cons] at hlt
      injection h with h
      subst h
      exact ⟨by omega, rfl, rfl⟩
  · cases h

/-! ## Common-prefix search versus exact-match lookup -/

/-- Lookup of `key` walking from `(posit, unit)`. -/
def lookupFrom (m : CharsMap) (key : Bytes) (posit : Nat) (unit : UInt32) : Option Nat :=
  match walkKey m key posit unit with
  | some (p, u) => if unitHasLeaf u then (m.array[p]?).map unitValue else none
  | none => none

/-- (length, value) of all non-empty prefixes of `key` that are keys, walking from `posit` after `i`
    consumed bytes. -/
def valuesGo (m : CharsMap) : (key : Bytes) → (posit : Nat) → (i : Nat) → List (Nat × Nat)
  | [], _, _ => []
  | c :: cs, posit, i =>
    match m.array[posit ^^^ c.toNat]? with
    | none => []
    | some unit =>
      if unitLabel unit != c.toNat then []
      else
        (if unitHasLeaf unit then
          ((m.array[posit ^^^ c.toNat ^^^ unitOffset unit]?).map fun l => (i + 1, unitValue l)).toList else [])
          ++ valuesGo m cs (posit ^^^ c.toNat ^^^ unitOffset unit) (i + 1)

theorem lookupFrom_cons (m : CharsMap) (c : UInt8) (t : Bytes) (posit : Nat) (unit : UInt32) :
    lookupFrom m (c :: t) posit unit =
      match m.array[posit ^^^ c.toNat]? with
      | none => none
      | some u => if unitLabel u != c.toNat then none
                  else lookupFrom m t (posit ^^^ c.toNat ^^^ unitOffset u) u := by
  unfold lookupFrom
  simp only [walkKey]
  cases m.array[posit ^^^ c.toNat]? with
  | none => rfl
  | some u =>
    simp only []
    by_cases hl : (unitLabel u != c.toNat) = true
    · simp only [hl, if_true]
    · simp only [hl, if_false, Bool.false_eq_true]

theorem lookupFrom_nil (m : CharsMap) (posit : Nat) (unit : UInt32) :
    lookupFrom m [] posit unit = if unitHasLeaf unit then (m.array[posit]?).map unitValue else none := by
  simp [lookupFrom, walkKey]

theorem filterMap_congr' {α β} {f g : α → Option β} {l : List α} (h : ∀ x ∈ l, f x = g x) :
    l.filterMap f = l.filterMap g := by
  induction l with
  | nil => rfl
  | cons a l ih =>
    rw [List.filterMap_cons, List.filterMap_cons, h a (by simp), ih (fun x hx => h x (by simp [hx]))]

theorem filterMap_shift (f : Nat → Option Nat) (i : Nat) (l : List Nat) :
    (l.map (· + 1)).filterMap (fun n => (f n).map fun v => (i + n, v)) =
      l.filterMap (fun n => (f (n + 1)).map fun v => (i + 1 + n, v)) := by
  rw [List.filterMap_map]
  apply filterMap_congr'
  intro n _
  have hadd : i + (n + 1) = i + 1 + n := by omega
  simp only [Function.comp_apply, hadd]

theorem filterMap_lookupFrom (m : CharsMap) (key : Bytes) (posit : Nat) (unit : UInt32) (i : Nat) :
    (List.range' 1 key.length).filterMap
        (fun n => (lookupFrom m (key.take n) posit unit).map fun v => (i + n, v)) =
      valuesGo m key posit i := by
  induction key generalizing posit unit i with
  | nil => simp [valuesGo]
  | cons c cs ih =>
    rw [List.length_cons, List.range'_succ, List.filterMap_cons]
    have hshift : List.range' 2 cs.length = (List.range' 1 cs.length).map (· + 1) :=
      List.range'_succ_left (s := 1)
    rw [hshift, filterMap_shift (fun n => lookupFrom m (List.take n (c :: cs)) posit unit)]
    simp only [List.take_succ_cons, List.take_zero, lookupFrom_cons, valuesGo]
    cases h : m.array[posit ^^^ c.toNat]? with
    | none => simp
    | some u =>
      simp only []
      by_cases hl : (unitLabel u != c.toNat) = true
      · simp [hl]
      · simp only [hl, if_false, Bool.false_eq_true]
        rw [ih, lookupFrom_nil]
        by_cases hh : unitHasLeaf u = true
        · simp only [hh, if_true]
          cases m.array[posit ^^^ c.toNat ^^^ unitOffset u]? <;> simp
        · simp [hh]

theorem lookupExact_eq_lookupFrom (m : CharsMap) (key : Bytes) (root : UInt32) (hr : m.array[0]? = some root)
    (hne : key ≠ []) : lookupExact m key = lookupFrom m key (0 ^^^ unitOffset root) root := by
  have he : key.isEmpty = false := by cases key <;> simp_all
  simp only [lookupExact, hr, he, lookupFrom, Bool.false_eq_true, if_false]
  rfl

theorem prefixValues_eq_valuesGo (m : CharsMap) (key : Bytes) (root : UInt32) (hr : m.array[0]? = some root) :
    prefixValues m key = valuesGo m key (0 ^^^ unitOffset root) 0 := by
  rw [← filterMap_lookupFrom m key (0 ^^^ unitOffset root) root 0]
  unfold prefixValues
  apply filterMap_congr'
  intro n hn
  have hn1 : 1 ≤ n ∧ n ≤ key.length := by
    simp [List.mem_range'_1] at hn; omega
  have hne : key.take n ≠ [] := by
    cases key with
    | nil => simp at hn1; omega
    | cons c cs =>
      obtain ⟨k, rfl⟩ : ∃ k, n = k + 1 := ⟨n - 1, by omega⟩
      simp
  rw [lookupExact_eq_lookupFrom m _ root hr hne, Nat.zero_add]

theorem prefixGo_eq (m : CharsMap)
    (hwf : ∀ p unit, m.array[p]? = some unit → unitHasLeaf unit = true → p ^^^ unitOffset unit < m.array.size)
    (key : Bytes) (h : NoNul key) (posit i : Nat) (acc : List (Nat × Nat)) :
    prefixGo m key posit i acc = acc.reverse ++ valuesGo m key posit i := by
  induction key generalizing posit i acc with
  | nil => simp [prefixGo, valuesGo]
  | cons c cs ih =>
    have hc : (c == 0) = false := by
      have := h c (by simp); simpa using this
    have hcs : NoNul cs := fun b hb => h b (by simp [hb])
    simp only [prefixGo, valuesGo, hc, Bool.false_eq_true, if_false]
    cases hu : m.array[posit ^^^ c.toNat]? with
    | none => simp
    | some u =>
      simp only []
      by_cases hl : (unitLabel u != c.toNat) = true
      · simp [hl]
      · simp only [hl, if_false, Bool.false_eq_true]
        by_cases hh : unitHasLeaf u = true
        · simp only [hh, if_true]
          have hlt := hwf _ _ hu hh
          have hs : m.array[posit ^^^ c.toNat ^^^ unitOffset u]? = some m.array[posit ^^^ c.toNat ^^^ unitOffset u] :=
            Array.getElem?_eq_getElem hlt
          rw [hs]
          simp only [Option.map_some, Option.toList_some]
          rw [ih hcs]
          simp
        · simp only [hh, if_false, Bool.false_eq_true, List.nil_append]
          exact ih hcs _ _ _

theorem prefixGo_isPrefix (m : CharsMap) (key : Bytes) (posit i : Nat) (acc : List (Nat × Nat)) :
    ∃ l, prefixGo m key posit i acc = acc.reverse ++ l ∧ l <+: valuesGo m key posit i := by
  induction key generalizing posit i acc with
  | nil => exact ⟨[], by simp [prefixGo, valuesGo]⟩
  | cons c cs ih =>
    simp only [prefixGo, valuesGo]
    by_cases hc : (c == 0) = true
    · exact ⟨[], by simp [hc]⟩
    · simp only [hc, if_false, Bool.false_eq_true]
      cases hu : m.array[posit ^^^ c.toNat]? with
      | none => exact ⟨[], by simp⟩
      | some u =>
        simp only []
        by_cases hl : (unitLabel u != c.toNat) = true
        · exact ⟨[], by simp [hl]⟩
        · simp only [hl, if_false, Bool.false_eq_true]
          by_cases hh : unitHasLeaf u = true
          · simp only [hh, if_true]
            cases hs : m.array[posit ^^^ c.toNat ^^^ unitOffset u]? with
            | none => exact ⟨[], by simp⟩
            | some leaf =>
              obtain ⟨l, hl1, hl2⟩ := ih (posit ^^^ c.toNat ^^^ unitOffset u) (i + 1) ((i + 1, unitValue leaf) :: acc)
              refine ⟨(i + 1, unitValue leaf) :: l, ?_, ?_⟩
              · simp only []; rw [hl1]; simp
              · simp only [Option.map_some, Option.toList_some, List.singleton_append]
                exact List.cons_prefix_cons.mpr ⟨rfl, hl2⟩
          · simp only [hh, if_false, Bool.false_eq_true, List.nil_append]
            exact ih _ _ _

theorem prefix_sound (m : CharsMap) (key : Bytes) : m.prefix key <+: prefixValues m key := by
  unfold CharsMap.prefix
  cases hr : m.array[0]? with
  | none => simp
  | some root =>
    simp only []
    obtain ⟨l, h1, h2⟩ := prefixGo_isPrefix m key (0 ^^^ unitOffset root) 0 []
    rw [h1, prefixValues_eq_valuesGo m key root hr]
    simpa using h2

theorem prefixValues_of_no_root (m : CharsMap) (key : Bytes) (hr : m.array[0]? = none) : prefixValues m key = [] := by
  unfold prefixValues
  simp [lookupExact, hr]

theorem prefix_eq_keys (m : CharsMap)
    (hwf : ∀ p unit, m.array[p]? = some unit → unitHasLeaf unit = true → p ^^^ unitOffset unit < m.array.size)
    (key : Bytes) (h : NoNul key) :
    m.prefix key = prefixValues m key := by
  unfold CharsMap.prefix
  cases hr : m.array[0]? with
  | none => simp [prefixValues_of_no_root m key hr]
  | some root =>
    simp only []
    rw [prefixGo_eq m hwf key h, prefixValues_eq_valuesGo m key root hr]
    simp

/-! ## One lookup: `transform` versus `keyOccurrence` -/

theorem getLast?_filterMap {α β} (f : α → Option β) (l : List α) :
    (l.filterMap f).getLast? = l.reverse.findSome? f := by
  rw [List.getLast?_eq_head?_reverse, ← List.filterMap_reverse, List.head?_filterMap]

theorem getLast?_prefixValues (m : CharsMap) (chunk : Bytes) :
    (prefixValues m chunk).getLast? = longestKey m chunk := by
  unfold prefixValues longestKey
  exact getLast?_filterMap _ _

theorem transform_eq_occurrence (m : CharsMap)
    (hwf : ∀ p unit, m.array[p]? = some unit → unitHasLeaf unit = true → p ^^^ unitOffset unit < m.array.size)
    (chunk : Bytes) (h : NoNul chunk) :
    m.transform chunk = keyOccurrence m chunk := by
  unfold transform keyOccurrence
  rw [prefix_eq_keys m hwf chunk h, getLast?_prefixValues]
  cases longestKey m chunk with
  | none => rfl
  | some p =>
    obtain ⟨n, v⟩ := p
    simp only [replacementAt]
    by_cases hb : isBoundary chunk n = true
    · simp only [hb, Bool.not_true, Bool.false_eq_true, if_false, if_true]
      split <;> rfl
    · simp [hb]

/-! ## Normalization versus its specification -/

theorem longestKey_bounds (m : CharsMap) (g : Bytes) (n v : Nat) (h : longestKey m g = some (n, v)) :
    1 ≤ n ∧ n ≤ g.length := by
  unfold longestKey at h
  obtain ⟨a, ha, hf⟩ := List.exists_of_findSome?_eq_some h
  rw [List.mem_reverse, List.mem_range'_1] at ha
  cases hl : lookupExact m (g.take a) with
  | none => rw [hl] at hf; cases hf
  | some w =>
    rw [hl] at hf
    simp only [Option.map_some, Option.some.injEq, Prod.mk.injEq] at hf
    omega

theorem keyOccurrence_bounds (m : CharsMap) (g : Bytes) (n : Nat) (r : Bytes)
    (h : keyOccurrence m g = some (n, r)) : 1 ≤ n ∧ n ≤ g.length := by
  unfold keyOccurrence at h
  cases hl : longestKey m g with
  | none => rw [hl] at h; cases h
  | some p =>
    obtain ⟨n', v⟩ := p
    rw [hl] at h
    simp only [] at h
    split at h
    · cases hr : replacementAt m v with
      | none => rw [hr] at h; cases h
      | some r' =>
        rw [hr] at h
        simp only [Option.map_some, Option.some.injEq, Prod.mk.injEq] at h
        have := longestKey_bounds m g n' v hl
        omega
    · cases h

theorem specGrapheme_succ (m : CharsMap) (fuel : Nat) (g : Bytes) (hne : g ≠ []) :
    specGrapheme m (fuel + 1) g =
      match keyOccurrence m g with
      | some (n, r) => encodeChars (chars r) ++ specGrapheme m fuel (g.drop n)
      | none => encodeChar ((decodeOne g).1.getD REPLACEMENT) ++ specGrapheme m fuel (g.drop (decodeOne g).2) := by
  cases g with
  | nil => exact absurd rfl hne
  | cons b t => rfl

theorem normalizeRest_succ (m : CharsMap) (fuel : Nat) (g : Bytes) (hne : g ≠ []) :
    normalizeRest m (fuel + 1) g =
      match m.transform g with
      | some (n, r) => encodeChars (chars r) ++ normalizeRest m fuel (g.drop n)
      | none => encodeChar ((decodeOne g).1.getD REPLACEMENT) ++ normalizeRest m fuel (g.drop (decodeOne g).2) := by
  cases g with
  | nil => exact absurd rfl hne
  | cons b t => rfl

theorem specGrapheme_nil (m : CharsMap) (fuel : Nat) : specGrapheme m fuel [] = [] := by
  cases fuel <;> rfl

theorem normalizeRest_nil (m : CharsMap) (fuel : Nat) : normalizeRest m fuel [] = [] := by
  cases fuel <;> rfl

/-- Fuel irrelevance: any fuel above the length gives the same result (each step consumes ≥ 1 byte). -/
theorem specGrapheme_fuel (m : CharsMap) (f1 f2 : Nat) (g : Bytes) (h1 : g.length < f1) (h2 : g.length < f2) :
    specGrapheme m f1 g = specGrapheme m f2 g := by
  induction f1 generalizing f2 g with
  | zero => omega
  | succ f1 ih =>
    cases f2 with
    | zero => omega
    | succ f2 =>
      cases g with
      | nil => rfl
      | cons b t =>
        rw [specGrapheme_succ m f1 _ (by simp), specGrapheme_succ m f2 _ (by simp)]
        cases hk : keyOccurrence m (b :: t) with
        | none =>
          simp only []
          have hp := decodeOne_pos b t
          rw [ih f2 _ (by simp only [List.length_drop, List.length_cons] at h1 ⊢; omega)
            (by simp only [List.length_drop, List.length_cons] at h2 ⊢; omega)]
        | some p =>
          obtain ⟨n, r⟩ := p
          simp only []
          have hp := (keyOccurrence_bounds m _ n r hk).1
          rw [ih f2 _ (by simp only [List.length_drop, List.length_cons] at h1 ⊢; omega)
            (by simp only [List.length_drop, List.length_cons] at h2 ⊢; omega)]

theorem noNul_drop (g : Bytes) (n : Nat) (h : NoNul g) : NoNul (g.drop n) :=
  fun b hb => h b (List.mem_of_mem_drop hb)

theorem noNul_slice (g : Bytes) (a b : Nat) (h : NoNul g) : NoNul (slice g a b) :=
  fun x hx => h x (List.mem_of_mem_drop (List.mem_of_mem_take hx))

theorem normalizeRest_eq_spec (m : CharsMap)
    (hwf : ∀ p unit, m.array[p]? = some unit → unitHasLeaf unit = true → p ^^^ unitOffset unit < m.array.size)
    (fuel : Nat) (g : Bytes) (h : NoNul g) :
    normalizeRest m fuel g = specGrapheme m fuel g := by
  induction fuel generalizing g with
  | zero => rfl
  | succ fuel ih =>
    cases g with
    | nil => rfl
    | cons b t =>
      rw [specGrapheme_succ m fuel _ (by simp), normalizeRest_succ m fuel _ (by simp),
        transform_eq_occurrence m hwf _ h]
      cases keyOccurrence m (b :: t) with
      | none => simp only []; rw [ih _ (noNul_drop _ _ h)]
      | some p => obtain ⟨n, r⟩ := p; simp only []; rw [ih _ (noNul_drop _ _ h)]

theorem flatMap_congr' {α β} {f g : α → List β} {l : List α} (h : ∀ x ∈ l, f x = g x) :
    l.flatMap f = l.flatMap g := by
  induction l with
  | nil => rfl
  | cons a l ih =>
    rw [List.flatMap_cons, List.flatMap_cons, h a (by simp), ih (fun x hx => h x (by simp [hx]))]

theorem normalize_eq_spec (m : CharsMap)
    (hwf : ∀ p unit, m.array[p]? = some unit → unitHasLeaf unit = true → p ^^^ unitOffset unit < m.array.size)
    (text : Bytes) (gs : List (Nat × Nat)) (hn : NoNul text) :
    m.normalize text gs = normalizeSpec m text gs := by
  unfold normalize normalizeSpec
  apply flatMap_congr'
  intro p _
  obtain ⟨s, e⟩ := p
  simp only [normalizeGrapheme]
  rw [normalizeRest_eq_spec m hwf _ _ (noNul_slice text s e hn)]
  have := slice_length_le text s e
  exact specGrapheme_fuel m _ _ _ (by omega) (by omega)

/-! ## Untouched text, key followed by untouched text -/

theorem transform_none_of_no_key (m : CharsMap) (chunk : Bytes)
    (hk : ∀ n, 1 ≤ n → n ≤ chunk.length → lookupExact m (chunk.take n) = none) :
    m.transform chunk = none := by
  have hv : prefixValues m chunk = [] := by
    unfold prefixValues
    rw [List.filterMap_eq_nil_iff]
    intro n hn
    have : 1 ≤ n ∧ n ≤ chunk.length := by simp [List.mem_range'_1] at hn; omega
    rw [hk n this.1 this.2]; rfl
  have hp := prefix_sound m chunk
  rw [hv, List.prefix_nil] at hp
  simp [transform, hp]

theorem normalizeRest_untouched (m : CharsMap) (cs : List Char) (fuel : Nat)
    (hf : (encodeChars cs).length < fuel)
    (hk : ∀ (pre suf : List Char), cs = pre ++ suf → suf ≠ [] → m.transform (encodeChars suf) = none) :
    normalizeRest m fuel (encodeChars cs) = encodeChars cs := by
  induction cs generalizing fuel with
  | nil => simp [normalizeRest_nil]
  | cons c cs ih =>
    cases fuel with
    | zero => omega
    | succ fuel =>
      have hne : encodeChars (c :: cs) ≠ [] := by
        rw [encodeChars_cons]; simp [encodeChar_ne_nil]
      rw [normalizeRest_succ m fuel _ hne, hk [] (c :: cs) rfl (by simp)]
      simp only []
      rw [encodeChars_cons, decodeOne_encodeChar_append]
      simp only [Option.getD_some]
      rw [List.drop_left' (encodeChar_length c)]
      rw [encodeChars_cons, List.length_append, encodeChar_length] at hf
      have hp := c.utf8Size_pos
      rw [ih fuel (by omega) (fun pre suf hps hs => hk (c :: pre) suf (by rw [hps]; rfl) hs)]

theorem slice_zero_length {α} (l : List α) : slice l 0 l.length = l := by
  simp [slice]

theorem slice_append_mid {α} (pre mid post : List α) (n : Nat) (hn : n = mid.length) :
    slice (pre ++ (mid ++ post)) pre.length (pre.length + n) = mid := by
  subst hn
  simp [slice]

theorem normalizeGrapheme_untouched (m : CharsMap) (g : List Char)
    (hk : ∀ (pre suf : List Char), g = pre ++ suf → suf ≠ [] → m.transform (encodeChars suf) = none) :
    normalizeGrapheme m (encodeChars g) = encodeChars g :=
  normalizeRest_untouched m g _ (Nat.lt_succ_self _) hk

/-- Consecutive byte ranges of the graphemes starting at `off`. -/
def boundsFrom : Nat → List (List Char) → List (Nat × Nat)
  | _, [] => []
  | off, g :: gs => (off, off + (encodeChars g).length) :: boundsFrom (off + (encodeChars g).length) gs

theorem foldl_bounds (gs : List (List Char)) (bs : List (Nat × Nat)) (off : Nat) :
    (gs.foldl (fun (acc : List (Nat × Nat) × Nat) g =>
      (acc.1 ++ [(acc.2, acc.2 + (encodeChars g).length)], acc.2 + (encodeChars g).length)) (bs, off)).1 =
      bs ++ boundsFrom off gs := by
  induction gs generalizing bs off with
  | nil => simp [boundsFrom]
  | cons g gs ih => simp only [List.foldl_cons, ih, boundsFrom, List.append_assoc, List.singleton_append]

theorem normalize_boundsFrom (m : CharsMap) (gs : List (List Char)) (pre : Bytes)
    (hg : ∀ g ∈ gs, normalizeGrapheme m (encodeChars g) = encodeChars g) :
    m.normalize (pre ++ encodeChars gs.flatten) (boundsFrom pre.length gs) = encodeChars gs.flatten := by
  induction gs generalizing pre with
  | nil => simp [boundsFrom, normalize]
  | cons g gs ih =>
    have := ih (pre ++ encodeChars g) (fun g' h' => hg g' (by simp [h']))
    simp only [normalize] at this ⊢
    simp only [boundsFrom, List.flatMap_cons, List.flatten_cons, encodeChars_append]
    rw [slice_append_mid pre (encodeChars g) _ _ rfl, hg g (by simp)]
    rw [List.length_append, List.append_assoc] at this
    rw [this]

theorem normalize_untouched (m : CharsMap) (gs : List (List Char))
    (hk : ∀ g ∈ gs, ∀ (pre suf : List Char), g = pre ++ suf → suf ≠ [] →
      ∀ n, 1 ≤ n → n ≤ (encodeChars suf).length → lookupExact m ((encodeChars suf).take n) = none) :
    let text := encodeChars gs.flatten
    let bounds := (gs.foldl (fun (acc : List (Nat × Nat) × Nat) g =>
      (acc.1 ++ [(acc.2, acc.2 + (encodeChars g).length)], acc.2 + (encodeChars g).length)) ([], 0)).1
    m.normalize text bounds = text := by
  intro text bounds
  have hb : bounds = boundsFrom 0 gs := by
    simp only [bounds]; rw [foldl_bounds]; rfl
  rw [hb]
  have := normalize_boundsFrom m gs [] (fun g hgm =>
    normalizeGrapheme_untouched m g (fun pre suf hps hs =>
      transform_none_of_no_key m _ (hk g hgm pre suf hps hs)))
  simpa using this

theorem normalize_key_then_rest (m : CharsMap)
    (hwf : ∀ p unit, m.array[p]? = some unit → unitHasLeaf unit = true → p ^^^ unitOffset unit < m.array.size)
    (k rest : List Char) (v : Nat) (r : Bytes)
    (hk : k ≠ []) (hnul : NoNul (encodeChars (k ++ rest)))
    (hkey : longestKey m (encodeChars (k ++ rest)) = some ((encodeChars k).length, v))
    (hr : replacementAt m v = some r)
    (hrest : ∀ (pre suf : List Char), rest = pre ++ suf → suf ≠ [] →
      ∀ n, 1 ≤ n → n ≤ (encodeChars suf).length → lookupExact m ((encodeChars suf).take n) = none) :
    m.normalize (encodeChars (k ++ rest)) [(0, (encodeChars (k ++ rest)).length)] =
      encodeChars (chars r) ++ encodeChars rest := by
  have hklen : 1 ≤ (encodeChars k).length := by
    cases k with
    | nil => exact absurd rfl hk
    | cons c k =>
      rw [encodeChars_cons, List.length_append, encodeChar_length]
      have := c.utf8Size_pos; omega
  have hne : encodeChars (k ++ rest) ≠ [] := by
    intro h0
    rw [encodeChars_append] at h0
    have := congrArg List.length h0
    simp only [List.length_append, List.length_nil] at this
    omega
  have ht : m.transform (encodeChars (k ++ rest)) = some ((encodeChars k).length, r) := by
    rw [transform_eq_occurrence m hwf _ hnul]
    unfold keyOccurrence
    rw [hkey]
    simp only [isBoundary_encodeChars, if_true, hr, Option.map_some]
  simp only [normalize, List.flatMap_cons, List.flatMap_nil, List.append_nil, slice_zero_length,
    normalizeGrapheme]
  rw [normalizeRest_succ m _ _ hne, ht]
  simp only []
  have hd : (encodeChars (k ++ rest)).drop (encodeChars k).length = encodeChars rest := by
    rw [encodeChars_append, List.drop_left]
  rw [hd, normalizeRest_untouched m rest _ (by rw [encodeChars_append, List.length_append]; omega)
    (fun pre suf hps hs => transform_none_of_no_key m _ (hrest pre suf hps hs))]


/-! ## A decidable check of the well-formedness hypothesis (for shipped maps) -/

/-- Every unit with the leaf flag has its leaf index inside the array. -/
def leavesInRange (m : CharsMap) : Bool :=
  (List.range m.array.size).all fun p =>
    match m.array[p]? with
    | some u => !unitHasLeaf u || decide (p ^^^ unitOffset u < m.array.size)
    | none => true

theorem leavesInRange_spec (m : CharsMap) (h : leavesInRange m = true) :
    ∀ p unit, m.array[p]? = some unit → unitHasLeaf unit = true → p ^^^ unitOffset unit < m.array.size := by
  intro p unit hp hl
  have hlt : p < m.array.size := by
    rcases Nat.lt_or_ge p m.array.size with h' | h'
    · exact h'
    · rw [Array.getElem?_eq_none h'] at hp; cases hp
  unfold leavesInRange at h
  rw [List.all_eq_true] at h
  have := h p (List.mem_range.mpr hlt)
  simp only [hp, hl, Bool.not_true, Bool.false_or, decide_eq_true_eq] at this
  exact this

/-! ## Examples and counterexamples -/

/-- The loader before the F4 repair panics on the 4-byte blob of an empty map; the repaired one loads it. -/
example : (loadOld [0, 0, 0, 0]).isPanic = true := by decide
example : (load [0, 0, 0, 0]) = .ok { array := #[], normalized := [] } := by decide
example : load (toBlob { array := #[198656, 174531, 1449], normalized := [0x65, 0] }) =
    .ok { array := #[198656, 174531, 1449], normalized := [0x65, 0] } := by decide

/-- Counterexample to the unconditional `prefix_eq_keys`: the leaf of key `[1]` lies outside the
    array (index 9 of 4), so the search stops, but `[1, 11]` is a key with value 5. -/
def cexPrefix : CharsMap := { array := #[0, 8449, 1291, 5], normalized := [] }

example : NoNul [1, 11] ∧ cexPrefix.prefix [1, 11] = [] ∧ prefixValues cexPrefix [1, 11] = [(2, 5)] ∧
    leavesInRange cexPrefix = false := by
  refine ⟨?_, by decide, by decide, by decide⟩
  intro b hb; simp at hb; rcases hb with rfl | rfl <;> decide

theorem charIndicesFrom_of_decodeOne (pos : Nat) (b : UInt8) (t : Bytes) (c : Char) (n : Nat)
    (h : decodeOne (b :: t) = (some c, n)) :
    charIndicesFrom pos (b :: t) = (pos, pos + n, c) :: charIndicesFrom (pos + n) ((b :: t).drop n) := by
  rw [charIndicesFrom_cons, h]; rfl

/-- The only key is U+FF21 'Ａ' (EF BC A1) with replacement "A". -/
def cexOld : CharsMap :=
  { array := #[243712, 195823, 164028, 7585, 2147483648], normalized := [0x41, 0] }

/-- What the F16 repair fixed: on the grapheme 'Ａ' + U+0301 (combining acute) the old code replaced
    the whole grapheme by the replacement of its shortest prefix key and lost the accent. -/
theorem old_drops_following_characters :
    encodeChars ['Ａ', Char.ofNat 0x301] = [0xEF, 0xBC, 0xA1, 0xCC, 0x81] ∧
    cexOld.prefix [0xEF, 0xBC, 0xA1] = [(3, 0)] ∧
    normalizeOld cexOld 6 [0xEF, 0xBC, 0xA1, 0xCC, 0x81] [(0, 5)] = [0x41] ∧
    normalize cexOld [0xEF, 0xBC, 0xA1, 0xCC, 0x81] [(0, 5)] = [0x41, 0xCC, 0x81] := by
  have hs : slice ([0xEF, 0xBC, 0xA1, 0xCC, 0x81] : Bytes) 0 5 = [0xEF, 0xBC, 0xA1, 0xCC, 0x81] := by decide
  have hd : decodeOne [0x41] = (some 'A', 1) := by decide
  have hcx : chars [0x41] = ['A'] := by
    rw [chars, charIndices, charIndicesFrom_of_decodeOne 0 _ _ _ _ hd]
    simp [charIndicesFrom_nil]
  have hA : encodeChars ['A'] = [0x41] := by decide
  refine ⟨by decide, by decide, ?_, ?_⟩
  · have ht : transformOld cexOld [0xEF, 0xBC, 0xA1, 0xCC, 0x81] = some [0x41] := by decide
    simp only [normalizeOld, List.flatMap_cons, List.flatMap_nil, List.append_nil, hs, List.length_cons,
      List.length_nil, Nat.reduceAdd, Nat.reduceLT, if_true, ht, hcx, hA]
  · have ht1 : cexOld.transform [0xEF, 0xBC, 0xA1, 0xCC, 0x81] = some (3, [0x41]) := by decide
    have ht2 : cexOld.transform [0xCC, 0x81] = none := by decide
    have hd2 : decodeOne [0xCC, 0x81] = (some (Char.ofNat 0x301), 2) := by decide
    have he2 : encodeChar (Char.ofNat 0x301) = [0xCC, 0x81] := by decide
    simp only [normalize, List.flatMap_cons, List.flatMap_nil, List.append_nil, hs, normalizeGrapheme]
    rw [normalizeRest_succ _ _ _ (by simp), ht1]
    simp only [hcx, hA, List.drop_succ_cons, List.drop_zero, List.length_cons, List.length_nil]
    rw [normalizeRest_succ _ _ _ (by simp), ht2]
    simp only [hd2, Option.getD_some, he2, List.drop_succ_cons, List.drop_zero, normalizeRest_nil]
    rfl

/-- The example map satisfies the well-formedness hypothesis of the `hwf` theorems. -/
example : leavesInRange cexOld = true := by decide

end Kitoken.Proofs.CharsMap
