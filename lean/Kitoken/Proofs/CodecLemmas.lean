/-
  Lemmas for C14 (serialization and export of definitions). The proofs live in three files:
  - Kitoken/Proofs/CodecBasic.lean: the codec law `dec (enc x ++ r) = some (x, r)` for every combinator
    of Kitoken.Model.Codec (varints with postcard's byte limits, u32, bool, f32, bytes, str, char, option,
    pair, iso, seq, enum, renamings) and the size lemmas (every part of an encoding is no longer than
    the whole; a sequence has no more elements than bytes);
  - Kitoken/Proofs/CodecDef.lean: the law for every type of the definition format, `Normalization`
    by structural induction with fuel, Lean strings versus their UTF-8 bytes, then
    `definition_roundtrip`, `fromSlice_toVec`, `fromSlice_checks`;
  - Kitoken/Proofs/CodecExport.lean: a stable merge sort of any reordering of a pairwise strictly sorted
    list returns the list (`mergeSort_eq_of_strictlySorted`; no transitivity or totality of the
    comparison is needed — the order of special tokens is not transitive in the presence of NaN
    scores), and `export_canonical`.
  This file only gathers them under the namespace `Kitoken.Proofs.Codec`. Core Lean only.
-/
import Kitoken.Proofs.CodecDef
import Kitoken.Proofs.CodecExport
