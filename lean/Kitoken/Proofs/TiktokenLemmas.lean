/-
  Lemmas for C15 (continued): the Tiktoken text format — base64, decimal ids, lines.
-/
import Kitoken.Model.Tiktoken
namespace Kitoken.Proofs.Tiktoken

open Kitoken Kitoken.Convert

/-! ### base64 alphabet -/

theorem b64Val_b64Char_fin : ∀ n : Fin 64, b64Val (b64Char n.val) = some n.val := by decide +kernel

theorem b64Val_b64Char (n : Nat) (h : n < 64) : b64Val (b64Char n) = some n :=
  b64Val_b64Char_fin ⟨n, h⟩

theorem b64Char_ne_pad_fin : ∀ n : Fin 64, b64Char n.val ≠ 61 := by decide +kernel

theorem b64Char_ne_pad (n : Nat) (h : n < 64) : b64Char n ≠ 61 := b64Char_ne_pad_fin ⟨n, h⟩

theorem b64Val_conv_fin : ∀ c : Fin 256, ∀ n, b64Val (UInt8.ofNat c.val) = some n →
    n < 64 ∧ b64Char n = UInt8.ofNat c.val := by
  decide +kernel

theorem b64Val_conv (c : UInt8) (n : Nat) (h : b64Val c = some n) : n < 64 ∧ b64Char n = c := by
  have := b64Val_conv_fin ⟨c.toNat, c.toNat_lt⟩ n
  simp only [UInt8.ofNat_toNat] at this
  exact this h

theorem b64Val_pad : b64Val 61 = none := by decide +kernel

/-! ### base64 round trip -/

theorem ofNat_toNat_eq (a : UInt8) (n : Nat) (h : n = a.toNat) : UInt8.ofNat n = a := by
  subst h; exact UInt8.ofNat_toNat

theorem dec1 (a b : UInt8) (x y : Nat) (ha : b64Val a = some x) (hb : b64Val b = some y) :
    base64Decode [a, b, 61, 61] =
      if y % 16 = 0 then some [UInt8.ofNat (x * 4 + y / 16)] else none := by
  rw [base64Decode.eq_2, ha, hb]; simp only [beq_iff_eq]

theorem dec2 (a b c : UInt8) (x y z : Nat) (hc61 : c ≠ 61) (ha : b64Val a = some x) (hb : b64Val b = some y)
    (hc : b64Val c = some z) :
    base64Decode [a, b, c, 61] =
      if z % 4 = 0 then some [UInt8.ofNat (x * 4 + y / 16), UInt8.ofNat (y % 16 * 16 + z / 4)] else none := by
  rw [base64Decode.eq_3 _ _ _ hc61, ha, hb, hc]; simp only [beq_iff_eq]

theorem dec4 (a b c d : UInt8) (rest tail : Bytes) (x y z w : Nat) (hd61 : d ≠ 61)
    (ha : b64Val a = some x) (hb : b64Val b = some y)
    (hc : b64Val c = some z) (hd : b64Val d = some w) (hr : base64Decode rest = some tail) :
    base64Decode (a :: b :: c :: d :: rest) =
      some (UInt8.ofNat (x * 4 + y / 16) :: UInt8.ofNat (y % 16 * 16 + z / 4) :: UInt8.ofNat (z % 4 * 64 + w) :: tail) := by
  rw [base64Decode.eq_4 _ _ _ _ _ (fun _ h _ => hd61 h) (fun h _ => hd61 h), ha, hb, hc, hd, hr]

theorem base64_roundtrip (bs : Bytes) : base64Decode (base64Encode bs) = some bs := by
  fun_induction base64Encode bs with
  | case1 => simp [base64Decode]
  | case2 a =>
    have := a.toNat_lt
    rw [dec1 _ _ _ _ (b64Val_b64Char _ (by omega)) (b64Val_b64Char _ (by omega)), if_pos (by omega)]
    congr 2
    apply ofNat_toNat_eq; omega
  | case3 a b =>
    have := a.toNat_lt
    have := b.toNat_lt
    rw [dec2 _ _ _ _ _ _ (b64Char_ne_pad _ (by omega)) (b64Val_b64Char _ (by omega))
      (b64Val_b64Char _ (by omega)) (b64Val_b64Char _ (by omega)), if_pos (by omega)]
    congr 2
    · apply ofNat_toNat_eq; omega
    · congr 1; apply ofNat_toNat_eq; omega
  | case4 a b c rest ih =>
    have := a.toNat_lt
    have := b.toNat_lt
    have := c.toNat_lt
    rw [dec4 _ _ _ _ _ _ _ _ _ _ (b64Char_ne_pad _ (by omega)) (b64Val_b64Char _ (by omega))
      (b64Val_b64Char _ (by omega)) (b64Val_b64Char _ (by omega)) (b64Val_b64Char _ (by omega)) ih]
    congr 2
    · apply ofNat_toNat_eq; omega
    · congr 1
      · apply ofNat_toNat_eq; omega
      · congr 1; apply ofNat_toNat_eq; omega

theorem toNat_ofNat_lt (n : Nat) (h : n < 256) : (UInt8.ofNat n).toNat = n := by
  simp [UInt8.toNat_ofNat']; omega

theorem base64_decode_canonical (s bs : Bytes) (h : base64Decode s = some bs) : base64Encode bs = s := by
  fun_induction base64Decode s generalizing bs with
  | case1 => simp at h; subst h; simp [base64Encode]
  | case2 a b x y hb ha hy =>
    simp only [Option.some.injEq] at h
    subst h
    obtain ⟨hx, rfl⟩ := b64Val_conv _ _ ha
    obtain ⟨hy', rfl⟩ := b64Val_conv _ _ hb
    simp only [beq_iff_eq] at hy
    simp only [base64Encode]
    rw [toNat_ofNat_lt _ (by omega)]
    repeat (first | rfl | refine congr (congrArg List.cons (congrArg b64Char (by omega))) ?_)
  | case3 => simp at h
  | case4 => simp at h
  | case5 a b c hc x y z hcz hb ha hz =>
    simp only [Option.some.injEq] at h
    subst h
    obtain ⟨hx, rfl⟩ := b64Val_conv _ _ ha
    obtain ⟨hy', rfl⟩ := b64Val_conv _ _ hb
    obtain ⟨hz', rfl⟩ := b64Val_conv _ _ hcz
    simp only [beq_iff_eq] at hz
    simp only [base64Encode]
    rw [toNat_ofNat_lt _ (by omega), toNat_ofNat_lt _ (by omega)]
    repeat (first | rfl | refine congr (congrArg List.cons (congrArg b64Char (by omega))) ?_)
  | case6 => simp at h
  | case7 => simp at h
  | case8 a b c d rest h1 h2 x y z w tail hr hd hc hb ha ih =>
    simp only [Option.some.injEq] at h
    subst h
    obtain ⟨hx, rfl⟩ := b64Val_conv _ _ ha
    obtain ⟨hy', rfl⟩ := b64Val_conv _ _ hb
    obtain ⟨hz', rfl⟩ := b64Val_conv _ _ hc
    obtain ⟨hw', rfl⟩ := b64Val_conv _ _ hd
    simp only [base64Encode]
    rw [toNat_ofNat_lt _ (by omega), toNat_ofNat_lt _ (by omega), toNat_ofNat_lt _ (by omega), ih _ hr]
    repeat (first | rfl | refine congr (congrArg List.cons (congrArg b64Char (by omega))) ?_)
  | case9 => simp at h
  | case10 => simp at h

/-! ### decimal ids -/

def isDigitB (b : UInt8) : Prop := 48 ≤ b.toNat ∧ b.toNat ≤ 57

theorem digit_of_char (c : Char) (h : c.isDigit = true) :
    (UInt8.ofNat c.toNat).toNat = c.toNat ∧ 48 ≤ c.toNat ∧ c.toNat ≤ 57 := by
  have h' : 48 ≤ c.toNat ∧ c.toNat ≤ 57 := by
    simp only [Char.isDigit, ge_iff_le, Bool.and_eq_true, decide_eq_true_eq, UInt32.le_iff_toNat_le] at h
    exact h
  refine ⟨?_, h'⟩
  apply toNat_ofNat_lt; omega

theorem digitsVal_map (l : List Char) (hl : ∀ c ∈ l, c.isDigit = true) (acc : Nat) :
    digitsVal (l.map fun c => UInt8.ofNat c.toNat) acc = some (Nat.ofDigitChars 10 l acc) := by
  induction l generalizing acc with
  | nil => simp [digitsVal]
  | cons c cs ih =>
    obtain ⟨h1, h2, h3⟩ := digit_of_char c (hl c (by simp))
    simp only [List.map_cons, digitsVal, Nat.ofDigitChars_cons]
    rw [if_pos]
    · rw [ih (fun c hc => hl c (by simp [hc])), h1]
      congr 2; simp; omega
    · simp only [UInt8.le_iff_toNat_le, Bool.and_eq_true, decide_eq_true_eq, h1]
      exact ⟨h2, h3⟩

theorem natDigits_digits (n : Nat) : ∀ b ∈ natDigits n, isDigitB b := by
  intro b hb
  simp only [natDigits, List.mem_map] at hb
  obtain ⟨c, hc, rfl⟩ := hb
  obtain ⟨h1, h2, h3⟩ := digit_of_char c (Nat.isDigit_of_mem_toDigits (by decide) (by decide) hc)
  exact ⟨by omega, by omega⟩

theorem natDigits_ne_nil (n : Nat) : natDigits n ≠ [] := by
  simp [natDigits]

theorem digitsVal_natDigits (n : Nat) : digitsVal (natDigits n) 0 = some n := by
  rw [natDigits, digitsVal_map _ (fun c hc => Nat.isDigit_of_mem_toDigits (by decide) (by decide) hc)]
  simp

theorem parseU32_of_digits (s : Bytes) (n : Nat) (hne : s ≠ []) (hall : ∀ b ∈ s, isDigitB b)
    (hv : digitsVal s 0 = some n) :
    parseU32 s = if n < 4294967296 then some (UInt32.ofNat n) else none := by
  match s, hne with
  | d :: ds, _ =>
    have hd : d ≠ 43 := by
      intro h; have := (hall d (by simp)).1; rw [h] at this; simp at this
    unfold parseU32
    split
    · rename_i heq; simp at heq; exact absurd heq.1 hd
    · simp [hv]

theorem parseU32_digits (n : Nat) (h : n < 4294967296) : parseU32 (natDigits n) = some (UInt32.ofNat n) := by
  rw [parseU32_of_digits _ n (natDigits_ne_nil n) (natDigits_digits n) (digitsVal_natDigits n), if_pos h]

theorem parseU32_overflow_rejected (n : Nat) (h : 4294967296 ≤ n) : parseU32 (natDigits n) = none := by
  rw [parseU32_of_digits _ n (natDigits_ne_nil n) (natDigits_digits n) (digitsVal_natDigits n), if_neg (by omega)]

/-! ### ASCII is valid UTF-8 -/

theorem validUtf8_go_ascii (fuel : Nat) (l : Bytes) (hf : l.length ≤ fuel) (hl : ∀ b ∈ l, b ≤ 0x7F) :
    validUtf8.go fuel l = true := by
  induction fuel generalizing l with
  | zero =>
    cases l with
    | nil => simp [validUtf8.go]
    | cons x xs => simp at hf
  | succ f ih =>
    cases l with
    | nil => simp [validUtf8.go]
    | cons x xs =>
      have hx : x ≤ 0x7F := hl x (by simp)
      have hd : Utf8.decodeOne (x :: xs) = (some (Char.ofNat x.toNat), 1) := by
        simp only [Utf8.decodeOne, if_pos hx]
      simp only [validUtf8.go, hd, List.drop_succ_cons, List.drop_zero]
      exact ih xs (by simpa using hf) (fun b hb => hl b (by simp [hb]))

theorem validUtf8_ascii (l : Bytes) (hl : ∀ b ∈ l, b ≤ 0x7F) : validUtf8 l = true :=
  validUtf8_go_ascii _ l (Nat.le_refl _) hl

theorem validUtf8_natDigits (n : Nat) : validUtf8 (natDigits n) = true := by
  apply validUtf8_ascii
  intro b hb
  have := natDigits_digits n b hb
  rw [UInt8.le_iff_toNat_le]
  have := this.2
  simp; omega

/-! ### rendered lines -/

/-- Bytes that cannot be mistaken for a separator. -/
def plain (b : UInt8) : Prop := b ≠ 10 ∧ b ≠ 13 ∧ b ≠ 32

theorem plain_47 : plain 47 := by unfold plain; decide
theorem plain_61 : plain 61 := by unfold plain; decide

theorem b64Char_plain_fin : ∀ n : Fin 64, b64Char n.val ≠ 10 ∧ b64Char n.val ≠ 13 ∧ b64Char n.val ≠ 32 := by
  decide +kernel

theorem b64Char_plain (n : Nat) : plain (b64Char n) := by
  by_cases h : n < 64
  · exact b64Char_plain_fin ⟨n, h⟩
  · have : b64Char n = 47 := by
      rw [b64Char, if_neg (by omega), if_neg (by omega), if_neg (by omega), if_neg (by omega)]
    rw [this]; exact plain_47

theorem base64Encode_plain (bs : Bytes) : ∀ b ∈ base64Encode bs, plain b := by
  fun_induction base64Encode bs with
  | case1 => simp
  | case2 a =>
    intro b hb
    simp only [List.mem_cons, List.not_mem_nil, or_false] at hb
    rcases hb with rfl | rfl | rfl | rfl
    · exact b64Char_plain _
    · exact b64Char_plain _
    · exact plain_61
    · exact plain_61
  | case3 a b =>
    intro x hb
    simp only [List.mem_cons, List.not_mem_nil, or_false] at hb
    rcases hb with rfl | rfl | rfl | rfl
    · exact b64Char_plain _
    · exact b64Char_plain _
    · exact b64Char_plain _
    · exact plain_61
  | case4 a b c rest ih =>
    intro x hb
    simp only [List.mem_cons] at hb
    rcases hb with rfl | rfl | rfl | rfl | hb
    · exact b64Char_plain _
    · exact b64Char_plain _
    · exact b64Char_plain _
    · exact b64Char_plain _
    · exact ih x hb

theorem digit_ne (b : UInt8) (h : isDigitB b) : b ≠ 10 ∧ b ≠ 13 ∧ b ≠ 32 := by
  refine ⟨?_, ?_, ?_⟩ <;> (intro e; have := h.1; rw [e] at this; simp at this)

/-- The text of one entry without its line feed. -/
def lineOf (e : Bytes × Id) : Bytes := base64Encode e.1 ++ 32 :: natDigits e.2.toNat

theorem renderLine_eq (e : Bytes × Id) : renderLine e = lineOf e ++ [10] := by
  simp [renderLine, lineOf]

theorem lineOf_ne_nil (e : Bytes × Id) : lineOf e ≠ [] := by simp [lineOf]

theorem lineOf_clean (e : Bytes × Id) : ∀ b ∈ lineOf e, b ≠ 10 ∧ b ≠ 13 := by
  intro b hb
  simp only [lineOf, List.mem_append, List.mem_cons] at hb
  rcases hb with hb | rfl | hb
  · have := base64Encode_plain e.1 b hb; exact ⟨this.1, this.2.1⟩
  · decide
  · have := digit_ne b (natDigits_digits _ b hb); exact ⟨this.1, this.2.1⟩

theorem splitOn_ne_nil (sep : UInt8) (l : Bytes) : splitOn sep l ≠ [] := by
  cases l with
  | nil => simp [splitOn]
  | cons b rest =>
    simp only [splitOn]
    split
    · simp
    · split <;> simp

theorem splitOn_append (sep : UInt8) (l rest : Bytes) (hl : sep ∉ l) :
    splitOn sep (l ++ sep :: rest) = l :: splitOn sep rest := by
  induction l with
  | nil => simp [splitOn]
  | cons b bs ih =>
    have hb : b ≠ sep := fun h => hl (by simp [h])
    have hbs : sep ∉ bs := fun h => hl (by simp [h])
    simp only [List.cons_append, splitOn, beq_iff_eq, if_neg hb, ih hbs]

theorem splitOn_render (entries : List (Bytes × Id)) :
    splitOn 10 (renderTiktoken entries) = entries.map lineOf ++ [[]] := by
  induction entries with
  | nil => simp [renderTiktoken, splitOn]
  | cons e es ih =>
    have : renderTiktoken (e :: es) = lineOf e ++ 10 :: renderTiktoken es := by
      simp [renderTiktoken, renderLine_eq]
    rw [this, splitOn_append _ _ _ (fun h => (lineOf_clean e _ h).1 rfl), ih]
    simp

theorem dropWhile_cr_id (l : Bytes) (h : (13 : UInt8) ∉ l) : l.dropWhile (· == 13) = l := by
  cases l with
  | nil => rfl
  | cons x xs =>
    have : x ≠ 13 := fun e => h (by simp [e])
    simp [this]

theorem trimCR_id (l : Bytes) (h : (13 : UInt8) ∉ l) : trimCR l = l := by
  unfold trimCR
  rw [dropWhile_cr_id l h, dropWhile_cr_id l.reverse (by simpa using h), List.reverse_reverse]

theorem lines_render (entries : List (Bytes × Id)) : lines (renderTiktoken entries) = entries.map lineOf := by
  rw [lines, splitOn_render]
  induction entries with
  | nil => simp [trimCR]
  | cons e es ih =>
    have h13 : (13 : UInt8) ∉ lineOf e := fun h => (lineOf_clean e _ h).2 rfl
    have hne := lineOf_ne_nil e
    simp only [List.map_cons, List.cons_append, trimCR_id _ h13, List.filter_cons]
    rw [if_pos (by cases hl : lineOf e with | nil => exact absurd hl hne | cons _ _ => rfl), ih]

theorem splitOnceSpace_append (l r : Bytes) (hl : (32 : UInt8) ∉ l) :
    splitOnceSpace (l ++ 32 :: r) = some (l, r) := by
  induction l with
  | nil => simp [splitOnceSpace]
  | cons b bs ih =>
    have hb : b ≠ 32 := fun h => hl (by simp [h])
    have hbs : (32 : UInt8) ∉ bs := fun h => hl (by simp [h])
    simp only [List.cons_append, splitOnceSpace, beq_iff_eq, if_neg hb, ih hbs, Option.map_some]

theorem parseLine_lineOf (e : Bytes × Id) : parseLine (lineOf e) = some e := by
  have hsp : (32 : UInt8) ∉ base64Encode e.1 := fun h => (base64Encode_plain e.1 _ h).2.2 rfl
  have hlt : e.2.toNat < 4294967296 := e.2.toNat_lt
  simp only [parseLine, lineOf, splitOnceSpace_append _ _ hsp, base64_roundtrip, validUtf8_natDigits,
    if_true, parseU32_digits _ hlt, UInt32.ofNat_toNat]

theorem mapM_map_some {α β : Type} (f : α → Option β) (g : β → α) (l : List β) (h : ∀ x ∈ l, f (g x) = some x) :
    (l.map g).mapM f = some l := by
  induction l with
  | nil => simp
  | cons x xs ih =>
    simp only [List.map_cons, List.mapM_cons, h x (by simp), ih (fun y hy => h y (by simp [hy]))]
    rfl

theorem parseTiktoken_render (entries : List (Bytes × Id)) : parseTiktoken (renderTiktoken entries) = some entries := by
  rw [parseTiktoken, lines_render]
  exact mapM_map_some _ _ _ (fun e _ => parseLine_lineOf e)

theorem tiktoken_text_keeps (entries : List (Bytes × Id)) :
    (loadTiktoken (renderTiktoken entries)).map (·.vocab) = some (entries.map fun e => (e.2, e.1)) := by
  simp [loadTiktoken, parseTiktoken_render, convertTiktoken]

/-! ### lines of arbitrary input -/

theorem splitOn_no_sep (sep : UInt8) (data : Bytes) : ∀ c ∈ splitOn sep data, sep ∉ c := by
  induction data with
  | nil => simp [splitOn]
  | cons b rest ih =>
    intro c hc
    simp only [splitOn] at hc
    split at hc
    · simp only [List.mem_cons] at hc
      rcases hc with rfl | hc
      · simp
      · exact ih c hc
    · rename_i hb
      have hb' : b ≠ sep := by simpa using hb
      split at hc
      · rename_i l ls heq
        simp only [List.mem_cons] at hc
        rcases hc with rfl | hc
        · have := ih l (by simp [heq])
          simp only [List.mem_cons, not_or]
          exact ⟨fun e => hb' e.symm, this⟩
        · exact ih c (by simp [heq, hc])
      · simp only [List.mem_cons, List.not_mem_nil, or_false] at hc
        subst hc
        simp only [List.mem_cons, List.not_mem_nil, or_false]
        exact fun e => hb' e.symm

theorem getLast?_dropWhile {α : Type} (p : α → Bool) (l : List α) (x : α)
    (h : (l.dropWhile p).getLast? = some x) : l.getLast? = some x := by
  have hs := List.dropWhile_suffix (l := l) p
  have hne : l.dropWhile p ≠ [] := by intro e; rw [e] at h; simp at h
  have := hs.getLast hne
  rw [List.getLast?_eq_some_getLast hne] at h
  have hne' : l ≠ [] := by intro e; rw [e] at hne; simp at hne
  rw [List.getLast?_eq_some_getLast hne', ← h, this]

theorem trimCR_sublist (l : Bytes) : (trimCR l).Sublist l := by
  unfold trimCR
  have h1 := List.dropWhile_sublist (l := l) (· == 13)
  have h2 := List.dropWhile_sublist (l := (l.dropWhile (· == 13)).reverse) (· == 13)
  have h3 := h2.reverse
  rw [List.reverse_reverse] at h3
  exact h3.trans h1

theorem trimCR_head (l : Bytes) : (trimCR l).head? ≠ some 13 := by
  unfold trimCR
  rw [List.head?_reverse]
  intro h
  have := getLast?_dropWhile _ _ _ h
  rw [List.getLast?_reverse] at this
  have h2 := List.head?_dropWhile_not (· == 13) l
  rw [this] at h2
  simp at h2

theorem trimCR_last (l : Bytes) : (trimCR l).getLast? ≠ some 13 := by
  unfold trimCR
  rw [List.getLast?_reverse]
  intro h
  have h2 := List.head?_dropWhile_not (· == 13) (l.dropWhile (· == 13)).reverse
  rw [h] at h2
  simp at h2

theorem lines_clean (data : Bytes) :
    ∀ l ∈ lines data, l ≠ [] ∧ (10 : UInt8) ∉ l ∧ l.head? ≠ some 13 ∧ l.getLast? ≠ some 13 := by
  intro l hl
  simp only [lines, List.mem_filter, List.mem_map] at hl
  obtain ⟨⟨c, hc, rfl⟩, hne⟩ := hl
  refine ⟨?_, ?_, trimCR_head c, trimCR_last c⟩
  · intro e; rw [e] at hne; simp at hne
  · intro h
    exact splitOn_no_sep 10 data c hc ((trimCR_sublist c).subset h)

end Kitoken.Proofs.Tiktoken
