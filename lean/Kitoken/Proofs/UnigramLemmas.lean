/-
  Helper lemmas for C04 (Unigram / Viterbi).

  Part 1  offset lemmas: everything `innerLoop`/`outerLoop`/`mergeParts` do on `pre ++ cur` at
          `start = pre.length` is `pre ++` (the same on `cur` at `start = 0`).
  Part 2  `innerLoop` case analysis; fixed-point characterisation of `mergeParts` at offset 0.
  Part 3  `UnitBounds` in index form (`BInfo`); the per-node invariant after `mergeParts` (`Merged`).
  Part 4  `backWalk` step lemma, hole step, offset lemma for `backWalk`, `encodeUnigramBody`,
          `encodeUnigram` (`Offs`: results are `lift pre res0` of the run on empty scratch state).
  Part 5  the back-walk renders a walk (`backWalk_walk`) ⇒ `unigram_walk`.
  Part 6  optimality: `innerLoop_opt`, segmentations (snoc decomposition), predecessor `Chain`,
          the Viterbi invariant (`viterbi_inv`) under an abstract restart discipline (`Restart`)
          ⇒ `viterbi_optimal_core` ⇒ `viterbi_optimal_partial` (plain cost, `BoundedCost`) and
          `viterbi_optimal` (`Tainted S`, unconditional); `cost_unbroken`.
  Part 7  concrete instances over `Int`: non-vacuity of the hypotheses; `sentinel_counterexample`;
          `repaired_example` over `Tainted Int`.
-/
import Kitoken.Spec.Unigram
namespace Kitoken.Proofs.Unigram

open Kitoken Kitoken.Unigram Kitoken.Spec

variable {S : Type} [Cost S] [Inhabited S]

set_option linter.unusedSectionVars false

/-! ## Part 1: offset lemmas -/

/-- Re-base a result computed on an empty scratch buffer / empty result list. -/
def lift (pre : List (SizedPart S)) (res0 : List Id) : Res (Scratch S) → Res (Scratch S)
  | .ok (b, r) => .ok (pre ++ b, res0 ++ r)
  | .err e => .err e
  | .panic p => .panic p

/-- A `UniFn` only appends to the scratch buffer and to the results, and what it appends does not
    depend on what was there. -/
def Offs (f : UniFn S) : Prop :=
  ∀ piece pre res0 idx, f piece pre res0 idx = lift pre res0 (f piece [] [] idx)

omit [Cost S] [Inhabited S] in
theorem getD_append_add (pre cur : List (SizedPart S)) (n : Nat) (d : SizedPart S) :
    (pre ++ cur).getD (pre.length + n) d = cur.getD n d := by
  simp [List.getD_eq_getElem?_getD, List.getElem?_append_right]

theorem innerLoop_offs (c : UniCtx S) (piece : Bytes) (pre cur : List (SizedPart S))
    (se e m : Nat) (x : SizedPart S) :
    innerLoop c piece (pre ++ cur) pre.length (pre.length + se) e m x
      = innerLoop c piece cur 0 se e m x := by
  induction m generalizing x with
  | zero => simp [innerLoop]
  | succ m ih =>
    simp only [innerLoop, getD_append_add, Nat.zero_add]
    have : pre.length + se - (pre.length + m) = se - m := by omega
    simp only [this]
    split
    · rfl
    · split
      · split <;> simp [ih]
      · exact ih _

theorem outerLoop_offs (c : UniCtx S) (piece : Bytes) (pre cur : List (SizedPart S)) (L : List Nat) :
    outerLoop c piece pre.length (L.map (pre.length + ·)) (pre ++ cur)
      = pre ++ outerLoop c piece 0 L cur := by
  induction L generalizing cur with
  | nil => simp [outerLoop]
  | cons a L ih =>
    simp only [List.map_cons, outerLoop, getD_append_add]
    have h1 : pre.length + a - pre.length = a - 0 := by omega
    have h2 : (pre ++ cur).set (pre.length + a)
        (innerLoop c piece (pre ++ cur) pre.length (pre.length + a) (cur.getD a default).start (a - 0)
          { (cur.getD a default) with score := Cost.big })
        = pre ++ cur.set a (innerLoop c piece cur 0 a (cur.getD a default).start (a - 0)
          { (cur.getD a default) with score := Cost.big }) := by
      rw [innerLoop_offs]
      simp
    rw [h1, h2, ih]

theorem mergeParts_offs (c : UniCtx S) (piece : Bytes) (pre cur : List (SizedPart S)) :
    mergeParts c piece (pre ++ cur) pre.length = pre ++ mergeParts c piece cur 0 := by
  unfold mergeParts
  have : List.range' (pre.length + 1) ((pre ++ cur).length - (pre.length + 1))
      = (List.range' (0 + 1) (cur.length - (0 + 1))).map (pre.length + ·) := by
    simp [List.map_add_range']
    omega
  rw [this, outerLoop_offs]

/-! ## Part 2: `innerLoop` / `mergeParts` at offset 0 -/

/-- `innerLoop` with `m` candidates only reads the buffer below `m`. -/
theorem innerLoop_congr (c : UniCtx S) (piece : Bytes) (buf buf' : List (SizedPart S))
    (se e m : Nat) (x : SizedPart S)
    (h : ∀ i, i < m → buf.getD i default = buf'.getD i default) :
    innerLoop c piece buf 0 se e m x = innerLoop c piece buf' 0 se e m x := by
  induction m generalizing x with
  | zero => simp [innerLoop]
  | succ m ih =>
    have hm := h m (by omega)
    have ih' := fun x => ih x (fun i hi => h i (by omega))
    simp only [innerLoop, Nat.zero_add, hm, ih']

/-- What `innerLoop` can return: the start never changes, and either nothing was found or the node
    points to some candidate `i < m` at which a vocabulary entry starts. -/
theorem innerLoop_cases (c : UniCtx S) (piece : Bytes) (buf : List (SizedPart S))
    (se e m : Nat) (x : SizedPart S) :
    (innerLoop c piece buf 0 se e m x).start = x.start ∧
    (innerLoop c piece buf 0 se e m x = x ∨
      ∃ i, i < m ∧ ∃ sc, c.tok (slice piece (buf.getD i default).start e)
          = some ((innerLoop c piece buf 0 se e m x).token, sc) ∧
        (innerLoop c piece buf 0 se e m x).width = se - i ∧
        (innerLoop c piece buf 0 se e m x).score = Cost.sub (buf.getD i default).score sc) := by
  induction m generalizing x with
  | zero => simp [innerLoop]
  | succ m ih =>
    simp only [innerLoop, Nat.zero_add]
    split
    · simp
    · split
      next id sc heq =>
        split
        · have := ih { x with score := Cost.sub (buf.getD m default).score sc, width := se - m, token := id }
          obtain ⟨h1, h2⟩ := this
          refine ⟨by simpa using h1, Or.inr ?_⟩
          rcases h2 with h2 | ⟨i, hi, sc', h3⟩
          · refine ⟨m, by omega, sc, ?_⟩
            rw [h2]; exact ⟨heq, rfl, rfl⟩
          · exact ⟨i, by omega, sc', h3⟩
        · obtain ⟨h1, h2⟩ := ih x
          refine ⟨h1, ?_⟩
          rcases h2 with h2 | ⟨i, hi, h3⟩
          · exact Or.inl h2
          · exact Or.inr ⟨i, by omega, h3⟩
      · obtain ⟨h1, h2⟩ := ih x
        refine ⟨h1, ?_⟩
        rcases h2 with h2 | ⟨i, hi, h3⟩
        · exact Or.inl h2
        · exact Or.inr ⟨i, by omega, h3⟩

/-- If the node is still unset after `innerLoop`, no candidate carries a vocabulary entry. The
    pruning `break` loses nothing: candidate starts decrease and entries are at most `maxTok` long. -/
theorem innerLoop_invalid (c : UniCtx S) (piece : Bytes) (buf : List (SizedPart S))
    (se e m : Nat) (x : SizedPart S)
    (hid : ∀ b id sc, c.tok b = some (id, sc) → id ≠ INVALID)
    (hmono : ∀ i i', i ≤ i' → i' < m → (buf.getD i default).start ≤ (buf.getD i' default).start)
    (hwin : ∀ i, i < m → ∀ p, c.tok (slice piece (buf.getD i default).start e) = some p →
      e - (buf.getD i default).start ≤ c.maxTok)
    (hinv : (innerLoop c piece buf 0 se e m x).token = INVALID) :
    innerLoop c piece buf 0 se e m x = x ∧
      ∀ i, i < m → c.tok (slice piece (buf.getD i default).start e) = none := by
  induction m generalizing x with
  | zero => simp [innerLoop]
  | succ m ih =>
    have hmono' : ∀ i i', i ≤ i' → i' < m → (buf.getD i default).start ≤ (buf.getD i' default).start :=
      fun i i' h1 h2 => hmono i i' h1 (by omega)
    have hwin' : ∀ i, i < m → ∀ p, c.tok (slice piece (buf.getD i default).start e) = some p →
        e - (buf.getD i default).start ≤ c.maxTok := fun i hi => hwin i (by omega)
    simp only [innerLoop, Nat.zero_add] at hinv ⊢
    split at hinv
    next hbreak =>
      rw [if_pos hbreak]
      refine ⟨rfl, fun i hi => ?_⟩
      cases hto : c.tok (slice piece (buf.getD i default).start e) with
      | none => rfl
      | some p =>
        have h1 := hwin i hi p hto
        have h2 := hmono i m (by omega) (by omega)
        omega
    next hbreak =>
      rw [if_neg hbreak]
      split at hinv
      next id sc heq =>
        split at hinv
        next hc =>
          exfalso
          have := (ih _ hmono' hwin' hinv).1
          rw [this] at hinv
          exact hid _ _ _ heq hinv
        next hc =>
          exfalso
          have := (ih _ hmono' hwin' hinv).1
          rw [this] at hinv
          simp [hinv] at hc
      next heq =>
        obtain ⟨h1, h2⟩ := ih _ hmono' hwin' hinv
        refine ⟨h1, fun i hi => ?_⟩
        by_cases him : i = m
        · subst him; exact heq
        · exact h2 i (by omega)

theorem outerLoop_spec (c : UniCtx S) (piece : Bytes) (cnt j : Nat) (buf : List (SizedPart S))
    (hlen : j + cnt ≤ buf.length) :
    (outerLoop c piece 0 (List.range' j cnt) buf).length = buf.length ∧
    (∀ k, k < j → (outerLoop c piece 0 (List.range' j cnt) buf).getD k default = buf.getD k default) ∧
    (∀ a, j ≤ a → a < j + cnt →
      (outerLoop c piece 0 (List.range' j cnt) buf).getD a default
        = innerLoop c piece (outerLoop c piece 0 (List.range' j cnt) buf) 0 a (buf.getD a default).start a
            { (buf.getD a default) with score := Cost.big }) := by
  induction cnt generalizing j buf with
  | zero => simp [outerLoop]; intros; omega
  | succ cnt ih =>
    simp only [List.range'_succ, outerLoop, Nat.sub_zero]
    generalize hv : innerLoop c piece buf 0 j (buf.getD j default).start j
      { (buf.getD j default) with score := Cost.big } = v
    obtain ⟨h1, h2, h3⟩ := ih (j + 1) (buf.set j v) (by simp; omega)
    generalize hF : outerLoop c piece 0 (List.range' (j + 1) cnt) (buf.set j v) = F at h1 h2 h3
    have hset : ∀ k, k ≠ j → (buf.set j v).getD k default = buf.getD k default := by
      intro k hk; simp [Ne.symm hk]
    have hsetj : (buf.set j v).getD j default = v := by
      have : j < buf.length := by omega
      simp [this]
    refine ⟨by simpa using h1, fun k hk => ?_, fun a ha1 ha2 => ?_⟩
    · rw [h2 k (by omega), hset k (by omega)]
    · by_cases haj : a = j
      · subst haj
        rw [h2 a (by omega), hsetj, ← hv]
        apply innerLoop_congr
        intro i hi
        rw [h2 i (by omega), hset i (by omega)]
      · rw [h3 a (by omega) (by omega), hset a haj]

/-- Fixed-point characterisation of `mergeParts` at offset 0. -/
theorem mergeParts_spec (c : UniCtx S) (piece : Bytes) (cur : List (SizedPart S)) :
    (mergeParts c piece cur 0).length = cur.length ∧
    (mergeParts c piece cur 0).getD 0 default = cur.getD 0 default ∧
    (∀ a, 1 ≤ a → a < cur.length →
      (mergeParts c piece cur 0).getD a default
        = innerLoop c piece (mergeParts c piece cur 0) 0 a (cur.getD a default).start a
            { (cur.getD a default) with score := Cost.big }) := by
  unfold mergeParts
  by_cases hl : cur.length = 0
  · have : cur = [] := List.eq_nil_of_length_eq_zero hl
    subst this
    simp [outerLoop]
  · obtain ⟨h1, h2, h3⟩ := outerLoop_spec c piece (cur.length - (0 + 1)) (0 + 1) cur (by omega)
    exact ⟨h1, h2 0 (by omega), fun a ha1 ha2 => h3 a (by omega) (by omega)⟩

/-! ## Part 3: unit boundaries and the state of the buffer after `mergeParts` -/

theorem unitBounds_pairwise {len : Nat} : ∀ (B : List Nat), UnitBounds len B →
    B.Pairwise (· < ·) ∧ (∀ x ∈ B, x ≤ len) ∧ B ≠ []
  | [], h => by simp [UnitBounds] at h
  | [a], h => by simp [UnitBounds] at h; simp [h]
  | a :: b :: rest, h => by
    simp only [UnitBounds] at h
    obtain ⟨h1, h2⟩ := h
    obtain ⟨p, q, _⟩ := unitBounds_pairwise (b :: rest) h2
    refine ⟨?_, ?_, by simp⟩
    · rw [List.pairwise_cons]
      refine ⟨fun x hx => ?_, p⟩
      rw [List.pairwise_cons] at p
      rcases List.mem_cons.1 hx with hx | hx
      · omega
      · have := p.1 x hx; omega
    · intro x hx
      rcases List.mem_cons.1 hx with hx | hx
      · have := q b (by simp); omega
      · exact q x hx

/-- Index form of `UnitBounds`. -/
structure BInfo (len : Nat) (B : List Nat) : Prop where
  lt : ∀ i j, i < j → j < B.length → B.getD i 0 < B.getD j 0
  le_len : ∀ i, i < B.length → B.getD i 0 ≤ len
  pos : 0 < B.length

theorem BInfo.of_unitBounds {len : Nat} {B : List Nat} (h : UnitBounds len B) : BInfo len B := by
  obtain ⟨p, q, r⟩ := unitBounds_pairwise B h
  refine ⟨fun i j hij hj => ?_, fun i hi => ?_, List.length_pos_iff.2 r⟩
  · have hi : i < B.length := by omega
    have := (List.pairwise_iff_getElem.1 p) i j hi hj hij
    simpa [hi, hj] using this
  · have := q B[i] (List.getElem_mem hi)
    simpa [hi] using this

theorem BInfo.le {len : Nat} {B : List Nat} (h : BInfo len B) (i j : Nat) (hij : i ≤ j)
    (hj : j < B.length) : B.getD i 0 ≤ B.getD j 0 := by
  rcases Nat.lt_or_eq_of_le hij with h1 | h1
  · exact Nat.le_of_lt (h.lt i j h1 hj)
  · subst h1; exact Nat.le_refl _

theorem BInfo.lt_of_lt {len : Nat} {B : List Nat} (h : BInfo len B) (i j : Nat)
    (hi : i < B.length) (_hj : j < B.length) (hlt : B.getD i 0 < B.getD j 0) : i < j := by
  rcases Nat.lt_or_ge i j with h1 | h1
  · exact h1
  · have := h.le j i h1 hi; omega

theorem mem_getD {B : List Nat} {x : Nat} (hx : x ∈ B) : ∃ i, i < B.length ∧ x = B.getD i 0 := by
  obtain ⟨i, hi, rfl⟩ := List.getElem_of_mem hx
  exact ⟨i, hi, by simp [hi]⟩

theorem getD_mem {B : List Nat} {i : Nat} (hi : i < B.length) : B.getD i 0 ∈ B := by
  simp [hi]

/-- The fresh node pushed for a boundary. -/
def fresh (i : Nat) : SizedPart S := { start := i, width := 1, score := Cost.zero, token := INVALID }

theorem getD_map_fresh (B : List Nat) (j : Nat) (hj : j < B.length) :
    (B.map (fresh (S := S))).getD j default = fresh (B.getD j 0) := by
  simp [hj]

/-- State of the (offset 0) buffer `F` after `mergeParts` on the fresh nodes of the boundaries `B`. -/
structure Merged (c : UniCtx S) (piece : Bytes) (B : List Nat) (F : List (SizedPart S)) : Prop where
  len : F.length = B.length
  start : ∀ j, j < B.length → (F.getD j default).start = B.getD j 0
  zero : F.getD 0 default = fresh (B.getD 0 0)
  unset : ∀ j, 1 ≤ j → j < B.length → (F.getD j default).token = INVALID →
    (F.getD j default).width = 1 ∧ (F.getD j default).score = Cost.big ∧
      ∀ i, i < j → c.tok (slice piece (B.getD i 0) (B.getD j 0)) = none
  set : ∀ j, 1 ≤ j → j < B.length → (F.getD j default).token ≠ INVALID →
    ∃ i, i < j ∧ ∃ sc, c.tok (slice piece (B.getD i 0) (B.getD j 0)) = some ((F.getD j default).token, sc) ∧
      (F.getD j default).width = j - i ∧
      (F.getD j default).score = Cost.sub (F.getD i default).score sc

/-- Facts that hold for every input (no hypotheses on vocabulary or boundaries). -/
theorem merged_basic (c : UniCtx S) (piece : Bytes) (B : List Nat) (hB : 0 < B.length) :
    (mergeParts c piece (B.map fresh) 0).length = B.length ∧
    (mergeParts c piece (B.map fresh) 0).getD 0 default = fresh (B.getD 0 0) ∧
    (∀ j, j < B.length → ((mergeParts c piece (B.map fresh) 0).getD j default).start = B.getD j 0) ∧
    (∀ j, 1 ≤ j → j < B.length → 1 ≤ ((mergeParts c piece (B.map fresh) 0).getD j default).width ∧
      ((mergeParts c piece (B.map fresh) 0).getD j default).width ≤ j) := by
  obtain ⟨h1, h2, h3⟩ := mergeParts_spec c piece (B.map fresh)
  simp only [List.length_map] at h1 h3
  rw [getD_map_fresh B 0 hB] at h2
  have hstart : ∀ j, j < B.length →
      ((mergeParts c piece (B.map fresh) 0).getD j default).start = B.getD j 0 := by
    intro j hj
    by_cases hj0 : j = 0
    · subst hj0; rw [h2]; rfl
    · rw [h3 j (by omega) hj, (innerLoop_cases ..).1, getD_map_fresh B j hj]; rfl
  refine ⟨h1, h2, hstart, fun j hj1 hj => ?_⟩
  rw [h3 j hj1 hj]
  rcases (innerLoop_cases c piece (mergeParts c piece (B.map fresh) 0) j
    ((B.map (fresh (S := S))).getD j default).start j
    { ((B.map (fresh (S := S))).getD j default) with score := Cost.big }).2 with h | ⟨i, hi, sc, _, hw, _⟩
  · rw [h, getD_map_fresh B j hj]; simp [fresh]; omega
  · rw [hw]; omega

theorem merged_of (c : UniCtx S) (piece : Bytes) (B : List Nat)
    (hb : BInfo piece.length B)
    (hid : ∀ b id sc, c.tok b = some (id, sc) → id ≠ INVALID)
    (hmax : ∀ b id sc, c.tok b = some (id, sc) → b.length ≤ c.maxTok) :
    Merged c piece B (mergeParts c piece (B.map fresh) 0) := by
  obtain ⟨h1, h2, hstart, hwidth⟩ := merged_basic c piece B hb.pos
  obtain ⟨_, _, h3⟩ := mergeParts_spec c piece (B.map fresh)
  simp only [List.length_map] at h3
  generalize hF : mergeParts c piece (B.map fresh) 0 = F at *
  have hnode : ∀ j, 1 ≤ j → j < B.length →
      F.getD j default = innerLoop c piece F 0 j (B.getD j 0) j
        { (fresh (B.getD j 0) : SizedPart S) with score := Cost.big } := by
    intro j hj1 hj
    rw [h3 j hj1 hj, getD_map_fresh B j hj]; rfl
  refine ⟨h1, hstart, h2, fun j hj1 hj hinv => ?_, fun j hj1 hj hset => ?_⟩
  · rw [hnode j hj1 hj] at hinv ⊢
    obtain ⟨h4, h5⟩ := innerLoop_invalid c piece F j (B.getD j 0) j _ hid
      (fun i i' hii' hi' => by
        rw [hstart i (by omega), hstart i' (by omega)]; exact hb.le i i' hii' (by omega))
      (fun i hi p hp => by
        rw [hstart i (by omega)] at hp ⊢
        have := hmax _ _ _ hp
        rw [slice_length _ _ _ (hb.le_len j hj)] at this
        exact this) hinv
    rw [h4]
    refine ⟨rfl, rfl, fun i hi => ?_⟩
    have := h5 i hi
    rwa [hstart i (by omega)] at this
  · rw [hnode j hj1 hj] at hset ⊢
    rcases (innerLoop_cases c piece F j (B.getD j 0) j
      { (fresh (B.getD j 0) : SizedPart S) with score := Cost.big }).2 with h | ⟨i, hi, sc, h6, h7, h8⟩
    · rw [h] at hset; exact absurd rfl hset
    · refine ⟨i, hi, sc, ?_, h7, h8⟩
      rwa [hstart i (by omega)] at h6

/-! ## Part 4: the hole step, `backWalk`, offset lemmas for the recursion -/

/-- The treatment of a hole inside `backWalk` (the `let r := …` of the model). -/
def holeStep (c : UniCtx S) (fb : List Fallback) (byteRec : Option (UniFn S)) (part : Bytes)
    (buffer : List (SizedPart S)) (result : List Id) : Res (Scratch S) :=
  match byteRec with
  | some rec =>
    match rec part buffer result (List.range part.length) with
    | .ok (buffer', result') =>
      .ok (buffer', result'.take result.length ++ (result'.drop result.length).reverse)
    | other => other
  | none =>
    match fb.head?, c.unknown with
    | some .unknown, some u => .ok (buffer, result ++ [u])
    | some .skip, _ => .ok (buffer, result)
    | _, _ => .err (.invalidPiece part)

theorem backWalk_succ (c : UniCtx S) (fb : List Fallback) (byteRec : Option (UniFn S)) (piece : Bytes)
    (start fuel subEnd : Nat) (buffer : List (SizedPart S)) (result : List Id) :
    backWalk c fb byteRec piece start (fuel + 1) subEnd buffer result =
      if subEnd > start then
        if (buffer.getD subEnd default).token == INVALID then
          match holeStep c fb byteRec
              (slice piece (buffer.getD (subEnd - 1) default).start (buffer.getD subEnd default).start)
              buffer result with
          | .ok (buffer', result') =>
            if (buffer.getD subEnd default).width > subEnd then .panic "encode_unigram: sub_end -= width"
            else backWalk c fb byteRec piece start fuel (subEnd - (buffer.getD subEnd default).width)
              buffer' result'
          | other => other
        else
          if (buffer.getD subEnd default).width > subEnd then .panic "encode_unigram: sub_end -= width"
          else backWalk c fb byteRec piece start fuel (subEnd - (buffer.getD subEnd default).width)
            buffer (result ++ [(buffer.getD subEnd default).token])
      else .ok (buffer, result) := by
  rfl

@[simp] theorem lift_nil (r : Res (Scratch S)) : lift [] [] r = r := by
  cases r with
  | ok a => cases a; simp [lift]
  | err e => rfl
  | panic p => rfl

theorem lift_lift (pre cur : List (SizedPart S)) (res0 res : List Id) (r : Res (Scratch S)) :
    lift pre res0 (lift cur res r) = lift (pre ++ cur) (res0 ++ res) r := by
  cases r with
  | ok a => cases a; simp [lift]
  | err e => rfl
  | panic p => rfl

/-- Every recursion target is offset-independent. -/
def OffsOpt (byteRec : Option (UniFn S)) : Prop := ∀ f, byteRec = some f → Offs f

theorem holeStep_lift (c : UniCtx S) (fb : List Fallback) (byteRec : Option (UniFn S))
    (hrec : OffsOpt byteRec) (part : Bytes) (buffer : List (SizedPart S)) (result : List Id) :
    holeStep c fb byteRec part buffer result = lift buffer result (holeStep c fb byteRec part [] []) := by
  cases byteRec with
  | none =>
    simp only [holeStep]
    split <;> simp [lift]
  | some f =>
    have hf := hrec f rfl
    simp only [holeStep]
    rw [hf part buffer result]
    cases f part [] [] (List.range part.length) with
    | ok a => cases a; simp [lift]
    | err e => simp [lift]
    | panic p => simp [lift]

theorem backWalk_offs (c : UniCtx S) (fb : List Fallback) (byteRec : Option (UniFn S))
    (hrec : OffsOpt byteRec) (piece : Bytes) (pre : List (SizedPart S)) (res0 : List Id)
    (fuel j : Nat) (cur : List (SizedPart S)) (res : List Id)
    (hj : j < cur.length)
    (hw : ∀ k, 1 ≤ k → k ≤ j → (cur.getD k default).width ≤ k) :
    backWalk c fb byteRec piece pre.length fuel (pre.length + j) (pre ++ cur) (res0 ++ res)
      = lift pre res0 (backWalk c fb byteRec piece 0 fuel j cur res) := by
  induction fuel generalizing j cur res with
  | zero => simp [backWalk, lift]
  | succ fuel ih =>
    rw [backWalk_succ, backWalk_succ]
    by_cases hj0 : j = 0
    · subst hj0; simp [lift]
    · have h1 : pre.length + j > pre.length := by omega
      have h2 : j > 0 := by omega
      have h3 : pre.length + j - 1 = pre.length + (j - 1) := by omega
      have hwj := hw j (by omega) (Nat.le_refl _)
      rw [if_pos h1, if_pos h2, h3, getD_append_add, getD_append_add]
      have h4 : ¬ (cur.getD j default).width > pre.length + j := by omega
      have h5 : ¬ (cur.getD j default).width > j := by omega
      have h6 : pre.length + j - (cur.getD j default).width
          = pre.length + (j - (cur.getD j default).width) := by omega
      rw [if_neg h4, if_neg h5, h6]
      split
      · rw [holeStep_lift c fb byteRec hrec _ (pre ++ cur) (res0 ++ res),
          holeStep_lift c fb byteRec hrec _ cur res]
        cases holeStep c fb byteRec
            (slice piece (cur.getD (j - 1) default).start (cur.getD j default).start) [] [] with
        | ok a =>
          obtain ⟨ext, r⟩ := a
          rw [show lift (pre ++ cur) (res0 ++ res) (Res.ok (ext, r))
                = Res.ok (pre ++ (cur ++ ext), res0 ++ (res ++ r)) by simp [lift],
              show lift cur res (Res.ok (ext, r)) = Res.ok (cur ++ ext, res ++ r) from rfl]
          simp only []
          apply ih
          · simp; omega
          · intro k hk1 hk2
            have : k < cur.length := by omega
            have hk := hw k hk1 (by omega)
            simpa [List.getElem?_append_left this] using hk
        | err e => simp [lift]
        | panic p => simp [lift]
      · rw [List.append_assoc]
        exact ih (j - (cur.getD j default).width) cur _ (by omega) (fun k hk1 hk2 => hw k hk1 (by omega))

/-- `encodeUnigramBody` in terms of the boundary list. -/
theorem body_eq (c : UniCtx S) (fb : List Fallback) (byteRec : Option (UniFn S)) (piece : Bytes)
    (buffer : List (SizedPart S)) (result : List Id) (indices : List Nat) :
    encodeUnigramBody c fb byteRec piece buffer result indices =
      match backWalk c fb byteRec piece buffer.length (indices.length + 1) (buffer.length + indices.length)
          (mergeParts c piece (buffer ++ (indices ++ [piece.length]).map fresh) buffer.length) result with
      | .ok (buffer', result') =>
        .ok (buffer', result'.take result.length ++ (result'.drop result.length).reverse)
      | other => other := by
  unfold encodeUnigramBody
  simp only [mergeParts_offs, List.map_append, List.map_cons, List.map_nil, List.append_assoc]
  have hl : (buffer ++ mergeParts c piece (List.map (fresh (S := S)) indices ++ [fresh piece.length]) 0).length - 1
      = buffer.length + indices.length := by
    have := (mergeParts_spec c piece (List.map (fresh (S := S)) indices ++ [fresh piece.length])).1
    simp [this]
  have hl' : buffer.length + indices.length - buffer.length + 1 = indices.length + 1 := by omega
  show (match backWalk c fb byteRec piece buffer.length
      ((buffer ++ mergeParts c piece (List.map (fresh (S := S)) indices ++ [fresh piece.length]) 0).length - 1
        - buffer.length + 1)
      ((buffer ++ mergeParts c piece (List.map (fresh (S := S)) indices ++ [fresh piece.length]) 0).length - 1)
      (buffer ++ mergeParts c piece (List.map (fresh (S := S)) indices ++ [fresh piece.length]) 0) result with
      | .ok (buffer', result') =>
        .ok (buffer', result'.take result.length ++ (result'.drop result.length).reverse)
      | other => other : Res (Scratch S)) = _
  rw [hl, hl']

theorem body_offs (c : UniCtx S) (fb : List Fallback) (byteRec : Option (UniFn S))
    (hrec : OffsOpt byteRec) : Offs (encodeUnigramBody c fb byteRec) := by
  intro piece pre res0 idx
  rw [body_eq, body_eq, mergeParts_offs]
  simp only [List.length_nil, List.nil_append, Nat.zero_add]
  obtain ⟨h1, _, _, h4⟩ := merged_basic c piece (idx ++ [piece.length]) (by simp)
  generalize mergeParts c piece ((idx ++ [piece.length]).map fresh) 0 = M at *
  have hb := backWalk_offs c fb byteRec hrec piece pre res0 (idx.length + 1) idx.length M []
    (by rw [h1]; simp) (fun k hk1 hk2 => (h4 k hk1 (by simp; omega)).2)
  rw [List.append_nil] at hb
  rw [hb]
  cases backWalk c fb byteRec piece 0 (idx.length + 1) idx.length M [] with
  | ok a => cases a; simp [lift]
  | err e => simp [lift]
  | panic p => simp [lift]

theorem encodeUnigram_offs (c : UniCtx S) (fb : List Fallback) : Offs (encodeUnigram c fb) := by
  induction fb with
  | nil => unfold encodeUnigram; exact body_offs c _ none (fun f hf => by cases hf)
  | cons a tail ih =>
    cases a with
    | skip => unfold encodeUnigram; exact body_offs c _ none (fun f hf => by cases hf)
    | unknown => unfold encodeUnigram; exact body_offs c _ none (fun f hf => by cases hf)
    | bytes =>
      unfold encodeUnigram
      exact body_offs c _ _ (fun f hf => by cases hf; exact ih)

/-! ## Part 5: the back-walk renders a walk -/

def renderItem (c : UniCtx S) (fb : List Fallback) : Item → Res (List Id)
  | .entry _ id => .ok [id]
  | .hole b => renderHole c fb b

theorem renderWalk_snoc (c : UniCtx S) (fb : List Fallback) (xs : List Item) (it : Item) :
    renderWalk c fb (xs ++ [it]) =
      match renderItem c fb it with
      | .ok t =>
        (match renderWalk c fb xs with
          | .ok h => .ok (h ++ t)
          | .err e => .err e
          | .panic p => .panic p)
      | .err e => .err e
      | .panic p => .panic p := by
  induction xs with
  | nil =>
    cases it with
    | entry b id => simp [renderWalk, renderItem]
    | hole b =>
      simp only [List.nil_append, renderWalk, renderItem]
      cases renderHole c fb b <;> simp
  | cons x xs ih =>
    simp only [List.cons_append, renderWalk, ih]
    cases renderItem c fb it with
    | ok t =>
      simp only
      cases renderWalk c fb xs with
      | ok h =>
        cases x with
        | entry b id => simp
        | hole b => simp only; cases renderHole c fb b <;> simp
      | err e => simp
      | panic p => simp
    | err e => simp
    | panic p => simp

theorem isWalk_append (tok : Bytes → Option (Id × S)) (piece : Bytes) (B : List Nat)
    (xs ys : List Item) (a m b : Nat) (hmb : m ≤ b)
    (h1 : IsWalk tok piece B a m xs) (h2 : IsWalk tok piece B m b ys) :
    IsWalk tok piece B a b (xs ++ ys) := by
  induction xs generalizing a with
  | nil => simp only [IsWalk] at h1; subst h1; simpa using h2
  | cons x xs ih =>
    cases x with
    | entry bts id =>
      simp only [List.cons_append, IsWalk] at h1 ⊢
      obtain ⟨mid, q1, q2, q3, q4, q5, q6⟩ := h1
      exact ⟨mid, q1, q2, by omega, q4, q5, ih mid q6⟩
    | hole bts =>
      simp only [List.cons_append, IsWalk] at h1 ⊢
      obtain ⟨mid, q1, q2, q3, q4, q5, q6, q7⟩ := h1
      exact ⟨mid, q1, q2, by omega, q4, q5, q6, ih mid q7⟩

/-- The recursion target that `encodeUnigram` passes along with a fallback list. -/
def RecFor (c : UniCtx S) : List Fallback → Option (UniFn S) → Prop
  | .bytes :: tail, r => r = some (encodeUnigram c tail)
  | _, r => r = none

theorem RecFor.offs {c : UniCtx S} {fb : List Fallback} {r : Option (UniFn S)} (h : RecFor c fb r) :
    OffsOpt r := by
  intro f hf
  match fb, h with
  | .bytes :: tail, h => simp only [RecFor] at h; rw [h] at hf; cases hf; exact encodeUnigram_offs c tail
  | [], h => simp only [RecFor] at h; rw [h] at hf; cases hf
  | .skip :: _, h => simp only [RecFor] at h; rw [h] at hf; cases hf
  | .unknown :: _, h => simp only [RecFor] at h; rw [h] at hf; cases hf

theorem holeStep_render (c : UniCtx S) (fb : List Fallback) (r : Option (UniFn S)) (h : RecFor c fb r)
    (part : Bytes) :
    match renderHole c fb part with
    | .ok ids => ∃ ext, holeStep c fb r part [] [] = .ok (ext, ids.reverse)
    | .err e => holeStep c fb r part [] [] = .err e
    | .panic p => holeStep c fb r part [] [] = .panic p := by
  match fb, h with
  | .bytes :: tail, h =>
    simp only [RecFor] at h; subst h
    simp only [renderHole, holeStep]
    cases encodeUnigram c tail part [] [] (List.range part.length) with
    | ok a => cases a; simp
    | err e => simp
    | panic p => simp
  | [], h =>
    simp only [RecFor] at h; subst h
    simp [renderHole, holeStep]
  | .skip :: _, h =>
    simp only [RecFor] at h; subst h
    simp [renderHole, holeStep]
  | .unknown :: _, h =>
    simp only [RecFor] at h; subst h
    simp only [renderHole, holeStep]
    cases c.unknown <;> simp

omit [Cost S] [Inhabited S] in
theorem getD_append_left' (F ext : List (SizedPart S)) (d : SizedPart S) (k : Nat) (hk : k < F.length) :
    (F ++ ext).getD k d = F.getD k d := by
  simp [List.getElem?_append_left hk]

theorem backWalk_walk (c : UniCtx S) (fb : List Fallback) (byteRec : Option (UniFn S)) (piece : Bytes)
    (B : List Nat) (F : List (SizedPart S))
    (hb : BInfo piece.length B) (h0 : B.getD 0 0 = 0) (hM : Merged c piece B F)
    (hrf : RecFor c fb byteRec) :
    ∀ fuel j buf res, j < fuel → j < B.length → (∃ ext, buf = F ++ ext) →
      ∃ items, IsWalk c.tok piece B 0 (B.getD j 0) items ∧
        match renderWalk c fb items with
        | .ok ids => ∃ buf', backWalk c fb byteRec piece 0 fuel j buf res = .ok (buf', res ++ ids.reverse)
        | .err e => backWalk c fb byteRec piece 0 fuel j buf res = .err e
        | .panic p => backWalk c fb byteRec piece 0 fuel j buf res = .panic p := by
  intro fuel
  induction fuel with
  | zero => intro j _ _ h; omega
  | succ fuel ih =>
    intro j buf res hjf hj hext
    obtain ⟨ext, hbuf⟩ := hext
    rw [backWalk_succ]
    by_cases hj0 : j = 0
    · subst hj0
      refine ⟨[], by simp only [IsWalk]; exact h0.symm, ?_⟩
      simp [renderWalk]
    · have hjpos : j > 0 := by omega
      have hnode : buf.getD j default = F.getD j default := by
        rw [hbuf]; exact getD_append_left' F ext default j (by rw [hM.len]; exact hj)
      have hprev : buf.getD (j - 1) default = F.getD (j - 1) default := by
        rw [hbuf]; exact getD_append_left' F ext default (j - 1) (by rw [hM.len]; omega)
      rw [if_pos hjpos, hnode, hprev, hM.start j hj, hM.start (j - 1) (by omega)]
      by_cases htok : (F.getD j default).token = INVALID
      · obtain ⟨hw, _, hnone⟩ := hM.unset j (by omega) hj htok
        have h1 : ((F.getD j default).token == INVALID) = true := by rw [htok]; simp
        have h2 : ¬ (1 > j) := by omega
        rw [if_pos h1, hw, holeStep_lift c fb byteRec hrf.offs]
        simp only [h2, if_false]
        generalize hpart : slice piece (B.getD (j - 1) 0) (B.getD j 0) = part
        have hhole : IsWalk c.tok piece B (B.getD (j - 1) 0) (B.getD j 0) [Item.hole part] := by
          simp only [IsWalk]
          refine ⟨B.getD j 0, getD_mem hj, hb.lt (j - 1) j (by omega) hj, Nat.le_refl _, hpart.symm, ?_, ?_, rfl⟩
          · intro x hx ⟨hx1, hx2⟩
            obtain ⟨k, hk, rfl⟩ := mem_getD hx
            have := hb.lt_of_lt (j - 1) k (by omega) hk hx1
            have := hb.lt_of_lt k j hk hj hx2
            omega
          · intro x hx hx1
            obtain ⟨k, hk, rfl⟩ := mem_getD hx
            exact hnone k (hb.lt_of_lt k j hk hj hx1)
        have hr := holeStep_render c fb byteRec hrf part
        cases hrh : renderHole c fb part with
        | ok ids =>
          rw [hrh] at hr
          obtain ⟨ext', hH0⟩ := hr
          rw [hH0]
          simp only [lift]
          obtain ⟨items', hw', hrender'⟩ := ih (j - 1) (buf ++ ext') (res ++ ids.reverse) (by omega) (by omega)
            ⟨ext ++ ext', by rw [hbuf, List.append_assoc]⟩
          refine ⟨items' ++ [Item.hole part], isWalk_append _ _ _ _ _ _ _ _
            (hb.le (j - 1) j (by omega) hj) hw' hhole, ?_⟩
          rw [renderWalk_snoc]
          simp only [renderItem, hrh]
          generalize renderWalk c fb items' = rw' at hrender' ⊢
          cases rw' with
          | ok h =>
            obtain ⟨buf', hbw⟩ := hrender'
            exact ⟨buf', by rw [hbw]; simp⟩
          | err e => exact hrender'
          | panic p => exact hrender'
        | err e =>
          rw [hrh] at hr
          rw [hr]
          simp only [lift]
          obtain ⟨items', hw', _⟩ := ih (j - 1) buf res (by omega) (by omega) ⟨ext, hbuf⟩
          refine ⟨items' ++ [Item.hole part], isWalk_append _ _ _ _ _ _ _ _
            (hb.le (j - 1) j (by omega) hj) hw' hhole, ?_⟩
          rw [renderWalk_snoc]
          simp only [renderItem, hrh]
        | panic p =>
          rw [hrh] at hr
          rw [hr]
          simp only [lift]
          obtain ⟨items', hw', _⟩ := ih (j - 1) buf res (by omega) (by omega) ⟨ext, hbuf⟩
          refine ⟨items' ++ [Item.hole part], isWalk_append _ _ _ _ _ _ _ _
            (hb.le (j - 1) j (by omega) hj) hw' hhole, ?_⟩
          rw [renderWalk_snoc]
          simp only [renderItem, hrh]
      · obtain ⟨i, hi, sc, htokeq, hwd, _⟩ := hM.set j (by omega) hj htok
        have h1 : ¬ ((F.getD j default).token == INVALID) = true := by rw [beq_iff_eq]; exact htok
        have h2 : ¬ (j - i > j) := by omega
        have h3 : j - (j - i) = i := by omega
        rw [if_neg h1, hwd, if_neg h2, h3]
        obtain ⟨items', hw', hrender'⟩ := ih i buf (res ++ [(F.getD j default).token]) (by omega) (by omega)
          ⟨ext, hbuf⟩
        have hentry : IsWalk c.tok piece B (B.getD i 0) (B.getD j 0)
            [Item.entry (slice piece (B.getD i 0) (B.getD j 0)) (F.getD j default).token] := by
          simp only [IsWalk]
          exact ⟨B.getD j 0, getD_mem hj, hb.lt i j hi hj, Nat.le_refl _, rfl, ⟨sc, htokeq⟩, rfl⟩
        refine ⟨items' ++ [Item.entry (slice piece (B.getD i 0) (B.getD j 0)) (F.getD j default).token],
          isWalk_append _ _ _ _ _ _ _ _ (hb.le i j (by omega) hj) hw' hentry, ?_⟩
        rw [renderWalk_snoc]
        simp only [renderItem]
        generalize renderWalk c fb items' = rw' at hrender' ⊢
        cases rw' with
        | ok h =>
          obtain ⟨buf', hbw⟩ := hrender'
          exact ⟨buf', by rw [hbw]; simp⟩
        | err e => exact hrender'
        | panic p => exact hrender'

theorem encodeUnigram_eq_body (c : UniCtx S) (fb : List Fallback) :
    ∃ r, RecFor c fb r ∧ encodeUnigram c fb = encodeUnigramBody c fb r := by
  match fb with
  | [] => exact ⟨none, rfl, by unfold encodeUnigram; rfl⟩
  | .bytes :: tail => exact ⟨some (encodeUnigram c tail), rfl, by rw [encodeUnigram]⟩
  | .unknown :: tail => exact ⟨none, rfl, by rw [encodeUnigram]⟩
  | .skip :: tail => exact ⟨none, rfl, by rw [encodeUnigram]⟩

theorem head_getD {B : List Nat} (h0 : B.head? = some 0) : B.getD 0 0 = 0 := by
  cases B with
  | nil => simp at h0
  | cons a t => simp at h0; simp [h0]

/-- `encodeUnigram` on an empty scratch state, as the back-walk over the merged buffer. -/
theorem encodeUnigram_nil (c : UniCtx S) (fb : List Fallback) (piece : Bytes) (indices : List Nat) :
    ∃ r, RecFor c fb r ∧
      encodeUnigram c fb piece [] [] indices =
        match backWalk c fb r piece 0 (indices.length + 1) indices.length
            (mergeParts c piece ((indices ++ [piece.length]).map fresh) 0) [] with
        | .ok (buffer', result') => .ok (buffer', result'.reverse)
        | other => other := by
  obtain ⟨r, hrf, heq⟩ := encodeUnigram_eq_body c fb
  refine ⟨r, hrf, ?_⟩
  rw [heq, body_eq]
  simp only [List.length_nil, List.nil_append, Nat.zero_add]
  cases backWalk c fb r piece 0 (indices.length + 1) indices.length
      (mergeParts c piece ((indices ++ [piece.length]).map fresh) 0) [] with
  | ok a => cases a; simp
  | err e => rfl
  | panic p => rfl

theorem unigram_walk (c : UniCtx S) (fb : List Fallback) (piece : Bytes) (indices : List Nat)
    (pre : List (SizedPart S)) (res0 : List Id)
    (hb : UnitBounds piece.length (indices ++ [piece.length]))
    (h0 : (indices ++ [piece.length]).head? = some 0)
    (hid : ∀ b id sc, c.tok b = some (id, sc) → id ≠ INVALID)
    (hmax : ∀ b id sc, c.tok b = some (id, sc) → b.length ≤ c.maxTok) :
    ∃ items, IsWalk c.tok piece (indices ++ [piece.length]) 0 piece.length items ∧
      (match renderWalk c fb items with
        | .ok ids => ∃ buffer', encodeUnigram c fb piece pre res0 indices = .ok (buffer', res0 ++ ids) ∧
                       buffer'.take pre.length = pre
        | .err e => encodeUnigram c fb piece pre res0 indices = .err e
        | .panic p => encodeUnigram c fb piece pre res0 indices = .panic p) := by
  have hbi := BInfo.of_unitBounds hb
  have hM := merged_of c piece _ hbi hid hmax
  obtain ⟨r, hrf, heq⟩ := encodeUnigram_nil c fb piece indices
  obtain ⟨items, hwalk, hrender⟩ := backWalk_walk c fb r piece _ _ hbi (head_getD h0) hM hrf
    (indices.length + 1) indices.length
    (mergeParts c piece ((indices ++ [piece.length]).map fresh) 0) [] (by omega) (by simp)
    ⟨[], by simp⟩
  have hlast : (indices ++ [piece.length]).getD indices.length 0 = piece.length := by simp
  rw [hlast] at hwalk
  refine ⟨items, hwalk, ?_⟩
  rw [encodeUnigram_offs c fb piece pre res0 indices, heq]
  generalize renderWalk c fb items = rw' at hrender ⊢
  cases rw' with
  | ok ids =>
    obtain ⟨buf', hbw⟩ := hrender
    simp only at hbw ⊢
    rw [hbw]
    exact ⟨pre ++ buf', by simp [lift], by simp⟩
  | err e => simp only at hrender ⊢; rw [hrender]; rfl
  | panic p => simp only at hrender ⊢; rw [hrender]; rfl

/-! ## Part 6: optimality -/

/-- The node kept by `innerLoop` is no worse than the initial one (if that was set) and than every
    candidate carrying a vocabulary entry. -/
theorem innerLoop_opt [LawfulCost S] (c : UniCtx S) (piece : Bytes) (buf : List (SizedPart S))
    (se e m : Nat) (x : SizedPart S)
    (hid : ∀ b id sc, c.tok b = some (id, sc) → id ≠ INVALID)
    (hmono : ∀ i i', i ≤ i' → i' < m → (buf.getD i default).start ≤ (buf.getD i' default).start)
    (hwin : ∀ i, i < m → ∀ p, c.tok (slice piece (buf.getD i default).start e) = some p →
      e - (buf.getD i default).start ≤ c.maxTok) :
    (x.token ≠ INVALID → Cost.le (innerLoop c piece buf 0 se e m x).score x.score = true) ∧
    ∀ i, i < m → ∀ id sc, c.tok (slice piece (buf.getD i default).start e) = some (id, sc) →
      Cost.le (innerLoop c piece buf 0 se e m x).score (Cost.sub (buf.getD i default).score sc) = true := by
  induction m generalizing x with
  | zero =>
    simp only [innerLoop]
    exact ⟨fun _ => LawfulCost.le_refl _, fun i hi => by omega⟩
  | succ m ih =>
    have hmono' : ∀ i i', i ≤ i' → i' < m → (buf.getD i default).start ≤ (buf.getD i' default).start :=
      fun i i' h1 h2 => hmono i i' h1 (by omega)
    have hwin' : ∀ i, i < m → ∀ p, c.tok (slice piece (buf.getD i default).start e) = some p →
        e - (buf.getD i default).start ≤ c.maxTok := fun i hi => hwin i (by omega)
    simp only [innerLoop, Nat.zero_add]
    split
    next hbreak =>
      refine ⟨fun _ => LawfulCost.le_refl _, fun i hi id sc hto => ?_⟩
      exfalso
      have h1 := hwin i hi _ hto
      have h2 := hmono i m (by omega) (by omega)
      omega
    next hbreak =>
      split
      next id sc heq =>
        split
        next hc =>
          obtain ⟨h1, h2⟩ := ih ({ x with score := Cost.sub (buf.getD m default).score sc, width := se - m, token := id }) hmono' hwin'
          have h1' := h1 (hid _ _ _ heq)
          simp only at h1'
          refine ⟨fun hx => ?_, fun i hi id' sc' hto => ?_⟩
          · have : Cost.le (Cost.sub (buf.getD m default).score sc) x.score = true := by
              rcases (Bool.or_eq_true_iff.1 hc) with h | h
              · exact absurd (beq_iff_eq.1 h) hx
              · exact h
            exact LawfulCost.le_trans _ _ _ h1' this
          · by_cases him : i = m
            · subst him
              rw [heq] at hto
              cases hto
              exact h1'
            · exact h2 i (by omega) id' sc' hto
        next hc =>
          obtain ⟨h1, h2⟩ := ih x hmono' hwin'
          have hx : x.token ≠ INVALID := by
            intro h; apply hc; simp [h]
          have hnle : Cost.le (Cost.sub (buf.getD m default).score sc) x.score ≠ true := by
            intro h; apply hc; rw [h, Bool.or_true]
          have hle : Cost.le x.score (Cost.sub (buf.getD m default).score sc) = true := by
            rcases LawfulCost.le_total x.score (Cost.sub (buf.getD m default).score sc) with h | h
            · exact h
            · exact absurd h hnle
          refine ⟨h1, fun i hi id' sc' hto => ?_⟩
          by_cases him : i = m
          · subst him
            rw [heq] at hto
            cases hto
            exact LawfulCost.le_trans _ _ _ (h1 hx) hle
          · exact h2 i (by omega) id' sc' hto
      next heq =>
        obtain ⟨h1, h2⟩ := ih x hmono' hwin'
        refine ⟨h1, fun i hi id' sc' hto => ?_⟩
        by_cases him : i = m
        · subst him; rw [heq] at hto; cases hto
        · exact h2 i (by omega) id' sc' hto

theorem merged_opt [LawfulCost S] (c : UniCtx S) (piece : Bytes) (B : List Nat)
    (hb : BInfo piece.length B)
    (hid : ∀ b id sc, c.tok b = some (id, sc) → id ≠ INVALID)
    (hmax : ∀ b id sc, c.tok b = some (id, sc) → b.length ≤ c.maxTok) :
    ∀ j, 1 ≤ j → j < B.length → ∀ i, i < j → ∀ id sc,
      c.tok (slice piece (B.getD i 0) (B.getD j 0)) = some (id, sc) →
      Cost.le ((mergeParts c piece (B.map fresh) 0).getD j default).score
        (Cost.sub ((mergeParts c piece (B.map fresh) 0).getD i default).score sc) = true := by
  obtain ⟨h1, h2, hstart, hwidth⟩ := merged_basic c piece B hb.pos
  obtain ⟨_, _, h3⟩ := mergeParts_spec c piece (B.map fresh)
  simp only [List.length_map] at h3
  generalize hF : mergeParts c piece (B.map fresh) 0 = F at *
  intro j hj1 hj i hi id sc hto
  rw [h3 j hj1 hj, getD_map_fresh B j hj]
  have := (innerLoop_opt c piece F j (B.getD j 0) j
    { (fresh (B.getD j 0) : SizedPart S) with score := Cost.big } hid
      (fun i i' hii' hi' => by
        rw [hstart i (by omega), hstart i' (by omega)]; exact hb.le i i' hii' (by omega))
      (fun i hi p hp => by
        rw [hstart i (by omega)] at hp ⊢
        have := hmax _ _ _ hp
        rw [slice_length _ _ _ (hb.le_len j hj)] at this
        exact this)).2 i hi id sc (by rw [hstart i (by omega)]; exact hto)
  exact this

/-! ### Segmentations -/

omit [Inhabited S] in
theorem isSeg_le (tok : Bytes → Option (Id × S)) (piece : Bytes) (B : List Nat) (s : List (Entry S))
    (a b : Nat) (h : IsSegFrom tok piece B a b s) : a ≤ b := by
  cases s with
  | nil => simp only [IsSegFrom] at h; omega
  | cons e rest => simp only [IsSegFrom] at h; obtain ⟨mid, _, h1, h2, _⟩ := h; omega

omit [Inhabited S] in
theorem isSeg_snoc (tok : Bytes → Option (Id × S)) (piece : Bytes) (B : List Nat) (s : List (Entry S))
    (e : Entry S) (a m b : Nat) (h : IsSegFrom tok piece B a m s) (hmb : m < b) (hbB : b ∈ B)
    (hbytes : e.bytes = slice piece m b) (htok : tok e.bytes = some (e.id, e.score)) :
    IsSegFrom tok piece B a b (s ++ [e]) := by
  induction s generalizing a with
  | nil =>
    simp only [IsSegFrom] at h; subst h
    simp only [List.nil_append, IsSegFrom]
    exact ⟨b, hbB, hmb, Nat.le_refl _, hbytes, ⟨e.score, htok, rfl⟩, rfl⟩
  | cons x xs ih =>
    simp only [List.cons_append, IsSegFrom] at h ⊢
    obtain ⟨mid, q1, q2, q3, q4, q5, q6⟩ := h
    exact ⟨mid, q1, q2, by omega, q4, q5, ih mid q6⟩

omit [Inhabited S] in
theorem isSeg_unsnoc (tok : Bytes → Option (Id × S)) (piece : Bytes) (B : List Nat) (s : List (Entry S))
    (a b : Nat) (h : IsSegFrom tok piece B a b s) (hne : s ≠ []) :
    ∃ s' e m, s = s' ++ [e] ∧ IsSegFrom tok piece B a m s' ∧ m < b ∧ b ∈ B ∧
      e.bytes = slice piece m b ∧ tok e.bytes = some (e.id, e.score) := by
  induction s generalizing a with
  | nil => exact absurd rfl hne
  | cons x xs ih =>
    simp only [IsSegFrom] at h
    obtain ⟨mid, q1, q2, q3, q4, ⟨sc, q5, q5'⟩, q6⟩ := h
    cases xs with
    | nil =>
      simp only [IsSegFrom] at q6
      subst q6
      refine ⟨[], x, a, rfl, by simp [IsSegFrom], q2, q1, q4, ?_⟩
      rw [q5, q5']
    | cons y ys =>
      obtain ⟨s', e, m, r1, r2, r3, r4, r5, r6⟩ := ih mid q6 (by simp)
      refine ⟨x :: s', e, m, by rw [r1]; rfl, ?_, r3, r4, r5, r6⟩
      simp only [IsSegFrom]
      exact ⟨mid, q1, q2, isSeg_le _ _ _ _ _ _ r2, q4, ⟨sc, q5, q5'⟩, r2⟩

omit [Inhabited S] in
theorem isSeg_mem (tok : Bytes → Option (Id × S)) (piece : Bytes) (B : List Nat) (s : List (Entry S))
    (a b : Nat) (h : IsSegFrom tok piece B a b s) (ha : a ∈ B) : b ∈ B := by
  induction s generalizing a with
  | nil => simp only [IsSegFrom] at h; subst h; exact ha
  | cons x xs ih =>
    simp only [IsSegFrom] at h
    obtain ⟨mid, q1, _, _, _, _, q6⟩ := h
    exact ih mid q6 q1

omit [Inhabited S] in
theorem isSeg_self (tok : Bytes → Option (Id × S)) (piece : Bytes) (B : List Nat) (s : List (Entry S))
    (a : Nat) (h : IsSegFrom tok piece B a a s) : s = [] := by
  cases s with
  | nil => rfl
  | cons e rest => simp only [IsSegFrom] at h; obtain ⟨mid, _, h1, h2, _⟩ := h; omega

omit [Inhabited S] in
theorem cost_snoc (s : List (Entry S)) (e : Entry S) : cost (s ++ [e]) = Cost.sub (cost s) e.score := by
  simp [cost, List.foldl_append]

omit [Inhabited S] in
/-- A segmentation of the prefix ending at boundary `j ≥ 1` is a segmentation of a shorter prefix
    followed by one entry. -/
theorem seg_decomp (tok : Bytes → Option (Id × S)) (piece : Bytes) (B : List Nat)
    (hb : BInfo piece.length B) (h0 : B.getD 0 0 = 0) (j : Nat) (hj1 : 1 ≤ j) (hj : j < B.length)
    (t : List (Entry S)) (ht : IsSegFrom tok piece B 0 (B.getD j 0) t) :
    ∃ i, i < j ∧ ∃ t' e, t = t' ++ [e] ∧ IsSegFrom tok piece B 0 (B.getD i 0) t' ∧
      e.bytes = slice piece (B.getD i 0) (B.getD j 0) ∧ tok e.bytes = some (e.id, e.score) := by
  have hpos : 0 < B.getD j 0 := by
    have := hb.lt 0 j (by omega) hj; omega
  have hne : t ≠ [] := by
    intro h; subst h; simp only [IsSegFrom] at ht; omega
  obtain ⟨t', e, m, r1, r2, r3, r4, r5, r6⟩ := isSeg_unsnoc tok piece B t 0 _ ht hne
  have h0B : 0 ∈ B := by rw [← h0]; exact getD_mem hb.pos
  obtain ⟨i, hi, rfl⟩ := mem_getD (isSeg_mem tok piece B t' 0 m r2 h0B)
  exact ⟨i, hb.lt_of_lt i j hi hj r3, t', e, r1, r2, r5, r6⟩

/-- The chain of predecessors by widths, as a list of entries. -/
inductive Chain (F : List (SizedPart S)) : Nat → List (Entry S) → Prop
  | zero : Chain F 0 []
  | step {j : Nat} {seg : List (Entry S)} {e : Entry S} :
      0 < j → (F.getD j default).token ≠ INVALID → 1 ≤ (F.getD j default).width →
      (F.getD j default).width ≤ j → e.id = (F.getD j default).token →
      Chain F (j - (F.getD j default).width) seg → Chain F j (seg ++ [e])

theorem backWalk_chain (c : UniCtx S) (fb : List Fallback) (byteRec : Option (UniFn S)) (piece : Bytes)
    (F : List (SizedPart S)) (j : Nat) (seg : List (Entry S)) (h : Chain F j seg) :
    ∀ fuel res, j < fuel →
      backWalk c fb byteRec piece 0 fuel j F res = .ok (F, res ++ (seg.map (·.id)).reverse) := by
  induction h with
  | zero =>
    intro fuel res hf
    obtain ⟨f, rfl⟩ : ∃ f, fuel = f + 1 := ⟨fuel - 1, by omega⟩
    rw [backWalk_succ]; simp
  | @step j seg e hj htok hw1 hw2 hid _ ih =>
    intro fuel res hf
    obtain ⟨f, rfl⟩ : ∃ f, fuel = f + 1 := ⟨fuel - 1, by omega⟩
    have h1 : ¬ ((F.getD j default).token == INVALID) = true := by rw [beq_iff_eq]; exact htok
    have h2 : ¬ ((F.getD j default).width > j) := by omega
    rw [backWalk_succ, if_pos hj, if_neg h1, if_neg h2, ih f _ (by omega)]
    simp [hid]

/-- Restart discipline: what the optimality proof needs of the restart value `Cost.big`. `Bad` marks
    the costs of paths that cross a restarted node: the restart value is bad, extending a bad path by
    a vocabulary entry keeps it bad, nothing at or above a bad cost is good, and the cost of a genuine
    partial segmentation is never bad (so a genuine path always beats a restarted one). -/
structure Restart (tok : Bytes → Option (Id × S)) (piece : Bytes) (bounds : List Nat) (Bad : S → Prop) :
    Prop where
  big : Bad Cost.big
  sub : ∀ b id sc (a : S), tok b = some (id, sc) → Bad a → Bad (Cost.sub a sc)
  up : ∀ a b : S, Bad a → Cost.le a b = true → Bad b
  seg : ∀ stop seg, IsSegFrom tok piece bounds 0 stop seg → ¬ Bad (cost seg)

/-- The Viterbi invariant: a node whose prefix can be segmented carries the cost of a cheapest
    segmentation and its predecessor chain is such a segmentation; a node whose prefix cannot be
    segmented carries a bad score (one of a path through a restarted node). -/
theorem viterbi_inv [LawfulCost S] (c : UniCtx S) (piece : Bytes) (B : List Nat) (F : List (SizedPart S))
    (Bad : S → Prop)
    (hb : BInfo piece.length B) (h0 : B.getD 0 0 = 0) (hM : Merged c piece B F)
    (hopt : ∀ j, 1 ≤ j → j < B.length → ∀ i, i < j → ∀ id sc,
      c.tok (slice piece (B.getD i 0) (B.getD j 0)) = some (id, sc) →
      Cost.le (F.getD j default).score (Cost.sub (F.getD i default).score sc) = true)
    (hR : Restart c.tok piece B Bad) :
    ∀ j, j < B.length →
      ((∃ s, IsSegFrom c.tok piece B 0 (B.getD j 0) s) →
        ∃ seg, Chain F j seg ∧ IsSegFrom c.tok piece B 0 (B.getD j 0) seg ∧
          cost seg = (F.getD j default).score ∧
          ∀ s, IsSegFrom c.tok piece B 0 (B.getD j 0) s → Cost.le (cost seg) (cost s) = true) ∧
      ((¬ ∃ s, IsSegFrom c.tok piece B 0 (B.getD j 0) s) →
        Bad (F.getD j default).score) := by
  intro j
  induction j using Nat.strongRecOn with
  | _ j ih =>
    intro hj
    by_cases hj0 : j = 0
    · subst hj0
      have hnil : IsSegFrom c.tok piece B 0 (B.getD 0 0) [] := by simp only [IsSegFrom]; exact h0.symm
      refine ⟨fun _ => ⟨[], Chain.zero, hnil, ?_, fun s hs => ?_⟩, fun h => absurd ⟨[], hnil⟩ h⟩
      · rw [hM.zero]; rfl
      · rw [h0] at hs
        rw [isSeg_self _ _ _ _ _ hs]
        exact LawfulCost.le_refl _
    · have hj1 : 1 ≤ j := by omega
      constructor
      · rintro ⟨s, hs⟩
        obtain ⟨i, hi, s', e, rfl, hs', hebytes, hetok⟩ := seg_decomp c.tok piece B hb h0 j hj1 hj s hs
        have htok : (F.getD j default).token ≠ INVALID := by
          intro hinv
          have := (hM.unset j hj1 hj hinv).2.2 i hi
          rw [← hebytes, hetok] at this
          cases this
        obtain ⟨k, hk, sc, hktok, hkw, hkscore⟩ := hM.set j hj1 hj htok
        -- the entry chosen by the node
        let ek : Entry S := ⟨slice piece (B.getD k 0) (B.getD j 0), (F.getD j default).token, sc⟩
        -- the witness prefix `i` gives a genuine cost above the node's score
        obtain ⟨segi, _, hsegi, hcosti, _⟩ := (ih i hi (by omega)).1 ⟨s', hs'⟩
        have hsegie : IsSegFrom c.tok piece B 0 (B.getD j 0) (segi ++ [e]) :=
          isSeg_snoc _ _ _ _ _ _ _ _ hsegi (hb.lt i j hi hj) (getD_mem hj) hebytes hetok
        have hle_i : Cost.le (F.getD j default).score (cost (segi ++ [e])) = true := by
          rw [cost_snoc, hcosti]
          exact hopt j hj1 hj i hi e.id e.score (by rw [← hebytes]; exact hetok)
        -- the chosen predecessor is segmentable
        have hkseg : ∃ s, IsSegFrom c.tok piece B 0 (B.getD k 0) s := by
          apply Classical.byContradiction
          intro hno
          have h1 := (ih k hk (by omega)).2 hno
          have h2 : Bad (F.getD j default).score := by
            rw [hkscore]; exact hR.sub _ _ _ _ hktok h1
          exact hR.seg _ _ hsegie (hR.up _ _ h2 hle_i)
        obtain ⟨segk, hchain, hsegk, hcostk, _⟩ := (ih k hk (by omega)).1 hkseg
        have hsegj : IsSegFrom c.tok piece B 0 (B.getD j 0) (segk ++ [ek]) :=
          isSeg_snoc _ _ _ _ ek _ _ _ hsegk (hb.lt k j hk hj) (getD_mem hj) rfl hktok
        have hcostj : cost (segk ++ [ek]) = (F.getD j default).score := by
          rw [cost_snoc, hcostk, hkscore]
        refine ⟨segk ++ [ek], ?_, hsegj, hcostj, fun t ht => ?_⟩
        · refine Chain.step (by omega) htok (by omega) (by omega) rfl ?_
          have : j - (F.getD j default).width = k := by omega
          rw [this]; exact hchain
        · obtain ⟨it, hit, t', et, rfl, ht', hetb, hett⟩ := seg_decomp c.tok piece B hb h0 j hj1 hj t ht
          obtain ⟨segt, _, _, hcostt, hoptt⟩ := (ih it hit (by omega)).1 ⟨t', ht'⟩
          have h1 : Cost.le (F.getD j default).score (Cost.sub (F.getD it default).score et.score) = true :=
            hopt j hj1 hj it hit et.id et.score (by rw [← hetb]; exact hett)
          have h2 : Cost.le (Cost.sub (cost segt) et.score) (Cost.sub (cost t') et.score) = true :=
            LawfulCost.sub_mono _ _ _ (hoptt t' ht')
          rw [hcostj, cost_snoc]
          rw [hcostt] at h2
          exact LawfulCost.le_trans _ _ _ h1 h2
      · intro hno
        by_cases htok : (F.getD j default).token = INVALID
        · rw [(hM.unset j hj1 hj htok).2.1]; exact hR.big
        · obtain ⟨k, hk, sc, hktok, hkw, hkscore⟩ := hM.set j hj1 hj htok
          have hnok : ¬ ∃ s, IsSegFrom c.tok piece B 0 (B.getD k 0) s := by
            rintro ⟨s, hs⟩
            apply hno
            exact ⟨s ++ [⟨slice piece (B.getD k 0) (B.getD j 0), (F.getD j default).token, sc⟩],
              isSeg_snoc _ _ _ _ _ _ _ _ hs (hb.lt k j hk hj) (getD_mem hj) rfl hktok⟩
          have h1 := (ih k hk (by omega)).2 hnok
          rw [hkscore]
          exact hR.sub _ _ _ _ hktok h1

/-- Optimality under an abstract restart discipline. -/
theorem viterbi_optimal_core [LawfulCost S] (c : UniCtx S) (fb : List Fallback) (piece : Bytes)
    (indices : List Nat) (pre : List (SizedPart S)) (res0 : List Id)
    (hb : UnitBounds piece.length (indices ++ [piece.length]))
    (h0 : (indices ++ [piece.length]).head? = some 0)
    (hid : ∀ b id sc, c.tok b = some (id, sc) → id ≠ INVALID)
    (hmax : ∀ b id sc, c.tok b = some (id, sc) → b.length ≤ c.maxTok)
    (Bad : S → Prop) (hR : Restart c.tok piece (indices ++ [piece.length]) Bad)
    (seg0 : List (Entry S)) (hseg : IsSegFrom c.tok piece (indices ++ [piece.length]) 0 piece.length seg0) :
    ∃ seg buffer', IsSegFrom c.tok piece (indices ++ [piece.length]) 0 piece.length seg ∧
      encodeUnigram c fb piece pre res0 indices = .ok (buffer', res0 ++ seg.map (·.id)) ∧
      ∀ s', IsSegFrom c.tok piece (indices ++ [piece.length]) 0 piece.length s' →
        Cost.le (cost seg) (cost s') = true := by
  have hbi := BInfo.of_unitBounds hb
  have hM := merged_of c piece _ hbi hid hmax
  have hopt := merged_opt c piece _ hbi hid hmax
  have hlast : (indices ++ [piece.length]).getD indices.length 0 = piece.length := by simp
  have hinv := (viterbi_inv c piece _ _ Bad hbi (head_getD h0) hM hopt hR indices.length (by simp)).1
  rw [hlast] at hinv
  obtain ⟨seg, hchain, hsegj, _, hbest⟩ := hinv ⟨seg0, hseg⟩
  obtain ⟨r, hrf, heq⟩ := encodeUnigram_nil c fb piece indices
  refine ⟨seg, pre ++ mergeParts c piece ((indices ++ [piece.length]).map fresh) 0, hsegj, ?_, hbest⟩
  rw [encodeUnigram_offs c fb piece pre res0 indices, heq,
    backWalk_chain c fb r piece _ _ _ hchain (indices.length + 1) [] (by omega)]
  simp [lift]

omit [Inhabited S] in
/-- Instance (a): a plain cost type in the region `BoundedCost`; bad = at or above the restart value. -/
theorem restart_of_bounded [LawfulCost S] (tok : Bytes → Option (Id × S)) (piece : Bytes) (bounds : List Nat)
    (hbc : BoundedCost tok piece bounds) :
    Restart tok piece bounds (fun x => Cost.le Cost.big x = true) where
  big := LawfulCost.le_refl _
  sub := fun _ _ _ a htok h => LawfulCost.le_trans _ _ _ h (hbc.grows _ _ _ a htok)
  up := fun _ _ h hle => LawfulCost.le_trans _ _ _ h hle
  seg := fun stop seg hs h => by
    have := hbc.below_big stop seg hs
    rw [h] at this
    cases this

theorem viterbi_optimal_partial [LawfulCost S] (c : UniCtx S) (fb : List Fallback) (piece : Bytes)
    (indices : List Nat) (pre : List (SizedPart S)) (res0 : List Id)
    (hb : UnitBounds piece.length (indices ++ [piece.length]))
    (h0 : (indices ++ [piece.length]).head? = some 0)
    (hid : ∀ b id sc, c.tok b = some (id, sc) → id ≠ INVALID)
    (hmax : ∀ b id sc, c.tok b = some (id, sc) → b.length ≤ c.maxTok)
    (hbc : BoundedCost c.tok piece (indices ++ [piece.length]))
    (seg0 : List (Entry S)) (hseg : IsSegFrom c.tok piece (indices ++ [piece.length]) 0 piece.length seg0) :
    ∃ seg buffer', IsSegFrom c.tok piece (indices ++ [piece.length]) 0 piece.length seg ∧
      encodeUnigram c fb piece pre res0 indices = .ok (buffer', res0 ++ seg.map (·.id)) ∧
      ∀ s', IsSegFrom c.tok piece (indices ++ [piece.length]) 0 piece.length s' →
        Cost.le (cost seg) (cost s') = true :=
  viterbi_optimal_core c fb piece indices pre res0 hb h0 hid hmax _
    (restart_of_bounded c.tok piece _ hbc) seg0 hseg

/-! ### The repaired cost type `Tainted S` (F13) -/

omit [Inhabited S] in
theorem foldl_tainted (seg : List (Entry (Tainted S))) (acc : Tainted S) :
    (seg.foldl (fun acc e => Cost.sub acc e.score) acc).broken = acc.broken ∧
    (seg.foldl (fun acc e => Cost.sub acc e.score) acc).val
      = seg.foldl (fun acc e => Cost.sub acc e.score.val) acc.val := by
  induction seg generalizing acc with
  | nil => exact ⟨rfl, rfl⟩
  | cons e rest ih =>
    simp only [List.foldl_cons]
    obtain ⟨h1, h2⟩ := ih (Cost.sub acc e.score)
    exact ⟨h1, h2⟩

omit [Inhabited S] in
/-- The cost of a segmentation is never `broken`; its value is the fold of the values. -/
theorem cost_unbroken (seg : List (Entry (Tainted S))) :
    (cost seg).broken = false ∧
      (cost seg).val = seg.foldl (fun acc e => Cost.sub acc e.score.val) Cost.zero :=
  foldl_tainted seg Cost.zero

omit [Inhabited S] in
/-- Instance (b): the repaired cost type, unconditionally; bad = `broken`. -/
theorem restart_tainted (tok : Bytes → Option (Id × Tainted S)) (piece : Bytes) (bounds : List Nat) :
    Restart tok piece bounds (fun x => x.broken = true) where
  big := rfl
  sub := fun _ _ _ _ _ h => h
  up := fun a b h hle => by
    have hle' : ((!a.broken && b.broken) || (a.broken == b.broken && Cost.le a.val b.val)) = true := hle
    rw [h] at hle'
    cases hb : b.broken with
    | true => rfl
    | false => rw [hb] at hle'; simp at hle'
  seg := fun _ seg _ h => by
    rw [(cost_unbroken seg).1] at h
    cases h

/-- Optimality for the repaired code: no bound on the costs is needed. -/
theorem viterbi_optimal [LawfulCost S] (c : UniCtx (Tainted S)) (fb : List Fallback) (piece : Bytes)
    (indices : List Nat) (pre : List (SizedPart (Tainted S))) (res0 : List Id)
    (hb : UnitBounds piece.length (indices ++ [piece.length]))
    (h0 : (indices ++ [piece.length]).head? = some 0)
    (hid : ∀ b id sc, c.tok b = some (id, sc) → id ≠ INVALID)
    (hmax : ∀ b id sc, c.tok b = some (id, sc) → b.length ≤ c.maxTok)
    (seg0 : List (Entry (Tainted S)))
    (hseg : IsSegFrom c.tok piece (indices ++ [piece.length]) 0 piece.length seg0) :
    ∃ seg buffer', IsSegFrom c.tok piece (indices ++ [piece.length]) 0 piece.length seg ∧
      encodeUnigram c fb piece pre res0 indices = .ok (buffer', res0 ++ seg.map (·.id)) ∧
      ∀ s', IsSegFrom c.tok piece (indices ++ [piece.length]) 0 piece.length s' →
        Cost.le (cost seg) (cost s') = true :=
  viterbi_optimal_core c fb piece indices pre res0 hb h0 hid hmax _
    (restart_tainted c.tok piece _) seg0 hseg

/-! ## Part 7: concrete instances (`S := Int`) -/

section Examples

/-- Vocabulary over "ab": `a ↦ (0, -1)`, `b ↦ (1, -1)`, `ab ↦ (2, -1)`. -/
def tokAB : Bytes → Option (Id × Int) := fun b =>
  if b = [97] then some (0, -1) else if b = [98] then some (1, -1)
  else if b = [97, 98] then some (2, -1) else none

def ctxAB : UniCtx Int := { tok := tokAB, unknown := none, fallback := [], maxTok := 2, minTok := 1 }

theorem tokAB_some {b : Bytes} {id : Id} {sc : Int} (h : tokAB b = some (id, sc)) :
    sc = -1 ∧ b.length ≤ 2 ∧ id ≠ INVALID := by
  unfold tokAB at h
  repeat' split at h
  all_goals first | cases h | skip
  all_goals (subst_vars; exact ⟨rfl, by decide, by decide⟩)

theorem segAB_cost (seg : List (Entry Int)) (a stop : Nat) (acc : Int)
    (h : IsSegFrom tokAB [97, 98] [0, 1, 2] a stop seg) :
    seg.foldl (fun acc e => Cost.sub acc e.score) acc = acc + seg.length ∧ seg.length ≤ 2 - a := by
  induction seg generalizing a acc with
  | nil => simp
  | cons e rest ih =>
    simp only [IsSegFrom] at h
    obtain ⟨mid, q1, q2, q3, q4, ⟨sc, q5, q5'⟩, q6⟩ := h
    obtain ⟨r1, r2⟩ := ih mid (Cost.sub acc e.score) q6
    have hsc := (tokAB_some q5).1
    have hmid : mid ≤ 2 := by simp at q1; omega
    rw [List.foldl_cons, r1]
    refine ⟨?_, by simp; omega⟩
    rw [← q5', hsc]
    simp [Cost.sub]; omega

theorem boundedAB : BoundedCost ctxAB.tok [97, 98] ([0, 1] ++ [[97, 98].length]) where
  grows := by
    intro b id sc a h
    have := (tokAB_some h).1
    subst this
    simp [Cost.le, Cost.sub]; omega
  below_big := by
    intro stop seg h
    obtain ⟨h1, h2⟩ := segAB_cost seg 0 stop 0 h
    have : cost seg = (seg.length : Int) := by
      unfold cost; rw [show (Cost.zero : Int) = 0 from rfl, h1]; simp
    rw [this]
    simp [Cost.le, Cost.big]; omega

/-- Non-vacuity: all hypotheses of `viterbi_optimal_partial` hold for the vocabulary {a, b, ab} and the
    piece "ab"; the theorem applies and the (unique) optimum is the single token `ab`. -/
example :
    ∃ seg buffer', IsSegFrom ctxAB.tok [97, 98] ([0, 1] ++ [[97, 98].length]) 0 [97, 98].length seg ∧
      encodeUnigram ctxAB [] [97, 98] [] [] [0, 1] = .ok (buffer', [] ++ seg.map (·.id)) ∧
      ∀ s', IsSegFrom ctxAB.tok [97, 98] ([0, 1] ++ [[97, 98].length]) 0 [97, 98].length s' →
        Cost.le (cost seg) (cost s') = true :=
  viterbi_optimal_partial ctxAB [] [97, 98] [0, 1] [] []
    (by simp [UnitBounds]) (by simp)
    (fun _ _ _ h => (tokAB_some h).2.2) (fun _ _ _ h => (tokAB_some h).2.1) boundedAB
    [⟨[97, 98], 2, -1⟩]
    (by
      simp only [IsSegFrom]
      exact ⟨2, by simp, by omega, by simp, by decide, ⟨-1, by decide, rfl⟩, by simp⟩)

def outIds (r : Res (Scratch Int)) : Option (List Id) :=
  match r with | .ok (_, ids) => some ids | _ => none

def outErr (r : Res (Scratch Int)) : Option Bytes :=
  match r with | .err (.invalidPiece b) => some b | _ => none

example : outIds (encodeUnigram ctxAB [] [97, 98] [] [] [0, 1]) = some [2] := by decide

/-- Sentinel witness (F13): `a ↦ (0, -400000)`, `xyz ↦ (1, -1)`, `yz ↦ (2, -1)`. -/
def tokS : Bytes → Option (Id × Int) := fun b =>
  if b = [97] then some (0, -400000) else if b = [120, 121, 122] then some (1, -1)
  else if b = [121, 122] then some (2, -1) else none

def ctxS : UniCtx Int := { tok := tokS, unknown := some 3, fallback := [], maxTok := 3, minTok := 1 }

/-- "aaaxyz" -/
def pieceS : Bytes := [97, 97, 97, 120, 121, 122]

theorem tokS_some {b : Bytes} {id : Id} {sc : Int} (h : tokS b = some (id, sc)) :
    sc ≤ 0 ∧ b.length ≤ 3 ∧ id ≠ INVALID := by
  unfold tokS at h
  repeat' split at h
  all_goals first | cases h | skip
  all_goals (subst_vars; exact ⟨by decide, by decide, by decide⟩)

/-- The cost of "aaa" (1200000) exceeds the restart value 1000000, so the node after "x" (restarted at
    1000000) wins against the genuine path: the code leaves a hole for "x" and emits `yz`. -/
example : outErr (encodeUnigram ctxS [] pieceS [] [] [0, 1, 2, 3, 4, 5]) = some [120] := by decide

example : outIds (encodeUnigram ctxS [.unknown] pieceS [] [] [0, 1, 2, 3, 4, 5]) = some [0, 0, 0, 3, 2] := by
  decide

theorem segS : IsSegFrom ctxS.tok pieceS ([0, 1, 2, 3, 4, 5] ++ [pieceS.length]) 0 pieceS.length
    [⟨[97], 0, -400000⟩, ⟨[97], 0, -400000⟩, ⟨[97], 0, -400000⟩, ⟨[120, 121, 122], 1, -1⟩] := by
  simp only [IsSegFrom]
  refine ⟨1, by decide, by decide, by decide, by decide, ⟨-400000, by decide, rfl⟩, ?_⟩
  refine ⟨2, by decide, by decide, by decide, by decide, ⟨-400000, by decide, rfl⟩, ?_⟩
  refine ⟨3, by decide, by decide, by decide, by decide, ⟨-400000, by decide, rfl⟩, ?_⟩
  exact ⟨6, by decide, by decide, by decide, by decide, ⟨-1, by decide, rfl⟩, by decide⟩

/-- Without `BoundedCost.below_big` the optimality statement is false: every other hypothesis of
    `viterbi_optimal_partial` holds (including `BoundedCost.grows`), the piece "aaaxyz" has the
    segmentation `[a, a, a, xyz]`, and yet `encodeUnigram` does not return a segmentation at all (it
    reports the hole "x"). -/
theorem sentinel_counterexample :
    ∃ (c : UniCtx Int) (fb : List Fallback) (piece : Bytes) (indices : List Nat),
      UnitBounds piece.length (indices ++ [piece.length]) ∧
      (indices ++ [piece.length]).head? = some 0 ∧
      (∀ b id sc, c.tok b = some (id, sc) → id ≠ INVALID) ∧
      (∀ b id sc, c.tok b = some (id, sc) → b.length ≤ c.maxTok) ∧
      (∀ b id sc (a : Int), c.tok b = some (id, sc) → Cost.le a (Cost.sub a sc) = true) ∧
      (∃ seg0, IsSegFrom c.tok piece (indices ++ [piece.length]) 0 piece.length seg0) ∧
      ¬ ∃ seg buffer', IsSegFrom c.tok piece (indices ++ [piece.length]) 0 piece.length seg ∧
          encodeUnigram c fb piece [] [] indices = .ok (buffer', [] ++ seg.map (·.id)) ∧
          ∀ s', IsSegFrom c.tok piece (indices ++ [piece.length]) 0 piece.length s' →
            Cost.le (cost seg) (cost s') = true := by
  refine ⟨ctxS, [], pieceS, [0, 1, 2, 3, 4, 5], by simp [UnitBounds, pieceS], by simp,
    fun _ _ _ h => (tokS_some h).2.2, fun _ _ _ h => (tokS_some h).2.1, ?_, ⟨_, segS⟩, ?_⟩
  · intro b id sc a h
    have := (tokS_some h).1
    simp [Cost.le, Cost.sub]; omega
  · rintro ⟨seg, buffer', _, h, _⟩
    have h1 : outErr (encodeUnigram ctxS [] pieceS [] [] [0, 1, 2, 3, 4, 5]) = some [120] := by decide
    rw [h] at h1
    simp [outErr] at h1

/-! The same witness under the repaired cost type (`Kitoken.Proofs.Unigram.Examples`). -/
namespace Examples

/-- "aaaxyz", the piece of the sentinel witness. -/
abbrev pieceS : Bytes := Kitoken.Proofs.Unigram.pieceS

/-- The sentinel vocabulary under the repaired cost type: all scores unbroken. -/
def tokST : Bytes → Option (Id × Tainted Int) := fun b =>
  if b = [97] then some (0, ⟨false, -400000⟩) else if b = [120, 121, 122] then some (1, ⟨false, -1⟩)
  else if b = [121, 122] then some (2, ⟨false, -1⟩) else none

def ctxST : UniCtx (Tainted Int) :=
  { tok := tokST, unknown := some 3, fallback := [], maxTok := 3, minTok := 1 }

def outIdsT (r : Res (Scratch (Tainted Int))) : Option (List Id) :=
  match r with | .ok (_, ids) => some ids | _ => none

/-- The former counterexample under the repaired comparison: the genuine segmentation `[a, a, a, xyz]`
    wins against the restarted path. -/
theorem repaired_example :
    outIdsT (encodeUnigram ctxST [.unknown] pieceS [] [] [0, 1, 2, 3, 4, 5]) = some [0, 0, 0, 1] := by
  decide

end Examples

end Examples

end Kitoken.Proofs.Unigram
