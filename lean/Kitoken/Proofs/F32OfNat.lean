/-
  `f32OfNat i` (the bits of `Float32.ofNat i`) is never a NaN, from the logical model of `Float32` in core
  (Init/Data/Float/Model): every packed result of an operation whose unpacked result is not `notANumber` has
  an exponent field below 255 or a zero mantissa; rounding, `normalize`, multiplication by a finite number and
  `ofScientific m 0` never give `notANumber`. Used for the order of the special tokens of the converters
  (their scores are positions, converted with `f32OfNat`). Core Lean only.
-/
import Kitoken.Model.Convert
import Kitoken.Model.Export
namespace Kitoken.Proofs.F32
open Kitoken Kitoken.Convert
open Float.Model Float.Model.UnpackedFloat

theorem packComponents_toNat (s : Sign) (e : BitVec 8) (m : BitVec 23) :
    (packComponents Format.binary32 s e m).toNat % 2 ^ 31 = e.toNat * 2 ^ 23 + m.toNat := by
  unfold packComponents
  have hs := s.toBitVec.isLt
  have he := e.isLt
  have hm := m.isLt
  simp only [Format.binary32] at *
  rw [BitVec.toNat_append, BitVec.toNat_append]
  rw [← Nat.shiftLeft_add_eq_or_of_lt he, ← Nat.shiftLeft_add_eq_or_of_lt hm]
  simp only [Nat.shiftLeft_eq]
  omega

theorem isNaN_packComponents (s : Sign) (e : BitVec 8) (m : BitVec 23) (h : e.toNat < 255 ∨ m.toNat = 0) :
    f32IsNaN (UInt32.ofBitVec (packComponents Format.binary32 s e m)) = false := by
  unfold f32IsNaN
  have he := e.isLt
  have hm := m.isLt
  rw [UInt32.toNat_ofBitVec, packComponents_toNat]
  simp only [decide_eq_false_iff_not]
  omega

theorem isNaN_pack (u : UnpackedFloat) (hu : u ≠ .notANumber) :
    f32IsNaN (UInt32.ofBitVec (UnpackedFloat.pack Format.binary32 u)) = false := by
  fun_cases UnpackedFloat.pack with
  | case1 => exact absurd rfl hu
  | case2 s => exact isNaN_packComponents _ _ _ (Or.inr rfl)
  | case3 s => exact isNaN_packComponents _ _ _ (Or.inr rfl)
  | case4 s m e hm biasedExponent h => exact isNaN_packComponents _ _ _ (Or.inr rfl)
  | case5 s m e hm actualMantissaBits biasedExponent h₁ h₂ =>
    apply isNaN_packComponents
    left
    simp only [BitVec.toNat_ofNat]
    simp only at h₁ ⊢
    omega
  | case6 s m e hm actualMantissaBits biasedExponent h₁ h₂ =>
    exact isNaN_packComponents _ _ _ (Or.inl (by decide))

theorem roundWithAccuracy_ne_nan (spec : Format) (s : Sign) (m : Nat) (e : Int) (acc : Accuracy) :
    roundWithAccuracy spec s m e acc ≠ .notANumber := by
  unfold roundWithAccuracy
  simp only
  split <;> simp

theorem round_ne_nan (spec : Format) (s : Sign) (m : Nat) (e : Int) : round spec s m e ≠ .notANumber := by
  unfold round
  exact roundWithAccuracy_ne_nan _ _ _ _ _

theorem normalize_ne_nan (spec : Format) (m e : Int) (z : Sign) : normalize spec m e z ≠ .notANumber := by
  unfold normalize
  split
  · exact round_ne_nan _ _ _ _
  · simp
  · exact round_ne_nan _ _ _ _

theorem mul_finite_ne_nan (spec : Format) (a : UnpackedFloat) (ha : a ≠ .notANumber) (s : Sign) (m : Nat) (e : Int)
    (hm : 0 < m) : mul spec a (.finite s m e hm) ≠ .notANumber := by
  cases a with
  | notANumber => exact absurd rfl ha
  | infinity s' => simp [UnpackedFloat.mul]
  | zero s' => simp [UnpackedFloat.mul]
  | finite s' m' e' hm' => simp only [UnpackedFloat.mul]; exact roundWithAccuracy_ne_nan _ _ _ _ _

theorem unpack_pack_ne_nan (u : UnpackedFloat) (hu : u ≠ .notANumber) :
    UnpackedFloat.unpack Format.binary32 (UnpackedFloat.pack Format.binary32 u) ≠ .notANumber := by
  have hv : ¬ (unpackExponent (UnpackedFloat.pack Format.binary32 u) = -1#_ ∧
      unpackMantissa (UnpackedFloat.pack Format.binary32 u) ≠ 0#_) := by
    fun_cases UnpackedFloat.pack with
    | case1 => exact absurd rfl hu
    | case2 s => simp [packedInfinity]
    | case3 s => simp [packedZero]
    | case4 s m e hm biasedExponent h => simp [packedInfinity]
    | case5 s m e hm actualMantissaBits biasedExponent h₁ h₂ =>
      intro ⟨h, _⟩
      rw [unpackExponent_packComponents] at h
      have := congrArg BitVec.toNat h
      simp only [BitVec.toNat_ofNat] at this
      have h255 : (-1#8 : BitVec 8).toNat = 255 := by decide
      simp only [h255] at this h₁
      omega
    | case6 s m e hm actualMantissaBits biasedExponent h₁ h₂ =>
      simp
  unfold UnpackedFloat.unpack
  simp only
  split
  · split
    · simp
    · rename_i h1 h2; exact absurd ⟨h1, h2⟩ hv
  · split
    · split <;> simp
    · simp

theorem one_unpack : (Float32.ofBits 1065353216).toModel.unpack = .finite .positive 8388608 (-23) (by decide) := by rfl

theorem isNaN_mul_one (a : Float32) (ha : a.toModel.unpack ≠ .notANumber) :
    f32IsNaN (a * Float32.ofBits 1065353216).toBits = false := by
  show f32IsNaN (UInt32.ofBitVec (UnpackedFloat.pack Format.binary32
    (UnpackedFloat.mul Format.binary32 a.toModel.unpack (Float32.ofBits 1065353216).toModel.unpack))) = false
  rw [one_unpack]
  exact isNaN_pack _ (mul_finite_ne_nan _ _ ha _ _ _ _)

theorem ofUInt64_unpack_ne_nan (n : UInt64) : n.toFloat32.toModel.unpack ≠ .notANumber := by
  show UnpackedFloat.unpack Format.binary32 (UInt32.ofBitVec (UnpackedFloat.pack Format.binary32
    (UnpackedFloat.ofUInt64 Format.binary32 n))).toBitVec ≠ .notANumber
  rw [UInt32.toBitVec_ofBitVec]
  exact unpack_pack_ne_nan _ (normalize_ne_nan _ _ _ _)

theorem ofScientific_zero_ne_nan (m : Nat) : UnpackedFloat.ofScientific Format.binary32 m 0 ≠ .notANumber := by
  unfold UnpackedFloat.ofScientific
  split
  · simp
  · split
    · simp
    · split
      · simp
      · split
        · exact mul_finite_ne_nan _ _ (by simp) _ _ _ _
        · rename_i h; exact absurd (Int.le_refl 0) h

theorem f32OfNat_not_nan (i : Nat) : f32IsNaN (f32OfNat i) = false := by
  show f32IsNaN (Float32.ofScientific i false 0).toBits = false
  unfold Float32.ofScientific
  split
  · rename_i h
    have h1 : Float32.exactlyRepresentablePowersOfTen[0]'(by decide) = Float32.ofBits 1065353216 := rfl
    simp only [Bool.false_eq_true, if_false, h1]
    exact isNaN_mul_one _ (ofUInt64_unpack_ne_nan _)
  · show f32IsNaN (UInt32.ofBitVec (UnpackedFloat.pack Format.binary32
      (UnpackedFloat.ofScientific Format.binary32 i (Int.ofNat 0)))) = false
    exact isNaN_pack _ (ofScientific_zero_ne_nan i)

end Kitoken.Proofs.F32
