/-
  Lemmas for C17, part 4: every proper prefix of the encoding of a representable definition is
  rejected by the definition decoder, and hence every proper prefix of a native file by `fromSlice`.
  Follows the structure of the law proofs in Kitoken/Proofs/CodecDef.lean. Core Lean only.
-/
import Kitoken.Proofs.LoadTrunc
import Kitoken.Proofs.CodecDef
namespace Kitoken.Proofs.Load

open Kitoken Kitoken.Codec Kitoken.Utf8 Kitoken.DefCodec Kitoken.Spec Kitoken.Proofs.Codec

theorem trunc_nil (d : Bytes → Option (α × Bytes)) : TruncFails d [] := by
  intro p hp hne
  exact absurd (List.prefix_nil.mp hp) hne

set_option hygiene false in
/-- One step of a `do` block in the goal `(d p).bind g = none` with `hp : p <+: e₁ ++ e₂`,
    `hne : p ≠ e₁ ++ e₂`: give `TruncFails d e₁` and the law of `d` at `e₁`. -/
macro "trunc_step " ht:term ", " hl:term : tactic =>
  `(tactic| (refine trunc_bind hp hne $ht $hl ?_
             clear hp hne
             intro p hp hne
             dsimp only))

/-! ## unit enums -/

theorem unitEnum_trunc (name : String) (names : List String) (tagOf : α → Nat) (ofTag : Nat → Option α) (x : α)
    (ht : tagOf x < 2 ^ 32) : CTrunc (unitEnum name names tagOf ofTag) x :=
  enum_trunc _ _ _ _ _ _ ht (trunc_nil _)

theorem fallback_trunc (x : Fallback) : CTrunc fallback x := by
  cases x <;> exact unitEnum_trunc _ _ _ _ _ (by decide)
theorem insertionPosition_trunc (x : InsertionPosition) : CTrunc insertionPosition x := by
  cases x <;> exact unitEnum_trunc _ _ _ _ _ (by decide)
theorem specialKind_trunc (x : SpecialKind) : CTrunc specialKind x := by
  cases x <;> exact unitEnum_trunc _ _ _ _ _ (by decide)
theorem unicodeScheme_trunc (x : UnicodeScheme) : CTrunc unicodeScheme x := by
  cases x <;> exact unitEnum_trunc _ _ _ _ _ (by decide)
theorem normCondition_trunc (x : NormCondition) : CTrunc normCondition x := by
  cases x <;> exact unitEnum_trunc _ _ _ _ _ (by decide)
theorem splitBehavior_trunc (x : SplitBehavior) : CTrunc splitBehavior x := by
  cases x <;> exact unitEnum_trunc _ _ _ _ _ (by decide)
theorem direction_trunc (x : Direction) : CTrunc direction x := by
  cases x <;> exact unitEnum_trunc _ _ _ _ _ (by decide)

theorem nat32_trunc (n : Nat) : CTrunc nat32 n := varU32_trunc n

/-! ## patterns -/

theorem regex_trunc (ok : Bytes → Option Bool) (p : String) (hs : ((regex ok).enc p).length < 2 ^ 64) :
    CTrunc (regex ok) p := by
  intro q hq hne
  simp only [regex, Option.bind_eq_bind] at hs hq hne ⊢
  exact trunc_last hq hne (str_trunc_of_small _ hs)

theorem replacePattern_trunc (name : String) (ok : Bytes → Option Bool) (p : ReplacePattern)
    (hs : ((replacePattern name ok).enc p).length < 2 ^ 64) : CTrunc (replacePattern name ok) p := by
  unfold replacePattern at hs ⊢
  cases p with
  | char c =>
    apply enum_trunc _ _ _ _ _ _ (by simp)
    exact trunc_map (char_trunc c) _
  | string s =>
    have hs' : (Codec.str.enc s).length < 2 ^ 64 := by
      simp only [Codec.enum, List.length_append] at hs; omega
    apply enum_trunc _ _ _ _ _ _ (by simp)
    exact trunc_map (str_trunc_of_small s hs') _
  | regex q =>
    have hs' : ((regex ok).enc q).length < 2 ^ 64 := by
      simp only [Codec.enum, List.length_append] at hs; omega
    apply enum_trunc _ _ _ _ _ _ (by simp)
    exact trunc_map (regex_trunc ok q hs') _

theorem splitPattern_trunc (ok : Bytes → Option Bool) (p : SplitPattern)
    (hs : ((DefCodec.splitPattern ok).enc p).length < 2 ^ 64) : CTrunc (DefCodec.splitPattern ok) p := by
  unfold DefCodec.splitPattern at hs ⊢
  cases p with
  | char c => exact iso_trunc _ _ _ _ (replacePattern_trunc _ ok _ hs)
  | string s => exact iso_trunc _ _ _ _ (replacePattern_trunc _ ok _ hs)
  | regex q => exact iso_trunc _ _ _ _ (replacePattern_trunc _ ok _ hs)

theorem charsMap_trunc (m : CharsMap) (hs : (charsMap.enc m).length < 2 ^ 64) : CTrunc charsMap m := by
  unfold charsMap at hs ⊢
  apply struct_trunc
  apply iso_trunc
  apply pair_trunc_of_small _ _ _ _ hs
  · intro h
    exact seq_law_of_small _ _ (fun x _ => u32_enc_pos x) h (fun x _ _ => u32_law x)
  · intro h
    exact seq_trunc_of_small _ _ (fun x _ => u32_enc_pos x) h (fun x _ _ => u32_law x) (fun x _ _ => u32_trunc x)
  · intro h
    exact bytes_trunc_of_small _ h

/-! ## Normalization -/

theorem decNormalization_trunc (ok : Bytes → Option Bool) (n : Normalization) :
    ∀ (fuel : Nat), normOk ok n → (encNormalization ok n).length < 2 ^ 64 →
      TruncFails (decNormalization ok fuel) (encNormalization ok n) := by
  induction n with
  | unicode s =>
    intro fuel _ _ p hp hne
    cases fuel with
    | zero => rfl
    | succ f =>
      simp only [encNormalization, decNormalization, Option.bind_eq_bind] at hp hne ⊢
      trunc_step (varint_trunc 5 15 5 _), (decVarint_u32 0 (by decide))
      exact trunc_map (unicodeScheme_trunc s) _ p hp hne
  | nmt =>
    intro fuel _ _ p hp hne
    cases fuel with
    | zero => rfl
    | succ f =>
      simp only [encNormalization, decNormalization, Option.bind_eq_bind] at hp hne ⊢
      exact trunc_last hp hne (varint_trunc 5 15 5 _)
  | caseFold u =>
    intro fuel _ _ p hp hne
    cases fuel with
    | zero => rfl
    | succ f =>
      simp only [encNormalization, decNormalization, Option.bind_eq_bind] at hp hne ⊢
      trunc_step (varint_trunc 5 15 5 _), (decVarint_u32 2 (by decide))
      exact trunc_map (bool_trunc u) _ p hp hne
  | append s =>
    intro fuel hn hs p hp hne
    have hs' : (Codec.str.enc s).length < 2 ^ 64 := by
      simp only [encNormalization, List.length_append] at hs; omega
    cases fuel with
    | zero => rfl
    | succ f =>
      simp only [encNormalization, decNormalization, Option.bind_eq_bind] at hp hne ⊢
      trunc_step (varint_trunc 5 15 5 _), (decVarint_u32 3 (by decide))
      exact trunc_map (str_trunc_of_small s hs') _ p hp hne
  | prepend s =>
    intro fuel hn hs p hp hne
    have hs' : (Codec.str.enc s).length < 2 ^ 64 := by
      simp only [encNormalization, List.length_append] at hs; omega
    cases fuel with
    | zero => rfl
    | succ f =>
      simp only [encNormalization, decNormalization, Option.bind_eq_bind] at hp hne ⊢
      trunc_step (varint_trunc 5 15 5 _), (decVarint_u32 4 (by decide))
      exact trunc_map (str_trunc_of_small s hs') _ p hp hne
  | extend c l rt pd =>
    intro fuel hn hs p hp hne
    cases fuel with
    | zero => rfl
    | succ f =>
      simp only [encNormalization, decNormalization, List.append_assoc, Option.bind_eq_bind] at hp hne ⊢
      trunc_step (varint_trunc 5 15 5 _), (decVarint_u32 5 (by decide))
      trunc_step (char_trunc c), (char_law c)
      trunc_step (nat32_trunc l), (nat32_law l hn.1)
      trunc_step (nat32_trunc rt), (nat32_law rt hn.2)
      exact trunc_last hp hne (bool_trunc pd)
  | strip c l rt =>
    intro fuel hn hs p hp hne
    cases fuel with
    | zero => rfl
    | succ f =>
      simp only [encNormalization, decNormalization, List.append_assoc, Option.bind_eq_bind] at hp hne ⊢
      trunc_step (varint_trunc 5 15 5 _), (decVarint_u32 6 (by decide))
      trunc_step (char_trunc c), (char_law c)
      trunc_step (nat32_trunc l), (nat32_law l hn.1)
      exact trunc_last hp hne (nat32_trunc rt)
  | collapse c =>
    intro fuel hn hs p hp hne
    cases fuel with
    | zero => rfl
    | succ f =>
      simp only [encNormalization, decNormalization, Option.bind_eq_bind] at hp hne ⊢
      trunc_step (varint_trunc 5 15 5 _), (decVarint_u32 7 (by decide))
      exact trunc_map (char_trunc c) _ p hp hne
  | replace pt rep =>
    intro fuel hn hs p hp hne
    have hs1 : ((replacePattern "NormalizationReplacePattern" ok).enc pt).length < 2 ^ 64 := by
      simp only [encNormalization, List.length_append] at hs; omega
    have hs2 : (Codec.str.enc rep).length < 2 ^ 64 := by
      simp only [encNormalization, List.length_append] at hs; omega
    cases fuel with
    | zero => rfl
    | succ f =>
      simp only [encNormalization, decNormalization, List.append_assoc, Option.bind_eq_bind] at hp hne ⊢
      trunc_step (varint_trunc 5 15 5 _), (decVarint_u32 8 (by decide))
      trunc_step (replacePattern_trunc _ ok pt hs1), (replacePattern_law _ ok pt hn.1 hs1)
      exact trunc_last hp hne (str_trunc_of_small rep hs2)
  | charsMap m =>
    intro fuel hn hs p hp hne
    have hs1 : (charsMap.enc m).length < 2 ^ 64 := by
      simp only [encNormalization, List.length_append] at hs; omega
    cases fuel with
    | zero => rfl
    | succ f =>
      simp only [encNormalization, decNormalization, Option.bind_eq_bind] at hp hne ⊢
      trunc_step (varint_trunc 5 15 5 _), (decVarint_u32 9 (by decide))
      exact trunc_map (charsMap_trunc m hs1) _ p hp hne
  | conditional c i ih =>
    intro fuel hn hs p hp hne
    have hs1 : (encNormalization ok i).length < 2 ^ 64 := by
      simp only [encNormalization, List.length_append] at hs; omega
    cases fuel with
    | zero => rfl
    | succ f =>
      simp only [encNormalization, decNormalization, List.append_assoc, Option.bind_eq_bind] at hp hne ⊢
      trunc_step (varint_trunc 5 15 5 _), (decVarint_u32 10 (by decide))
      trunc_step (normCondition_trunc c), (normCondition_law c)
      exact trunc_last hp hne (ih f hn hs1)

theorem normalization_trunc (ok : Bytes → Option Bool) (n : Normalization) (hn : normOk ok n)
    (hs : ((normalization ok).enc n).length < 2 ^ 64) : CTrunc (normalization ok) n :=
  fun p hp hne => decNormalization_trunc ok n (p.length + 1) hn hs p hp hne

/-! ## Split, Processing, Decoding -/

theorem split_trunc (ok : Bytes → Option Bool) (x : Split) (hx : splitOk ok x)
    (hs : ((DefCodec.split ok).enc x).length < 2 ^ 64) : CTrunc (DefCodec.split ok) x := by
  unfold DefCodec.split at hs ⊢
  cases x with
  | pattern pt b =>
    have hs1 : ((DefCodec.splitPattern ok).enc pt).length < 2 ^ 64 := by
      simp only [Codec.enum, List.length_append] at hs; omega
    apply enum_trunc _ _ _ _ _ _ (by simp)
    intro p hp hne
    simp only [Option.bind_eq_bind] at hp hne ⊢
    trunc_step (splitPattern_trunc ok pt hs1), (splitPattern_law ok pt b hx hs1)
    exact trunc_last hp hne (splitBehavior_trunc b)
  | unicodeScript =>
    apply enum_trunc _ _ _ _ _ _ (by simp)
    exact trunc_nil _

theorem processing_trunc (x : Processing) (hx : processingOk x) : CTrunc DefCodec.processing x := by
  unfold DefCodec.processing
  cases x with
  | strip id l rt =>
    apply enum_trunc _ _ _ _ _ _ (by simp)
    intro p hp hne
    simp only [List.append_assoc, Option.bind_eq_bind] at hp hne ⊢
    trunc_step (u32_trunc id), (u32_law id)
    trunc_step (nat32_trunc l), (nat32_law l hx.1)
    exact trunc_last hp hne (nat32_trunc rt)
  | collapse id =>
    apply enum_trunc _ _ _ _ _ _ (by simp)
    exact trunc_map (u32_trunc id) _
  | pad id n s d =>
    apply enum_trunc _ _ _ _ _ _ (by simp)
    intro p hp hne
    simp only [List.append_assoc, Option.bind_eq_bind] at hp hne ⊢
    trunc_step (u32_trunc id), (u32_law id)
    trunc_step (nat32_trunc n), (nat32_law n hx.1)
    trunc_step (nat32_trunc s), (nat32_law s hx.2)
    exact trunc_last hp hne (direction_trunc d)
  | truncate n s d =>
    apply enum_trunc _ _ _ _ _ _ (by simp)
    intro p hp hne
    simp only [List.append_assoc, Option.bind_eq_bind] at hp hne ⊢
    trunc_step (nat32_trunc n), (nat32_law n hx.1)
    trunc_step (nat32_trunc s), (nat32_law s hx.2)
    exact trunc_last hp hne (direction_trunc d)

theorem decoding_trunc (ok : Bytes → Option Bool) (x : Decoding) (hx : decodingOk ok x)
    (hs : ((DefCodec.decoding ok).enc x).length < 2 ^ 64) : CTrunc (DefCodec.decoding ok) x := by
  unfold DefCodec.decoding at hs ⊢
  cases x with
  | extend c l rt pd =>
    apply enum_trunc _ _ _ _ _ _ (by simp)
    intro p hp hne
    simp only [List.append_assoc, Option.bind_eq_bind] at hp hne ⊢
    trunc_step (char_trunc c), (char_law c)
    trunc_step (nat32_trunc l), (nat32_law l hx.1)
    trunc_step (nat32_trunc rt), (nat32_law rt hx.2)
    exact trunc_last hp hne (bool_trunc pd)
  | strip c l rt =>
    apply enum_trunc _ _ _ _ _ _ (by simp)
    intro p hp hne
    simp only [List.append_assoc, Option.bind_eq_bind] at hp hne ⊢
    trunc_step (char_trunc c), (char_law c)
    trunc_step (nat32_trunc l), (nat32_law l hx.1)
    exact trunc_last hp hne (nat32_trunc rt)
  | collapse c =>
    apply enum_trunc _ _ _ _ _ _ (by simp)
    exact trunc_map (char_trunc c) _
  | replace pt rep =>
    have hs1 : ((replacePattern "DecodingReplacePattern" ok).enc pt).length < 2 ^ 64 := by
      simp only [Codec.enum, List.length_append] at hs; omega
    have hs2 : (Codec.str.enc rep).length < 2 ^ 64 := by
      simp only [Codec.enum, List.length_append] at hs; omega
    apply enum_trunc _ _ _ _ _ _ (by simp)
    intro p hp hne
    simp only [Option.bind_eq_bind] at hp hne ⊢
    trunc_step (replacePattern_trunc _ ok pt hs1), (replacePattern_law _ ok pt hx.1 hs1)
    exact trunc_last hp hne (str_trunc_of_small rep hs2)

/-! ## Template, Token, SpecialToken -/

theorem template_trunc (t : Template) (hv : validUtf8 t.content = true) (hs : (template.enc t).length < 2 ^ 64) :
    CTrunc template t := by
  unfold template at hs ⊢
  apply struct_trunc
  apply iso_trunc
  apply pair_trunc_of_small _ _ _ _ hs
  · intro h; exact str_law_of_small _ h hv
  · intro h; exact str_trunc_of_small _ h
  · intro _; exact insertionPosition_trunc _

theorem token_trunc (t : Id × Bytes) (hs : (token.enc t).length < 2 ^ 64) : CTrunc token t := by
  unfold token at hs ⊢
  obtain ⟨i, b⟩ := t
  apply struct_trunc
  apply pair_trunc_of_small _ _ _ _ hs
  · intro _; exact u32_law i
  · intro _; exact u32_trunc i
  · intro h; exact bytes_trunc_of_small _ h

theorem specialToken_trunc (t : SpecialDef) (hi : ∀ i, t.ident = some i → validUtf8 i = true)
    (hs : (specialToken.enc t).length < 2 ^ 64) : CTrunc specialToken t := by
  unfold specialToken at hs ⊢
  apply struct_trunc
  apply iso_trunc
  apply pair_trunc_of_small _ _ _ _ hs
  · intro _; exact u32_law _
  · intro _; exact u32_trunc _
  intro hs
  apply pair_trunc_of_small _ _ _ _ hs
  · intro h; exact bytes_law_of_small _ h
  · intro h; exact bytes_trunc_of_small _ h
  intro hs
  apply pair_trunc_of_small _ _ _ _ hs
  · intro _; exact specialKind_law _
  · intro _; exact specialKind_trunc _
  intro hs
  have hopt : ∀ y, t.ident = some y → (Codec.str.enc y).length < 2 ^ 64 := by
    intro y hy
    simp only [pair_enc, field_enc, List.length_append, Codec.option, hy, List.length_cons] at hs
    omega
  apply pair_trunc_of_small _ _ _ _ hs
  · intro _
    apply field_law
    apply option_law
    intro y hy
    exact str_law_of_small _ (hopt y hy) (hi y hy)
  · intro _
    apply field_trunc
    apply option_trunc
    intro y hy
    exact str_trunc_of_small _ (hopt y hy)
  intro hs
  apply pair_trunc_of_small _ _ _ _ hs
  · intro _; exact f32bits_law _
  · intro _; exact f32bits_trunc _
  · intro _; exact bool_trunc _

/-! ## Model, Metadata, Configuration, Definition -/

theorem seq_token_trunc (v : List (Id × Bytes)) (hs : ((Codec.seq token).enc v).length < 2 ^ 64) :
    CTrunc (Codec.seq token) v :=
  seq_trunc_of_small _ _ (fun x _ => token_pos x) hs (fun x _ h => token_law x h) (fun x _ h => token_trunc x h)

theorem seq_f32_trunc (v : List UInt32) (hs : ((Codec.seq Codec.f32bits).enc v).length < 2 ^ 64) :
    CTrunc (Codec.seq Codec.f32bits) v :=
  seq_trunc_of_small _ _ (fun x _ => f32bits_enc_pos x) hs (fun x _ _ => f32bits_law x) (fun x _ _ => f32bits_trunc x)

theorem model_trunc (m : ModelDef) (hs : (model.enc m).length < 2 ^ 64) : CTrunc model m := by
  unfold model at hs ⊢
  cases m with
  | bytePair v c =>
    have hs1 : ((Codec.seq token).enc v).length < 2 ^ 64 := by
      simp only [Codec.enum, List.length_append] at hs; omega
    apply enum_trunc _ _ _ _ _ _ (by simp)
    intro p hp hne
    simp only [Option.bind_eq_bind] at hp hne ⊢
    trunc_step (seq_token_trunc v hs1), (seq_token_law v hs1)
    exact trunc_last hp hne (bool_trunc c)
  | unigram v sc =>
    have hs1 : ((Codec.seq token).enc v).length < 2 ^ 64 := by
      simp only [Codec.enum, List.length_append] at hs; omega
    have hs2 : ((Codec.seq Codec.f32bits).enc sc).length < 2 ^ 64 := by
      simp only [Codec.enum, List.length_append] at hs; omega
    apply enum_trunc _ _ _ _ _ _ (by simp)
    intro p hp hne
    simp only [Option.bind_eq_bind] at hp hne ⊢
    trunc_step (seq_token_trunc v hs1), (seq_token_law v hs1)
    exact trunc_last hp hne (seq_f32_trunc sc hs2)
  | wordPiece v w =>
    have hs1 : ((Codec.seq token).enc v).length < 2 ^ 64 := by
      simp only [Codec.enum, List.length_append] at hs; omega
    apply enum_trunc _ _ _ _ _ _ (by simp)
    intro p hp hne
    simp only [Option.bind_eq_bind] at hp hne ⊢
    trunc_step (seq_token_trunc v hs1), (seq_token_law v hs1)
    exact trunc_last hp hne (nat32_trunc w)

theorem metadata_trunc (m : Metadata) (hv : validUtf8 m.version = true) (hso : validUtf8 m.source = true)
    (he : ∀ e ∈ m.entries, validUtf8 e.1 = true ∧ validUtf8 e.2 = true)
    (hs : (metadata.enc m).length < 2 ^ 64) : CTrunc metadata m := by
  unfold metadata at hs ⊢
  apply struct_trunc
  apply iso_trunc
  apply pair_trunc_of_small _ _ _ _ hs
  · intro h; exact str_law_of_small _ h hv
  · intro h; exact str_trunc_of_small _ h
  intro hs
  apply pair_trunc_of_small _ _ _ _ hs
  · intro h; exact str_law_of_small _ h hso
  · intro h; exact str_trunc_of_small _ h
  · intro h
    apply field_trunc
    apply seq_trunc_of_small _ _ _ h
    · intro x hx hsx
      obtain ⟨a, b⟩ := x
      apply tuple_law
      apply pair_law_of_small _ _ _ _ hsx
      · intro h; exact str_law_of_small _ h (he _ hx).1
      · intro h; exact str_law_of_small _ h (he _ hx).2
    · intro x hx hsx
      obtain ⟨a, b⟩ := x
      apply tuple_trunc
      apply pair_trunc_of_small _ _ _ _ hsx
      · intro h; exact str_law_of_small _ h (he _ hx).1
      · intro h; exact str_trunc_of_small _ h
      · intro h; exact str_trunc_of_small _ h
    · intro x _
      obtain ⟨a, b⟩ := x
      simp only [tuple_enc, pair_enc, List.length_append]
      have := str_enc_pos a; omega

theorem configuration_trunc (ok : Bytes → Option Bool) (c : ConfigDef)
    (hn : ∀ n ∈ c.normalization, normOk ok n) (hsp : ∀ s ∈ c.split, splitOk ok s)
    (hp : ∀ p ∈ c.processing, processingOk p) (hd : ∀ x ∈ c.decoding, decodingOk ok x)
    (ht : ∀ t ∈ c.templates, validUtf8 t.content = true)
    (hs : ((configuration ok).enc c).length < 2 ^ 64) : CTrunc (configuration ok) c := by
  unfold configuration at hs ⊢
  apply struct_trunc
  apply iso_trunc
  apply pair_trunc_of_small _ _ _ _ hs
  · intro h
    exact seq_law_of_small _ _ (fun x _ => fallback_pos x) h (fun x _ _ => fallback_law x)
  · intro h
    exact seq_trunc_of_small _ _ (fun x _ => fallback_pos x) h (fun x _ _ => fallback_law x) (fun x _ _ => fallback_trunc x)
  intro hs
  apply pair_trunc_of_small _ _ _ _ hs
  · intro h
    exact seq_law_of_small _ _ (fun x _ => normalization_pos ok x) h (fun x hx h => normalization_law ok x (hn x hx) h)
  · intro h
    exact seq_trunc_of_small _ _ (fun x _ => normalization_pos ok x) h
      (fun x hx h => normalization_law ok x (hn x hx) h) (fun x hx h => normalization_trunc ok x (hn x hx) h)
  intro hs
  apply pair_trunc_of_small _ _ _ _ hs
  · intro h
    exact seq_law_of_small _ _ (fun x _ => split_pos ok x) h (fun x hx h => split_law ok x (hsp x hx) h)
  · intro h
    exact seq_trunc_of_small _ _ (fun x _ => split_pos ok x) h
      (fun x hx h => split_law ok x (hsp x hx) h) (fun x hx h => split_trunc ok x (hsp x hx) h)
  intro hs
  apply pair_trunc_of_small _ _ _ _ hs
  · intro h
    exact seq_law_of_small _ _ (fun x _ => processing_pos x) h (fun x hx _ => processing_law x (hp x hx))
  · intro h
    exact seq_trunc_of_small _ _ (fun x _ => processing_pos x) h
      (fun x hx _ => processing_law x (hp x hx)) (fun x hx _ => processing_trunc x (hp x hx))
  intro hs
  apply pair_trunc_of_small _ _ _ _ hs
  · intro h
    exact seq_law_of_small _ _ (fun x _ => decoding_pos ok x) h (fun x hx h => decoding_law ok x (hd x hx) h)
  · intro h
    exact seq_trunc_of_small _ _ (fun x _ => decoding_pos ok x) h
      (fun x hx h => decoding_law ok x (hd x hx) h) (fun x hx h => decoding_trunc ok x (hd x hx) h)
  · intro h
    exact seq_trunc_of_small _ _ (fun x _ => template_pos x) h
      (fun x hx h => template_law x (ht x hx) h) (fun x hx h => template_trunc x (ht x hx) h)

/-- Every proper prefix of the encoding of a representable definition is rejected. -/
theorem definition_trunc (ok : Bytes → Option Bool) (d : Definition) (h : Representable ok d) :
    CTrunc (definition ok) d := by
  have hs := h.small
  unfold definition at hs ⊢
  apply struct_trunc
  apply iso_trunc
  apply pair_trunc_of_small _ _ _ _ hs
  · intro hs; exact metadata_law _ h.version h.source h.entries hs
  · intro hs; exact metadata_trunc _ h.version h.source h.entries hs
  intro hs
  apply pair_trunc_of_small _ _ _ _ hs
  · intro hs; exact model_law _ h.maxWord hs
  · intro hs; exact model_trunc _ hs
  intro hs
  apply pair_trunc_of_small _ _ _ _ hs
  · intro hs
    exact seq_law_of_small _ _ (fun x _ => specialToken_pos x) hs (fun x hx hs => specialToken_law x (h.idents x hx) hs)
  · intro hs
    exact seq_trunc_of_small _ _ (fun x _ => specialToken_pos x) hs
      (fun x hx hs => specialToken_law x (h.idents x hx) hs) (fun x hx hs => specialToken_trunc x (h.idents x hx) hs)
  · intro hs
    exact configuration_trunc ok _ h.norm h.split h.processing h.decoding h.templates hs

/-- Every proper prefix of a native file is rejected. -/
theorem truncation_rejected (d : Definition) (h : Representable (fun _ => some true) d) (n : Nat)
    (hn : n < (toVec d).length) : fromSlice (fun _ => some true) ((toVec d).take n) = none := by
  have hm : Generated.MAGIC.length = 7 := rfl
  have hv : Generated.VERSION.length = 2 := rfl
  by_cases hh : n < 9
  · apply fromSlice_checks
    left
    rw [List.length_take, hm, hv]; omega
  · have hn' : n - 9 < ((definition (fun _ => some true)).enc d).length := by
      simp only [toVec, List.length_append, hm, hv] at hn; omega
    have ht : (toVec d).take n =
        Generated.MAGIC ++ Generated.VERSION ++ ((definition (fun _ => some true)).enc d).take (n - 9) := by
      unfold toVec
      rw [List.take_append]
      have : (Generated.MAGIC ++ Generated.VERSION).length = 9 := by simp [hm, hv]
      rw [this, List.take_of_length_le (by omega)]
    rw [ht]
    unfold fromSlice
    simp only [List.length_append, List.append_assoc]
    rw [if_neg (by omega)]
    rw [List.take_left' rfl]
    simp only [bne_self_eq_false, Bool.false_eq_true, if_false]
    rw [List.drop_left' rfl, List.take_left' rfl]
    simp only [bne_self_eq_false, Bool.false_eq_true, if_false]
    rw [← List.append_assoc, List.drop_left' (by simp)]
    have := definition_trunc _ d h (((definition (fun _ => some true)).enc d).take (n - 9))
      (List.take_prefix _ _) (by
        intro e
        have := congrArg List.length e
        rw [List.length_take] at this
        omega)
    rw [this]; rfl

end Kitoken.Proofs.Load
