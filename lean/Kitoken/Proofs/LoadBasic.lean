/-
  Lemmas for C17, part 1: two properties of the decoders of Kitoken.Model.Codec, for arbitrary input.
  - `Suff d`: what a successful decode leaves is a suffix of its input (decoders only take bytes off
    the front);
  - `Eats d`: a successful decode consumes at least one byte.
  Both for every primitive, and preserved by every combinator. Core Lean only.
-/
import Kitoken.Proofs.CodecBasic
namespace Kitoken.Proofs.Load

open Kitoken Kitoken.Codec Kitoken.Utf8 Kitoken.Proofs.Codec

/-- What is left after a successful decode is a suffix of the input. -/
def Suff (d : Bytes → Option (α × Bytes)) : Prop := ∀ bs x rest, d bs = some (x, rest) → rest <:+ bs

/-- A successful decode takes at least one byte off the front. -/
def Eats (d : Bytes → Option (α × Bytes)) : Prop :=
  ∀ bs x rest, d bs = some (x, rest) → rest <:+ bs ∧ rest.length + 1 ≤ bs.length

theorem Eats.suff {d : Bytes → Option (α × Bytes)} (h : Eats d) : Suff d := fun bs x rest e => (h bs x rest e).1

theorem suffix_length_le {r bs : Bytes} (h : r <:+ bs) : r.length ≤ bs.length := h.length_le

/-! ## chaining through `Option.bind` / `Option.map` -/

theorem suff_bind {d : Bytes → Option (α × Bytes)} (hd : Suff d) {g : α × Bytes → Option (β × Bytes)}
    {bs : Bytes} {y : β} {rest : Bytes} (h : (d bs).bind g = some (y, rest))
    (hg : ∀ x r, g (x, r) = some (y, rest) → rest <:+ r) : rest <:+ bs := by
  cases hdb : d bs with
  | none => rw [hdb] at h; cases h
  | some p =>
    obtain ⟨x, r⟩ := p
    rw [hdb] at h
    exact (hg x r h).trans (hd bs x r hdb)

theorem eats_bind {d : Bytes → Option (α × Bytes)} (hd : Eats d) {g : α × Bytes → Option (β × Bytes)}
    {bs : Bytes} {y : β} {rest : Bytes} (h : (d bs).bind g = some (y, rest))
    (hg : ∀ x r, g (x, r) = some (y, rest) → rest <:+ r) : rest <:+ bs ∧ rest.length + 1 ≤ bs.length := by
  cases hdb : d bs with
  | none => rw [hdb] at h; cases h
  | some p =>
    obtain ⟨x, r⟩ := p
    rw [hdb] at h
    have h1 := hd bs x r hdb
    have h2 := hg x r h
    exact ⟨h2.trans h1.1, by have := h2.length_le; omega⟩

theorem suff_map {d : Bytes → Option (α × Bytes)} (hd : Suff d) (f : α → β) :
    Suff (fun bs => (d bs).map fun (x, r) => (f x, r)) := by
  intro bs y rest h
  cases hdb : d bs with
  | none => simp [hdb] at h
  | some p =>
    obtain ⟨x, r⟩ := p
    simp only [hdb, Option.map_some, Option.some.injEq, Prod.mk.injEq] at h
    obtain ⟨-, rfl⟩ := h
    exact hd bs x _ hdb

theorem eats_map {d : Bytes → Option (α × Bytes)} (hd : Eats d) (f : α → β) :
    Eats (fun bs => (d bs).map fun (x, r) => (f x, r)) := by
  intro bs y rest h
  cases hdb : d bs with
  | none => simp [hdb] at h
  | some p =>
    obtain ⟨x, r⟩ := p
    simp only [hdb, Option.map_some, Option.some.injEq, Prod.mk.injEq] at h
    obtain ⟨-, rfl⟩ := h
    exact hd bs x _ hdb

/-! ## varints -/

theorem decVarint_eats (mb lm : Nat) : ∀ (fuel shift acc : Nat) (bs : Bytes) (n : Nat) (rest : Bytes),
    decVarint mb lm fuel shift acc bs = some (n, rest) → rest <:+ bs ∧ rest.length + 1 ≤ bs.length := by
  intro fuel
  induction fuel with
  | zero => intro shift acc bs n rest h; simp [decVarint] at h
  | succ f ih =>
    intro shift acc bs n rest h
    cases bs with
    | nil => simp [decVarint] at h
    | cons b t =>
      simp only [decVarint] at h
      split at h
      · split at h
        · cases h
        · simp only [Option.some.injEq, Prod.mk.injEq] at h
          obtain ⟨-, rfl⟩ := h
          exact ⟨List.suffix_cons _ _, by simp⟩
      · split at h
        · cases h
        · have := ih _ _ _ _ _ h
          exact ⟨this.1.trans (List.suffix_cons _ _), by simp only [List.length_cons]; omega⟩

theorem varint_eats (mb lm fuel : Nat) : Eats (fun bs => decVarint mb lm fuel 0 0 bs) :=
  fun bs n rest h => decVarint_eats mb lm fuel 0 0 bs n rest h

theorem varU32_eats : Eats varU32.dec := varint_eats 5 15 5
theorem varUsize_eats : Eats varUsize.dec := varint_eats 10 1 10
theorem u32_eats : Eats Codec.u32.dec := eats_map (varint_eats 5 15 5) _

/-! ## fixed-size scalars -/

theorem bool_eats : Eats Codec.bool.dec := by
  intro bs x rest h
  simp only [Codec.bool] at h
  split at h
  · simp only [Option.some.injEq, Prod.mk.injEq] at h; obtain ⟨-, rfl⟩ := h
    exact ⟨List.suffix_cons _ _, by simp⟩
  · simp only [Option.some.injEq, Prod.mk.injEq] at h; obtain ⟨-, rfl⟩ := h
    exact ⟨List.suffix_cons _ _, by simp⟩
  · cases h

theorem f32bits_eats : Eats Codec.f32bits.dec := by
  intro bs x rest h
  simp only [Codec.f32bits] at h
  split at h
  · simp only [Option.some.injEq, Prod.mk.injEq] at h; obtain ⟨-, rfl⟩ := h
    refine ⟨?_, by simp⟩
    exact ⟨[_, _, _, _], rfl⟩
  · cases h

/-! ## byte strings -/

theorem takeN_suff : ∀ (n : Nat) (bs x rest : Bytes), takeN n bs = some (x, rest) → rest <:+ bs ∧ x.length = n := by
  intro n
  induction n with
  | zero =>
    intro bs x rest h
    simp only [takeN, Option.some.injEq, Prod.mk.injEq] at h
    obtain ⟨rfl, rfl⟩ := h
    exact ⟨List.suffix_refl _, rfl⟩
  | succ n ih =>
    intro bs x rest h
    cases bs with
    | nil => simp [takeN] at h
    | cons b t =>
      simp only [takeN] at h
      cases ht : takeN n t with
      | none => simp [ht] at h
      | some p =>
        obtain ⟨x', r'⟩ := p
        simp only [ht, Option.map_some, Option.some.injEq, Prod.mk.injEq] at h
        obtain ⟨rfl, rfl⟩ := h
        have := ih t x' r' ht
        exact ⟨this.1.trans (List.suffix_cons _ _), by simp [this.2]⟩

theorem bytes_eats : Eats Codec.bytes.dec := by
  intro bs x rest h
  simp only [Codec.bytes, Option.bind_eq_bind] at h
  refine eats_bind (varint_eats 10 1 10) h ?_
  intro n r h
  exact (takeN_suff n r x rest h).1

theorem str_eats : Eats Codec.str.dec := by
  intro bs x rest h
  simp only [Codec.str, Option.bind_eq_bind] at h
  refine eats_bind (varint_eats 10 1 10) h ?_
  intro n r h
  dsimp only at h
  cases ht : takeN n r with
  | none => simp [ht] at h
  | some p =>
    obtain ⟨s, r'⟩ := p
    simp only [ht, Option.bind_some] at h
    split at h
    · simp only [Option.some.injEq, Prod.mk.injEq] at h
      obtain ⟨-, rfl⟩ := h
      exact (takeN_suff n r s _ ht).1
    · cases h

theorem char_eats : Eats Codec.char.dec := by
  intro bs x rest h
  simp only [Codec.char, Option.bind_eq_bind] at h
  refine eats_bind (varint_eats 10 1 10) h ?_
  intro n r h
  dsimp only at h
  split at h
  · cases h
  · cases ht : takeN n r with
    | none => simp [ht] at h
    | some p =>
      obtain ⟨s, r'⟩ := p
      simp only [ht, Option.bind_some] at h
      split at h
      · cases h
      · split at h
        · simp only [Option.some.injEq, Prod.mk.injEq] at h
          obtain ⟨-, rfl⟩ := h
          exact (takeN_suff n r s _ ht).1
        · cases h

/-! ## combinators -/

theorem option_eats (c : Codec α) (hc : Suff c.dec) : Eats (Codec.option c).dec := by
  intro bs x rest h
  simp only [Codec.option] at h
  split at h
  · simp only [Option.some.injEq, Prod.mk.injEq] at h; obtain ⟨-, rfl⟩ := h
    exact ⟨List.suffix_cons _ _, by simp⟩
  · rename_i r
    have := suff_map hc some r x rest h
    exact ⟨this.trans (List.suffix_cons _ _), by have := this.length_le; simp only [List.length_cons]; omega⟩
  · cases h

theorem pair_suff (a : Codec α) (b : Codec β) (ha : Suff a.dec) (hb : Suff b.dec) : Suff (Codec.pair a b).dec := by
  intro bs x rest h
  simp only [Codec.pair, Option.bind_eq_bind] at h
  refine suff_bind ha h ?_
  intro x₁ r h
  dsimp only at h
  refine suff_bind hb h ?_
  intro y r' h
  simp only [Option.pure_def, Option.some.injEq, Prod.mk.injEq] at h
  obtain ⟨-, rfl⟩ := h
  exact List.suffix_refl _

theorem pair_eats (a : Codec α) (b : Codec β) (ha : Eats a.dec) (hb : Suff b.dec) : Eats (Codec.pair a b).dec := by
  intro bs x rest h
  simp only [Codec.pair, Option.bind_eq_bind] at h
  refine eats_bind ha h ?_
  intro x₁ r h
  dsimp only at h
  refine suff_bind hb h ?_
  intro y r' h
  simp only [Option.pure_def, Option.some.injEq, Prod.mk.injEq] at h
  obtain ⟨-, rfl⟩ := h
  exact List.suffix_refl _

theorem iso_suff (c : Codec α) (to : α → β) (back : β → α) (hc : Suff c.dec) : Suff (Codec.iso c to back).dec :=
  suff_map hc to

theorem iso_eats (c : Codec α) (to : α → β) (back : β → α) (hc : Eats c.dec) : Eats (Codec.iso c to back).dec :=
  eats_map hc to

theorem field_suff (name : String) (c : Codec α) (h : Suff c.dec) : Suff (Codec.field name c).dec := h
theorem struct_suff (name : String) (c : Codec α) (h : Suff c.dec) : Suff (Codec.struct name c).dec := h
theorem tuple_suff (c : Codec α) (h : Suff c.dec) : Suff (Codec.tuple c).dec := h
theorem field_eats (name : String) (c : Codec α) (h : Eats c.dec) : Eats (Codec.field name c).dec := h
theorem struct_eats (name : String) (c : Codec α) (h : Eats c.dec) : Eats (Codec.struct name c).dec := h
theorem tuple_eats (c : Codec α) (h : Eats c.dec) : Eats (Codec.tuple c).dec := h

/-- A list of decoded elements leaves a suffix. -/
theorem decList_suff (d : Bytes → Option (α × Bytes)) (hd : Suff d) :
    ∀ (n : Nat) (bs : Bytes) (l : List α) (rest : Bytes), decList d n bs = some (l, rest) → rest <:+ bs := by
  intro n
  induction n with
  | zero =>
    intro bs l rest h
    simp only [decList, Option.some.injEq, Prod.mk.injEq] at h
    obtain ⟨-, rfl⟩ := h
    exact List.suffix_refl _
  | succ n ih =>
    intro bs l rest h
    simp only [decList, Option.bind_eq_bind] at h
    refine suff_bind hd h ?_
    intro x r h
    dsimp only at h
    refine suff_bind (fun bs l rest h => ih bs l rest h) h ?_
    intro xs r' h
    simp only [Option.pure_def, Option.some.injEq, Prod.mk.injEq] at h
    obtain ⟨-, rfl⟩ := h
    exact List.suffix_refl _

/-- When every element takes at least one byte, there are no more elements than bytes consumed. -/
theorem decList_count (d : Bytes → Option (α × Bytes)) (hd : Eats d) :
    ∀ (n : Nat) (bs : Bytes) (l : List α) (rest : Bytes), decList d n bs = some (l, rest) →
      l.length + rest.length ≤ bs.length := by
  intro n
  induction n with
  | zero =>
    intro bs l rest h
    simp only [decList, Option.some.injEq, Prod.mk.injEq] at h
    obtain ⟨rfl, rfl⟩ := h
    simp
  | succ n ih =>
    intro bs l rest h
    simp only [decList, Option.bind_eq_bind] at h
    cases hx : d bs with
    | none => simp [hx] at h
    | some p =>
      obtain ⟨x, r⟩ := p
      simp only [hx, Option.bind_some] at h
      cases hxs : decList d n r with
      | none => simp [hxs] at h
      | some q =>
        obtain ⟨xs, r'⟩ := q
        simp only [hxs, Option.bind_some, Option.pure_def, Option.some.injEq, Prod.mk.injEq] at h
        obtain ⟨rfl, rfl⟩ := h
        have h1 := (hd bs x r hx).2
        have h2 := ih r xs _ hxs
        simp only [List.length_cons]; omega

theorem seq_eats (c : Codec α) (hc : Suff c.dec) : Eats (Codec.seq c).dec := by
  intro bs l rest h
  simp only [Codec.seq, Option.bind_eq_bind] at h
  refine eats_bind (varint_eats 10 1 10) h ?_
  intro n r h
  exact decList_suff c.dec hc n r l rest h

/-- A decoded sequence has no more elements than the decoder consumed bytes (the length prefix
    itself takes one more). -/
theorem seq_count (c : Codec α) (hc : Eats c.dec) (bs : Bytes) (l : List α) (rest : Bytes)
    (h : (Codec.seq c).dec bs = some (l, rest)) : l.length + rest.length + 1 ≤ bs.length := by
  simp only [Codec.seq, Option.bind_eq_bind] at h
  cases hn : decVarint 10 1 10 0 0 bs with
  | none => simp [hn] at h
  | some p =>
    obtain ⟨n, r⟩ := p
    simp only [hn, Option.bind_some] at h
    have h1 := (decVarint_eats 10 1 10 0 0 bs n r hn).2
    have h2 := decList_count c.dec hc n r l rest h
    omega

theorem enum_eats (name : String) (shapes : List String) (tagOf : α → Nat) (encV : α → Bytes)
    (decV : Nat → Bytes → Option (α × Bytes)) (h : ∀ t, Suff (decV t)) :
    Eats (Codec.enum name shapes tagOf encV decV).dec := by
  intro bs x rest e
  simp only [Codec.enum, Option.bind_eq_bind] at e
  refine eats_bind (varint_eats 5 15 5) e ?_
  intro t r e
  exact h t r x rest e

end Kitoken.Proofs.Load
