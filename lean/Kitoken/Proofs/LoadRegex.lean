/-
  Lemmas for C17, part 5: the regex oracle. A body written with an oracle that accepts every pattern
  and read with an oracle `ok` that does not return `some true` for one of the split patterns is
  rejected. The decoders with oracle `ok` fail or agree with those of the accepting oracle
  (`Refines`), so everything before the offending pattern is read back or fails, and the pattern
  itself fails. Core Lean only.
-/
import Kitoken.Proofs.CodecDef
namespace Kitoken.Proofs.Load

open Kitoken Kitoken.Codec Kitoken.Utf8 Kitoken.DefCodec Kitoken.Spec Kitoken.Proofs.Codec

/-- The oracle that accepts every pattern. -/
abbrev acc : Bytes → Option Bool := fun _ => some true

/-- `d` fails or agrees with `d'`. -/
def Refines (d d' : Bytes → Option (α × Bytes)) : Prop := ∀ bs, d bs = none ∨ d bs = d' bs

/-- `d` fails on `e` followed by anything. -/
def Fails (d : Bytes → Option (α × Bytes)) (e : Bytes) : Prop := ∀ r, d (e ++ r) = none

/-- `d` reads `x` back from `e`, or fails. -/
def LawOrFail (d : Bytes → Option (α × Bytes)) (e : Bytes) (x : α) : Prop :=
  ∀ r, d (e ++ r) = none ∨ d (e ++ r) = some (x, r)

theorem lawOrFail_of_law {d : Bytes → Option (α × Bytes)} {e : Bytes} {x : α} (h : ∀ r, d (e ++ r) = some (x, r)) :
    LawOrFail d e x := fun r => Or.inr (h r)

theorem lawOrFail_of_refines {d d' : Bytes → Option (α × Bytes)} {e : Bytes} {x : α} (hr : Refines d d')
    (h : ∀ r, d' (e ++ r) = some (x, r)) : LawOrFail d e x := by
  intro r
  rcases hr (e ++ r) with h1 | h1
  · exact Or.inl h1
  · exact Or.inr (h1.trans (h r))

/-! ## refinement -/

theorem refines_map {d d' : Bytes → Option (α × Bytes)} (h : Refines d d') (f : α × Bytes → β × Bytes) :
    Refines (fun bs => (d bs).map f) (fun bs => (d' bs).map f) := by
  intro bs
  rcases h bs with e | e
  · left; simp only [e, Option.map_none]
  · right; simp only [e]

theorem refines_bind {d d' : Bytes → Option (α × Bytes)} {g g' : α × Bytes → Option (β × Bytes)}
    (h : Refines d d') (hg : ∀ q, g q = none ∨ g q = g' q) :
    Refines (fun bs => (d bs).bind g) (fun bs => (d' bs).bind g') := by
  intro bs
  rcases h bs with e | e
  · left; simp only [e, Option.bind_none]
  · simp only [← e]
    cases d bs with
    | none => left; rfl
    | some q => exact hg q

theorem refines_refl (d : Bytes → Option (α × Bytes)) : Refines d d := fun _ => Or.inr rfl

theorem regex_refines (ok : Bytes → Option Bool) : Refines (regex ok).dec (regex acc).dec := by
  intro bs
  simp only [regex, Option.bind_eq_bind]
  cases Codec.str.dec bs with
  | none => left; rfl
  | some q =>
    obtain ⟨b, r⟩ := q
    simp only [Option.bind_some]
    rcases hk : ok b with _ | _ | _
    · left; rfl
    · left; rfl
    · right; rfl

theorem enum_refines (name name' : String) (shapes shapes' : List String) (tagOf tagOf' : α → Nat) (encV encV' : α → Bytes)
    (decV decV' : Nat → Bytes → Option (α × Bytes)) (h : ∀ t, Refines (decV t) (decV' t)) :
    Refines (Codec.enum name shapes tagOf encV decV).dec (Codec.enum name' shapes' tagOf' encV' decV').dec := by
  simp only [Codec.enum, Option.bind_eq_bind]
  exact refines_bind (refines_refl _) (fun q => h q.1 q.2)

theorem replacePattern_refines (name : String) (ok : Bytes → Option Bool) :
    Refines (replacePattern name ok).dec (replacePattern name acc).dec := by
  unfold replacePattern
  apply enum_refines
  intro t bs
  split
  · right; rfl
  · right; rfl
  · exact refines_map (regex_refines ok) _ bs
  · right; rfl

theorem splitPattern_refines (ok : Bytes → Option Bool) :
    Refines (DefCodec.splitPattern ok).dec (DefCodec.splitPattern acc).dec :=
  refines_map (replacePattern_refines _ ok) _

theorem split_refines (ok : Bytes → Option Bool) : Refines (DefCodec.split ok).dec (DefCodec.split acc).dec := by
  unfold DefCodec.split
  apply enum_refines
  intro t bs
  split
  · simp only [Option.bind_eq_bind]
    exact refines_bind (splitPattern_refines ok) (fun _ => Or.inr rfl) bs
  · right; rfl
  · right; rfl

theorem decNormalization_refines (ok : Bytes → Option Bool) :
    ∀ fuel, Refines (decNormalization ok fuel) (decNormalization acc fuel) := by
  intro fuel
  induction fuel with
  | zero => intro bs; left; rfl
  | succ f ih =>
    intro bs
    simp only [decNormalization, Option.bind_eq_bind]
    refine refines_bind (refines_refl _) ?_ bs
    intro q
    obtain ⟨t, r⟩ := q
    dsimp only
    split
    · right; rfl
    · right; rfl
    · right; rfl
    · right; rfl
    · right; rfl
    · right; rfl
    · right; rfl
    · right; rfl
    · exact refines_bind (replacePattern_refines _ ok) (fun _ => Or.inr rfl) r
    · right; rfl
    · refine refines_bind (refines_refl _) ?_ r
      intro q
      exact refines_bind ih (fun _ => Or.inr rfl) q.2
    · right; rfl

theorem normalization_refines (ok : Bytes → Option Bool) : Refines (normalization ok).dec (normalization acc).dec :=
  fun bs => decNormalization_refines ok (bs.length + 1) bs

/-! ## failure -/

theorem fails_bind {d : Bytes → Option (α × Bytes)} {g : α × Bytes → Option (β × Bytes)} {e₁ e₂ : Bytes} {x : α}
    (h1 : LawOrFail d e₁ x) (h2 : ∀ r, g (x, e₂ ++ r) = none) (r : Bytes) : (d (e₁ ++ (e₂ ++ r))).bind g = none := by
  rcases h1 (e₂ ++ r) with e | e
  · rw [e]; rfl
  · rw [e]; exact h2 r

theorem fails_bind_left {d : Bytes → Option (α × Bytes)} {g : α × Bytes → Option (β × Bytes)} {e : Bytes}
    (h1 : Fails d e) (r : Bytes) : (d (e ++ r)).bind g = none := by
  rw [h1 r]; rfl

theorem fails_pair (a : Codec α) (b : Codec β) (e₁ e₂ : Bytes) (x : α) (h1 : LawOrFail a.dec e₁ x)
    (h2 : Fails b.dec e₂) : Fails (Codec.pair a b).dec (e₁ ++ e₂) := by
  intro r
  simp only [Codec.pair, Option.bind_eq_bind, List.append_assoc]
  refine fails_bind h1 ?_ r
  intro r'
  exact fails_bind_left h2 r'

theorem fails_pair_left (a : Codec α) (b : Codec β) (e₁ e₂ : Bytes) (h1 : Fails a.dec e₁) :
    Fails (Codec.pair a b).dec (e₁ ++ e₂) := by
  intro r
  simp only [Codec.pair, Option.bind_eq_bind, List.append_assoc]
  exact fails_bind_left h1 _

theorem fails_iso (c : Codec α) (to : α → β) (back : β → α) (e : Bytes) (h : Fails c.dec e) :
    Fails (Codec.iso c to back).dec e := by
  intro r
  simp only [Codec.iso, h r, Option.map_none]

theorem fails_field (name : String) (c : Codec α) (e : Bytes) (h : Fails c.dec e) : Fails (Codec.field name c).dec e := h
theorem fails_struct (name : String) (c : Codec α) (e : Bytes) (h : Fails c.dec e) : Fails (Codec.struct name c).dec e := h

theorem decList_fails (c c' : Codec α) (l : List α) (hl : ∀ x ∈ l, LawOrFail c'.dec (c.enc x) x)
    (hb : ∃ x ∈ l, Fails c'.dec (c.enc x)) : Fails (decList c'.dec l.length) (l.flatMap c.enc) := by
  induction l with
  | nil => obtain ⟨x, hx, _⟩ := hb; cases hx
  | cons x xs ih =>
    intro r
    simp only [List.flatMap_cons, List.length_cons, decList, List.append_assoc, Option.bind_eq_bind]
    obtain ⟨y, hy, hf⟩ := hb
    rcases List.mem_cons.mp hy with rfl | hy'
    · exact fails_bind_left hf _
    · refine fails_bind (hl x List.mem_cons_self) ?_ r
      intro r'
      exact fails_bind_left (ih (fun z hz => hl z (List.mem_cons_of_mem _ hz)) ⟨y, hy', hf⟩) r'

theorem decList_lawOrFail (c c' : Codec α) (l : List α) (hl : ∀ x ∈ l, LawOrFail c'.dec (c.enc x) x) :
    LawOrFail (decList c'.dec l.length) (l.flatMap c.enc) l := by
  induction l with
  | nil => intro r; right; simp [decList]
  | cons x xs ih =>
    intro r
    have ihx := ih (fun z hz => hl z (List.mem_cons_of_mem _ hz))
    simp only [List.flatMap_cons, List.length_cons, decList, List.append_assoc, Option.bind_eq_bind]
    rcases hl x List.mem_cons_self (xs.flatMap c.enc ++ r) with e | e
    · left; rw [e]; rfl
    · rw [e]
      simp only [Option.bind_some]
      rcases ihx r with e' | e'
      · left; rw [e']; rfl
      · right; rw [e']; rfl

theorem seq_fails (c c' : Codec α) (l : List α) (hlen : l.length < 2 ^ 64)
    (hl : ∀ x ∈ l, LawOrFail c'.dec (c.enc x) x) (hb : ∃ x ∈ l, Fails c'.dec (c.enc x)) :
    Fails (Codec.seq c').dec ((Codec.seq c).enc l) := by
  intro r
  simp only [Codec.seq, Option.bind_eq_bind, List.append_assoc, decVarint_usize _ hlen, Option.bind_some]
  exact decList_fails c c' l hl hb r

theorem seq_lawOrFail (c c' : Codec α) (l : List α) (hlen : l.length < 2 ^ 64)
    (hl : ∀ x ∈ l, LawOrFail c'.dec (c.enc x) x) :
    LawOrFail (Codec.seq c').dec ((Codec.seq c).enc l) l := by
  intro r
  simp only [Codec.seq, Option.bind_eq_bind, List.append_assoc, decVarint_usize _ hlen, Option.bind_some]
  exact decList_lawOrFail c c' l hl r

/-! ## the offending pattern -/

theorem regex_fails (ok : Bytes → Option Bool) (p : String) (hbad : ok p.toUTF8.toList ≠ some true)
    (hs : ((regex acc).enc p).length < 2 ^ 64) : Fails (regex ok).dec ((regex acc).enc p) := by
  intro r
  have h := str_law_of_small p.toUTF8.toList hs (validUtf8_toUTF8 p) r
  simp only [regex] at h ⊢
  rw [h]
  -- `simp` discharges the `some true` alternative of the match with `hbad` from the context
  simp only [Option.bind_eq_bind, Option.bind_some]

theorem split_fails (ok : Bytes → Option Bool) (p : String) (b : SplitBehavior)
    (hbad : ok p.toUTF8.toList ≠ some true)
    (hs : ((DefCodec.split acc).enc (.pattern (.regex p) b)).length < 2 ^ 64) :
    Fails (DefCodec.split ok).dec ((DefCodec.split acc).enc (.pattern (.regex p) b)) := by
  have hs' : ((regex acc).enc p).length < 2 ^ 64 := by
    simp only [DefCodec.split, DefCodec.splitPattern, replacePattern, Codec.enum, Codec.iso, List.length_append] at hs
    omega
  intro r
  have hf := regex_fails ok p hbad hs'
  simp only [DefCodec.split, DefCodec.splitPattern, replacePattern, Codec.enum, Codec.iso, List.append_assoc,
    decVarint_u32 0 (by decide), decVarint_u32 2 (by decide), Option.bind_eq_bind, Option.bind_some, hf _,
    Option.map_none, Option.bind_none]

/-! ## the definition -/

theorem invalid_regex_rejected (ok : Bytes → Option Bool) (d : Definition) (rest : Bytes)
    (h : Representable acc d) (p : String) (b : SplitBehavior)
    (hp : Split.pattern (.regex p) b ∈ d.config.split) (hbad : ok p.toUTF8.toList ≠ some true) :
    (definition ok).dec ((definition acc).enc d ++ rest) = none := by
  have hs := h.small
  simp only [definition, configuration, struct_enc, iso_enc, pair_enc, field_enc, List.length_append] at hs
  have h1 := metadata_law d.metadata h.version h.source h.entries (by omega)
  have h2 := model_law d.model h.maxWord (by omega)
  have h3 : LawAt (Codec.seq specialToken) d.specials :=
    seq_law_of_small _ _ (fun x _ => specialToken_pos x) (by omega) (fun x hx hs => specialToken_law x (h.idents x hx) hs)
  have h4 : LawAt (Codec.seq fallback) d.config.fallback :=
    seq_law_of_small _ _ (fun x _ => fallback_pos x) (by omega) (fun x _ _ => fallback_law x)
  have hn : ((Codec.seq (normalization acc)).enc d.config.normalization).length < 2 ^ 64 := by omega
  have h5 : LawOrFail (Codec.seq (normalization ok)).dec ((Codec.seq (normalization acc)).enc d.config.normalization)
      d.config.normalization := by
    apply seq_lawOrFail
    · have := seq_length_le (normalization acc) d.config.normalization (fun x _ => normalization_pos acc x); omega
    · intro x hx
      have := seq_elem_le (normalization acc) d.config.normalization x hx
      exact lawOrFail_of_refines (normalization_refines ok) (normalization_law acc x (h.norm x hx) (by omega))
  have hsp : ((Codec.seq (DefCodec.split acc)).enc d.config.split).length < 2 ^ 64 := by omega
  have h6 : Fails (Codec.seq (DefCodec.split ok)).dec ((Codec.seq (DefCodec.split acc)).enc d.config.split) := by
    apply seq_fails
    · have := seq_length_le (DefCodec.split acc) d.config.split (fun x _ => split_pos acc x); omega
    · intro x hx
      have := seq_elem_le (DefCodec.split acc) d.config.split x hx
      exact lawOrFail_of_refines (split_refines ok) (split_law acc x (h.split x hx) (by omega))
    · refine ⟨_, hp, split_fails ok p b hbad ?_⟩
      have := seq_elem_le (DefCodec.split acc) d.config.split _ hp
      omega
  have key : Fails (definition ok).dec ((definition acc).enc d) := by
    unfold definition configuration
    simp only [struct_enc, iso_enc, pair_enc, field_enc]
    apply fails_struct
    apply fails_iso
    apply fails_pair _ _ _ _ _ (lawOrFail_of_law h1)
    apply fails_pair _ _ _ _ _ (lawOrFail_of_law h2)
    apply fails_pair _ _ _ _ _ (lawOrFail_of_law h3)
    apply fails_field
    apply fails_struct
    apply fails_iso
    apply fails_pair _ _ _ _ _ (lawOrFail_of_law h4)
    apply fails_pair _ _ _ _ _ h5
    apply fails_pair_left
    exact h6
  exact key rest

end Kitoken.Proofs.Load
