/-
  Lemmas for C14, part 3: exporting a canonically ordered definition gives it back, whatever the
  hash-map iteration order. The key fact is generic: a stable merge sort of any reordering of a list
  that is strictly sorted (pairwise, by a reflexive comparison) is that list — on the elements of
  such a list the comparison is the order of the positions, whatever it does elsewhere (the order of
  special tokens is not transitive when NaN scores are involved). Core Lean only.
-/
import Kitoken.Spec.Serial
namespace Kitoken.Proofs.Codec

open Kitoken Kitoken.Spec

/-! ## merge sort of a reordered strictly sorted list -/

theorem le_eq_idxOf_le [DecidableEq α] (le : α → α → Bool) (hrefl : ∀ a, le a a = true) (l : List α)
    (hs : strictlySorted le l) :
    ∀ a ∈ l, ∀ b ∈ l, le a b = decide (l.idxOf a ≤ l.idxOf b) := by
  induction l with
  | nil => intro a ha; cases ha
  | cons x t ih =>
    have hs' := List.pairwise_cons.mp hs
    have ih := ih hs'.2
    intro a ha b hb
    simp only [List.idxOf_cons]
    by_cases hax : x = a
    · subst hax
      simp only [beq_self_eq_true, cond_true, Nat.zero_le, decide_true]
      rcases List.mem_cons.mp hb with rfl | hb
      · exact hrefl _
      · exact (hs'.1 b hb).1
    · have hat : a ∈ t := by
        rcases List.mem_cons.mp ha with h | h
        · exact absurd h.symm hax
        · exact h
      have e1 : (x == a) = false := by simpa using hax
      simp only [e1, cond_false]
      by_cases hbx : x = b
      · subst hbx
        simp only [beq_self_eq_true, cond_true]
        rw [(hs'.1 a hat).2]
        simp
      · have hbt : b ∈ t := by
          rcases List.mem_cons.mp hb with h | h
          · exact absurd h.symm hbx
          · exact h
        have e2 : (x == b) = false := by simpa using hbx
        simp only [e2, cond_false]
        rw [ih a hat b hbt]
        simp

theorem map_injOn_eq (f : α → β) : ∀ (l₁ l₂ : List α), (∀ a ∈ l₁, ∀ b ∈ l₂, f a = f b → a = b) →
    l₁.map f = l₂.map f → l₁ = l₂
  | [], [], _, _ => rfl
  | [], _ :: _, _, h => by simp at h
  | _ :: _, [], _, h => by simp at h
  | a :: l₁, b :: l₂, hinj, h => by
    simp only [List.map_cons, List.cons.injEq] at h
    have hab := hinj a List.mem_cons_self b List.mem_cons_self h.1
    have := map_injOn_eq f l₁ l₂ (fun x hx y hy => hinj x (List.mem_cons_of_mem _ hx) y (List.mem_cons_of_mem _ hy)) h.2
    rw [hab, this]

theorem idxOf_injOn [DecidableEq α] (l : List α) (a b : α) (ha : a ∈ l) (hb : b ∈ l) (h : l.idxOf a = l.idxOf b) :
    a = b := by
  have h1 := List.getElem_idxOf (List.idxOf_lt_length_of_mem ha)
  have h2 := List.getElem_idxOf (List.idxOf_lt_length_of_mem hb)
  rw [← h1, ← h2]
  simp only [h]

/-- Sorting any reordering of a strictly sorted list gives the list. -/
theorem mergeSort_eq_of_strictlySorted [DecidableEq α] (le : α → α → Bool) (hrefl : ∀ a, le a a = true)
    (l xs : List α) (hs : strictlySorted le l) (hp : xs.Perm l) : xs.mergeSort le = l := by
  have hA := le_eq_idxOf_le le hrefl l hs
  let f : α → Nat := fun a => l.idxOf a
  let s : Nat → Nat → Bool := fun i j => decide (i ≤ j)
  have hB : (xs.mergeSort le).map f = (xs.map f).mergeSort s :=
    List.map_mergeSort (fun a ha b hb => hA a (hp.subset ha) b (hp.subset hb))
  have hsorted : ((xs.map f).mergeSort s).Pairwise (fun i j => s i j = true) :=
    List.pairwise_mergeSort (le := s) (fun a b c hab hbc => by simp only [s, decide_eq_true_eq] at *; omega)
      (fun a b => by simp only [s, Bool.or_eq_true, decide_eq_true_eq]; omega) _
  have hl : (l.map f).Pairwise (fun i j => s i j = true) := by
    rw [List.pairwise_map]
    refine List.Pairwise.imp_of_mem ?_ hs
    intro a b ha hb hab
    have := hA a ha b hb
    rw [hab.1] at this
    exact this.symm
  have hperm : ((xs.map f).mergeSort s).Perm (l.map f) :=
    (List.mergeSort_perm _ _).trans (hp.map f)
  have hC : (xs.map f).mergeSort s = l.map f :=
    List.Perm.eq_of_pairwise (le := fun i j => s i j = true)
      (fun a b _ _ hab hba => by simp only [s, decide_eq_true_eq] at *; omega) hsorted hl hperm
  rw [hC] at hB
  apply map_injOn_eq f _ _ _ hB
  intro a ha b hb hab
  have ha' : a ∈ l := hp.subset ((List.mergeSort_perm xs le).subset ha)
  exact idxOf_injOn l a b ha' hb hab


/-! ## the comparisons are reflexive -/

theorem bytesLe_refl (b : Bytes) : bytesLe b b = true := by
  induction b with
  | nil => rfl
  | cons x xs ih => simp [bytesLe, ih]

theorem specialLe_refl (a : SpecialDef) : specialLe a a = true := by
  simp [specialLe, bytesLe_refl]

/-! ## BPE: a vocabulary without duplicate byte strings is strictly sorted by (rank, id) -/

theorem rankOf_getElem (vocab : List (Id × Bytes)) (hd : List.Pairwise (fun a b : Id × Bytes => a.2 ≠ b.2) vocab)
    (i : Nat) (hi : i < vocab.length) :
    (vocab.findIdx? (fun t => t.2 == vocab[i].2)).getD vocab.length = i := by
  have : vocab.findIdx? (fun t => t.2 == vocab[i].2) = some i := by
    rw [List.findIdx?_eq_some_iff_getElem]
    refine ⟨hi, by simp, ?_⟩
    intro j hji
    have := List.pairwise_iff_getElem.mp hd j i (by omega) hi hji
    simpa using this
  rw [this]; rfl

theorem bpe_strictlySorted (vocab : List (Id × Bytes)) (hd : List.Pairwise (fun a b : Id × Bytes => a.2 ≠ b.2) vocab) :
    strictlySorted (fun x y : Id × Bytes =>
      decide ((vocab.findIdx? (fun t => t.2 == x.2)).getD vocab.length < (vocab.findIdx? (fun t => t.2 == y.2)).getD vocab.length) ||
        ((vocab.findIdx? (fun t => t.2 == x.2)).getD vocab.length == (vocab.findIdx? (fun t => t.2 == y.2)).getD vocab.length &&
          decide (x.1 ≤ y.1))) vocab := by
  unfold strictlySorted
  rw [List.pairwise_iff_getElem]
  intro i j hi hj hij
  simp only [rankOf_getElem vocab hd i hi, rankOf_getElem vocab hd j hj]
  have h1 : ¬ j < i := by omega
  have h2 : (j == i) = false := by simp; omega
  simp [hij, h1, h2]

theorem exportBpe_canonical (vocab : List (Id × Bytes)) (hd : List.Pairwise (fun a b : Id × Bytes => a.2 ≠ b.2) vocab)
    (xs : List (Id × Bytes)) (hp : xs.Perm vocab) : exportBpe vocab xs = vocab := by
  unfold exportBpe
  exact mergeSort_eq_of_strictlySorted _ (fun a => by simp) vocab xs (bpe_strictlySorted vocab hd) hp

/-! ## Unigram -/

theorem exportUnigram_canonical (vocab : List (Id × Bytes)) (scores : List UInt32)
    (hn : ∀ s ∈ scores, f32IsNaN s = false)
    (hs : strictlySorted uniExportLe (vocab.zip scores))
    (xs : List ((Id × Bytes) × UInt32)) (hp : xs.Perm (vocab.zip scores)) :
    exportUnigram xs = .ok (vocab.zip scores) := by
  unfold exportUnigram
  have hany : ¬ (xs.any (fun e => f32IsNaN e.2) = true ∧ xs.length > 1) := by
    intro h
    obtain ⟨e, he, hnan⟩ := List.any_eq_true.mp h.1
    have hz : e ∈ vocab.zip scores := hp.subset he
    have : e.2 ∈ scores := by
      obtain ⟨a, b⟩ := e
      exact (List.of_mem_zip hz).2
    rw [hn _ this] at hnan
    cases hnan
  rw [if_neg hany]
  congr 1
  exact mergeSort_eq_of_strictlySorted _ (fun a => by simp [uniExportLe, bytesLe_refl]) _ xs hs hp

/-! ## WordPiece -/

theorem exportWordPiece_canonical (vocab : List (Id × Bytes))
    (hs : strictlySorted (fun x y : Id × Bytes => decide (x.1 < y.1) || (x.1 == y.1 && bytesLe x.2 y.2)) vocab)
    (xs : List (Id × Bytes)) (hp : xs.Perm vocab) : exportWordPiece xs = vocab := by
  unfold exportWordPiece
  exact mergeSort_eq_of_strictlySorted _ (fun a => by simp [bytesLe_refl]) vocab xs hs hp

/-! ## the definition -/

theorem export_canonical (d : Definition) (hc : Canonical d)
    (pv : List (Id × Bytes) → List (Id × Bytes)) (hpv : ∀ l, (pv l).Perm l)
    (pvs : List ((Id × Bytes) × UInt32) → List ((Id × Bytes) × UInt32)) (hpvs : ∀ l, (pvs l).Perm l) :
    exportDefinition d pv pvs = .ok d := by
  obtain ⟨md, model, specials, config⟩ := d
  have hm := hc.model
  cases model with
  | bytePair vocab chars =>
    simp only at hm
    simp only [exportDefinition, exportBpe_canonical vocab hm _ (hpv _)]
  | unigram vocab scores =>
    simp only at hm
    obtain ⟨hlen, hnan, hs⟩ := hm
    simp only [exportDefinition, exportUnigram_canonical vocab scores hnan hs _ (hpvs _)]
    have h1 : (vocab.zip scores).map (·.1) = vocab := List.map_fst_zip (by omega)
    have h2 : (vocab.zip scores).map (·.2) = scores := List.map_snd_zip (by omega)
    rw [h1, h2]
  | wordPiece vocab maxw =>
    simp only at hm
    simp only [exportDefinition, exportWordPiece_canonical vocab hm _ (hpv _)]

/-- Whatever the definition and the iteration orders: an export that succeeds returns the specials, the
    configuration and the metadata of the definition the tokenizer was built from, specials in the listed order. -/
theorem export_keeps_specials (d d' : Definition)
    (pv : List (Id × Bytes) → List (Id × Bytes))
    (pvs : List ((Id × Bytes) × UInt32) → List ((Id × Bytes) × UInt32))
    (h : exportDefinition d pv pvs = .ok d') :
    d'.specials = d.specials ∧ d'.config = d.config ∧ d'.metadata = d.metadata := by
  obtain ⟨md, model, specials, config⟩ := d
  cases model with
  | bytePair vocab chars =>
    simp only [exportDefinition] at h
    injection h with h; subst h; exact ⟨rfl, rfl, rfl⟩
  | unigram vocab scores =>
    simp only [exportDefinition] at h
    split at h
    · injection h with h; subst h; exact ⟨rfl, rfl, rfl⟩
    · cases h
    · cases h
  | wordPiece vocab maxw =>
    simp only [exportDefinition] at h
    injection h with h; subst h; exact ⟨rfl, rfl, rfl⟩

/-- After the F27 repair: a definition that `Kitoken::new` accepts has no NaN score, so the export of the
    tokenizer built from it neither panics nor fails, whatever the iteration orders. -/
theorem export_ok_of_init (d : Definition) (tk : Tokenizer Score) (h : Tokenizer.new d = .ok tk)
    (pv : List (Id × Bytes) → List (Id × Bytes))
    (pvs : List ((Id × Bytes) × UInt32) → List ((Id × Bytes) × UInt32)) (hpvs : ∀ l, (pvs l).Perm l) :
    ∃ d', exportDefinition d pv pvs = .ok d' := by
  obtain ⟨md, model, specials, config⟩ := d
  cases model with
  | bytePair vocab chars => exact ⟨_, rfl⟩
  | wordPiece vocab maxw => exact ⟨_, rfl⟩
  | unigram vocab scores =>
    have hn : scores.any f32IsNaN = false := by
      cases hany : scores.any f32IsNaN with
      | false => rfl
      | true =>
        exfalso
        have hme : mkEncoder ⟨md, .unigram vocab scores, specials, config⟩ = .error .invalidScores := by
          simp [mkEncoder, hany]
        unfold Tokenizer.new at h
        rw [hme] at h
        split at h <;> cases h
    have hany : (pvs (vocab.zip scores)).any (fun e => f32IsNaN e.2) = false := by
      rw [Bool.eq_false_iff]
      intro hc
      obtain ⟨e, he, hnan⟩ := List.any_eq_true.mp hc
      have hz : e ∈ vocab.zip scores := (hpvs _).subset he
      have hs : e.2 ∈ scores := by
        obtain ⟨a, b⟩ := e
        exact (List.of_mem_zip hz).2
      have : scores.any f32IsNaN = true := List.any_eq_true.mpr ⟨e.2, hs, hnan⟩
      rw [hn] at this
      cases this
    simp only [exportDefinition, exportUnigram, hany]
    simp

end Kitoken.Proofs.Codec
