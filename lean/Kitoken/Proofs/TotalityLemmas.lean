/-
  Lemmas behind C18b: the two passes of `encode` never panic on valid UTF-8 and hand non-empty,
  valid pieces to the encoder.  Normalization totality, character alignment of every split,
  both passes against their cut-wise specification.
-/
import Kitoken.Proofs.NormalizeLemmas
import Kitoken.Proofs.PipelineLemmas
import Kitoken.Proofs.SplitLemmas
import Kitoken.Proofs.Utf8Lemmas2

namespace Kitoken.C18

open Kitoken Kitoken.Spec Kitoken.Utf8

/-- What is assumed of the external libraries on the inputs they receive (recorded in the trusted
    base; validated at run time on every recorded call): regex matches are ordered, in bounds and on
    character boundaries; Unicode / case / regex replacement and character-map output are valid UTF-8
    (they are Rust `String`s); grapheme and script tables are arbitrary. -/
structure ExtSane (ext : Ext) : Prop where
  matches_chain : ∀ p t ms, ext.split.findIter p t = some ms → Chain t.length 0 ms
  matches_aligned : ∀ p t ms, ext.split.findIter p t = some ms → Aligned t ms
  unicode_valid : ∀ s t o, ext.norm.unicode s t = some o → validUtf8 o = true
  casefold_valid : ∀ u t o, ext.norm.caseFold u t = some o → validUtf8 o = true
  replace_valid : ∀ p r t o, ext.norm.replaceAll p r t = some o → validUtf8 o = true

/-- Configuration literals are valid UTF-8 (they are Rust `String`s / `char`s in a loaded definition). -/
def NormLiteralsValid : Normalization → Prop
  | .append s | .prepend s => validUtf8 s = true
  | .replace (.string s) rep => validUtf8 s = true ∧ validUtf8 rep = true
  | .replace _ rep => validUtf8 rep = true
  | .conditional _ inner => NormLiteralsValid inner
  | _ => True

def SplitLiteralsValid : Split → Prop
  | .pattern (.string s) _ => validUtf8 s = true
  | _ => True

end Kitoken.C18

namespace Kitoken.Proofs.Totality

open Kitoken Kitoken.Spec Kitoken.Utf8 Kitoken.C18 Kitoken.Proofs.Split Kitoken.Proofs.Pipeline
open Kitoken.Proofs.Normalize

/-! ## valid UTF-8: small facts -/

theorem validUtf8_nil : validUtf8 ([] : Bytes) = true := validUtf8_encodeChars []

theorem validUtf8_encodeChar (c : Char) : validUtf8 (encodeChar c) = true := by
  rw [← encodeChars_singleton]; exact validUtf8_encodeChars _

theorem validUtf8_flatMap {α : Type} (f : α → Bytes) (l : List α) (h : ∀ x ∈ l, validUtf8 (f x) = true) :
    validUtf8 (l.flatMap f) = true := by
  induction l with
  | nil => exact validUtf8_nil
  | cons x l ih =>
    rw [List.flatMap_cons]
    exact validUtf8_append _ _ (h x (List.mem_cons_self ..)) (ih fun y hy => h y (List.mem_cons_of_mem _ hy))

/-! ## the character map always writes valid UTF-8 -/

theorem normalizeRest_valid (m : CharsMap) : ∀ (fuel : Nat) (b : Bytes),
    validUtf8 (CharsMap.normalizeRest m fuel b) = true := by
  intro fuel
  induction fuel with
  | zero => intro b; simp only [CharsMap.normalizeRest]; exact validUtf8_nil
  | succ fuel ih =>
    intro b
    cases b with
    | nil => simp only [CharsMap.normalizeRest]; exact validUtf8_nil
    | cons x t =>
      simp only [CharsMap.normalizeRest]
      split
      · exact validUtf8_append _ _ (validUtf8_encodeChars _) (ih _)
      · exact validUtf8_append _ _ (validUtf8_encodeChar _) (ih _)

theorem charsMap_normalize_valid (m : CharsMap) (text : Bytes) (gs : List (Nat × Nat)) :
    validUtf8 (m.normalize text gs) = true := by
  unfold CharsMap.normalize
  apply validUtf8_flatMap
  intro g _
  exact normalizeRest_valid m _ _

/-! ## normalization never fails on valid UTF-8 -/

theorem step_total (ext : Ext) (hx : ExtSane ext) (n : Normalization) (hl : NormLiteralsValid n)
    (pos : Position) (cs : List Char) (r : Res Bytes)
    (h : n.normalize ext.norm pos (encodeChars cs) = some r) :
    ∃ out, r = .ok out ∧ validUtf8 out = true := by
  induction n with
  | unicode s =>
    simp only [Normalization.normalize, Option.map_eq_some_iff] at h
    obtain ⟨o, ho, rfl⟩ := h
    exact ⟨o, rfl, hx.unicode_valid _ _ _ ho⟩
  | caseFold u =>
    simp only [Normalization.normalize, Option.map_eq_some_iff] at h
    obtain ⟨o, ho, rfl⟩ := h
    exact ⟨o, rfl, hx.casefold_valid _ _ _ ho⟩
  | nmt =>
    simp only [Normalization.normalize, Option.some.injEq] at h
    subst h
    exact ⟨_, rfl, by rw [nmt_chars]; exact validUtf8_encodeChars _⟩
  | append s =>
    simp only [Normalization.normalize, Option.some.injEq] at h
    subst h
    exact ⟨_, rfl, validUtf8_append _ _ (validUtf8_encodeChars _) hl⟩
  | prepend s =>
    simp only [Normalization.normalize, Option.some.injEq] at h
    subst h
    exact ⟨_, rfl, validUtf8_append _ _ hl (validUtf8_encodeChars _)⟩
  | extend c l rr pad =>
    simp only [Normalization.normalize, Option.some.injEq] at h
    subst h
    exact ⟨_, rfl, extend_bytes_valid _ _ _ _ _⟩
  | strip c l rr =>
    simp only [Normalization.normalize, strip_chars, Option.some.injEq] at h
    subst h
    exact ⟨_, rfl, validUtf8_encodeChars _⟩
  | collapse c =>
    simp only [Normalization.normalize, Option.some.injEq] at h
    subst h
    exact ⟨_, rfl, by rw [collapse_chars]; exact validUtf8_encodeChars _⟩
  | replace p rep =>
    cases p with
    | char c =>
      simp only [Normalization.normalize, Option.some.injEq] at h
      subst h
      exact ⟨_, rfl, validUtf8_encodeChars _⟩
    | string s =>
      simp only [Normalization.normalize, Option.some.injEq] at h
      subst h
      exact ⟨_, rfl, validUtf8_encodeChars _⟩
    | regex pat =>
      simp only [Normalization.normalize, Option.map_eq_some_iff] at h
      obtain ⟨o, ho, rfl⟩ := h
      exact ⟨o, rfl, hx.replace_valid _ _ _ _ ho⟩
  | charsMap m =>
    simp only [Normalization.normalize, Option.map_eq_some_iff] at h
    obtain ⟨gs, _, rfl⟩ := h
    exact ⟨_, rfl, charsMap_normalize_valid _ _ _⟩
  | conditional cond inner ih =>
    have hl' : NormLiteralsValid inner := by simpa [NormLiteralsValid] using hl
    rw [conditional_iff] at h
    cases cond <;> simp only [] at h <;> split at h
    all_goals first
      | exact ih hl' h
      | (simp only [Option.some.injEq] at h
         subst h
         exact ⟨_, rfl, validUtf8_encodeChars _⟩)

theorem steps_total (ext : Ext) (hx : ExtSane ext) (pos : Position) (steps : List Normalization) :
    ∀ (cs : List Char) (r : Res Bytes), (∀ n ∈ steps, NormLiteralsValid n) →
      normalizeSteps ext.norm pos steps (encodeChars cs) = some r →
      ∃ out, r = .ok out ∧ validUtf8 out = true := by
  induction steps with
  | nil =>
    intro cs r _ h
    simp only [normalizeSteps, Option.some.injEq] at h
    subst h
    exact ⟨_, rfl, validUtf8_encodeChars _⟩
  | cons n ns ih =>
    intro cs r hl h
    simp only [normalizeSteps] at h
    cases hn : n.normalize ext.norm pos (encodeChars cs) with
    | none => rw [hn] at h; cases h
    | some r' =>
      obtain ⟨out, rfl, hv⟩ := step_total ext hx n (hl n (List.mem_cons_self ..)) pos cs r' hn
      rw [hn] at h
      obtain ⟨cs', rfl⟩ := exists_chars_of_validUtf8 out hv
      exact ih cs' r (fun m hm => hl m (List.mem_cons_of_mem _ hm)) h

theorem normalize_total (ext : Ext) (hx : ExtSane ext) (steps : List Normalization)
    (hl : ∀ n ∈ steps, NormLiteralsValid n) (pos : Position) (cs : List Char) (r : Res Bytes)
    (h : configNormalize ext.norm steps pos (encodeChars cs) = some r) :
    ∃ out, r = .ok out ∧ validUtf8 out = true := by
  unfold configNormalize at h
  split at h
  · simp only [Option.some.injEq] at h
    subst h
    exact ⟨_, rfl, validUtf8_encodeChars _⟩
  · exact steps_total ext hx pos steps cs r hl h

/-! ## character boundaries of valid UTF-8 -/

theorem isBoundary_le (text : Bytes) (i : Nat) (h : isBoundary text i = true) : i ≤ text.length := by
  rw [isBoundary_iff] at h; omega

theorem isBoundary_length (text : Bytes) : isBoundary text text.length = true := by
  rw [isBoundary_iff]; right; left; rfl

theorem boundary_split' (cs : List Char) (i : Nat) (h : isBoundary (encodeChars cs) i = true) :
    ∃ a b, cs = a ++ b ∧ (encodeChars a).length = i :=
  boundary_split cs i h (isBoundary_le _ _ h)

/-- A slice of valid UTF-8 between two character boundaries is the encoding of a sub-list of the
    characters. -/
theorem slice_decomp (cs : List Char) (s e : Nat) (hs : isBoundary (encodeChars cs) s = true)
    (he : isBoundary (encodeChars cs) e = true) (hse : s ≤ e) :
    ∃ a d c, cs = a ++ d ++ c ∧ (encodeChars a).length = s ∧ (encodeChars d).length = e - s ∧
      slice (encodeChars cs) s e = encodeChars d := by
  obtain ⟨a, b, rfl, rfl⟩ := boundary_split' cs s hs
  have hb : isBoundary (encodeChars b) (e - (encodeChars a).length) = true :=
    isBoundary_append_ge (encodeChars a) (encodeChars b) e (by omega) (by rw [← encodeChars_append]; exact he)
  obtain ⟨d, c, rfl, hd⟩ := boundary_split' b _ hb
  refine ⟨a, d, c, by rw [List.append_assoc], rfl, hd, ?_⟩
  rw [encodeChars_append, encodeChars_append]
  simp only [slice]
  rw [List.drop_left, ← hd, List.take_left]

theorem slice_valid (cs : List Char) (s e : Nat) (hs : isBoundary (encodeChars cs) s = true)
    (he : isBoundary (encodeChars cs) e = true) (hse : s ≤ e) :
    validUtf8 (slice (encodeChars cs) s e) = true := by
  obtain ⟨_, d, _, _, _, _, h⟩ := slice_decomp cs s e hs he hse
  rw [h]; exact validUtf8_encodeChars _

/-- A boundary of a middle part, shifted by the length of what precedes it, is a boundary of the whole. -/
theorem boundary_shift (a d c : List Char) (i : Nat) (h : isBoundary (encodeChars d) i = true) :
    isBoundary (encodeChars (a ++ d ++ c)) (i + (encodeChars a).length) = true := by
  obtain ⟨d1, d2, rfl, hl⟩ := boundary_split' d i h
  have := isBoundary_encodeChars (a ++ d1) (d2 ++ c)
  rw [encodeChars_append a d1, List.length_append, hl] at this
  have e : a ++ d1 ++ (d2 ++ c) = a ++ (d1 ++ d2) ++ c := by simp [List.append_assoc]
  rw [e, Nat.add_comm] at this
  exact this

/-- Character starts of valid UTF-8 are character boundaries. -/
theorem charIndicesFrom_starts (cs : List Char) : ∀ (pos i : Nat),
    i ∈ (charIndicesFrom pos (encodeChars cs)).map (·.1) →
    ∃ a b, cs = a ++ b ∧ i = pos + (encodeChars a).length := by
  induction cs with
  | nil => intro pos i h; simp [charIndicesFrom_nil] at h
  | cons c cs ih =>
    intro pos i h
    rw [charIndices_encodeChars_cons, List.map_cons, List.mem_cons] at h
    rcases h with rfl | h
    · exact ⟨[], c :: cs, rfl, by simp⟩
    · obtain ⟨a, b, rfl, hi⟩ := ih _ _ h
      refine ⟨c :: a, b, rfl, ?_⟩
      rw [encodeChars_cons, List.length_append, encodeChar_length]; omega

theorem charStarts_aligned (cs : List Char) (i : Nat) (h : i ∈ charStarts (encodeChars cs)) :
    isBoundary (encodeChars cs) i = true := by
  obtain ⟨a, b, rfl, hi⟩ := charIndicesFrom_starts cs 0 i h
  rw [hi, Nat.zero_add]
  exact isBoundary_encodeChars a b

/-! ## every split of valid UTF-8 is character aligned -/

theorem aligned_iff_allP (text : Bytes) (rs : Ranges) :
    Aligned text rs ↔ AllP (fun x => isBoundary text x = true) rs := Iff.rfl

theorem splitPattern_aligned (ext : Ext) (hx : ExtSane ext) (p : SplitPattern) (b : SplitBehavior)
    (hl : SplitLiteralsValid (.pattern p b)) (cs : List Char) (ms : Ranges)
    (h : splitPattern ext.split (encodeChars cs) p = some ms) : Aligned (encodeChars cs) ms := by
  cases p with
  | char c =>
    simp only [splitPattern, Option.some.injEq] at h
    subst h
    intro r hr
    simp only [List.mem_map] at hr
    obtain ⟨o, ho, rfl⟩ := hr
    have := findAll_aligned [c] cs (by simp) o (by rw [encodeChars_singleton]; exact ho)
    rw [encodeChars_singleton] at this
    exact this
  | string s =>
    have hv : validUtf8 s = true := by simpa [SplitLiteralsValid] using hl
    obtain ⟨n, rfl⟩ := exists_chars_of_validUtf8 s hv
    simp only [splitPattern, Option.some.injEq] at h
    subst h
    intro r hr
    simp only [List.mem_map, List.mem_filter] at hr
    obtain ⟨o, ⟨ho, hb⟩, rfl⟩ := hr
    refine ⟨hb, ?_⟩
    by_cases hn : n = []
    · subst hn; simpa [encodeChars] using hb
    · exact (findAll_aligned n cs hn o ho).2
  | regex pat => exact hx.matches_aligned pat _ ms h

theorem scriptGo_allP (P : Nat → Prop) (prev : Option Nat) (last : Nat) (cs : List (Nat × Bool × Nat))
    (hl : P last) (hcs : ∀ x ∈ cs, P x.1) :
    AllP P (scriptGo prev last cs).1 ∧ P (scriptGo prev last cs).2 := by
  fun_induction scriptGo prev last cs with
  | case1 prev last => exact ⟨allP_nil P, hl⟩
  | case2 prev last i script cs ih => exact ih hl (fun x hx => hcs x (List.mem_cons_of_mem _ hx))
  | case3 last i common script cs hc p hne r l heq ih =>
    have hi : P i := hcs _ (List.mem_cons_self ..)
    have := ih hi (fun x hx => hcs x (List.mem_cons_of_mem _ hx))
    rw [heq] at this
    exact ⟨(allP_cons P last i r).2 ⟨⟨hl, hi⟩, this.1⟩, this.2⟩
  | case4 last i common script cs hc p heq ih => exact ih hl (fun x hx => hcs x (List.mem_cons_of_mem _ hx))
  | case5 last i common script cs hc ih => exact ih hl (fun x hx => hcs x (List.mem_cons_of_mem _ hx))

theorem splitUnicodeScript_aligned (cs : List Char) (scripts : List (Bool × Nat)) :
    Aligned (encodeChars cs) (splitUnicodeScript (encodeChars cs) scripts) := by
  have h := scriptGo_allP (fun x => isBoundary (encodeChars cs) x = true) none 0
    (((charStarts (encodeChars cs)).zip scripts).map fun (i, c, s) => (i, c, s))
    (isBoundary_zero _)
    (by
      intro x hx
      simp only [List.mem_map] at hx
      obtain ⟨y, hy, rfl⟩ := hx
      obtain ⟨i, c, s⟩ := y
      exact charStarts_aligned cs i (List.of_mem_zip hy).1)
  rw [aligned_iff_allP]
  simp only [splitUnicodeScript, allP_append]
  exact ⟨h.1, tail_allP _ _ _ h.2 (isBoundary_length _)⟩

theorem mem_boundariesOf_cases (ms : Ranges) (len x : Nat) (h : x ∈ boundariesOf ms len) :
    x = 0 ∨ x = len ∨ ∃ m ∈ ms, x = m.1 ∨ x = m.2 := by
  simp only [boundariesOf, List.mem_cons, List.mem_flatMap] at h
  rcases h with h | h | ⟨m, hm, hx⟩
  · exact Or.inl h
  · exact Or.inr (Or.inl h)
  · obtain ⟨s, e⟩ := m
    simp only [List.not_mem_nil, or_false] at hx
    exact Or.inr (Or.inr ⟨(s, e), hm, hx⟩)

theorem boundariesOf_aligned (text : Bytes) (ms : Ranges) (hm : Aligned text ms) (x : Nat)
    (h : x ∈ boundariesOf ms text.length) : isBoundary text x = true := by
  rcases mem_boundariesOf_cases ms _ x h with rfl | rfl | ⟨m, hmm, rfl | rfl⟩
  · exact isBoundary_zero _
  · exact isBoundary_length _
  · exact (hm m hmm).1
  · exact (hm m hmm).2

theorem split_one_aligned (ext : Ext) (hx : ExtSane ext) (sp : Split) (hl : SplitLiteralsValid sp)
    (cs : List Char) (out : Ranges) (h : sp.split ext.split (encodeChars cs) = some out) :
    Aligned (encodeChars cs) out := by
  by_cases hne : encodeChars cs = []
  · rw [hne] at h
    have := split_empty ext.split sp out h
    subst this
    intro r hr; cases hr
  · cases sp with
    | unicodeScript =>
      have hemp : (encodeChars cs).isEmpty = false := by simpa using hne
      simp only [Split.split, hemp, Bool.false_eq_true, if_false, Option.map_eq_some_iff] at h
      obtain ⟨sc, _, rfl⟩ := h
      exact splitUnicodeScript_aligned cs sc
    | pattern p b =>
      obtain ⟨ms, hms, hsub⟩ := boundaries_subset_partial ext.split p b _ out hne h
      have hal := splitPattern_aligned ext hx p b hl cs ms hms
      intro r hr
      exact ⟨boundariesOf_aligned _ ms hal _ (hsub r hr).1, boundariesOf_aligned _ ms hal _ (hsub r hr).2⟩

theorem stage_aligned (ext : Ext) (hx : ExtSane ext) (sp : Split) (hl : SplitLiteralsValid sp)
    (cs : List Char) : ∀ (rs out : Ranges), (∀ r ∈ rs, r.1 ≤ r.2) → Aligned (encodeChars cs) rs →
      splitStage ext.split sp (encodeChars cs) rs = some out → Aligned (encodeChars cs) out := by
  intro rs
  induction rs with
  | nil =>
    intro out _ _ h
    simp only [splitStage, Option.some.injEq] at h
    subst h
    intro r hr; cases hr
  | cons r0 rs ih =>
    intro out hle hal h
    obtain ⟨s, e⟩ := r0
    simp only [splitStage, Option.bind_eq_bind, Option.bind_eq_some_iff, Option.pure_def,
      Option.some.injEq] at h
    obtain ⟨sub, hsub, rest, hrest, rfl⟩ := h
    have hrest' := ih rest (fun r hr => hle r (List.mem_cons_of_mem _ hr))
      (fun r hr => hal r (List.mem_cons_of_mem _ hr)) hrest
    obtain ⟨hbs, hbe⟩ := hal (s, e) (List.mem_cons_self ..)
    have hse : s ≤ e := hle (s, e) (List.mem_cons_self ..)
    obtain ⟨a, d, c, hcs, hla, _, hsl⟩ := slice_decomp cs s e hbs hbe hse
    rw [hsl] at hsub
    have hsubal := split_one_aligned ext hx sp hl d sub hsub
    intro r hr
    rcases List.mem_append.mp hr with hr | hr
    · obtain ⟨q, hq, rfl⟩ := List.mem_map.mp hr
      obtain ⟨x, y⟩ := q
      obtain ⟨h1, h2⟩ := hsubal (x, y) hq
      have k1 := boundary_shift a d c x h1
      have k2 := boundary_shift a d c y h2
      rw [← hcs, hla] at k1 k2
      exact ⟨k1, k2⟩
    · exact hrest' r hr

theorem ordered_le_pairs (len : Nat) (rs : Ranges) (h : Ordered len 0 rs) : ∀ r ∈ rs, r.1 ≤ r.2 :=
  fun r hr => (ordered_mem len rs 0 h r hr).2.1

theorem splitChain_aligned (ext : Ext) (hx : ExtSane ext) (cs : List Char) (sps : List Split) :
    ∀ (rs out : Ranges), (∀ s ∈ sps, SplitLiteralsValid s) → Ordered (encodeChars cs).length 0 rs →
      Aligned (encodeChars cs) rs → splitChain ext.split (encodeChars cs) sps rs = some out →
      Aligned (encodeChars cs) out := by
  induction sps with
  | nil =>
    intro rs out _ _ hal h
    simp only [splitChain, Option.some.injEq] at h
    subst h; exact hal
  | cons sp sps ih =>
    intro rs out hl hord hal h
    simp only [splitChain, Option.bind_eq_bind, Option.bind_eq_some_iff] at h
    obtain ⟨rs', h1, h2⟩ := h
    have hord' := (stage_refines ext.split hx.matches_chain sp _ rs rs' hord h1).1
    have hal' := stage_aligned ext hx sp (hl sp (List.mem_cons_self ..)) cs rs rs'
      (ordered_le_pairs _ rs hord) hal h1
    exact ih rs' out (fun s hs => hl s (List.mem_cons_of_mem _ hs)) hord' hal' h2

theorem split_aligned (ext : Ext) (hx : ExtSane ext) (splits : List Split)
    (hl : ∀ s ∈ splits, SplitLiteralsValid s) (cs : List Char) (rs : Ranges)
    (h : configSplit ext.split splits (encodeChars cs) = some rs) :
    Ordered (encodeChars cs).length 0 rs ∧ Aligned (encodeChars cs) rs := by
  refine ⟨config_ordered ext.split hx.matches_chain splits _ rs h, ?_⟩
  have hfullO : Ordered (encodeChars cs).length 0 [(0, (encodeChars cs).length)] := by simp [Ordered]
  have hfullA : Aligned (encodeChars cs) [(0, (encodeChars cs).length)] := by
    intro r hr
    simp only [List.mem_singleton] at hr
    subst hr
    exact ⟨isBoundary_zero _, isBoundary_length _⟩
  unfold configSplit at h
  split at h
  · simp only [Option.some.injEq] at h; subst h; intro r hr; cases hr
  · split at h
    · simp only [Option.some.injEq] at h; subst h; exact hfullA
    · rename_i sp
      exact split_one_aligned ext hx sp (hl sp (List.mem_cons_self ..)) cs rs h
    · exact splitChain_aligned ext hx cs _ _ rs hl hfullO hfullA h

/-! ## results assembled from cuts -/

variable {S : Type}

/-- An ordinary part (no special id) is valid UTF-8. -/
def PartValid (p : TextPart) : Prop := p.special = INVALID → validUtf8 p.text = true

/-- An ordinary part is a non-empty valid UTF-8 string. -/
def PartGood (p : TextPart) : Prop := p.special = INVALID → p.text ≠ [] ∧ validUtf8 p.text = true

/-- If every member that answers at all answers `.ok` with parts satisfying `P`, so does the sequence. -/
theorem seqOut_all (P : TextPart → Prop) (os : List (Out (List TextPart)))
    (h : ∀ o ∈ os, ∀ r, o = .res r → ∃ ps, r = .ok ps ∧ ∀ p ∈ ps, P p) :
    ∀ r, seqOut os = .res r → ∃ ps, r = .ok ps ∧ ∀ p ∈ ps, P p := by
  induction os with
  | nil =>
    intro r hr
    simp only [seqOut_nil, Out.res.injEq] at hr
    subst hr
    exact ⟨[], rfl, by simp⟩
  | cons o os ih =>
    intro r hr
    have ih' := ih (fun o' ho' => h o' (List.mem_cons_of_mem _ ho'))
    have ho := h o (List.mem_cons_self ..)
    rcases o with (ps | e | e) | w
    · obtain ⟨ps', hps', hP⟩ := ho _ rfl
      injection hps' with hps'
      subst hps'
      rw [seqOut_cons_ok] at hr
      rcases hso : seqOut os with (qs | e | e) | w
      · obtain ⟨qs', hqs', hQ⟩ := ih' _ hso
        injection hqs' with hqs'
        subst hqs'
        rw [hso, seqAcc_ok, Out.res.injEq] at hr
        subst hr
        refine ⟨_, rfl, ?_⟩
        intro p hp
        rcases List.mem_append.mp hp with hp | hp
        · exact hP p hp
        · exact hQ p hp
      · obtain ⟨_, hc, _⟩ := ih' _ hso; cases hc
      · obtain ⟨_, hc, _⟩ := ih' _ hso; cases hc
      · rw [hso, seqAcc_miss] at hr; cases hr
    · obtain ⟨_, hc, _⟩ := ho _ rfl; cases hc
    · obtain ⟨_, hc, _⟩ := ho _ rfl; cases hc
    · rw [seqOut_cons_miss] at hr; cases hr

/-- What the cuts of a chain of aligned matches look like: gaps are non-empty and end on character
    boundaries, hits are the matches. -/
theorem mem_cuts (text : Bytes) : ∀ (ms : Ranges) (from_ : Nat), Chain text.length from_ ms →
    Aligned text ms → isBoundary text from_ = true →
    (∀ s e t, Cut.gap s e t ∈ cuts text.length from_ ms →
      s < e ∧ isBoundary text s = true ∧ isBoundary text e = true) ∧
    (∀ a b, Cut.hit a b ∈ cuts text.length from_ ms → (a, b) ∈ ms) := by
  intro ms
  induction ms with
  | nil =>
    intro f _ _ hb
    simp only [cuts]
    split
    · refine ⟨?_, ?_⟩
      · intro s e t hm
        simp only [List.mem_singleton, Cut.gap.injEq] at hm
        obtain ⟨rfl, rfl, _⟩ := hm
        exact ⟨by assumption, hb, isBoundary_length _⟩
      · intro a b hm; simp at hm
    · exact ⟨fun s e t hm => by simp at hm, fun a b hm => by simp at hm⟩
  | cons m ms ih =>
    obtain ⟨a, b⟩ := m
    intro f hch hal hb
    simp only [Chain] at hch
    obtain ⟨hfa, hab, hch'⟩ := hch
    obtain ⟨hba, hbb⟩ := hal (a, b) (List.mem_cons_self ..)
    obtain ⟨ih1, ih2⟩ := ih b hch' (fun r hr => hal r (List.mem_cons_of_mem _ hr)) hbb
    simp only [cuts]
    split
    · refine ⟨?_, ?_⟩
      · intro s e t hm
        rcases List.mem_append.mp hm with hm | hm
        · split at hm
          · simp only [List.mem_singleton, Cut.gap.injEq] at hm
            obtain ⟨rfl, rfl, _⟩ := hm
            exact ⟨by assumption, hb, hba⟩
          · simp at hm
        · rcases List.mem_cons.mp hm with hm | hm
          · cases hm
          · exact ih1 s e t hm
      · intro a' b' hm
        rcases List.mem_append.mp hm with hm | hm
        · split at hm <;> simp at hm
        · rcases List.mem_cons.mp hm with hm | hm
          · injection hm with h1 h2; subst h1; subst h2; exact List.mem_cons_self ..
          · exact List.mem_cons_of_mem _ (ih2 a' b' hm)
    · exact ⟨fun s e t hm => by simp at hm, fun a b hm => by simp at hm⟩

/-! ## first pass -/

theorem lookupSpecial_of_mem (tk : Tokenizer S) (b : Bytes) (s : Special) (hs : s ∈ tk.specials)
    (hb : s.bytes = b) : ∃ sp, tk.lookupSpecial b = .ok sp ∧ sp ∈ tk.specials ∧ sp.bytes = b := by
  unfold Tokenizer.lookupSpecial
  cases hf : tk.specials.find? (·.bytes == b) with
  | some sp =>
    exact ⟨sp, rfl, List.mem_of_find?_eq_some hf, by simpa using List.find?_some hf⟩
  | none =>
    have := List.find?_eq_none.mp hf s hs
    simp [hb] at this

theorem stageAPart_total (tk : Tokenizer S) (hw : SpecialsWF tk.specials) (ext : Ext) (hx : ExtSane ext)
    (hn : ∀ n ∈ tk.config.normalization, NormLiteralsValid n) (cs : List Char) (enc : Bool)
    (ms : Ranges) (from_ : Nat) (hch : Chain (encodeChars cs).length from_ ms)
    (hal : Aligned (encodeChars cs) ms) (hb : isBoundary (encodeChars cs) from_ = true)
    (hms : ∀ r ∈ ms, ∃ s ∈ tk.specials, s.bytes = slice (encodeChars cs) r.1 r.2)
    (c : Cut) (hc : c ∈ cuts (encodeChars cs).length from_ ms) (r : Res (List TextPart))
    (h : stageAPart tk ext (encodeChars cs) enc c = .res r) :
    ∃ ps, r = .ok ps ∧ ∀ p ∈ ps, PartValid p := by
  obtain ⟨hg, hh⟩ := mem_cuts (encodeChars cs) ms from_ hch hal hb
  cases c with
  | gap s e t =>
    obtain ⟨hse, hbs, hbe⟩ := hg s e t hc
    obtain ⟨_, d, _, _, _, _, hsl⟩ := slice_decomp cs s e hbs hbe (Nat.le_of_lt hse)
    simp only [stageAPart, Tokenizer.normSegment, hsl] at h
    cases hcn : configNormalize ext.norm tk.config.normalization ⟨s, t⟩ (encodeChars d) with
    | none => rw [hcn] at h; cases h
    | some r' =>
      obtain ⟨out, rfl, hv⟩ := normalize_total ext hx _ hn ⟨s, t⟩ d r' hcn
      rw [hcn] at h
      simp only [Out.res.injEq] at h
      subst h
      refine ⟨_, rfl, ?_⟩
      intro p hp
      simp only [List.mem_singleton] at hp
      subst hp
      exact fun _ => hv
  | hit a b =>
    obtain ⟨s, hs, hsb⟩ := hms (a, b) (hh a b hc)
    obtain ⟨sp, hsp, hspm, hspb⟩ := lookupSpecial_of_mem tk _ s hs hsb
    simp only [stageAPart, hsp, Out.res.injEq] at h
    subst h
    refine ⟨_, rfl, ?_⟩
    intro p hp
    simp only [List.mem_singleton] at hp
    subst hp
    intro _
    show validUtf8 (slice (encodeChars cs) a b) = true
    rw [← hspb]
    exact hw.utf8 sp hspm

theorem stageA_total (tk : Tokenizer S) (hw : SpecialsWF tk.specials) (ext : Ext) (hx : ExtSane ext)
    (hn : ∀ n ∈ tk.config.normalization, NormLiteralsValid n) (cs : List Char) (enc : Bool)
    (r : Res (List TextPart)) (h : tk.stageA ext (encodeChars cs) enc = .res r) :
    ∃ ps, r = .ok ps ∧ ∀ p ∈ ps, PartValid p := by
  rw [stageA_eq_spec tk hw ext cs enc] at h
  unfold stageASpec at h
  simp only at h
  refine seqOut_all PartValid _ ?_ r h
  intro o ho r' hr'
  obtain ⟨c, hc, rfl⟩ := List.mem_map.mp ho
  refine stageAPart_total tk hw ext hx hn cs enc _ 0 ?_ ?_ (isBoundary_zero _) ?_ c hc r' hr'
  · split
    · simp [Chain]
    · exact scan_chain _ _
  · split
    · intro r hr; simp at hr
    · exact scan_specials_aligned tk.specials hw _ cs
  · split
    · intro r hr; simp at hr
    · intro r hr
      obtain ⟨a, b⟩ := r
      have := (mem_scan_slice _ _ a b hr).1
      simp only [Tokenizer.extractAlts, List.mem_map, List.mem_filter] at this
      obtain ⟨s, ⟨hs, _⟩, hsb⟩ := this
      exact ⟨s, hs, hsb⟩

/-! ## second pass -/

theorem slice_ne_nil (text : Bytes) (a b : Nat) (hab : a < b) (hb : b ≤ text.length) : slice text a b ≠ [] := by
  intro h
  have := slice_length text a b hb
  rw [h] at this
  simp at this
  omega

theorem pieceFold_total (a d c : List Char) (rs : Ranges) (hal : Aligned (encodeChars d) rs) :
    ∀ acc : List TextPart, (∀ p ∈ acc, PartGood p) →
      ∃ ps, rs.foldl (pieceStep (encodeChars (a ++ d ++ c)) (encodeChars a).length) (.ok acc) = .ok ps ∧
        ∀ p ∈ ps, PartGood p := by
  induction rs with
  | nil => intro acc hacc; exact ⟨acc, rfl, hacc⟩
  | cons r rs ih =>
    intro acc hacc
    obtain ⟨x, y⟩ := r
    obtain ⟨h1, h2⟩ := hal (x, y) (List.mem_cons_self ..)
    have hal' : Aligned (encodeChars d) rs := fun r hr => hal r (List.mem_cons_of_mem _ hr)
    rw [List.foldl_cons]
    by_cases hxy : y > x
    · have k1 := boundary_shift a d c x h1
      have k2 := boundary_shift a d c y h2
      rw [Nat.add_comm] at k1 k2
      have hle := isBoundary_le _ _ k2
      have hs := strSlice_eq (by omega : (encodeChars a).length + x ≤ (encodeChars a).length + y) hle k1 k2
      have hstep : pieceStep (encodeChars (a ++ d ++ c)) (encodeChars a).length (.ok acc) (x, y) =
          .ok (acc ++ [⟨slice (encodeChars (a ++ d ++ c)) ((encodeChars a).length + x)
            ((encodeChars a).length + y), INVALID⟩]) := by
        simp only [pieceStep, hxy, if_true, hs]
      rw [hstep]
      apply ih hal'
      intro p hp
      rcases List.mem_append.mp hp with hp | hp
      · exact hacc p hp
      · simp only [List.mem_singleton] at hp
        subst hp
        intro _
        exact ⟨slice_ne_nil _ _ _ (by omega) hle, slice_valid _ _ _ k1 k2 (by omega)⟩
    · have hstep : pieceStep (encodeChars (a ++ d ++ c)) (encodeChars a).length (.ok acc) (x, y) = .ok acc := by
        simp only [pieceStep, hxy, if_false]
      rw [hstep]
      exact ih hal' acc hacc

theorem splitPieces_total (tk : Tokenizer S) (ext : Ext) (hx : ExtSane ext)
    (hs : ∀ s ∈ tk.config.split, SplitLiteralsValid s) (cs : List Char) (s e : Nat) (hse : s < e)
    (hbs : isBoundary (encodeChars cs) s = true) (hbe : isBoundary (encodeChars cs) e = true)
    (r : Res (List TextPart)) (h : tk.splitPieces ext (encodeChars cs) s e = .res r) :
    ∃ ps, r = .ok ps ∧ ∀ p ∈ ps, PartGood p := by
  rw [splitPieces_def, strSlice_eq (Nat.le_of_lt hse) (isBoundary_le _ _ hbe) hbs hbe] at h
  obtain ⟨a, d, c, rfl, rfl, _, hsl⟩ := slice_decomp cs s e hbs hbe (Nat.le_of_lt hse)
  simp only [hsl] at h
  cases hc : configSplit ext.split tk.config.split (encodeChars d) with
  | none => rw [hc] at h; cases h
  | some rs =>
    rw [hc] at h
    simp only [Out.res.injEq] at h
    obtain ⟨_, hal⟩ := split_aligned ext hx _ hs d rs hc
    obtain ⟨ps, hps, hP⟩ := pieceFold_total a d c rs hal [] (by simp)
    rw [hps] at h
    exact ⟨ps, h.symm, hP⟩

theorem stageBSpecPart_total (tk : Tokenizer S) (hw : SpecialsWF tk.specials) (ext : Ext) (hx : ExtSane ext)
    (hs : ∀ s ∈ tk.config.split, SplitLiteralsValid s) (enc : Bool) (p : TextPart) (hp : PartValid p)
    (r : Res (List TextPart)) (h : stageBSpecPart tk ext enc p = .res r) :
    ∃ ps, r = .ok ps ∧ ∀ q ∈ ps, PartGood q := by
  cases hsp : (p.special != INVALID) with
  | true =>
    have : stageBSpecPart tk ext enc p = .res (.ok [p]) := by simp [stageBSpecPart, hsp]
    rw [this, Out.res.injEq] at h
    subst h
    refine ⟨_, rfl, ?_⟩
    intro q hq
    simp only [List.mem_singleton] at hq
    subst hq
    intro hinv
    rw [hinv] at hsp
    simp at hsp
  | false =>
    have hinv : p.special = INVALID := by simpa using hsp
    obtain ⟨cs, hcs⟩ := exists_chars_of_validUtf8 p.text (hp hinv)
    rw [stageBSpecPart_ordinary tk ext enc p hsp] at h
    have hsub := bMatches_sublist tk enc p.text
    have hchain : Chain p.text.length 0 ((bMatches tk enc p.text).map rng) :=
      chain_sublist _ _ _ 0 hsub (scan_chain _ _)
    have hal : Aligned p.text ((bMatches tk enc p.text).map rng) := by
      intro r hr
      have := scan_specials_aligned tk.specials hw (!·.extract) cs
      rw [← hcs] at this
      exact this r (hsub.subset hr)
    have hlt : ∀ m ∈ bMatches tk enc p.text, m.1 < m.2.1 := by
      intro m hm
      have : rng m ∈ scanLiterals tk.specialAlts p.text := hsub.subset (List.mem_map_of_mem hm)
      exact (mem_scan_slice _ _ _ _ this).2
    have hfind := find_key _ _ 0 hchain hlt
    obtain ⟨hg, hh⟩ := mem_cuts p.text _ 0 hchain hal (isBoundary_zero _)
    refine seqOut_all PartGood _ ?_ r h
    intro o ho r' hr'
    obtain ⟨c, hc, rfl⟩ := List.mem_map.mp ho
    cases c with
    | gap s e t =>
      obtain ⟨hse, hbs, hbe⟩ := hg s e t hc
      simp only [stageBPart] at hr'
      rw [hcs] at hr' hbs hbe
      exact splitPieces_total tk ext hx hs cs s e hse hbs hbe r' hr'
    | hit a b =>
      obtain ⟨m, hm, hmr⟩ := List.mem_map.mp (hh a b hc)
      have hf := hfind m hm
      have hlt' := hlt m hm
      obtain ⟨hba, hbb⟩ := hal _ (hh a b hc)
      simp only [rng, Prod.mk.injEq] at hmr
      obtain ⟨rfl, rfl⟩ := hmr
      simp only [stageBPart, hf, Out.res.injEq] at hr'
      subst hr'
      refine ⟨_, rfl, ?_⟩
      intro q hq
      simp only [List.mem_singleton] at hq
      subst hq
      intro _
      simp only at hba hbb ⊢
      refine ⟨slice_ne_nil _ _ _ hlt' (isBoundary_le _ _ hbb), ?_⟩
      rw [hcs] at hba hbb ⊢
      exact slice_valid cs _ _ hba hbb (Nat.le_of_lt hlt')

theorem parts_total (tk : Tokenizer S) (hw : SpecialsWF tk.specials) (ext : Ext) (hx : ExtSane ext)
    (hn : ∀ n ∈ tk.config.normalization, NormLiteralsValid n)
    (hs : ∀ s ∈ tk.config.split, SplitLiteralsValid s)
    (cs : List Char) (enc : Bool) (r : Res (List TextPart))
    (h : tk.parts ext (encodeChars cs) enc = .res r) :
    ∃ ps, r = .ok ps ∧ ∀ p ∈ ps, (p.special = INVALID → p.text ≠ [] ∧ validUtf8 p.text = true) := by
  unfold Tokenizer.parts at h
  rcases hA : tk.stageA ext (encodeChars cs) enc with (a | e | e) | w
  · rw [hA] at h
    simp only at h
    obtain ⟨a', ha', hv⟩ := stageA_total tk hw ext hx hn cs enc _ hA
    injection ha' with ha'
    subst ha'
    rw [stageB_eq_spec tk hw ext enc a
      (fun p hp hinv => exists_chars_of_validUtf8 p.text (hv p hp hinv))] at h
    unfold stageBSpec at h
    refine seqOut_all PartGood _ ?_ r h
    intro o ho r' hr'
    obtain ⟨p, hp, rfl⟩ := List.mem_map.mp ho
    exact stageBSpecPart_total tk hw ext hx hs enc p (hv p hp) r' hr'
  · obtain ⟨_, hc, _⟩ := stageA_total tk hw ext hx hn cs enc _ hA; cases hc
  · obtain ⟨_, hc, _⟩ := stageA_total tk hw ext hx hn cs enc _ hA; cases hc
  · rw [hA] at h; cases h

end Kitoken.Proofs.Totality
