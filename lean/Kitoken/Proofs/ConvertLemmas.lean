/-
  Lemmas for C15 (converters): byte-level placeholder table, `<0xNN>` pieces, Tiktoken, Tekken,
  checker soundness, detection chain.
-/
import Kitoken.Spec.Keeps
namespace Kitoken.Proofs.Convert

open Kitoken Kitoken.Spec Kitoken.Convert

/-! ### byte-level placeholders -/

theorem byteTable_length : byteTable.length = 256 := by decide +kernel

theorem byteTable_nodup : byteTable.Nodup := by decide +kernel

theorem u8_ofNat_toNat (b : UInt8) : UInt8.ofNat b.toNat = b := by
  apply UInt8.toNat_inj.mp
  simp

theorem direct_fin : ∀ i : Fin 256, isDirect i.val = true → byteTable.getD i.val 0 = i.val := by
  decide +kernel

theorem direct_bytes (b : UInt8) (h : isDirect b.toNat = true) : encodeByteChar b = b.toNat := by
  have := direct_fin ⟨b.toNat, b.toNat_lt⟩ h
  simpa [encodeByteChar] using this

theorem decode_encode_fin :
    ∀ i : Fin 256, decodeByteChar (byteTable.getD i.val 0) = some (UInt8.ofNat i.val) := by
  decide +kernel

theorem decode_encode_byteChar (b : UInt8) : decodeByteChar (encodeByteChar b) = some b := by
  have := decode_encode_fin ⟨b.toNat, b.toNat_lt⟩
  simpa [encodeByteChar, u8_ofNat_toNat] using this

theorem decodeByteChars_encode (bs : Bytes) : decodeByteChars (encodeByteChars bs) = some bs := by
  induction bs with
  | nil => simp [decodeByteChars, encodeByteChars]
  | cons b bs ih =>
    simp only [decodeByteChars, encodeByteChars] at ih ⊢
    simp [List.mapM_cons, decode_encode_byteChar, ih]

theorem decodeByteChar_sound (cp : Nat) (b : UInt8) (h : decodeByteChar cp = some b) :
    encodeByteChar b = cp := by
  unfold decodeByteChar at h
  cases hf : byteTable.findIdx? (· == cp) with
  | none => simp [hf] at h
  | some i =>
    rw [hf] at h
    simp only [Option.map_some, Option.some.injEq] at h
    have hi := List.findIdx?_eq_some_iff_getElem.mp hf
    obtain ⟨hlt, heq, -⟩ := hi
    have hlt' : i < 256 := by simpa [byteTable_length] using hlt
    subst h
    unfold encodeByteChar
    have : (UInt8.ofNat i).toNat = i := by simp [UInt8.toNat_ofNat']; omega
    rw [this, List.getD_eq_getElem?_getD, List.getElem?_eq_getElem hlt]
    simpa using heq

/-! ### `<0xNN>` pieces -/

theorem parse_bytePiece_fin : ∀ i : Fin 256,
    parseBytePiece [60, 48, 120, hexDigit (i.val / 16), hexDigit (i.val % 16), 62] = some (UInt8.ofNat i.val) := by
  decide +kernel

theorem parse_bytePiece (b : UInt8) : parseBytePiece (bytePiece b) = some b := by
  have := parse_bytePiece_fin ⟨b.toNat, b.toNat_lt⟩
  simpa [bytePiece, u8_ofNat_toNat] using this

theorem parse_short_rejected (t : Bytes) (h : t.length < 5) : parseBytePiece t = none := by
  unfold parseBytePiece
  have hl : (t.drop 3).length < 2 := by simp; omega
  match hd : t.drop 3, hl with
  | [], _ => rfl
  | [_], _ => rfl
  | _ :: _ :: _, hl => exact absurd hl (by simp)

/-! ### Tiktoken -/

theorem tiktoken_vocab (entries : List (Bytes × Id)) :
    (convertTiktoken entries).vocab = entries.map fun e => (e.2, e.1) := rfl

theorem tiktoken_keeps (entries : List (Bytes × Id)) :
    Keeps (entries.zipIdx.map fun (e, k) => { id := e.2, bytes := e.1, prio := some k })
      { vocab := (convertTiktoken entries).vocab, specials := (convertTiktoken entries).specials } := by
  refine ⟨?_, ?_, ?_⟩
  · intro s hs _ _
    left
    obtain ⟨⟨e, k⟩, hek, rfl⟩ := List.mem_map.mp hs
    have he : e ∈ entries := by
      have := List.mem_map_of_mem (f := Prod.fst) hek
      simpa [List.zipIdx_map_fst] using this
    simp only [Converted.entries, tiktoken_vocab]
    exact List.mem_append_left _ (List.mem_map.mpr ⟨e, he, rfl⟩)
  · intro s hs k hk
    obtain ⟨⟨e, k'⟩, _, rfl⟩ := List.mem_map.mp hs
    simp at hk
  · intro e he
    simp only [tiktoken_vocab] at he
    obtain ⟨x, hx, rfl⟩ := List.mem_map.mp he
    have : x ∈ (entries.zipIdx).map Prod.fst := by simpa [List.zipIdx_map_fst] using hx
    obtain ⟨⟨x', k⟩, hxk, rfl⟩ := List.mem_map.mp this
    exact ⟨_, List.mem_map.mpr ⟨(x', k), hxk, rfl⟩, rfl, Or.inl rfl⟩

/-! ### Tekken -/

theorem tekkenSpecials_length (n : Nat) : (tekkenSpecials n).length = 14 + (n - 14) := by
  simp [tekkenSpecials, tekkenNamed]; omega

theorem u32_ofNat_toNat {i : Nat} (h : i < 4294967296) : (UInt32.ofNat i).toNat = i := by
  simp [UInt32.toNat_ofNat']; omega

theorem tekkenSpecials_id (n : Nat) (hn : n < 4294967295) :
    ∀ s ∈ tekkenSpecials n, s.id.toNat < (tekkenSpecials n).length := by
  intro s hs
  rw [tekkenSpecials_length]
  simp only [tekkenSpecials] at hs
  rcases List.mem_append.mp hs with h | h
  · obtain ⟨⟨⟨t, d, e⟩, i⟩, hi, rfl⟩ := List.mem_map.mp h
    have := (List.mem_zipIdx' hi).1
    have hi' : i < 14 := by simpa [tekkenNamed] using this
    simp only [mkControl]
    rw [u32_ofNat_toNat (by omega)]; omega
  · obtain ⟨i, hi, rfl⟩ := List.mem_map.mp h
    have := List.mem_range'_1.mp hi
    have hl : (List.zipIdx tekkenNamed).length = 14 := by simp [tekkenNamed]
    simp only [List.length_map, hl] at this
    simp only [mkControl]
    rw [u32_ofNat_toNat (by omega)]; omega

/-- What `convertTekken … = .ok out` says. -/
theorem tekken_unfold (version : String) (ns vs : Option Nat) (vocab : List (Nat × Bytes)) (out : ConvOut)
    (h : convertTekken version ns vs vocab = .ok out) :
    ns.getD tekkenNamed.length < 4294967295 ∧
    (∀ e ∈ vocab.take (vs.getD vocab.length - (tekkenSpecials (ns.getD tekkenNamed.length)).length),
      e.1 + (tekkenSpecials (ns.getD tekkenNamed.length)).length < 4294967296) ∧
    out.vocab = ((vocab.take (vs.getD vocab.length - (tekkenSpecials (ns.getD tekkenNamed.length)).length)).map
      fun (r, b) => (UInt32.ofNat (r + (tekkenSpecials (ns.getD tekkenNamed.length)).length), b)).mergeSort
        (fun a b => a.1 ≤ b.1) ∧
    out.specials = (tekkenSpecials (ns.getD tekkenNamed.length)).mergeSort specialLe := by
  unfold convertTekken at h
  simp only at h
  split at h
  · cases h
  split at h
  · cases h
  split at h
  · cases h
  split at h
  · cases h
  split at h
  · cases h
  rename_i _ _ h3 _ hany
  injection h with h
  subst h
  refine ⟨by omega, ?_, rfl, rfl⟩
  intro e he
  have := fun hh => hany (List.any_eq_true.mpr ⟨e, he, hh⟩)
  simp only [decide_eq_true_eq] at this
  exact Nat.lt_of_not_le fun hh => this (Or.inr hh)

theorem tekken_keeps_tokens (version : String) (ns vs : Option Nat) (vocab : List (Nat × Bytes)) (out : ConvOut)
    (h : convertTekken version ns vs vocab = .ok out) :
    ∀ e ∈ vocab.take (vs.getD vocab.length - (tekkenSpecials (ns.getD tekkenNamed.length)).length),
      (UInt32.ofNat (e.1 + (tekkenSpecials (ns.getD tekkenNamed.length)).length), e.2) ∈ out.vocab := by
  obtain ⟨_, _, hv, _⟩ := tekken_unfold version ns vs vocab out h
  intro e he
  rw [hv, List.mem_mergeSort]
  exact List.mem_map.mpr ⟨e, he, rfl⟩

theorem tekken_no_invention (version : String) (ns vs : Option Nat) (vocab : List (Nat × Bytes)) (out : ConvOut)
    (h : convertTekken version ns vs vocab = .ok out) :
    ∀ v ∈ out.vocab, ∃ e ∈ vocab, v = (UInt32.ofNat (e.1 + (tekkenSpecials (ns.getD tekkenNamed.length)).length), e.2) := by
  obtain ⟨_, _, hv, _⟩ := tekken_unfold version ns vs vocab out h
  intro v hvm
  rw [hv, List.mem_mergeSort] at hvm
  obtain ⟨e, he, rfl⟩ := List.mem_map.mp hvm
  exact ⟨e, List.mem_of_mem_take he, rfl⟩

theorem tekken_vocab_sorted (version : String) (ns vs : Option Nat) (vocab : List (Nat × Bytes)) (out : ConvOut)
    (h : convertTekken version ns vs vocab = .ok out) : out.vocab.Pairwise fun a b => a.1 ≤ b.1 := by
  obtain ⟨_, _, hv, _⟩ := tekken_unfold version ns vs vocab out h
  rw [hv]
  refine List.Pairwise.imp ?_ (List.pairwise_mergeSort ?_ ?_ _)
  · intro a b hab; simpa using hab
  · intro a b c hab hbc
    simp only [decide_eq_true_eq] at hab hbc ⊢
    exact UInt32.le_trans hab hbc
  · intro a b
    simp only [Bool.or_eq_true, decide_eq_true_eq]
    exact UInt32.le_total _ _

theorem tekken_ids_disjoint (version : String) (ns vs : Option Nat) (vocab : List (Nat × Bytes)) (out : ConvOut)
    (h : convertTekken version ns vs vocab = .ok out) :
    (∀ s ∈ out.specials, s.id.toNat < (tekkenSpecials (ns.getD tekkenNamed.length)).length) ∧
    (∀ v ∈ out.vocab, (tekkenSpecials (ns.getD tekkenNamed.length)).length ≤ v.1.toNat) := by
  obtain ⟨hn, hr, hv, hs⟩ := tekken_unfold version ns vs vocab out h
  constructor
  · intro s hsm
    rw [hs, List.mem_mergeSort] at hsm
    exact tekkenSpecials_id _ hn s hsm
  · intro v hvm
    rw [hv, List.mem_mergeSort] at hvm
    obtain ⟨e, he, rfl⟩ := List.mem_map.mp hvm
    simp only
    rw [u32_ofNat_toNat (hr e he)]
    omega

theorem tekken_small_undeclared_rejected :
    convertTekken "v3" none none [(0, [97]), (1, [98]), (2, [97, 98])] = .error .tooFewTokens := by
  simp [convertTekken, tekkenSpecials_length, tekkenNamed]

/-! ### checker -/

theorem keepsCheck_sound (src : List SrcToken) (c : Converted) (h : keepsCheck src c = true) : Keeps src c := by
  unfold keepsCheck at h
  simp only [Bool.and_eq_true] at h
  obtain ⟨⟨⟨h1, h2⟩, _⟩, _⟩ := h
  rw [List.all_eq_true] at h1 h2
  refine ⟨?_, ?_, ?_⟩
  · intro s hs hsp hun
    have := h1 s hs
    rw [hsp] at this
    simp only [keptOrdinary, hun, Bool.false_or, Bool.or_eq_true, List.contains_iff_mem,
      List.any_eq_true, Bool.and_eq_true, beq_iff_eq, bne_iff_ne] at this
    rcases this with h | ⟨e, he, h1, h2⟩
    · exact Or.inl h
    · exact Or.inr ⟨e, he, h1, h2⟩
  · intro s hs k hk
    have := h1 s hs
    rw [hk] at this
    simp only [keptSpecial, List.any_eq_true, Bool.and_eq_true, Bool.or_eq_true, beq_iff_eq, bne_iff_ne,
      Option.isNone_iff_eq_none] at this
    obtain ⟨sp, hsp, hkind, hid⟩ := this
    refine ⟨sp, hsp, hkind, ?_⟩
    rcases hid with ⟨h1, h2⟩ | ⟨hb, v, hv, ⟨h0, h1⟩, h2⟩
    · exact Or.inl ⟨h1, h2⟩
    · exact Or.inr ⟨hb, v, hv, h0, h1, h2⟩
  · intro e he
    have := h2 e he
    simp only [fromSource, List.any_eq_true, Bool.and_eq_true, Bool.or_eq_true, beq_iff_eq] at this
    exact this

/-! ### detection -/

theorem detect_native_first {α : Type} (native : Bytes → Option α) (rest : List (Bytes → Option α)) (data : Bytes) (d : α)
    (h : native data = some d) : detect (native :: rest) data = some d := by
  simp [detect, h]

theorem detect_none_iff {α : Type} (chain : List (Bytes → Option α)) (data : Bytes) :
    detect chain data = none ↔ ∀ f ∈ chain, f data = none := by
  simp [detect, List.findSome?_eq_none_iff]

theorem detect_eq_explicit {α : Type} (pre post : List (Bytes → Option α)) (f : Bytes → Option α) (data : Bytes) (d : α)
    (hpre : ∀ g ∈ pre, g data = none) (h : f data = some d) : detect (pre ++ f :: post) data = some d := by
  have hp : pre.findSome? (fun g => g data) = none := List.findSome?_eq_none_iff.mpr hpre
  simp [detect, List.findSome?_append, hp, h]

end Kitoken.Proofs.Convert
