/-
  Lemmas for C17, part 2: the decoders of the definition format (Kitoken.Model.DefCodec) only take
  bytes off the front (`Suff`), every element decoder takes at least one (`Eats`), and hence a decoded
  definition has no more vocabulary entries and special tokens than the input has bytes.
  For arbitrary input and an arbitrary regex oracle. Core Lean only.
-/
import Kitoken.Proofs.LoadBasic
import Kitoken.Model.DefCodec
namespace Kitoken.Proofs.Load

open Kitoken Kitoken.Codec Kitoken.DefCodec

/-! ## unit enums -/

theorem unitEnum_eats (name : String) (names : List String) (tagOf : α → Nat) (ofTag : Nat → Option α) :
    Eats (unitEnum name names tagOf ofTag).dec := by
  apply enum_eats
  intro t bs x rest h
  cases ho : ofTag t with
  | none => simp [ho] at h
  | some y =>
    simp only [ho, Option.map_some, Option.some.injEq, Prod.mk.injEq] at h
    obtain ⟨-, rfl⟩ := h
    exact List.suffix_refl _

theorem fallback_eats : Eats fallback.dec := unitEnum_eats _ _ _ _
theorem insertionPosition_eats : Eats insertionPosition.dec := unitEnum_eats _ _ _ _
theorem specialKind_eats : Eats specialKind.dec := unitEnum_eats _ _ _ _
theorem unicodeScheme_eats : Eats unicodeScheme.dec := unitEnum_eats _ _ _ _
theorem normCondition_eats : Eats normCondition.dec := unitEnum_eats _ _ _ _
theorem splitBehavior_eats : Eats splitBehavior.dec := unitEnum_eats _ _ _ _
theorem direction_eats : Eats direction.dec := unitEnum_eats _ _ _ _
theorem nat32_eats : Eats nat32.dec := varU32_eats

/-! ## patterns -/

theorem regex_eats (ok : Bytes → Option Bool) : Eats (regex ok).dec := by
  intro bs x rest h
  simp only [regex, Option.bind_eq_bind] at h
  refine eats_bind str_eats h ?_
  intro b r h
  dsimp only at h
  split at h
  · simp only [Option.some.injEq, Prod.mk.injEq] at h
    obtain ⟨-, rfl⟩ := h
    exact List.suffix_refl _
  · cases h

theorem suff_of_pure {v : α} {r : Bytes} {y : α} {rest : Bytes}
    (h : (pure (v, r) : Option (α × Bytes)) = some (y, rest)) : rest <:+ r := by
  simp only [Option.pure_def, Option.some.injEq, Prod.mk.injEq] at h
  obtain ⟨-, rfl⟩ := h
  exact List.suffix_refl _

/-- Closes `rest <:+ r` from `h : pure (v, r) = some (y, rest)`. -/
macro "suff_done " h:ident : tactic => `(tactic| exact suff_of_pure $h:ident)

/-- One step of a `do` block: `h : (d r).bind g = some _`, with `d` known to leave a suffix. -/
macro "suff_step " hd:term ", " h:ident : tactic =>
  `(tactic| (refine suff_bind $hd $h:ident ?_
             intro _ _ $h:ident
             dsimp only at $h:ident))

theorem replacePattern_eats (name : String) (ok : Bytes → Option Bool) : Eats (replacePattern name ok).dec := by
  unfold replacePattern
  apply enum_eats
  intro t bs x rest h
  split at h
  · exact suff_map char_eats.suff _ bs x rest h
  · exact suff_map str_eats.suff _ bs x rest h
  · exact suff_map (regex_eats ok).suff _ bs x rest h
  · cases h

theorem splitPattern_eats (ok : Bytes → Option Bool) : Eats (DefCodec.splitPattern ok).dec :=
  iso_eats _ _ _ (replacePattern_eats _ ok)

theorem charsMap_eats : Eats charsMap.dec := by
  unfold charsMap
  apply struct_eats
  apply iso_eats
  apply pair_eats
  · exact field_eats _ _ (seq_eats _ u32_eats.suff)
  · exact field_suff _ _ bytes_eats.suff

/-! ## Normalization -/

theorem decNormalization_eats (ok : Bytes → Option Bool) :
    ∀ (fuel : Nat), Eats (decNormalization ok fuel) := by
  intro fuel
  induction fuel with
  | zero => intro bs x rest h; simp [decNormalization] at h
  | succ f ih =>
    intro bs x rest h
    simp only [decNormalization, Option.bind_eq_bind] at h
    refine eats_bind (varint_eats 5 15 5) h ?_
    intro t r h
    dsimp only at h
    split at h
    · exact suff_map unicodeScheme_eats.suff _ r x rest h
    · simp only [Option.some.injEq, Prod.mk.injEq] at h
      obtain ⟨-, rfl⟩ := h
      exact List.suffix_refl _
    · exact suff_map bool_eats.suff _ r x rest h
    · exact suff_map str_eats.suff _ r x rest h
    · exact suff_map str_eats.suff _ r x rest h
    · suff_step char_eats.suff, h
      suff_step nat32_eats.suff, h
      suff_step nat32_eats.suff, h
      suff_step bool_eats.suff, h
      suff_done h
    · suff_step char_eats.suff, h
      suff_step nat32_eats.suff, h
      suff_step nat32_eats.suff, h
      suff_done h
    · exact suff_map char_eats.suff _ r x rest h
    · suff_step (replacePattern_eats _ ok).suff, h
      suff_step str_eats.suff, h
      suff_done h
    · exact suff_map charsMap_eats.suff _ r x rest h
    · suff_step normCondition_eats.suff, h
      suff_step ih.suff, h
      suff_done h
    · cases h

theorem normalization_eats (ok : Bytes → Option Bool) : Eats (normalization ok).dec :=
  fun bs x rest h => decNormalization_eats ok (bs.length + 1) bs x rest h

/-! ## Split, Processing, Decoding -/

theorem split_eats (ok : Bytes → Option Bool) : Eats (DefCodec.split ok).dec := by
  unfold DefCodec.split
  apply enum_eats
  intro t bs x rest h
  split at h
  · simp only [Option.bind_eq_bind] at h
    suff_step (splitPattern_eats ok).suff, h
    suff_step splitBehavior_eats.suff, h
    suff_done h
  · simp only [Option.some.injEq, Prod.mk.injEq] at h
    obtain ⟨-, rfl⟩ := h
    exact List.suffix_refl _
  · cases h

theorem processing_eats : Eats DefCodec.processing.dec := by
  unfold DefCodec.processing
  apply enum_eats
  intro t bs x rest h
  split at h
  · simp only [Option.bind_eq_bind] at h
    suff_step u32_eats.suff, h
    suff_step nat32_eats.suff, h
    suff_step nat32_eats.suff, h
    suff_done h
  · exact suff_map u32_eats.suff _ bs x rest h
  · simp only [Option.bind_eq_bind] at h
    suff_step u32_eats.suff, h
    suff_step nat32_eats.suff, h
    suff_step nat32_eats.suff, h
    suff_step direction_eats.suff, h
    suff_done h
  · simp only [Option.bind_eq_bind] at h
    suff_step nat32_eats.suff, h
    suff_step nat32_eats.suff, h
    suff_step direction_eats.suff, h
    suff_done h
  · cases h

theorem decoding_eats (ok : Bytes → Option Bool) : Eats (DefCodec.decoding ok).dec := by
  unfold DefCodec.decoding
  apply enum_eats
  intro t bs x rest h
  split at h
  · simp only [Option.bind_eq_bind] at h
    suff_step char_eats.suff, h
    suff_step nat32_eats.suff, h
    suff_step nat32_eats.suff, h
    suff_step bool_eats.suff, h
    suff_done h
  · simp only [Option.bind_eq_bind] at h
    suff_step char_eats.suff, h
    suff_step nat32_eats.suff, h
    suff_step nat32_eats.suff, h
    suff_done h
  · exact suff_map char_eats.suff _ bs x rest h
  · simp only [Option.bind_eq_bind] at h
    suff_step (replacePattern_eats _ ok).suff, h
    suff_step str_eats.suff, h
    suff_done h
  · cases h

/-! ## Template, Token, SpecialToken -/

theorem template_eats : Eats template.dec := by
  unfold template
  apply struct_eats
  apply iso_eats
  apply pair_eats
  · exact field_eats _ _ str_eats
  · exact field_suff _ _ insertionPosition_eats.suff

theorem token_eats : Eats token.dec := by
  unfold token
  apply struct_eats
  apply pair_eats
  · exact field_eats _ _ u32_eats
  · exact field_suff _ _ bytes_eats.suff

theorem specialToken_eats : Eats specialToken.dec := by
  unfold specialToken
  apply struct_eats
  apply iso_eats
  apply pair_eats
  · exact field_eats _ _ u32_eats
  apply pair_suff
  · exact field_suff _ _ bytes_eats.suff
  apply pair_suff
  · exact field_suff _ _ specialKind_eats.suff
  apply pair_suff
  · exact field_suff _ _ (option_eats _ str_eats.suff).suff
  apply pair_suff
  · exact field_suff _ _ f32bits_eats.suff
  · exact field_suff _ _ bool_eats.suff

/-! ## Model, Metadata, Configuration, Definition -/

/-- The model decoder leaves a suffix, and the vocabulary has no more entries than bytes consumed. -/
theorem model_count (bs : Bytes) (m : ModelDef) (rest : Bytes) (h : model.dec bs = some (m, rest)) :
    rest <:+ bs ∧ m.vocab.length + rest.length + 1 ≤ bs.length := by
  simp only [model, Codec.enum, Option.bind_eq_bind] at h
  cases ht : decVarint 5 15 5 0 0 bs with
  | none => simp [ht] at h
  | some p =>
    obtain ⟨t, r⟩ := p
    simp only [ht, Option.bind_some] at h
    have h0 := decVarint_eats 5 15 5 0 0 bs t r ht
    have key : ∀ (v : List (Id × Bytes)) (r₁ : Bytes), (Codec.seq token).dec r = some (v, r₁) →
        rest <:+ r₁ → m.vocab = v → rest <:+ bs ∧ m.vocab.length + rest.length + 1 ≤ bs.length := by
      intro v r₁ hv hr hm
      have h1 := seq_count token token_eats r v r₁ hv
      have h2 := (seq_eats token token_eats.suff r v r₁ hv).1
      have h3 := hr.length_le
      exact ⟨(hr.trans h2).trans h0.1, by rw [hm]; omega⟩
    split at h
    · cases hv : (Codec.seq token).dec r with
      | none => simp [hv] at h
      | some q =>
        obtain ⟨v, r₁⟩ := q
        simp only [hv, Option.bind_some] at h
        cases hc : Codec.bool.dec r₁ with
        | none => simp [hc] at h
        | some q =>
          obtain ⟨c, r₂⟩ := q
          simp only [hc, Option.bind_some, Option.pure_def, Option.some.injEq, Prod.mk.injEq] at h
          obtain ⟨rfl, rfl⟩ := h
          exact key v r₁ hv (bool_eats.suff r₁ c _ hc) rfl
    · cases hv : (Codec.seq token).dec r with
      | none => simp [hv] at h
      | some q =>
        obtain ⟨v, r₁⟩ := q
        simp only [hv, Option.bind_some] at h
        cases hc : (Codec.seq Codec.f32bits).dec r₁ with
        | none => simp [hc] at h
        | some q =>
          obtain ⟨c, r₂⟩ := q
          simp only [hc, Option.bind_some, Option.pure_def, Option.some.injEq, Prod.mk.injEq] at h
          obtain ⟨rfl, rfl⟩ := h
          exact key v r₁ hv ((seq_eats _ f32bits_eats.suff).suff r₁ c _ hc) rfl
    · cases hv : (Codec.seq token).dec r with
      | none => simp [hv] at h
      | some q =>
        obtain ⟨v, r₁⟩ := q
        simp only [hv, Option.bind_some] at h
        cases hc : nat32.dec r₁ with
        | none => simp [hc] at h
        | some q =>
          obtain ⟨c, r₂⟩ := q
          simp only [hc, Option.bind_some, Option.pure_def, Option.some.injEq, Prod.mk.injEq] at h
          obtain ⟨rfl, rfl⟩ := h
          exact key v r₁ hv (nat32_eats.suff r₁ c _ hc) rfl
    · cases h

theorem model_eats : Eats model.dec :=
  fun bs m rest h => ⟨(model_count bs m rest h).1, by have := (model_count bs m rest h).2; omega⟩

theorem metadata_eats : Eats metadata.dec := by
  unfold metadata
  apply struct_eats
  apply iso_eats
  apply pair_eats
  · exact field_eats _ _ str_eats
  apply pair_suff
  · exact field_suff _ _ str_eats.suff
  · exact field_suff _ _ (seq_eats _ (tuple_suff _ (pair_suff _ _ str_eats.suff str_eats.suff))).suff

theorem configuration_eats (ok : Bytes → Option Bool) : Eats (configuration ok).dec := by
  unfold configuration
  apply struct_eats
  apply iso_eats
  apply pair_eats
  · exact field_eats _ _ (seq_eats _ fallback_eats.suff)
  apply pair_suff
  · exact field_suff _ _ (seq_eats _ (normalization_eats ok).suff).suff
  apply pair_suff
  · exact field_suff _ _ (seq_eats _ (split_eats ok).suff).suff
  apply pair_suff
  · exact field_suff _ _ (seq_eats _ processing_eats.suff).suff
  apply pair_suff
  · exact field_suff _ _ (seq_eats _ (decoding_eats ok).suff).suff
  · exact field_suff _ _ (seq_eats _ template_eats.suff).suff

theorem definition_eats (ok : Bytes → Option Bool) : Eats (definition ok).dec := by
  unfold definition
  apply struct_eats
  apply iso_eats
  apply pair_eats
  · exact field_eats _ _ metadata_eats
  apply pair_suff
  · exact field_suff _ _ model_eats.suff
  apply pair_suff
  · exact field_suff _ _ (seq_eats _ specialToken_eats.suff).suff
  · exact field_suff _ _ (configuration_eats ok).suff

/-- What a definition decode leaves is a suffix of its input. -/
theorem definition_dec_suffix (ok : Bytes → Option Bool) (bs rest : Bytes) (d : Definition)
    (h : (definition ok).dec bs = some (d, rest)) : rest <:+ bs :=
  (definition_eats ok).suff bs d rest h

/-- The four parts of a definition decode, in order. -/
theorem definition_dec_parts (ok : Bytes → Option Bool) (bs rest : Bytes) (d : Definition)
    (h : (definition ok).dec bs = some (d, rest)) :
    ∃ r₁ r₂ r₃, metadata.dec bs = some (d.metadata, r₁) ∧ model.dec r₁ = some (d.model, r₂) ∧
      (Codec.seq specialToken).dec r₂ = some (d.specials, r₃) ∧ (configuration ok).dec r₃ = some (d.config, rest) := by
  simp only [definition, Codec.struct, Codec.iso, Codec.pair, Codec.field, Option.bind_eq_bind] at h
  cases h1 : metadata.dec bs with
  | none => simp [h1] at h
  | some p1 =>
    obtain ⟨m, r₁⟩ := p1
    simp only [h1, Option.bind_some] at h
    cases h2 : model.dec r₁ with
    | none => simp [h2] at h
    | some p2 =>
      obtain ⟨mo, r₂⟩ := p2
      simp only [h2, Option.bind_some] at h
      cases h3 : (Codec.seq specialToken).dec r₂ with
      | none => simp [h3] at h
      | some p3 =>
        obtain ⟨s, r₃⟩ := p3
        simp only [h3, Option.bind_some] at h
        cases h4 : (configuration ok).dec r₃ with
        | none => simp [h4] at h
        | some p4 =>
          obtain ⟨c, r₄⟩ := p4
          simp only [h4, Option.bind_some, Option.pure_def, Option.map_some, Option.some.injEq, Prod.mk.injEq] at h
          obtain ⟨rfl, rfl⟩ := h
          exact ⟨r₁, r₂, r₃, rfl, h2, h3, h4⟩

/-- Declared sizes are bounded by the data (with what is left over, and the four bytes that the
    length prefixes and the variant index take at least). -/
theorem definition_sizes_bounded_strong (ok : Bytes → Option Bool) (bs rest : Bytes) (d : Definition)
    (h : (definition ok).dec bs = some (d, rest)) :
    d.model.vocab.length + d.specials.length + rest.length + 4 ≤ bs.length := by
  obtain ⟨r₁, r₂, r₃, h1, h2, h3, h4⟩ := definition_dec_parts ok bs rest d h
  have e1 := (metadata_eats bs _ _ h1).2
  have e2 := (model_count r₁ _ _ h2).2
  have e3 := seq_count specialToken specialToken_eats r₂ _ _ h3
  have e4 := ((configuration_eats ok) r₃ _ _ h4).2
  omega

theorem definition_sizes_bounded (ok : Bytes → Option Bool) (bs rest : Bytes) (d : Definition)
    (h : (definition ok).dec bs = some (d, rest)) :
    d.model.vocab.length + d.specials.length ≤ bs.length := by
  have := definition_sizes_bounded_strong ok bs rest d h
  omega

end Kitoken.Proofs.Load
