/-
  Lemmas for C14, part 1: the codec law `dec (enc x ++ r) = some (x, r)` for the combinators of
  Kitoken.Model.Codec, under the side conditions that make it true (values fit their wire type,
  strings are valid UTF-8, lengths are below 2^64). Core Lean only.
-/
import Kitoken.Model.Codec
import Kitoken.Proofs.Utf8Lemmas2
namespace Kitoken.Proofs.Codec

open Kitoken Kitoken.Codec Kitoken.Utf8

/-! ## varints -/

theorem encVarint_small (n : Nat) (h : n < 128) : encVarint n = [UInt8.ofNat n] := by
  rw [encVarint]; simp [h]

theorem encVarint_big (n : Nat) (h : ¬ n < 128) :
    encVarint n = UInt8.ofNat (n % 128 + 128) :: encVarint (n / 128) := by
  rw [encVarint]; simp [h]

theorem encVarint_length_pos (n : Nat) : 1 ≤ (encVarint n).length := by
  by_cases h : n < 128
  · rw [encVarint_small n h]; simp
  · rw [encVarint_big n h]; simp

theorem encVarint_ne_nil (n : Nat) : encVarint n ≠ [] := by
  intro h
  have := encVarint_length_pos n
  rw [h] at this; simp at this

theorem toNat_ofNat8 (n : Nat) (h : n < 256) : (UInt8.ofNat n).toNat = n := by
  simp [UInt8.toNat_ofNat']; omega

theorem varint_arith (n X : Nat) : n % 128 * X + n / 128 * (X * 128) = n * X := by
  have h := Nat.div_add_mod n 128
  calc n % 128 * X + n / 128 * (X * 128)
      = (128 * (n / 128) + n % 128) * X := by
        rw [Nat.add_mul, Nat.add_comm, Nat.mul_comm X 128, ← Nat.mul_assoc, Nat.mul_comm (n / 128) 128]
    _ = n * X := by rw [h]

/-- The general invariant: with `fuel` bytes left (the last of which may hold at most `lm`), every
    number below `128^(fuel-1) * (lm+1)` is read back. -/
theorem decVarint_encVarint (mb lm : Nat) (hlm : lm < 128) :
    ∀ (fuel n shift acc : Nat) (r : Bytes), n < 128 ^ fuel / 128 * (lm + 1) →
      decVarint mb lm fuel shift acc (encVarint n ++ r) = some (acc + n * 2 ^ shift, r) := by
  intro fuel
  induction fuel with
  | zero => intro n shift acc r h; simp at h
  | succ f ih =>
    intro n shift acc r h
    have hpow : 128 ^ (f + 1) / 128 = 128 ^ f := by
      rw [Nat.pow_succ]; simp
    rw [hpow] at h
    by_cases hn : n < 128
    · rw [encVarint_small n hn]
      simp only [List.cons_append, List.nil_append, decVarint]
      rw [toNat_ofNat8 n (by omega)]
      simp only [hn, if_true]
      by_cases hf : f = 0
      · subst hf
        simp at h
        have : ¬ (n > lm) := by omega
        simp [this]
      · have : (f + 1 == 1) = false := by simp [hf]
        simp [this]
    · rw [encVarint_big n hn]
      simp only [List.cons_append, decVarint]
      rw [toNat_ofNat8 _ (by omega)]
      have h1 : ¬ (n % 128 + 128 < 128) := by omega
      simp only [h1, if_false]
      have hf : f ≠ 0 := by
        intro hf; subst hf; simp at h; omega
      have h2 : (f + 1 == 1) = false := by simp [hf]
      simp only [h2, Bool.false_eq_true, if_false]
      obtain ⟨g, rfl⟩ : ∃ g, f = g + 1 := ⟨f - 1, by omega⟩
      have hdiv : n / 128 < 128 ^ (g + 1) / 128 * (lm + 1) := by
        have hp : 128 ^ (g + 1) / 128 = 128 ^ g := by rw [Nat.pow_succ]; simp
        rw [hp]
        rw [Nat.pow_succ, Nat.mul_comm (128 ^ g) 128, Nat.mul_assoc] at h
        exact Nat.div_lt_of_lt_mul h
      rw [ih (n / 128) (shift + 7) _ r hdiv]
      have : n % 128 + 128 - 128 = n % 128 := by omega
      rw [this, Nat.pow_add, Nat.add_assoc]
      have e : (2 : Nat) ^ 7 = 128 := by decide
      rw [e, varint_arith]

theorem decVarint_u32 (n : Nat) (h : n < 2 ^ 32) (r : Bytes) :
    decVarint 5 15 5 0 0 (encVarint n ++ r) = some (n, r) := by
  have := decVarint_encVarint 5 15 (by omega) 5 n 0 0 r (by
    have : (128 : Nat) ^ 5 / 128 * (15 + 1) = 2 ^ 32 := by decide
    omega)
  simpa using this

theorem decVarint_usize (n : Nat) (h : n < 2 ^ 64) (r : Bytes) :
    decVarint 10 1 10 0 0 (encVarint n ++ r) = some (n, r) := by
  have := decVarint_encVarint 10 1 (by omega) 10 n 0 0 r (by
    have : (128 : Nat) ^ 10 / 128 * (1 + 1) = 2 ^ 64 := by decide
    omega)
  simpa using this

/-! ## The law, pointwise -/

/-- The codec law at one value. -/
abbrev LawAt (c : Codec α) (x : α) : Prop := ∀ r, c.dec (c.enc x ++ r) = some (x, r)

theorem varU32_law (n : Nat) (h : n < 2 ^ 32) : LawAt varU32 n := fun r => decVarint_u32 n h r

theorem varUsize_law (n : Nat) (h : n < 2 ^ 64) : LawAt varUsize n := fun r => decVarint_usize n h r

theorem u32_law (x : UInt32) : LawAt u32 x := by
  intro r
  have h : x.toNat < 2 ^ 32 := x.toNat_lt
  simp only [u32, decVarint_u32 _ h, Option.map_some, UInt32.ofNat_toNat]

theorem bool_law (b : Bool) : LawAt Codec.bool b := by
  intro r
  cases b <;> simp [Codec.bool]

theorem le32_bytes (u : UInt32) :
    u.toUInt8.toUInt32 ||| ((u >>> 8).toUInt8.toUInt32 <<< 8) ||| ((u >>> 16).toUInt8.toUInt32 <<< 16) |||
      ((u >>> 24).toUInt8.toUInt32 <<< 24) = u := by
  apply UInt32.eq_of_toBitVec_eq
  simp only [UInt32.toBitVec_or, UInt32.toBitVec_shiftLeft, UInt8.toBitVec_toUInt32, UInt32.toBitVec_toUInt8, UInt32.toBitVec_shiftRight]
  ext i hi
  simp
  by_cases h1 : i < 8
  · have h2 : i < 16 := by omega
    have h3 : i < 24 := by omega
    simp [h1, h2, h3, BitVec.getLsbD_eq_getElem hi]
  · by_cases h2 : i < 16
    · have : 8 + (i - 8) = i := by omega
      have h3 : i < 24 := by omega
      have h4 : i - 8 < 8 := by omega
      simp [h1, h2, h3, h4, this, BitVec.getLsbD_eq_getElem hi]
    · by_cases h3 : i < 24
      · have : 16 + (i - 16) = i := by omega
        have h4 : ¬ i - 8 < 8 := by omega
        have h5 : i - 16 < 8 := by omega
        simp [h1, h2, h3, h4, h5, this, BitVec.getLsbD_eq_getElem hi]
      · have : 24 + (i - 24) = i := by omega
        have h4 : ¬ i - 8 < 8 := by omega
        have h5 : ¬ i - 16 < 8 := by omega
        have h6 : i - 24 < 8 := by omega
        simp [h1, h2, h3, h4, h5, h6, this, BitVec.getLsbD_eq_getElem hi]

theorem f32bits_law (u : UInt32) : LawAt f32bits u := by
  intro r
  simp only [f32bits, List.cons_append, List.nil_append, le32_bytes]

/-! ## byte strings -/

theorem takeN_append (b r : Bytes) : takeN b.length (b ++ r) = some (b, r) := by
  induction b with
  | nil => simp [takeN]
  | cons x xs ih => simp [takeN, ih]

theorem bytes_law (b : Bytes) (h : b.length < 2 ^ 64) : LawAt Codec.bytes b := by
  intro r
  simp only [Codec.bytes, List.append_assoc, decVarint_usize _ h]
  simp [takeN_append]

theorem str_law (b : Bytes) (h : b.length < 2 ^ 64) (hv : validUtf8 b = true) : LawAt Codec.str b := by
  intro r
  simp only [Codec.str, List.append_assoc, decVarint_usize _ h]
  simp [takeN_append, hv]

theorem char_law (c : Char) : LawAt Codec.char c := by
  intro r
  have hl : (encodeChar c).length ≤ 4 := by
    rw [encodeChar_length]
    have := c.utf8Size_le_four
    omega
  have hv : validUtf8 (encodeChar c) = true := by
    rw [← encodeChars_singleton]; exact validUtf8_encodeChars [c]
  have hd := decodeOne_encodeChar_append c []
  rw [List.append_nil] at hd
  simp only [Codec.char, List.append_assoc, decVarint_usize _ (by omega : (encodeChar c).length < 2 ^ 64)]
  have : ¬ (encodeChar c).length > 4 := by omega
  simp [takeN_append, hv, hd, this]

/-! ## products, options, sequences, renamings -/

theorem option_law (c : Codec α) (x : Option α) (h : ∀ y, x = some y → LawAt c y) : LawAt (Codec.option c) x := by
  intro r
  cases x with
  | none => simp [Codec.option]
  | some y => simp [Codec.option, h y rfl r]

theorem pair_law (a : Codec α) (b : Codec β) (x : α) (y : β) (ha : LawAt a x) (hb : LawAt b y) :
    LawAt (Codec.pair a b) (x, y) := by
  intro r
  simp [Codec.pair, List.append_assoc, ha _, hb _]

theorem iso_law (c : Codec α) (to : α → β) (back : β → α) (y : β) (h : LawAt c (back y)) (hy : to (back y) = y) :
    LawAt (Codec.iso c to back) y := by
  intro r
  simp [Codec.iso, h r, hy]

theorem decList_flatMap (c : Codec α) (l : List α) (h : ∀ x ∈ l, LawAt c x) (r : Bytes) :
    decList c.dec l.length (l.flatMap c.enc ++ r) = some (l, r) := by
  induction l with
  | nil => simp [decList]
  | cons x xs ih =>
    have hx := h x List.mem_cons_self
    have hxs := ih (fun y hy => h y (List.mem_cons_of_mem _ hy))
    simp [decList, List.flatMap_cons, List.append_assoc, hx _, hxs]

theorem seq_law (c : Codec α) (l : List α) (hl : l.length < 2 ^ 64) (h : ∀ x ∈ l, LawAt c x) :
    LawAt (Codec.seq c) l := by
  intro r
  simp only [Codec.seq, List.append_assoc, decVarint_usize _ hl]
  simp [decList_flatMap c l h r]

theorem field_law (name : String) (c : Codec α) (x : α) (h : LawAt c x) : LawAt (Codec.field name c) x := h
theorem struct_law (name : String) (c : Codec α) (x : α) (h : LawAt c x) : LawAt (Codec.struct name c) x := h
theorem tuple_law (c : Codec α) (x : α) (h : LawAt c x) : LawAt (Codec.tuple c) x := h

@[simp] theorem field_enc (name : String) (c : Codec α) : (Codec.field name c).enc = c.enc := rfl
@[simp] theorem struct_enc (name : String) (c : Codec α) : (Codec.struct name c).enc = c.enc := rfl
@[simp] theorem tuple_enc (c : Codec α) : (Codec.tuple c).enc = c.enc := rfl
@[simp] theorem field_dec (name : String) (c : Codec α) : (Codec.field name c).dec = c.dec := rfl
@[simp] theorem struct_dec (name : String) (c : Codec α) : (Codec.struct name c).dec = c.dec := rfl
@[simp] theorem tuple_dec (c : Codec α) : (Codec.tuple c).dec = c.dec := rfl

theorem enum_law (name : String) (shapes : List String) (tagOf : α → Nat) (encV : α → Bytes)
    (decV : Nat → Bytes → Option (α × Bytes)) (x : α) (ht : tagOf x < 2 ^ 32)
    (h : ∀ r, decV (tagOf x) (encV x ++ r) = some (x, r)) :
    LawAt (Codec.enum name shapes tagOf encV decV) x := by
  intro r
  simp only [Codec.enum, List.append_assoc, decVarint_u32 _ ht]
  simp [h r]

/-! ## sizes: every part of an encoding is no longer than the whole -/

theorem length_le_flatMap (f : α → Bytes) (l : List α) (h : ∀ x ∈ l, 1 ≤ (f x).length) :
    l.length ≤ (l.flatMap f).length := by
  induction l with
  | nil => simp
  | cons x xs ih =>
    have hx := h x List.mem_cons_self
    have := ih (fun y hy => h y (List.mem_cons_of_mem _ hy))
    simp only [List.flatMap_cons, List.length_append, List.length_cons]
    omega

theorem elem_le_flatMap (f : α → Bytes) (l : List α) (x : α) (hx : x ∈ l) :
    (f x).length ≤ (l.flatMap f).length := by
  induction l with
  | nil => cases hx
  | cons y ys ih =>
    simp only [List.flatMap_cons, List.length_append]
    rcases List.mem_cons.mp hx with rfl | h
    · omega
    · have := ih h; omega

theorem seq_enc_length (c : Codec α) (l : List α) :
    ((Codec.seq c).enc l).length = (encVarint l.length).length + (l.flatMap c.enc).length := by
  simp [Codec.seq]

theorem seq_length_le (c : Codec α) (l : List α) (h : ∀ x ∈ l, 1 ≤ (c.enc x).length) :
    l.length ≤ ((Codec.seq c).enc l).length := by
  rw [seq_enc_length]
  have := length_le_flatMap c.enc l h
  omega

theorem seq_elem_le (c : Codec α) (l : List α) (x : α) (hx : x ∈ l) :
    (c.enc x).length ≤ ((Codec.seq c).enc l).length := by
  rw [seq_enc_length]
  have := elem_le_flatMap c.enc l x hx
  omega

/-- Sequence law from a bound on the size of the whole encoding. -/
theorem seq_law_of_small (c : Codec α) (l : List α) (hpos : ∀ x ∈ l, 1 ≤ (c.enc x).length)
    (hs : ((Codec.seq c).enc l).length < 2 ^ 64)
    (h : ∀ x ∈ l, (c.enc x).length < 2 ^ 64 → LawAt c x) : LawAt (Codec.seq c) l := by
  apply seq_law c l
  · have := seq_length_le c l hpos; omega
  · intro x hx
    apply h x hx
    have := seq_elem_le c l x hx; omega

theorem bytes_enc_length (b : Bytes) : (Codec.bytes.enc b).length = (encVarint b.length).length + b.length := by
  simp [Codec.bytes]

theorem str_enc_length (b : Bytes) : (Codec.str.enc b).length = (encVarint b.length).length + b.length := by
  simp [Codec.str]

theorem bytes_law_of_small (b : Bytes) (h : (Codec.bytes.enc b).length < 2 ^ 64) : LawAt Codec.bytes b := by
  apply bytes_law
  rw [bytes_enc_length] at h; omega

theorem str_law_of_small (b : Bytes) (h : (Codec.str.enc b).length < 2 ^ 64) (hv : validUtf8 b = true) :
    LawAt Codec.str b := by
  apply str_law _ _ hv
  rw [str_enc_length] at h; omega

theorem bytes_enc_pos (b : Bytes) : 1 ≤ (Codec.bytes.enc b).length := by
  rw [bytes_enc_length]; have := encVarint_length_pos b.length; omega

theorem str_enc_pos (b : Bytes) : 1 ≤ (Codec.str.enc b).length := by
  rw [str_enc_length]; have := encVarint_length_pos b.length; omega

theorem u32_enc_pos (x : UInt32) : 1 ≤ (Codec.u32.enc x).length := encVarint_length_pos _

theorem f32bits_enc_pos (x : UInt32) : 1 ≤ (Codec.f32bits.enc x).length := by simp [f32bits]

theorem enum_enc_pos (name : String) (shapes : List String) (tagOf : α → Nat) (encV : α → Bytes)
    (decV : Nat → Bytes → Option (α × Bytes)) (x : α) :
    1 ≤ ((Codec.enum name shapes tagOf encV decV).enc x).length := by
  simp only [Codec.enum, List.length_append]
  have := encVarint_length_pos (tagOf x); omega

end Kitoken.Proofs.Codec
