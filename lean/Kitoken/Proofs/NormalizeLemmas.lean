/-
  Lemmas behind C11 (normalization steps) and the byte clean-up section of C13.
-/
import Kitoken.Spec.Normalize
import Kitoken.Proofs.Utf8Lemmas
import Kitoken.Proofs.Utf8Lemmas2
namespace Kitoken.Proofs.Normalize

open Kitoken Kitoken.Spec Kitoken.Utf8

/-! ## Counting -/

theorem countWhileEq_eq (ch : Char) (n : Nat) (cs : List Char) :
    countWhileEq ch n cs = leadingCount ch n cs := by
  fun_induction countWhileEq ch n cs <;> simp_all [leadingCount]

theorem leadingCount_le (ch : Char) (n : Nat) (cs : List Char) : leadingCount ch n cs ≤ n := by
  fun_induction leadingCount ch n cs <;> omega

theorem leadingCount_le_length (ch : Char) (n : Nat) (cs : List Char) :
    leadingCount ch n cs ≤ cs.length := by
  fun_induction leadingCount ch n cs <;> simp <;> omega

theorem leadingCount_prefix (ch : Char) (n : Nat) (cs : List Char) :
    cs.take (leadingCount ch n cs) = List.replicate (leadingCount ch n cs) ch := by
  fun_induction leadingCount ch n cs <;> simp_all [List.replicate_succ]

theorem leadingCount_maximal (ch : Char) (n : Nat) (cs : List Char)
    (h : leadingCount ch n cs < n) : (cs.drop (leadingCount ch n cs)).head? ≠ some ch := by
  fun_induction leadingCount ch n cs <;> simp_all

theorem leadingCount_replicate_append (ch : Char) (n : Nat) (cs : List Char) :
    leadingCount ch n (List.replicate n ch ++ cs) = n := by
  induction n with
  | zero => simp [leadingCount]
  | succ k ih => simp [List.replicate_succ, leadingCount, ih]

/-- Byte count of the strip on the forward/backward list of a genuine encoding. -/
theorem stripCount_map (ch : Char) (n : Nat) (cs : List Char) :
    stripCount ch n (cs.map fun c => (c, c.utf8Size)) = leadingCount ch n cs * ch.utf8Size := by
  fun_induction leadingCount ch n cs with
  | case1 => simp [stripCount]
  | case2 => simp [stripCount]
  | case3 n cs ih =>
    simp only [List.map_cons, stripCount, and_self, if_true, ih]
    rw [Nat.succ_mul]
  | case4 n c cs h =>
    simp only [List.map_cons, stripCount]
    rw [if_neg (fun hh => h hh.1)]
    simp

theorem encodeChars_length_replicate (a : Nat) (ch : Char) :
    (encodeChars (List.replicate a ch)).length = a * ch.utf8Size := by
  induction a with
  | zero => simp
  | succ a ih =>
    rw [List.replicate_succ, encodeChars_cons, List.length_append, ih, encodeChar_length, Nat.succ_mul]
    omega

theorem charIndicesFrom_encodeChars_sizes (cs : List Char) (pos : Nat) :
    (charIndicesFrom pos (encodeChars cs)).map (fun (s, e, c) => (c, e - s)) =
      cs.map fun c => (c, c.utf8Size) := by
  induction cs generalizing pos with
  | nil => simp [charIndicesFrom_nil]
  | cons c cs ih =>
    rw [charIndices_encodeChars_cons, List.map_cons, ih]
    simp

/-! ## Strip -/

theorem strip_chars (ch : Char) (l r : Nat) (cs : List Char) :
    normalizeStrip ch l r (encodeChars cs) = .ok (encodeChars (stripSpec ch l r cs)) := by
  unfold normalizeStrip decodeStrip stripSpec
  simp only [charIndices, charIndicesFrom_encodeChars_sizes, stripCount_map]
  -- front
  have hpre := leadingCount_prefix ch l cs
  have hlen := leadingCount_le_length ch l cs
  generalize leadingCount ch l cs = a at *
  have hcs : cs = List.replicate a ch ++ cs.drop a := by
    rw [← hpre, List.take_append_drop]
  have hdrop : (encodeChars cs).drop (a * ch.utf8Size) = encodeChars (cs.drop a) := by
    conv => lhs; rw [hcs, encodeChars_append]
    rw [← encodeChars_length_replicate, List.drop_left]
  rw [hdrop]
  generalize cs.drop a = rest
  rw [charsRev_encodeChars, stripCount_map]
  have hpre' := leadingCount_prefix ch r rest.reverse
  have hlen' := leadingCount_le_length ch r rest.reverse
  generalize leadingCount ch r rest.reverse = b at *
  simp only [List.length_reverse] at hlen'
  have hrest : rest = rest.take (rest.length - b) ++ List.replicate b ch := by
    have h1 : rest.reverse = List.replicate b ch ++ rest.reverse.drop b := by
      rw [← hpre', List.take_append_drop]
    have h2 := congrArg List.reverse h1
    rw [List.reverse_reverse, List.reverse_append, List.reverse_replicate] at h2
    have h3 : (rest.reverse.drop b).reverse = rest.take (rest.length - b) := by
      rw [List.drop_reverse]; simp
    rw [h3] at h2
    exact h2
  have hA : ¬ (a * ch.utf8Size > (encodeChars cs).length) := by
    rw [hcs, encodeChars_append, List.length_append, encodeChars_length_replicate]; omega
  rw [if_neg hA]
  generalize rest.take (rest.length - b) = p at hrest ⊢
  subst hrest
  rw [encodeChars_append, List.length_append, encodeChars_length_replicate, Nat.add_sub_cancel,
    List.take_left, if_neg (by omega)]

/-! ## Strip on arbitrary bytes never panics -/

theorem stripCount_le_sum (ch : Char) (n : Nat) (l : List (Char × Nat)) :
    stripCount ch n l ≤ (l.map (·.2)).sum := by
  fun_induction stripCount ch n l with
  | case1 => simp
  | case2 => simp
  | case3 n c size cs h ih => simp only [List.map_cons, List.sum_cons]; omega
  | case4 n c size cs h => simp

theorem charIndicesFrom_sizes_sum (pos : Nat) (bs : Bytes) :
    (((charIndicesFrom pos bs).map fun (s, e, c) => (c, e - s)).map (·.2)).sum = bs.length := by
  fun_induction charIndicesFrom pos bs with
  | case1 pos => simp
  | case2 pos b t r ih =>
    have hle : r.2 ≤ (b :: t).length := decodeOne_le (b :: t)
    simp only [List.map_cons, List.sum_cons, ih, List.length_drop]
    omega

theorem charsRev_sizes_sum (bs : Bytes) : ((charsRev bs).map (·.2)).sum = bs.length := by
  fun_induction charsRev bs with
  | case1 => simp
  | case2 bs h r ih =>
    have hle : r.2 ≤ bs.length := decodeLast_le bs
    simp only [List.map_cons, List.sum_cons, ih, List.length_take]
    omega

/-- `decodeStrip` with the forward list as a parameter. -/
def decodeStripAux (ch : Char) (left right : Nat) (text : Bytes) (fwd : List (Char × Nat)) : Res Bytes :=
  let sliceStart := stripCount ch left fwd
  let rest := text.drop sliceStart
  let sliceEnd := stripCount ch right (charsRev rest)
  if sliceStart > text.length then .panic "decode_strip: drain(..slice_start)"
  else if sliceEnd > rest.length then .panic "decode_strip: drain(len - slice_end..)"
  else .ok (rest.take (rest.length - sliceEnd))

theorem decodeStrip_eq_aux (ch : Char) (l r : Nat) (text : Bytes) :
    decodeStrip ch l r text =
      decodeStripAux ch l r text ((charIndices text).map fun (s, e, c) => (c, e - s)) := rfl

theorem decodeStripAux_ok (ch : Char) (l r : Nat) (text : Bytes) (fwd : List (Char × Nat))
    (hf : (fwd.map (·.2)).sum = text.length) : ∃ out, decodeStripAux ch l r text fwd = .ok out := by
  unfold decodeStripAux
  have h1 := stripCount_le_sum ch l fwd
  have h2 := stripCount_le_sum ch r (charsRev (text.drop (stripCount ch l fwd)))
  rw [charsRev_sizes_sum] at h2
  simp only []
  rw [if_neg (by omega), if_neg (by omega)]
  exact ⟨_, rfl⟩

theorem decodeStrip_ok (ch : Char) (l r : Nat) (text : Bytes) :
    ∃ out, decodeStrip ch l r text = .ok out := by
  rw [decodeStrip_eq_aux]
  exact decodeStripAux_ok ch l r text _ (charIndicesFrom_sizes_sum 0 text)

theorem decodeStrip_total (ch : Char) (l r : Nat) (text : Bytes) :
    (decodeStrip ch l r text).isPanic = false := by
  obtain ⟨out, h⟩ := decodeStrip_ok ch l r text
  rw [h]; rfl

theorem decodeSteps_total (ext : DecodeExt) (steps : List Decoding) (text : Bytes) (r : Res Bytes)
    (h : decodeSteps ext steps text = some r) : r.isPanic = false := by
  induction steps generalizing text with
  | nil => simp only [decodeSteps, Option.some.injEq] at h; subst h; rfl
  | cons d ds ih =>
    simp only [decodeSteps] at h
    cases d with
    | extend c l rr pad => simp only [Decoding.decode] at h; exact ih _ h
    | strip c l rr =>
      obtain ⟨out, ho⟩ := decodeStrip_ok c l rr text
      simp only [Decoding.decode, ho] at h; exact ih _ h
    | collapse c => simp only [Decoding.decode] at h; exact ih _ h
    | replace p rep =>
      simp only [Decoding.decode] at h
      cases hr : decodeReplace ext p rep text with
      | none => simp [hr] at h
      | some o => simp only [hr, Option.map_some] at h; exact ih _ h

theorem configDecode_total (ext : DecodeExt) (steps : List Decoding) (text : Bytes) (r : Res Bytes)
    (h : configDecode ext steps text = some r) : r.isPanic = false := by
  unfold configDecode at h
  split at h
  · simp only [Option.some.injEq] at h; subst h; rfl
  · exact decodeSteps_total ext steps text r h

theorem charIndices_ff : charIndices [0xFF] = [(0, 1, REPLACEMENT)] := by
  have hd : decodeOne [0xFF] = (none, 1) := by decide
  rw [charIndices, charIndicesFrom_cons, hd]
  simp [charIndicesFrom_nil]

theorem decodeStripOld_panics : (decodeStripOld (Char.ofNat 0xFFFD) 1 0 [0xFF]).isPanic = true := by
  have hs : (Char.ofNat 0xFFFD).utf8Size = 3 := by decide
  unfold decodeStripOld
  rw [charIndices_ff]
  simp [stripCountOld, REPLACEMENT, hs, Res.isPanic]

/-! ## Extend -/

theorem repeatBytes_encodeChar (ch : Char) (n : Nat) :
    repeatBytes (encodeChar ch) n = encodeChars (List.replicate n ch) := by
  induction n with
  | zero => rfl
  | succ n ih =>
    rw [List.replicate_succ, encodeChars_cons, ← ih]
    simp [repeatBytes, List.replicate_succ]

theorem charsRev_encodeChars_fst (cs : List Char) :
    (charsRev (encodeChars cs)).map (·.1) = cs.reverse := by
  rw [charsRev_encodeChars, List.map_map]
  exact List.map_id _

theorem extend_chars (ch : Char) (l r : Nat) (pad : Bool) (cs : List Char) :
    decodeExtend ch l r pad (encodeChars cs) = encodeChars (extendSpec ch l r pad cs) := by
  unfold decodeExtend extendSpec
  simp only [chars_encodeChars, countWhileEq_eq, repeatBytes_encodeChar, ← encodeChars_append]
  have h1 : (if l > 0 then encodeChars
        (List.replicate (if pad = true then l - leadingCount ch l cs else l) ch ++ cs)
      else encodeChars cs) =
      encodeChars (if l > 0 then
        List.replicate (if pad = true then l - leadingCount ch l cs else l) ch ++ cs else cs) := by
    split <;> rfl
  rw [h1]
  generalize (if l > 0 then
        List.replicate (if pad = true then l - leadingCount ch l cs else l) ch ++ cs else cs) = cs₁
  simp only [charsRev_encodeChars_fst, ← encodeChars_append]
  split <;> rfl

theorem extend_bytes_valid (ch : Char) (l r : Nat) (pad : Bool) (cs : List Char) :
    validUtf8 (decodeExtend ch l r pad (encodeChars cs)) = true := by
  rw [extend_chars]; exact validUtf8_encodeChars _

theorem extend_spec_nopad (ch : Char) (l r : Nat) (cs : List Char) :
    extendSpec ch l r false cs = List.replicate l ch ++ cs ++ List.replicate r ch := by
  unfold extendSpec
  simp only [Bool.false_eq_true, if_false]
  rcases Nat.eq_zero_or_pos l with rfl | hl <;> rcases Nat.eq_zero_or_pos r with rfl | hr <;>
    simp_all

/-! ## Collapse -/

theorem collapse_chars (ch : Char) (cs : List Char) :
    decodeCollapse ch (encodeChars cs) = encodeChars (collapseChars ch false cs) := by
  unfold decodeCollapse; rw [chars_encodeChars]

theorem collapseChars_true_eq (ch : Char) (cs : List Char) :
    collapseChars ch true cs = (collapseChars ch false (ch :: cs)).tail := by
  simp [collapseChars]

/-- General form: no adjacent copies, and with the flag set the result does not begin with `ch`. -/
theorem collapse_noAdj_aux (ch : Char) (b : Bool) (cs : List Char) :
    NoAdjChar ch (collapseChars ch b cs) ∧
      (b = true → (collapseChars ch b cs).head? ≠ some ch) := by
  fun_induction collapseChars ch b cs with
  | case1 => exact ⟨trivial, by simp⟩
  | case2 cs ih => exact ih
  | case3 b cs hb ih =>
    refine ⟨?_, fun h => absurd h hb⟩
    obtain ⟨ih1, ih2⟩ := ih
    cases hr : collapseChars ch true cs with
    | nil => trivial
    | cons d t =>
      rw [hr] at ih1 ih2
      refine ⟨fun hh => ?_, ih1⟩
      apply ih2 rfl
      simp [hh.2]
  | case4 b c cs hc ih =>
    refine ⟨?_, fun _ => by simp [hc]⟩
    obtain ⟨ih1, _⟩ := ih
    cases hr : collapseChars ch false cs with
    | nil => trivial
    | cons d t =>
      rw [hr] at ih1
      exact ⟨fun hh => hc hh.1, ih1⟩

theorem collapse_no_adjacent (ch : Char) (cs : List Char) : NoAdjChar ch (collapseChars ch false cs) :=
  (collapse_noAdj_aux ch false cs).1

theorem collapse_filter_aux (ch : Char) (b : Bool) (cs : List Char) :
    (collapseChars ch b cs).filter (· ≠ ch) = cs.filter (· ≠ ch) := by
  fun_induction collapseChars ch b cs <;> simp_all

theorem collapse_keeps_others (ch : Char) (cs : List Char) :
    (collapseChars ch false cs).filter (· ≠ ch) = cs.filter (· ≠ ch) :=
  collapse_filter_aux ch false cs

theorem collapse_sublist_aux (ch : Char) (b : Bool) (cs : List Char) :
    (collapseChars ch b cs).Sublist cs := by
  fun_induction collapseChars ch b cs with
  | case1 => exact List.Sublist.refl _
  | case2 cs ih => exact List.Sublist.cons _ ih
  | case3 b cs hb ih => exact List.Sublist.cons_cons _ ih
  | case4 b c cs hc ih => exact List.Sublist.cons_cons _ ih

theorem collapse_sublist (ch : Char) (cs : List Char) : (collapseChars ch false cs).Sublist cs :=
  collapse_sublist_aux ch false cs

/-- A list without adjacent copies (and, with the flag set, not beginning with `ch`) is unchanged. -/
theorem collapse_of_noAdj (ch : Char) (b : Bool) (cs : List Char) (h : NoAdjChar ch cs)
    (hb : b = true → cs.head? ≠ some ch) : collapseChars ch b cs = cs := by
  fun_induction collapseChars ch b cs with
  | case1 => rfl
  | case2 cs ih => exact absurd (by simp) (hb rfl)
  | case3 b cs hb' ih =>
    congr 1
    apply ih
    · cases cs with
      | nil => trivial
      | cons d t => exact h.2
    · intro _
      cases cs with
      | nil => simp
      | cons d t =>
        intro hd
        simp only [List.head?_cons, Option.some.injEq] at hd
        exact h.1 ⟨rfl, hd⟩
  | case4 b c cs hc ih =>
    congr 1
    apply ih
    · cases cs with
      | nil => trivial
      | cons d t => exact h.2
    · intro hf; cases hf

theorem collapse_idempotent (ch : Char) (cs : List Char) :
    collapseChars ch false (collapseChars ch false cs) = collapseChars ch false cs :=
  collapse_of_noAdj ch false _ (collapse_no_adjacent ch cs) (fun hf => by cases hf)

/-! ## Strip: specification -/

theorem strip_spec (ch : Char) (l r : Nat) (cs : List Char) :
    ∃ a b, a ≤ l ∧ b ≤ r ∧ cs = List.replicate a ch ++ stripSpec ch l r cs ++ List.replicate b ch ∧
      (a < l → (stripSpec ch l r cs ++ List.replicate b ch).head? ≠ some ch) ∧
      (b < r → (stripSpec ch l r cs).getLast? ≠ some ch) := by
  unfold stripSpec
  simp only []
  have hpre := leadingCount_prefix ch l cs
  have hmax := leadingCount_maximal ch l cs
  have hle := leadingCount_le ch l cs
  generalize leadingCount ch l cs = a at *
  have hcs : cs = List.replicate a ch ++ cs.drop a := by
    rw [← hpre, List.take_append_drop]
  generalize cs.drop a = rest at *
  have hpre' := leadingCount_prefix ch r rest.reverse
  have hmax' := leadingCount_maximal ch r rest.reverse
  have hle' := leadingCount_le ch r rest.reverse
  have hlen' := leadingCount_le_length ch r rest.reverse
  generalize leadingCount ch r rest.reverse = b at *
  simp only [List.length_reverse] at hlen'
  have h3 : rest.reverse.drop b = (rest.take (rest.length - b)).reverse := by
    rw [List.drop_reverse]
  have hrest : rest = rest.take (rest.length - b) ++ List.replicate b ch := by
    have h1 : rest.reverse = List.replicate b ch ++ rest.reverse.drop b := by
      rw [← hpre', List.take_append_drop]
    have h2 := congrArg List.reverse h1
    rw [List.reverse_reverse, List.reverse_append, List.reverse_replicate, h3,
      List.reverse_reverse] at h2
    exact h2
  refine ⟨a, b, hle, hle', ?_, ?_, ?_⟩
  · rw [List.append_assoc, ← hrest]; exact hcs
  · rw [← hrest]; exact hmax
  · intro hb
    have := hmax' hb
    rw [h3, List.head?_reverse] at this
    exact this

/-! ## Literal replacement -/

theorem replace_literal_chars (p rep cs : List Char) :
    normalizeReplaceLiteral (encodeChars p) (encodeChars rep) (encodeChars cs) =
      encodeChars (replaceAll p rep cs) := by
  unfold normalizeReplaceLiteral
  simp only [chars_encodeChars]

theorem replaceFrom_no_match [BEq α] (p rep cs : List α)
    (h : ∀ k, startsWith (cs.drop k) p = false) : replaceFrom p rep cs = cs := by
  fun_induction replaceFrom p rep cs with
  | case1 => rfl
  | case2 x t hc ih =>
    have := h 0
    simp only [List.drop_zero] at this
    rw [hc.2] at this; cases this
  | case3 x t hc ih =>
    congr 1
    apply ih
    intro k
    exact h (k + 1)

theorem replace_no_match_identity (p rep cs : List Char) (hp : p ≠ [])
    (h : ∀ k, startsWith (cs.drop k) p = false) : replaceAll p rep cs = cs := by
  unfold replaceAll
  have : p.isEmpty = false := by cases p <;> simp_all
  rw [this]
  simp only [Bool.false_eq_true, if_false]
  exact replaceFrom_no_match p rep cs h

/-! ## NMT -/

theorem nmt_replacement_eq : Generated.NMT_REPLACEMENT = encodeChar ' ' := by decide

theorem nmt_chars (cs : List Char) : normalizeNmt (encodeChars cs) = encodeChars (nmtSpec cs) := by
  unfold normalizeNmt nmtSpec
  simp only [chars_encodeChars]
  generalize cs.filter _ = kept
  induction kept with
  | nil => rfl
  | cons c t ih =>
    rw [List.flatMap_cons, List.map_cons, encodeChars_cons, ih, nmt_replacement_eq]
    split <;> rfl

theorem nmt_sets_disjoint :
    ∀ r ∈ Generated.NMT_REMOVED, ∀ b ∈ Generated.NMT_BLANKED, r.2 < b.1 ∨ b.2 < r.1 := by
  decide

/-! ## Conditions, order -/

theorem conditional_iff (ext : NormExt) (cond : NormCondition) (inner : Normalization) (pos : Position) (t : Bytes) :
    (Normalization.conditional cond inner).normalize ext pos t =
      if (match cond with | .startOfText => decide (pos.start = 0) | .endOfText => pos.toEnd) = true
      then inner.normalize ext pos t else some (.ok t) := by
  cases cond <;> simp [Normalization.normalize]

theorem steps_in_order (ext : NormExt) (pos : Position) (n : Normalization) (ns : List Normalization) (t t' : Bytes)
    (h : n.normalize ext pos t = some (.ok t')) :
    normalizeSteps ext pos (n :: ns) t = normalizeSteps ext pos ns t' := by
  simp only [normalizeSteps, h]

/-! ## Built-in steps keep the text valid -/

theorem validUtf8_append (a b : Bytes) (ha : validUtf8 a = true) (hb : validUtf8 b = true) :
    validUtf8 (a ++ b) = true := by
  obtain ⟨ca, rfl⟩ := exists_chars_of_validUtf8 a ha
  obtain ⟨cb, rfl⟩ := exists_chars_of_validUtf8 b hb
  rw [← encodeChars_append]; exact validUtf8_encodeChars _

theorem builtin_steps_valid (ext : NormExt) (n : Normalization) (pos : Position) (cs : List Char) (out : Bytes)
    (hb : match n with
          | .append s | .prepend s => validUtf8 s = true
          | .replace (.string s) rep => validUtf8 s = true ∧ validUtf8 rep = true
          | .replace (.char _) rep => validUtf8 rep = true
          | .extend .. | .strip .. | .collapse .. | .nmt => True
          | _ => False)
    (h : n.normalize ext pos (encodeChars cs) = some (.ok out)) : validUtf8 out = true := by
  cases n with
  | unicode s => exact absurd hb id
  | caseFold u => exact absurd hb id
  | charsMap m => exact absurd hb id
  | conditional c i => exact absurd hb id
  | nmt =>
    simp only [Normalization.normalize, Option.some.injEq, Res.ok.injEq] at h
    subst h; rw [nmt_chars]; exact validUtf8_encodeChars _
  | append s =>
    simp only [Normalization.normalize, Option.some.injEq, Res.ok.injEq] at h
    subst h; exact validUtf8_append _ _ (validUtf8_encodeChars _) hb
  | prepend s =>
    simp only [Normalization.normalize, Option.some.injEq, Res.ok.injEq] at h
    subst h; exact validUtf8_append _ _ hb (validUtf8_encodeChars _)
  | extend c l r pad =>
    simp only [Normalization.normalize, Option.some.injEq, Res.ok.injEq] at h
    subst h; exact extend_bytes_valid _ _ _ _ _
  | strip c l r =>
    simp only [Normalization.normalize, strip_chars, Option.some.injEq, Res.ok.injEq] at h
    subst h; exact validUtf8_encodeChars _
  | collapse c =>
    simp only [Normalization.normalize, Option.some.injEq, Res.ok.injEq] at h
    subst h; rw [collapse_chars]; exact validUtf8_encodeChars _
  | replace p rep =>
    cases p with
    | regex pat => exact absurd hb id
    | char c =>
      simp only [Normalization.normalize, Option.some.injEq, Res.ok.injEq] at h
      subst h; exact validUtf8_encodeChars _
    | string s =>
      simp only [Normalization.normalize, Option.some.injEq, Res.ok.injEq] at h
      subst h; exact validUtf8_encodeChars _

end Kitoken.Proofs.Normalize
