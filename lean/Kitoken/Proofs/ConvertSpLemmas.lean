/-
  Lemmas for C15 (continued): the vocabulary path of the SentencePiece converter (Kitoken/Model/ConvertSp.lean).
  - `pieceBytes` (namespace `Kitoken.Convert`): the true bytes of a piece, used by the statements of Theorems/C15d.lean;
  - `lastWins`: the last insertion under a key stays, every key stays;
  - `spStep_spec`: what one iteration does to the two maps;
  - `spLoop_specials_ext`, `spLoop_special_piece`, `spLoop_vocab`: the loop only appends; what it appends;
  - `convertSp_eq` / `convertSp_ok` / `VocabFacts`: the converter in parts and the facts about a successful run;
  - the six properties of Theorems/C15d.lean;
  - `bpeMerge` does not depend on the order of the entries, `spBpeLe` is a total preorder, antisymmetric on ids.
  Reuses Kitoken/Proofs/ConvertHfLemmas.lean (`lastWins`, sorting a permutation, `uniLe`). Core Lean only.
-/
import Kitoken.Model.ConvertSp
import Kitoken.Proofs.ConvertHfLemmas

namespace Kitoken.Convert

/-- The true bytes of an ordinary piece: its text, or the byte its `<0xNN>` spelling stands for. -/
def pieceBytes (p : Piece) : Option Bytes :=
  match p.text with
  | none => none
  | some t => if p.type == .byte then (parseBytePiece t).map fun b => [b] else some t

end Kitoken.Convert

namespace Kitoken.Proofs.ConvertSp

open Kitoken Kitoken.Spec Kitoken.Convert Kitoken.Proofs.ConvertHf

/-! ## `lastWins`, `lookupLast` -/

theorem mem_lastWins_of_last {α β : Type} [BEq α] [LawfulBEq α] (k : α) (v : β) (l2 : List (α × β))
    (h2 : ∀ e ∈ l2, e.1 ≠ k) : ∀ l1 : List (α × β), (k, v) ∈ lastWins (l1 ++ (k, v) :: l2)
  | [] => by
    have : l2.any (fun e => e.1 == k) = false := by
      apply Bool.eq_false_iff.mpr
      intro hc
      obtain ⟨e, he, hk⟩ := List.any_eq_true.mp hc
      exact h2 e he (by simpa using hk)
    simp only [List.nil_append, lastWins, this]
    exact List.mem_cons_self
  | (k', v') :: l1 => by
    have ih := mem_lastWins_of_last k v l2 h2 l1
    simp only [List.cons_append, lastWins]
    split
    · exact ih
    · exact List.mem_cons_of_mem _ ih

theorem lastWins_keeps_key {α β : Type} [BEq α] [LawfulBEq α] : ∀ (l : List (α × β)), ∀ e ∈ l, ∃ e' ∈ lastWins l, e'.1 = e.1
  | [], _, he => by cases he
  | (k, v) :: rest, e, he => by
    unfold lastWins
    rcases List.mem_cons.mp he with rfl | he
    · split
      · rename_i hany
        obtain ⟨x, hx, hk⟩ := List.any_eq_true.mp hany
        obtain ⟨e', he', hk'⟩ := lastWins_keeps_key rest x hx
        exact ⟨e', he', hk'.trans (by simpa using hk)⟩
      · exact ⟨_, List.mem_cons_self, rfl⟩
    · obtain ⟨e', he', hk'⟩ := lastWins_keeps_key rest e he
      split
      · exact ⟨e', he', hk'⟩
      · exact ⟨e', List.mem_cons_of_mem _ he', hk'⟩

theorem lookupLast_some {β : Type} (l : List (Bytes × β)) (k : Bytes) (v : β) (h : lookupLast l k = some v) :
    ∃ e ∈ l, e.1 = k := by
  unfold lookupLast at h
  cases hf : l.reverse.find? (fun e => e.1 == k) with
  | none => rw [hf] at h; cases h
  | some e =>
    refine ⟨e, List.mem_reverse.mp (List.mem_of_find?_eq_some hf), ?_⟩
    simpa using List.find?_some hf

/-! ## one step -/

/-- The special token a control or user-defined piece becomes. -/
def pieceSpecial (n : Nat) (t : Bytes) (p : Piece) : SpecialDef :=
  { id := UInt32.ofNat n, bytes := t, kind := if p.type == .control then .control else .priority, ident := none,
    score := f32OfNat n, extract := false }

theorem spStep_spec (st st' : SpState) (n : Nat) (p : Piece) (h : spStep st n p = .ok st') :
    ∃ t b, p.text = some t ∧ pieceBytes p = some b ∧
      ((st'.vocab = st.vocab ∧ ((p.type = .normal ∨ p.type = .byte) → ∃ e ∈ st.vocab, e.1 = b)) ∨
        (st'.vocab = st.vocab ++ [(b, (n, p.score, p.type == .byte))] ∧ (p.type = .normal ∨ p.type = .byte))) ∧
      ((p.type = .control ∨ p.type = .userDefined) → st'.specials = st.specials ++ [(t, pieceSpecial n t p)]) ∧
      (st'.specials = st.specials ∨
        ∃ v, st'.specials = st.specials ++ [(t, v)] ∧ (p.type = .unknown ∨ p.type = .control ∨ p.type = .userDefined)) := by
  obtain ⟨text, score, type⟩ := p
  cases text with
  | none => simp [spStep] at h
  | some t =>
    refine ⟨t, ?_⟩
    simp only [spStep] at h
    split at h
    · cases h
    cases type
    case normal =>
      simp only [show (PieceType.normal == PieceType.byte) = false from rfl, Bool.false_eq_true, if_false,
        Bool.false_and] at h
      refine ⟨t, rfl, rfl, Or.inr ⟨?_, Or.inl rfl⟩, by simp, Or.inl ?_⟩
      all_goals (split at h <;> cases h <;> rfl)
    case unknown =>
      simp only [show (PieceType.unknown == PieceType.byte) = false from rfl, Bool.false_eq_true, if_false] at h
      refine ⟨t, rfl, rfl, Or.inl ⟨?_, by simp⟩, by simp, ?_⟩
      · split at h
        · cases h; rfl
        · split at h <;> cases h <;> rfl
      · split at h
        · cases h; exact Or.inl rfl
        · split at h
          · cases h; exact Or.inr ⟨_, rfl, Or.inl rfl⟩
          · cases h; exact Or.inl rfl
    case control =>
      simp only [show (PieceType.control == PieceType.byte) = false from rfl, Bool.false_eq_true, if_false] at h
      cases h
      exact ⟨t, rfl, rfl, Or.inl ⟨rfl, by simp⟩, fun _ => rfl, Or.inr ⟨_, rfl, Or.inr (Or.inl rfl)⟩⟩
    case userDefined =>
      simp only [show (PieceType.userDefined == PieceType.byte) = false from rfl, Bool.false_eq_true, if_false] at h
      cases h
      exact ⟨t, rfl, rfl, Or.inl ⟨rfl, by simp⟩, fun _ => rfl, Or.inr ⟨_, rfl, Or.inr (Or.inr rfl)⟩⟩
    case unused =>
      simp only [show (PieceType.unused == PieceType.byte) = false from rfl, Bool.false_eq_true, if_false] at h
      cases h
      exact ⟨t, rfl, rfl, Or.inl ⟨rfl, by simp⟩, by simp, Or.inl rfl⟩
    case byte =>
      simp only [show (PieceType.byte == PieceType.byte) = true from rfl, if_true, Bool.true_and] at h
      cases hp : parseBytePiece t with
      | none => rw [hp] at h; cases h
      | some byte =>
        rw [hp] at h
        simp only [Option.map_some] at h
        refine ⟨[byte], rfl, by simp [pieceBytes, hp], ?_, by simp, ?_⟩
        · split at h
          · rename_i hl
            split at h
            · cases h
              exact Or.inl ⟨rfl, fun _ => lookupLast_some _ _ _ hl⟩
            · cases h
              exact Or.inr ⟨rfl, Or.inr rfl⟩
          · cases h
            exact Or.inr ⟨rfl, Or.inr rfl⟩
        · split at h
          · split at h <;> cases h <;> exact Or.inl rfl
          · cases h; exact Or.inl rfl

/-! ## the loop -/

theorem spLoop_cons (st st' : SpState) (n : Nat) (p : Piece) (ps : List Piece) (h : spLoop st n (p :: ps) = .ok st') :
    ∃ st1, spStep st n p = .ok st1 ∧ spLoop st1 (n + 1) ps = .ok st' := by
  simp only [spLoop] at h
  cases hs : spStep st n p with
  | error e => rw [hs] at h; cases h
  | ok st1 => rw [hs] at h; exact ⟨st1, rfl, h⟩

/-- The specials only grow, and only by pieces of a special type, under their text. -/
theorem spLoop_specials_ext : ∀ (ps : List Piece) (st st' : SpState) (n : Nat), spLoop st n ps = .ok st' →
    ∃ ext, st'.specials = st.specials ++ ext ∧ ∀ e ∈ ext, ∃ j, ∃ hj : j < ps.length, ps[j].text = some e.1 ∧
      (ps[j].type = .unknown ∨ ps[j].type = .control ∨ ps[j].type = .userDefined)
  | [], st, st', n, h => by
    simp only [spLoop, Except.ok.injEq] at h
    subst h
    exact ⟨[], by simp, by simp⟩
  | p :: ps, st, st', n, h => by
    obtain ⟨st1, hs, hl⟩ := spLoop_cons st st' n p ps h
    obtain ⟨ext, hext, hmem⟩ := spLoop_specials_ext ps st1 st' (n + 1) hl
    obtain ⟨t, b, ht, hb, hv, hsp1, hsp2⟩ := spStep_spec st st1 n p hs
    have hshift : ∀ e ∈ ext, ∃ j, ∃ hj : j < (p :: ps).length, (p :: ps)[j].text = some e.1 ∧
        ((p :: ps)[j].type = .unknown ∨ (p :: ps)[j].type = .control ∨ (p :: ps)[j].type = .userDefined) := by
      intro e he
      obtain ⟨j, hj, h1, h2⟩ := hmem e he
      exact ⟨j + 1, by simp only [List.length_cons]; omega, by simpa using h1, by simpa using h2⟩
    rcases hsp2 with hsp2 | ⟨v, hsp2, hty⟩
    · exact ⟨ext, by rw [hext, hsp2], hshift⟩
    · refine ⟨(t, v) :: ext, by rw [hext, hsp2]; simp, ?_⟩
      intro e he
      rcases List.mem_cons.mp he with rfl | he
      · exact ⟨0, by simp, ht, hty⟩
      · exact hshift e he

/-- A control or user-defined piece is the last insertion under its text when no later piece of a special type
    has the same text. -/
theorem spLoop_special_piece : ∀ (ps : List Piece) (st st' : SpState) (n : Nat), spLoop st n ps = .ok st' →
    ∀ j (hj : j < ps.length) (t : Bytes), ps[j].text = some t → (ps[j].type = .control ∨ ps[j].type = .userDefined) →
      (∀ k (hk : k < ps.length), j < k → ps[k].text = some t →
        ¬ (ps[k].type = .control ∨ ps[k].type = .userDefined ∨ ps[k].type = .unknown)) →
      ∃ l1 l2, st'.specials = l1 ++ (t, pieceSpecial (n + j) t ps[j]) :: l2 ∧ ∀ e ∈ l2, e.1 ≠ t
  | [], _, _, _, _, j, hj, _, _, _, _ => absurd hj (Nat.not_lt_zero _)
  | p :: ps, st, st', n, h, j, hj, t, ht, hty, hlater => by
    obtain ⟨st1, hs, hl⟩ := spLoop_cons st st' n p ps h
    cases j with
    | zero =>
      simp only [List.getElem_cons_zero] at ht hty
      obtain ⟨t', b, ht', hb, hv, hsp1, hsp2⟩ := spStep_spec st st1 n p hs
      have : t' = t := by rw [ht] at ht'; exact (Option.some.inj ht').symm
      subst this
      obtain ⟨ext, hext, hmem⟩ := spLoop_specials_ext ps st1 st' (n + 1) hl
      refine ⟨st.specials, ext, ?_, ?_⟩
      · rw [hext, hsp1 hty]; simp
      · intro e he hk
        obtain ⟨k, hk', h1, h2⟩ := hmem e he
        refine hlater (k + 1) (by simp only [List.length_cons]; omega) (by omega) (by simpa [hk] using h1) ?_
        simp only [List.getElem_cons_succ]
        rcases h2 with h2 | h2 | h2
        · exact Or.inr (Or.inr h2)
        · exact Or.inl h2
        · exact Or.inr (Or.inl h2)
    | succ j =>
      simp only [List.getElem_cons_succ] at ht hty
      have := spLoop_special_piece ps st1 st' (n + 1) hl j (by simpa using hj) t ht hty (by
        intro k hk hjk hkt
        have := hlater (k + 1) (by simp only [List.length_cons]; omega) (by omega) (by simpa using hkt)
        simpa using this)
      simpa [Nat.add_assoc, Nat.add_comm 1 j] using this

/-- The vocabulary insertions: only ordinary pieces, each under its own index with its true bytes, each index at most
    once; every ordinary piece has an insertion with its bytes. -/
theorem spLoop_vocab : ∀ (ps : List Piece) (st st' : SpState) (n : Nat), spLoop st n ps = .ok st' →
    ∃ ext, st'.vocab = st.vocab ++ ext ∧
      (∀ e ∈ ext, ∃ j, ∃ hj : j < ps.length, e.2 = (n + j, ps[j].score, ps[j].type == .byte) ∧
        (ps[j].type = .normal ∨ ps[j].type = .byte) ∧ pieceBytes ps[j] = some e.1) ∧
      (ext.map (·.2.1)).Nodup ∧
      ∀ j (hj : j < ps.length), (ps[j].type = .normal ∨ ps[j].type = .byte) →
        ∃ b, pieceBytes ps[j] = some b ∧ ∃ e ∈ st'.vocab, e.1 = b
  | [], st, st', n, h => by
    simp only [spLoop, Except.ok.injEq] at h
    subst h
    exact ⟨[], by simp, by simp, by simp, fun j hj => absurd hj (Nat.not_lt_zero _)⟩
  | p :: ps, st, st', n, h => by
    obtain ⟨st1, hs, hl⟩ := spLoop_cons st st' n p ps h
    obtain ⟨ext, hext, hmem, hnd, hkeep⟩ := spLoop_vocab ps st1 st' (n + 1) hl
    obtain ⟨t, b, ht, hb, hv, -, -⟩ := spStep_spec st st1 n p hs
    have hshift : ∀ e ∈ ext, ∃ j, ∃ hj : j < (p :: ps).length,
        e.2 = (n + j, (p :: ps)[j].score, (p :: ps)[j].type == .byte) ∧
        ((p :: ps)[j].type = .normal ∨ (p :: ps)[j].type = .byte) ∧ pieceBytes (p :: ps)[j] = some e.1 := by
      intro e he
      obtain ⟨j, hj, h1, h2, h3⟩ := hmem e he
      refine ⟨j + 1, by simp only [List.length_cons]; omega, ?_, by simpa using h2, by simpa using h3⟩
      simp only [List.getElem_cons_succ]
      rw [h1]; simp only [Prod.mk.injEq, and_true]; omega
    have hkeep' : (∃ e ∈ st1.vocab, e.1 = b) → ∀ j (hj : j < (p :: ps).length),
        ((p :: ps)[j].type = .normal ∨ (p :: ps)[j].type = .byte) →
        ∃ b, pieceBytes (p :: ps)[j] = some b ∧ ∃ e ∈ st'.vocab, e.1 = b := by
      intro h0 j hj hty
      cases j with
      | zero =>
        obtain ⟨e, he, hk⟩ := h0
        exact ⟨b, hb, e, by rw [hext]; exact List.mem_append_left _ he, hk⟩
      | succ j => exact hkeep j (by simpa using hj) (by simpa using hty)
    rcases hv with ⟨hv, hex⟩ | ⟨hv, hty⟩
    · refine ⟨ext, by rw [hext, hv], hshift, hnd, ?_⟩
      intro j hj hty
      cases j with
      | zero =>
        obtain ⟨e, he, hk⟩ := hex (by simpa using hty)
        exact ⟨b, hb, e, by rw [hext, hv]; exact List.mem_append_left _ he, hk⟩
      | succ j => exact hkeep j (by simpa using hj) (by simpa using hty)
    · refine ⟨(b, (n, p.score, p.type == .byte)) :: ext, by rw [hext, hv]; simp, ?_, ?_, ?_⟩
      · intro e he
        rcases List.mem_cons.mp he with rfl | he
        · exact ⟨0, by simp, by simp, hty, hb⟩
        · exact hshift e he
      · simp only [List.map_cons, List.nodup_cons, hnd, and_true, List.mem_map, not_exists, not_and]
        intro e he hidx
        obtain ⟨j, hj, h1, -, -⟩ := hmem e he
        rw [h1] at hidx
        simp only at hidx
        omega
      · exact hkeep' ⟨_, by rw [hv]; exact List.mem_append_right _ List.mem_cons_self, rfl⟩

/-! ## the converter in parts -/

def spInit (trainer : Option Trainer) : SpState :=
  match trainer with
  | some t => { specials := trainerSpecials t, vocab := [], unkId := some t.unkId }
  | none => { specials := [], vocab := [], unkId := none }

def spSpecials (st : SpState) (ps : List SpecialDef → List SpecialDef) : List SpecialDef :=
  (ps ((lastWins st.specials).map fun e => { e.2 with score := invScore e.2.score })).mergeSort specialLe

/-- Score of the token with this id when it has a split into two tokens. -/
def bpeMerge (entries : List SpEntry) (id : Id) : Option UInt32 :=
  (entries.find? fun e => UInt32.ofNat e.2.1 == id && hasMerge (entries.map (·.1)) e.1).map (·.2.2.1)

def toTok (e : SpEntry) : Id × Bytes := (UInt32.ofNat e.2.1, e.1)

def toUni (e : SpEntry) : (Bytes × Nat) × UInt32 := ((e.1, e.2.1), e.2.2.1)

def uniSorted (entries : List SpEntry) : List ((Bytes × Nat) × UInt32) := (entries.map toUni).mergeSort uniLe

def bpeSorted (entries : List SpEntry) : List (Id × Bytes) := (entries.map toTok).mergeSort (spBpeLe (bpeMerge entries))

def spOut (bpe : Bool) (entries : List SpEntry) (specials : List SpecialDef) : Except SpError HfOut :=
  if bpe then .ok { vocab := bpeSorted entries, specials := specials }
  else .ok { vocab := (uniSorted entries).map fun e => (UInt32.ofNat e.1.2, e.1.1), scores := (uniSorted entries).map (·.2),
             specials := specials }

theorem convertSp_eq (trainer : Option Trainer) (pieces : List Piece)
    (pv : List SpEntry → List SpEntry) (ps : List SpecialDef → List SpecialDef) :
    convertSp trainer pieces pv ps =
      if pieces.length > 4294967295 then .error .tooManyPieces else
      match spLoop (spInit trainer) 0 pieces with
      | .error e => .error e
      | .ok st => spOut ((trainer.map (·.bpe)).getD false) (pv (lastWins st.vocab)) (spSpecials st ps) := rfl

theorem convertSp_ok (trainer : Option Trainer) (pieces : List Piece)
    (pv : List SpEntry → List SpEntry) (ps : List SpecialDef → List SpecialDef) (out : HfOut)
    (h : convertSp trainer pieces pv ps = .ok out) :
    pieces.length ≤ 4294967295 ∧ ∃ st, spLoop (spInit trainer) 0 pieces = .ok st ∧
      spOut ((trainer.map (·.bpe)).getD false) (pv (lastWins st.vocab)) (spSpecials st ps) = .ok out := by
  rw [convertSp_eq] at h
  split at h
  · cases h
  · rename_i hlen
    refine ⟨by omega, ?_⟩
    cases hl : spLoop (spInit trainer) 0 pieces with
    | error e => rw [hl] at h; cases h
    | ok st => rw [hl] at h; exact ⟨st, rfl, h⟩

theorem spInit_vocab (trainer : Option Trainer) : (spInit trainer).vocab = [] := by
  cases trainer <;> rfl

theorem spOut_spec (bpe : Bool) (entries : List SpEntry) (specials : List SpecialDef) (out : HfOut)
    (h : spOut bpe entries specials = .ok out) :
    out.vocab.Perm (entries.map toTok) ∧ out.specials = specials := by
  unfold spOut at h
  cases bpe with
  | true =>
    simp only [if_true, Except.ok.injEq] at h
    subst h
    exact ⟨List.mergeSort_perm _ _, rfl⟩
  | false =>
    simp only [Bool.false_eq_true, if_false, Except.ok.injEq] at h
    subst h
    refine ⟨?_, rfl⟩
    have h1 : ((uniSorted entries).map fun e => (UInt32.ofNat e.1.2, e.1.1)).Perm
        ((entries.map toUni).map fun e => (UInt32.ofNat e.1.2, e.1.1)) := (List.mergeSort_perm _ _).map _
    rw [List.map_map] at h1
    exact h1

/-- What the vocabulary insertions of a successful run look like. -/
structure VocabFacts (pieces : List Piece) (V : List SpEntry) : Prop where
  mem : ∀ e ∈ V, ∃ j, ∃ hj : j < pieces.length, e.2 = (j, pieces[j].score, pieces[j].type == .byte) ∧
        (pieces[j].type = .normal ∨ pieces[j].type = .byte) ∧ pieceBytes pieces[j] = some e.1
  nodup : (V.map (·.2.1)).Nodup
  keeps : ∀ j (hj : j < pieces.length), (pieces[j].type = .normal ∨ pieces[j].type = .byte) →
        ∃ b, pieceBytes pieces[j] = some b ∧ ∃ e ∈ V, e.1 = b

theorem spLoop_vocabFacts (trainer : Option Trainer) (pieces : List Piece) (st : SpState)
    (h : spLoop (spInit trainer) 0 pieces = .ok st) : VocabFacts pieces st.vocab := by
  obtain ⟨ext, hext, hmem, hnd, hkeep⟩ := spLoop_vocab pieces (spInit trainer) st 0 h
  rw [spInit_vocab, List.nil_append] at hext
  rw [hext]
  rw [hext] at hkeep
  exact ⟨by simpa using hmem, hnd, hkeep⟩

theorem ofNat_inj_of_lt (i j : Nat) (hi : i < 4294967296) (hj : j < 4294967296) (h : UInt32.ofNat i = UInt32.ofNat j) :
    i = j := by
  have := congrArg UInt32.toNat h
  rwa [ofNat_toNat_lt _ hi, ofNat_toNat_lt _ hj] at this

/-- The entries after `lastWins`: a sublist, keys distinct, indices distinct, ids distinct. -/
theorem lastWins_idx_nodup (pieces : List Piece) (V : List SpEntry) (hV : VocabFacts pieces V) :
    ((lastWins V).map (·.2.1)).Nodup :=
  List.Nodup.sublist ((lastWins_sublist V).map _) hV.nodup

theorem entries_ids_nodup (pieces : List Piece) (hlen : pieces.length ≤ 4294967295) (V L : List SpEntry)
    (hV : VocabFacts pieces V) (hL : L.Perm (lastWins V)) : ((L.map toTok).map (·.1)).Nodup := by
  have h1 : (L.map (·.2.1)).Nodup := ((hL.map _).nodup_iff).mpr (lastWins_idx_nodup pieces V hV)
  rw [List.map_map]
  unfold List.Nodup at h1 ⊢
  rw [List.pairwise_map] at h1 ⊢
  refine List.Pairwise.imp_of_mem ?_ h1
  intro a b ha hb hab hc
  apply hab
  obtain ⟨i, hi, hai, -, -⟩ := hV.mem a ((lastWins_sublist V).subset (hL.subset ha))
  obtain ⟨j, hj, hbj, -, -⟩ := hV.mem b ((lastWins_sublist V).subset (hL.subset hb))
  simp only [Function.comp, toTok] at hc
  rw [hai, hbj] at hc ⊢
  exact ofNat_inj_of_lt i j (by omega) (by omega) hc

/-! ## the properties -/

/-- A successful run: the vocabulary is a permutation of the entries that `lastWins` leaves. -/
theorem convertSp_vocab (trainer : Option Trainer) (pieces : List Piece)
    (pv : List SpEntry → List SpEntry) (hpv : ∀ l, (pv l).Perm l) (ps : List SpecialDef → List SpecialDef)
    (out : HfOut) (h : convertSp trainer pieces pv ps = .ok out) :
    pieces.length ≤ 4294967295 ∧ ∃ V, VocabFacts pieces V ∧ out.vocab.Perm ((lastWins V).map toTok) := by
  obtain ⟨hlen, st, hl, ho⟩ := convertSp_ok trainer pieces pv ps out h
  refine ⟨hlen, st.vocab, spLoop_vocabFacts trainer pieces st hl, ?_⟩
  exact (spOut_spec _ _ _ _ ho).1.trans ((hpv _).map _)

theorem sp_keeps_pieces (trainer : Option Trainer) (pieces : List Piece)
    (pv : List SpEntry → List SpEntry) (hpv : ∀ l, (pv l).Perm l) (ps : List SpecialDef → List SpecialDef)
    (out : HfOut) (h : convertSp trainer pieces pv ps = .ok out) :
    ∀ i (hi : i < pieces.length), (pieces[i].type = .normal ∨ pieces[i].type = .byte) →
      ∃ b, pieceBytes pieces[i] = some b ∧ ∃ e ∈ out.vocab, e.2 = b := by
  obtain ⟨-, V, hV, hperm⟩ := convertSp_vocab trainer pieces pv hpv ps out h
  intro i hi hty
  obtain ⟨b, hb, e, he, hk⟩ := hV.keeps i hi hty
  obtain ⟨e', he', hk'⟩ := lastWins_keeps_key V e he
  exact ⟨b, hb, toTok e', hperm.symm.subset (List.mem_map.mpr ⟨e', he', rfl⟩), hk'.trans hk⟩

theorem sp_no_invention (trainer : Option Trainer) (pieces : List Piece)
    (pv : List SpEntry → List SpEntry) (hpv : ∀ l, (pv l).Perm l) (ps : List SpecialDef → List SpecialDef)
    (out : HfOut) (h : convertSp trainer pieces pv ps = .ok out) :
    (∀ e ∈ out.vocab, ∃ i, ∃ hi : i < pieces.length, e.1 = UInt32.ofNat i ∧
        (pieces[i].type = .normal ∨ pieces[i].type = .byte) ∧ pieceBytes pieces[i] = some e.2) ∧
    (out.vocab.map (·.2)).Nodup ∧ (out.vocab.map (·.1)).Nodup := by
  obtain ⟨hlen, V, hV, hperm⟩ := convertSp_vocab trainer pieces pv hpv ps out h
  refine ⟨?_, ?_, ?_⟩
  · intro e he
    obtain ⟨x, hx, rfl⟩ := List.mem_map.mp (hperm.subset he)
    obtain ⟨i, hi, h1, h2, h3⟩ := hV.mem x ((lastWins_sublist V).subset hx)
    exact ⟨i, hi, by simp only [toTok, h1], h2, h3⟩
  · rw [(hperm.map _).nodup_iff, List.map_map]
    exact lastWins_keys_nodup V
  · rw [(hperm.map _).nodup_iff]
    exact entries_ids_nodup pieces hlen V (lastWins V) hV (List.Perm.refl _)

theorem sp_unused_dropped (trainer : Option Trainer) (pieces : List Piece)
    (pv : List SpEntry → List SpEntry) (hpv : ∀ l, (pv l).Perm l) (ps : List SpecialDef → List SpecialDef)
    (out : HfOut) (h : convertSp trainer pieces pv ps = .ok out) :
    ∀ i (hi : i < pieces.length), pieces[i].type = .unused → ∀ e ∈ out.vocab, e.1 ≠ UInt32.ofNat i := by
  intro i hi hty e he hc
  have hlen := (convertSp_ok trainer pieces pv ps out h).1
  obtain ⟨j, hj, h1, h2, -⟩ := (sp_no_invention trainer pieces pv hpv ps out h).1 e he
  have : j = i := ofNat_inj_of_lt j i (by omega) (by omega) (h1.symm.trans hc)
  subst this
  rw [hty] at h2
  rcases h2 with h2 | h2 <;> cases h2

theorem sp_special_pieces (trainer : Option Trainer) (pieces : List Piece)
    (pv : List SpEntry → List SpEntry) (ps : List SpecialDef → List SpecialDef) (hps : ∀ l, (ps l).Perm l)
    (out : HfOut) (h : convertSp trainer pieces pv ps = .ok out) :
    ∀ i (hi : i < pieces.length) (t : Bytes), pieces[i].text = some t →
      (pieces[i].type = .control ∨ pieces[i].type = .userDefined) →
      (∀ j (hj : j < pieces.length), i < j → pieces[j].text = some t →
        ¬ (pieces[j].type = .control ∨ pieces[j].type = .userDefined ∨ pieces[j].type = .unknown)) →
      ∃ sp ∈ out.specials, sp.id = UInt32.ofNat i ∧ sp.bytes = t ∧
        sp.kind = (if pieces[i].type = .control then SpecialKind.control else SpecialKind.priority) := by
  obtain ⟨-, st, hl, ho⟩ := convertSp_ok trainer pieces pv ps out h
  intro i hi t ht hty hlater
  obtain ⟨l1, l2, hsp, hl2⟩ := spLoop_special_piece pieces (spInit trainer) st 0 hl i hi t ht hty hlater
  have hmem : (t, pieceSpecial (0 + i) t pieces[i]) ∈ lastWins st.specials := by
    rw [hsp]; exact mem_lastWins_of_last t _ l2 hl2 l1
  rw [(spOut_spec _ _ _ _ ho).2]
  refine ⟨{ pieceSpecial (0 + i) t pieces[i] with score := invScore (pieceSpecial (0 + i) t pieces[i]).score }, ?_, ?_, rfl, ?_⟩
  · unfold spSpecials
    exact (List.mergeSort_perm _ _).symm.subset ((hps _).symm.subset (List.mem_map.mpr ⟨_, hmem, rfl⟩))
  · simp [pieceSpecial]
  · simp [pieceSpecial]

theorem sp_unigram_scores (trainer : Option Trainer) (pieces : List Piece)
    (pv : List SpEntry → List SpEntry) (hpv : ∀ l, (pv l).Perm l) (ps : List SpecialDef → List SpecialDef)
    (out : HfOut) (h : convertSp trainer pieces pv ps = .ok out) (hu : (trainer.map (·.bpe)).getD false = false) :
    out.scores.length = out.vocab.length ∧
    ∀ k (hk : k < out.vocab.length) (hs : k < out.scores.length),
      ∃ i, ∃ hi : i < pieces.length, out.vocab[k].1 = UInt32.ofNat i ∧ out.scores[k] = pieces[i].score := by
  obtain ⟨-, st, hl, ho⟩ := convertSp_ok trainer pieces pv ps out h
  have hV := spLoop_vocabFacts trainer pieces st hl
  rw [hu] at ho
  simp only [spOut, Bool.false_eq_true, if_false, Except.ok.injEq] at ho
  subst ho
  refine ⟨by simp, ?_⟩
  intro k hk hs
  simp only [List.getElem_map]
  have hk' : k < (uniSorted (pv (lastWins st.vocab))).length := by simpa using hk
  have hmem : (uniSorted (pv (lastWins st.vocab)))[k] ∈ (pv (lastWins st.vocab)).map toUni :=
    (List.mergeSort_perm _ _).subset (List.getElem_mem hk')
  obtain ⟨x, hx, hxe⟩ := List.mem_map.mp hmem
  obtain ⟨i, hi, h1, -, -⟩ := hV.mem x ((lastWins_sublist _).subset ((hpv _).subset hx))
  refine ⟨i, hi, ?_, ?_⟩
  · rw [← hxe]; simp only [toUni, h1]
  · rw [← hxe]; simp only [toUni, h1]

/-! ## the order of the vocabulary map does not matter -/

theorem find?_perm_of_unique {α : Type} (p : α → Bool) (l₁ l₂ : List α) (hp : l₁.Perm l₂)
    (huniq : ∀ a ∈ l₁, ∀ b ∈ l₁, p a = true → p b = true → a = b) : l₁.find? p = l₂.find? p := by
  cases h1 : l₁.find? p with
  | none =>
    symm
    rw [List.find?_eq_none] at h1 ⊢
    intro x hx
    exact h1 x (hp.symm.subset hx)
  | some a =>
    have ha := List.mem_of_find?_eq_some h1
    have hpa := List.find?_some h1
    cases h2 : l₂.find? p with
    | none =>
      rw [List.find?_eq_none] at h2
      exact absurd hpa (h2 a (hp.subset ha))
    | some b =>
      have hb := hp.symm.subset (List.mem_of_find?_eq_some h2)
      have hpb := List.find?_some h2
      rw [huniq a ha b hb hpa hpb]

theorem hasMerge_perm (k₁ k₂ : List Bytes) (hp : k₁.Perm k₂) (t : Bytes) : hasMerge k₁ t = hasMerge k₂ t := by
  unfold hasMerge
  congr 1
  funext k
  rw [hp.contains_eq, hp.contains_eq]

theorem bpeMerge_perm (L₁ L₂ : List SpEntry) (hp : L₁.Perm L₂)
    (hnd : ((L₁.map toTok).map (·.1)).Nodup) : bpeMerge L₁ = bpeMerge L₂ := by
  funext id
  unfold bpeMerge
  have hkeys : (L₁.map (·.1)).Perm (L₂.map (·.1)) := hp.map _
  have hpred : (fun e : SpEntry => UInt32.ofNat e.2.1 == id && hasMerge (L₂.map (·.1)) e.1) =
      (fun e : SpEntry => UInt32.ofNat e.2.1 == id && hasMerge (L₁.map (·.1)) e.1) := by
    funext e
    rw [hasMerge_perm _ _ hkeys]
  rw [hpred]
  congr 1
  apply find?_perm_of_unique _ _ _ hp
  intro a ha b hb hpa hpb
  simp only [Bool.and_eq_true, beq_iff_eq] at hpa hpb
  rw [List.map_map] at hnd
  exact eq_of_nodup_map ((fun x : Id × Bytes => x.1) ∘ toTok) L₁ hnd a ha b hb (hpa.1.trans hpb.1.symm)

theorem spBpeLe_eq (merge : Id → Option UInt32) :
    spBpeLe merge = lexLe (fun e => if (merge e.1).isSome then 0 else 1)
      (lexLe (fun e => -(f32Key ((merge e.1).getD 0))) (keyLe fun e => (e.1.toNat : Int))) := by
  funext a b
  unfold spBpeLe lexLe keyLe
  cases ha : merge a.1 <;> cases hb : merge b.1 <;>
    simp [ha, hb, UInt32.le_iff_toNat_le, Int.neg_inj, Int.neg_lt_neg_iff]

theorem spBpeLe_trans (merge : Id → Option UInt32) :
    ∀ a b c, spBpeLe merge a b = true → spBpeLe merge b c = true → spBpeLe merge a c = true := by
  rw [spBpeLe_eq]; exact lexLe_trans _ _ (lexLe_trans _ _ (keyLe_trans _))

theorem spBpeLe_total (merge : Id → Option UInt32) : ∀ a b, (spBpeLe merge a b || spBpeLe merge b a) = true := by
  rw [spBpeLe_eq]; exact lexLe_total _ _ (lexLe_total _ _ (keyLe_total _))

theorem spBpeLe_antisymm (merge : Id → Option UInt32) (a b : Id × Bytes) (h1 : spBpeLe merge a b = true)
    (h2 : spBpeLe merge b a = true) : a.1 = b.1 := by
  rw [spBpeLe_eq] at h1 h2
  obtain ⟨_, h3, h4⟩ := lexLe_antisymm _ _ a b h1 h2
  obtain ⟨_, h5, h6⟩ := lexLe_antisymm _ _ a b h3 h4
  have := keyLe_antisymm _ a b h5 h6
  exact UInt32.toNat_inj.mp (Int.ofNat_inj.mp this)

theorem uniSorted_perm (pieces : List Piece) (V L₁ L₂ : List SpEntry) (hV : VocabFacts pieces V)
    (h1 : L₁.Perm (lastWins V)) (h2 : L₂.Perm (lastWins V)) : uniSorted L₁ = uniSorted L₂ := by
  unfold uniSorted
  apply mergeSort_perm_eq _ uniLe_trans uniLe_total _ _ ((h1.trans h2.symm).map _)
  have hnd : ((L₁.map toUni).map (·.1.2)).Nodup := by
    rw [List.map_map]
    exact ((h1.map _).nodup_iff).mpr (lastWins_idx_nodup pieces V hV)
  intro a ha b hb hab hba
  exact eq_of_nodup_map (·.1.2) _ hnd a ha b hb (uniLe_antisymm a b hab hba)

theorem bpeSorted_perm (pieces : List Piece) (hlen : pieces.length ≤ 4294967295) (V L₁ L₂ : List SpEntry)
    (hV : VocabFacts pieces V) (h1 : L₁.Perm (lastWins V)) (h2 : L₂.Perm (lastWins V)) : bpeSorted L₁ = bpeSorted L₂ := by
  unfold bpeSorted
  have hnd := entries_ids_nodup pieces hlen V L₁ hV h1
  rw [← bpeMerge_perm L₁ L₂ (h1.trans h2.symm) hnd]
  apply mergeSort_perm_eq _ (spBpeLe_trans _) (spBpeLe_total _) _ _ ((h1.trans h2.symm).map _)
  intro a ha b hb hab hba
  exact eq_of_nodup_map (·.1) _ hnd a ha b hb (spBpeLe_antisymm _ a b hab hba)

theorem sp_vocab_order_independent (trainer : Option Trainer) (pieces : List Piece)
    (pv pv' : List SpEntry → List SpEntry) (hpv : ∀ l, (pv l).Perm l) (hpv' : ∀ l, (pv' l).Perm l)
    (ps : List SpecialDef → List SpecialDef) :
    (convertSp trainer pieces pv ps).map (fun o => (o.vocab, o.scores)) =
    (convertSp trainer pieces pv' ps).map (fun o => (o.vocab, o.scores)) := by
  rw [convertSp_eq, convertSp_eq]
  split
  · rfl
  rename_i hlen
  cases hl : spLoop (spInit trainer) 0 pieces with
  | error e => rfl
  | ok st =>
    have hV := spLoop_vocabFacts trainer pieces st hl
    simp only [spOut]
    rw [uniSorted_perm pieces st.vocab _ _ hV (hpv _) (hpv' _),
      bpeSorted_perm pieces (by omega) st.vocab _ _ hV (hpv _) (hpv' _)]

end Kitoken.Proofs.ConvertSp
