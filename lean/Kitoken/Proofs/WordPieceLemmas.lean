/-
  Helper lemmas for C05 (WordPiece): the encoder loop `mergeParts` equals the greedy specification.
  Core Lean only.
-/
import Kitoken.Spec.WordPiece
namespace Kitoken.Proofs.WordPiece

open Kitoken Kitoken.Utf8 Kitoken.WordPiece Kitoken.Spec

/-! ## Structure of character spans -/

/-- `Chain len p l`: the spans of `l` are consecutive, non-empty, start at `p` and end at `len`. -/
def Chain (len : Nat) : Nat → List (Nat × Nat) → Prop
  | p, [] => p = len
  | p, (s, e) :: rest => s = p ∧ s < e ∧ Chain len e rest

/-- The `(start, end)` projection used by `encodeWord`. -/
def spanOf (x : Nat × Nat × Char) : Nat × Nat := (x.1, x.2.1)

theorem spanOf_eq : (fun (x : Nat × Nat × Char) => match x with | (s, e, _) => (s, e)) = spanOf := by
  funext x
  obtain ⟨s, e, ch⟩ := x
  rfl

theorem chain_charIndicesFrom (pos : Nat) (bs : Bytes) :
    Chain (pos + bs.length) pos ((charIndicesFrom pos bs).map spanOf) := by
  fun_induction charIndicesFrom pos bs with
  | case1 pos => simp [Chain]
  | case2 pos b t r ih =>
    have h1 : 0 < r.2 := decodeOne_pos b t
    have h2 : r.2 ≤ (b :: t).length := decodeOne_le (b :: t)
    simp only [List.map_cons, spanOf, Chain, true_and]
    refine ⟨by omega, ?_⟩
    have hlen : pos + r.2 + ((b :: t).drop r.2).length = pos + (b :: t).length := by
      simp only [List.length_drop]; omega
    rw [hlen] at ih
    exact ih

/-- Every end in a chain is beyond the chain's start and within `len`. -/
theorem chain_ends_bounds {len : Nat} : ∀ (l : List (Nat × Nat)) (p : Nat), Chain len p l →
    p ≤ len ∧ ∀ x ∈ l.map (·.2), p < x ∧ x ≤ len := by
  intro l
  induction l with
  | nil => intro p h; simp only [Chain] at h; simp [h]
  | cons se rest ih =>
    obtain ⟨s, e⟩ := se
    intro p h
    obtain ⟨rfl, hse, hrest⟩ := h
    obtain ⟨h1, h2⟩ := ih e hrest
    refine ⟨by omega, ?_⟩
    intro x hx
    simp only [List.map_cons, List.mem_cons] at hx
    rcases hx with rfl | hx
    · omega
    · have := h2 x hx; omega

/-- The last end of a non-empty chain is `len`: reversed, the ends start with `len`. -/
theorem chain_reverse_ends {len : Nat} : ∀ (l : List (Nat × Nat)) (e : Nat), Chain len e l →
    ∃ ys, (l.map (·.2)).reverse ++ [e] = len :: ys := by
  intro l
  induction l with
  | nil => intro e h; simp only [Chain] at h; exact ⟨[], by simp [h]⟩
  | cons se rest ih =>
    obtain ⟨s, e'⟩ := se
    intro e h
    obtain ⟨rfl, _, hrest⟩ := h
    obtain ⟨ys, hys⟩ := ih e' hrest
    refine ⟨ys ++ [s], ?_⟩
    simp only [List.map_cons, List.reverse_cons, List.append_assoc] at hys ⊢
    rw [← List.append_assoc, hys]
    simp

theorem filter_gt_all (l : List Nat) (p : Nat) (h : ∀ x ∈ l, p < x) : l.filter (· > p) = l := by
  apply List.filter_eq_self.mpr
  intro x hx
  simpa using h x hx

theorem filter_gt_of_filter_gt (ends : List Nat) (p e : Nat) (hpe : p ≤ e) :
    ends.filter (· > e) = (ends.filter (· > p)).filter (· > e) := by
  rw [List.filter_filter]
  apply List.filter_congr
  intro x _
  by_cases h : x > e
  · have : x > p := by omega
    simp [h, this]
  · simp [h]

/-! ## `firstMatch` as `findSome?` -/

/-- The function searched for by both the model and the specification. -/
def probe (lookup : Bytes → Option Id) (bytes : Bytes) (start : Nat) (e : Nat) : Option (Id × Nat) :=
  (lookup (slice bytes start e)).map fun t => (t, e)

theorem firstMatch_eq_findSome (lookup : Bytes → Option Id) (bytes : Bytes) (start : Nat) (l : List Nat) :
    firstMatch lookup bytes start l = l.findSome? (probe lookup bytes start) := by
  induction l with
  | nil => simp [firstMatch]
  | cons e es ih =>
    simp only [firstMatch, List.findSome?_cons, probe]
    cases h : lookup (slice bytes start e) with
    | none => simpa [probe] using ih
    | some t => simp

theorem longestMatch_eq (lookup : Bytes → Option Id) (bytes : Bytes) (pos : Nat) (ends : List Nat) :
    longestMatch lookup bytes pos ends = ((ends.filter (· > pos)).reverse).findSome? (probe lookup bytes pos) := rfl

theorem findSome_dup_head {α β : Type} (f : α → Option β) (a : α) (l : List α) :
    (a :: a :: l).findSome? f = (a :: l).findSome? f := by
  simp only [List.findSome?_cons]
  cases f a <;> rfl

theorem findSome_mem {α β : Type} (f : α → Option β) (l : List α) (b : β) (h : l.findSome? f = some b) :
    ∃ a ∈ l, f a = some b := by
  rw [List.findSome?_eq_some_iff] at h
  obtain ⟨l₁, a, l₂, rfl, hfa, _⟩ := h
  exact ⟨a, by simp, hfa⟩

theorem probe_snd (lookup : Bytes → Option Id) (bytes : Bytes) (start e : Nat) (t : Id) (e' : Nat)
    (h : probe lookup bytes start e = some (t, e')) : e' = e ∧ lookup (slice bytes start e) = some t := by
  unfold probe at h
  cases hl : lookup (slice bytes start e) with
  | none => simp [hl] at h
  | some t' =>
    simp only [hl, Option.map_some, Option.some.injEq, Prod.mk.injEq] at h
    exact ⟨h.2.symm, by rw [h.1]⟩

/-- At a position `s` with current span `(s, e)` and remaining spans `rest`, the code's candidate scan
    is the specification's longest match. -/
theorem firstMatch_eq_longestMatch (lookup : Bytes → Option Id) (bytes : Bytes) (ends : List Nat)
    (s e : Nat) (rest : List (Nat × Nat)) (hc : Chain bytes.length e rest)
    (he : ends.filter (· > s) = e :: rest.map (·.2)) :
    firstMatch lookup bytes s (candidateEnds bytes.length e rest) = longestMatch lookup bytes s ends := by
  rw [firstMatch_eq_findSome, longestMatch_eq, he]
  obtain ⟨ys, hys⟩ := chain_reverse_ends rest e hc
  simp only [candidateEnds, List.reverse_cons]
  rw [List.cons_append, hys, findSome_dup_head]

/-! ## The loop equals the greedy specification -/

theorem mergeParts_eq_greedy (c : WpCtx) (bytes : Bytes) (ends : List Nat) :
    ∀ (l : List (Nat × Nat)) (p upto fuel : Nat) (first : Bool) (acc : List Id),
      Chain bytes.length p l → p ≤ upto → (upto = p ∨ upto ∈ l.map (·.2)) →
      ends.filter (· > p) = l.map (·.2) → l.length < fuel →
      mergeParts c bytes l first upto acc =
        match greedy c bytes ends fuel upto first with
        | .ok ts => .ok (acc ++ ts)
        | .error q => failWord c (bytes.drop q) := by
  intro l
  induction l with
  | nil =>
    intro p upto fuel first acc hc hle hu he hf
    simp only [Chain] at hc
    have hup : upto = p := by simpa using hu
    subst hup
    cases fuel with
    | zero => omega
    | succ f => simp [mergeParts, greedy, hc]
  | cons se rest ih =>
    obtain ⟨s, e⟩ := se
    intro p upto fuel first acc hc hle hu he hf
    obtain ⟨rfl, hse, hrest⟩ := hc
    obtain ⟨hele, hbnd⟩ := chain_ends_bounds rest e hrest
    have he' : ends.filter (· > e) = rest.map (·.2) := by
      rw [filter_gt_of_filter_gt ends s e (by omega), he]
      simp only [List.map_cons, List.filter_cons]
      have : ¬ (e > e) := by omega
      simp only [this, decide_false, Bool.false_eq_true, if_false]
      exact filter_gt_all _ _ (fun x hx => (hbnd x hx).1)
    cases fuel with
    | zero => omega
    | succ f =>
    have hf' : rest.length < f := by simp only [List.length_cons] at hf; omega
    simp only [mergeParts]
    by_cases hlt : s < upto
    · -- still skipping the characters covered by the previous match
      simp only [hlt, if_true]
      have hu' : upto = e ∨ upto ∈ rest.map (·.2) := by
        rcases hu with h | h
        · omega
        · simpa using h
      have hle' : e ≤ upto := by
        rcases hu' with h | h
        · omega
        · have := (hbnd upto h).1; omega
      exact ih e upto (f + 1) first acc hrest hle' hu' he' (by omega)
    · have hup : upto = s := by omega
      subst hup
      simp only [hlt, if_false]
      have hpos : ¬ (upto ≥ bytes.length) := by omega
      rw [firstMatch_eq_longestMatch _ bytes ends upto e rest hrest (by simpa using he)]
      simp only [greedy, hpos, if_false]
      cases hm : longestMatch (if first = true then c.start else c.cont) bytes upto ends with
      | none => simp
      | some te =>
        obtain ⟨t, e1⟩ := te
        -- the matched end is one of the remaining ends
        have hmem : e1 ∈ (e :: rest.map (·.2)) := by
          rw [longestMatch_eq] at hm
          obtain ⟨a, ha, hpa⟩ := findSome_mem _ _ _ hm
          have := (probe_snd _ _ _ _ _ _ hpa).1
          subst this
          rw [he] at ha
          exact List.mem_reverse.mp ha
        have hu1 : e1 = e ∨ e1 ∈ rest.map (·.2) := by simpa using hmem
        have hle1 : e ≤ e1 := by
          rcases hu1 with h | h
          · omega
          · have := (hbnd e1 h).1; omega
        have hnle : ¬ (e1 ≤ upto) := by omega
        simp only [hnle, if_false]
        rw [ih e e1 f false (acc ++ [t]) hrest hle1 hu1 he' hf']
        cases greedy c bytes ends f e1 false <;> simp

/-! ## The five lemmas referred to by `Kitoken/Theorems/C05.lean` -/

theorem indices_eq (bytes : Bytes) :
    ((charIndices bytes).map fun (s, e, _) => (s, e)) = (charIndices bytes).map spanOf := by
  rw [← spanOf_eq]

theorem charEnds_eq (bytes : Bytes) : charEnds bytes = ((charIndices bytes).map spanOf).map (·.2) := by
  simp [charEnds, spanOf, List.map_map, Function.comp_def]

theorem encodeWord_eq_spec (c : WpCtx) (bytes : Bytes) : encodeWord c bytes = wordSpec c bytes := by
  have hchain : Chain bytes.length 0 ((charIndices bytes).map spanOf) := by
    have := chain_charIndicesFrom 0 bytes
    simpa [charIndices] using this
  have hlen : ((charIndices bytes).map spanOf).length = (charEnds bytes).length := by
    simp [charEnds]
  simp only [encodeWord, wordSpec, indices_eq, hlen]
  split
  · rfl
  · have hall := (chain_ends_bounds _ 0 hchain).2
    have he : (charEnds bytes).filter (· > 0) = ((charIndices bytes).map spanOf).map (·.2) := by
      rw [← charEnds_eq]
      apply filter_gt_all
      intro x hx
      rw [charEnds_eq] at hx
      exact (hall x hx).1
    rw [mergeParts_eq_greedy c bytes (charEnds bytes) _ 0 0 ((charEnds bytes).length + 1) true []
      hchain (Nat.le_refl 0) (Or.inl rfl) he (by omega)]
    cases greedy c bytes (charEnds bytes) ((charEnds bytes).length + 1) 0 true <;> simp

theorem failure_is_atomic (c : WpCtx) (bytes : Bytes) :
    (∃ ts, greedy c bytes (charEnds bytes) ((charEnds bytes).length + 1) 0 true = .ok ts ∧
        encodeWord c bytes = .ok ts) ∨
    (∃ payload, encodeWord c bytes = failWord c payload) := by
  rw [encodeWord_eq_spec]
  simp only [wordSpec]
  split
  · exact Or.inr ⟨bytes, rfl⟩
  · cases h : greedy c bytes (charEnds bytes) ((charEnds bytes).length + 1) 0 true with
    | ok ts => exact Or.inl ⟨ts, rfl, rfl⟩
    | error p => exact Or.inr ⟨bytes.drop p, rfl⟩

theorem failWord_shape (c : WpCtx) (payload : Bytes) :
    failWord c payload = .ok [] ∨ (∃ u, c.unknown = some u ∧ failWord c payload = .ok [u]) ∨
      failWord c payload = .err (.invalidPiece payload) := by
  unfold failWord
  split
  · rename_i u _ hu
    exact Or.inr (Or.inl ⟨u, hu, rfl⟩)
  · exact Or.inl rfl
  · exact Or.inr (Or.inr rfl)

theorem guards (c : WpCtx) (bytes : Bytes)
    (h : bytes.length < c.minTok ∨ (c.maxWordChars > 0 ∧ (charEnds bytes).length > c.maxWordChars)) :
    encodeWord c bytes = failWord c bytes := by
  rw [encodeWord_eq_spec]
  simp only [wordSpec, h, if_true]

/-- What a longest match tells: the end is a boundary beyond `pos` and the slice is in the map. -/
theorem longestMatch_some (lookup : Bytes → Option Id) (bytes : Bytes) (pos : Nat) (ends : List Nat)
    (t : Id) (e : Nat) (h : longestMatch lookup bytes pos ends = some (t, e)) :
    e ∈ ends ∧ pos < e ∧ lookup (slice bytes pos e) = some t := by
  rw [longestMatch_eq] at h
  obtain ⟨a, ha, hpa⟩ := findSome_mem _ _ _ h
  obtain ⟨rfl, hl⟩ := probe_snd _ _ _ _ _ _ hpa
  have ha' := List.mem_filter.mp (List.mem_reverse.mp ha)
  exact ⟨ha'.1, by simpa using ha'.2, hl⟩

theorem greedy_spells (c : WpCtx) (bytes : Bytes) (ends : List Nat) (fuel pos : Nat) (first : Bool)
    (ts : List Id) (hf : bytes.length - pos < fuel ∨ pos ≥ bytes.length)
    (hends : ∀ e ∈ ends, e ≤ bytes.length)
    (h : greedy c bytes ends fuel pos first = .ok ts) :
    ∃ cuts : List Nat, cuts.length = ts.length ∧
      List.Pairwise (· < ·) (pos :: cuts) ∧ (pos < bytes.length → (pos :: cuts).getLast? = some bytes.length) ∧
      (pos ≥ bytes.length → ts = []) ∧
      ∀ k (hk : k < ts.length),
        (if k = 0 ∧ first then c.start else c.cont)
          (slice bytes ((pos :: cuts).getD k 0) (cuts.getD k 0)) = some ts[k] := by
  have stop : ∀ (pos : Nat) (first : Bool), pos ≥ bytes.length →
      ∃ cuts : List Nat, cuts.length = ([] : List Id).length ∧
        List.Pairwise (· < ·) (pos :: cuts) ∧ (pos < bytes.length → (pos :: cuts).getLast? = some bytes.length) ∧
        (pos ≥ bytes.length → ([] : List Id) = []) ∧
        ∀ k (hk : k < ([] : List Id).length),
          (if k = 0 ∧ first then c.start else c.cont)
            (slice bytes ((pos :: cuts).getD k 0) (cuts.getD k 0)) = some ([] : List Id)[k] := by
    intro pos first hp
    refine ⟨[], rfl, by simp, ?_, fun _ => rfl, ?_⟩
    · intro h; omega
    · intro k hk; simp at hk
  induction fuel generalizing pos first ts with
  | zero =>
    simp only [greedy, Except.ok.injEq] at h
    subst h
    exact stop pos first (by omega)
  | succ f ih =>
    simp only [greedy] at h
    by_cases hp : pos ≥ bytes.length
    · simp only [hp, if_true, Except.ok.injEq] at h
      subst h
      exact stop pos first hp
    · simp only [hp, if_false] at h
      cases hm : longestMatch (if first = true then c.start else c.cont) bytes pos ends with
      | none => simp [hm] at h
      | some te =>
        obtain ⟨t, e⟩ := te
        simp only [hm] at h
        cases hg : greedy c bytes ends f e false with
        | error q => simp [hg] at h
        | ok ts' =>
          simp only [hg, Except.ok.injEq] at h
          subst h
          obtain ⟨hmem, hpe, hlk⟩ := longestMatch_some _ _ _ _ _ _ hm
          have hele : e ≤ bytes.length := hends e hmem
          obtain ⟨cuts', hl, hpw, hlast, hnil, hkk⟩ := ih e false ts' (by omega) hg
          refine ⟨e :: cuts', by simp [hl], ?_, ?_, ?_, ?_⟩
          · rw [List.pairwise_cons]
            refine ⟨?_, hpw⟩
            intro a ha
            rcases List.mem_cons.mp ha with rfl | ha
            · exact hpe
            · have := (List.pairwise_cons.mp hpw).1 a ha; omega
          · intro _
            rw [List.getLast?_cons_cons]
            by_cases hlt : e < bytes.length
            · exact hlast hlt
            · have hts : ts' = [] := hnil (by omega)
              subst hts
              have hc : cuts' = [] := List.eq_nil_of_length_eq_zero (by simpa using hl)
              subst hc
              have : e = bytes.length := by omega
              simp [this]
          · intro hge; omega
          · intro k hk
            cases k with
            | zero => simpa using hlk
            | succ k =>
              have hk' : k < ts'.length := by simpa using hk
              have := hkk k hk'
              simpa using this

/-! ## Non-vacuity: the encoder on a tiny vocabulary -/

section Examples

/-- Explicit bytes (the kernel does not evaluate `String.toUTF8`). -/
private def bUn : Bytes := [117, 110]
private def bA : Bytes := [97]
private def bAff : Bytes := [97, 102, 102]
private def bAble : Bytes := [97, 98, 108, 101]
private def bUnaffable : Bytes := [117, 110, 97, 102, 102, 97, 98, 108, 101]
private def bUnaffablex : Bytes := [117, 110, 97, 102, 102, 97, 98, 108, 101, 120]
private def bAffable : Bytes := [97, 102, 102, 97, 98, 108, 101]

private def exCtx (fb : List Fallback) : WpCtx where
  start := fun b => if b = bUn then some 1 else if b = bA then some 4 else none
  cont := fun b => if b = bAff then some 2 else if b = bAble then some 3 else none
  unknown := some 100
  fallback := fb
  maxWordChars := 0
  maxTok := 4
  minTok := 1

private theorem idx_unaffable : ((charIndices bUnaffable).map fun (s, e, _) => (s, e)) =
    [(0, 1), (1, 2), (2, 3), (3, 4), (4, 5), (5, 6), (6, 7), (7, 8), (8, 9)] := by
  simp [bUnaffable, charIndices, charIndicesFrom, decodeOne]

private theorem idx_unaffablex : ((charIndices bUnaffablex).map fun (s, e, _) => (s, e)) =
    [(0, 1), (1, 2), (2, 3), (3, 4), (4, 5), (5, 6), (6, 7), (7, 8), (8, 9), (9, 10)] := by
  simp [bUnaffablex, charIndices, charIndicesFrom, decodeOne]

private theorem idx_affable : ((charIndices bAffable).map fun (s, e, _) => (s, e)) =
    [(0, 1), (1, 2), (2, 3), (3, 4), (4, 5), (5, 6), (6, 7)] := by
  simp [bAffable, charIndices, charIndicesFrom, decodeOne]

/-- "unaffable" → un ##aff ##able. -/
example : encodeWord (exCtx [.unknown]) bUnaffable = .ok [1, 2, 3] := by
  simp only [encodeWord]; rw [idx_unaffable]; decide
/-- A failing word rolls back to the single unknown id (the three matched pieces are dropped). -/
example : encodeWord (exCtx [.unknown]) bUnaffablex = .ok [100] := by
  simp only [encodeWord]; rw [idx_unaffablex]; decide
/-- With `Skip` the failing word yields nothing; with no fallback it is an error carrying the rest ("x"). -/
example : encodeWord (exCtx [.skip]) bUnaffablex = .ok [] := by
  simp only [encodeWord]; rw [idx_unaffablex]; decide
example : encodeWord (exCtx []) bUnaffablex = .err (.invalidPiece [120]) := by
  simp only [encodeWord]; rw [idx_unaffablex]; decide
/-- Longest match first, no backtracking: "a" is word-initial, then neither "ffable" … "f" is a
    continuation entry, so "affable" fails as a whole. -/
example : encodeWord (exCtx [.unknown]) bAffable = .ok [100] := by
  simp only [encodeWord]; rw [idx_affable]; decide
/-- The guard: a word shorter than `minTok` fails without any lookup. -/
example : encodeWord { exCtx [.unknown] with minTok := 2 } bA = .ok [100] := by
  simp only [encodeWord]; decide
/-- A multi-byte character is one unit: "é" (2 bytes) is never cut in the middle. -/
example : charEnds [97, 0xC3, 0xA9] = [1, 3] := by
  simp [charEnds, charIndices, charIndicesFrom, decodeOne, isCont]

/-- The hypotheses of `greedy_spells` are satisfiable: a successful greedy run (cuts 2, 5, 9). -/
example : greedy (exCtx []) bUnaffable [1, 2, 3, 4, 5, 6, 7, 8, 9] 10 0 true = .ok [1, 2, 3] := by rfl

end Examples

end Kitoken.Proofs.WordPiece
