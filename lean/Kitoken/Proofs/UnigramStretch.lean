/-
  C04 / C06, continuation: the encodable stretches around unreachable positions.

  The walk rendered by `encodeUnigram` (`unigram_walk`) is traced through the nodes of the merged
  buffer (`NWalk`): an entry item from node `i` to node `j` has `F[j].score = F[i].score - sc`, a hole
  ending at node `j` has `F[j].score = Cost.big`, node 0 has `Cost.zero`. A run of entries that starts
  at node 0 or after a hole therefore carries `runCost base run` at its end, and `merged_opt`
  bounds that node's score by every segmentation of the same text accumulated from `base`.
-/
import Kitoken.Proofs.UnigramLemmas
namespace Kitoken.Proofs.UnigramStretch

open Kitoken Kitoken.Unigram Kitoken.Spec Kitoken.Proofs.Unigram

variable {S : Type} [Cost S] [Inhabited S]

set_option linter.unusedSectionVars false

/-- The back-walk traced through the nodes of the merged buffer `F`: the items, in text order, that
    lead from node 0 to node `j`, with what `F` stores at the end of every item. -/
inductive NWalk (c : UniCtx S) (piece : Bytes) (B : List Nat) (F : List (SizedPart S)) :
    Nat → List Item → Prop
  | zero : NWalk c piece B F 0 []
  | entry {i j : Nat} {items : List Item} {sc : S} :
      i < j → j < B.length →
      c.tok (slice piece (B.getD i 0) (B.getD j 0)) = some ((F.getD j default).token, sc) →
      (F.getD j default).score = Cost.sub (F.getD i default).score sc →
      NWalk c piece B F i items →
      NWalk c piece B F j
        (items ++ [Item.entry (slice piece (B.getD i 0) (B.getD j 0)) (F.getD j default).token])
  | hole {j : Nat} {items : List Item} :
      1 ≤ j → j < B.length → (F.getD j default).score = Cost.big →
      NWalk c piece B F (j - 1) items →
      NWalk c piece B F j (items ++ [Item.hole (slice piece (B.getD (j - 1) 0) (B.getD j 0))])

/-- `backWalk_walk` with the node trace added to the conclusion. -/
theorem backWalk_nwalk (c : UniCtx S) (fb : List Fallback) (byteRec : Option (UniFn S)) (piece : Bytes)
    (B : List Nat) (F : List (SizedPart S))
    (hb : BInfo piece.length B) (h0 : B.getD 0 0 = 0) (hM : Merged c piece B F)
    (hrf : RecFor c fb byteRec) :
    ∀ fuel j buf res, j < fuel → j < B.length → (∃ ext, buf = F ++ ext) →
      ∃ items, IsWalk c.tok piece B 0 (B.getD j 0) items ∧ NWalk c piece B F j items ∧
        match renderWalk c fb items with
        | .ok ids => ∃ buf', backWalk c fb byteRec piece 0 fuel j buf res = .ok (buf', res ++ ids.reverse)
        | .err e => backWalk c fb byteRec piece 0 fuel j buf res = .err e
        | .panic p => backWalk c fb byteRec piece 0 fuel j buf res = .panic p := by
  intro fuel
  induction fuel with
  | zero => intro j _ _ h; omega
  | succ fuel ih =>
    intro j buf res hjf hj hext
    obtain ⟨ext, hbuf⟩ := hext
    rw [backWalk_succ]
    by_cases hj0 : j = 0
    · subst hj0
      refine ⟨[], by simp only [IsWalk]; exact h0.symm, NWalk.zero, ?_⟩
      simp [renderWalk]
    · have hjpos : j > 0 := by omega
      have hnode : buf.getD j default = F.getD j default := by
        rw [hbuf]; exact getD_append_left' F ext default j (by rw [hM.len]; exact hj)
      have hprev : buf.getD (j - 1) default = F.getD (j - 1) default := by
        rw [hbuf]; exact getD_append_left' F ext default (j - 1) (by rw [hM.len]; omega)
      rw [if_pos hjpos, hnode, hprev, hM.start j hj, hM.start (j - 1) (by omega)]
      by_cases htok : (F.getD j default).token = INVALID
      · obtain ⟨hw, hbig, hnone⟩ := hM.unset j (by omega) hj htok
        have h1 : ((F.getD j default).token == INVALID) = true := by rw [htok]; simp
        have h2 : ¬ (1 > j) := by omega
        rw [if_pos h1, hw, holeStep_lift c fb byteRec hrf.offs]
        simp only [h2, if_false]
        have hnw : ∀ items', NWalk c piece B F (j - 1) items' →
            NWalk c piece B F j (items' ++ [Item.hole (slice piece (B.getD (j - 1) 0) (B.getD j 0))]) :=
          fun items' h => NWalk.hole (by omega) hj hbig h
        generalize hpart : slice piece (B.getD (j - 1) 0) (B.getD j 0) = part at hnw
        have hhole : IsWalk c.tok piece B (B.getD (j - 1) 0) (B.getD j 0) [Item.hole part] := by
          simp only [IsWalk]
          refine ⟨B.getD j 0, getD_mem hj, hb.lt (j - 1) j (by omega) hj, Nat.le_refl _, hpart.symm, ?_, ?_, rfl⟩
          · intro x hx ⟨hx1, hx2⟩
            obtain ⟨k, hk, rfl⟩ := mem_getD hx
            have := hb.lt_of_lt (j - 1) k (by omega) hk hx1
            have := hb.lt_of_lt k j hk hj hx2
            omega
          · intro x hx hx1
            obtain ⟨k, hk, rfl⟩ := mem_getD hx
            exact hnone k (hb.lt_of_lt k j hk hj hx1)
        have hr := holeStep_render c fb byteRec hrf part
        cases hrh : renderHole c fb part with
        | ok ids =>
          rw [hrh] at hr
          obtain ⟨ext', hH0⟩ := hr
          rw [hH0]
          simp only [lift]
          obtain ⟨items', hw', hn', hrender'⟩ :=
            ih (j - 1) (buf ++ ext') (res ++ ids.reverse) (by omega) (by omega)
              ⟨ext ++ ext', by rw [hbuf, List.append_assoc]⟩
          refine ⟨items' ++ [Item.hole part], isWalk_append _ _ _ _ _ _ _ _
            (hb.le (j - 1) j (by omega) hj) hw' hhole, hnw _ hn', ?_⟩
          rw [renderWalk_snoc]
          simp only [renderItem, hrh]
          generalize renderWalk c fb items' = rw' at hrender' ⊢
          cases rw' with
          | ok h =>
            obtain ⟨buf', hbw⟩ := hrender'
            exact ⟨buf', by rw [hbw]; simp⟩
          | err e => exact hrender'
          | panic p => exact hrender'
        | err e =>
          rw [hrh] at hr
          rw [hr]
          simp only [lift]
          obtain ⟨items', hw', hn', _⟩ := ih (j - 1) buf res (by omega) (by omega) ⟨ext, hbuf⟩
          refine ⟨items' ++ [Item.hole part], isWalk_append _ _ _ _ _ _ _ _
            (hb.le (j - 1) j (by omega) hj) hw' hhole, hnw _ hn', ?_⟩
          rw [renderWalk_snoc]
          simp only [renderItem, hrh]
        | panic p =>
          rw [hrh] at hr
          rw [hr]
          simp only [lift]
          obtain ⟨items', hw', hn', _⟩ := ih (j - 1) buf res (by omega) (by omega) ⟨ext, hbuf⟩
          refine ⟨items' ++ [Item.hole part], isWalk_append _ _ _ _ _ _ _ _
            (hb.le (j - 1) j (by omega) hj) hw' hhole, hnw _ hn', ?_⟩
          rw [renderWalk_snoc]
          simp only [renderItem, hrh]
      · obtain ⟨i, hi, sc, htokeq, hwd, hscore⟩ := hM.set j (by omega) hj htok
        have h1 : ¬ ((F.getD j default).token == INVALID) = true := by rw [beq_iff_eq]; exact htok
        have h2 : ¬ (j - i > j) := by omega
        have h3 : j - (j - i) = i := by omega
        rw [if_neg h1, hwd, if_neg h2, h3]
        obtain ⟨items', hw', hn', hrender'⟩ :=
          ih i buf (res ++ [(F.getD j default).token]) (by omega) (by omega) ⟨ext, hbuf⟩
        have hentry : IsWalk c.tok piece B (B.getD i 0) (B.getD j 0)
            [Item.entry (slice piece (B.getD i 0) (B.getD j 0)) (F.getD j default).token] := by
          simp only [IsWalk]
          exact ⟨B.getD j 0, getD_mem hj, hb.lt i j hi hj, Nat.le_refl _, rfl, ⟨sc, htokeq⟩, rfl⟩
        refine ⟨items' ++ [Item.entry (slice piece (B.getD i 0) (B.getD j 0)) (F.getD j default).token],
          isWalk_append _ _ _ _ _ _ _ _ (hb.le i j (by omega) hj) hw' hentry,
          NWalk.entry hi hj htokeq hscore hn', ?_⟩
        rw [renderWalk_snoc]
        simp only [renderItem]
        generalize renderWalk c fb items' = rw' at hrender' ⊢
        cases rw' with
        | ok h =>
          obtain ⟨buf', hbw⟩ := hrender'
          exact ⟨buf', by rw [hbw]; simp⟩
        | err e => exact hrender'
        | panic p => exact hrender'

/-! ### What a node trace says about its prefixes and runs -/

omit [Cost S] [Inhabited S] in
theorem snoc_split {α : Type} (xs A R : List α) (x : α) (h : xs ++ [x] = A ++ R) :
    (R = [] ∧ A = xs ++ [x]) ∨ ∃ R', R = R' ++ [x] ∧ xs = A ++ R' := by
  rcases List.eq_nil_or_concat R with hR | ⟨R', y, hR⟩
  · subst hR
    exact Or.inl ⟨rfl, by simpa using h.symm⟩
  · subst hR
    rw [List.concat_eq_append, ← List.append_assoc] at h
    obtain ⟨h1, h2⟩ := List.append_inj' h rfl
    cases h2
    exact Or.inr ⟨R', by simp, h1⟩

theorem nwalk_lt (c : UniCtx S) (piece : Bytes) (B : List Nat) (F : List (SizedPart S))
    (hpos : 0 < B.length) (j : Nat) (items : List Item) (h : NWalk c piece B F j items) :
    j < B.length := by
  cases h with
  | zero => exact hpos
  | entry _ hj _ _ _ => exact hj
  | hole _ hj _ _ => exact hj

/-- The text position of the node a trace ends at is the length of the bytes of its items. -/
theorem nwalk_pos (c : UniCtx S) (piece : Bytes) (B : List Nat) (F : List (SizedPart S))
    (hb : BInfo piece.length B) (h0 : B.getD 0 0 = 0) (j : Nat) (items : List Item)
    (h : NWalk c piece B F j items) :
    (items.flatMap Item.bytes).length = B.getD j 0 := by
  induction h with
  | zero => rw [h0]; rfl
  | @entry i j items sc hi hj _ _ _ ih =>
    have h1 := hb.lt i j hi hj
    have h2 := hb.le_len j hj
    simp only [List.flatMap_append, List.length_append, ih, List.flatMap_cons, List.flatMap_nil,
      List.append_nil, Item.bytes, slice_length _ _ _ h2]
    omega
  | @hole j items hj1 hj _ _ ih =>
    have h1 := hb.lt (j - 1) j (by omega) hj
    have h2 := hb.le_len j hj
    simp only [List.flatMap_append, List.length_append, ih, List.flatMap_cons, List.flatMap_nil,
      List.append_nil, Item.bytes, slice_length _ _ _ h2]
    omega

omit [Inhabited S] in
theorem runCost_snoc (tok : Bytes → Option (Id × S)) (base : S) (R : List Item) (b : Bytes) (id : Id) :
    runCost tok base (R ++ [Item.entry b id]) =
      (match tok b with | some (_, sc) => Cost.sub (runCost tok base R) sc | none => runCost tok base R) := by
  unfold runCost
  rw [List.foldl_append]
  simp only [List.foldl_cons, List.foldl_nil]
  rcases tok b with _ | ⟨_, _⟩ <;> rfl

omit [Cost S] [Inhabited S] in
theorem allEntries_snoc (R : List Item) (x : Item) (h : AllEntries (R ++ [x])) :
    AllEntries R ∧ ∃ b id, x = Item.entry b id :=
  ⟨fun it hit => h it (by simp [hit]), h x (by simp)⟩

/-- A run of entries at the end of a trace: the trace of what precedes it ends at a node `a`, and the
    score of the last node is the run's cost accumulated from the score of `a`. -/
theorem nwalk_run (c : UniCtx S) (piece : Bytes) (B : List Nat) (F : List (SizedPart S))
    (m : Nat) (items : List Item) (h : NWalk c piece B F m items) :
    ∀ A R, items = A ++ R → AllEntries R →
      ∃ a, a ≤ m ∧ NWalk c piece B F a A ∧
        (F.getD m default).score = runCost c.tok (F.getD a default).score R := by
  induction h with
  | zero =>
    intro A R hAR _
    have h1 : A = [] := by
      cases A with
      | nil => rfl
      | cons x xs => simp at hAR
    have h2 : R = [] := by
      cases R with
      | nil => rfl
      | cons x xs => simp [h1] at hAR
    subst h1; subst h2
    exact ⟨0, Nat.le_refl _, NWalk.zero, rfl⟩
  | @entry i j items sc hi hj htok hscore hn ih =>
    intro A R hAR hall
    rcases snoc_split _ _ _ _ hAR with ⟨hR, hA⟩ | ⟨R', hR, hitems⟩
    · subst hR; subst hA
      exact ⟨j, Nat.le_refl _, NWalk.entry hi hj htok hscore hn, rfl⟩
    · subst hR
      obtain ⟨a, ha, hna, hsc⟩ := ih A R' hitems (allEntries_snoc _ _ hall).1
      refine ⟨a, by omega, hna, ?_⟩
      rw [runCost_snoc, htok]
      simp only
      rw [hscore, hsc]
  | @hole j items hj1 hj hbig hn ih =>
    intro A R hAR hall
    rcases snoc_split _ _ _ _ hAR with ⟨hR, hA⟩ | ⟨R', hR, hitems⟩
    · subst hR; subst hA
      exact ⟨j, Nat.le_refl _, NWalk.hole hj1 hj hbig hn, rfl⟩
    · subst hR
      obtain ⟨b, id, hx⟩ := (allEntries_snoc _ _ hall).2
      cases hx

/-- Every prefix of a trace is a trace. -/
theorem nwalk_prefix (c : UniCtx S) (piece : Bytes) (B : List Nat) (F : List (SizedPart S))
    (j : Nat) (items : List Item) (h : NWalk c piece B F j items) :
    ∀ X C, items = X ++ C → ∃ m, m ≤ j ∧ NWalk c piece B F m X := by
  induction h with
  | zero =>
    intro X C hXC
    have h1 : X = [] := by
      cases X with
      | nil => rfl
      | cons x xs => simp at hXC
    subst h1
    exact ⟨0, Nat.le_refl _, NWalk.zero⟩
  | @entry i j items sc hi hj htok hscore hn ih =>
    intro X C hXC
    rcases snoc_split _ _ _ _ hXC with ⟨_, hX⟩ | ⟨C', _, hitems⟩
    · subst hX
      exact ⟨j, Nat.le_refl _, NWalk.entry hi hj htok hscore hn⟩
    · obtain ⟨m, hm, hnm⟩ := ih X C' hitems
      exact ⟨m, by omega, hnm⟩
  | @hole j items hj1 hj hbig hn ih =>
    intro X C hXC
    rcases snoc_split _ _ _ _ hXC with ⟨_, hX⟩ | ⟨C', _, hitems⟩
    · subst hX
      exact ⟨j, Nat.le_refl _, NWalk.hole hj1 hj hbig hn⟩
    · obtain ⟨m, hm, hnm⟩ := ih X C' hitems
      exact ⟨m, by omega, hnm⟩

/-- The score at the start of a run: `Cost.zero` at the beginning of the piece, `Cost.big` after a hole. -/
theorem nwalk_base (c : UniCtx S) (piece : Bytes) (B : List Nat) (F : List (SizedPart S))
    (hzero : F.getD 0 default = fresh (B.getD 0 0))
    (a : Nat) (A : List Item) (h : NWalk c piece B F a A)
    (hA : A = [] ∨ ∃ A' hb, A = A' ++ [Item.hole hb]) :
    (F.getD a default).score = (if A.isEmpty then Cost.zero else Cost.big) := by
  cases h with
  | zero => rw [hzero]; rfl
  | @entry i j items sc hi hj htok hscore hn =>
    rcases hA with hA | ⟨A', hbytes, hA⟩
    · simp at hA
    · have := (List.append_inj' hA rfl).2
      cases this
  | @hole j items hj1 hj hbig hn =>
    rw [hbig]
    simp

/-! ### The lower bound -/

omit [Inhabited S] in
theorem segCostFrom_cons (base : S) (e : Entry S) (rest : List (Entry S)) :
    segCostFrom base (e :: rest) = segCostFrom (Cost.sub base e.score) rest := rfl

/-- Every segmentation of the text between two nodes, accumulated from a value at or above the score of
    the first node, costs at least the score of the second node. -/
theorem seg_lower [LawfulCost S] (c : UniCtx S) (piece : Bytes) (B : List Nat) (F : List (SizedPart S))
    (hb : BInfo piece.length B)
    (hopt : ∀ j, 1 ≤ j → j < B.length → ∀ i, i < j → ∀ id sc,
      c.tok (slice piece (B.getD i 0) (B.getD j 0)) = some (id, sc) →
      Cost.le (F.getD j default).score (Cost.sub (F.getD i default).score sc) = true)
    (m : Nat) (hm : m < B.length) :
    ∀ (s' : List (Entry S)) (i : Nat) (x : S), i < B.length →
      Cost.le (F.getD i default).score x = true →
      IsSegFrom c.tok piece B (B.getD i 0) (B.getD m 0) s' →
      Cost.le (F.getD m default).score (segCostFrom x s') = true := by
  intro s'
  induction s' with
  | nil =>
    intro i x hi hx hseg
    simp only [IsSegFrom] at hseg
    have him : i = m := by
      rcases Nat.lt_trichotomy i m with h | h | h
      · have := hb.lt i m h hm; omega
      · exact h
      · have := hb.lt m i h hi; omega
    subst him
    exact hx
  | cons e rest ih =>
    intro i x hi hx hseg
    simp only [IsSegFrom] at hseg
    obtain ⟨mid, q1, q2, q3, q4, ⟨sc, q5, q5'⟩, q6⟩ := hseg
    obtain ⟨k, hk, rfl⟩ := mem_getD q1
    have hik : i < k := hb.lt_of_lt i k hi hk q2
    rw [segCostFrom_cons]
    apply ih k (Cost.sub x e.score) hk _ q6
    subst q5'
    have h1 := hopt k (by omega) hk i hik e.id e.score (by rw [← q4]; exact q5)
    exact LawfulCost.le_trans _ _ _ h1 (LawfulCost.sub_mono _ _ _ hx)

/-- The stretch property for a node trace. -/
theorem nwalk_stretch [LawfulCost S] (c : UniCtx S) (piece : Bytes) (B : List Nat) (F : List (SizedPart S))
    (hb : BInfo piece.length B) (h0 : B.getD 0 0 = 0)
    (hzero : F.getD 0 default = fresh (B.getD 0 0))
    (hopt : ∀ j, 1 ≤ j → j < B.length → ∀ i, i < j → ∀ id sc,
      c.tok (slice piece (B.getD i 0) (B.getD j 0)) = some (id, sc) →
      Cost.le (F.getD j default).score (Cost.sub (F.getD i default).score sc) = true)
    (j : Nat) (items : List Item) (h : NWalk c piece B F j items)
    (A R C : List Item) (hsplit : items = A ++ R ++ C) (hall : AllEntries R)
    (hA : A = [] ∨ ∃ A' hb, A = A' ++ [Item.hole hb])
    (s' : List (Entry S))
    (hseg : IsSegFrom c.tok piece B (A.flatMap Item.bytes).length ((A ++ R).flatMap Item.bytes).length s') :
    Cost.le (runCost c.tok (if A.isEmpty then Cost.zero else Cost.big) R)
      (segCostFrom (if A.isEmpty then Cost.zero else Cost.big) s') = true := by
  obtain ⟨m, _, hnm⟩ := nwalk_prefix c piece B F j items h (A ++ R) C hsplit
  obtain ⟨a, _, hna, hscore⟩ := nwalk_run c piece B F m (A ++ R) hnm A R rfl hall
  have hbase := nwalk_base c piece B F hzero a A hna hA
  rw [nwalk_pos c piece B F hb h0 a A hna, nwalk_pos c piece B F hb h0 m (A ++ R) hnm] at hseg
  rw [hbase] at hscore
  rw [← hscore]
  apply seg_lower c piece B F hb hopt m (nwalk_lt c piece B F hb.pos m _ hnm) s' a _
    (nwalk_lt c piece B F hb.pos a _ hna) _ hseg
  rw [hbase]
  exact LawfulCost.le_refl _

/-- `unigram_walk`, and in the walk every run of vocabulary entries that starts at the beginning of the
    piece or directly after a hole is a cheapest segmentation of the text it covers, accumulated from the
    value the run starts with. -/
theorem unigram_stretch_optimal [LawfulCost S] (c : UniCtx S) (fb : List Fallback) (piece : Bytes)
    (indices : List Nat) (pre : List (SizedPart S)) (res0 : List Id)
    (hb : UnitBounds piece.length (indices ++ [piece.length]))
    (h0 : (indices ++ [piece.length]).head? = some 0)
    (hid : ∀ b id sc, c.tok b = some (id, sc) → id ≠ INVALID)
    (hmax : ∀ b id sc, c.tok b = some (id, sc) → b.length ≤ c.maxTok) :
    ∃ items, IsWalk c.tok piece (indices ++ [piece.length]) 0 piece.length items ∧
      (match renderWalk c fb items with
        | .ok ids => ∃ buffer', encodeUnigram c fb piece pre res0 indices = .ok (buffer', res0 ++ ids) ∧
                       buffer'.take pre.length = pre
        | .err e => encodeUnigram c fb piece pre res0 indices = .err e
        | .panic p => encodeUnigram c fb piece pre res0 indices = .panic p) ∧
      ∀ (A R C : List Item), items = A ++ R ++ C → AllEntries R →
        (A = [] ∨ ∃ A' h, A = A' ++ [Item.hole h]) →
        ∀ s', IsSegFrom c.tok piece (indices ++ [piece.length])
            (A.flatMap Item.bytes).length ((A ++ R).flatMap Item.bytes).length s' →
          Cost.le (runCost c.tok (if A.isEmpty then Cost.zero else Cost.big) R)
                  (segCostFrom (if A.isEmpty then Cost.zero else Cost.big) s') = true := by
  have hbi := BInfo.of_unitBounds hb
  have hM := merged_of c piece _ hbi hid hmax
  have hopt := merged_opt c piece _ hbi hid hmax
  obtain ⟨r, hrf, heq⟩ := encodeUnigram_nil c fb piece indices
  obtain ⟨items, hwalk, hnw, hrender⟩ := backWalk_nwalk c fb r piece _ _ hbi (head_getD h0) hM hrf
    (indices.length + 1) indices.length
    (mergeParts c piece ((indices ++ [piece.length]).map fresh) 0) [] (by omega) (by simp)
    ⟨[], by simp⟩
  have hlast : (indices ++ [piece.length]).getD indices.length 0 = piece.length := by simp
  rw [hlast] at hwalk
  refine ⟨items, hwalk, ?_, ?_⟩
  · rw [encodeUnigram_offs c fb piece pre res0 indices, heq]
    generalize renderWalk c fb items = rw' at hrender ⊢
    cases rw' with
    | ok ids =>
      obtain ⟨buf', hbw⟩ := hrender
      simp only at hbw ⊢
      rw [hbw]
      exact ⟨pre ++ buf', by simp [lift], by simp⟩
    | err e => simp only at hrender ⊢; rw [hrender]; rfl
    | panic p => simp only at hrender ⊢; rw [hrender]; rfl
  · intro A R C hsplit hall hA s' hseg
    exact nwalk_stretch c piece _ _ hbi (head_getD h0) hM.zero hopt indices.length items hnw
      A R C hsplit hall hA s' hseg

/-! ### A concrete instance -/

namespace Examples

/-- Vocabulary over "bc": `b ↦ (0, -1)`, `c ↦ (1, -1)`, `bc ↦ (2, -3)`. -/
def tokX : Bytes → Option (Id × Int) := fun b =>
  if b = [98] then some (0, -1) else if b = [99] then some (1, -1)
  else if b = [98, 99] then some (2, -3) else none

def ctxX : UniCtx Int := { tok := tokX, unknown := some 9, fallback := [], maxTok := 2, minTok := 1 }

def outIds (r : Res (Scratch Int)) : Option (List Id) :=
  match r with | .ok (_, ids) => some ids | _ => none

/-- The piece "Xbc" under `[Unknown]`: the walk is hole X, b, c; the run after the hole starts from the
    restart value, b, c costs 1000002 and the other segmentation of its text, bc, costs 1000003. -/
theorem stretch_example :
    outIds (encodeUnigram ctxX [.unknown] [88, 98, 99] [] [] [0, 1, 2]) = some [9, 0, 1] := by
  decide

end Examples

end Kitoken.Proofs.UnigramStretch
