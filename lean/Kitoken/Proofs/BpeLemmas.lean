/-
  Helper lemmas for C03 (Kitoken/Theorems/C03.lean).

  Plan: both strategies keep a state that is a function of the current boundary list `ss`
  (`canon ss` for the linear scratch buffer at offset 0, `canonH ss` for the heap nodes); one iteration
  erases the boundary `k + 1`, where `k` is the leftmost minimum (`pick`) of the pair ranks `ssRanks ss`
  below `MAXR`; erasing a boundary is `Spec.mergeAt` on the segments. The scratch-buffer prefix is handled
  by offset lemmas (`*_append`). Ranks `≥ MAXR` are never selected by the code, so the general results
  (`linear_gen`, `heap_gen`) are stated for the ranks clamped at `MAXR` (`clampRk`); they specialise to
  `rankOf c` when all ranks are `≤ MAXR` (always the case for the Rust `u32` ranks).
-/
import Kitoken.Spec.Bpe
namespace Kitoken.Proofs.Bpe

open Kitoken Kitoken.Bpe Kitoken.Spec

/-! ### slices -/

theorem slice_append {α} (l : List α) (a b d : Nat) (h1 : a ≤ b) (h2 : b ≤ d) :
    slice l a b ++ slice l b d = slice l a d := by
  unfold slice
  have e1 : d - a = (b - a) + (d - b) := by omega
  have e2 : l.drop b = (l.drop a).drop (b - a) := by
    rw [List.drop_drop]; congr 1; omega
  rw [e1, e2, List.take_add]

/-! ### `bpeSpec` unfolding, fixpoint, flatten -/

theorem bpeSpec_eq (rk : Bytes → Nat) (segs : List Bytes) :
    bpeSpec rk segs =
      match bestPair rk segs with
      | none => segs
      | some (i, r) => if r = MAXR then segs else bpeSpec rk (mergeAt i segs) := by
  rw [bpeSpec]
  split <;> rename_i h <;> simp [h]

theorem mergeAt_flatten (i : Nat) (l : List Bytes) : (mergeAt i l).flatten = l.flatten := by
  fun_induction mergeAt i l <;> simp_all

theorem spec_fixpoint (rk : Bytes → Nat) (segs : List Bytes) :
    (∀ i r, bestPair rk (bpeSpec rk segs) = some (i, r) → r = MAXR) ∧
    (bpeSpec rk segs).flatten = segs.flatten := by
  fun_induction bpeSpec rk segs with
  | case1 segs h => simp [h]
  | case2 segs i h =>
    refine ⟨?_, rfl⟩
    intro i' r' h'
    rw [h] at h'
    simp at h'
    omega
  | case3 segs i r h hr ih =>
    refine ⟨ih.1, ?_⟩
    rw [ih.2, mergeAt_flatten]


/-! ### leftmost minimum of a list of ranks -/

/-- Leftmost position of the smallest element, with that element. -/
def bestOf : List Nat → Option (Nat × Nat)
  | [] => none
  | r :: rest =>
    match bestOf rest with
    | some (i, r') => if r' < r then some (i + 1, r') else some (0, r)
    | none => some (0, r)

def pairRanks (rk : Bytes → Nat) : List Bytes → List Nat
  | a :: b :: rest => rk (a ++ b) :: pairRanks rk (b :: rest)
  | _ => []

theorem bestPair_eq (rk : Bytes → Nat) (segs : List Bytes) :
    bestPair rk segs = bestOf (pairRanks rk segs) := by
  induction segs with
  | nil => rfl
  | cons a t ih =>
    cases t with
    | nil => rfl
    | cons b rest =>
      simp only [bestPair, pairRanks, bestOf, ← ih, pairRank]
      rcases bestPair rk (b :: rest) with _ | ⟨i, r⟩ <;> rfl

theorem bestOf_eq_none (l : List Nat) : bestOf l = none ↔ l = [] := by
  cases l with
  | nil => simp [bestOf]
  | cons r rest =>
    simp only [bestOf]
    split
    · split <;> simp
    · simp

theorem bestOf_getElem (l : List Nat) (k r : Nat) (h : bestOf l = some (k, r)) : l[k]? = some r := by
  induction l generalizing k r with
  | nil => simp [bestOf] at h
  | cons x rest ih =>
    simp only [bestOf] at h
    split at h
    · rename_i j r' hb
      split at h
      · simp only [Option.some.injEq, Prod.mk.injEq] at h
        obtain ⟨rfl, rfl⟩ := h
        simpa using ih j r' hb
      · simp only [Option.some.injEq, Prod.mk.injEq] at h
        obtain ⟨rfl, rfl⟩ := h
        simp
    · simp only [Option.some.injEq, Prod.mk.injEq] at h
      obtain ⟨rfl, rfl⟩ := h
      simp

theorem bestOf_lt (l : List Nat) (k r : Nat) (h : bestOf l = some (k, r)) : k < l.length := by
  have := bestOf_getElem l k r h
  exact (List.getElem?_eq_some_iff.mp this).1

/-- Appending a sentinel `M`. -/
theorem bestOf_append_single (l : List Nat) (M : Nat) :
    bestOf (l ++ [M]) =
      match bestOf l with
      | some (k, r) => if r ≤ M then some (k, r) else some (l.length, M)
      | none => some (0, M) := by
  induction l with
  | nil => simp [bestOf]
  | cons x rest ih =>
    simp only [List.cons_append, bestOf, ih]
    cases hb : bestOf rest with
    | none =>
      have : rest = [] := (bestOf_eq_none rest).mp hb
      subst this
      by_cases h1 : M < x <;> by_cases h2 : x ≤ M <;> simp [h1, h2] <;> omega
    | some p =>
      obtain ⟨k, r⟩ := p
      simp only [List.length_cons]
      by_cases h0 : r ≤ M <;> by_cases h1 : r < x <;> by_cases h2 : M < x <;> by_cases h3 : x ≤ M <;>
        simp [h0, h1, h2, h3] <;> omega

/-- Clamping all ranks at `M`. -/
theorem bestOf_map_min (l : List Nat) (M : Nat) :
    bestOf (l.map (fun r => min r M)) =
      match bestOf l with
      | some (k, r) => if r < M then some (k, r) else some (0, M)
      | none => none := by
  induction l with
  | nil => simp [bestOf]
  | cons x rest ih =>
    simp only [List.map_cons, bestOf, ih]
    cases hb : bestOf rest with
    | none =>
      by_cases h1 : x < M <;> simp [h1] <;> omega
    | some p =>
      obtain ⟨k, r⟩ := p
      simp only [Nat.lt_min]
      grind

/-- The selection both strategies make: leftmost minimum, provided it is below the threshold. -/
def pick (M : Nat) (l : List Nat) : Option (Nat × Nat) :=
  match bestOf l with
  | some (k, r) => if r < M then some (k, r) else none
  | none => none

theorem pick_some (M : Nat) (l : List Nat) (k r : Nat) (h : pick M l = some (k, r)) :
    bestOf l = some (k, r) ∧ r < M := by
  unfold pick at h
  split at h
  · split at h
    · simp only [Option.some.injEq, Prod.mk.injEq] at h
      obtain ⟨rfl, rfl⟩ := h
      exact ⟨by assumption, by assumption⟩
    · simp at h
  · simp at h

theorem pick_append_single (M : Nat) (l : List Nat) : pick M (l ++ [M]) = pick M l := by
  unfold pick
  rw [bestOf_append_single]
  cases bestOf l with
  | none => simp
  | some p =>
    obtain ⟨k, r⟩ := p
    by_cases h0 : r ≤ M <;> by_cases h1 : r < M <;> simp [h0, h1] <;> omega

theorem pick_none_append (M : Nat) (l : List Nat) (h : pick M l = none) :
    ∃ k, bestOf (l ++ [M]) = some (k, M) := by
  unfold pick at h
  rw [bestOf_append_single]
  cases hb : bestOf l with
  | none => exact ⟨0, rfl⟩
  | some p =>
    obtain ⟨k, r⟩ := p
    rw [hb] at h
    simp only at h
    by_cases h1 : r < M
    · simp [h1] at h
    · by_cases h0 : r ≤ M
      · have : r = M := by omega
        subst this
        exact ⟨k, by simp⟩
      · exact ⟨l.length, by simp [h0]⟩

/-! ### the specification in terms of `pick` -/

/-- Ranks clamped at `MAXR` (the code never distinguishes ranks `≥ MAXR`). -/
def clampRk (rk : Bytes → Nat) : Bytes → Nat := fun b => min (rk b) MAXR

theorem pairRanks_clamp (rk : Bytes → Nat) (segs : List Bytes) :
    pairRanks (clampRk rk) segs = (pairRanks rk segs).map (fun r => min r MAXR) := by
  fun_induction pairRanks rk segs with
  | case1 a b rest ih => simp [pairRanks, ih, clampRk]
  | case2 l h =>
    unfold pairRanks
    split
    · exact absurd rfl (h _ _ _)
    · simp

theorem spec_none (rk : Bytes → Nat) (segs : List Bytes) (h : pick MAXR (pairRanks rk segs) = none) :
    bpeSpec (clampRk rk) segs = segs := by
  rw [bpeSpec_eq, bestPair_eq, pairRanks_clamp, bestOf_map_min]
  unfold pick at h
  cases hb : bestOf (pairRanks rk segs) with
  | none => rfl
  | some p =>
    obtain ⟨k, r⟩ := p
    rw [hb] at h
    simp only at h
    by_cases h1 : r < MAXR
    · simp [h1] at h
    · simp [h1]

theorem spec_some (rk : Bytes → Nat) (segs : List Bytes) (k r : Nat)
    (h : pick MAXR (pairRanks rk segs) = some (k, r)) :
    bpeSpec (clampRk rk) segs = bpeSpec (clampRk rk) (mergeAt k segs) := by
  obtain ⟨hb, hr⟩ := pick_some _ _ _ _ h
  conv => lhs; rw [bpeSpec_eq, bestPair_eq, pairRanks_clamp, bestOf_map_min]
  rw [hb]
  have : r ≠ MAXR := by omega
  simp [hr, this]


/-! ### boundaries: ranks of adjacent pairs, erasing a boundary = merging two segments -/

/-- Pair ranks computed directly from the boundaries. -/
def ssRanks (c : BpeCtx) (piece : Bytes) : List Nat → List Nat
  | a :: b :: d :: rest => rankOf c (slice piece a d) :: ssRanks c piece (b :: d :: rest)
  | _ => []

theorem ssRanks_length (c : BpeCtx) (piece : Bytes) : ∀ ss, (ssRanks c piece ss).length = ss.length - 2
  | [] => rfl
  | [_] => rfl
  | [_, _] => rfl
  | _ :: b :: d :: rest => by
    simp [ssRanks, ssRanks_length c piece (b :: d :: rest)]

theorem pairRanks_segs (c : BpeCtx) (piece : Bytes) (len : Nat) :
    ∀ ss, Boundaries len ss → pairRanks (rankOf c) (segsOfStarts piece ss) = ssRanks c piece ss
  | [], _ => rfl
  | [_], _ => rfl
  | [_, _], _ => rfl
  | a :: b :: d :: rest, h => by
    have ih := pairRanks_segs c piece len (b :: d :: rest) h.2
    simp only [segsOfStarts] at ih ⊢
    simp only [pairRanks, ssRanks]
    rw [ih, slice_append _ _ _ _ (Nat.le_of_lt h.1) (Nat.le_of_lt h.2.1)]

theorem Boundaries_erase (len : Nat) :
    ∀ i ss, Boundaries len ss → i + 2 < ss.length → Boundaries len (ss.eraseIdx (i + 1))
  | 0, a :: b :: d :: rest, h, _ => by
    simp only [List.eraseIdx_cons_succ, List.eraseIdx_cons_zero, Boundaries] at h ⊢
    exact ⟨by omega, h.2.2⟩
  | i + 1, a :: b :: rest, h, hl => by
    have ih := Boundaries_erase len i (b :: rest) h.2 (by simp only [List.length_cons] at hl ⊢; omega)
    simp only [List.eraseIdx_cons_succ] at ih ⊢
    exact ⟨h.1, ih⟩
  | 0, [], _, hl | 0, [_], _, hl | 0, [_, _], _, hl => by simp at hl
  | _ + 1, [], _, hl | _ + 1, [_], _, hl => by simp at hl

theorem segs_erase (piece : Bytes) (len : Nat) :
    ∀ i ss, Boundaries len ss → i + 2 < ss.length →
      segsOfStarts piece (ss.eraseIdx (i + 1)) = mergeAt i (segsOfStarts piece ss)
  | 0, a :: b :: d :: rest, h, _ => by
    simp only [List.eraseIdx_cons_succ, List.eraseIdx_cons_zero, segsOfStarts, mergeAt]
    rw [slice_append _ _ _ _ (Nat.le_of_lt h.1) (Nat.le_of_lt h.2.1)]
  | i + 1, a :: b :: rest, h, hl => by
    have ih := segs_erase piece len i (b :: rest) h.2 (by simp only [List.length_cons] at hl ⊢; omega)
    simp only [List.eraseIdx_cons_succ] at ih ⊢
    simp only [segsOfStarts, mergeAt, ih]
  | 0, [], _, hl | 0, [_], _, hl | 0, [_, _], _, hl => by simp at hl
  | _ + 1, [], _, hl | _ + 1, [_], _, hl => by simp at hl

theorem ss_none (c : BpeCtx) (piece : Bytes) (len : Nat) (ss : List Nat) (hB : Boundaries len ss)
    (h : pick MAXR (ssRanks c piece ss) = none) :
    bpeSpec (clampRk (rankOf c)) (segsOfStarts piece ss) = segsOfStarts piece ss := by
  apply spec_none
  rw [pairRanks_segs c piece len ss hB]; exact h

theorem ss_some (c : BpeCtx) (piece : Bytes) (len : Nat) (ss : List Nat) (hB : Boundaries len ss)
    (k r : Nat) (h : pick MAXR (ssRanks c piece ss) = some (k, r)) :
    k + 2 < ss.length ∧ r < MAXR ∧ Boundaries len (ss.eraseIdx (k + 1)) ∧
    bpeSpec (clampRk (rankOf c)) (segsOfStarts piece ss) =
      bpeSpec (clampRk (rankOf c)) (segsOfStarts piece (ss.eraseIdx (k + 1))) := by
  have hk : k + 2 < ss.length := by
    have := bestOf_lt _ _ _ (pick_some _ _ _ _ h).1
    rw [ssRanks_length] at this; omega
  refine ⟨hk, (pick_some _ _ _ _ h).2, Boundaries_erase len k ss hB hk, ?_⟩
  rw [segs_erase piece len k ss hB hk]
  apply spec_some (r := r)
  rw [pairRanks_segs c piece len ss hB]; exact h


/-! ### linear strategy: offset lemmas (the prefix `pre` of the scratch buffer is untouched) -/

theorem getD_append_add {α} (pre l : List α) (j : Nat) (d : α) :
    (pre ++ l).getD (pre.length + j) d = l.getD j d := by
  simp [List.getD_eq_getElem?_getD, List.getElem?_append_right]

theorem getRank_append (c : BpeCtx) (piece : Bytes) (pre l : List RankedPart) (s e : Nat) :
    getRank c piece (pre ++ l) (pre.length + s) (pre.length + e) = getRank c piece l s e := by
  unfold getRank
  simp only [List.length_append, Nat.add_lt_add_iff_left, getD_append_add]

theorem setRank_append (pre l : List RankedPart) (i r : Nat) :
    setRank (pre ++ l) (pre.length + i) r = pre ++ setRank l i r := by
  unfold setRank
  rw [List.set_append_right _ _ (by omega), getD_append_add]
  simp

theorem eraseIdx_append_add {α} (pre l : List α) (i : Nat) :
    (pre ++ l).eraseIdx (pre.length + i) = pre ++ l.eraseIdx i := by
  rw [List.eraseIdx_append_of_length_le (by omega)]
  simp

theorem scanMin_append (pre l : List RankedPart) (j stop m i : Nat) :
    scanMin (pre ++ l) (pre.length + j) (pre.length + stop) m (pre.length + i) =
      ((scanMin l j stop m i).1, pre.length + (scanMin l j stop m i).2) := by
  fun_induction scanMin l j stop m i with
  | case1 j stop m i h r hr ih =>
    rw [scanMin]
    have h' : pre.length + j < pre.length + stop := by omega
    simp only [h', if_true, getD_append_add]
    rw [if_pos hr]
    exact ih
  | case2 j stop m i h r hr ih =>
    rw [scanMin]
    have h' : pre.length + j < pre.length + stop := by omega
    simp only [h', if_true, getD_append_add]
    rw [if_neg hr]
    exact ih
  | case3 j stop m i h =>
    rw [scanMin]
    have h' : ¬ pre.length + j < pre.length + stop := by omega
    simp only [h', if_false]

theorem initRanks_append (c : BpeCtx) (piece : Bytes) (pre l : List RankedPart) (j stop : Nat) :
    initRanks c piece (pre ++ l) (pre.length + j) (pre.length + stop) =
      pre ++ initRanks c piece l j stop := by
  fun_induction initRanks c piece l j stop with
  | case1 l j stop h ih =>
    rw [initRanks]
    have h' : pre.length + j < pre.length + stop := by omega
    simp only [h', if_true]
    have e : pre.length + j + 2 = pre.length + (j + 2) := by omega
    rw [e, getRank_append, setRank_append]
    exact ih
  | case2 l j stop h =>
    rw [initRanks]
    have h' : ¬ pre.length + j < pre.length + stop := by omega
    simp only [h', if_false]

/-- One iteration of the `while` loop of `merge_bpe_parts`, without the rescan. -/
def stepAt (c : BpeCtx) (piece : Bytes) (start : Nat) (parts : List RankedPart) (i : Nat) : List RankedPart :=
  let p₁ := if i > start then setRank parts (i - 1) (getRank c piece parts (i - 1) (i + 2)) else parts
  let p₂ := setRank p₁ i (getRank c piece p₁ i (i + 3))
  p₂.eraseIdx (i + 1)

theorem mergeLoop_eq (c : BpeCtx) (piece : Bytes) (start : Nat) (parts : List RankedPart) (m i : Nat) :
    mergeLoop c piece start parts m i =
      if m ≠ MAXR ∧ i + 1 < parts.length then
        mergeLoop c piece start (stepAt c piece start parts i)
          (scanMin (stepAt c piece start parts i) start ((stepAt c piece start parts i).length - 1) MAXR i).1
          (scanMin (stepAt c piece start parts i) start ((stepAt c piece start parts i).length - 1) MAXR i).2
      else parts := by
  rw [mergeLoop]
  split <;> rfl

theorem stepAt_length (c : BpeCtx) (piece : Bytes) (start : Nat) (parts : List RankedPart) (i : Nat)
    (h : i + 1 < parts.length) : (stepAt c piece start parts i).length = parts.length - 1 := by
  unfold stepAt
  simp only [List.length_eraseIdx, setRank_length]
  split <;> simp [h]

theorem stepAt_append (c : BpeCtx) (piece : Bytes) (pre l : List RankedPart) (i : Nat) :
    stepAt c piece pre.length (pre ++ l) (pre.length + i) = pre ++ stepAt c piece 0 l i := by
  unfold stepAt
  by_cases hi : i > 0
  · have h' : pre.length + i > pre.length := by omega
    have e1 : pre.length + i - 1 = pre.length + (i - 1) := by omega
    have e2 : pre.length + i + 2 = pre.length + (i + 2) := by omega
    have e3 : pre.length + i + 3 = pre.length + (i + 3) := by omega
    have e4 : pre.length + i + 1 = pre.length + (i + 1) := by omega
    simp only [h', hi, if_true, e1, e2, e3, e4, getRank_append, setRank_append, eraseIdx_append_add]
  · have h' : ¬ pre.length + i > pre.length := by omega
    have e3 : pre.length + i + 3 = pre.length + (i + 3) := by omega
    have e4 : pre.length + i + 1 = pre.length + (i + 1) := by omega
    simp only [h', hi, if_false, e3, e4, getRank_append, setRank_append, eraseIdx_append_add]

theorem mergeLoop_append (c : BpeCtx) (piece : Bytes) (pre : List RankedPart) :
    ∀ (n : Nat) (l : List RankedPart) (m i : Nat), l.length ≤ n →
      mergeLoop c piece pre.length (pre ++ l) m (pre.length + i) = pre ++ mergeLoop c piece 0 l m i := by
  intro n
  induction n with
  | zero =>
    intro l m i hl
    rw [mergeLoop_eq, mergeLoop_eq c piece 0]
    have h1 : ¬ (m ≠ MAXR ∧ i + 1 < l.length) := by omega
    have h2 : ¬ (m ≠ MAXR ∧ pre.length + i + 1 < (pre ++ l).length) := by
      simp only [List.length_append]; omega
    rw [if_neg h1, if_neg h2]
  | succ n ih =>
    intro l m i hl
    rw [mergeLoop_eq, mergeLoop_eq c piece 0]
    by_cases hc : m ≠ MAXR ∧ i + 1 < l.length
    · have hc' : m ≠ MAXR ∧ pre.length + i + 1 < (pre ++ l).length := by
        refine ⟨hc.1, ?_⟩; simp; omega
      rw [if_pos hc, if_pos hc', stepAt_append]
      have hlen : (stepAt c piece 0 l i).length = l.length - 1 := stepAt_length c piece 0 l i hc.2
      have e : (pre ++ stepAt c piece 0 l i).length - 1 = pre.length + ((stepAt c piece 0 l i).length - 1) := by
        simp only [List.length_append]; omega
      have e0 : pre.length = pre.length + 0 := rfl
      rw [e]
      conv => lhs; arg 5; arg 1; arg 2; rw [e0]
      conv => lhs; arg 6; arg 1; arg 2; rw [e0]
      rw [scanMin_append]
      exact ih _ _ _ (by omega)
    · have hc' : ¬ (m ≠ MAXR ∧ pre.length + i + 1 < (pre ++ l).length) := by
        intro h; apply hc; refine ⟨h.1, ?_⟩
        have := h.2; simp at this; omega
      rw [if_neg hc, if_neg hc']


theorem initRanks_length (c : BpeCtx) (piece : Bytes) (parts : List RankedPart) (j stop : Nat) :
    (initRanks c piece parts j stop).length = parts.length := by
  fun_induction initRanks c piece parts j stop with
  | case1 parts j stop h ih => rw [ih, setRank_length]
  | case2 parts j stop h => rfl

theorem mergeBpeParts_eq (c : BpeCtx) (piece : Bytes) (parts : List RankedPart) (start : Nat) :
    mergeBpeParts c piece parts start =
      if parts.length ≤ start + 1 then parts
      else
        mergeLoop c piece start (initRanks c piece parts start (parts.length - 1))
          (scanMin (initRanks c piece parts start (parts.length - 1)) start
            ((initRanks c piece parts start (parts.length - 1)).length - 1) MAXR start).1
          (scanMin (initRanks c piece parts start (parts.length - 1)) start
            ((initRanks c piece parts start (parts.length - 1)).length - 1) MAXR start).2 := by
  unfold mergeBpeParts
  split <;> rfl

theorem mergeBpeParts_append (c : BpeCtx) (piece : Bytes) (pre l : List RankedPart) :
    mergeBpeParts c piece (pre ++ l) pre.length = pre ++ mergeBpeParts c piece l 0 := by
  rw [mergeBpeParts_eq, mergeBpeParts_eq]
  by_cases h : l.length ≤ 0 + 1
  · have h' : (pre ++ l).length ≤ pre.length + 1 := by simp only [List.length_append]; omega
    rw [if_pos h, if_pos h']
  · have h' : ¬ (pre ++ l).length ≤ pre.length + 1 := by simp only [List.length_append]; omega
    rw [if_neg h, if_neg h']
    simp only [initRanks_length]
    have e : (pre ++ l).length - 1 = pre.length + (l.length - 1) := by
      simp only [List.length_append]; omega
    have e0 : pre.length = pre.length + 0 := rfl
    rw [e]
    have hi : initRanks c piece (pre ++ l) pre.length (pre.length + (l.length - 1)) =
        pre ++ initRanks c piece l 0 (l.length - 1) := initRanks_append c piece pre l 0 (l.length - 1)
    rw [hi]
    have hs := scanMin_append pre (initRanks c piece l 0 (l.length - 1)) 0 (l.length - 1) MAXR 0
    simp only [Nat.add_zero] at hs
    rw [hs]
    exact mergeLoop_append c piece pre _ _ _ _ (Nat.le_refl _)


/-! ### linear strategy at offset 0: the buffer is a function of the boundaries -/

/-- Rank cached at a boundary `a` whose second successor (if any) heads `rest`. -/
def hrank (c : BpeCtx) (piece : Bytes) (a : Nat) : List Nat → Nat
  | d :: _ => rankOf c (slice piece a d)
  | [] => MAXR

/-- The buffer with all cached ranks up to date. -/
def canon (c : BpeCtx) (piece : Bytes) : List Nat → List RankedPart
  | [] => []
  | [a] => [{ start := a, rank := MAXR }]
  | a :: b :: rest => { start := a, rank := hrank c piece a rest } :: canon c piece (b :: rest)

theorem canon_length (c : BpeCtx) (piece : Bytes) : ∀ ss, (canon c piece ss).length = ss.length
  | [] => rfl
  | [_] => rfl
  | _ :: b :: rest => by simp [canon, canon_length c piece (b :: rest)]

theorem canon_map_start (c : BpeCtx) (piece : Bytes) : ∀ ss, (canon c piece ss).map (·.start) = ss
  | [] => rfl
  | [_] => rfl
  | _ :: b :: rest => by simp [canon, canon_map_start c piece (b :: rest)]

theorem canon_map_rank (c : BpeCtx) (piece : Bytes) :
    ∀ ss, 2 ≤ ss.length → (canon c piece ss).map (·.rank) = ssRanks c piece ss ++ [MAXR, MAXR]
  | [a, b], _ => rfl
  | a :: b :: d :: rest, _ => by
    have ih := canon_map_rank c piece (b :: d :: rest) (by simp)
    simp only [canon, List.map_cons, ssRanks, hrank, List.cons_append] at ih ⊢
    rw [ih]
  | [], h | [_], h => by simp at h

theorem canon_getD_start (c : BpeCtx) (piece : Bytes) (ss : List Nat) (j : Nat) :
    ((canon c piece ss).getD j default).start = ss.getD j 0 := by
  conv => rhs; rw [← canon_map_start c piece ss]
  simp only [List.getD_eq_getElem?_getD, List.getElem?_map]
  cases (canon c piece ss)[j]? <;> rfl

theorem getRank_canon (c : BpeCtx) (piece : Bytes) (ss : List Nat) (s e : Nat) :
    getRank c piece (canon c piece ss) s e =
      if e < ss.length then rankOf c (slice piece (ss.getD s 0) (ss.getD e 0)) else MAXR := by
  unfold getRank
  rw [canon_length, canon_getD_start, canon_getD_start]

theorem setRank_cons_zero (x : RankedPart) (l : List RankedPart) (r : Nat) :
    setRank (x :: l) 0 r = { x with rank := r } :: l := by
  simp [setRank]

theorem setRank_cons_succ (x : RankedPart) (l : List RankedPart) (i r : Nat) :
    setRank (x :: l) (i + 1) r = x :: setRank l i r := by
  simp [setRank]

theorem getRank_cons_succ (c : BpeCtx) (piece : Bytes) (x : RankedPart) (l : List RankedPart) (s e : Nat) :
    getRank c piece (x :: l) (s + 1) (e + 1) = getRank c piece l s e := by
  simp [getRank]

theorem setRank_map_start (parts : List RankedPart) (i r : Nat) :
    (setRank parts i r).map (·.start) = parts.map (·.start) := by
  unfold setRank
  apply List.ext_getElem?
  intro j
  simp only [List.getElem?_map, List.getElem?_set, List.getD_eq_getElem?_getD]
  by_cases hij : i = j
  · subst hij
    by_cases hl : i < parts.length
    · simp [hl]
    · simp [hl]
  · simp [hij]

theorem getD_start_eq (p q : List RankedPart) (h : p.map (·.start) = q.map (·.start)) (j : Nat) :
    (p.getD j default).start = (q.getD j default).start := by
  have h1 : ∀ l : List RankedPart, (l.getD j default).start = (l.map (·.start)).getD j 0 := by
    intro l
    simp only [List.getD_eq_getElem?_getD, List.getElem?_map]
    cases l[j]? <;> rfl
  rw [h1, h1, h]

theorem getRank_setRank (c : BpeCtx) (piece : Bytes) (parts : List RankedPart) (i r s e : Nat) :
    getRank c piece (setRank parts i r) s e = getRank c piece parts s e := by
  unfold getRank
  rw [setRank_length, getD_start_eq _ _ (setRank_map_start parts i r) s,
    getD_start_eq _ _ (setRank_map_start parts i r) e]

theorem initRanks_cons (c : BpeCtx) (piece : Bytes) (x : RankedPart) (l : List RankedPart) (j stop : Nat) :
    initRanks c piece (x :: l) (j + 1) (stop + 1) = x :: initRanks c piece l j stop := by
  have := initRanks_append c piece [x] l j stop
  simpa [Nat.add_comm] using this

theorem init_canon (c : BpeCtx) (piece : Bytes) :
    ∀ ss : List Nat,
      initRanks c piece (ss.map fun s => ({ start := s, rank := MAXR } : RankedPart)) 0 (ss.length - 1) =
        canon c piece ss
  | [] => by rw [initRanks]; rfl
  | [a] => by rw [initRanks]; rfl
  | a :: b :: rest => by
    have ih := init_canon c piece (b :: rest)
    simp only [List.map_cons] at ih
    rw [initRanks]
    have h0 : 0 < (a :: b :: rest).length - 1 := by simp
    rw [if_pos h0]
    simp only [List.map_cons, setRank_cons_zero]
    have e : (a :: b :: rest).length - 1 = (b :: rest).length - 1 + 1 := by simp
    rw [e, initRanks_cons, ih, canon]
    congr 2
    cases rest with
    | nil => simp [getRank, hrank]
    | cons d r => simp [getRank, hrank]

theorem stepAt_cons (c : BpeCtx) (piece : Bytes) (s : Nat) (x : RankedPart) (l : List RankedPart) (i : Nat) :
    stepAt c piece (s + 1) (x :: l) (i + 1) = x :: stepAt c piece s l i := by
  unfold stepAt
  by_cases hi : i > s
  · have h' : i + 1 > s + 1 := by omega
    obtain ⟨i', rfl⟩ : ∃ i', i = i' + 1 := ⟨i - 1, by omega⟩
    simp only [h', hi, if_true, Nat.add_sub_cancel]
    simp only [show i' + 1 + 2 = (i' + 2) + 1 from rfl, show i' + 1 + 1 + 2 = (i' + 1 + 2) + 1 from rfl,
      show i' + 1 + 1 + 3 = (i' + 1 + 3) + 1 from rfl,
      getRank_cons_succ, setRank_cons_succ, List.eraseIdx_cons_succ]
  · have h' : ¬ i + 1 > s + 1 := by omega
    simp only [h', hi, if_false]
    simp only [show i + 1 + 3 = (i + 3) + 1 from rfl,
      getRank_cons_succ, setRank_cons_succ, List.eraseIdx_cons_succ]

theorem stepAt_start (c : BpeCtx) (piece : Bytes) (s s' : Nat) (parts : List RankedPart) (i : Nat)
    (h : i > s ↔ i > s') : stepAt c piece s parts i = stepAt c piece s' parts i := by
  unfold stepAt
  by_cases hi : i > s
  · have := h.mp hi; simp only [hi, this, if_true]
  · have : ¬ i > s' := fun h' => hi (h.mpr h'); simp only [hi, this, if_false]

theorem canon_cons2 (c : BpeCtx) (piece : Bytes) (a b : Nat) (rest : List Nat) :
    canon c piece (a :: b :: rest) =
      { start := a, rank := hrank c piece a rest } :: canon c piece (b :: rest) := rfl


theorem step_canon (c : BpeCtx) (piece : Bytes) :
    ∀ (k : Nat) (ss : List Nat), k + 2 < ss.length →
      stepAt c piece (k - 1) (canon c piece ss) k = canon c piece (ss.eraseIdx (k + 1))
  | 0, a :: b :: d :: rest, _ => by
    unfold stepAt
    simp only [Nat.lt_irrefl, if_false, gt_iff_lt]
    rw [getRank_canon]
    simp only [canon_cons2, setRank_cons_zero, List.eraseIdx_cons_succ, List.eraseIdx_cons_zero]
    congr 2
    cases rest with
    | nil => simp [hrank]
    | cons e r => simp [hrank]
  | 1, a :: b :: d :: e :: rest, _ => by
    unfold stepAt
    simp only [gt_iff_lt, Nat.lt_add_one, if_true, Nat.sub_self]
    rw [getRank_setRank, getRank_canon, getRank_canon]
    simp only [canon_cons2, setRank_cons_zero, setRank_cons_succ, List.eraseIdx_cons_succ,
      List.eraseIdx_cons_zero]
    cases rest with
    | nil => simp [hrank]
    | cons f r => simp [hrank]
  | k + 2, a :: b :: d :: rest, hl => by
    have ih := step_canon c piece (k + 1) (b :: d :: rest) (by simp only [List.length_cons] at hl ⊢; omega)
    simp only [Nat.add_sub_cancel] at ih
    have e : k + 2 - 1 = k + 1 := rfl
    rw [e, canon_cons2, stepAt_cons, ih]
    simp only [List.eraseIdx_cons_succ, canon_cons2, hrank]
  | 0, [], hl | 0, [_], hl | 0, [_, _], hl => by (simp only [List.length_cons, List.length_nil] at hl; omega)
  | 1, [], hl | 1, [_], hl | 1, [_, _], hl | 1, [_, _, _], hl => by (simp only [List.length_cons, List.length_nil] at hl; omega)
  | _ + 2, [], hl | _ + 2, [_], hl | _ + 2, [_, _], hl => by (simp only [List.length_cons, List.length_nil] at hl; omega)

theorem step_canon0 (c : BpeCtx) (piece : Bytes) (k : Nat) (ss : List Nat) (h : k + 2 < ss.length) :
    stepAt c piece 0 (canon c piece ss) k = canon c piece (ss.eraseIdx (k + 1)) := by
  rw [stepAt_start c piece 0 (k - 1) _ k (by omega)]
  exact step_canon c piece k ss h

/-- Result of a `scanMin` pass in terms of `pick`. -/
def scanRes (l : List Nat) (m i j : Nat) : Nat × Nat :=
  match pick m l with
  | some (k, r) => (r, j + k)
  | none => (m, i)

theorem scanRes_cons_lt (x : Nat) (l : List Nat) (m i j : Nat) (h : x < m) :
    scanRes (x :: l) m i j = scanRes l x j (j + 1) := by
  unfold scanRes pick
  simp only [bestOf]
  cases bestOf l with
  | none => simp [h]
  | some p =>
    obtain ⟨k, r⟩ := p
    by_cases h1 : r < x
    · have : r < m := by omega
      simp [h1, this]; omega
    · simp [h1, h]

theorem scanRes_cons_ge (x : Nat) (l : List Nat) (m i j : Nat) (h : ¬ x < m) :
    scanRes (x :: l) m i j = scanRes l m i (j + 1) := by
  unfold scanRes pick
  simp only [bestOf]
  cases bestOf l with
  | none => simp [h]
  | some p =>
    obtain ⟨k, r⟩ := p
    by_cases h1 : r < x
    · simp only [h1, if_true]
      by_cases h2 : r < m
      · simp [h2]; omega
      · simp [h2]
    · have : ¬ r < m := by omega
      simp [h1, h, this]

theorem scanMin_spec (parts : List RankedPart) (j stop m i : Nat) (hs : stop ≤ parts.length) :
    scanMin parts j stop m i = scanRes (((parts.map (·.rank)).take stop).drop j) m i j := by
  fun_induction scanMin parts j stop m i with
  | case1 j stop m i h r hr ih =>
    have hlen : j < ((parts.map (·.rank)).take stop).length := by simp; omega
    rw [List.drop_eq_getElem_cons hlen]
    have hr' : (List.take stop (List.map (fun x => x.rank) parts))[j] = r := by
      simp [r, List.getD_eq_getElem?_getD, List.getElem?_eq_getElem (show j < parts.length by omega)]
    rw [hr', scanRes_cons_lt _ _ _ _ _ hr]
    exact ih hs
  | case2 j stop m i h r hr ih =>
    have hlen : j < ((parts.map (·.rank)).take stop).length := by simp; omega
    rw [List.drop_eq_getElem_cons hlen]
    have hr' : (List.take stop (List.map (fun x => x.rank) parts))[j] = r := by
      simp [r, List.getD_eq_getElem?_getD, List.getElem?_eq_getElem (show j < parts.length by omega)]
    rw [hr', scanRes_cons_ge _ _ _ _ _ hr]
    exact ih hs
  | case3 j stop m i h =>
    have : ((parts.map (·.rank)).take stop).drop j = [] := by
      apply List.drop_eq_nil_of_le; simp; omega
    rw [this]; rfl

theorem scanMin_canon (c : BpeCtx) (piece : Bytes) (ss : List Nat) (i0 : Nat) (h : 2 ≤ ss.length) :
    scanMin (canon c piece ss) 0 ((canon c piece ss).length - 1) MAXR i0 =
      scanRes (ssRanks c piece ss) MAXR i0 0 := by
  rw [scanMin_spec _ _ _ _ _ (by omega), canon_map_rank c piece ss h, canon_length, List.drop_zero]
  have e : ssRanks c piece ss ++ [MAXR, MAXR] = (ssRanks c piece ss ++ [MAXR]) ++ [MAXR] := by simp
  have hl : (ssRanks c piece ss ++ [MAXR]).length = ss.length - 1 := by
    simp [ssRanks_length]; omega
  rw [e, List.take_left' hl]
  unfold scanRes
  rw [pick_append_single]


theorem mergeLoop_canon (c : BpeCtx) (piece : Bytes) (len : Nat) :
    ∀ (n : Nat) (ss : List Nat) (i0 : Nat), ss.length ≤ n → Boundaries len ss → 2 ≤ ss.length →
      ∃ ss', mergeLoop c piece 0 (canon c piece ss)
          (scanRes (ssRanks c piece ss) MAXR i0 0).1 (scanRes (ssRanks c piece ss) MAXR i0 0).2 =
            canon c piece ss' ∧
        segsOfStarts piece ss' = bpeSpec (clampRk (rankOf c)) (segsOfStarts piece ss) := by
  intro n
  induction n with
  | zero => intro ss i0 h1 _ h2; omega
  | succ n ih =>
    intro ss i0 hn hB h2
    rw [mergeLoop_eq]
    cases hp : pick MAXR (ssRanks c piece ss) with
    | none =>
      have hs : scanRes (ssRanks c piece ss) MAXR i0 0 = (MAXR, i0) := by
        unfold scanRes; rw [hp]
      rw [hs]
      refine ⟨ss, ?_, (ss_none c piece len ss hB hp).symm⟩
      simp
    | some p =>
      obtain ⟨k, r⟩ := p
      have hs : scanRes (ssRanks c piece ss) MAXR i0 0 = (r, k) := by
        unfold scanRes; rw [hp]; simp
      obtain ⟨hk, hr, hB', hspec⟩ := ss_some c piece len ss hB k r hp
      rw [hs]
      have hc : r ≠ MAXR ∧ k + 1 < (canon c piece ss).length := by
        rw [canon_length]; exact ⟨by omega, by omega⟩
      simp only []
      rw [if_pos hc, step_canon0 c piece k ss hk]
      have hl2 : (ss.eraseIdx (k + 1)).length = ss.length - 1 := by
        rw [List.length_eraseIdx]; rw [if_pos (by omega)]
      rw [scanMin_canon c piece _ k (by omega)]
      obtain ⟨ss', h1, h2⟩ := ih (ss.eraseIdx (k + 1)) k (by omega) hB' (by omega)
      exact ⟨ss', h1, by rw [h2, hspec]⟩

/-- The linear strategy computes canonical BPE for the ranks clamped at `MAXR`. -/
theorem linear_gen (c : BpeCtx) (piece : Bytes) (pre : List RankedPart) (starts : List Nat)
    (h : Boundaries piece.length starts) :
    ∃ parts,
      mergeBpeParts c piece (pre ++ starts.map fun s => ({ start := s, rank := MAXR } : RankedPart)) pre.length =
        pre ++ parts ∧
      segsOfStarts piece (parts.map (·.start)) =
        bpeSpec (clampRk (rankOf c)) (segsOfStarts piece starts) := by
  rw [mergeBpeParts_append, mergeBpeParts_eq]
  by_cases hl : 2 ≤ starts.length
  · have hc : ¬ (starts.map fun s => ({ start := s, rank := MAXR } : RankedPart)).length ≤ 0 + 1 := by
      simp only [List.length_map]; omega
    rw [if_neg hc]
    simp only [initRanks_length]
    simp only [List.length_map]
    rw [init_canon]
    have := scanMin_canon c piece starts 0 hl
    rw [canon_length] at this
    rw [this]
    obtain ⟨ss', h1, h2⟩ := mergeLoop_canon c piece piece.length _ starts 0 (Nat.le_refl _) h hl
    exact ⟨canon c piece ss', by rw [h1], by rw [canon_map_start, h2]⟩
  · have hc : (starts.map fun s => ({ start := s, rank := MAXR } : RankedPart)).length ≤ 0 + 1 := by
      simp only [List.length_map]; omega
    rw [if_pos hc]
    refine ⟨_, rfl, ?_⟩
    match starts, h, hl with
    | [a], _, _ =>
      simp only [List.map_cons, List.map_nil, segsOfStarts]
      rw [bpeSpec_eq]; rfl
    | [], h, _ => exact absurd h (by simp [Boundaries])
    | _ :: _ :: _, _, hl => simp at hl


/-! ### heap strategy: the node list is a function of the boundaries -/

def canonH (c : BpeCtx) (piece : Bytes) : List Nat → List LinkedPart
  | a :: b :: rest => { start := a, width := b - a, rank := hrank c piece a rest } :: canonH c piece (b :: rest)
  | _ => []

theorem canonH_cons2 (c : BpeCtx) (piece : Bytes) (a b : Nat) (rest : List Nat) :
    canonH c piece (a :: b :: rest) =
      { start := a, width := b - a, rank := hrank c piece a rest } :: canonH c piece (b :: rest) := rfl

theorem canonH_single (c : BpeCtx) (piece : Bytes) (a : Nat) : canonH c piece [a] = [] := rfl

theorem canonH_length (c : BpeCtx) (piece : Bytes) : ∀ ss, (canonH c piece ss).length = ss.length - 1
  | [] => rfl
  | [_] => rfl
  | _ :: b :: rest => by simp [canonH, canonH_length c piece (b :: rest)]

theorem canonH_map_rank (c : BpeCtx) (piece : Bytes) :
    ∀ ss, 2 ≤ ss.length → (canonH c piece ss).map (·.rank) = ssRanks c piece ss ++ [MAXR]
  | [a, b], _ => rfl
  | a :: b :: d :: rest, _ => by
    have ih := canonH_map_rank c piece (b :: d :: rest) (by simp)
    simp only [canonH, List.map_cons, ssRanks, hrank, List.cons_append] at ih ⊢
    rw [ih]
  | [], h | [_], h => by simp at h

theorem canonH_segs (c : BpeCtx) (piece : Bytes) (len : Nat) :
    ∀ ss, Boundaries len ss →
      (canonH c piece ss).map (fun n => slice piece n.start (n.start + n.width)) = segsOfStarts piece ss
  | [], _ => rfl
  | [_], _ => rfl
  | a :: b :: rest, h => by
    have ih := canonH_segs c piece len (b :: rest) h.2
    have : a + (b - a) = b := by have := h.1; omega
    simp only [canonH, List.map_cons, segsOfStarts, ih, this]

theorem Boundaries_unitStarts (len : Nat) :
    ∀ us, UnitsWF len us → Boundaries len (unitStarts len us)
  | [(s, w)], h => by
    have h' : 0 < w ∧ s + w = len := h
    simp only [unitStarts, List.map_cons, List.map_nil, List.cons_append, List.nil_append, Boundaries]
    exact ⟨by omega, trivial⟩
  | (s, w) :: (s', w') :: rest, h => by
    have ih := Boundaries_unitStarts len ((s', w') :: rest) h.2.2
    simp only [unitStarts, List.map_cons, List.cons_append, Boundaries] at ih ⊢
    exact ⟨by have := h.1; have := h.2.1; omega, ih⟩
  | [], h => by simp [UnitsWF] at h

theorem heapInit_canon (c : BpeCtx) (piece : Bytes) :
    ∀ us, UnitsWF piece.length us → heapInit c piece us = canonH c piece (unitStarts piece.length us)
  | [(s, w)], h => by
    simp only [unitStarts, List.map_cons, List.map_nil, List.cons_append, List.nil_append, heapInit,
      canonH, hrank]
  | (s, w) :: (s', w') :: rest, h => by
    have ih := heapInit_canon c piece ((s', w') :: rest) h.2.2
    simp only [unitStarts, List.map_cons, List.cons_append] at ih ⊢
    rw [heapInit, ih, canonH_cons2]
    have hw : s' - s = w := by have := h.2.1; omega
    rw [hw]
    congr 2
    cases rest with
    | nil =>
      simp only [UnitsWF] at h
      simp only [List.map_nil, List.nil_append, hrank]
      congr 2; omega
    | cons u rest' =>
      obtain ⟨s'', w''⟩ := u
      simp only [UnitsWF] at h
      simp only [List.map_cons, List.cons_append, hrank]
      congr 2; omega
  | [], h => by simp [UnitsWF] at h


theorem heapStep_cons (c : BpeCtx) (piece : Bytes) (x : LinkedPart) (l : List LinkedPart) (k : Nat) :
    heapStep c piece (x :: l) (k + 2) = x :: heapStep c piece l (k + 1) := by
  unfold heapStep
  simp only [List.getD_cons_succ, List.eraseIdx_cons_succ, List.getElem?_cons_succ,
    Nat.add_sub_cancel, gt_iff_lt, Nat.zero_lt_succ, if_true]
  rfl

theorem step_canonH (c : BpeCtx) (piece : Bytes) (len : Nat) :
    ∀ (k : Nat) (ss : List Nat), Boundaries len ss → k + 2 < ss.length →
      heapStep c piece (canonH c piece ss) k = canonH c piece (ss.eraseIdx (k + 1))
  | 0, a :: b :: d :: rest, h, _ => by
    have h1 : a < b := h.1
    have h2 : b < d := h.2.1
    have hw : b - a + (d - b) = d - a := by omega
    cases rest with
    | nil =>
      simp [heapStep, canonH, hrank, hw]
    | cons e r =>
      have h3 : d < e := h.2.2.1
      have he : d + (e - d) = e := by omega
      simp [heapStep, canonH, hrank, hw, he]
  | 1, a :: b :: d :: e :: rest, h, _ => by
    have h1 : a < b := h.1
    have h2 : b < d := h.2.1
    have h3 : d < e := h.2.2.1
    have hw : d - b + (e - d) = e - b := by omega
    have hp : b + (e - b) = e := by omega
    cases rest with
    | nil =>
      simp [heapStep, canonH, hrank, hw, hp]
    | cons f r =>
      have h4 : e < f := h.2.2.2.1
      have he : e + (f - e) = f := by omega
      simp [heapStep, canonH, hrank, hw, hp, he]
  | k + 2, a :: b :: d :: rest, h, hl => by
    have ih := step_canonH c piece len (k + 1) (b :: d :: rest) h.2
      (by simp only [List.length_cons] at hl ⊢; omega)
    rw [canonH_cons2, heapStep_cons, ih]
    simp only [List.eraseIdx_cons_succ, canonH_cons2, hrank]
  | 0, [], _, hl | 0, [_], _, hl | 0, [_, _], _, hl => by
    simp only [List.length_cons, List.length_nil] at hl; omega
  | 1, [], _, hl | 1, [_], _, hl | 1, [_, _], _, hl | 1, [_, _, _], _, hl => by
    simp only [List.length_cons, List.length_nil] at hl; omega
  | _ + 2, [], _, hl | _ + 2, [_], _, hl | _ + 2, [_, _], _, hl => by
    simp only [List.length_cons, List.length_nil] at hl; omega

/-- Node starts strictly increase (from a lower bound `s`). -/
def IncFrom (s : Nat) : List LinkedPart → Prop
  | [] => True
  | q :: qs => s < q.start ∧ IncFrom q.start qs

theorem IncFrom_mono (s s' : Nat) (h : s' ≤ s) : ∀ qs, IncFrom s qs → IncFrom s' qs
  | [], _ => trivial
  | q :: qs, hq => ⟨by have := hq.1; omega, hq.2⟩

theorem canonH_inc (c : BpeCtx) (piece : Bytes) (len : Nat) :
    ∀ (ss : List Nat) (a : Nat), Boundaries len (a :: ss) → IncFrom a (canonH c piece ss)
  | [], _, _ => trivial
  | [_], _, _ => trivial
  | b :: d :: rest, a, h => by
    rw [canonH_cons2]
    exact ⟨h.1, canonH_inc c piece len (d :: rest) b h.2⟩

theorem heapMin_go_spec :
    ∀ (qs : List LinkedPart) (best : LinkedPart) (bi k : Nat), IncFrom best.start qs →
      heapMin.go best bi qs k =
        match bestOf (qs.map (·.rank)) with
        | some (j, r) => if r < best.rank then k + j else bi
        | none => bi
  | [], best, bi, k, _ => rfl
  | q :: qs, best, bi, k, h => by
    have hlt : ¬ q.start < best.start := by have := h.1; omega
    rw [heapMin.go]
    simp only [List.map_cons, bestOf]
    by_cases hq : q.rank < best.rank
    · have hc : q.rank < best.rank ∨ (q.rank = best.rank ∧ q.start < best.start) := Or.inl hq
      rw [if_pos hc, heapMin_go_spec qs q k (k + 1) h.2]
      cases bestOf (qs.map (·.rank)) with
      | none => simp [hq]
      | some p =>
        obtain ⟨j, r⟩ := p
        by_cases h1 : r < q.rank
        · have : r < best.rank := by omega
          simp [h1, this]
          show k + 1 + j = k + (j + 1)
          omega
        · simp [h1, hq]
    · have hc : ¬ (q.rank < best.rank ∨ (q.rank = best.rank ∧ q.start < best.start)) := by
        intro h'; rcases h' with h' | h'
        · exact hq h'
        · exact hlt h'.2
      rw [if_neg hc, heapMin_go_spec qs best bi (k + 1) (IncFrom_mono _ _ (Nat.le_of_lt h.1) _ h.2)]
      cases bestOf (qs.map (·.rank)) with
      | none => simp [hq]
      | some p =>
        obtain ⟨j, r⟩ := p
        by_cases h1 : r < q.rank
        · simp only [h1, if_true]
          by_cases h2 : r < best.rank
          · simp [h2]; omega
          · simp [h2]
        · have : ¬ r < best.rank := by omega
          simp [h1, hq, this]

theorem heapMin_spec (p : LinkedPart) (ps : List LinkedPart) (h : IncFrom p.start ps) :
    heapMin (p :: ps) = (bestOf ((p :: ps).map (·.rank))).map (·.1) := by
  rw [heapMin, heapMin_go_spec ps p 0 1 h]
  simp only [List.map_cons, bestOf]
  cases bestOf (ps.map (·.rank)) with
  | none => simp
  | some q =>
    obtain ⟨j, r⟩ := q
    by_cases h1 : r < p.rank
    · simp [h1]; omega
    · simp [h1]

theorem heapMin_canonH (c : BpeCtx) (piece : Bytes) (len : Nat) (ss : List Nat)
    (hB : Boundaries len ss) (h2 : 2 ≤ ss.length) :
    heapMin (canonH c piece ss) = (bestOf (ssRanks c piece ss ++ [MAXR])).map (·.1) := by
  rw [← canonH_map_rank c piece ss h2]
  match ss, hB, h2 with
  | a :: b :: rest, hB, _ =>
    rw [canonH_cons2]
    exact heapMin_spec _ _ (canonH_inc c piece len (b :: rest) a hB)
  | [], _, h | [_], _, h => simp at h

theorem rank_of_map_getElem? (nodes : List LinkedPart) (k r : Nat)
    (h : (nodes.map (·.rank))[k]? = some r) : (nodes.getD k default).rank = r := by
  simp only [List.getElem?_map] at h
  rw [List.getD_eq_getElem?_getD]
  cases hn : nodes[k]? with
  | none => rw [hn] at h; simp at h
  | some x => rw [hn] at h; simpa using h

theorem heapLoop_eq (c : BpeCtx) (piece : Bytes) (nodes : List LinkedPart) :
    heapLoop c piece nodes =
      if nodes.length > 1 then
        match heapMin nodes with
        | none => nodes
        | some k =>
          if (nodes.getD k default).rank = MAXR ∨ ¬ (k + 1 < nodes.length) then nodes
          else heapLoop c piece (heapStep c piece nodes k)
      else nodes := by
  rw [heapLoop]
  split <;> rfl

theorem heapLoop_canon (c : BpeCtx) (piece : Bytes) (len : Nat) :
    ∀ (n : Nat) (ss : List Nat), ss.length ≤ n → Boundaries len ss → 2 ≤ ss.length →
      ∃ ss', heapLoop c piece (canonH c piece ss) = canonH c piece ss' ∧ Boundaries len ss' ∧
        segsOfStarts piece ss' = bpeSpec (clampRk (rankOf c)) (segsOfStarts piece ss) := by
  intro n
  induction n with
  | zero => intro ss h1 _ h2; omega
  | succ n ih =>
    intro ss hn hB h2
    rw [heapLoop_eq, heapMin_canonH c piece len ss hB h2, canonH_length]
    cases hp : pick MAXR (ssRanks c piece ss) with
    | none =>
      refine ⟨ss, ?_, hB, (ss_none c piece len ss hB hp).symm⟩
      obtain ⟨k, hk⟩ := pick_none_append MAXR _ hp
      have hr : ((canonH c piece ss).getD k default).rank = MAXR := by
        apply rank_of_map_getElem?
        rw [canonH_map_rank c piece ss h2]
        exact bestOf_getElem _ _ _ hk
      rw [hk]
      simp only [Option.map_some]
      rw [if_pos (Or.inl hr)]
      split <;> rfl
    | some p =>
      obtain ⟨k, r⟩ := p
      obtain ⟨hk, hr, hB', hspec⟩ := ss_some c piece len ss hB k r hp
      have hb := (pick_some _ _ _ _ hp).1
      have hk' : bestOf (ssRanks c piece ss ++ [MAXR]) = some (k, r) := by
        rw [bestOf_append_single, hb]
        simp only []
        rw [if_pos (Nat.le_of_lt hr)]
      have hrk : ((canonH c piece ss).getD k default).rank = r := by
        apply rank_of_map_getElem?
        rw [canonH_map_rank c piece ss h2]
        exact bestOf_getElem _ _ _ hk'
      rw [hk']
      have hl1 : ss.length - 1 > 1 := by omega
      have hc : ¬ (((canonH c piece ss).getD k default).rank = MAXR ∨ ¬ (k + 1 < ss.length - 1)) := by
        rw [hrk]; omega
      simp only [Option.map_some]
      rw [if_pos hl1, if_neg hc, step_canonH c piece len k ss hB hk]
      have hl2 : (ss.eraseIdx (k + 1)).length = ss.length - 1 := by
        rw [List.length_eraseIdx]; rw [if_pos (by omega)]
      obtain ⟨ss', e1, e2, e3⟩ := ih (ss.eraseIdx (k + 1)) (by omega) hB' (by omega)
      exact ⟨ss', e1, e2, by rw [e3, hspec]⟩

/-- The heap strategy computes canonical BPE for the ranks clamped at `MAXR`. -/
theorem heap_gen (c : BpeCtx) (piece : Bytes) (us : List (Nat × Nat)) (h : UnitsWF piece.length us) :
    (heapLoop c piece (heapInit c piece us)).map (fun n => slice piece n.start (n.start + n.width)) =
      bpeSpec (clampRk (rankOf c)) (segsOfStarts piece (unitStarts piece.length us)) := by
  have hB := Boundaries_unitStarts piece.length us h
  have h2 : 2 ≤ (unitStarts piece.length us).length := by
    cases us with
    | nil => simp [UnitsWF] at h
    | cons u rest => simp [unitStarts]
  rw [heapInit_canon c piece us h]
  obtain ⟨ss', e1, e2, e3⟩ := heapLoop_canon c piece piece.length _ _ (Nat.le_refl _) hB h2
  rw [e1, canonH_segs c piece piece.length ss' e2, e3]

/-! ### the C03 statements -/

theorem clampRk_eq (rk : Bytes → Nat) (hr : ∀ b, rk b ≤ MAXR) : clampRk rk = rk := by
  funext b
  exact Nat.min_eq_left (hr b)

theorem linear_eq_spec_partial (c : BpeCtx) (piece : Bytes) (pre : List RankedPart) (starts : List Nat)
    (hr : ∀ b, rankOf c b ≤ MAXR) (h : Boundaries piece.length starts) :
    ∃ parts,
      mergeBpeParts c piece (pre ++ starts.map fun s => ({ start := s, rank := MAXR } : RankedPart)) pre.length =
        pre ++ parts ∧
      segsOfStarts piece (parts.map (·.start)) = bpeSpec (rankOf c) (segsOfStarts piece starts) := by
  have := linear_gen c piece pre starts h
  rw [clampRk_eq _ hr] at this
  exact this

theorem heap_eq_spec_partial (c : BpeCtx) (piece : Bytes) (us : List (Nat × Nat))
    (hr : ∀ b, rankOf c b ≤ MAXR) (h : UnitsWF piece.length us) :
    (heapLoop c piece (heapInit c piece us)).map (fun n => slice piece n.start (n.start + n.width)) =
      bpeSpec (rankOf c) (segsOfStarts piece (unitStarts piece.length us)) := by
  have := heap_gen c piece us h
  rw [clampRk_eq _ hr] at this
  exact this

theorem strategy_independent (c : BpeCtx) (piece : Bytes) (us : List (Nat × Nat))
    (h : UnitsWF piece.length us) (pre : List RankedPart) :
    ∃ parts,
      mergeBpeParts c piece
          (pre ++ (unitStarts piece.length us).map fun s => ({ start := s, rank := MAXR } : RankedPart))
          pre.length = pre ++ parts ∧
      segsOfStarts piece (parts.map (·.start)) =
        (heapLoop c piece (heapInit c piece us)).map (fun n => slice piece n.start (n.start + n.width)) := by
  obtain ⟨parts, h1, h2⟩ := linear_gen c piece pre _ (Boundaries_unitStarts piece.length us h)
  exact ⟨parts, h1, by rw [h2, heap_gen c piece us h]⟩

/-! ### the statements without the bound on the ranks are false -/

/-- A context whose rank function leaves the `u32` range. -/
def cexCtx : BpeCtx :=
  { tok := fun _ => none, rank := fun _ => some (MAXR + 1), unknown := none, eow := none, chars := false,
    fallback := [], maxTok := 0, minTok := 0 }

theorem cex_spec : bpeSpec (rankOf cexCtx) [[1], [2]] = [[1, 2]] := by
  rw [bpeSpec_eq]
  simp only [bestPair, pairRank, rankOf, cexCtx, Option.getD_some]
  have : MAXR + 1 ≠ MAXR := by omega
  simp only [this, if_false, mergeAt]
  rw [bpeSpec_eq]
  simp [bestPair]

theorem cex_clamped : bpeSpec (clampRk (rankOf cexCtx)) [[1], [2]] = [[1], [2]] := by
  rw [bpeSpec_eq]
  simp only [bestPair, pairRank, rankOf, cexCtx, Option.getD_some, clampRk]
  have : min (MAXR + 1) MAXR = MAXR := by omega
  simp [this]

/-- The unrestricted statement of `linear_eq_spec` is false. -/
theorem linear_eq_spec_unrestricted_false :
    ¬ ∀ (c : BpeCtx) (piece : Bytes) (pre : List RankedPart) (starts : List Nat),
      Boundaries piece.length starts →
      ∃ parts,
        mergeBpeParts c piece (pre ++ starts.map fun s => ({ start := s, rank := MAXR } : RankedPart)) pre.length =
          pre ++ parts ∧
        segsOfStarts piece (parts.map (·.start)) = bpeSpec (rankOf c) (segsOfStarts piece starts) := by
  intro H
  have hB : Boundaries ([1, 2] : Bytes).length [0, 1, 2] := by simp [Boundaries]
  obtain ⟨parts, h1, h2⟩ := H cexCtx [1, 2] [] [0, 1, 2] hB
  obtain ⟨parts', h1', h2'⟩ := linear_gen cexCtx [1, 2] [] [0, 1, 2] hB
  rw [h1] at h1'
  have : parts = parts' := by simpa using h1'
  subst this
  rw [h2] at h2'
  have hs : segsOfStarts ([1, 2] : Bytes) [0, 1, 2] = [[1], [2]] := by simp [segsOfStarts, slice]
  rw [hs, cex_spec, cex_clamped] at h2'
  simp at h2'

theorem heap_eq_spec_unrestricted_false :
    ¬ ∀ (c : BpeCtx) (piece : Bytes) (us : List (Nat × Nat)), UnitsWF piece.length us →
      (heapLoop c piece (heapInit c piece us)).map (fun n => slice piece n.start (n.start + n.width)) =
        bpeSpec (rankOf c) (segsOfStarts piece (unitStarts piece.length us)) := by
  intro H
  have hU : UnitsWF ([1, 2] : Bytes).length [(0, 1), (1, 1)] := by simp [UnitsWF]
  have h1 := H cexCtx [1, 2] [(0, 1), (1, 1)] hU
  rw [heap_gen cexCtx [1, 2] _ hU] at h1
  have hs : segsOfStarts ([1, 2] : Bytes) (unitStarts ([1, 2] : Bytes).length [(0, 1), (1, 1)]) = [[1], [2]] := by
    simp [segsOfStarts, slice, unitStarts]
  rw [hs, cex_spec, cex_clamped] at h1
  simp at h1

/-! ### shortcut -/

theorem shortcut (c : BpeCtx) (part : Bytes) (t : Id) (buffer : List RankedPart) (result : List Id)
    (hk : ∀ b i, c.tok b = some i → c.minTok ≤ b.length ∧ b.length ≤ c.maxTok)
    (ht : c.tok part = some t) :
    encodePart c part buffer result = .ok (buffer, result ++ [t]) := by
  have h := hk part t ht
  unfold encodePart
  simp only [ge_iff_le, h.1, h.2, and_self, if_true, ht]

end Kitoken.Proofs.Bpe
