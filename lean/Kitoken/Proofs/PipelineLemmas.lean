/-
  Lemmas for C07: the literal scan for special tokens, the two passes of `Kitoken::encode`
  against their cut-wise specification, and provenance of post-processed ids.
-/
import Kitoken.Spec.Pipeline
import Kitoken.Proofs.Utf8Lemmas2
import Kitoken.Proofs.SplitLemmas
import Kitoken.Proofs.ProcessLemmas
namespace Kitoken.Proofs.Pipeline

open Kitoken Kitoken.Spec Kitoken.Utf8 Kitoken.Proofs.Split

/-! ## the scan -/

theorem find_alt_some {alts : List Bytes} {text x : Bytes}
    (h : alts.find? (fun a => !a.isEmpty && startsWith text a) = some x) :
    x ∈ alts ∧ 0 < x.length ∧ startsWith text x = true := by
  have h1 := List.mem_of_find?_eq_some h
  have h2 := List.find?_some h
  simp only [Bool.and_eq_true, Bool.not_eq_true', List.isEmpty_eq_false_iff] at h2
  exact ⟨h1, List.length_pos_iff.mpr h2.1, h2.2⟩

theorem find_alt_none {alts : List Bytes} {text : Bytes}
    (h : alts.find? (fun a => !a.isEmpty && startsWith text a) = none) :
    ∀ alt ∈ alts, alt ≠ [] → startsWith text alt = false := by
  intro alt ha hne
  have := List.find?_eq_none.mp h alt ha
  cases alt with
  | nil => exact absurd rfl hne
  | cons x xs => simpa using this


theorem scanFrom_chain (alts : List Bytes) (pos : Nat) (text : Bytes) :
    ∀ from_ L, from_ ≤ pos → L = pos + text.length → Chain L from_ (scanLiteralsFrom alts pos text) := by
  fun_induction scanLiteralsFrom alts pos text with
  | case1 pos => intro f L hf hL; simp [Chain] at *; omega
  | case2 pos b t x hx hpos ih =>
    intro f L hf hL
    have hlen := startsWith_length _ _ (find_alt_some hx).2.2
    simp only [Chain]
    refine ⟨hf, by omega, ih _ _ (Nat.le_refl _) ?_⟩
    simp only [List.length_drop, List.length_cons] at *
    omega
  | case3 pos b t x hx hpos ih => exact absurd (find_alt_some hx).2.1 hpos
  | case4 pos b t hx ih =>
    intro f L hf hL
    exact ih f L (by omega) (by simp only [List.length_cons] at hL; omega)

theorem scan_chain (alts : List Bytes) (text : Bytes) : Chain text.length 0 (scanLiterals alts text) :=
  scanFrom_chain alts 0 text 0 text.length (Nat.le_refl _) (by omega)

/-- Every match is a non-empty alternative found at its start. -/
theorem mem_scanFrom (alts : List Bytes) (pos : Nat) (text : Bytes) (a b : Nat)
    (h : (a, b) ∈ scanLiteralsFrom alts pos text) :
    pos ≤ a ∧ a - pos < text.length ∧
      ∃ x ∈ alts, 0 < x.length ∧ startsWith (text.drop (a - pos)) x = true ∧ b = a + x.length := by
  fun_induction scanLiteralsFrom alts pos text with
  | case1 pos => simp at h
  | case2 pos c t x hx hpos ih =>
    simp only [List.mem_cons, Prod.mk.injEq] at h
    rcases h with ⟨rfl, rfl⟩ | h
    · obtain ⟨h1, h2, h3⟩ := find_alt_some hx
      exact ⟨Nat.le_refl _, by simp, x, h1, h2, by simpa using h3, rfl⟩
    · obtain ⟨h1, h2, y, hy, hy1, hy2, hy3⟩ := ih h
      simp only [List.length_drop, List.drop_drop] at h2 hy2
      have e : x.length + (a - (pos + x.length)) = a - pos := by omega
      rw [e] at hy2
      exact ⟨by omega, by omega, y, hy, hy1, hy2, hy3⟩
  | case3 pos c t x hx hpos ih => exact absurd (find_alt_some hx).2.1 hpos
  | case4 pos c t hx ih =>
    obtain ⟨h1, h2, y, hy, hy1, hy2, hy3⟩ := ih h
    have e : a - pos = (a - (pos + 1)) + 1 := by omega
    rw [e]
    simp only [List.drop_succ_cons, List.length_cons]
    exact ⟨by omega, by omega, y, hy, hy1, hy2, hy3⟩

theorem startsWith_slice (text x : Bytes) (h : startsWith text x = true) : slice text 0 x.length = x := by
  obtain ⟨r, rfl⟩ := (startsWith_iff _ _).mp h
  simp [slice]

theorem getLast_getD_cons (r : Nat × Nat) (pre : Ranges) (d : Nat) :
    (((r :: pre).getLast?.map (·.2)).getD d) = ((pre.getLast?.map (·.2)).getD r.2) := by
  cases pre with
  | nil => simp
  | cons q pre =>
    rw [List.getLast?_cons_cons]
    have : (q :: pre).getLast? = some ((q :: pre).getLast (by simp)) := List.getLast?_eq_some_getLast _
    rw [this]; rfl

theorem scanFrom_leftmost_first (alts : List Bytes) (pos : Nat) (text : Bytes) :
    ∀ (pre : Ranges) (a b : Nat) (post : Ranges), scanLiteralsFrom alts pos text = pre ++ (a, b) :: post →
      pos ≤ (pre.getLast?.map (·.2)).getD pos ∧ (pre.getLast?.map (·.2)).getD pos ≤ a ∧
      (∀ k, (pre.getLast?.map (·.2)).getD pos ≤ k → k < a → ∀ alt ∈ alts, alt ≠ [] →
        startsWith (text.drop (k - pos)) alt = false) ∧
      alts.find? (fun x => !x.isEmpty && startsWith (text.drop (a - pos)) x) = some (slice text (a - pos) (b - pos)) := by
  fun_induction scanLiteralsFrom alts pos text with
  | case1 pos => intro pre a b post h; simp at h
  | case2 pos c t x hx hpos ih =>
    intro pre a b post h
    obtain ⟨h1, h2, h3⟩ := find_alt_some hx
    cases pre with
    | nil =>
      simp only [List.nil_append, List.cons.injEq, Prod.mk.injEq] at h
      obtain ⟨⟨rfl, rfl⟩, _⟩ := h
      refine ⟨by simp, by simp, ?_, ?_⟩
      · intro k hk1 hk2; simp at hk1; omega
      · have e : pos + x.length - pos = x.length := by omega
        simp only [Nat.sub_self, List.drop_zero, e]
        rw [startsWith_slice _ _ h3]; exact hx
    | cons q pre =>
      simp only [List.cons_append, List.cons.injEq] at h
      obtain ⟨rfl, h⟩ := h
      obtain ⟨i1, i2, i3, i4⟩ := ih pre a b post h
      rw [getLast_getD_cons]
      simp only at i1 i2 i3 i4 ⊢
      refine ⟨by omega, i2, ?_, ?_⟩
      · intro k hk1 hk2 alt halt hne
        have := i3 k hk1 hk2 alt halt hne
        rw [List.drop_drop] at this
        have e : x.length + (k - (pos + x.length)) = k - pos := by omega
        rw [e] at this; exact this
      · rw [List.drop_drop] at i4
        have e : x.length + (a - (pos + x.length)) = a - pos := by omega
        rw [e] at i4
        rw [i4]
        congr 1
        simp only [slice, List.drop_drop, e]
        congr 1; omega
  | case3 pos c t x hx hpos ih => exact absurd (find_alt_some hx).2.1 hpos
  | case4 pos c t hx ih =>
    intro pre a b post h
    obtain ⟨i1, i2, i3, i4⟩ := ih pre a b post h
    have hnone := find_alt_none hx
    have key : ∀ k, pos + 1 ≤ k → (c :: t).drop (k - pos) = t.drop (k - (pos + 1)) := by
      intro k hk
      have e : k - pos = (k - (pos + 1)) + 1 := by omega
      rw [e, List.drop_succ_cons]
    cases pre with
    | nil =>
      simp only [List.getLast?_nil, Option.map_none, Option.getD_none] at i1 i2 i3 ⊢
      refine ⟨Nat.le_refl _, by omega, ?_, ?_⟩
      · intro k hk1 hk2 alt halt hne
        by_cases hk : k = pos
        · subst hk; simpa using hnone alt halt hne
        · rw [key k (by omega)]; exact i3 k (by omega) hk2 alt halt hne
      · rw [key a i2, i4]
        congr 1
        simp only [slice, key a i2]
        congr 1; omega
    | cons q pre =>
      rw [getLast_getD_cons] at i1 i2 i3 ⊢
      refine ⟨by omega, i2, ?_, ?_⟩
      · intro k hk1 hk2 alt halt hne
        rw [key k (by omega)]; exact i3 k hk1 hk2 alt halt hne
      · rw [key a (by omega), i4]
        congr 1
        simp only [slice, key a (by omega)]
        congr 1; omega

theorem scan_leftmost_first (alts : List Bytes) (text : Bytes) (pre : Ranges) (a b : Nat) (post : Ranges)
    (h : scanLiterals alts text = pre ++ (a, b) :: post) :
    let p := (pre.getLast?.map (·.2)).getD 0
    (∀ k, p ≤ k → k < a → ∀ alt ∈ alts, alt ≠ [] → startsWith (text.drop k) alt = false) ∧
    alts.find? (fun x => !x.isEmpty && startsWith (text.drop a) x) = some (slice text a b) := by
  obtain ⟨_, _, h3, h4⟩ := scanFrom_leftmost_first alts 0 text pre a b post h
  exact ⟨h3, h4⟩

theorem scanFrom_complete (alts : List Bytes) (pos : Nat) (text : Bytes) :
    pos ≤ ((scanLiteralsFrom alts pos text).getLast?.map (·.2)).getD pos ∧
    ∀ k, ((scanLiteralsFrom alts pos text).getLast?.map (·.2)).getD pos ≤ k → k < pos + text.length →
      ∀ alt ∈ alts, alt ≠ [] → startsWith (text.drop (k - pos)) alt = false := by
  fun_induction scanLiteralsFrom alts pos text with
  | case1 pos => refine ⟨by simp, ?_⟩; intro k hk1 hk2; simp at hk1 hk2; omega
  | case2 pos c t x hx hpos ih =>
    obtain ⟨i1, i2⟩ := ih
    have hlen := startsWith_length _ _ (find_alt_some hx).2.2
    rw [getLast_getD_cons]
    simp only at i1 i2 ⊢
    refine ⟨by omega, ?_⟩
    intro k hk1 hk2 alt halt hne
    have := i2 k hk1 (by simp only [List.length_drop]; omega) alt halt hne
    rw [List.drop_drop] at this
    have e : x.length + (k - (pos + x.length)) = k - pos := by omega
    rw [e] at this; exact this
  | case3 pos c t x hx hpos ih => exact absurd (find_alt_some hx).2.1 hpos
  | case4 pos c t hx ih =>
    obtain ⟨i1, i2⟩ := ih
    have hnone := find_alt_none hx
    have key : ∀ k, pos + 1 ≤ k → (c :: t).drop (k - pos) = t.drop (k - (pos + 1)) := by
      intro k hk
      have e : k - pos = (k - (pos + 1)) + 1 := by omega
      rw [e, List.drop_succ_cons]
    cases hs : scanLiteralsFrom alts (pos + 1) t with
    | nil =>
      rw [hs] at i1 i2
      simp only [List.getLast?_nil, Option.map_none, Option.getD_none] at i1 i2 ⊢
      refine ⟨Nat.le_refl _, ?_⟩
      intro k hk1 hk2 alt halt hne
      by_cases hk : k = pos
      · subst hk; simpa using hnone alt halt hne
      · rw [key k (by omega)]
        exact i2 k (by omega) (by simp only [List.length_cons] at hk2; omega) alt halt hne
    | cons q rest =>
      rw [hs] at i1 i2
      rw [getLast_getD_cons] at i1 i2 ⊢
      refine ⟨by omega, ?_⟩
      intro k hk1 hk2 alt halt hne
      rw [key k (by omega)]
      exact i2 k hk1 (by simp only [List.length_cons] at hk2; omega) alt halt hne

theorem scan_complete (alts : List Bytes) (text : Bytes) :
    let p := ((scanLiterals alts text).getLast?.map (·.2)).getD 0
    ∀ k, p ≤ k → k < text.length → ∀ alt ∈ alts, alt ≠ [] → startsWith (text.drop k) alt = false := by
  intro p k hk1 hk2
  have := (scanFrom_complete alts 0 text).2 k hk1 (by omega)
  simpa using this

/-- Every match is a non-empty alternative found at its start (absolute form). -/
theorem mem_scan (alts : List Bytes) (text : Bytes) (a b : Nat) (h : (a, b) ∈ scanLiterals alts text) :
    a < text.length ∧ ∃ x ∈ alts, 0 < x.length ∧ startsWith (text.drop a) x = true ∧ b = a + x.length := by
  obtain ⟨_, h2, h3⟩ := mem_scanFrom alts 0 text a b h
  exact ⟨by simpa using h2, by simpa using h3⟩

theorem mem_scan_slice (alts : List Bytes) (text : Bytes) (a b : Nat) (h : (a, b) ∈ scanLiterals alts text) :
    slice text a b ∈ alts ∧ a < b := by
  obtain ⟨_, x, hx, hpos, hsw, rfl⟩ := mem_scan alts text a b h
  have := startsWith_slice _ _ hsw
  simp only [slice, List.drop_drop, Nat.sub_zero, Nat.add_zero] at this
  refine ⟨?_, by omega⟩
  have e : a + x.length - a = x.length := by omega
  simp only [slice, e, this]
  exact hx

theorem scan_aligned (alts : List (List Char)) (cs : List Char) (hne : ∀ a ∈ alts, a ≠ []) :
    Aligned (encodeChars cs) (scanLiterals (alts.map encodeChars) (encodeChars cs)) := by
  intro r hr
  obtain ⟨a, b⟩ := r
  obtain ⟨h2, x, hx, hpos, h3, rfl⟩ := mem_scan _ _ a b hr
  obtain ⟨n, hn, rfl⟩ := List.mem_map.mp hx
  obtain ⟨c, n', rfl⟩ : ∃ c n', n = c :: n' := by
    cases n with
    | nil => exact absurd rfl (hne _ hn)
    | cons c n' => exact ⟨c, n', rfl⟩
  obtain ⟨b0, t, he, hb0, _, _, _⟩ := encodeChar_shape c
  have hN : encodeChars (c :: n') = b0 :: (t ++ encodeChars n') := by
    rw [encodeChars_cons, he]; rfl
  rw [startsWith_iff] at h3
  obtain ⟨r, hr'⟩ := h3
  have hb1 : isBoundary (encodeChars cs) a = true := by
    rw [isBoundary_iff]
    right; right
    refine ⟨h2, ?_⟩
    have : (encodeChars cs).getD a 0 = b0 := by
      have := congrArg (fun l => l.getD 0 0) hr'
      simp only [hN] at this
      simpa [List.getD_eq_getElem?_getD] using this
    rw [this, hb0]
  obtain ⟨p, q, hpq, hl⟩ := boundary_split _ _ hb1 (Nat.le_of_lt h2)
  subst hpq
  rw [encodeChars_append, ← hl, List.drop_left] at hr'
  obtain ⟨b', rfl⟩ := encodeChars_prefix _ _ _ hr'.symm
  refine ⟨hb1, ?_⟩
  have := isBoundary_encodeChars (p ++ c :: n') b'
  rw [encodeChars_append p, List.length_append, hl, List.append_assoc] at this
  exact this

/-! ## first pass: invariants that need no well-formedness -/

variable {S : Type}

theorem lookupSpecial_ok {tk : Tokenizer S} {b : Bytes} {sp : Special} (h : tk.lookupSpecial b = .ok sp) :
    sp ∈ tk.specials ∧ sp.bytes = b := by
  unfold Tokenizer.lookupSpecial at h
  split at h
  · rename_i s hs
    injection h with h; subst h
    exact ⟨List.mem_of_find?_eq_some hs, by simpa using List.find?_some hs⟩
  · cases h

theorem strSlice_ok {text : Bytes} {a b : Nat} {seg : Bytes} (h : strSlice text a b = .ok seg) :
    seg = slice text a b := by
  unfold strSlice at h
  split at h
  · injection h with h; exact h.symm
  · cases h

/-- A part is either ordinary or the text of an admitted special token with that token's id. -/
def PartOk (tk : Tokenizer S) (enc : Bool) (p : TextPart) : Prop :=
  p.special ≠ INVALID → ∃ s ∈ tk.specials, s.id = p.special ∧ s.bytes = p.text ∧ Tokenizer.admitted enc s = true

theorem partOk_ordinary (tk : Tokenizer S) (enc : Bool) (t : Bytes) : PartOk tk enc ⟨t, INVALID⟩ :=
  fun h => absurd rfl h

theorem partOk_special (tk : Tokenizer S) (enc : Bool) (stext : Bytes) (sp : Special)
    (h : tk.lookupSpecial stext = .ok sp) :
    PartOk tk enc ⟨stext, if Tokenizer.admitted enc sp then sp.id else INVALID⟩ := by
  obtain ⟨h1, h2⟩ := lookupSpecial_ok h
  intro hne
  by_cases ha : Tokenizer.admitted enc sp = true
  · simp only [ha, if_true] at hne ⊢
    exact ⟨sp, h1, rfl, h2, ha⟩
  · simp only [ha] at hne; exact absurd rfl hne

/-- Normalization of one stretch, appended as an ordinary part. -/
def normPart (tk : Tokenizer S) (ext : Ext) (seg : Bytes) (pos : Position) (acc : List TextPart) :
    Out (List TextPart) :=
  match tk.normSegment ext seg pos with
  | .res (.ok t) => .res (.ok (acc ++ [⟨t, INVALID⟩]))
  | .res (.err e) => .res (.err e)
  | .res (.panic p) => .res (.panic p)
  | .miss w => .miss w

/-- The `before` computation of stage A. -/
def beforeA (tk : Tokenizer S) (ext : Ext) (text : Bytes) (posit a : Nat) (acc : List TextPart) :
    Out (List TextPart) :=
  if a > posit then
    match strSlice text posit a with
    | .ok seg => normPart tk ext seg ⟨posit, false⟩ acc
    | .err e => .res (.err e)
    | .panic p => .res (.panic p)
  else .res (.ok acc)

theorem stageAGo_nil (tk : Tokenizer S) (ext : Ext) (text : Bytes) (enc : Bool) (posit : Nat) (acc : List TextPart) :
    tk.stageAGo ext text enc [] posit acc =
      if posit < text.length then normPart tk ext (text.drop posit) ⟨posit, true⟩ acc else .res (.ok acc) := by
  simp only [Tokenizer.stageAGo, normPart]
  rfl

theorem stageAGo_cons (tk : Tokenizer S) (ext : Ext) (text : Bytes) (enc : Bool) (a b : Nat) (ms : Ranges)
    (posit : Nat) (acc : List TextPart) :
    tk.stageAGo ext text enc ((a, b) :: ms) posit acc =
      if posit < text.length then
        match beforeA tk ext text posit a acc with
        | .res (.ok acc) =>
          match strSlice text a b with
          | .ok stext =>
            match tk.lookupSpecial stext with
            | .ok sp =>
              tk.stageAGo ext text enc ms b (acc ++ [⟨stext, if Tokenizer.admitted enc sp then sp.id else INVALID⟩])
            | .err e => .res (.err e)
            | .panic p => .res (.panic p)
          | .err e => .res (.err e)
          | .panic p => .res (.panic p)
        | other => other
      else .res (.ok acc) := by
  simp only [Tokenizer.stageAGo, beforeA, normPart]
  rfl

theorem normPart_ok {tk : Tokenizer S} {ext : Ext} {seg : Bytes} {pos : Position} {acc ps : List TextPart}
    (h : normPart tk ext seg pos acc = .res (.ok ps)) : ∃ t, ps = acc ++ [⟨t, INVALID⟩] := by
  unfold normPart at h
  split at h
  · injection h with h; injection h with h; exact ⟨_, h.symm⟩
  all_goals cases h

theorem beforeA_ok {tk : Tokenizer S} {ext : Ext} {text : Bytes} {posit a : Nat} {acc ps : List TextPart}
    (h : beforeA tk ext text posit a acc = .res (.ok ps)) : ps = acc ∨ ∃ t, ps = acc ++ [⟨t, INVALID⟩] := by
  unfold beforeA at h
  split at h
  · split at h
    · exact Or.inr (normPart_ok h)
    all_goals cases h
  · injection h with h; injection h with h; exact Or.inl h.symm

theorem partOk_append_ordinary {tk : Tokenizer S} {enc : Bool} {acc ps : List TextPart}
    (hacc : ∀ p ∈ acc, PartOk tk enc p) (h : ps = acc ∨ ∃ t, ps = acc ++ [⟨t, INVALID⟩]) :
    ∀ p ∈ ps, PartOk tk enc p := by
  rcases h with rfl | ⟨t, rfl⟩
  · exact hacc
  · intro p hp
    rcases List.mem_append.mp hp with hp | hp
    · exact hacc p hp
    · simp only [List.mem_singleton] at hp; subst hp; exact partOk_ordinary tk enc t

theorem stageAGo_partOk (tk : Tokenizer S) (ext : Ext) (text : Bytes) (enc : Bool) (ms : Ranges) :
    ∀ (posit : Nat) (acc ps : List TextPart), (∀ p ∈ acc, PartOk tk enc p) →
      tk.stageAGo ext text enc ms posit acc = .res (.ok ps) → ∀ p ∈ ps, PartOk tk enc p := by
  induction ms with
  | nil =>
    intro posit acc ps hacc h
    rw [stageAGo_nil] at h
    split at h
    · exact partOk_append_ordinary hacc (Or.inr (normPart_ok h))
    · injection h with h; injection h with h; subst h; exact hacc
  | cons m ms ih =>
    obtain ⟨a, b⟩ := m
    intro posit acc ps hacc h
    rw [stageAGo_cons] at h
    split at h
    · split at h
      · rename_i acc' hbefore
        have hacc' := partOk_append_ordinary hacc (beforeA_ok hbefore)
        split at h
        · split at h
          · rename_i stext _ _ sp hsp
            refine ih b _ ps ?_ h
            intro p hp
            rcases List.mem_append.mp hp with hp | hp
            · exact hacc' p hp
            · simp only [List.mem_singleton] at hp; subst hp; exact partOk_special tk enc stext sp hsp
          all_goals cases h
        all_goals cases h
      · rename_i hother
        exact absurd h (hother ps)
    · injection h with h; injection h with h; subst h; exact hacc

theorem stageA_special_atomic (tk : Tokenizer S) (ext : Ext) (text : Bytes) (enc : Bool) (ps : List TextPart)
    (h : tk.stageA ext text enc = .res (.ok ps)) :
    ∀ p ∈ ps, p.special ≠ INVALID →
      ∃ s ∈ tk.specials, s.id = p.special ∧ s.bytes = p.text ∧ Tokenizer.admitted enc s :=
  stageAGo_partOk tk ext text enc _ 0 [] ps (by simp) h

theorem admitted_false {s : Special} (h : Tokenizer.admitted false s = true) : s.kind ≠ .control := by
  simpa [Tokenizer.admitted] using h

theorem stageA_no_control (tk : Tokenizer S) (ext : Ext) (text : Bytes) (ps : List TextPart)
    (h : tk.stageA ext text false = .res (.ok ps)) :
    ∀ p ∈ ps, p.special ≠ INVALID →
      ∃ s ∈ tk.specials, s.kind ≠ .control ∧ s.id = p.special ∧ s.bytes = p.text := by
  intro p hp hne
  obtain ⟨s, hs, h1, h2, h3⟩ := stageA_special_atomic tk ext text false ps h p hp hne
  exact ⟨s, hs, admitted_false h3, h1, h2⟩

/-! ## second pass: the admitted matches -/

theorem second_pass_mode_independent (tk : Tokenizer S) (ptext : Bytes) :
    ((secondPassAll tk ptext).filter fun m => Tokenizer.admitted false m.2.2) =
      ((secondPassAll tk ptext).filter fun m => Tokenizer.admitted true m.2.2).filter fun m => m.2.2.kind != .control := by
  rw [List.filter_filter]
  congr 1
  funext m
  simp [Tokenizer.admitted]

theorem scanFrom_all_empty (alts : List Bytes) (h : alts.all (·.isEmpty) = true) (pos : Nat) (text : Bytes) :
    scanLiteralsFrom alts pos text = [] := by
  fun_induction scanLiteralsFrom alts pos text with
  | case1 pos => rfl
  | case2 pos c t x hx hpos ih =>
    obtain ⟨h1, h2, _⟩ := find_alt_some hx
    have := List.all_eq_true.mp h x h1
    simp only [List.isEmpty_iff] at this
    subst this; simp at h2
  | case3 pos c t x hx hpos ih => exact ih
  | case4 pos c t hx ih => exact ih

/-- One step of the `find_iter … map … filter` fold. -/
def spStep (tk : Tokenizer S) (enc : Bool) (ptext : Bytes) (acc : Res (List (Nat × Nat × Id))) (r : Nat × Nat) :
    Res (List (Nat × Nat × Id)) :=
  match acc with
  | .ok l =>
    match tk.lookupSpecial (slice ptext r.1 r.2) with
    | .ok sp => if Tokenizer.admitted enc sp then .ok (l ++ [(r.1, r.2, sp.id)]) else .ok l
    | .err e => .err e
    | .panic p => .panic p
  | other => other

theorem secondPassMatches_def (tk : Tokenizer S) (enc : Bool) (ptext : Bytes) :
    tk.secondPassMatches enc ptext =
      if tk.specialAlts.all (·.isEmpty) then .ok []
      else (scanLiterals tk.specialAlts ptext).foldl (spStep tk enc ptext) (.ok []) := by
  unfold Tokenizer.secondPassMatches
  split
  · rfl
  · congr 1

def spAll (tk : Tokenizer S) (ptext : Bytes) (r : Nat × Nat) : Option (Nat × Nat × Special) :=
  (tk.specials.find? (·.bytes == slice ptext r.1 r.2)).map fun sp => (r.1, r.2, sp)

theorem secondPassAll_def (tk : Tokenizer S) (ptext : Bytes) :
    secondPassAll tk ptext = (scanLiterals tk.specialAlts ptext).filterMap (spAll tk ptext) := rfl

theorem spFold_eq (tk : Tokenizer S) (enc : Bool) (ptext : Bytes) (ms : Ranges)
    (hm : ∀ r ∈ ms, ∃ s ∈ tk.specials, s.bytes = slice ptext r.1 r.2) :
    ∀ l, ms.foldl (spStep tk enc ptext) (.ok l) =
      .ok (l ++ (((ms.filterMap (spAll tk ptext)).filter
          fun m => Tokenizer.admitted enc m.2.2).map fun m => (m.1, m.2.1, m.2.2.id))) := by
  induction ms with
  | nil => intro l; simp
  | cons r ms ih =>
    intro l
    obtain ⟨a, b⟩ := r
    obtain ⟨s, hs, hsb⟩ := hm (a, b) (List.mem_cons_self ..)
    have hsome : ∃ sp, tk.specials.find? (·.bytes == slice ptext a b) = some sp := by
      cases hf : tk.specials.find? (·.bytes == slice ptext a b) with
      | some sp => exact ⟨sp, rfl⟩
      | none =>
        have := List.find?_eq_none.mp hf s hs
        simp [hsb] at this
    obtain ⟨sp, hsp⟩ := hsome
    have hm' : ∀ r ∈ ms, ∃ s ∈ tk.specials, s.bytes = slice ptext r.1 r.2 :=
      fun r hr => hm r (List.mem_cons_of_mem _ hr)
    have e1 : spAll tk ptext (a, b) = some (a, b, sp) := by simp only [spAll, hsp, Option.map_some]
    have e2 : spStep tk enc ptext (.ok l) (a, b) =
        if Tokenizer.admitted enc sp then .ok (l ++ [(a, b, sp.id)]) else .ok l := by
      simp only [spStep, Tokenizer.lookupSpecial, hsp]
    rw [List.foldl_cons, e2, List.filterMap_cons_some e1, List.filter_cons]
    cases ha : Tokenizer.admitted enc sp with
    | true =>
      simp only [if_true, List.map_cons]
      rw [ih hm' (l ++ [(a, b, sp.id)])]
      simp
    | false =>
      simp only [Bool.false_eq_true, if_false]
      rw [ih hm' l]

theorem secondPassMatches_eq (tk : Tokenizer S) (_hw : SpecialsWF tk.specials) (enc : Bool) (ptext : Bytes) :
    tk.secondPassMatches enc ptext =
      .ok (((secondPassAll tk ptext).filter fun m => Tokenizer.admitted enc m.2.2).map fun m => (m.1, m.2.1, m.2.2.id)) := by
  rw [secondPassMatches_def]
  split
  · rename_i h
    simp [secondPassAll, scanLiterals, scanFrom_all_empty _ h]
  · rw [spFold_eq tk enc ptext _ ?_ [], secondPassAll_def]
    · simp
    · intro r hr
      obtain ⟨a, b⟩ := r
      have := (mem_scan_slice _ _ a b hr).1
      simp only [Tokenizer.specialAlts, List.mem_map, List.mem_filter] at this
      obtain ⟨s, ⟨hs, _⟩, hsb⟩ := this
      exact ⟨s, hs, hsb⟩

/-! ## token post-processing -/

theorem processSteps_provenance (steps : List Processing) :
    ∀ (ts out : List Id), processSteps steps ts = .ok out →
      ∀ id ∈ out, id ∈ ts ∨ ∃ n s d, Processing.pad id n s d ∈ steps := by
  induction steps with
  | nil =>
    intro ts out h id hid
    simp only [processSteps] at h
    injection h with h; subst h; exact Or.inl hid
  | cons p ps ih =>
    intro ts out h id hid
    simp only [processSteps] at h
    cases hp : p.process ts with
    | err e => rw [hp] at h; cases h
    | panic e => rw [hp] at h; cases h
    | ok mid =>
      rw [hp] at h
      simp only [Res.bind_ok] at h
      rcases ih mid out h id hid with hmid | ⟨n, s, d, hpad⟩
      · have : id ∈ ts ∨ ∃ n s d, p = Processing.pad id n s d := by
          cases p with
          | strip i l r =>
            simp only [Processing.process, processStrip] at hp
            split at hp
            · cases hp
            · injection hp with hp; subst hp
              exact Or.inl (List.mem_of_mem_drop (List.mem_of_mem_take hmid))
          | collapse i =>
            simp only [Processing.process] at hp
            injection hp with hp; subst hp
            rw [processCollapse_eq_spec] at hmid
            exact Or.inl ((collapseSpec_sublist i ts).subset hmid)
          | pad i len stride dir =>
            simp only [Processing.process, processPad] at hp
            injection hp with hp; subst hp
            split at hmid
            · exact Or.inl hmid
            · cases dir <;> simp only [List.mem_append, List.mem_replicate] at hmid
              · rcases hmid with ⟨_, rfl⟩ | hmid
                · exact Or.inr ⟨_, _, _, rfl⟩
                · exact Or.inl hmid
              · rcases hmid with hmid | ⟨_, rfl⟩
                · exact Or.inl hmid
                · exact Or.inr ⟨_, _, _, rfl⟩
          | truncate len stride dir =>
            simp only [Processing.process, processTruncate] at hp
            split at hp
            · injection hp with hp; subst hp; exact Or.inl hmid
            · cases dir <;> simp only at hp <;> split at hp
              · cases hp
              · injection hp with hp; subst hp; exact Or.inl (List.mem_of_mem_drop hmid)
              · cases hp
              · injection hp with hp; subst hp; exact Or.inl (List.mem_of_mem_take hmid)
        rcases this with h1 | ⟨n, s, d, rfl⟩
        · exact Or.inl h1
        · exact Or.inr ⟨n, s, d, List.mem_cons_self ..⟩
      · exact Or.inr ⟨n, s, d, List.mem_cons_of_mem _ hpad⟩

theorem process_ids_provenance (steps : List Processing) (ts out : List Id) (h : configProcess steps ts = .ok out) :
    ∀ id ∈ out, id ∈ ts ∨ ∃ n s d, Processing.pad id n s d ∈ steps := by
  unfold configProcess at h
  split at h
  · injection h with h; subst h; exact fun id hid => Or.inl hid
  · exact processSteps_provenance steps ts out h

/-! ## second pass: invariants that need no well-formedness -/

/-- One step of the piece fold in `splitPieces`. -/
def pieceStep (ptext : Bytes) (posit : Nat) (acc : Res (List TextPart)) (r : Nat × Nat) : Res (List TextPart) :=
  match acc with
  | .ok ps =>
    if r.2 > r.1 then
      match strSlice ptext (posit + r.1) (posit + r.2) with
      | .ok t => .ok (ps ++ [⟨t, INVALID⟩])
      | .err e => .err e
      | .panic p => .panic p
    else .ok ps
  | other => other

theorem splitPieces_def (tk : Tokenizer S) (ext : Ext) (ptext : Bytes) (posit stop : Nat) :
    tk.splitPieces ext ptext posit stop =
      match strSlice ptext posit stop with
      | .ok seg =>
        match configSplit ext.split tk.config.split seg with
        | none => .miss "split"
        | some rs => .res (rs.foldl (pieceStep ptext posit) (.ok []))
      | .err e => .res (.err e)
      | .panic p => .res (.panic p) := by
  unfold Tokenizer.splitPieces
  rfl

theorem pieceFold_ordinary (ptext : Bytes) (posit : Nat) (rs : Ranges) :
    ∀ (init : Res (List TextPart)) (ps : List TextPart),
      (∀ l, init = .ok l → ∀ p ∈ l, p.special = INVALID) →
      rs.foldl (pieceStep ptext posit) init = .ok ps → ∀ p ∈ ps, p.special = INVALID := by
  induction rs with
  | nil => intro init ps hi h; exact hi ps h
  | cons r rs ih =>
    intro init ps hi h
    rw [List.foldl_cons] at h
    refine ih _ ps ?_ h
    intro l hl
    unfold pieceStep at hl
    split at hl
    · rename_i l0
      have h0 := hi l0 rfl
      split at hl
      · split at hl
        · injection hl with hl; subst hl
          intro p hp
          rcases List.mem_append.mp hp with hp | hp
          · exact h0 p hp
          · simp only [List.mem_singleton] at hp; subst hp; rfl
        all_goals cases hl
      · injection hl with hl; subst hl; exact h0
    · exact hi l hl

theorem splitPieces_ordinary {tk : Tokenizer S} {ext : Ext} {ptext : Bytes} {posit stop : Nat} {ps : List TextPart}
    (h : tk.splitPieces ext ptext posit stop = .res (.ok ps)) : ∀ p ∈ ps, p.special = INVALID := by
  rw [splitPieces_def] at h
  split at h
  · split at h
    · cases h
    · injection h with h
      exact pieceFold_ordinary ptext posit _ _ ps (by intro l hl; injection hl with hl; subst hl; simp) h
  all_goals cases h

/-- A part is ordinary or carries the id of a special token admitted in this mode. -/
def IdOk (tk : Tokenizer S) (enc : Bool) (p : TextPart) : Prop :=
  p.special ≠ INVALID → ∃ s ∈ tk.specials, Tokenizer.admitted enc s = true ∧ s.id = p.special

theorem idOk_of_ordinary (tk : Tokenizer S) (enc : Bool) {p : TextPart} (h : p.special = INVALID) : IdOk tk enc p :=
  fun hne => absurd h hne

theorem idOk_of_partOk {tk : Tokenizer S} {enc : Bool} {p : TextPart} (h : PartOk tk enc p) : IdOk tk enc p := by
  intro hne
  obtain ⟨s, hs, h1, _, h3⟩ := h hne
  exact ⟨s, hs, h3, h1⟩

/-- Matches handed to `stageBGo` carry ids of admitted special tokens. -/
def MatchesOk (tk : Tokenizer S) (enc : Bool) (ms : List (Nat × Nat × Id)) : Prop :=
  ∀ m ∈ ms, ∃ s ∈ tk.specials, Tokenizer.admitted enc s = true ∧ s.id = m.2.2

theorem spFold_ok (tk : Tokenizer S) (enc : Bool) (ptext : Bytes) (rs : Ranges) :
    ∀ (init : Res (List (Nat × Nat × Id))) (ms : List (Nat × Nat × Id)),
      (∀ l, init = .ok l → MatchesOk tk enc l) →
      rs.foldl (spStep tk enc ptext) init = .ok ms → MatchesOk tk enc ms := by
  induction rs with
  | nil => intro init ms hi h; exact hi ms h
  | cons r rs ih =>
    intro init ms hi h
    rw [List.foldl_cons] at h
    refine ih _ ms ?_ h
    intro l hl
    unfold spStep at hl
    split at hl
    · rename_i l0
      have h0 := hi l0 rfl
      split at hl
      · rename_i sp hsp
        split at hl
        · rename_i ha
          injection hl with hl; subst hl
          intro m hm
          rcases List.mem_append.mp hm with hm | hm
          · exact h0 m hm
          · simp only [List.mem_singleton] at hm; subst hm
            exact ⟨sp, (lookupSpecial_ok hsp).1, ha, rfl⟩
        · injection hl with hl; subst hl; exact h0
      all_goals cases hl
    · exact hi l hl

theorem secondPassMatches_ok {tk : Tokenizer S} {enc : Bool} {ptext : Bytes} {ms : List (Nat × Nat × Id)}
    (h : tk.secondPassMatches enc ptext = .ok ms) : MatchesOk tk enc ms := by
  rw [secondPassMatches_def] at h
  split at h
  · injection h with h; subst h; intro m hm; simp at hm
  · exact spFold_ok tk enc ptext _ _ ms (by intro l hl; injection hl with hl; subst hl; intro m hm; simp at hm) h

/-- The `before` computation of stage B. -/
def beforeB (tk : Tokenizer S) (ext : Ext) (ptext : Bytes) (posit a : Nat) (acc : List TextPart) :
    Out (List TextPart) :=
  if a > posit then
    match tk.splitPieces ext ptext posit a with
    | .res (.ok ps) => .res (.ok (acc ++ ps))
    | other => other
  else .res (.ok acc)

theorem stageBGo_nil (tk : Tokenizer S) (ext : Ext) (ptext : Bytes) (posit : Nat) (acc : List TextPart) :
    tk.stageBGo ext ptext [] posit acc =
      if posit < ptext.length then
        match tk.splitPieces ext ptext posit ptext.length with
        | .res (.ok ps) => .res (.ok (acc ++ ps))
        | other => other
      else .res (.ok acc) := by
  simp only [Tokenizer.stageBGo]
  rfl

theorem stageBGo_cons (tk : Tokenizer S) (ext : Ext) (ptext : Bytes) (a b : Nat) (id : Id)
    (ms : List (Nat × Nat × Id)) (posit : Nat) (acc : List TextPart) :
    tk.stageBGo ext ptext ((a, b, id) :: ms) posit acc =
      if posit < ptext.length then
        match beforeB tk ext ptext posit a acc with
        | .res (.ok acc) =>
          match strSlice ptext a b with
          | .ok stext => tk.stageBGo ext ptext ms b (acc ++ [⟨stext, id⟩])
          | .err e => .res (.err e)
          | .panic p => .res (.panic p)
        | other => other
      else .res (.ok acc) := by
  simp only [Tokenizer.stageBGo, beforeB]
  rfl

theorem beforeB_ok {tk : Tokenizer S} {ext : Ext} {ptext : Bytes} {posit a : Nat} {acc ps : List TextPart}
    (h : beforeB tk ext ptext posit a acc = .res (.ok ps)) :
    ∃ qs, ps = acc ++ qs ∧ ∀ p ∈ qs, p.special = INVALID := by
  unfold beforeB at h
  split at h
  · split at h
    · rename_i qs hq
      injection h with h; injection h with h
      exact ⟨qs, h.symm, splitPieces_ordinary hq⟩
    · rename_i hother
      exact absurd h (by intro h; rw [h] at hother; exact hother _ rfl)
  · injection h with h; injection h with h; exact ⟨[], by simp [h], by simp⟩

theorem idOk_append_ordinary {tk : Tokenizer S} {enc : Bool} {acc qs : List TextPart}
    (hacc : ∀ p ∈ acc, IdOk tk enc p) (hq : ∀ p ∈ qs, p.special = INVALID) :
    ∀ p ∈ acc ++ qs, IdOk tk enc p := by
  intro p hp
  rcases List.mem_append.mp hp with hp | hp
  · exact hacc p hp
  · exact idOk_of_ordinary tk enc (hq p hp)

theorem stageBGo_idOk (tk : Tokenizer S) (ext : Ext) (enc : Bool) (ptext : Bytes) (ms : List (Nat × Nat × Id)) :
    ∀ (posit : Nat) (acc ps : List TextPart), MatchesOk tk enc ms → (∀ p ∈ acc, IdOk tk enc p) →
      tk.stageBGo ext ptext ms posit acc = .res (.ok ps) → ∀ p ∈ ps, IdOk tk enc p := by
  induction ms with
  | nil =>
    intro posit acc ps _ hacc h
    rw [stageBGo_nil] at h
    split at h
    · split at h
      · rename_i qs hq
        injection h with h; injection h with h; subst h
        exact idOk_append_ordinary hacc (splitPieces_ordinary hq)
      · rename_i hother
        exact absurd h (by intro h; rw [h] at hother; exact hother _ rfl)
    · injection h with h; injection h with h; subst h; exact hacc
  | cons m ms ih =>
    obtain ⟨a, b, id⟩ := m
    intro posit acc ps hms hacc h
    rw [stageBGo_cons] at h
    split at h
    · split at h
      · rename_i acc' hbefore
        obtain ⟨qs, rfl, hq⟩ := beforeB_ok hbefore
        have hacc' := idOk_append_ordinary hacc hq
        split at h
        · rename_i stext _
          refine ih b _ ps (fun m hm => hms m (List.mem_cons_of_mem _ hm)) ?_ h
          intro p hp
          rcases List.mem_append.mp hp with hp | hp
          · exact hacc' p hp
          · simp only [List.mem_singleton] at hp; subst hp
            intro _
            exact hms (a, b, id) (List.mem_cons_self ..)
        all_goals cases h
      · rename_i hother
        exact absurd h (hother ps)
    · injection h with h; injection h with h; subst h; exact hacc

theorem stageB_idOk (tk : Tokenizer S) (ext : Ext) (enc : Bool) (parts : List TextPart) :
    ∀ (acc ps : List TextPart), (∀ p ∈ parts, IdOk tk enc p) → (∀ p ∈ acc, IdOk tk enc p) →
      tk.stageB ext enc parts acc = .res (.ok ps) → ∀ p ∈ ps, IdOk tk enc p := by
  induction parts with
  | nil =>
    intro acc ps _ hacc h
    simp only [Tokenizer.stageB] at h
    injection h with h; injection h with h; subst h; exact hacc
  | cons q qs ih =>
    intro acc ps hparts hacc h
    have hqs : ∀ p ∈ qs, IdOk tk enc p := fun p hp => hparts p (List.mem_cons_of_mem _ hp)
    rw [Tokenizer.stageB] at h
    split at h
    · refine ih _ ps hqs ?_ h
      intro p hp
      rcases List.mem_append.mp hp with hp | hp
      · exact hacc p hp
      · simp only [List.mem_singleton] at hp; subst hp; exact hparts p (List.mem_cons_self ..)
    · split at h
      · rename_i ms hms
        split at h
        · rename_i acc' hgo
          exact ih _ ps hqs (stageBGo_idOk tk ext enc q.text ms 0 acc acc' (secondPassMatches_ok hms) hacc hgo) h
        · rename_i hother
          exact absurd h (hother ps)
      all_goals cases h

theorem parts_no_control (tk : Tokenizer S) (ext : Ext) (text : Bytes) (ps : List TextPart)
    (h : tk.parts ext text false = .res (.ok ps)) :
    ∀ p ∈ ps, p.special ≠ INVALID → ∃ s ∈ tk.specials, s.kind ≠ .control ∧ s.id = p.special := by
  unfold Tokenizer.parts at h
  split at h
  · rename_i a ha
    have hA : ∀ p ∈ a, IdOk tk false p := fun p hp =>
      idOk_of_partOk (stageAGo_partOk tk ext text false _ 0 [] a (by simp) ha p hp)
    intro p hp hne
    obtain ⟨s, hs, h1, h2⟩ := stageB_idOk tk ext false a [] ps hA (by simp) h p hp hne
    exact ⟨s, hs, admitted_false h1, h2⟩
  · rename_i hother
    exact absurd h (by intro h; rw [h] at hother; exact hother _ rfl)

/-! ## the passes against their cut-wise specification -/

/-- Prepend already produced parts to a result. -/
def seqAcc (acc : List TextPart) (o : Out (List TextPart)) : Out (List TextPart) :=
  match o with
  | .res (.ok qs) => .res (.ok (acc ++ qs))
  | other => other

@[simp] theorem seqAcc_ok (acc qs : List TextPart) : seqAcc acc (.res (.ok qs)) = .res (.ok (acc ++ qs)) := rfl
@[simp] theorem seqAcc_err (acc : List TextPart) (e : Err) : seqAcc acc (.res (.err e)) = .res (.err e) := rfl
@[simp] theorem seqAcc_panic (acc : List TextPart) (e : String) : seqAcc acc (.res (.panic e)) = .res (.panic e) := rfl
@[simp] theorem seqAcc_miss (acc : List TextPart) (e : String) : seqAcc acc (.miss e) = .miss e := rfl

theorem seqAcc_nil (o : Out (List TextPart)) : seqAcc [] o = o := by
  rcases o with (_ | _ | _) | _ <;> simp

theorem seqAcc_seqAcc (acc ps : List TextPart) (o : Out (List TextPart)) :
    seqAcc acc (seqAcc ps o) = seqAcc (acc ++ ps) o := by
  rcases o with (_ | _ | _) | _ <;> simp

@[simp] theorem seqOut_nil : seqOut [] = .res (.ok []) := rfl
@[simp] theorem seqOut_cons_ok (ps : List TextPart) (os : List (Out (List TextPart))) :
    seqOut (.res (.ok ps) :: os) = seqAcc ps (seqOut os) := by
  simp only [seqOut, seqAcc]; rfl
@[simp] theorem seqOut_cons_err (e : Err) (os : List (Out (List TextPart))) :
    seqOut (.res (.err e) :: os) = .res (.err e) := rfl
@[simp] theorem seqOut_cons_panic (e : String) (os : List (Out (List TextPart))) :
    seqOut (.res (.panic e) :: os) = .res (.panic e) := rfl
@[simp] theorem seqOut_cons_miss (e : String) (os : List (Out (List TextPart))) :
    seqOut (.miss e :: os) = .miss e := rfl

theorem seqOut_cons (o : Out (List TextPart)) (os : List (Out (List TextPart))) :
    seqOut (o :: os) = match o with
      | .res (.ok ps) => seqAcc ps (seqOut os)
      | other => other := by
  rcases o with (_ | _ | _) | _ <;> simp

theorem strSlice_eq {text : Bytes} {a b : Nat} (h1 : a ≤ b) (h2 : b ≤ text.length)
    (h3 : isBoundary text a = true) (h4 : isBoundary text b = true) : strSlice text a b = .ok (slice text a b) := by
  simp [strSlice, h1, h2, h3, h4]

theorem chain_le (len : Nat) : ∀ (ms : Ranges) (f : Nat), Chain len f ms → f ≤ len := by
  intro ms
  induction ms with
  | nil => intro f h; exact h
  | cons m ms ih =>
    intro f h; obtain ⟨s, e⟩ := m
    simp only [Chain] at h
    have := ih e h.2.2; omega

theorem normPart_acc (tk : Tokenizer S) (ext : Ext) (seg : Bytes) (pos : Position) (acc : List TextPart) :
    normPart tk ext seg pos acc = seqAcc acc (normPart tk ext seg pos []) := by
  unfold normPart
  rcases tk.normSegment ext seg pos with (_ | _ | _) | _ <;> simp

theorem stageAPart_gap (tk : Tokenizer S) (ext : Ext) (text : Bytes) (enc : Bool) (s e : Nat) (toEnd : Bool) :
    stageAPart tk ext text enc (.gap s e toEnd) = normPart tk ext (slice text s e) ⟨s, toEnd⟩ [] := by
  simp only [stageAPart, normPart, List.nil_append]
  rfl

theorem slice_to_end (text : Bytes) (p : Nat) : slice text p text.length = text.drop p := by
  simp only [slice]
  exact List.take_of_length_le (by simp)

theorem stageAGo_eq (tk : Tokenizer S) (ext : Ext) (text : Bytes) (enc : Bool) (ms : Ranges) :
    ∀ (posit : Nat) (acc : List TextPart), Chain text.length posit ms → Aligned text ms →
      isBoundary text posit = true →
      tk.stageAGo ext text enc ms posit acc =
        seqAcc acc (seqOut ((cuts text.length posit ms).map (stageAPart tk ext text enc))) := by
  induction ms with
  | nil =>
    intro posit acc _ _ _
    rw [stageAGo_nil]
    simp only [cuts]
    split
    · simp only [List.map_cons, List.map_nil, stageAPart_gap, slice_to_end]
      rw [normPart_acc, seqOut_cons]
      rcases normPart tk ext (List.drop posit text) ⟨posit, true⟩ [] with (_ | _ | _) | _ <;> simp
    · simp
  | cons m ms ih =>
    obtain ⟨a, b⟩ := m
    intro posit acc hch hal hb
    simp only [Chain] at hch
    obtain ⟨hpa, hab, hch'⟩ := hch
    have hblen := chain_le _ _ _ hch'
    obtain ⟨hba, hbb⟩ := hal (a, b) (List.mem_cons_self ..)
    have hal' : Aligned text ms := fun r hr => hal r (List.mem_cons_of_mem _ hr)
    have hs2 := strSlice_eq hab hblen hba hbb
    rw [stageAGo_cons]
    simp only [cuts]
    split
    · -- the hit and the rest, for any accumulator
      have hit : ∀ acc' : List TextPart,
          (match strSlice text a b with
            | .ok stext =>
              match tk.lookupSpecial stext with
              | .ok sp =>
                tk.stageAGo ext text enc ms b (acc' ++ [⟨stext, if Tokenizer.admitted enc sp then sp.id else INVALID⟩])
              | .err e => .res (.err e)
              | .panic p => .res (.panic p)
            | .err e => .res (.err e)
            | .panic p => .res (.panic p)) =
          seqAcc acc' (seqOut ((Cut.hit a b :: cuts text.length b ms).map (stageAPart tk ext text enc))) := by
        intro acc'
        rw [hs2]
        simp only [List.map_cons, stageAPart]
        cases hl : tk.lookupSpecial (slice text a b) with
        | ok sp =>
          simp only [seqOut_cons_ok, seqAcc_seqAcc]
          exact ih b _ hch' hal' hbb
        | err e => simp
        | panic e => simp
      by_cases hgt : a > posit
      · have hs1 := strSlice_eq (Nat.le_of_lt hgt) (by omega : a ≤ text.length) hb hba
        simp only [beforeA, hgt, if_true, hs1, List.cons_append, List.nil_append, List.map_cons, stageAPart_gap]
        rw [normPart_acc, seqOut_cons]
        rcases hn : normPart tk ext (slice text posit a) ⟨posit, false⟩ [] with (t | _ | _) | _
        · simp only [seqAcc_ok, seqAcc_seqAcc]
          exact hit _
        all_goals simp
      · simp only [beforeA, hgt, if_false, List.nil_append]
        exact hit acc
    · simp

theorem exists_char_alts (l : List Bytes) (h1 : ∀ b ∈ l, b ≠ []) (h2 : ∀ b ∈ l, validUtf8 b = true) :
    ∃ alts : List (List Char), l = alts.map encodeChars ∧ ∀ a ∈ alts, a ≠ [] := by
  induction l with
  | nil => exact ⟨[], rfl, by simp⟩
  | cons b l ih =>
    obtain ⟨alts, rfl, hne⟩ := ih (fun x hx => h1 x (List.mem_cons_of_mem _ hx))
      (fun x hx => h2 x (List.mem_cons_of_mem _ hx))
    obtain ⟨cs, rfl⟩ := exists_chars_of_validUtf8 b (h2 b (List.mem_cons_self ..))
    refine ⟨cs :: alts, rfl, ?_⟩
    intro a ha
    rcases List.mem_cons.mp ha with rfl | ha
    · intro hnil; subst hnil
      exact h1 _ (List.mem_cons_self ..) rfl
    · exact hne a ha

/-- Scanning valid UTF-8 for the texts of (a sublist of) well-formed specials gives aligned matches. -/
theorem scan_specials_aligned (specials : List Special) (hw : SpecialsWF specials) (f : Special → Bool)
    (cs : List Char) :
    Aligned (encodeChars cs) (scanLiterals ((specials.filter f).map (·.bytes)) (encodeChars cs)) := by
  obtain ⟨alts, he, hne⟩ := exists_char_alts ((specials.filter f).map (·.bytes))
    (by
      intro b hb
      obtain ⟨s, hs, rfl⟩ := List.mem_map.mp hb
      exact hw.nonempty s (List.mem_filter.mp hs).1)
    (by
      intro b hb
      obtain ⟨s, hs, rfl⟩ := List.mem_map.mp hb
      exact hw.utf8 s (List.mem_filter.mp hs).1)
  rw [he]
  exact scan_aligned alts cs hne

theorem isBoundary_zero (text : Bytes) : isBoundary text 0 = true := by simp [isBoundary]

theorem stageA_eq_spec (tk : Tokenizer S) (hw : SpecialsWF tk.specials) (ext : Ext) (cs : List Char) (enc : Bool) :
    tk.stageA ext (encodeChars cs) enc = stageASpec tk ext (encodeChars cs) enc := by
  unfold Tokenizer.stageA stageASpec
  simp only
  rw [stageAGo_eq, seqAcc_nil]
  · split
    · simp [Chain]
    · exact scan_chain _ _
  · split
    · intro r hr; simp at hr
    · exact scan_specials_aligned tk.specials hw _ cs
  · exact isBoundary_zero _

/-! ### second pass -/

/-- The range of a second-pass match. -/
abbrev rng (m : Nat × Nat × Id) : Nat × Nat := (m.1, m.2.1)

theorem chain_lower (len : Nat) : ∀ (rs : Ranges) (f : Nat), Chain len f rs → ∀ r ∈ rs, f ≤ r.1 := by
  intro rs
  induction rs with
  | nil => intro f _ r hr; simp at hr
  | cons q rs ih =>
    intro f h r hr
    obtain ⟨s, e⟩ := q
    simp only [Chain] at h
    rcases List.mem_cons.mp hr with rfl | hr
    · exact h.1
    · have := ih e h.2.2 r hr; omega

theorem find_key (len : Nat) : ∀ (ms : List (Nat × Nat × Id)) (f : Nat), Chain len f (ms.map rng) →
    (∀ m ∈ ms, m.1 < m.2.1) →
    ∀ m ∈ ms, ms.find? (fun m' => m'.1 == m.1 && m'.2.1 == m.2.1) = some m := by
  intro ms
  induction ms with
  | nil => intro f _ _ m hm; simp at hm
  | cons q ms ih =>
    intro f hch hlt m hm
    obtain ⟨a, b, id⟩ := q
    simp only [List.map_cons, Chain] at hch
    rcases List.mem_cons.mp hm with rfl | hm
    · simp
    · have h1 := chain_lower len _ _ hch.2.2 (rng m) (List.mem_map_of_mem hm)
      have h2 := hlt (a, b, id) (List.mem_cons_self ..)
      simp only at h1 h2
      have hne : (a == m.1) = false := by simp; omega
      rw [List.find?_cons]
      simp only [hne, Bool.false_and]
      exact ih b hch.2.2 (fun m hm => hlt m (List.mem_cons_of_mem _ hm)) m hm

theorem seqOut_single (o : Out (List TextPart)) : seqOut [o] = o := by
  rcases o with (_ | _ | _) | _ <;> simp

theorem stageBGo_eq (tk : Tokenizer S) (ext : Ext) (ptext : Bytes) (ids : List (Nat × Nat × Id))
    (ms : List (Nat × Nat × Id)) :
    ∀ (posit : Nat) (acc : List TextPart), Chain ptext.length posit (ms.map rng) → Aligned ptext (ms.map rng) →
      (∀ m ∈ ms, ids.find? (fun m' => m'.1 == m.1 && m'.2.1 == m.2.1) = some m) →
      tk.stageBGo ext ptext ms posit acc =
        seqAcc acc (seqOut ((cuts ptext.length posit (ms.map rng)).map (stageBPart tk ext ptext ids))) := by
  induction ms with
  | nil =>
    intro posit acc _ _ _
    rw [stageBGo_nil]
    simp only [List.map_nil, cuts]
    split
    · simp only [List.map_cons, List.map_nil, stageBPart, seqOut_single]
      rcases tk.splitPieces ext ptext posit ptext.length with (_ | _ | _) | _ <;> simp
    · simp
  | cons m ms ih =>
    obtain ⟨a, b, id⟩ := m
    intro posit acc hch hal hfind
    simp only [List.map_cons, Chain] at hch
    obtain ⟨hpa, hab, hch'⟩ := hch
    have hblen := chain_le _ _ _ hch'
    obtain ⟨hba, hbb⟩ := hal (a, b) (by simp)
    have hal' : Aligned ptext (ms.map rng) := fun r hr => hal r (by simp only [List.map_cons]; exact List.mem_cons_of_mem _ hr)
    have hs2 := strSlice_eq hab hblen hba hbb
    have hf := hfind (a, b, id) (List.mem_cons_self ..)
    simp only at hf
    rw [stageBGo_cons]
    simp only [List.map_cons, cuts]
    split
    · have hit : ∀ acc' : List TextPart,
          (match strSlice ptext a b with
            | .ok stext => tk.stageBGo ext ptext ms b (acc' ++ [⟨stext, id⟩])
            | .err e => .res (.err e)
            | .panic p => .res (.panic p)) =
          seqAcc acc' (seqOut ((Cut.hit a b :: cuts ptext.length b (ms.map rng)).map (stageBPart tk ext ptext ids))) := by
        intro acc'
        rw [hs2]
        simp only [List.map_cons, stageBPart, hf, seqOut_cons_ok, seqAcc_seqAcc]
        exact ih b _ hch' hal' (fun m hm => hfind m (List.mem_cons_of_mem _ hm))
      by_cases hgt : a > posit
      · simp only [beforeB, hgt, if_true, List.cons_append, List.nil_append, List.map_cons]
        rw [seqOut_cons]
        simp only [stageBPart]
        rcases tk.splitPieces ext ptext posit a with (t | _ | _) | _
        · simp only [seqAcc_seqAcc]
          exact hit _
        all_goals simp
      · simp only [beforeB, hgt, if_false, List.nil_append]
        exact hit acc
    · simp

theorem spAll_sublist (tk : Tokenizer S) (ptext : Bytes) (l : Ranges) :
    List.Sublist ((l.filterMap (spAll tk ptext)).map fun m => (m.1, m.2.1)) l := by
  induction l with
  | nil => simp
  | cons r l ih =>
    cases h : spAll tk ptext r with
    | none => rw [List.filterMap_cons_none h]; exact List.Sublist.cons _ ih
    | some m =>
      rw [List.filterMap_cons_some h, List.map_cons]
      have : (m.1, m.2.1) = r := by
        unfold spAll at h
        cases hf : tk.specials.find? (·.bytes == slice ptext r.1 r.2) with
        | none => rw [hf] at h; simp at h
        | some sp => rw [hf] at h; simp only [Option.map_some, Option.some.injEq] at h; subst h; rfl
      rw [this]
      exact List.Sublist.cons_cons _ ih

/-- The admitted second-pass matches, as `stageBSpecPart` writes them. -/
def bMatches (tk : Tokenizer S) (enc : Bool) (ptext : Bytes) : List (Nat × Nat × Id) :=
  ((secondPassAll tk ptext).filter fun m => Tokenizer.admitted enc m.2.2).map fun m => (m.1, m.2.1, m.2.2.id)

theorem bMatches_sublist (tk : Tokenizer S) (enc : Bool) (ptext : Bytes) :
    List.Sublist ((bMatches tk enc ptext).map rng) (scanLiterals tk.specialAlts ptext) := by
  unfold bMatches
  rw [List.map_map]
  have : (rng ∘ fun m : Nat × Nat × Special => (m.1, m.2.1, m.2.2.id)) = fun m => (m.1, m.2.1) := rfl
  rw [this, secondPassAll_def]
  exact (List.Sublist.map _ List.filter_sublist).trans (spAll_sublist tk ptext _)

theorem stageBSpecPart_ordinary (tk : Tokenizer S) (ext : Ext) (enc : Bool) (p : TextPart)
    (h : (p.special != INVALID) = false) :
    stageBSpecPart tk ext enc p =
      seqOut ((cuts p.text.length 0 ((bMatches tk enc p.text).map rng)).map
        (stageBPart tk ext p.text (bMatches tk enc p.text))) := by
  unfold stageBSpecPart
  simp only [h, Bool.false_eq_true, if_false]
  rfl

theorem stageB_eq (tk : Tokenizer S) (hw : SpecialsWF tk.specials) (ext : Ext) (enc : Bool) (parts : List TextPart) :
    ∀ (acc : List TextPart), (∀ p ∈ parts, p.special = INVALID → ∃ cs, p.text = encodeChars cs) →
      tk.stageB ext enc parts acc = seqAcc acc (stageBSpec tk ext enc parts) := by
  induction parts with
  | nil => intro acc _; simp [Tokenizer.stageB, stageBSpec]
  | cons p ps ih =>
    intro acc hv
    have hv' : ∀ q ∈ ps, q.special = INVALID → ∃ cs, q.text = encodeChars cs :=
      fun q hq => hv q (List.mem_cons_of_mem _ hq)
    rw [Tokenizer.stageB]
    simp only [stageBSpec, List.map_cons]
    cases hsp : (p.special != INVALID) with
    | true =>
      simp only [if_true]
      rw [ih _ hv']
      have : stageBSpecPart tk ext enc p = .res (.ok [p]) := by simp [stageBSpecPart, hsp]
      rw [this, seqOut_cons_ok, seqAcc_seqAcc]
      rfl
    | false =>
      simp only [Bool.false_eq_true, if_false]
      have hinv : p.special = INVALID := by simpa using hsp
      obtain ⟨cs, hcs⟩ := hv p (List.mem_cons_self ..) hinv
      have hsub := bMatches_sublist tk enc p.text
      have hchain : Chain p.text.length 0 ((bMatches tk enc p.text).map rng) :=
        chain_sublist _ _ _ 0 hsub (scan_chain _ _)
      have hal : Aligned p.text ((bMatches tk enc p.text).map rng) := by
        intro r hr
        have := scan_specials_aligned tk.specials hw (!·.extract) cs
        rw [← hcs] at this
        exact this r (hsub.subset hr)
      have hlt : ∀ m ∈ bMatches tk enc p.text, m.1 < m.2.1 := by
        intro m hm
        have : rng m ∈ scanLiterals tk.specialAlts p.text := hsub.subset (List.mem_map_of_mem hm)
        exact (mem_scan_slice _ _ _ _ this).2
      have hfind := find_key _ _ 0 hchain hlt
      rw [secondPassMatches_eq tk hw enc p.text]
      simp only
      have hgo := stageBGo_eq tk ext p.text (bMatches tk enc p.text) (bMatches tk enc p.text) 0 acc hchain hal hfind
      rw [← stageBSpecPart_ordinary tk ext enc p hsp] at hgo
      change (match tk.stageBGo ext p.text (bMatches tk enc p.text) 0 acc with
        | .res (.ok acc') => tk.stageB ext enc ps acc'
        | other => other) = _
      rw [hgo, seqOut_cons]
      rcases stageBSpecPart tk ext enc p with (qs | _ | _) | _
      · simp only [seqAcc_ok, seqAcc_seqAcc]
        exact ih _ hv'
      all_goals simp

theorem stageB_eq_spec (tk : Tokenizer S) (hw : SpecialsWF tk.specials) (ext : Ext) (enc : Bool) (parts : List TextPart)
    (hv : ∀ p ∈ parts, p.special = INVALID → ∃ cs, p.text = encodeChars cs) :
    tk.stageB ext enc parts [] = stageBSpec tk ext enc parts := by
  rw [stageB_eq tk hw ext enc parts [] hv, seqAcc_nil]

end Kitoken.Proofs.Pipeline
