/-
  Lemmas for C17, part 3: a decoder applied to a proper prefix of what its encoder wrote fails
  (`TruncFails`), for every primitive and preserved by every combinator of Kitoken.Model.Codec
  (together with the codec law `LawAt` for the parts that precede the cut). Core Lean only.
-/
import Kitoken.Proofs.CodecBasic
namespace Kitoken.Proofs.Load

open Kitoken Kitoken.Codec Kitoken.Utf8 Kitoken.Proofs.Codec

/-- The decoder `d` rejects every proper prefix of the byte string `e`. -/
def TruncFails (d : Bytes → Option (α × Bytes)) (e : Bytes) : Prop := ∀ p, p <+: e → p ≠ e → d p = none

/-- `TruncFails` for a codec at a value. -/
abbrev CTrunc (c : Codec α) (x : α) : Prop := TruncFails c.dec (c.enc x)

/-! ## chaining -/

/-- A proper prefix of `e₁ ++ e₂` is a proper prefix of `e₁`, or `e₁` followed by a proper prefix of `e₂`. -/
theorem prefix_append_cases {p e₁ e₂ : Bytes} (hp : p <+: e₁ ++ e₂) (hne : p ≠ e₁ ++ e₂) :
    (p <+: e₁ ∧ p ≠ e₁) ∨ ∃ p', p = e₁ ++ p' ∧ p' <+: e₂ ∧ p' ≠ e₂ := by
  rcases List.prefix_or_prefix_of_prefix hp (List.prefix_append e₁ e₂) with h | h
  · by_cases he : p = e₁
    · right
      refine ⟨[], by simp [he], List.nil_prefix, ?_⟩
      intro h2; apply hne; rw [he, ← h2, List.append_nil]
    · exact Or.inl ⟨h, he⟩
  · right
    obtain ⟨p', rfl⟩ := h
    refine ⟨p', rfl, (List.prefix_append_right_inj e₁).mp hp, ?_⟩
    intro h2; apply hne; rw [h2]

/-- One step of a `do` block: the first decoder either sees a proper prefix of its own part, or reads
    its part back and the continuation sees a proper prefix of the remainder. -/
theorem trunc_bind {d : Bytes → Option (α × Bytes)} {g : α × Bytes → Option (β × Bytes)} {e₁ e₂ p : Bytes} {x : α}
    (hp : p <+: e₁ ++ e₂) (hne : p ≠ e₁ ++ e₂)
    (h1 : TruncFails d e₁) (hl : ∀ r, d (e₁ ++ r) = some (x, r))
    (h2 : ∀ p', p' <+: e₂ → p' ≠ e₂ → g (x, p') = none) : (d p).bind g = none := by
  rcases prefix_append_cases hp hne with ⟨h, he⟩ | ⟨p', rfl, h, he⟩
  · rw [h1 p h he]; rfl
  · rw [hl p']; exact h2 p' h he

/-- The last step of a `do` block. -/
theorem trunc_last {d : Bytes → Option (α × Bytes)} {g : α × Bytes → Option (β × Bytes)} {e p : Bytes}
    (hp : p <+: e) (hne : p ≠ e) (h1 : TruncFails d e) : (d p).bind g = none := by
  rw [h1 p hp hne]; rfl

theorem trunc_map {d : Bytes → Option (α × Bytes)} {e : Bytes} (h : TruncFails d e) (f : α × Bytes → β × Bytes) :
    TruncFails (fun bs => (d bs).map f) e := by
  intro p hp hne
  simp only [h p hp hne, Option.map_none]

/-! ## varints -/

theorem decVarint_trunc (mb lm : Nat) : ∀ (fuel n shift acc : Nat) (p : Bytes),
    p <+: encVarint n → p ≠ encVarint n → decVarint mb lm fuel shift acc p = none := by
  intro fuel
  induction fuel with
  | zero => intro n shift acc p _ _; simp [decVarint]
  | succ f ih =>
    intro n shift acc p hp hne
    cases p with
    | nil => simp [decVarint]
    | cons b t =>
      by_cases hn : n < 128
      · rw [encVarint_small n hn] at hp hne
        simp only [List.cons_prefix_cons, List.prefix_nil] at hp
        obtain ⟨rfl, rfl⟩ := hp
        exact absurd rfl hne
      · rw [encVarint_big n hn] at hp hne
        simp only [List.cons_prefix_cons] at hp
        obtain ⟨rfl, ht⟩ := hp
        have hne' : t ≠ encVarint (n / 128) := by
          intro h; apply hne; rw [h]
        simp only [decVarint]
        rw [toNat_ofNat8 _ (by omega)]
        have h1 : ¬ (n % 128 + 128 < 128) := by omega
        simp only [h1, if_false]
        split
        · rfl
        · exact ih _ _ _ t ht hne'

theorem varint_trunc (mb lm fuel n : Nat) : TruncFails (fun bs => decVarint mb lm fuel 0 0 bs) (encVarint n) :=
  fun p hp hne => decVarint_trunc mb lm fuel n 0 0 p hp hne

theorem varU32_trunc (n : Nat) : CTrunc varU32 n := varint_trunc 5 15 5 n
theorem varUsize_trunc (n : Nat) : CTrunc varUsize n := varint_trunc 10 1 10 n
theorem u32_trunc (x : UInt32) : CTrunc Codec.u32 x := trunc_map (varint_trunc 5 15 5 x.toNat) _

/-! ## fixed-size scalars -/

theorem bool_trunc (b : Bool) : CTrunc Codec.bool b := by
  intro p hp hne
  simp only [Codec.bool] at hp hne ⊢
  cases p with
  | nil => rfl
  | cons a t =>
    simp only [List.cons_prefix_cons, List.prefix_nil] at hp
    obtain ⟨rfl, rfl⟩ := hp
    exact absurd rfl hne

theorem f32bits_trunc (u : UInt32) : CTrunc Codec.f32bits u := by
  intro p hp hne
  simp only [Codec.f32bits] at hp hne ⊢
  have hl := hp.length_le
  have hl' : p.length ≠ 4 := fun h => hne (hp.eq_of_length (by simpa using h))
  simp only [List.length_cons, List.length_nil] at hl
  match p, hl, hl' with
  | [], _, _ => rfl
  | [_], _, _ => rfl
  | [_, _], _, _ => rfl
  | [_, _, _], _, _ => rfl
  | [_, _, _, _], _, h => exact absurd rfl h
  | _ :: _ :: _ :: _ :: _ :: _, h, _ => simp only [List.length_cons] at h; omega

/-! ## byte strings -/

theorem takeN_short : ∀ (n : Nat) (p : Bytes), p.length < n → takeN n p = none := by
  intro n
  induction n with
  | zero => intro p h; omega
  | succ n ih =>
    intro p h
    cases p with
    | nil => rfl
    | cons b t =>
      simp only [List.length_cons] at h
      simp only [takeN, ih t (by omega), Option.map_none]

theorem takeN_trunc {b p : Bytes} (hp : p <+: b) (hne : p ≠ b) : takeN b.length p = none := by
  apply takeN_short
  have := hp.length_le
  have : p.length ≠ b.length := fun h => hne (hp.eq_of_length h)
  omega

theorem bytes_trunc (b : Bytes) (h : b.length < 2 ^ 64) : CTrunc Codec.bytes b := by
  intro p hp hne
  simp only [Codec.bytes, Option.bind_eq_bind] at hp hne ⊢
  refine trunc_bind hp hne (varint_trunc 10 1 10 _) (decVarint_usize _ h) ?_
  intro p' hp' hne'
  exact takeN_trunc hp' hne'

theorem str_trunc (b : Bytes) (h : b.length < 2 ^ 64) : CTrunc Codec.str b := by
  intro p hp hne
  simp only [Codec.str, Option.bind_eq_bind] at hp hne ⊢
  refine trunc_bind hp hne (varint_trunc 10 1 10 _) (decVarint_usize _ h) ?_
  intro p' hp' hne'
  simp only [takeN_trunc hp' hne', Option.bind_none]

theorem char_trunc (c : Char) : CTrunc Codec.char c := by
  intro p hp hne
  have hl : (encodeChar c).length ≤ 4 := by
    rw [encodeChar_length]
    have := c.utf8Size_le_four
    omega
  simp only [Codec.char, Option.bind_eq_bind] at hp hne ⊢
  refine trunc_bind hp hne (varint_trunc 10 1 10 _) (decVarint_usize _ (by omega)) ?_
  intro p' hp' hne'
  have : ¬ (encodeChar c).length > 4 := by omega
  simp only [this, if_false, takeN_trunc hp' hne', Option.bind_none]

theorem bytes_trunc_of_small (b : Bytes) (h : (Codec.bytes.enc b).length < 2 ^ 64) : CTrunc Codec.bytes b := by
  apply bytes_trunc
  rw [bytes_enc_length] at h; omega

theorem str_trunc_of_small (b : Bytes) (h : (Codec.str.enc b).length < 2 ^ 64) : CTrunc Codec.str b := by
  apply str_trunc
  rw [str_enc_length] at h; omega

/-! ## combinators -/

theorem option_trunc (c : Codec α) (x : Option α) (h : ∀ y, x = some y → CTrunc c y) : CTrunc (Codec.option c) x := by
  intro p hp hne
  cases x with
  | none =>
    simp only [Codec.option] at hp hne ⊢
    cases p with
    | nil => rfl
    | cons a t =>
      simp only [List.cons_prefix_cons, List.prefix_nil] at hp
      obtain ⟨rfl, rfl⟩ := hp
      exact absurd rfl hne
  | some y =>
    simp only [Codec.option] at hp hne ⊢
    cases p with
    | nil => rfl
    | cons a t =>
      simp only [List.cons_prefix_cons] at hp
      obtain ⟨rfl, ht⟩ := hp
      have hne' : t ≠ c.enc y := by intro e; apply hne; rw [e]
      simp only [h y rfl t ht hne', Option.map_none]

theorem pair_trunc (a : Codec α) (b : Codec β) (x : α) (y : β) (hla : LawAt a x) (hta : CTrunc a x)
    (htb : CTrunc b y) : CTrunc (Codec.pair a b) (x, y) := by
  intro p hp hne
  simp only [Codec.pair, Option.bind_eq_bind] at hp hne ⊢
  refine trunc_bind hp hne hta hla ?_
  intro p' hp' hne'
  exact trunc_last hp' hne' htb

theorem pair_trunc_of_small (a : Codec α) (b : Codec β) (x : α) (y : β)
    (hs : ((Codec.pair a b).enc (x, y)).length < 2 ^ 64)
    (hla : (a.enc x).length < 2 ^ 64 → LawAt a x) (hta : (a.enc x).length < 2 ^ 64 → CTrunc a x)
    (htb : (b.enc y).length < 2 ^ 64 → CTrunc b y) : CTrunc (Codec.pair a b) (x, y) := by
  have hs' : (a.enc x ++ b.enc y).length < 2 ^ 64 := hs
  simp only [List.length_append] at hs'
  exact pair_trunc a b x y (hla (by omega)) (hta (by omega)) (htb (by omega))

theorem iso_trunc (c : Codec α) (to : α → β) (back : β → α) (y : β) (h : CTrunc c (back y)) :
    CTrunc (Codec.iso c to back) y :=
  trunc_map h _

theorem field_trunc (name : String) (c : Codec α) (x : α) (h : CTrunc c x) : CTrunc (Codec.field name c) x := h
theorem struct_trunc (name : String) (c : Codec α) (x : α) (h : CTrunc c x) : CTrunc (Codec.struct name c) x := h
theorem tuple_trunc (c : Codec α) (x : α) (h : CTrunc c x) : CTrunc (Codec.tuple c) x := h

theorem decList_trunc (c : Codec α) (l : List α) (hl : ∀ x ∈ l, LawAt c x) (ht : ∀ x ∈ l, CTrunc c x) :
    TruncFails (decList c.dec l.length) (l.flatMap c.enc) := by
  induction l with
  | nil =>
    intro p hp hne
    simp only [List.flatMap_nil, List.prefix_nil] at hp hne
    exact absurd hp hne
  | cons x xs ih =>
    intro p hp hne
    have ihx := ih (fun y hy => hl y (List.mem_cons_of_mem _ hy)) (fun y hy => ht y (List.mem_cons_of_mem _ hy))
    simp only [List.flatMap_cons, List.length_cons, decList, Option.bind_eq_bind] at hp hne ⊢
    refine trunc_bind hp hne (ht x List.mem_cons_self) (hl x List.mem_cons_self) ?_
    intro p' hp' hne'
    exact trunc_last hp' hne' ihx

theorem seq_trunc (c : Codec α) (l : List α) (hlen : l.length < 2 ^ 64) (hl : ∀ x ∈ l, LawAt c x)
    (ht : ∀ x ∈ l, CTrunc c x) : CTrunc (Codec.seq c) l := by
  intro p hp hne
  simp only [Codec.seq, Option.bind_eq_bind] at hp hne ⊢
  refine trunc_bind hp hne (varint_trunc 10 1 10 _) (decVarint_usize _ hlen) ?_
  intro p' hp' hne'
  exact decList_trunc c l hl ht p' hp' hne'

theorem seq_trunc_of_small (c : Codec α) (l : List α) (hpos : ∀ x ∈ l, 1 ≤ (c.enc x).length)
    (hs : ((Codec.seq c).enc l).length < 2 ^ 64)
    (hl : ∀ x ∈ l, (c.enc x).length < 2 ^ 64 → LawAt c x)
    (ht : ∀ x ∈ l, (c.enc x).length < 2 ^ 64 → CTrunc c x) : CTrunc (Codec.seq c) l := by
  apply seq_trunc c l
  · have := seq_length_le c l hpos; omega
  · intro x hx
    apply hl x hx
    have := seq_elem_le c l x hx; omega
  · intro x hx
    apply ht x hx
    have := seq_elem_le c l x hx; omega

theorem enum_trunc (name : String) (shapes : List String) (tagOf : α → Nat) (encV : α → Bytes)
    (decV : Nat → Bytes → Option (α × Bytes)) (x : α) (ht : tagOf x < 2 ^ 32)
    (h : TruncFails (decV (tagOf x)) (encV x)) :
    CTrunc (Codec.enum name shapes tagOf encV decV) x := by
  intro p hp hne
  simp only [Codec.enum, Option.bind_eq_bind] at hp hne ⊢
  refine trunc_bind hp hne (varint_trunc 5 15 5 _) (decVarint_u32 _ ht) ?_
  intro p' hp' hne'
  exact h p' hp' hne'

end Kitoken.Proofs.Load
