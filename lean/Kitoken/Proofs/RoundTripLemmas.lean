/-
  Helper lemmas for C01 (round trip): marker normalization / clean-up are inverse, byte-complete BPE
  never reaches a fallback arm and its tokens decode to the parts, the second pass loses no text.
-/
import Kitoken.Proofs.NormalizeLemmas
import Kitoken.Proofs.Utf8Lemmas2
import Kitoken.Proofs.BpeLemmas
import Kitoken.Proofs.BpeEncodeLemmas
import Kitoken.Proofs.PipelineLemmas
import Kitoken.Proofs.SplitLemmas
import Kitoken.Theorems.C08
namespace Kitoken.Proofs.RoundTrip

open Kitoken Kitoken.Spec Kitoken.Utf8

/-! ## literal replacement with a one-unit needle -/

theorem replaceFrom_cons_pos [BEq α] (needle rep : List α) (h : α) (t : List α)
    (hc : 0 < needle.length ∧ startsWith (h :: t) needle = true) :
    replaceFrom needle rep (h :: t) = rep ++ replaceFrom needle rep ((h :: t).drop needle.length) := by
  rw [replaceFrom, dif_pos hc]

theorem replaceFrom_cons_neg [BEq α] (needle rep : List α) (h : α) (t : List α)
    (hc : ¬ (0 < needle.length ∧ startsWith (h :: t) needle = true)) :
    replaceFrom needle rep (h :: t) = h :: replaceFrom needle rep t := by
  rw [replaceFrom, dif_neg hc]

/-- Replacing a one-unit needle is a `flatMap`. -/
theorem replaceAll_single [BEq α] [LawfulBEq α] [DecidableEq α] (a : α) (rep cs : List α) :
    replaceAll [a] rep cs = cs.flatMap fun c => if c = a then rep else [c] := by
  unfold replaceAll
  simp only [List.isEmpty_cons, Bool.false_eq_true, if_false]
  induction cs with
  | nil => simp [replaceFrom]
  | cons c cs ih =>
    by_cases hca : c = a
    · subst hca
      rw [replaceFrom_cons_pos _ _ _ _ (by simp [startsWith])]
      simp [ih]
    · rw [replaceFrom_cons_neg _ _ _ _ (by simp [startsWith, hca])]
      simp [ih, hca]

/-- Marker in, marker out: on a text without the marker, replacing `s` by `m` and then `m` by `s`
    is the identity. -/
theorem replace_roundtrip (m s : Char) (cs : List Char) (hm : m ∉ cs) :
    replaceAll [m] [s] (replaceAll [s] [m] cs) = cs := by
  rw [replaceAll_single, replaceAll_single]
  induction cs with
  | nil => rfl
  | cons c cs ih =>
    simp only [List.mem_cons, not_or] at hm
    have ih := ih hm.2
    simp only [List.flatMap_cons, List.flatMap_append]
    rw [ih]
    by_cases hcs : c = s
    · subst hcs; simp
    · have hcm : c ≠ m := fun h => hm.1 h.symm
      simp [hcs, hcm]

/-! ## byte-level replacement of one encoded character on valid UTF-8 -/

/-- Continuation bytes are skipped by the scan for a needle that starts with a leading byte. -/
theorem replaceFrom_cont (rep : Bytes) (b0 : UInt8) (nt : Bytes) (hb0 : isCont b0 = false)
    (t rest : Bytes) (ht : ∀ b ∈ t, isCont b = true) :
    replaceFrom (b0 :: nt) rep (t ++ rest) = t ++ replaceFrom (b0 :: nt) rep rest := by
  induction t with
  | nil => rfl
  | cons x t ih =>
    have hx : isCont x = true := ht x (List.mem_cons_self ..)
    have hne : (x == b0) = false := by
      cases hxb : x == b0 with
      | false => rfl
      | true => rw [beq_iff_eq] at hxb; subst hxb; rw [hb0] at hx; cases hx
    rw [List.cons_append, replaceFrom_cons_neg _ _ _ _ (by simp [startsWith, hne])]
    rw [ih (fun b hb => ht b (List.mem_cons_of_mem _ hb))]
    rfl

/-- On valid UTF-8 the byte-level replacement of an encoded character is the character-level one
    (a byte-level occurrence of `encodeChar m` always starts at a character boundary). -/
theorem replaceFrom_encodeChars (m : Char) (rep : Bytes) (cs : List Char) :
    replaceFrom (encodeChar m) rep (encodeChars cs) =
      cs.flatMap fun c => if c = m then rep else encodeChar c := by
  obtain ⟨b0, nt, hem, hb0, _, _, _⟩ := encodeChar_shape m
  induction cs with
  | nil => simp [encodeChars, replaceFrom]
  | cons c cs ih =>
    obtain ⟨c0, ct, hec, _, hct, _, _⟩ := encodeChar_shape c
    rw [encodeChars_cons, List.flatMap_cons]
    by_cases hcm : c = m
    · subst hcm
      have hsw : startsWith (encodeChar c ++ encodeChars cs) (encodeChar c) = true :=
        (startsWith_iff _ _).2 ⟨_, rfl⟩
      have hpos : 0 < (encodeChar c).length := by rw [hec]; simp
      have hcons : encodeChar c ++ encodeChars cs = c0 :: (ct ++ encodeChars cs) := by rw [hec]; rfl
      rw [hcons] at hsw ⊢
      rw [replaceFrom_cons_pos _ _ _ _ ⟨hpos, hsw⟩, ← hcons, List.drop_left, ih]
      simp
    · have hsw : ¬ (startsWith (encodeChar c ++ encodeChars cs) (encodeChar m) = true) := by
        intro h
        obtain ⟨r, hr⟩ := (startsWith_iff _ _).1 h
        have h1 := decodeOne_encodeChar_append c (encodeChars cs)
        have h2 := decodeOne_encodeChar_append m r
        rw [hr, h2] at h1
        simp only [Prod.mk.injEq, Option.some.injEq] at h1
        exact hcm h1.1.symm
      have hcons : encodeChar c ++ encodeChars cs = c0 :: (ct ++ encodeChars cs) := by rw [hec]; rfl
      rw [hcons] at hsw ⊢
      rw [replaceFrom_cons_neg _ _ _ _ (fun h => hsw h.2)]
      rw [hem, replaceFrom_cont rep b0 nt hb0 ct _ hct, ← hem, ih]
      simp [hcm, hec]

theorem replaceAll_encodeChar (m : Char) (rep cs : List Char) :
    replaceAll (encodeChar m) (encodeChars rep) (encodeChars cs) = encodeChars (replaceAll [m] rep cs) := by
  have hne : (encodeChar m).isEmpty = false := by
    have := encodeChar_ne_nil m
    cases h : encodeChar m with
    | nil => exact absurd h this
    | cons _ _ => rfl
  rw [replaceAll, hne, replaceAll_single]
  simp only [Bool.false_eq_true, if_false]
  rw [replaceFrom_encodeChars]
  induction cs with
  | nil => rfl
  | cons c cs ih =>
    simp only [List.flatMap_cons, encodeChars_append, ih]
    by_cases hcm : c = m <;> simp [hcm, encodeChars_singleton]

/-! ## the marker steps -/

theorem replaceAll_single_cons [BEq α] [LawfulBEq α] [DecidableEq α] (a x : α) (rep cs : List α) :
    replaceAll [a] rep (x :: cs) = (if x = a then rep else [x]) ++ replaceAll [a] rep cs := by
  rw [replaceAll_single, replaceAll_single, List.flatMap_cons]

theorem stripSpec_one_zero (m : Char) (cs : List Char) : stripSpec m 1 0 (m :: cs) = cs := by
  simp [stripSpec, leadingCount]

theorem space_bytes : ([32] : Bytes) = encodeChars [' '] := by decide

theorem spm_marker_inverse (next : NormExt) (dext : DecodeExt) (pos : Position) (m : Char) (cs : List Char)
    (hm : m ∉ cs) (_hsp : m ≠ ' ') :
    ∃ t, normalizeSteps next pos [.replace (.string [32]) (encodeChar m), .extend m 1 0 false] (encodeChars cs) = some (.ok t) ∧
      decodeSteps dext [.strip m 1 0, .replace (.char m) [32]] t = some (.ok (encodeChars cs)) := by
  refine ⟨encodeChars (m :: replaceAll [' '] [m] cs), ?_, ?_⟩
  · simp only [normalizeSteps, Normalization.normalize]
    rw [space_bytes, ← encodeChars_singleton m, Normalize.replace_literal_chars, Normalize.extend_chars,
      Normalize.extend_spec_nopad]
    simp
  · simp only [decodeSteps, Decoding.decode, decodeReplace, Option.map_some]
    have hs := Normalize.strip_chars m 1 0 (m :: replaceAll [' '] [m] cs)
    unfold normalizeStrip at hs
    rw [hs, stripSpec_one_zero]
    simp only
    rw [space_bytes, replaceAll_encodeChar, replace_roundtrip m ' ' cs hm]

theorem hf_marker_inverse (next : NormExt) (dext : DecodeExt) (pos : Position) (m : Char) (cs : List Char)
    (hm : m ∉ cs) (_hsp : m ≠ ' ') :
    ∃ t, normalizeSteps next pos [.prepend (encodeChar m), .replace (.string [32]) (encodeChar m)] (encodeChars cs) = some (.ok t) ∧
      decodeSteps dext [.replace (.char m) [32], .strip ' ' 1 0] t = some (.ok (encodeChars cs)) := by
  refine ⟨encodeChars (m :: replaceAll [' '] [m] cs), ?_, ?_⟩
  · simp only [normalizeSteps, Normalization.normalize]
    rw [← encodeChars_cons, space_bytes, ← encodeChars_singleton m, Normalize.replace_literal_chars,
      replaceAll_single_cons]
    by_cases h : m = ' ' <;> simp [h]
  · simp only [decodeSteps, Decoding.decode, decodeReplace, Option.map_some]
    rw [space_bytes, replaceAll_encodeChar, replaceAll_single_cons, replace_roundtrip m ' ' cs hm]
    simp only [if_true, List.singleton_append]
    have hs := Normalize.strip_chars ' ' 1 0 (' ' :: cs)
    unfold normalizeStrip at hs
    rw [hs, stripSpec_one_zero]

/-! ## byte-complete BPE: no fallback arm is reachable -/

/-- The segments after the selected merge are old segments or the merged pair, whose rank is the
    selected one. -/
theorem mem_mergeAt_of_bestPair (rk : Bytes → Nat) (l : List Bytes) (i r : Nat)
    (h : bestPair rk l = some (i, r)) : ∀ s ∈ mergeAt i l, s ∈ l ∨ rk s = r := by
  induction l generalizing i r with
  | nil => simp [bestPair] at h
  | cons a t ih =>
    match t, ih, h with
    | [], _, h => simp [bestPair] at h
    | b :: rest, ih, h =>
      simp only [bestPair] at h
      split at h
      · rename_i j r' hb
        split at h
        · injection h with h; injection h with h1 h2; subst h1; subst h2
          intro s hs
          simp only [mergeAt, List.mem_cons] at hs
          rcases hs with rfl | hs
          · exact Or.inl (List.mem_cons_self ..)
          · rcases ih j r' hb s hs with h' | h'
            · exact Or.inl (List.mem_cons_of_mem _ h')
            · exact Or.inr h'
        · injection h with h; injection h with h1 h2; subst h1; subst h2
          intro s hs
          simp only [mergeAt, List.mem_cons] at hs
          rcases hs with rfl | hs
          · exact Or.inr rfl
          · exact Or.inl (by simp [hs])
      · injection h with h; injection h with h1 h2; subst h1; subst h2
        intro s hs
        simp only [mergeAt, List.mem_cons] at hs
        rcases hs with rfl | hs
        · exact Or.inr rfl
        · exact Or.inl (by simp [hs])

/-- Every final segment of the canonical merge is a unit or was produced by a merge with a proper rank. -/
theorem bpeSpec_all (rk : Bytes → Nat) (P : Bytes → Prop) (hmerge : ∀ s, rk s ≠ MAXR → P s)
    (segs : List Bytes) (h : ∀ s ∈ segs, P s) : ∀ s ∈ bpeSpec rk segs, P s := by
  fun_induction bpeSpec rk segs with
  | case1 segs _ => exact h
  | case2 segs i _ => exact h
  | case3 segs i r hb hr ih =>
    apply ih
    intro s hs
    rcases mem_mergeAt_of_bestPair rk segs i r hb s hs with h' | h'
    · exact h s h'
    · exact hmerge s (by rw [h']; exact hr)

theorem segsOfStarts_range' (piece : Bytes) : ∀ (k a : Nat),
    segsOfStarts piece (List.range' a (k + 1)) = (List.range' a k).map fun i => slice piece i (i + 1) := by
  intro k
  induction k with
  | zero => intro a; rfl
  | succ k ih =>
    intro a
    have h2 : List.range' a (k + 1 + 1) = a :: (a + 1) :: List.range' (a + 1 + 1) k := by
      simp [List.range'_succ]
    have h1 : (a + 1) :: List.range' (a + 1 + 1) k = List.range' (a + 1) (k + 1) := by
      simp [List.range'_succ]
    rw [h2, segsOfStarts, h1, ih (a + 1)]
    simp [List.range'_succ]

/-- The units of a piece in byte mode without suffix are its single bytes. -/
theorem bpeUnits_bytes (piece : Bytes) :
    bpeUnits false 0 piece = (List.range piece.length).map fun i => slice piece i (i + 1) := by
  unfold bpeUnits
  simp only [Bool.false_eq_true, if_false, Nat.sub_zero]
  rw [List.range_eq_range', ← segsOfStarts_range']
  congr 1
  rw [List.range'_concat]
  simp

theorem bpeUnits_single (piece : Bytes) : ∀ s ∈ bpeUnits false 0 piece, ∃ b : UInt8, s = [b] := by
  intro s hs
  rw [bpeUnits_bytes] at hs
  simp only [List.mem_map, List.mem_range] at hs
  obtain ⟨i, hi, rfl⟩ := hs
  have hl := slice_length piece i (i + 1) (by omega)
  match hsl : slice piece i (i + 1), hl with
  | [b], _ => exact ⟨b, rfl⟩
  | [], hl => simp at hl
  | _ :: _ :: _, hl => simp at hl

theorem slices_flatten (piece : Bytes) : ∀ (k a : Nat),
    ((List.range' a k).map fun i => slice piece i (i + 1)).flatten = slice piece a (a + k) := by
  intro k
  induction k with
  | zero => intro a; simp [slice]
  | succ k ih =>
    intro a
    rw [List.range'_succ, List.map_cons, List.flatten_cons, ih (a + 1),
      Bpe.slice_append piece a (a + 1) (a + 1 + k) (by omega) (by omega)]
    congr 1; omega

theorem bpeUnits_flatten (piece : Bytes) : (bpeUnits false 0 piece).flatten = piece := by
  rw [bpeUnits_bytes, List.range_eq_range', slices_flatten]
  simp [slice]

theorem no_fallback_reachable (c : BpeCtx) (_dec : DecCtx) (_wf : BpeWF c)
    (bytes : ∀ b : UInt8, (c.tok [b]).isSome = true)
    (rank_vocab : ∀ s, (c.rank s).isSome = true → (c.tok s).isSome = true) (piece : Bytes) :
    ∀ seg ∈ bpeSpec (Bpe.rankOf c) (bpeUnits false 0 piece), (c.tok seg).isSome = true := by
  apply bpeSpec_all (Bpe.rankOf c) (fun s => (c.tok s).isSome = true)
  · intro s hs
    apply rank_vocab
    cases hr : c.rank s with
    | some _ => rfl
    | none => simp [Bpe.rankOf, hr] at hs
  · intro s hs
    obtain ⟨b, rfl⟩ := bpeUnits_single piece s hs
    exact bytes b

/-! ## byte-complete BPE: the tokens decode to the parts -/

/-- Pointwise relation between two lists of equal length (core Lean has no `Forall₂`). -/
inductive Zip2 {α β : Type} (R : α → β → Prop) : List α → List β → Prop
  | nil : Zip2 R [] []
  | cons {a b l₁ l₂} : R a b → Zip2 R l₁ l₂ → Zip2 R (a :: l₁) (b :: l₂)

theorem Zip2.imp {α β : Type} {R Q : α → β → Prop} (hRQ : ∀ a b, R a b → Q a b) {l₁ : List α} {l₂ : List β}
    (h : Zip2 R l₁ l₂) : Zip2 Q l₁ l₂ := by
  induction h with
  | nil => exact .nil
  | cons hx _ ih => exact .cons (hRQ _ _ hx) ih

/-- When every segment is a vocabulary entry, emission yields exactly the segments' tokens. -/
theorem emitSegments_all (c : BpeCtx) (fb : List Fallback) (srec) (suffixed : Bool) :
    ∀ segs : List Bytes, (∀ seg ∈ segs, (c.tok seg).isSome = true) →
      ∃ ids, emitSegments c fb srec suffixed segs = .ok ids ∧
        Zip2 (fun seg t => c.tok seg = some t) segs ids := by
  intro segs
  induction segs with
  | nil => intro _; exact ⟨[], rfl, .nil⟩
  | cons seg rest ih =>
    intro hall
    obtain ⟨t, ht⟩ := Option.isSome_iff_exists.mp (hall seg (by simp))
    obtain ⟨more, hm, hf⟩ := ih (fun s hs => hall s (by simp [hs]))
    refine ⟨t :: more, ?_, .cons ht hf⟩
    rw [BpeEncode.emitSegments_cons, hm]
    simp [BpeEncode.stepSpec, ht, BpeEncode.specSeq]

theorem bpeSegments_all (c : BpeCtx) (fb : List Fallback) (suffixed : Bool) (units : List Bytes)
    (hall : ∀ seg ∈ bpeSpec (Bpe.rankOf c) units, (c.tok seg).isSome = true) :
    ∃ ids, bpeSegments c fb suffixed units = .ok ids ∧
      Zip2 (fun seg t => c.tok seg = some t) (bpeSpec (Bpe.rankOf c) units) ids := by
  match fb with
  | [] => rw [bpeSegments]; exact emitSegments_all c _ _ suffixed _ hall
  | .unknown :: _ => rw [bpeSegments]; exact emitSegments_all c _ _ suffixed _ hall
  | .skip :: _ => rw [bpeSegments]; exact emitSegments_all c _ _ suffixed _ hall
  | .bytes :: _ => rw [bpeSegments]; exact emitSegments_all c _ _ suffixed _ hall

/-- Ids whose vocabulary entries are the given byte strings decode to their concatenation. -/
theorem decodeDirect_vocab (dec : DecCtx) (ds : Bool) (segs : List Bytes) (ids : List Id)
    (h : Zip2 (fun seg t => dec.vocab t = some seg) segs ids) :
    ∀ acc, decodeDirect dec ds ids acc = .ok (acc ++ segs.flatten) := by
  induction h with
  | nil => intro acc; simp [decodeDirect]
  | cons hx _ ih =>
    intro acc
    simp only [decodeDirect, hx, ih, List.flatten_cons, List.append_assoc]

/-- One part: its tokens decode (special rendering on) to exactly its text. -/
theorem part_roundtrip (c : BpeCtx) (dec : DecCtx)
    (bytes : ∀ b : UInt8, (c.tok [b]).isSome = true) (byteMode : c.chars = false) (noSuffix : c.eow = none)
    (rank_vocab : ∀ s, (c.rank s).isSome = true → (c.tok s).isSome = true)
    (inv : ∀ s t, c.tok s = some t → dec.vocab t = some s) (p : TextPart)
    (hsp : p.special ≠ INVALID → dec.vocab p.special = none ∧ ∃ ctl, dec.special p.special = some (p.text, ctl)) :
    ∃ ids, perPart (bpePieceSpec c) p = .ok ids ∧ decodeDirect dec true ids [] = .ok p.text := by
  by_cases hs : p.special = INVALID
  · have hpp : perPart (bpePieceSpec c) p = bpePieceSpec c p.text := by simp [perPart, hs]
    rw [hpp]
    cases htok : c.tok p.text with
    | some t =>
      refine ⟨[t], by simp [bpePieceSpec, noSuffix, htok], ?_⟩
      simp [decodeDirect, inv _ _ htok]
    | none =>
      have hb : bpePieceSpec c p.text = bpeSegments c c.fallback false (bpeUnits false 0 p.text) := by
        simp [bpePieceSpec, noSuffix, htok, byteMode]
      have hall : ∀ seg ∈ bpeSpec (Bpe.rankOf c) (bpeUnits false 0 p.text), (c.tok seg).isSome = true := by
        apply bpeSpec_all (Bpe.rankOf c) (fun s => (c.tok s).isSome = true)
        · intro s hs
          apply rank_vocab
          cases hr : c.rank s with
          | some _ => rfl
          | none => simp [Bpe.rankOf, hr] at hs
        · intro s hs
          obtain ⟨b, rfl⟩ := bpeUnits_single p.text s hs
          exact bytes b
      obtain ⟨ids, hids, hf⟩ := bpeSegments_all c c.fallback false _ hall
      refine ⟨ids, by rw [hb, hids], ?_⟩
      have hf' : Zip2 (fun seg t => dec.vocab t = some seg)
          (bpeSpec (Bpe.rankOf c) (bpeUnits false 0 p.text)) ids :=
        hf.imp fun _ _ h => inv _ _ h
      rw [decodeDirect_vocab dec true _ ids hf' [], List.nil_append,
        (Bpe.spec_fixpoint _ _).2, bpeUnits_flatten]
  · obtain ⟨hv, ctl, hspc⟩ := hsp hs
    refine ⟨[p.special], by simp [perPart, hs], ?_⟩
    simp [decodeDirect, hv, hspc]

theorem parts_roundtrip (c : BpeCtx) (dec : DecCtx)
    (bytes : ∀ b : UInt8, (c.tok [b]).isSome = true) (byteMode : c.chars = false) (noSuffix : c.eow = none)
    (rank_vocab : ∀ s, (c.rank s).isSome = true → (c.tok s).isSome = true)
    (inv : ∀ s t, c.tok s = some t → dec.vocab t = some s) (parts : List TextPart)
    (hsp : ∀ p ∈ parts, p.special ≠ INVALID → dec.vocab p.special = none ∧ ∃ ctl, dec.special p.special = some (p.text, ctl)) :
    ∃ ids, seqRes (parts.map (perPart (bpePieceSpec c))) = .ok ids ∧
      decodeDirect dec true ids [] = .ok (parts.flatMap fun p => p.text) := by
  induction parts with
  | nil => exact ⟨[], rfl, rfl⟩
  | cons p ps ih =>
    obtain ⟨ids1, h1, d1⟩ := part_roundtrip c dec bytes byteMode noSuffix rank_vocab inv p
      (hsp p (List.mem_cons_self ..))
    obtain ⟨ids2, h2, d2⟩ := ih (fun q hq => hsp q (List.mem_cons_of_mem _ hq))
    refine ⟨ids1 ++ ids2, ?_, ?_⟩
    · simp only [List.map_cons, seqRes, h1, h2]
    · rw [List.flatMap_cons]
      exact C08.decode_append dec true ids1 ids2 _ _ d1 d2

theorem bpe_roundtrip_parts (c : BpeCtx) (dec : DecCtx) (wf : BpeWF c)
    (bytes : ∀ b : UInt8, (c.tok [b]).isSome = true) (byteMode : c.chars = false) (noSuffix : c.eow = none)
    (rank_vocab : ∀ s, (c.rank s).isSome = true → (c.tok s).isSome = true)
    (inv : ∀ s t, c.tok s = some t → dec.vocab t = some s) (parts : List TextPart)
    (hne : ∀ p ∈ parts, p.special = INVALID → p.text ≠ [])
    (hsp : ∀ p ∈ parts, p.special ≠ INVALID → dec.vocab p.special = none ∧ ∃ ctl, dec.special p.special = some (p.text, ctl)) :
    ∃ ids, Bpe.encode c parts = .ok ids ∧
      decodeDirect dec true ids [] = .ok (parts.flatMap fun p => p.text) := by
  obtain ⟨ids, hs, hd⟩ := parts_roundtrip c dec bytes byteMode noSuffix rank_vocab inv parts hsp
  refine ⟨ids, ?_, hd⟩
  have := BpeEncode.encode_eq_flatMap_partial c wf parts hne
    (fun p _ _ hc => by rw [byteMode] at hc; cases hc)
  rw [hs] at this
  exact this

/-! ## the second pass loses no text -/

open Kitoken.Proofs.Pipeline Kitoken.Proofs.Split

variable {S : Type}

/-- Concatenated text of a list of parts. -/
def textOf (ps : List TextPart) : Bytes := ps.flatMap fun p => p.text

theorem textOf_append (a b : List TextPart) : textOf (a ++ b) = textOf a ++ textOf b := by
  simp [textOf]

/-- If every successful element result has the text `g x`, a successful sequence has the concatenated text. -/
theorem seqOut_text {α : Type} (f : α → Out (List TextPart)) (g : α → Bytes) (l : List α)
    (hfg : ∀ x ∈ l, ∀ ps, f x = .res (.ok ps) → textOf ps = g x) :
    ∀ out, seqOut (l.map f) = .res (.ok out) → textOf out = l.flatMap g := by
  induction l with
  | nil =>
    intro out h
    simp only [List.map_nil, seqOut_nil, Out.res.injEq, Res.ok.injEq] at h
    subst h; rfl
  | cons x l ih =>
    intro out h
    rw [List.map_cons, seqOut_cons] at h
    have hx := hfg x (List.mem_cons_self ..)
    have ih := ih (fun y hy => hfg y (List.mem_cons_of_mem _ hy))
    rcases hfx : f x with (ps | _ | _) | _
    · rw [hfx] at h
      simp only at h
      rcases hrest : seqOut (l.map f) with (qs | _ | _) | _
      · rw [hrest] at h
        simp only [seqAcc_ok, Out.res.injEq, Res.ok.injEq] at h
        subst h
        rw [textOf_append, hx ps hfx, ih qs hrest, List.flatMap_cons]
      all_goals (rw [hrest] at h; simp at h)
    all_goals (rw [hfx] at h; simp at h)

theorem tiles_le (len : Nat) : ∀ (rs : Ranges) (f : Nat), Tiles len f rs → f ≤ len := by
  intro rs
  induction rs with
  | nil => intro f h; simp only [Tiles] at h; omega
  | cons r rs ih =>
    intro f h; obtain ⟨s, e⟩ := r
    simp only [Tiles] at h
    have := ih e h.2.2; omega

theorem slice_self {α : Type} (l : List α) (a : Nat) : slice l a a = [] := by simp [slice]

theorem pieceFold_err (ptext : Bytes) (posit : Nat) (e : Err) :
    ∀ rs : Ranges, rs.foldl (pieceStep ptext posit) (.err e) = .err e := by
  intro rs; induction rs with
  | nil => rfl
  | cons r rs ih => rw [List.foldl_cons]; exact ih

theorem pieceFold_panic (ptext : Bytes) (posit : Nat) (e : String) :
    ∀ rs : Ranges, rs.foldl (pieceStep ptext posit) (.panic e) = .panic e := by
  intro rs; induction rs with
  | nil => rfl
  | cons r rs ih => rw [List.foldl_cons]; exact ih

/-- The pieces cut out along a tiling of `[from_, L)` (offsets relative to `posit`) spell that stretch. -/
theorem pieceFold_text (ptext : Bytes) (posit L : Nat) :
    ∀ (rs : Ranges) (from_ : Nat) (init ps : List TextPart), Tiles L from_ rs →
      rs.foldl (pieceStep ptext posit) (.ok init) = .ok ps →
      textOf ps = textOf init ++ slice ptext (posit + from_) (posit + L) := by
  intro rs
  induction rs with
  | nil =>
    intro f init ps ht h
    simp only [Tiles] at ht
    simp only [List.foldl_nil, Res.ok.injEq] at h
    subst h; subst ht
    rw [slice_self, List.append_nil]
  | cons r rs ih =>
    intro f init ps ht h
    obtain ⟨s, e⟩ := r
    simp only [Tiles] at ht
    obtain ⟨rfl, hse, ht'⟩ := ht
    have heL := tiles_le L rs e ht'
    rw [List.foldl_cons] at h
    by_cases hgt : e > s
    · cases hsl : strSlice ptext (posit + s) (posit + e) with
      | ok t =>
        have hstep : pieceStep ptext posit (.ok init) (s, e) = .ok (init ++ [⟨t, INVALID⟩]) := by
          simp [pieceStep, hgt, hsl]
        rw [hstep] at h
        rw [ih e _ ps ht' h, textOf_append, strSlice_ok hsl, List.append_assoc]
        congr 1
        have : textOf [⟨slice ptext (posit + s) (posit + e), INVALID⟩] = slice ptext (posit + s) (posit + e) := by
          simp [textOf]
        rw [this]
        exact Bpe.slice_append ptext _ _ _ (by omega) (by omega)
      | err e' =>
        have hstep : pieceStep ptext posit (.ok init) (s, e) = .err e' := by
          simp [pieceStep, hgt, hsl]
        rw [hstep, pieceFold_err] at h; cases h
      | panic e' =>
        have hstep : pieceStep ptext posit (.ok init) (s, e) = .panic e' := by
          simp [pieceStep, hgt, hsl]
        rw [hstep, pieceFold_panic] at h; cases h
    · have hes : e = s := by omega
      subst hes
      have hstep : pieceStep ptext posit (.ok init) (e, e) = .ok init := by
        simp [pieceStep]
      rw [hstep] at h
      exact ih e init ps ht' h

/-- A stretch that is split by a tiling split comes back as pieces that spell it. -/
theorem splitPieces_text (tk : Tokenizer S) (ext : Ext) (ptext : Bytes) (s e : Nat) (ps : List TextPart)
    (htile : ∀ seg rs, configSplit ext.split tk.config.split seg = some rs →
      Tiles seg.length 0 rs ∧ Aligned seg rs)
    (h : tk.splitPieces ext ptext s e = .res (.ok ps)) : textOf ps = slice ptext s e := by
  rw [splitPieces_def] at h
  cases hsl : strSlice ptext s e with
  | ok seg =>
    rw [hsl] at h
    simp only at h
    have hseg := strSlice_ok hsl
    have hb : s ≤ e ∧ e ≤ ptext.length := by
      unfold strSlice at hsl
      split at hsl
      · rename_i hc; exact ⟨hc.1, hc.2.1⟩
      · cases hsl
    cases hcs : configSplit ext.split tk.config.split seg with
    | none => rw [hcs] at h; cases h
    | some rs =>
      rw [hcs] at h
      simp only [Out.res.injEq] at h
      have ht := (htile seg rs hcs).1
      have hlen : seg.length = e - s := by rw [hseg]; exact slice_length ptext s e hb.2
      rw [hlen] at ht
      have := pieceFold_text ptext s (e - s) rs 0 [] ps ht h
      rw [this]
      have e1 : s + (e - s) = e := by omega
      simp [textOf, e1]
  | err e' => rw [hsl] at h; cases h
  | panic e' => rw [hsl] at h; cases h

/-- The text a cut stands for. -/
def cutText (ptext : Bytes) : Cut → Bytes
  | .gap s e _ => slice ptext s e
  | .hit a b => slice ptext a b

/-- The cuts at a chain of matches cover `[from_, len)` exactly once, in order. -/
theorem cuts_text (ptext : Bytes) : ∀ (ms : Ranges) (from_ : Nat), Chain ptext.length from_ ms →
    (cuts ptext.length from_ ms).flatMap (cutText ptext) = slice ptext from_ ptext.length := by
  intro ms
  induction ms with
  | nil =>
    intro f h
    simp only [cuts]
    split
    · simp [cutText]
    · simp [slice]; omega
  | cons m ms ih =>
    intro f h
    obtain ⟨a, b⟩ := m
    simp only [Chain] at h
    obtain ⟨hfa, hab, hch⟩ := h
    have hbl := chain_le _ _ _ hch
    simp only [cuts]
    split
    · rw [List.flatMap_append, List.flatMap_cons, ih b hch]
      have h2 : cutText ptext (.hit a b) ++ slice ptext b ptext.length = slice ptext a ptext.length := by
        simp only [cutText]; exact Bpe.slice_append ptext a b _ hab hbl
      rw [← List.append_assoc] at *
      by_cases hgt : a > f
      · simp only [hgt, if_true, List.flatMap_cons, List.flatMap_nil, List.append_nil, cutText]
        rw [List.append_assoc]
        have h2' : slice ptext a b ++ slice ptext b ptext.length = slice ptext a ptext.length :=
          Bpe.slice_append ptext a b _ hab hbl
        rw [h2']
        exact Bpe.slice_append ptext f a _ hfa (by omega)
      · have : a = f := by omega
        subst this
        simp only [hgt, if_false, List.flatMap_nil, List.nil_append]
        exact h2
    · simp [slice]; omega

theorem stageBPart_text (tk : Tokenizer S) (ext : Ext) (ptext : Bytes) (ids : List (Nat × Nat × Id))
    (htile : ∀ seg rs, configSplit ext.split tk.config.split seg = some rs →
      Tiles seg.length 0 rs ∧ Aligned seg rs) (c : Cut) (ps : List TextPart)
    (h : stageBPart tk ext ptext ids c = .res (.ok ps)) : textOf ps = cutText ptext c := by
  cases c with
  | gap s e t => exact splitPieces_text tk ext ptext s e ps htile h
  | hit a b =>
    simp only [stageBPart] at h
    split at h
    · simp only [Out.res.injEq, Res.ok.injEq] at h
      subst h; simp [textOf, cutText]
    · cases h

theorem stageBSpecPart_text (tk : Tokenizer S) (ext : Ext) (enc : Bool)
    (htile : ∀ seg rs, configSplit ext.split tk.config.split seg = some rs →
      Tiles seg.length 0 rs ∧ Aligned seg rs) (p : TextPart) (ps : List TextPart)
    (h : stageBSpecPart tk ext enc p = .res (.ok ps)) : textOf ps = p.text := by
  cases hsp : (p.special != INVALID) with
  | true =>
    simp only [stageBSpecPart, hsp, if_true, Out.res.injEq, Res.ok.injEq] at h
    subst h; simp [textOf]
  | false =>
    rw [stageBSpecPart_ordinary tk ext enc p hsp] at h
    have hchain : Chain p.text.length 0 ((bMatches tk enc p.text).map rng) :=
      chain_sublist _ _ _ 0 (bMatches_sublist tk enc p.text) (scan_chain _ _)
    rw [seqOut_text _ (cutText p.text) _ (fun c _ qs hq => stageBPart_text tk ext p.text _ htile c qs hq) ps h,
      cuts_text p.text _ 0 hchain]
    simp [slice]

theorem second_pass_preserves_text (tk : Tokenizer S) (ext : Ext) (enc : Bool) (parts out : List TextPart)
    (htile : ∀ seg rs, configSplit ext.split tk.config.split seg = some rs →
      Tiles seg.length 0 rs ∧ Aligned seg rs)
    (hv : ∀ p ∈ parts, p.special = INVALID → ∃ cs, p.text = encodeChars cs)
    (hw : SpecialsWF tk.specials)
    (h : tk.stageB ext enc parts [] = .res (.ok out)) :
    (out.flatMap fun p => p.text) = (parts.flatMap fun p => p.text) := by
  rw [stageB_eq_spec tk hw ext enc parts hv] at h
  exact seqOut_text (stageBSpecPart tk ext enc) (fun p => p.text) parts
    (fun p _ ps hp => stageBSpecPart_text tk ext enc htile p ps hp) out h

end Kitoken.Proofs.RoundTrip
